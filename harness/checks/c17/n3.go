package c17

import (
	"bufio"
	"bytes"
	"encoding/json"
	"fmt"
	"os"
	"path/filepath"
	"runtime"
	"runtime/debug"
	"runtime/pprof"
	"strconv"
	"strings"
	"sync"
	"time"

	"github.com/gogo/protobuf/proto"

	abci "github.com/tendermint/tendermint/abci/types"
	cstypes "github.com/tendermint/tendermint/consensus/types"
	"github.com/tendermint/tendermint/crypto/ed25519"
	"github.com/tendermint/tendermint/p2p"
	bcproto "github.com/tendermint/tendermint/proto/tendermint/blockchain"
	protomem "github.com/tendermint/tendermint/proto/tendermint/mempool"
	tmp2p "github.com/tendermint/tendermint/proto/tendermint/p2p"
	ssproto "github.com/tendermint/tendermint/proto/tendermint/statesync"
	tmproto "github.com/tendermint/tendermint/proto/tendermint/types"
	"github.com/tendermint/tendermint/types"

	"verif/verdict"
)

const n3GossipSleep = 5 * time.Millisecond

// goroutineCap: an idle node with one peer runs about 50 goroutines; a batch makes up to 250 connections
const goroutineCap = 700

// memoryGuard keeps a positive from taking the machine down.
func memoryGuard(limit uint64) {
	debug.SetMemoryLimit(int64(limit))
	go func() {
		var ms runtime.MemStats
		for {
			time.Sleep(200 * time.Millisecond)
			runtime.ReadMemStats(&ms)
			if ms.HeapAlloc > limit+limit/2 {
				fmt.Fprintf(os.Stderr, "\nMEMORY-WATCHDOG: HeapAlloc=%d exceeds the cap %d\n", ms.HeapAlloc, limit+limit/2)
				os.Exit(90)
			}
		}
	}()
}

func (n *n3Node) live() liveCtx {
	rs := n.conS.GetRoundState()
	lc := liveCtx{H: rs.Height, R: rs.Round, Step: uint32(rs.Step), NVals: 2, LCR: -1}
	if rs.Validators != nil {
		lc.NVals = rs.Validators.Size()
	}
	if rs.LastCommit != nil {
		lc.LCR = rs.LastCommit.GetRound()
	}
	if rs.ProposalBlock != nil && rs.ProposalBlockParts != nil {
		bid := types.BlockID{Hash: rs.ProposalBlock.Hash(), PartSetHeader: rs.ProposalBlockParts.Header()}
		pb := bid.ToProto()
		lc.PropBID = &pb
		if p := rs.ProposalBlockParts.GetPart(0); p != nil {
			if pp, err := p.ToProto(); err == nil {
				lc.Part = pp
			}
		}
	}
	if rs.ProposalBlockParts != nil {
		h := rs.ProposalBlockParts.Header()
		lc.HasParts, lc.PartsTotal, lc.PartsHash = true, h.Total, h.Hash
	}
	if rs.Proposal == nil && rs.Validators != nil && rs.Step <= cstypes.RoundStepPropose {
		if pr := rs.Validators.GetProposer(); pr != nil && bytes.Equal(pr.Address, n.hostAddr) {
			lc.HarnessProposes = true
		}
	}
	if rs.Height > 1 {
		if meta := n.store.LoadBlockMeta(rs.Height - 1); meta != nil {
			lc.PrevBID = meta.BlockID.ToProto()
		}
		if lc.Part == nil {
			if p := n.store.LoadBlockPart(rs.Height-1, 0); p != nil {
				if pp, err := p.ToProto(); err == nil {
					lc.Part = pp
				}
			}
		}
	}
	return lc
}

type n3Child struct {
	c      *verdict.Ctx
	r      *rec
	n      *n3Node
	logF   *os.File
	recent []*n3Input
}

func (ch *n3Child) logInput(in *n3Input) {
	b, _ := json.Marshal(in)
	b = append(b, '\n')
	_, _ = ch.logF.Write(b)
}

// waitProcessed waits until the reactor behind ch has returned from (or panicked in)
// one more Receive, or the node has dropped the hostile peer.
func (ch *n3Child) waitProcessed(reactor string, ret0, pan0 int64) string {
	dl := time.Now().Add(5 * time.Second)
	for i := 0; ; i++ {
		ret, pan := ch.n.receiveCount(reactor)
		if pan > pan0 {
			return "panicked"
		}
		if ret > ret0 {
			return "returned"
		}
		if !ch.n.nodeHasPeer(ch.n.hostile) {
			return "peer-dropped"
		}
		if time.Now().After(dl) {
			return "unobserved"
		}
		if i < 200 {
			runtime.Gosched()
		} else {
			time.Sleep(100 * time.Microsecond)
		}
	}
}

func (ch *n3Child) deliver(in *n3Input) {
	n, r := ch.n, ch.r
	r.Eval()
	p, _, err := n.peerOf(n.hostile)
	if err != nil {
		r.Count("n3.hostile_connect_failed", 1)
		r.Set("n3.last_connect_error", err.Error())
		if r.Counts["n3.hostile_connect_failed"] == 1 {
			r.Set("n3.first_connect_failure", map[string]interface{}{"error": err.Error(), "input": in, "previous_inputs": ch.recentNotes(), "goroutines": goroutineDump()})
		}
		return
	}
	outcome := "ignored"
	send := func(m wireMsg) bool {
		reactor := chanReactor(m.Ch)
		ret0, pan0 := n.receiveCount(reactor)
		if !p.Send(m.Ch, m.B) {
			return false
		}
		switch ch.waitProcessed(reactor, ret0, pan0) {
		case "panicked":
			r.Count("n3.panic_in_receive_recovered_by_connection."+reactor, 1)
			if r.Counts["n3.panic_in_receive_recovered_by_connection."+reactor] <= 2 {
				r.Sample(map[string]interface{}{"stage": "n3", "observation": "panic inside Receive, recovered by MConnection (peer dropped)", "input": in})
			}
		case "unobserved":
			r.Count("n3.message_not_observed."+reactor, 1)
		}
		return true
	}
	okPrefix := true
	for _, m := range in.Prefix {
		if !send(m) {
			okPrefix = false
			break
		}
	}
	if !okPrefix || !n.nodeHasPeer(n.hostile) {
		r.Count("n3.prefix_rejected."+in.State, 1)
	}
	sent := 0
	for _, m := range in.Seq {
		if !n.nodeHasPeer(n.hostile) {
			break
		}
		if !send(m) {
			break
		}
		sent++
	}
	if in.Reactor == "consensus" && n.nodeHasPeer(n.hostile) {
		// let the gossip routines act on the peer state
		if in.DwellMs > 0 {
			if in.Mirror {
				_, _ = n.mirrorTypes(tmproto.PrevoteType) // an honest prevote arrives: the node has new votes to gossip
			}
			time.Sleep(time.Duration(in.DwellMs) * time.Millisecond)
			r.Count("n3.stateful_sequences_with_dwell", 1)
		} else {
			time.Sleep(3 * n3GossipSleep)
		}
	}
	if !n.nodeHasPeer(n.hostile) {
		outcome = "dropped"
	}
	r.Count("n3.inputs."+in.Reactor, 1)
	r.Count("n3.outcome."+in.Reactor+"."+in.Class+"."+outcome, 1)
	r.Count("n3.state."+in.State, 1)
	r.Count("n3.messages_sent", int64(sent))
	var notes []string
	for _, m := range in.Seq {
		notes = append(notes, m.Note)
	}
	r.Distinct("n3", in.Reactor, in.State, in.Class, strings.Join(notes, ";"))
	if in.Index == 7 && in.Batch%5 == 0 {
		r.Sample(map[string]interface{}{"stage": "n3", "input": in, "outcome": outcome})
	}
	// every input gets a connection of its own
	n.disconnect(n.hostile)
}

func (ch *n3Child) recentNotes() []map[string]interface{} {
	var last []map[string]interface{}
	for _, in := range ch.recent {
		var notes []string
		for _, m := range in.Seq {
			notes = append(notes, m.Note)
		}
		last = append(last, map[string]interface{}{"batch": in.Batch, "index": in.Index, "reactor": in.Reactor, "state": in.State, "class": in.Class, "messages": notes})
	}
	return last
}

func goroutineDump() string {
	var buf bytes.Buffer
	_ = pprof.Lookup("goroutine").WriteTo(&buf, 1)
	s := buf.String()
	if len(s) > 20000 {
		s = s[:20000]
	}
	return s
}

func waitUntil(d time.Duration, f func() bool) bool {
	dl := time.Now().Add(d)
	for {
		if f() {
			return true
		}
		if time.Now().After(dl) {
			return false
		}
		time.Sleep(time.Millisecond)
	}
}

// probes: what an honest peer and an honest co-validator expect from a healthy node.
func (ch *n3Child) probes(batch int) {
	n, r := ch.n, ch.r
	fail := func(probe, what string) {
		var last []map[string]interface{}
		for _, in := range ch.recent {
			var notes []string
			for _, m := range in.Seq {
				notes = append(notes, m.Note)
			}
			last = append(last, map[string]interface{}{"batch": in.Batch, "index": in.Index, "reactor": in.Reactor, "state": in.State, "class": in.Class, "messages": notes})
		}
		r.Violation("node-unresponsive-after-hostile-batch:"+probe, what,
			map[string]interface{}{"stream": "n3", "batch": batch, "probe": probe, "last_inputs": last, "inputs_log": "replay the batch: VERIF_C17_STAGE=n3 VERIF_C17_ARG=" + strconv.Itoa(batch), "goroutines": goroutineDump()})
	}
	const wd = 30 * time.Second
	// honest peer: fresh connection (also resets the PEX request rate limiter)
	n.disconnect(n.honest)
	hp, _, err := n.peerOf(n.honest)
	if err != nil {
		fail("connect", "an honest peer cannot connect any more: "+err.Error())
		return
	}
	n.honestR.take()
	var resend func()
	expect := func(probe string, match func(inMsg) bool) bool {
		last := time.Now()
		ok := waitUntil(wd, func() bool {
			for _, m := range n.honestR.take() {
				if match(m) {
					return true
				}
			}
			if resend != nil && time.Since(last) > 5*time.Second {
				last = time.Now()
				resend() // an honest peer asks again (the answers are TrySend-ed and may legitimately be skipped)
			}
			return false
		})
		resend = nil
		if ok {
			r.Count("n3.probe_ok."+probe, 1)
		}
		return ok
	}
	// blockchain: StatusRequest -> StatusResponse
	resend = func() { hp.Send(chBlockchan, mustMarshal((&bcproto.StatusRequest{}).Wrap())) }
	resend()
	if !expect("blockchain-status", func(m inMsg) bool {
		if m.ch != chBlockchan {
			return false
		}
		var msg bcproto.Message
		if proto.Unmarshal(m.b, &msg) != nil {
			return false
		}
		sr := msg.GetStatusResponse()
		return sr != nil && sr.Height >= n.store.Height()-1
	}) {
		fail("blockchain-status", "no StatusResponse to an honest StatusRequest within 30 s")
		return
	}
	// statesync: SnapshotsRequest -> SnapshotsResponse, ChunkRequest -> ChunkResponse
	resend = func() { hp.Send(chSnapshot, mustMarshal((&ssproto.SnapshotsRequest{}).Wrap())) }
	resend()
	if !expect("statesync-snapshots", func(m inMsg) bool {
		var msg ssproto.Message
		if m.ch != chSnapshot || proto.Unmarshal(m.b, &msg) != nil {
			return false
		}
		sr := msg.GetSnapshotsResponse()
		return sr != nil && sr.Height == 1 && bytes.Equal(sr.Hash, snapHash)
	}) {
		fail("statesync-snapshots", "no SnapshotsResponse to an honest SnapshotsRequest within 30 s")
		return
	}
	resend = func() { hp.Send(chChunk, mustMarshal((&ssproto.ChunkRequest{Height: 1, Format: 1, Index: 1}).Wrap())) }
	resend()
	if !expect("statesync-chunk", func(m inMsg) bool {
		var msg ssproto.Message
		if m.ch != chChunk || proto.Unmarshal(m.b, &msg) != nil {
			return false
		}
		cr := msg.GetChunkResponse()
		return cr != nil && cr.Index == 1 && len(cr.Chunk) == 100 && cr.Chunk[0] == 2
	}) {
		fail("statesync-chunk", "no ChunkResponse to an honest ChunkRequest within 30 s")
		return
	}
	// pex: PexRequest -> PexAddrs
	hp.Send(chPex, mustMarshal((&tmp2p.PexRequest{}).Wrap()))
	if !expect("pex-addrs", func(m inMsg) bool {
		var msg tmp2p.Message
		return m.ch == chPex && proto.Unmarshal(m.b, &msg) == nil && msg.GetPexAddrs() != nil
	}) {
		fail("pex-addrs", "no PexAddrs reply to an honest PexRequest within 30 s")
		return
	}
	// mempool: an honest tx is admitted ...
	n.probeSeq++
	key := fmt.Sprintf("c17probe-%d-%d", batch, n.probeSeq)
	tx := []byte(key + "=v")
	// Hostile peers may have filled the mempool with transactions the application accepts (a full
	// mempool refuses further ones by design - property C12's business).  The honest co-validator
	// lets the chain commit them first, and the honest peer offers its transaction again now and then.
	r.Max("n3.max_mempool_size_before_probe", int64(n.mempool.Size()))
	if n.mempool.Size() > 0 {
		_, _ = n.advance(1, 30*time.Second)
	}
	offer := func() { hp.Send(chMempool, mustMarshal((&protomem.Txs{Txs: [][]byte{tx}}).Wrap())) }
	offer()
	lastOffer := time.Now()
	committed := func() bool {
		res, err := n.proxyApp.Query().QuerySync(abci.RequestQuery{Path: "/store", Data: []byte(key)})
		return err == nil && res != nil && string(res.Value) == "v"
	}
	inPool := func() bool {
		for _, t := range n.mempool.ReapMaxTxs(-1) {
			if bytes.Equal(t, tx) {
				return true
			}
		}
		return false
	}
	if !waitUntil(wd, func() bool {
		if inPool() || committed() {
			return true
		}
		if time.Since(lastOffer) > 3*time.Second {
			lastOffer = time.Now()
			if n.mempool.Size() > 0 {
				_, _ = n.advance(1, 10*time.Second)
			}
			offer()
		}
		return false
	}) {
		fail("mempool-checktx", "an honest peer's transaction was not admitted to the mempool within 30 s")
		return
	}
	r.Count("n3.probe_ok.mempool-checktx", 1)
	// evidence: valid duplicate-vote evidence from an honest peer becomes pending
	evOK := true
	if h := n.store.Height(); h-1 >= n.genDoc.InitialHeight {
		ev, err := n.dupVoteEvidence(h-1, ch.c.Rand("n3-evprobe", batch*1000+n.probeSeq))
		if err == nil {
			pb, _ := types.EvidenceToProto(ev)
			hp.Send(chEvidence, mustMarshal(&tmproto.EvidenceList{Evidence: []tmproto.Evidence{*pb}}))
			has := func() bool {
				evs, _ := n.evpool.PendingEvidence(-1)
				for _, e := range evs {
					if bytes.Equal(e.Hash(), ev.Hash()) {
						return true
					}
				}
				// or already committed
				for hh := h; hh <= n.store.Height(); hh++ {
					if b := n.store.LoadBlock(hh); b != nil {
						for _, e := range b.Evidence.Evidence {
							if bytes.Equal(e.Hash(), ev.Hash()) {
								return true
							}
						}
					}
				}
				return false
			}
			evOK = waitUntil(wd, has)
			if evOK {
				r.Count("n3.probe_ok.evidence-admitted", 1)
			}
		} else {
			r.Count("n3.probe_skipped.evidence", 1)
		}
	}
	if !evOK {
		fail("evidence-admitted", "valid duplicate-vote evidence from an honest peer did not become pending within 30 s")
		return
	}
	// ... and consensus: with the co-validator's votes the node commits two more heights, the probe tx among them
	if got, err := n.advance(2, 60*time.Second); err != nil {
		fail("consensus-progress", fmt.Sprintf("with an honest co-validator mirroring its votes the node committed only %d of 2 heights in 60 s: %v", got, err))
		return
	}
	r.Count("n3.probe_ok.consensus-progress", 1)
	if !waitUntil(wd, func() bool {
		if committed() {
			return true
		}
		_, _ = n.advance(1, 10*time.Second)
		return committed()
	}) {
		fail("mempool-tx-committed", "the honest transaction was never committed")
		return
	}
	r.Count("n3.probe_ok.mempool-tx-committed", 1)
	r.Count("n3.heights_committed", 2)
}

// batch list syntax: "3,7:41,11" = batches 3, 7 (starting at input 41) and 11
type batchSpec struct{ b, start int }

func parseBatches(arg string) []batchSpec {
	var out []batchSpec
	for _, f := range strings.Split(arg, ",") {
		f = strings.TrimSpace(f)
		st := 0
		if i := strings.IndexByte(f, ':'); i >= 0 {
			st, _ = strconv.Atoi(f[i+1:])
			f = f[:i]
		}
		if v, err := strconv.Atoi(f); err == nil {
			out = append(out, batchSpec{v, st})
		}
	}
	return out
}

// step modes: in which consensus step of the node a batch delivers its inputs
var n3Modes = []string{"prevote", "precommit", "newheight", "propose", "mixed"}

// driveTo tries (with bounded effort) to bring the node into the wanted step; the step
// actually reached is recorded with every input.
func (ch *n3Child) driveTo(mode string) {
	n := ch.n
	inPrevote := func() bool {
		rs := n.conS.GetRoundState()
		if rs.Step == cstypes.RoundStepPrevote && rs.Votes != nil {
			if vs := rs.Votes.Prevotes(rs.Round); vs != nil && vs.GetByAddress(n.nodeAddr) != nil {
				return true
			}
		}
		return false
	}
	inPrecommit := func() bool {
		rs := n.conS.GetRoundState()
		if rs.Step == cstypes.RoundStepPrecommit && rs.Votes != nil {
			if vs := rs.Votes.Precommits(rs.Round); vs != nil && vs.GetByAddress(n.nodeAddr) != nil {
				return true
			}
		}
		return false
	}
	switch mode {
	case "prevote":
		if inPrevote() {
			return
		}
		if !waitUntil(150*time.Millisecond, inPrevote) {
			_, _ = n.advance(1, 20*time.Second)
			waitUntil(400*time.Millisecond, inPrevote)
		}
	case "precommit":
		if inPrecommit() {
			return
		}
		if !inPrevote() && !waitUntil(150*time.Millisecond, inPrevote) {
			_, _ = n.advance(1, 20*time.Second)
			waitUntil(400*time.Millisecond, inPrevote)
		}
		waitUntil(300*time.Millisecond, func() bool {
			if inPrecommit() {
				return true
			}
			_, _ = n.mirrorTypes(tmproto.PrevoteType)
			return false
		})
	case "newheight":
		if n.conS.GetRoundState().Step == cstypes.RoundStepNewHeight {
			return
		}
		_, _ = n.advance(1, 20*time.Second) // right after a commit the node waits timeout_commit in NewHeight
	case "propose":
		// the node waits in the propose step (timeout_propose) whenever the harness' validator is the proposer
		for k := 0; k < 4; k++ {
			waitUntil(300*time.Millisecond, func() bool { return n.conS.GetRoundState().Step != cstypes.RoundStepNewHeight })
			if n.conS.GetRoundState().Step == cstypes.RoundStepPropose {
				return
			}
			_, _ = n.advance(1, 20*time.Second)
		}
	}
}

// stackSite extracts "function file:line" of the innermost tendermint frame below panic() from a logged stack.
func stackSite(ln string) string {
	i := strings.Index(ln, `stack="`)
	if i < 0 {
		return "?"
	}
	sep := `\n`
	if !strings.Contains(ln[i:], sep) {
		sep = "\n"
	}
	fr := strings.Split(ln[i+7:], sep)
	for j, f := range fr {
		if !strings.HasPrefix(f, "panic(") {
			continue
		}
		for k := j + 1; k+1 < len(fr); k++ {
			if strings.HasPrefix(fr[k], `\t`) || strings.HasPrefix(fr[k], "\t") || !strings.HasPrefix(fr[k], "github.com/tendermint/tendermint/") {
				continue
			}
			fn := fr[k]
			if a := strings.LastIndexByte(fn, '('); a > 0 {
				fn = fn[:a]
			}
			return strings.TrimPrefix(fn, "github.com/tendermint/tendermint/")
		}
		break
	}
	return "?"
}

// checkConsensus: the receive routine of the consensus state must still be alive.  If it
// is not, the finding is recorded and the child ends (exit 91); the parent starts a new one.
func (ch *n3Child) checkConsensus(stream string, batch int) {
	n, r := ch.n, ch.r
	if !n.consensusDead() {
		return
	}
	line := n.failLog.get()
	site := stackSite(line)
	errText := ""
	if i := strings.Index(line, `err="`); i >= 0 {
		errText = line[i+5:]
		if e := strings.Index(errText, `" stack=`); e >= 0 {
			errText = errText[:e]
		}
		if len(errText) > 300 {
			errText = errText[:300]
		}
	}
	var last []*n3Input
	if k := len(ch.recent); k > 4 {
		last = ch.recent[k-4:]
	} else {
		last = ch.recent
	}
	if len(line) > 5000 {
		line = line[:5000]
	}
	rs := n.conS.GetRoundState()
	r.Violation("consensus-failure@"+site,
		"peer input made the consensus state's receive routine panic (\"CONSENSUS FAILURE\"): the node stops taking part in consensus; only the peer may be dropped. panic: "+errText,
		map[string]interface{}{"stream": stream, "batch": batch, "last_inputs_newest_last": last, "node_height": rs.Height, "node_round": rs.Round, "node_step": rs.Step.String(),
			"log_line": line, "replay": fmt.Sprintf("the inputs above carry the exact bytes; stage %s batch %d regenerates the neighbourhood", stream, batch)})
	r.Count("n3.consensus_failures", 1)
	r.flush()
	os.Exit(91)
}

func parseAvoid(env string) (bool, map[string]bool) {
	sigs := map[string]bool{}
	for _, f := range strings.Split(env, ";") {
		f = strings.TrimSpace(f)
		if strings.HasPrefix(f, "sig:") {
			sigs[f[4:]] = true
		}
	}
	return strings.Contains(env, "bitarray"), sigs
}

func stageN3(c *verdict.Ctx, r *rec, arg string) { stageN3x(c, r, arg, false) }

// stageN3Init: the victim is still in RoundStepNewHeight of the INITIAL height while the inputs arrive.
func stageN3Init(c *verdict.Ctx, r *rec, arg string) { stageN3x(c, r, arg, true) }

func stageN3x(c *verdict.Ctx, r *rec, arg string, init bool) {
	memoryGuard(6 << 30)
	dir := os.Getenv("VERIF_C17_DIR")
	if dir == "" {
		dir = verdict.TmpDir("c17n3-")
		defer os.RemoveAll(dir)
	}
	stream := "n3"
	if init {
		stream = "n3init"
	}
	tag := sanitizeName(arg)
	nodeDir := filepath.Join(dir, "node-"+stream+"-"+tag)
	logF, err := os.Create(filepath.Join(dir, stream+"-"+tag+".inputs"))
	if err != nil {
		r.HarnessError("n3: %v", err)
		return
	}
	defer logF.Close()
	initWindow := time.Duration(c.N(4, 8)) * time.Second
	opts := nodeOpts{gossipSleep: n3GossipSleep, timeoutCommit: 60 * time.Millisecond, skipTimeoutCommit: false}
	if init {
		opts = nodeOpts{gossipSleep: n3GossipSleep, timeoutCommit: initWindow, skipTimeoutCommit: true}
	}
	tStart := time.Now()
	n := newN3NodeOpts(nodeDir, opts)
	ch := &n3Child{c: c, r: r, n: n, logF: logF}
	if !init {
		if got, err := n.advance(3, 60*time.Second); err != nil {
			ch.checkConsensus(stream, -1)
			r.HarnessError("n3: the node under test did not commit its first heights (%d of 3): %v", got, err)
			return
		}
	}
	perBatch := c.N(100, 250)
	avoidBits, avoidSigs := parseAvoid(os.Getenv("VERIF_C17_AVOID"))
	for _, bs := range parseBatches(arg) {
		b := bs.b
		rnd := c.Rand(stream, b)
		g := &gen{r: rnd, n: n, unknown: ed25519.GenPrivKeyFromSecret([]byte(fmt.Sprintf("c17-unknown-%d", b))),
			avoidBadElems: avoidBits, avoid: avoidSigs}
		if g.avoidBadElems {
			r.Count("n3.batches_run_with_malformed_bit_arrays_suppressed", 1)
		}
		if len(avoidSigs) > 0 {
			r.Count("n3.batches_run_with_some_message_signatures_suppressed", 1)
		}
		mode := n3Modes[b%len(n3Modes)]
		limit := perBatch
		if init {
			mode, limit = "initial-height-newheight", 1<<30
			g.focusPrev = true
		} else {
			g.focusPrev = mode == "newheight"
			r.Count("n3.batches_in_mode."+mode, 1)
		}
		tBatch := time.Now()
		mixedMode := "prevote"
		for i := 0; i < limit; i++ {
			if init {
				rs := n.conS.GetRoundState()
				if time.Since(tStart) > initWindow-500*time.Millisecond || rs.Step != cstypes.RoundStepNewHeight || rs.Height != n.genDoc.InitialHeight {
					break
				}
			} else if i >= bs.start {
				m := mode
				if m == "mixed" {
					if i%10 == 0 {
						mixedMode = n3Modes[rnd.Intn(4)]
					}
					m = mixedMode
				}
				ch.driveTo(m)
			}
			g.lc = n.live()
			in := g.makeInput(b, i)
			in.Stream = stream
			if i < bs.start {
				continue // resumed after a crash: these were executed by the previous child
			}
			rs := n.conS.GetRoundState()
			in.NodeH, in.NodeR, in.NodeS = rs.Height, rs.Round, rs.Step.String()
			r.Count("n3.node_step_at_delivery."+in.NodeS, 1)
			if init {
				r.Count("n3init.inputs_at_initial_height_before_round_0", 1)
			}
			ch.logInput(in)
			ch.recent = append(ch.recent, in)
			if len(ch.recent) > 12 {
				ch.recent = ch.recent[1:]
			}
			ch.deliver(in)
			ch.checkConsensus(stream, b)
			if !init && mode == "prevote" && rnd.Intn(25) == 0 {
				// now and then let the chain move while hostile traffic continues
				_, _ = n.advance(1, 20*time.Second)
			}
		}
		r.Count("n3.batch_ms_in_mode."+mode, time.Since(tBatch).Milliseconds())
		time.Sleep(20 * time.Millisecond)
		ch.checkConsensus(stream, b)
		if init {
			// the start time arrives: the node must enter round 0 and, with its co-validator, commit blocks
			if !waitUntil(initWindow+20*time.Second, func() bool { return n.conS.GetRoundState().Step != cstypes.RoundStepNewHeight || n.consensusDead() }) {
				r.Violation("node-unresponsive-after-hostile-batch:initial-height-never-started", "the node never left RoundStepNewHeight of the initial height after its start time",
					map[string]interface{}{"stream": stream, "batch": b, "last_inputs": ch.recentNotes(), "goroutines": goroutineDump()})
			}
			ch.checkConsensus(stream, b)
		}
		ch.probes(b)
		ch.checkConsensus(stream, b)
		// goroutines: every hostile connection is gone by now; what remains beyond the idle
		// node + one honest peer was leaked by the peer handling
		time.Sleep(20 * time.Millisecond)
		ng := int64(runtime.NumGoroutine())
		r.Max("n3.max_goroutines_after_batch", ng)
		if ng > goroutineCap {
			r.Violation("node-goroutine-leak-after-hostile-batch", fmt.Sprintf("%d goroutines are alive after the batch although only one honest peer is connected (idle node: about 50)", ng),
				map[string]interface{}{"stream": stream, "batch": b, "goroutines": goroutineDump()})
		}
		r.Count(fmt.Sprintf("%s.batches_on_chain_with_initial_height_%d", stream, n.genDoc.InitialHeight), 1)
		if init {
			r.Count("n3init.batches", 1)
			break // one initial height per process
		}
		r.Count("n3.batches", 1)
		r.flush()
	}
	for name := range n.wraps {
		ret, pan := n.receiveCount(name)
		r.Count("n3.receive_calls."+name, ret+pan)
	}
	r.Count("n3.final_height", n.store.Height())
	n.stop()
}

// ---- parent side ------------------------------------------------------------

func lastInputs(path string, k int) ([]json.RawMessage, int, int) {
	f, err := os.Open(path)
	if err != nil {
		return nil, -1, -1
	}
	defer f.Close()
	var lines []json.RawMessage
	sc := bufio.NewScanner(f)
	sc.Buffer(make([]byte, 1<<20), 64<<20)
	for sc.Scan() {
		lines = append(lines, append(json.RawMessage{}, sc.Bytes()...))
		if len(lines) > k {
			lines = lines[1:]
		}
	}
	batch, index := -1, -1
	if len(lines) > 0 {
		var in struct {
			Batch int `json:"batch"`
			Index int `json:"index"`
		}
		if json.Unmarshal(lines[len(lines)-1], &in) == nil {
			batch, index = in.Batch, in.Index
		}
	}
	return lines, batch, index
}

// avoidBook collects, per crash / consensus-failure site, the message signatures of the input
// that preceded it.  When a site has been hit twice, the signatures common to both inputs are
// suppressed in the children started afterwards, so that one easily reached defect does not
// keep the rest of the input space from being explored.  (Purely a property of what was
// observed in this run; nothing is known in advance.)
type avoidBook struct {
	mu    sync.Mutex
	sites map[string][][]string
	sigs  map[string]bool
	bits  bool
}

func (a *avoidBook) env() string {
	a.mu.Lock()
	defer a.mu.Unlock()
	var sb strings.Builder
	if a.bits {
		sb.WriteString("bitarray;")
	}
	for s := range a.sigs {
		sb.WriteString("sig:" + s + ";")
	}
	return sb.String()
}

func (a *avoidBook) note(site string, lastInput json.RawMessage) {
	var in struct {
		Seq []struct {
			Sig string `json:"signature"`
		} `json:"messages"`
	}
	_ = json.Unmarshal(lastInput, &in)
	var sigs []string
	for _, m := range in.Seq {
		sigs = append(sigs, m.Sig)
	}
	a.mu.Lock()
	defer a.mu.Unlock()
	if strings.Contains(site, "bits.(*BitArray)") && len(a.sites[site]) >= 1 {
		a.bits = true
	}
	a.sites[site] = append(a.sites[site], sigs)
	if l := a.sites[site]; len(l) >= 2 {
		prev := map[string]bool{}
		for _, s := range l[len(l)-2] {
			prev[s] = true
		}
		for _, s := range sigs {
			if prev[s] && s != "" {
				a.sigs[s] = true
			}
		}
	}
}

func runN3lite(c *verdict.Ctx) {
	dir := verdict.TmpDir("c17n3-")
	defer os.RemoveAll(dir)
	nb := c.N(20, 96)
	kids := c.N(4, 8)
	type job struct {
		stage string
		todo  []string
		ih    int64
	}
	jobs := make([]job, kids)
	for b := 0; b < nb; b++ {
		jobs[b%kids].stage = "n3"
		jobs[b%kids].todo = append(jobs[b%kids].todo, strconv.Itoa(b))
	}
	// some children run a chain whose genesis sets initial_height > 1 (7 and 1000)
	jobs[1%kids].ih = 7
	if c.Thorough() {
		jobs[2%kids].ih = 1000
	}
	for k := 0; k < c.N(3, 6); k++ {
		jobs = append(jobs, job{"n3init", []string{strconv.Itoa(k)}, []int64{1, 7, 1000}[k%3]})
	}
	book := &avoidBook{sites: map[string][][]string{}, sigs: map[string]bool{}}
	var wg sync.WaitGroup
	var mu sync.Mutex
	t0 := time.Now()
	for _, jb := range jobs {
		wg.Add(1)
		go func(jb job) {
			defer wg.Done()
			todo := jb.todo
			budget := c.N(10, 40)
			for attempt := 0; len(todo) > 0; attempt++ {
				if attempt > budget {
					mu.Lock()
					c.Count(jb.stage+".batches_skipped_after_restart_budget", int64(len(todo)))
					mu.Unlock()
					return
				}
				arg := strings.Join(todo, ",")
				res := spawn(c, dir, jb.stage, arg, false, 12*time.Minute, "VERIF_C17_AVOID="+book.env(), "VERIF_C17_INITIAL_HEIGHT="+strconv.FormatInt(jb.ih, 10))
				mu.Lock()
				res.rec.apply(c, "")
				mu.Unlock()
				if !res.crashed {
					return
				}
				ins, batch, index := lastInputs(filepath.Join(dir, jb.stage+"-"+sanitizeName(arg)+".inputs"), 4)
				extra := map[string]interface{}{"stream": jb.stage, "batches_of_this_child": arg, "last_logged_inputs_newest_last": ins,
					"replay": fmt.Sprintf("the logged inputs carry the exact bytes; ./run C17 --replay <this file> runs batch %d again (look at input %d)", batch, index)}
				cs := parseCrash(res.stderr)
				site := ""
				mu.Lock()
				switch {
				case res.exit == 91:
					// consensus failure: the child has recorded the violation itself
					for _, v := range res.rec.Violations {
						if strings.HasPrefix(v.Key, "consensus-failure@") {
							site = v.Key
						}
					}
					c.Count("n3.child_restarts_after_consensus_failure", 1)
				case res.exit == 90 || strings.Contains(res.stderr, "MEMORY-WATCHDOG"):
					c.Violation("node-memory-exhaustion", "hostile input drove the node's heap beyond the harness' cap", extra)
					c.Count("n3.child_crashes", 1)
				default:
					reportCrash(c, jb.stage, res, extra)
					c.Count("n3.child_crashes", 1)
					if cs.msg != "" && !cs.harness {
						site = cs.key(jb.stage)
					}
				}
				mu.Unlock()
				if cs.msg != "" && cs.harness {
					return // a harness failure repeats; do not loop on it
				}
				if site != "" && len(ins) > 0 {
					book.note(site, ins[len(ins)-1])
				}
				// carry on right after the input that brought the node down
				var rest []string
				found := false
				for _, f := range todo {
					bs := parseBatches(f)
					if len(bs) != 1 {
						continue
					}
					if found {
						rest = append(rest, f)
					} else if bs[0].b == batch {
						found = true
						rest = append(rest, fmt.Sprintf("%d:%d", batch, index+1))
					}
				}
				if !found {
					return
				}
				todo = rest
			}
		}(jb)
	}
	wg.Add(1)
	go func() {
		defer wg.Done()
		res := spawn(c, dir, "n3mem", "", false, 8*time.Minute)
		mu.Lock()
		defer mu.Unlock()
		res.rec.apply(c, "")
		if res.crashed {
			ins, _, _ := lastInputs(filepath.Join(dir, "n3mem.inputs"), 2)
			extra := map[string]interface{}{"stream": "n3mem", "last_logged_inputs_newest_last": ins}
			if res.exit == 90 || strings.Contains(res.stderr, "MEMORY-WATCHDOG") {
				c.Violation("node-memory-exhaustion", "hostile input drove the node's heap beyond the harness' cap", extra)
			} else {
				reportCrash(c, "n3mem", res, extra)
			}
		}
	}()
	wg.Add(1)
	go func() {
		defer wg.Done()
		runN3flood(c, dir, &mu)
	}()
	wg.Add(1)
	go func() {
		defer wg.Done()
		runN3volume(c, dir, &mu)
	}()
	wg.Wait()
	c.Set("n3.wall_s", time.Since(t0).Seconds())
	book.mu.Lock()
	if len(book.sigs) > 0 {
		var l []string
		for s := range book.sigs {
			l = append(l, s)
		}
		c.Set("n3.message_signatures_suppressed_after_repeated_failures", l)
	}
	book.mu.Unlock()
}

var _ p2p.Peer
