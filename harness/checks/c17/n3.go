package c17

import (
	"bufio"
	"bytes"
	"encoding/json"
	"fmt"
	"os"
	"path/filepath"
	"runtime"
	"runtime/debug"
	"runtime/pprof"
	"strconv"
	"strings"
	"sync"
	"time"

	"github.com/gogo/protobuf/proto"

	abci "github.com/tendermint/tendermint/abci/types"
	"github.com/tendermint/tendermint/crypto/ed25519"
	"github.com/tendermint/tendermint/p2p"
	bcproto "github.com/tendermint/tendermint/proto/tendermint/blockchain"
	protomem "github.com/tendermint/tendermint/proto/tendermint/mempool"
	tmp2p "github.com/tendermint/tendermint/proto/tendermint/p2p"
	ssproto "github.com/tendermint/tendermint/proto/tendermint/statesync"
	tmproto "github.com/tendermint/tendermint/proto/tendermint/types"
	"github.com/tendermint/tendermint/types"

	"verif/verdict"
)

const n3GossipSleep = 5 * time.Millisecond

// goroutineCap: an idle node with one peer runs about 50 goroutines; a batch makes up to 250 connections
const goroutineCap = 700

// memoryGuard keeps a positive from taking the machine down.
func memoryGuard(limit uint64) {
	debug.SetMemoryLimit(int64(limit))
	go func() {
		var ms runtime.MemStats
		for {
			time.Sleep(200 * time.Millisecond)
			runtime.ReadMemStats(&ms)
			if ms.HeapAlloc > limit+limit/2 {
				fmt.Fprintf(os.Stderr, "\nMEMORY-WATCHDOG: HeapAlloc=%d exceeds the cap %d\n", ms.HeapAlloc, limit+limit/2)
				os.Exit(90)
			}
		}
	}()
}

func (n *n3Node) live() liveCtx {
	rs := n.conS.GetRoundState()
	lc := liveCtx{H: rs.Height, R: rs.Round, Step: uint32(rs.Step), NVals: 2}
	if rs.ProposalBlock != nil && rs.ProposalBlockParts != nil {
		bid := types.BlockID{Hash: rs.ProposalBlock.Hash(), PartSetHeader: rs.ProposalBlockParts.Header()}
		pb := bid.ToProto()
		lc.PropBID = &pb
		if p := rs.ProposalBlockParts.GetPart(0); p != nil {
			if pp, err := p.ToProto(); err == nil {
				lc.Part = pp
			}
		}
	}
	if rs.Height > 1 {
		if meta := n.store.LoadBlockMeta(rs.Height - 1); meta != nil {
			lc.PrevBID = meta.BlockID.ToProto()
		}
		if lc.Part == nil {
			if p := n.store.LoadBlockPart(rs.Height-1, 0); p != nil {
				if pp, err := p.ToProto(); err == nil {
					lc.Part = pp
				}
			}
		}
	}
	return lc
}

type n3Child struct {
	c      *verdict.Ctx
	r      *rec
	n      *n3Node
	logF   *os.File
	recent []*n3Input
}

func (ch *n3Child) logInput(in *n3Input) {
	b, _ := json.Marshal(in)
	b = append(b, '\n')
	_, _ = ch.logF.Write(b)
}

// waitProcessed waits until the reactor behind ch has returned from (or panicked in)
// one more Receive, or the node has dropped the hostile peer.
func (ch *n3Child) waitProcessed(reactor string, ret0, pan0 int64) string {
	dl := time.Now().Add(5 * time.Second)
	for i := 0; ; i++ {
		ret, pan := ch.n.receiveCount(reactor)
		if pan > pan0 {
			return "panicked"
		}
		if ret > ret0 {
			return "returned"
		}
		if !ch.n.nodeHasPeer(ch.n.hostile) {
			return "peer-dropped"
		}
		if time.Now().After(dl) {
			return "unobserved"
		}
		if i < 200 {
			runtime.Gosched()
		} else {
			time.Sleep(100 * time.Microsecond)
		}
	}
}

func (ch *n3Child) deliver(in *n3Input) {
	n, r := ch.n, ch.r
	r.Eval()
	p, _, err := n.peerOf(n.hostile)
	if err != nil {
		r.Count("n3.hostile_connect_failed", 1)
		r.Set("n3.last_connect_error", err.Error())
		if r.Counts["n3.hostile_connect_failed"] == 1 {
			r.Set("n3.first_connect_failure", map[string]interface{}{"error": err.Error(), "input": in, "previous_inputs": ch.recentNotes(), "goroutines": goroutineDump()})
		}
		return
	}
	outcome := "ignored"
	send := func(m wireMsg) bool {
		reactor := chanReactor(m.Ch)
		ret0, pan0 := n.receiveCount(reactor)
		if !p.Send(m.Ch, m.B) {
			return false
		}
		switch ch.waitProcessed(reactor, ret0, pan0) {
		case "panicked":
			r.Count("n3.panic_in_receive_recovered_by_connection."+reactor, 1)
			if r.Counts["n3.panic_in_receive_recovered_by_connection."+reactor] <= 2 {
				r.Sample(map[string]interface{}{"stage": "n3", "observation": "panic inside Receive, recovered by MConnection (peer dropped)", "input": in})
			}
		case "unobserved":
			r.Count("n3.message_not_observed."+reactor, 1)
		}
		return true
	}
	okPrefix := true
	for _, m := range in.Prefix {
		if !send(m) {
			okPrefix = false
			break
		}
	}
	if !okPrefix || !n.nodeHasPeer(n.hostile) {
		r.Count("n3.prefix_rejected."+in.State, 1)
	}
	sent := 0
	for _, m := range in.Seq {
		if !n.nodeHasPeer(n.hostile) {
			break
		}
		if !send(m) {
			break
		}
		sent++
	}
	if in.Reactor == "consensus" && n.nodeHasPeer(n.hostile) {
		time.Sleep(3 * n3GossipSleep) // let the gossip routines act on the peer state
	}
	if !n.nodeHasPeer(n.hostile) {
		outcome = "dropped"
	}
	r.Count("n3.inputs."+in.Reactor, 1)
	r.Count("n3.outcome."+in.Reactor+"."+in.Class+"."+outcome, 1)
	r.Count("n3.state."+in.State, 1)
	r.Count("n3.messages_sent", int64(sent))
	var notes []string
	for _, m := range in.Seq {
		notes = append(notes, m.Note)
	}
	r.Distinct("n3", in.Reactor, in.State, in.Class, strings.Join(notes, ";"))
	if in.Index == 7 && in.Batch%5 == 0 {
		r.Sample(map[string]interface{}{"stage": "n3", "input": in, "outcome": outcome})
	}
	// every input gets a connection of its own
	n.disconnect(n.hostile)
}

func (ch *n3Child) recentNotes() []map[string]interface{} {
	var last []map[string]interface{}
	for _, in := range ch.recent {
		var notes []string
		for _, m := range in.Seq {
			notes = append(notes, m.Note)
		}
		last = append(last, map[string]interface{}{"batch": in.Batch, "index": in.Index, "reactor": in.Reactor, "state": in.State, "class": in.Class, "messages": notes})
	}
	return last
}

func goroutineDump() string {
	var buf bytes.Buffer
	_ = pprof.Lookup("goroutine").WriteTo(&buf, 1)
	s := buf.String()
	if len(s) > 20000 {
		s = s[:20000]
	}
	return s
}

func waitUntil(d time.Duration, f func() bool) bool {
	dl := time.Now().Add(d)
	for {
		if f() {
			return true
		}
		if time.Now().After(dl) {
			return false
		}
		time.Sleep(time.Millisecond)
	}
}

// probes: what an honest peer and an honest co-validator expect from a healthy node.
func (ch *n3Child) probes(batch int) {
	n, r := ch.n, ch.r
	fail := func(probe, what string) {
		var last []map[string]interface{}
		for _, in := range ch.recent {
			var notes []string
			for _, m := range in.Seq {
				notes = append(notes, m.Note)
			}
			last = append(last, map[string]interface{}{"batch": in.Batch, "index": in.Index, "reactor": in.Reactor, "state": in.State, "class": in.Class, "messages": notes})
		}
		r.Violation("node-unresponsive-after-hostile-batch:"+probe, what,
			map[string]interface{}{"stream": "n3", "batch": batch, "probe": probe, "last_inputs": last, "inputs_log": "replay the batch: VERIF_C17_STAGE=n3 VERIF_C17_ARG=" + strconv.Itoa(batch), "goroutines": goroutineDump()})
	}
	const wd = 30 * time.Second
	// honest peer: fresh connection (also resets the PEX request rate limiter)
	n.disconnect(n.honest)
	hp, _, err := n.peerOf(n.honest)
	if err != nil {
		fail("connect", "an honest peer cannot connect any more: "+err.Error())
		return
	}
	n.honestR.take()
	var resend func()
	expect := func(probe string, match func(inMsg) bool) bool {
		last := time.Now()
		ok := waitUntil(wd, func() bool {
			for _, m := range n.honestR.take() {
				if match(m) {
					return true
				}
			}
			if resend != nil && time.Since(last) > 5*time.Second {
				last = time.Now()
				resend() // an honest peer asks again (the answers are TrySend-ed and may legitimately be skipped)
			}
			return false
		})
		resend = nil
		if ok {
			r.Count("n3.probe_ok."+probe, 1)
		}
		return ok
	}
	// blockchain: StatusRequest -> StatusResponse
	resend = func() { hp.Send(chBlockchan, mustMarshal((&bcproto.StatusRequest{}).Wrap())) }
	resend()
	if !expect("blockchain-status", func(m inMsg) bool {
		if m.ch != chBlockchan {
			return false
		}
		var msg bcproto.Message
		if proto.Unmarshal(m.b, &msg) != nil {
			return false
		}
		sr := msg.GetStatusResponse()
		return sr != nil && sr.Height >= n.store.Height()-1
	}) {
		fail("blockchain-status", "no StatusResponse to an honest StatusRequest within 30 s")
		return
	}
	// statesync: SnapshotsRequest -> SnapshotsResponse, ChunkRequest -> ChunkResponse
	resend = func() { hp.Send(chSnapshot, mustMarshal((&ssproto.SnapshotsRequest{}).Wrap())) }
	resend()
	if !expect("statesync-snapshots", func(m inMsg) bool {
		var msg ssproto.Message
		if m.ch != chSnapshot || proto.Unmarshal(m.b, &msg) != nil {
			return false
		}
		sr := msg.GetSnapshotsResponse()
		return sr != nil && sr.Height == 1 && bytes.Equal(sr.Hash, snapHash)
	}) {
		fail("statesync-snapshots", "no SnapshotsResponse to an honest SnapshotsRequest within 30 s")
		return
	}
	resend = func() { hp.Send(chChunk, mustMarshal((&ssproto.ChunkRequest{Height: 1, Format: 1, Index: 1}).Wrap())) }
	resend()
	if !expect("statesync-chunk", func(m inMsg) bool {
		var msg ssproto.Message
		if m.ch != chChunk || proto.Unmarshal(m.b, &msg) != nil {
			return false
		}
		cr := msg.GetChunkResponse()
		return cr != nil && cr.Index == 1 && len(cr.Chunk) == 100 && cr.Chunk[0] == 2
	}) {
		fail("statesync-chunk", "no ChunkResponse to an honest ChunkRequest within 30 s")
		return
	}
	// pex: PexRequest -> PexAddrs
	hp.Send(chPex, mustMarshal((&tmp2p.PexRequest{}).Wrap()))
	if !expect("pex-addrs", func(m inMsg) bool {
		var msg tmp2p.Message
		return m.ch == chPex && proto.Unmarshal(m.b, &msg) == nil && msg.GetPexAddrs() != nil
	}) {
		fail("pex-addrs", "no PexAddrs reply to an honest PexRequest within 30 s")
		return
	}
	// mempool: an honest tx is admitted ...
	n.probeSeq++
	key := fmt.Sprintf("c17probe-%d-%d", batch, n.probeSeq)
	tx := []byte(key + "=v")
	hp.Send(chMempool, mustMarshal((&protomem.Txs{Txs: [][]byte{tx}}).Wrap()))
	committed := func() bool {
		res, err := n.proxyApp.Query().QuerySync(abci.RequestQuery{Path: "/store", Data: []byte(key)})
		return err == nil && res != nil && string(res.Value) == "v"
	}
	inPool := func() bool {
		for _, t := range n.mempool.ReapMaxTxs(-1) {
			if bytes.Equal(t, tx) {
				return true
			}
		}
		return false
	}
	if !waitUntil(wd, func() bool { return inPool() || committed() }) {
		fail("mempool-checktx", "an honest peer's transaction was not admitted to the mempool within 30 s")
		return
	}
	r.Count("n3.probe_ok.mempool-checktx", 1)
	// evidence: valid duplicate-vote evidence from an honest peer becomes pending
	evOK := true
	if h := n.store.Height(); h >= 2 {
		ev, err := n.dupVoteEvidence(h-1, ch.c.Rand("n3-evprobe", batch*1000+n.probeSeq))
		if err == nil {
			pb, _ := types.EvidenceToProto(ev)
			hp.Send(chEvidence, mustMarshal(&tmproto.EvidenceList{Evidence: []tmproto.Evidence{*pb}}))
			has := func() bool {
				evs, _ := n.evpool.PendingEvidence(-1)
				for _, e := range evs {
					if bytes.Equal(e.Hash(), ev.Hash()) {
						return true
					}
				}
				// or already committed
				for hh := h; hh <= n.store.Height(); hh++ {
					if b := n.store.LoadBlock(hh); b != nil {
						for _, e := range b.Evidence.Evidence {
							if bytes.Equal(e.Hash(), ev.Hash()) {
								return true
							}
						}
					}
				}
				return false
			}
			evOK = waitUntil(wd, has)
			if evOK {
				r.Count("n3.probe_ok.evidence-admitted", 1)
			}
		} else {
			r.Count("n3.probe_skipped.evidence", 1)
		}
	}
	if !evOK {
		fail("evidence-admitted", "valid duplicate-vote evidence from an honest peer did not become pending within 30 s")
		return
	}
	// ... and consensus: with the co-validator's votes the node commits two more heights, the probe tx among them
	if got, err := n.advance(2, 60*time.Second); err != nil {
		fail("consensus-progress", fmt.Sprintf("with an honest co-validator mirroring its votes the node committed only %d of 2 heights in 60 s: %v", got, err))
		return
	}
	r.Count("n3.probe_ok.consensus-progress", 1)
	if !waitUntil(wd, func() bool {
		if committed() {
			return true
		}
		_, _ = n.advance(1, 10*time.Second)
		return committed()
	}) {
		fail("mempool-tx-committed", "the honest transaction was never committed")
		return
	}
	r.Count("n3.probe_ok.mempool-tx-committed", 1)
	r.Count("n3.heights_committed", 2)
}

// batch list syntax: "3,7:41,11" = batches 3, 7 (starting at input 41) and 11
type batchSpec struct{ b, start int }

func parseBatches(arg string) []batchSpec {
	var out []batchSpec
	for _, f := range strings.Split(arg, ",") {
		f = strings.TrimSpace(f)
		st := 0
		if i := strings.IndexByte(f, ':'); i >= 0 {
			st, _ = strconv.Atoi(f[i+1:])
			f = f[:i]
		}
		if v, err := strconv.Atoi(f); err == nil {
			out = append(out, batchSpec{v, st})
		}
	}
	return out
}

func stageN3(c *verdict.Ctx, r *rec, arg string) {
	memoryGuard(6 << 30)
	dir := os.Getenv("VERIF_C17_DIR")
	if dir == "" {
		dir = verdict.TmpDir("c17n3-")
		defer os.RemoveAll(dir)
	}
	tag := sanitizeName(arg)
	nodeDir := filepath.Join(dir, "node-"+tag)
	logF, err := os.Create(filepath.Join(dir, "n3-"+tag+".inputs"))
	if err != nil {
		r.HarnessError("n3: %v", err)
		return
	}
	defer logF.Close()
	n := newN3Node(nodeDir, n3GossipSleep)
	ch := &n3Child{c: c, r: r, n: n, logF: logF}
	if got, err := n.advance(3, 60*time.Second); err != nil {
		r.HarnessError("n3: the node under test did not commit its first heights (%d of 3): %v", got, err)
		return
	}
	perBatch := c.N(100, 250)
	avoid := os.Getenv("VERIF_C17_AVOID")
	for _, bs := range parseBatches(arg) {
		b := bs.b
		rnd := c.Rand("n3", b)
		g := &gen{r: rnd, n: n, unknown: ed25519.GenPrivKeyFromSecret([]byte(fmt.Sprintf("c17-unknown-%d", b))),
			avoidBadElems: strings.Contains(avoid, "bitarray")}
		if g.avoidBadElems {
			r.Count("n3.batches_run_with_malformed_bit_arrays_suppressed", 1)
		}
		n.settle(2 * time.Second)
		for i := 0; i < perBatch; i++ {
			g.lc = n.live()
			in := g.makeInput(b, i)
			if i < bs.start {
				continue // resumed after a crash: these were executed by the previous child
			}
			rs := n.conS.GetRoundState()
			in.NodeH, in.NodeR, in.NodeS = rs.Height, rs.Round, rs.Step.String()
			ch.logInput(in)
			ch.recent = append(ch.recent, in)
			if len(ch.recent) > 12 {
				ch.recent = ch.recent[1:]
			}
			ch.deliver(in)
			if rnd.Intn(25) == 0 {
				// now and then let the chain move while hostile traffic continues
				_, _ = n.advance(1, 20*time.Second)
				n.settle(time.Second)
			}
		}
		ch.probes(b)
		// goroutines: every hostile connection is gone by now; what remains beyond the idle
		// node + one honest peer was leaked by the peer handling
		time.Sleep(20 * time.Millisecond)
		ng := int64(runtime.NumGoroutine())
		r.Max("n3.max_goroutines_after_batch", ng)
		if ng > goroutineCap {
			r.Violation("node-goroutine-leak-after-hostile-batch", fmt.Sprintf("%d goroutines are alive after the batch although only one honest peer is connected (idle node: about 50)", ng),
				map[string]interface{}{"stream": "n3", "batch": b, "goroutines": goroutineDump()})
		}
		r.Count("n3.batches", 1)
		r.flush()
	}
	for name, w := range n.wraps {
		ret, pan := n.receiveCount(name)
		_ = w
		r.Count("n3.receive_calls."+name, ret+pan)
	}
	r.Count("n3.final_height", n.store.Height())
	n.stop()
}

// ---- parent side ------------------------------------------------------------

func lastInputs(path string, k int) ([]json.RawMessage, int, int) {
	f, err := os.Open(path)
	if err != nil {
		return nil, -1, -1
	}
	defer f.Close()
	var lines []json.RawMessage
	sc := bufio.NewScanner(f)
	sc.Buffer(make([]byte, 1<<20), 64<<20)
	for sc.Scan() {
		lines = append(lines, append(json.RawMessage{}, sc.Bytes()...))
		if len(lines) > k {
			lines = lines[1:]
		}
	}
	batch, index := -1, -1
	if len(lines) > 0 {
		var in struct {
			Batch int `json:"batch"`
			Index int `json:"index"`
		}
		if json.Unmarshal(lines[len(lines)-1], &in) == nil {
			batch, index = in.Batch, in.Index
		}
	}
	return lines, batch, index
}

func runN3lite(c *verdict.Ctx) {
	dir := verdict.TmpDir("c17n3-")
	defer os.RemoveAll(dir)
	nb := c.N(20, 96)
	kids := c.N(4, 8)
	lists := make([][]int, kids)
	for b := 0; b < nb; b++ {
		lists[b%kids] = append(lists[b%kids], b)
	}
	var wg sync.WaitGroup
	var mu sync.Mutex
	t0 := time.Now()
	for k := 0; k < kids; k++ {
		wg.Add(1)
		go func(k int) {
			defer wg.Done()
			var todo []string
			for _, b := range lists[k] {
				todo = append(todo, strconv.Itoa(b))
			}
			siteSeen := map[string]int{}
			avoid := ""
			budget := c.N(10, 40)
			for attempt := 0; len(todo) > 0; attempt++ {
				if attempt > budget {
					mu.Lock()
					c.Count("n3.batches_skipped_after_restart_budget", int64(len(todo)))
					mu.Unlock()
					return
				}
				arg := strings.Join(todo, ",")
				res := spawn(c, dir, "n3", arg, false, 12*time.Minute, "VERIF_C17_AVOID="+avoid)
				mu.Lock()
				res.rec.apply(c, "")
				mu.Unlock()
				if !res.crashed {
					return
				}
				ins, batch, index := lastInputs(filepath.Join(dir, "n3-"+sanitizeName(arg)+".inputs"), 4)
				extra := map[string]interface{}{"stream": "n3", "batches_of_this_child": arg, "last_logged_inputs_newest_last": ins,
					"replay": fmt.Sprintf("cd /verif && VERIF_C17_STAGE=n3 VERIF_C17_ARG=%d VERIF_C17_OUT=/dev/null bin/vcheck C17   # then look at input %d", batch, index)}
				cs := parseCrash(res.stderr)
				mu.Lock()
				if res.exit == 90 || strings.Contains(res.stderr, "MEMORY-WATCHDOG") {
					c.Violation("node-memory-exhaustion", "hostile input drove the node's heap beyond the harness' cap", extra)
				} else {
					reportCrash(c, "n3", res, extra)
				}
				c.Count("n3.child_crashes", 1)
				mu.Unlock()
				if cs.msg != "" && !cs.harness {
					siteSeen[cs.tmFrame]++
					if strings.Contains(cs.tmFrame, "bits.(*BitArray)") && siteSeen[cs.tmFrame] >= 2 && !strings.Contains(avoid, "bitarray") {
						avoid += "bitarray,"
					}
				} else if cs.harness {
					return // a harness failure repeats; do not loop on it
				}
				// carry on right after the input that crashed
				var rest []string
				found := false
				for _, f := range todo {
					bs := parseBatches(f)
					if len(bs) != 1 {
						continue
					}
					if found {
						rest = append(rest, f)
					} else if bs[0].b == batch {
						found = true
						rest = append(rest, fmt.Sprintf("%d:%d", batch, index+1))
					}
				}
				if !found {
					return
				}
				todo = rest
			}
		}(k)
	}
	wg.Add(1)
	go func() {
		defer wg.Done()
		res := spawn(c, dir, "n3mem", "", false, 8*time.Minute)
		mu.Lock()
		defer mu.Unlock()
		res.rec.apply(c, "")
		if res.crashed {
			ins, _, _ := lastInputs(filepath.Join(dir, "n3mem.inputs"), 2)
			extra := map[string]interface{}{"stream": "n3mem", "last_logged_inputs_newest_last": ins}
			if res.exit == 90 || strings.Contains(res.stderr, "MEMORY-WATCHDOG") {
				c.Violation("node-memory-exhaustion", "hostile input drove the node's heap beyond the harness' cap", extra)
			} else {
				reportCrash(c, "n3mem", res, extra)
			}
		}
	}()
	wg.Wait()
	c.Set("n3.wall_s", time.Since(t0).Seconds())
}

var _ p2p.Peer
