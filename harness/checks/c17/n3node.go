package c17

import (
	"bytes"
	"fmt"
	"io"
	"os"
	"path/filepath"
	"strconv"
	"sync"
	"sync/atomic"
	"time"

	"github.com/gogo/protobuf/proto"
	dbm "github.com/tendermint/tm-db"

	"github.com/tendermint/tendermint/abci/example/kvstore"
	abci "github.com/tendermint/tendermint/abci/types"
	bcv0 "github.com/tendermint/tendermint/blockchain/v0"
	cfg "github.com/tendermint/tendermint/config"
	"github.com/tendermint/tendermint/consensus"
	cstypes "github.com/tendermint/tendermint/consensus/types"
	"github.com/tendermint/tendermint/evidence"
	"github.com/tendermint/tendermint/libs/log"
	mempl "github.com/tendermint/tendermint/mempool"
	mempoolv0 "github.com/tendermint/tendermint/mempool/v0"
	"github.com/tendermint/tendermint/p2p"
	tmconn "github.com/tendermint/tendermint/p2p/conn"
	"github.com/tendermint/tendermint/p2p/pex"
	bcproto "github.com/tendermint/tendermint/proto/tendermint/blockchain"
	tmcons "github.com/tendermint/tendermint/proto/tendermint/consensus"
	protomem "github.com/tendermint/tendermint/proto/tendermint/mempool"
	tmp2p "github.com/tendermint/tendermint/proto/tendermint/p2p"
	ssproto "github.com/tendermint/tendermint/proto/tendermint/statesync"
	tmproto "github.com/tendermint/tendermint/proto/tendermint/types"
	"github.com/tendermint/tendermint/proxy"
	sm "github.com/tendermint/tendermint/state"
	"github.com/tendermint/tendermint/statesync"
	"github.com/tendermint/tendermint/store"
	"github.com/tendermint/tendermint/types"
	tmtime "github.com/tendermint/tendermint/types/time"
)

// ---------------------------------------------------------------------------
// The node under test of N3-lite: every reactor a full node runs, built from
// the exported constructors the way node/node.go does, on one real p2p.Switch.
// Validators: the node (60 % of the power) and a second validator whose key the
// harness holds (40 %).  The node therefore sits still at (height, round,
// prevote) until the harness' honest co-validator mirrors its votes; hostile
// input meets a stable, known consensus state and "the node still commits
// heights" is probed by mirroring two heights.
// ---------------------------------------------------------------------------

const (
	chPex       = byte(0x00)
	chState     = byte(0x20)
	chData      = byte(0x21)
	chVote      = byte(0x22)
	chVoteBits  = byte(0x23)
	chMempool   = byte(0x30)
	chEvidence  = byte(0x38)
	chBlockchan = byte(0x40)
	chSnapshot  = byte(0x60)
	chChunk     = byte(0x61)
)

var allChannels = []byte{chPex, chState, chData, chVote, chVoteBits, chMempool, chEvidence, chBlockchan, chSnapshot, chChunk}

func chanReactor(ch byte) string {
	switch ch {
	case chPex:
		return "pex"
	case chState, chData, chVote, chVoteBits:
		return "consensus"
	case chMempool:
		return "mempool"
	case chEvidence:
		return "evidence"
	case chBlockchan:
		return "blockchain"
	case chSnapshot, chChunk:
		return "statesync"
	}
	return "?"
}

// snapApp is the kvstore application plus one advertised snapshot, so that the
// state sync reactor has something to answer with.
type snapApp struct {
	*kvstore.Application
}

var snapHash = bytes.Repeat([]byte{0x5a}, 32)

func (a *snapApp) ListSnapshots(abci.RequestListSnapshots) abci.ResponseListSnapshots {
	return abci.ResponseListSnapshots{Snapshots: []*abci.Snapshot{{Height: 1, Format: 1, Chunks: 2, Hash: snapHash, Metadata: []byte("c17")}}}
}

func (a *snapApp) LoadSnapshotChunk(req abci.RequestLoadSnapshotChunk) abci.ResponseLoadSnapshotChunk {
	if req.Height == 1 && req.Format == 1 && req.Chunk < 2 {
		return abci.ResponseLoadSnapshotChunk{Chunk: bytes.Repeat([]byte{byte(req.Chunk + 1)}, 100)}
	}
	return abci.ResponseLoadSnapshotChunk{}
}

// wrapReactor observes a reactor at the p2p.Reactor boundary: it counts the
// Receive calls that returned and those a panic passed through.
type wrapReactor struct {
	p2p.Reactor
	name     string
	entered  int64
	returned int64
	panicked int64
	lastCh   int32
	maxIn    int64    // most Receive calls in flight at once
	perPeer  sync.Map // p2p.ID -> *int64: Receive calls completed (returned or panicked) for that peer
}

func (w *wrapReactor) enter() {
	e := atomic.AddInt64(&w.entered, 1)
	in := e - atomic.LoadInt64(&w.returned) - atomic.LoadInt64(&w.panicked)
	for {
		old := atomic.LoadInt64(&w.maxIn)
		if in <= old || atomic.CompareAndSwapInt64(&w.maxIn, old, in) {
			break
		}
	}
}

func (w *wrapReactor) note(ch byte, peer p2p.Peer, ok *bool) {
	atomic.StoreInt32(&w.lastCh, int32(ch))
	if peer != nil {
		v, _ := w.perPeer.LoadOrStore(peer.ID(), new(int64))
		atomic.AddInt64(v.(*int64), 1)
	}
	if *ok {
		atomic.AddInt64(&w.returned, 1)
	} else {
		atomic.AddInt64(&w.panicked, 1)
	}
}

// inFlight = Receive calls that were entered and have neither returned nor panicked.
func (w *wrapReactor) inFlight() int64 {
	r, p := atomic.LoadInt64(&w.returned), atomic.LoadInt64(&w.panicked)
	return atomic.LoadInt64(&w.entered) - r - p
}

func (w *wrapReactor) doneFor(id p2p.ID) int64 {
	if v, ok := w.perPeer.Load(id); ok {
		return atomic.LoadInt64(v.(*int64))
	}
	return 0
}

func (w *wrapReactor) ReceiveEnvelope(e p2p.Envelope) {
	ok := false
	w.enter()
	defer w.note(e.ChannelID, e.Src, &ok)
	if er, is := w.Reactor.(p2p.EnvelopeReceiver); is {
		er.ReceiveEnvelope(e)
	} else {
		m := e.Message
		if wm, okw := m.(p2p.Wrapper); okw {
			m = wm.Wrap()
		}
		bz, err := proto.Marshal(m)
		if err != nil {
			panic(err)
		}
		w.Reactor.Receive(e.ChannelID, e.Src, bz)
	}
	ok = true
}

func (w *wrapReactor) Receive(ch byte, peer p2p.Peer, b []byte) {
	ok := false
	w.enter()
	defer w.note(ch, peer, &ok)
	w.Reactor.Receive(ch, peer, b)
	ok = true
}

// peerReactor is what the hostile and the honest switch run: it owns the same
// channel ids as the node and records everything it is sent.
type inMsg struct {
	ch byte
	b  []byte
}

type peerReactor struct {
	p2p.BaseReactor
	mu    sync.Mutex
	inbox []inMsg
	keep  bool
}

func newPeerReactor(keep bool) *peerReactor {
	r := &peerReactor{keep: keep}
	r.BaseReactor = *p2p.NewBaseReactor("C17Peer", r)
	return r
}

func (r *peerReactor) GetChannels() []*tmconn.ChannelDescriptor {
	mt := map[byte]proto.Message{
		chPex: &tmp2p.Message{}, chState: &tmcons.Message{}, chData: &tmcons.Message{}, chVote: &tmcons.Message{}, chVoteBits: &tmcons.Message{},
		chMempool: &protomem.Message{}, chEvidence: &tmproto.EvidenceList{}, chBlockchan: &bcproto.Message{}, chSnapshot: &ssproto.Message{}, chChunk: &ssproto.Message{},
	}
	var ds []*tmconn.ChannelDescriptor
	for _, ch := range allChannels {
		ds = append(ds, &tmconn.ChannelDescriptor{ID: ch, Priority: 5, SendQueueCapacity: 100, RecvMessageCapacity: 32 << 20, MessageType: mt[ch]})
	}
	return ds
}

func (r *peerReactor) Receive(ch byte, peer p2p.Peer, b []byte) {
	if !r.keep {
		return
	}
	cp := append([]byte{}, b...)
	r.mu.Lock()
	if len(r.inbox) < 20000 {
		r.inbox = append(r.inbox, inMsg{ch, cp})
	}
	r.mu.Unlock()
}

// ReceiveEnvelope overrides the no-op of BaseReactor (the switch prefers it over Receive).
func (r *peerReactor) ReceiveEnvelope(e p2p.Envelope) {
	if !r.keep {
		return
	}
	m := e.Message
	if w, ok := m.(p2p.Wrapper); ok {
		m = w.Wrap()
	}
	b, err := proto.Marshal(m)
	if err != nil {
		return
	}
	r.Receive(e.ChannelID, e.Src, b)
}

func (r *peerReactor) take() []inMsg {
	r.mu.Lock()
	out := r.inbox
	r.inbox = nil
	r.mu.Unlock()
	return out
}

type n3Node struct {
	dir       string
	config    *cfg.Config
	genDoc    *types.GenesisDoc
	chainID   string
	nodePV    types.MockPV
	hostPV    types.MockPV
	nodeAddr  []byte
	hostAddr  []byte
	app       *snapApp
	proxyApp  proxy.AppConns
	store     *store.BlockStore
	stateSt   sm.Store
	mempool   *mempoolv0.CListMempool
	evpool    *evidence.Pool
	conS      *consensus.State
	conR      *consensus.Reactor
	wraps     map[string]*wrapReactor
	sw        *p2p.Switch // the node
	hostile   *p2p.Switch
	honest    *p2p.Switch
	hostileR  *peerReactor
	honestR   *peerReactor
	chanCap   map[byte]int
	logger    log.Logger
	mirrorMu  sync.Mutex
	mirrored  map[string]bool
	probeSeq  int
	evSeq     int
	nodeValIx int32
	hostValIx int32
	failLog   *failWriter
	consDead  int32
	stopping  int32
}

func must(err error) {
	if err != nil {
		panic(fmt.Sprintf("HARNESS-PANIC: %v", err))
	}
}

// newN3Node builds and starts the node, the hostile switch and the honest switch.
// nodeOpts: how long the node stays in RoundStepNewHeight.  At the initial height a
// consensus.State waits timeout_commit from its start before entering round 0 (a node.Node
// additionally sleeps until genesis time before it starts anything); at later heights it
// waits timeout_commit after a commit unless skip_timeout_commit applies.
type nodeOpts struct {
	gossipSleep       time.Duration
	timeoutCommit     time.Duration
	skipTimeoutCommit bool
	initialHeight     int64 // genesis initial_height (0 = 1)
}

// failWriter passes the node's log through and remembers a "CONSENSUS FAILURE" line.
type failWriter struct {
	w    io.Writer
	mu   sync.Mutex
	line string
}

func (f *failWriter) Write(p []byte) (int, error) {
	if bytes.Contains(p, []byte("CONSENSUS FAILURE")) {
		f.mu.Lock()
		if f.line == "" {
			f.line = string(p)
			if len(f.line) > 12000 {
				f.line = f.line[:12000]
			}
		}
		f.mu.Unlock()
	}
	return f.w.Write(p)
}

func (f *failWriter) get() string { f.mu.Lock(); defer f.mu.Unlock(); return f.line }

func initialHeightOf(o nodeOpts) int64 {
	if o.initialHeight > 1 {
		return o.initialHeight
	}
	if v, err := strconv.ParseInt(os.Getenv("VERIF_C17_INITIAL_HEIGHT"), 10, 64); err == nil && v > 1 {
		return v // the parent runs some children on chains whose first height is not 1
	}
	return 1
}

func newN3Node(dir string, gossipSleep time.Duration) *n3Node {
	return newN3NodeOpts(dir, nodeOpts{gossipSleep: gossipSleep, timeoutCommit: 10 * time.Millisecond, skipTimeoutCommit: true})
}

func newN3NodeOpts(dir string, o nodeOpts) *n3Node {
	gossipSleep := o.gossipSleep
	n := &n3Node{dir: dir, wraps: map[string]*wrapReactor{}, mirrored: map[string]bool{}, chanCap: map[byte]int{}}
	n.failLog = &failWriter{w: os.Stderr}
	n.logger = log.NewFilter(log.NewTMLogger(log.NewSyncWriter(n.failLog)), log.AllowError())
	c := cfg.TestConfig()
	c.SetRoot(dir)
	must(os.MkdirAll(filepath.Join(dir, "data"), 0o755))
	must(os.MkdirAll(filepath.Join(dir, "config"), 0o755))
	c.Consensus.SetWalFile(filepath.Join(dir, "data", "cs.wal", "wal"))
	c.Consensus.TimeoutPropose = 200 * time.Millisecond
	c.Consensus.TimeoutProposeDelta = 10 * time.Millisecond
	c.Consensus.PeerGossipSleepDuration = gossipSleep
	if gossipSleep <= 10*time.Millisecond {
		c.Consensus.PeerQueryMaj23SleepDuration = 10 * time.Millisecond // so that queryMaj23Routine acts within a dwell
	}
	c.Consensus.CreateEmptyBlocks = true
	c.Consensus.TimeoutCommit = o.timeoutCommit
	c.Consensus.SkipTimeoutCommit = o.skipTimeoutCommit
	c.P2P.MaxNumOutboundPeers = 0 // PEX must not start dialling the harness' switches on its own
	c.P2P.AllowDuplicateIP = true
	c.P2P.AddrBookStrict = false
	c.Mempool.Version = cfg.MempoolV0
	n.config = c

	n.nodePV, n.hostPV = types.NewMockPV(), types.NewMockPV()
	npk, _ := n.nodePV.GetPubKey()
	hpk, _ := n.hostPV.GetPubKey()
	n.nodeAddr, n.hostAddr = npk.Address(), hpk.Address()
	n.chainID = "c17-chain"
	n.genDoc = &types.GenesisDoc{
		GenesisTime:     tmtime.Now().Add(-time.Minute),
		ChainID:         n.chainID,
		InitialHeight:   initialHeightOf(o),
		ConsensusParams: types.DefaultConsensusParams(),
		Validators: []types.GenesisValidator{
			{Address: npk.Address(), PubKey: npk, Power: 60, Name: "node"},
			{Address: hpk.Address(), PubKey: hpk, Power: 40, Name: "harness"},
		},
	}
	must(n.genDoc.ValidateAndComplete())
	state, err := sm.MakeGenesisState(n.genDoc)
	must(err)
	ix, _ := state.Validators.GetByAddress(n.nodeAddr)
	n.nodeValIx = ix
	ix, _ = state.Validators.GetByAddress(n.hostAddr)
	n.hostValIx = ix

	n.app = &snapApp{kvstore.NewApplication()}
	n.proxyApp = proxy.NewAppConns(proxy.NewLocalClientCreator(n.app))
	n.proxyApp.SetLogger(n.logger.With("module", "proxy"))
	must(n.proxyApp.Start())

	blockDB, stateDB, evDB := dbm.NewMemDB(), dbm.NewMemDB(), dbm.NewMemDB()
	n.store = store.NewBlockStore(blockDB)
	n.stateSt = sm.NewStore(stateDB, sm.StoreOptions{DiscardABCIResponses: false})
	must(n.stateSt.Save(state))

	eventBus := types.NewEventBus()
	eventBus.SetLogger(n.logger.With("module", "events"))
	must(eventBus.Start())

	hs := consensus.NewHandshaker(n.stateSt, state, n.store, n.genDoc)
	hs.SetLogger(n.logger.With("module", "handshaker"))
	hs.SetEventBus(eventBus)
	must(hs.Handshake(n.proxyApp))
	state, err = n.stateSt.Load()
	must(err)

	n.mempool = mempoolv0.NewCListMempool(c.Mempool, n.proxyApp.Mempool(), state.LastBlockHeight,
		mempoolv0.WithPreCheck(sm.TxPreCheck(state)), mempoolv0.WithPostCheck(sm.TxPostCheck(state)))
	n.mempool.SetLogger(n.logger.With("module", "mempool"))
	memR := mempoolv0.NewReactor(c.Mempool, n.mempool)
	memR.SetLogger(n.logger.With("module", "mempool"))

	n.evpool, err = evidence.NewPool(evDB, n.stateSt, n.store)
	must(err)
	n.evpool.SetLogger(n.logger.With("module", "evidence"))
	evR := evidence.NewReactor(n.evpool)
	evR.SetLogger(n.logger.With("module", "evidence"))

	blockExec := sm.NewBlockExecutor(n.stateSt, n.logger.With("module", "state"), n.proxyApp.Consensus(), n.mempool, n.evpool)
	bcR := bcv0.NewBlockchainReactor(state.Copy(), blockExec, n.store, false)
	bcR.SetLogger(n.logger.With("module", "blockchain"))

	n.conS = consensus.NewState(c.Consensus, state.Copy(), blockExec, n.store, n.mempool, n.evpool)
	n.conS.SetLogger(n.logger.With("module", "consensus"))
	n.conS.SetPrivValidator(n.nodePV)
	n.conR = consensus.NewReactor(n.conS, false)
	n.conR.SetLogger(n.logger.With("module", "consensus"))
	n.conR.SetEventBus(eventBus)

	ssR := statesync.NewReactor(*c.StateSync, n.proxyApp.Snapshot(), n.proxyApp.Query(), dir)
	ssR.SetLogger(n.logger.With("module", "statesync"))

	book := pex.NewAddrBook(filepath.Join(dir, "config", "addrbook.json"), false)
	book.SetLogger(n.logger.With("module", "book"))
	pexR := pex.NewReactor(book, &pex.ReactorConfig{})
	pexR.SetLogger(n.logger.With("module", "pex"))

	add := func(sw *p2p.Switch, name string, r p2p.Reactor) {
		w := &wrapReactor{Reactor: r, name: name}
		n.wraps[name] = w
		for _, d := range r.GetChannels() {
			n.chanCap[d.ID] = d.FillDefaults().RecvMessageCapacity
		}
		sw.AddReactor(name, w)
	}
	n.sw = p2p.MakeSwitch(c.P2P, 0, "testing", "123.123.123", func(i int, sw *p2p.Switch) *p2p.Switch {
		add(sw, "mempool", memR)
		add(sw, "blockchain", bcR)
		add(sw, "consensus", n.conR)
		add(sw, "evidence", evR)
		add(sw, "statesync", ssR)
		add(sw, "pex", pexR)
		sw.SetAddrBook(book)
		return sw
	})
	n.hostileR, n.honestR = newPeerReactor(true), newPeerReactor(true)
	n.hostile = p2p.MakeSwitch(c.P2P, 1, "testing", "123.123.123", func(i int, sw *p2p.Switch) *p2p.Switch {
		sw.AddReactor("c17", n.hostileR)
		return sw
	})
	n.honest = p2p.MakeSwitch(c.P2P, 2, "testing", "123.123.123", func(i int, sw *p2p.Switch) *p2p.Switch {
		sw.AddReactor("c17", n.honestR)
		return sw
	})
	n.sw.SetLogger(n.logger.With("module", "p2p")) // MakeSwitch installed a nop logger; recovered panics are logged here
	must(n.sw.Start())
	must(n.hostile.Start())
	must(n.honest.Start())
	// the consensus state's receive routine must outlive every peer message: State.Wait returns
	// when that routine has exited (by a recovered panic = "CONSENSUS FAILURE", or by Stop)
	go func() {
		n.conS.Wait()
		if atomic.LoadInt32(&n.stopping) == 0 {
			atomic.StoreInt32(&n.consDead, 1)
		}
	}()
	return n
}

// peerOf returns from's peer object for the node, connecting first if needed.
func (n *n3Node) peerOf(from *p2p.Switch) (p2p.Peer, bool, error) {
	nodeID := n.sw.NodeInfo().ID()
	fromID := from.NodeInfo().ID()
	if p := from.Peers().Get(nodeID); p != nil && p.IsRunning() && n.sw.Peers().Has(fromID) {
		return p, false, nil
	}
	// wait until both sides have forgotten the previous connection
	dl := time.Now().Add(10 * time.Second)
	for {
		if p := from.Peers().Get(nodeID); p != nil {
			hangUp(p)
		}
		if !from.Peers().Has(nodeID) && !n.sw.Peers().Has(fromID) {
			break
		}
		if time.Now().After(dl) {
			return nil, false, fmt.Errorf("previous connection never went away (node still has peer: %v)", n.sw.Peers().Has(fromID))
		}
		time.Sleep(500 * time.Microsecond)
	}
	var lastErr error
	for attempt := 0; attempt < 20; attempt++ {
		err := from.DialPeerWithAddress(n.sw.NetAddress())
		if err == nil {
			dl := time.Now().Add(10 * time.Second)
			for time.Now().Before(dl) {
				if p := from.Peers().Get(nodeID); p != nil && n.sw.Peers().Has(fromID) {
					return p, true, nil
				}
				time.Sleep(200 * time.Microsecond)
			}
			lastErr = fmt.Errorf("dial ok but peer not registered on both sides")
		} else {
			lastErr = err
		}
		time.Sleep(5 * time.Millisecond)
	}
	return nil, false, lastErr
}

// hangUp closes the raw connection of a peer.  Both switches then remove the
// peer through their one and only error path (MConnection.onError); calling
// Switch.StopPeer* from the harness as well can race with that path and leave a
// running peer outside the peer set.
func hangUp(p p2p.Peer) {
	_ = p.CloseConn()
}

// disconnect hangs up from's connection to the node and waits until both sides forgot it.
func (n *n3Node) disconnect(from *p2p.Switch) bool { return n.disconnectWithin(from, 10*time.Second) }

func (n *n3Node) disconnectWithin(from *p2p.Switch, d time.Duration) bool {
	nodeID, fromID := n.sw.NodeInfo().ID(), from.NodeInfo().ID()
	dl := time.Now().Add(d)
	for {
		if p := from.Peers().Get(nodeID); p != nil {
			hangUp(p)
		}
		if !from.Peers().Has(nodeID) && !n.sw.Peers().Has(fromID) {
			return true
		}
		if time.Now().After(dl) {
			return false
		}
		time.Sleep(200 * time.Microsecond)
	}
}

func (n *n3Node) nodeHasPeer(sw *p2p.Switch) bool { return n.sw.Peers().Has(sw.NodeInfo().ID()) }

// newFlooder starts one more hostile switch (each flooding peer is a node of its own).
func (n *n3Node) newFlooder(i int) *p2p.Switch {
	sw := p2p.MakeSwitch(n.config.P2P, 10+i, "testing", "123.123.123", func(_ int, sw *p2p.Switch) *p2p.Switch {
		sw.AddReactor("c17", newPeerReactor(false))
		return sw
	})
	must(sw.Start())
	return sw
}

func (n *n3Node) receiveCount(reactor string) (int64, int64) {
	w := n.wraps[reactor]
	return atomic.LoadInt64(&w.returned), atomic.LoadInt64(&w.panicked)
}

func consMsg(m proto.Message) []byte {
	w, ok := m.(p2p.Wrapper)
	if !ok {
		panic("HARNESS-PANIC: not a wrapper")
	}
	b, err := proto.Marshal(w.Wrap())
	must(err)
	return b
}

// signedVote makes a vote of the harness' validator.
func (n *n3Node) signedVote(pv types.MockPV, addr []byte, idx int32, t tmproto.SignedMsgType, h int64, r int32, bid types.BlockID) *types.Vote {
	v := &types.Vote{Type: t, Height: h, Round: r, BlockID: bid, Timestamp: tmtime.Now(), ValidatorAddress: addr, ValidatorIndex: idx}
	pb := v.ToProto()
	must(pv.SignVote(n.chainID, pb))
	v.Signature = pb.Signature
	return v
}

func voteBytes(v *types.Vote) []byte { return consMsg(&tmcons.Vote{Vote: v.ToProto()}) }

// mirrorStep lets the honest co-validator vote exactly what the node voted in
// the node's current round.  Returns true if something was sent.
func (n *n3Node) mirrorStep() (bool, error) {
	return n.mirrorTypes(tmproto.PrevoteType, tmproto.PrecommitType)
}

// mirrorTypes mirrors only the given vote types (prevotes only = the node ends up waiting in the precommit step).
func (n *n3Node) mirrorTypes(ts ...tmproto.SignedMsgType) (bool, error) {
	rs := n.conS.GetRoundState()
	if rs.Votes == nil {
		return false, nil
	}
	sent := false
	for _, t := range ts {
		var vs *types.VoteSet
		if t == tmproto.PrevoteType {
			vs = rs.Votes.Prevotes(rs.Round)
		} else {
			vs = rs.Votes.Precommits(rs.Round)
		}
		if vs == nil {
			continue
		}
		own := vs.GetByAddress(n.nodeAddr)
		if own == nil {
			continue
		}
		key := fmt.Sprintf("%d/%d/%d", rs.Height, rs.Round, t)
		n.mirrorMu.Lock()
		done := n.mirrored[key]
		n.mirrored[key] = true
		n.mirrorMu.Unlock()
		if done {
			continue
		}
		p, _, err := n.peerOf(n.honest)
		if err != nil {
			return sent, err
		}
		v := n.signedVote(n.hostPV, n.hostAddr, n.hostValIx, t, rs.Height, rs.Round, own.BlockID)
		if !p.Send(chVote, voteBytes(v)) {
			n.mirrorMu.Lock()
			delete(n.mirrored, key)
			n.mirrorMu.Unlock()
		} else {
			sent = true
		}
	}
	return sent, nil
}

// advance mirrors until the block store has grown by k heights.
func (n *n3Node) advance(k int64, watchdog time.Duration) (int64, error) {
	start := n.store.Height()
	dl := time.Now().Add(watchdog)
	for n.store.Height() < start+k {
		if _, err := n.mirrorStep(); err != nil {
			return n.store.Height() - start, err
		}
		if time.Now().After(dl) {
			rs := n.conS.GetRoundState()
			return n.store.Height() - start, fmt.Errorf("no progress: store height %d, consensus at %d/%d/%v", n.store.Height(), rs.Height, rs.Round, rs.Step)
		}
		time.Sleep(500 * time.Microsecond)
	}
	return n.store.Height() - start, nil
}

// settle waits until the node stands still in a prevote step with its own prevote cast
// (the state hostile batches are sent in).  Not reaching it is not an error.
func (n *n3Node) settle(d time.Duration) *cstypes.RoundState {
	dl := time.Now().Add(d)
	for {
		rs := n.conS.GetRoundState()
		if rs.Step == cstypes.RoundStepPrevote && rs.Votes != nil {
			if vs := rs.Votes.Prevotes(rs.Round); vs != nil && vs.GetByAddress(n.nodeAddr) != nil {
				return rs
			}
		}
		if time.Now().After(dl) {
			return rs
		}
		time.Sleep(time.Millisecond)
	}
}

func (n *n3Node) consensusDead() bool { return atomic.LoadInt32(&n.consDead) == 1 }

func (n *n3Node) stop() {
	atomic.StoreInt32(&n.stopping, 1)
	_ = n.hostile.Stop()
	_ = n.honest.Stop()
	_ = n.sw.Stop()
	_ = n.proxyApp.Stop()
}

var _ = mempl.MempoolChannel
