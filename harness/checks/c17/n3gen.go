package c17

import (
	"fmt"
	"math"
	"math/rand"
	"regexp"
	"strconv"
	"strings"
	"time"

	"github.com/gogo/protobuf/proto"

	"github.com/tendermint/tendermint/crypto/ed25519"
	"github.com/tendermint/tendermint/p2p"
	bcproto "github.com/tendermint/tendermint/proto/tendermint/blockchain"
	tmcons "github.com/tendermint/tendermint/proto/tendermint/consensus"
	tmcrypto "github.com/tendermint/tendermint/proto/tendermint/crypto"
	tmbits "github.com/tendermint/tendermint/proto/tendermint/libs/bits"
	protomem "github.com/tendermint/tendermint/proto/tendermint/mempool"
	tmp2p "github.com/tendermint/tendermint/proto/tendermint/p2p"
	ssproto "github.com/tendermint/tendermint/proto/tendermint/statesync"
	tmproto "github.com/tendermint/tendermint/proto/tendermint/types"
	"github.com/tendermint/tendermint/types"
	tmtime "github.com/tendermint/tendermint/types/time"
)

// ---------------------------------------------------------------------------
// Hostile inputs for the reactors.  An input is a short sequence of messages
// sent on one connection after a (valid) prefix that puts the node's view of
// the peer into a chosen state.
// ---------------------------------------------------------------------------

type wireMsg struct {
	Ch   byte   `json:"channel"`
	Note string `json:"what"`
	B    []byte `json:"-"`
	Hex  string `json:"bytes_hex"`
	Len  int    `json:"len"`
	Sig  string `json:"signature"` // coarse class of the message: kind | height relative to the node | vote type | node step
}

type n3Input struct {
	Stream  string    `json:"stream"`
	Batch   int       `json:"batch"`
	Index   int       `json:"index"`
	Reactor string    `json:"reactor"`
	State   string    `json:"peer_state"`
	Class   string    `json:"class"`
	Prefix  []wireMsg `json:"state_prefix"`
	Seq     []wireMsg `json:"messages"`
	DwellMs int       `json:"dwell_ms_with_the_peer_connected,omitempty"` // time for the node's gossip routines to act on the stored peer state
	Mirror  bool      `json:"honest_prevote_arrives_during_dwell,omitempty"`
	NodeH   int64     `json:"node_height"`
	NodeR   int32     `json:"node_round"`
	NodeS   string    `json:"node_step"`
}

// live values the generators may refer to
type liveCtx struct {
	H       int64
	R       int32
	Step    uint32
	PropBID *tmproto.BlockID // the node's current proposal, if it has one
	PrevBID tmproto.BlockID  // block H-1 (zero at height 1)
	Part    *tmproto.Part    // a genuine part (of the proposal or of block H-1)
	NVals   int
	LCR     int32 // round of the commit of height H-1 as the node holds it (-1 if none)
	// the part set the node is collecting / holding for its current round, if any
	HasParts   bool
	PartsTotal uint32
	PartsHash  []byte
	// the harness' validator is the proposer of the node's round and the node has no proposal yet
	HarnessProposes bool
}

type gen struct {
	r       *rand.Rand
	n       *n3Node
	lc      liveCtx
	peerR   int32 // round announced by the state prefix
	peerH   int64
	unknown ed25519.PrivKey
	// avoidBadElems suppresses bit arrays whose Elems are shorter than Bits demand
	avoidBadElems bool
	// avoid: message signatures that already brought the node down twice in this run (see runN3lite);
	// suppressed so that the rest of the input space still gets explored
	avoid map[string]bool
	// focusPrev: half of the consensus inputs are about the height before the node's (0 at the initial height)
	focusPrev bool
}

func pick64(r *rand.Rand, vs ...int64) int64 { return vs[r.Intn(len(vs))] }

func (g *gen) height() int64 {
	if g.r.Intn(10) < 6 {
		return g.peerH
	}
	H := g.lc.H
	return pick64(g.r, 0, 1, H-1, H, H+1, H+2, H+1000, 1<<62, -1, -(1 << 62), math.MaxInt64, math.MinInt64, g.peerH+1, g.peerH-1)
}

func (g *gen) round() int32 {
	if g.r.Intn(10) < 6 {
		return g.peerR
	}
	return int32(pick64(g.r, 0, int64(g.lc.R), int64(g.lc.R)+1, int64(g.lc.R)+2, 1000, math.MaxInt32, -1, math.MinInt32, int64(g.peerR)+1))
}

func (g *gen) idx() int64 {
	return pick64(g.r, 0, 0, 1, 1, 2, 63, 64, 65, 127, 128, 1600, 1601, 9999, 10000, 10001, 65535, 1<<20, math.MaxInt32, -1, math.MinInt32)
}

func (g *gen) vtype() tmproto.SignedMsgType {
	switch k := g.r.Intn(20); {
	case k < 9:
		return tmproto.PrevoteType
	case k < 18:
		return tmproto.PrecommitType
	default:
		return tmproto.SignedMsgType(pick64(g.r, 0, 32, 3, -1, 255, math.MaxInt32))
	}
}

func (g *gen) total() uint32 {
	return uint32(pick64(g.r, 0, 1, 1, 2, 3, 64, 65, 1601, 1602, 65536, 1<<20, 1<<24))
}

func (g *gen) hash() []byte {
	n := 32
	if g.r.Intn(12) == 0 {
		n = int(pick64(g.r, 0, 1, 31, 33, 64))
	}
	b := make([]byte, n)
	g.r.Read(b)
	return b
}

// bitArray returns a protobuf bit array claiming n bits, in one of several shapes.
func (g *gen) bitArray(n int64) (*tmbits.BitArray, string) {
	words := func(k int64) []uint64 {
		if k < 0 {
			k = 0
		}
		if k > (1<<20)/64 {
			k = (1 << 20) / 64 // keep the wire size modest
		}
		e := make([]uint64, k)
		for i := range e {
			e[i] = g.r.Uint64()
		}
		return e
	}
	need := (n + 63) / 64
	k := g.r.Intn(9)
	if g.avoidBadElems && (k == 2 || k == 3 || k == 7) {
		k = 0 // this child was restarted after the same bit-array crash twice: explore the rest
	}
	switch k {
	case 0, 1:
		return &tmbits.BitArray{Bits: n, Elems: words(need)}, "consistent"
	case 2:
		return &tmbits.BitArray{Bits: n}, "no-elems"
	case 3:
		return &tmbits.BitArray{Bits: n, Elems: words(need / 2)}, "elems-short"
	case 4:
		return &tmbits.BitArray{Bits: n, Elems: words(need*2 + 1)}, "elems-long"
	case 5:
		return &tmbits.BitArray{Bits: -n - 1, Elems: words(need)}, "bits-negative"
	case 6:
		return &tmbits.BitArray{Bits: 0, Elems: words(1 + int64(g.r.Intn(3)))}, "bits-zero-with-elems"
	case 7:
		return &tmbits.BitArray{Bits: n, Elems: words(1)}, "one-elem"
	default:
		return &tmbits.BitArray{Bits: pick64(g.r, 1<<31, 1<<40, 1<<62, math.MaxInt64, math.MinInt64), Elems: words(1)}, "bits-huge"
	}
}

func (g *gen) bitsN() int64 {
	return pick64(g.r, 1, 2, 2, 2, 3, 63, 64, 65, 100, 1601, 9999, 10000, 10001, 1<<16, 1<<20, 1<<24)
}

func (g *gen) psh() tmproto.PartSetHeader {
	if g.lc.PropBID != nil && g.r.Intn(3) == 0 {
		return g.lc.PropBID.PartSetHeader
	}
	return tmproto.PartSetHeader{Total: g.total(), Hash: g.hash()}
}

func (g *gen) blockID() tmproto.BlockID {
	switch g.r.Intn(6) {
	case 0:
		if g.lc.PropBID != nil {
			return *g.lc.PropBID
		}
	case 1:
		return g.lc.PrevBID
	case 2:
		return tmproto.BlockID{} // nil block
	}
	return tmproto.BlockID{Hash: g.hash(), PartSetHeader: tmproto.PartSetHeader{Total: g.total(), Hash: g.hash()}}
}

func (g *gen) sig(signBytes []byte) ([]byte, string) {
	switch g.r.Intn(7) {
	case 0, 1:
		s, _ := g.unknown.Sign(signBytes)
		return s, "unknown-key"
	case 2, 3:
		s, _ := g.n.hostPV.PrivKey.Sign(signBytes)
		return s, "harness-validator-key"
	case 4:
		b := make([]byte, 64)
		g.r.Read(b)
		return b, "garbage"
	case 5:
		return nil, "empty"
	default:
		b := make([]byte, int(pick64(g.r, 1, 63, 65, 1000)))
		g.r.Read(b)
		return b, "wrong-size"
	}
}

// safeSignBytes: the canonicalisation helpers panic on malformed block ids; a
// hostile message with such an id is then signed over a fixed string instead.
func safeSignBytes(f func() []byte) (b []byte) {
	defer func() {
		if recover() != nil {
			b = []byte("c17: unsignable")
		}
	}()
	return f()
}

func wm(ch byte, note string, m proto.Message) wireMsg {
	var b []byte
	if w, ok := m.(p2p.Wrapper); ok {
		b = mustMarshal(w.Wrap())
	} else {
		b = mustMarshal(m)
	}
	return wireMsg{Ch: ch, Note: note, B: b}
}

func mustMarshal(m proto.Message) []byte {
	b, err := proto.Marshal(m)
	if err != nil {
		panic("HARNESS-PANIC: marshal: " + err.Error())
	}
	return b
}

// ---- consensus ------------------------------------------------------------

func (g *gen) mNRS(h int64, r int32, step uint32) wireMsg {
	lcr := int32(0)
	if h <= g.n.genDoc.InitialHeight { // a peer at the chain's first height has no last commit
		lcr = -1
	}
	return wm(chState, fmt.Sprintf("NewRoundStep h=%d r=%d step=%d lcr=%d", h, r, step, lcr),
		&tmcons.NewRoundStep{Height: h, Round: r, Step: step, SecondsSinceStartTime: 1, LastCommitRound: lcr})
}

func (g *gen) mProposal(h int64, r, pol int32, bid tmproto.BlockID) wireMsg {
	p := tmproto.Proposal{Type: tmproto.ProposalType, Height: h, Round: r, PolRound: pol, BlockID: bid, Timestamp: tmtime.Now()}
	if g.r.Intn(15) == 0 {
		p.Type = g.vtype()
	}
	sb := safeSignBytes(func() []byte { return types.ProposalSignBytes(g.n.chainID, &p) })
	var how string
	p.Signature, how = g.sig(sb)
	return wm(chData, fmt.Sprintf("Proposal h=%d r=%d pol=%d total=%d sig=%s", h, r, pol, bid.PartSetHeader.Total, how), &tmcons.Proposal{Proposal: p})
}

func (g *gen) mPPOL(h int64, pol int32, n int64) wireMsg {
	ba, shape := g.bitArray(n)
	return wm(chData, fmt.Sprintf("ProposalPOL h=%d pol=%d bits=%d elems=%d (%s)", h, pol, ba.Bits, len(ba.Elems), shape),
		&tmcons.ProposalPOL{Height: h, ProposalPolRound: pol, ProposalPol: *ba})
}

func (g *gen) mNVB(h int64, r int32, psh tmproto.PartSetHeader, n int64, commit bool) wireMsg {
	ba, shape := g.bitArray(n)
	if g.r.Intn(12) == 0 {
		ba = nil
		shape = "nil"
	}
	nb, ne := int64(0), 0
	if ba != nil {
		nb, ne = ba.Bits, len(ba.Elems)
	}
	return wm(chState, fmt.Sprintf("NewValidBlock h=%d r=%d total=%d bits=%d elems=%d (%s) commit=%v", h, r, psh.Total, nb, ne, shape, commit),
		&tmcons.NewValidBlock{Height: h, Round: r, BlockPartSetHeader: psh, BlockParts: ba, IsCommit: commit})
}

func (g *gen) part() tmproto.Part {
	var p tmproto.Part
	if g.lc.Part != nil && g.r.Intn(3) != 0 {
		p = *g.lc.Part
		p.Bytes = append([]byte{}, p.Bytes...)
	} else {
		p = tmproto.Part{Bytes: make([]byte, int(pick64(g.r, 0, 1, 100, 65536, 65537))), Proof: tmcrypto.Proof{Total: 1, Index: 0, LeafHash: g.hash()}}
		g.r.Read(p.Bytes)
	}
	switch g.r.Intn(8) {
	case 0:
		p.Index = uint32(g.idx())
	case 1:
		p.Proof.Index = g.idx()
	case 2:
		p.Proof.Total = pick64(g.r, 0, -1, 1, 1<<40, math.MaxInt64)
	case 3:
		p.Proof.Aunts = [][]byte{g.hash(), g.hash()}
		for i := 0; i < g.r.Intn(200); i++ {
			p.Proof.Aunts = append(p.Proof.Aunts, g.hash())
		}
	case 4:
		p.Proof.LeafHash = g.hash()
	}
	return p
}

func (g *gen) mBlockPart(h int64, r int32) wireMsg {
	p := g.part()
	return wm(chData, fmt.Sprintf("BlockPart h=%d r=%d index=%d bytes=%d proof=(%d/%d, %d aunts)", h, r, p.Index, len(p.Bytes), p.Proof.Index, p.Proof.Total, len(p.Proof.Aunts)),
		&tmcons.BlockPart{Height: h, Round: r, Part: p})
}

func (g *gen) mVote(t tmproto.SignedMsgType, h int64, r int32, bid tmproto.BlockID) wireMsg {
	v := tmproto.Vote{Type: t, Height: h, Round: r, BlockID: bid, Timestamp: tmtime.Now(), ValidatorAddress: g.n.hostAddr, ValidatorIndex: g.n.hostValIx}
	switch g.r.Intn(8) {
	case 0:
		v.ValidatorIndex = int32(g.idx())
	case 1:
		v.ValidatorAddress = g.hash()
	case 2:
		v.ValidatorAddress, v.ValidatorIndex = g.n.nodeAddr, g.n.nodeValIx // pretend to be the node itself
	case 3:
		v.Timestamp = time.Unix(pick64(g.r, 0, 1, -62135596800, 253402300799), 0).UTC()
	}
	sb := safeSignBytes(func() []byte { return types.VoteSignBytes(g.n.chainID, &v) })
	var how string
	v.Signature, how = g.sig(sb)
	var m proto.Message = &tmcons.Vote{Vote: &v}
	if g.r.Intn(25) == 0 {
		m = &tmcons.Vote{} // nil sub-message
		how = "nil-vote"
	}
	return wm(chVote, fmt.Sprintf("Vote type=%d h=%d r=%d idx=%d sig=%s", t, h, r, v.ValidatorIndex, how), m)
}

func (g *gen) mHasVote(h int64, r int32) wireMsg {
	t, i := g.vtype(), int32(g.idx())
	return wm(chState, fmt.Sprintf("HasVote h=%d r=%d type=%d index=%d", h, r, t, i), &tmcons.HasVote{Height: h, Round: r, Type: t, Index: i})
}

func (g *gen) mMaj23(h int64, r int32) wireMsg {
	t := g.vtype()
	return wm(chState, fmt.Sprintf("VoteSetMaj23 h=%d r=%d type=%d", h, r, t), &tmcons.VoteSetMaj23{Height: h, Round: r, Type: t, BlockID: g.blockID()})
}

func (g *gen) mVSB(h int64, r int32, n int64) wireMsg {
	ba, shape := g.bitArray(n)
	t := g.vtype()
	return wm(chVoteBits, fmt.Sprintf("VoteSetBits h=%d r=%d type=%d bits=%d elems=%d (%s)", h, r, t, ba.Bits, len(ba.Elems), shape),
		&tmcons.VoteSetBits{Height: h, Round: r, Type: t, BlockID: g.blockID(), Votes: *ba})
}

func (g *gen) anyConsensus() wireMsg {
	switch g.r.Intn(10) {
	case 0:
		return g.mNRS(g.height(), g.round(), uint32(pick64(g.r, 0, 1, 2, 3, 4, 5, 6, 7, 8, 9, 255, 256, math.MaxUint32)))
	case 1:
		psh := g.psh()
		n := int64(psh.Total)
		if g.r.Intn(3) == 0 {
			n = g.bitsN()
		}
		return g.mNVB(g.height(), g.round(), psh, n, g.r.Intn(2) == 0)
	case 2:
		return g.mProposal(g.height(), g.round(), int32(pick64(g.r, -1, -1, 0, 0, 1, int64(g.lc.R), -2, math.MaxInt32, math.MinInt32)), g.blockID())
	case 3:
		return g.mPPOL(g.height(), int32(pick64(g.r, 0, 0, 1, int64(g.lc.R), -1, math.MaxInt32)), g.bitsN())
	case 4:
		return g.mBlockPart(g.height(), g.round())
	case 5:
		return g.mVote(g.vtype(), g.height(), g.round(), g.blockID())
	case 6:
		return g.mHasVote(g.height(), g.round())
	case 7:
		return g.mMaj23(g.height(), g.round())
	case 8:
		return g.mVSB(g.height(), g.round(), g.bitsN())
	default:
		// a consensus message on the wrong consensus channel
		m := g.anyConsensus()
		m.Ch = []byte{chState, chData, chVote, chVoteBits}[g.r.Intn(4)]
		m.Note += " (on channel " + fmt.Sprintf("%#x", m.Ch) + ")"
		return m
	}
}

// cleanVote is a vote that passes ValidateBasic: what varies is height, round, index, block id and signer.
func (g *gen) cleanVote(h int64) wireMsg {
	t := tmproto.PrecommitType
	if g.r.Intn(3) == 0 {
		t = tmproto.PrevoteType
	}
	v := tmproto.Vote{Type: t, Height: h, Round: int32(pick64(g.r, 0, 0, 0, 1, 5, int64(g.lc.R), math.MaxInt32)), Timestamp: tmtime.Now(),
		ValidatorAddress: g.n.hostAddr, ValidatorIndex: g.n.hostValIx}
	switch g.r.Intn(6) {
	case 0:
		v.ValidatorIndex = int32(pick64(g.r, 0, 1, 2, 5, 100, 10000, math.MaxInt32))
	case 1:
		v.ValidatorAddress, v.ValidatorIndex = g.n.nodeAddr, g.n.nodeValIx
	case 2:
		v.ValidatorAddress = make([]byte, 20)
		g.r.Read(v.ValidatorAddress)
	}
	if g.r.Intn(3) != 0 {
		rb := randBlockID(g.r)
		v.BlockID = rb.ToProto()
		if g.r.Intn(3) == 0 && g.lc.PrevBID.Hash != nil {
			v.BlockID = g.lc.PrevBID
		}
	}
	sb := safeSignBytes(func() []byte { return types.VoteSignBytes(g.n.chainID, &v) })
	how := "harness-validator-key"
	if g.r.Intn(3) == 0 {
		v.Signature, _ = g.unknown.Sign(sb)
		how = "unknown-key"
	} else {
		v.Signature, _ = g.n.hostPV.PrivKey.Sign(sb)
	}
	return wm(chVote, fmt.Sprintf("Vote type=%d h=%d r=%d idx=%d sig=%s (ValidateBasic-clean)", t, h, v.Round, v.ValidatorIndex, how), &tmcons.Vote{Vote: &v})
}

// previousHeight: messages of every kind for the height before the node's, or height 0.
func (g *gen) previousHeight(in *n3Input) {
	in.Class = "seq:previous-height"
	// the height before the node's, the one before the chain's first, the first, 0 and 1
	ih := g.n.genDoc.InitialHeight
	h := pick64(g.r, g.lc.H-1, g.lc.H-1, g.lc.H-1, g.lc.H-1, ih-1, ih, 0, 1)
	for i := 0; i < 1+g.r.Intn(3); i++ {
		r := int32(pick64(g.r, 0, 0, 1, int64(g.lc.R), 1000))
		var m wireMsg
		switch g.r.Intn(12) {
		case 0, 1, 2, 3, 4:
			m = g.cleanVote(h)
		case 5:
			m = g.mVote(g.vtype(), h, r, g.blockID())
		case 6:
			m = g.mProposal(h, r, -1, g.blockID())
		case 7:
			m = g.mBlockPart(h, r)
		case 8:
			m = g.mVSB(h, r, int64(pick64(g.r, 1, 2, 2, 3, 64, 10000)))
		case 9:
			m = g.mMaj23(h, r)
		case 10:
			psh := g.psh()
			if psh.Total == 0 || psh.Total > 1601 {
				psh.Total = uint32(pick64(g.r, 1, 2, 64, 1601))
			}
			m = g.mNVB(h, r, psh, int64(psh.Total), g.r.Intn(2) == 0)
		default:
			m = g.mHasVote(h, r)
		}
		in.Seq = append(in.Seq, m)
	}
}

// ---- stateful sequences -------------------------------------------------------
// Every message here passes ValidateBasic and carries a CONSISTENT bit array (as many
// elements as its size demands); what is wrong is the size itself, compared with the
// validator set / the real part count.  The reactor stores these in the peer state;
// the damage, if any, is done later by gossipDataRoutine / gossipVotesRoutine /
// queryMaj23Routine, which run without a recover.  Each sequence is therefore followed
// by a dwell with the peer still connected.

// sizedBits: a consistent bit array of exactly n bits; content all-zero, all-one or random.
func (g *gen) sizedBits(n int64) *tmbits.BitArray {
	if n < 0 {
		n = 0
	}
	e := make([]uint64, (n+63)/64)
	switch g.r.Intn(3) {
	case 0:
		for i := range e {
			e[i] = ^uint64(0)
		}
		if r := uint(n % 64); r != 0 && len(e) > 0 {
			e[len(e)-1] = (uint64(1) << r) - 1 // no bits beyond the size
		}
	case 1:
		for i := range e {
			e[i] = g.r.Uint64()
		}
		if r := uint(n % 64); r != 0 && len(e) > 0 {
			e[len(e)-1] &= (uint64(1) << r) - 1
		}
	}
	return &tmbits.BitArray{Bits: n, Elems: e}
}

// wrongSize: sizes that differ from the right one n.
func (g *gen) wrongSize(n int64, max int64) int64 {
	v := pick64(g.r, n-1, n+1, n+1, n+62, n+63, n+64, 63, 64, 65, 65, 128, 129, max, max-1, 2*n, 0)
	if v > max {
		v = max
	}
	if v < 0 {
		v = 0
	}
	return v
}

func junkSig(r *rand.Rand) []byte {
	b := make([]byte, 64)
	r.Read(b)
	return b
}

func (g *gen) cleanProposal(h int64, r, pol int32) wireMsg {
	rb := randBlockID(g.r)
	p := tmproto.Proposal{Type: tmproto.ProposalType, Height: h, Round: r, PolRound: pol, BlockID: rb.ToProto(), Timestamp: tmtime.Now(), Signature: junkSig(g.r)}
	return wm(chData, fmt.Sprintf("Proposal h=%d r=%d pol=%d total=1 sig=junk (ValidateBasic-clean)", h, r, pol), &tmcons.Proposal{Proposal: p})
}

func (g *gen) cleanPOL(h int64, pol int32, n int64) wireMsg {
	ba := g.sizedBits(n)
	return wm(chData, fmt.Sprintf("ProposalPOL h=%d pol=%d bits=%d elems=%d (consistent, validators=%d)", h, pol, ba.Bits, len(ba.Elems), g.lc.NVals),
		&tmcons.ProposalPOL{Height: h, ProposalPolRound: pol, ProposalPol: *ba})
}

func (g *gen) cleanVSB(h int64, r int32, t tmproto.SignedMsgType, bid tmproto.BlockID, n int64) wireMsg {
	ba := g.sizedBits(n)
	return wm(chVoteBits, fmt.Sprintf("VoteSetBits h=%d r=%d type=%d bits=%d elems=%d (consistent, validators=%d)", h, r, t, ba.Bits, len(ba.Elems), g.lc.NVals),
		&tmcons.VoteSetBits{Height: h, Round: r, Type: t, BlockID: bid, Votes: *ba})
}

func (g *gen) cleanMaj23(h int64, r int32, t tmproto.SignedMsgType, bid tmproto.BlockID) wireMsg {
	return wm(chState, fmt.Sprintf("VoteSetMaj23 h=%d r=%d type=%d (ValidateBasic-clean)", h, r, t), &tmcons.VoteSetMaj23{Height: h, Round: r, Type: t, BlockID: bid})
}

func (g *gen) cleanHasVote(h int64, r int32, t tmproto.SignedMsgType, idx int32) wireMsg {
	return wm(chState, fmt.Sprintf("HasVote h=%d r=%d type=%d index=%d (validators=%d)", h, r, t, idx, g.lc.NVals), &tmcons.HasVote{Height: h, Round: r, Type: t, Index: idx})
}

func (g *gen) cleanNVB(h int64, r int32, psh tmproto.PartSetHeader, commit bool) wireMsg {
	ba := g.sizedBits(int64(psh.Total))
	return wm(chState, fmt.Sprintf("NewValidBlock h=%d r=%d total=%d bits=%d elems=%d (consistent) commit=%v", h, r, psh.Total, ba.Bits, len(ba.Elems), commit),
		&tmcons.NewValidBlock{Height: h, Round: r, BlockPartSetHeader: psh, BlockParts: ba, IsCommit: commit})
}

// a vote of the harness' validator as seen by VoteMessage.ValidateBasic (junk signature): makes the
// reactor create the peer's vote bit arrays (EnsureVoteBitArrays) before anything else
func (g *gen) arraysVote(h int64, r int32, t tmproto.SignedMsgType) wireMsg {
	rb := randBlockID(g.r)
	v := tmproto.Vote{Type: t, Height: h, Round: r, BlockID: rb.ToProto(), Timestamp: tmtime.Now(), ValidatorAddress: g.n.hostAddr, ValidatorIndex: g.n.hostValIx, Signature: junkSig(g.r)}
	return wm(chVote, fmt.Sprintf("Vote type=%d h=%d r=%d idx=%d sig=junk (ValidateBasic-clean)", t, h, r, v.ValidatorIndex), &tmcons.Vote{Vote: &v})
}

func (g *gen) voteType() tmproto.SignedMsgType {
	if g.r.Intn(2) == 0 {
		return tmproto.PrevoteType
	}
	return tmproto.PrecommitType
}

func (g *gen) statefulInput(in *n3Input) {
	H, R, n := g.lc.H, g.lc.R, int64(g.lc.NVals)
	in.State = "stateful"
	in.DwellMs = 60
	in.Mirror = g.r.Intn(3) == 0
	step := uint32(pick64(g.r, 1, 2, 3, 4, 5, 6, 7, 8))
	prev := H > g.n.genDoc.InitialHeight && g.r.Intn(4) == 0 // (e): the peer says it is at the node's previous height
	realBID := g.lc.PrevBID
	if g.lc.PropBID != nil {
		realBID = *g.lc.PropBID
	}
	switch k := g.r.Intn(13); {
	case k >= 10: // (f) block parts at the boundaries of the part set the node is collecting
		g.blockPartBoundaries(in)
	case k < 3: // (a) proposal with a POL round, then the POL bit array
		in.Class = "stateful:a-proposalPOL-wrong-size"
		ph, pr := H, R+1+int32(g.r.Intn(3))
		if prev {
			ph, pr = H-1, 1+int32(g.r.Intn(3))
			in.Class += "@previous-height"
		}
		pol := int32(0)
		if !prev && R > 0 {
			pol = int32(g.r.Intn(int(R) + 1))
		}
		in.Prefix = []wireMsg{g.mNRS(ph, pr, step)}
		in.Seq = []wireMsg{g.cleanProposal(ph, pr, pol), g.cleanPOL(ph, pol, g.wrongSize(n, 10000))}
		if g.r.Intn(3) == 0 {
			in.Seq = append(in.Seq, g.cleanPOL(ph, pol, g.wrongSize(n, 10000)))
		}
	case k < 5: // (b) part-set headers / BlockParts of wrong sizes
		in.Class = "stateful:b-newValidBlock-wrong-size"
		ph, pr := H, R
		psh := realBID.PartSetHeader
		if prev {
			ph, pr = H-1, g.lc.LCR
			if pr < 0 {
				pr = 0
			}
			psh = g.lc.PrevBID.PartSetHeader
			in.Class += "@previous-height"
		}
		real := int64(psh.Total)
		psh.Total = uint32(g.wrongSize(real, 1601))
		if psh.Total == 0 {
			psh.Total = uint32(real + 1)
		}
		if len(psh.Hash) != 32 {
			psh.Hash = make([]byte, 32)
			g.r.Read(psh.Hash)
		}
		in.Prefix = []wireMsg{g.mNRS(ph, pr, step)}
		in.Seq = []wireMsg{g.cleanNVB(ph, pr, psh, g.r.Intn(2) == 0)}
		for i := 0; i < g.r.Intn(3); i++ {
			part := g.part()
			part.Index = uint32(pick64(g.r, 0, 1, real, real+1, int64(psh.Total)-1, int64(psh.Total), 64, 65))
			in.Seq = append(in.Seq, wm(chData, fmt.Sprintf("BlockPart h=%d r=%d index=%d bytes=%d", ph, pr, part.Index, len(part.Bytes)), &tmcons.BlockPart{Height: ph, Round: pr, Part: part}))
		}
		if g.r.Intn(2) == 0 { // and then the node's real header, sized right, so that the gossip compares them
			in.Seq = append(in.Seq, g.cleanNVB(ph, pr, tmproto.PartSetHeader{Total: uint32(real + 64), Hash: psh.Hash}, true))
		}
	case k < 8: // (c) VoteSetMaj23, then VoteSetBits of wrong sizes, for the current and the last height
		in.Class = "stateful:c-maj23+voteSetBits-wrong-size"
		t := g.voteType()
		ph, pr, bid := H, R, realBID
		in.Prefix = []wireMsg{g.mNRS(H, R, step)}
		if prev || g.r.Intn(3) == 0 {
			// the node's last height: its LastCommit / the peer's catch-up arrays
			ph, pr, bid, t = H-1, g.lc.LCR, g.lc.PrevBID, tmproto.PrecommitType
			if pr < 0 || ph < 1 {
				ph, pr, bid, t = H, R, realBID, g.voteType()
			} else {
				in.Class += "@last-height"
			}
			if prev {
				in.Prefix = []wireMsg{g.mNRS(H-1, pr, step)}
			}
		}
		in.Seq = []wireMsg{g.arraysVote(ph, pr, t), g.cleanMaj23(ph, pr, t, bid), g.cleanVSB(ph, pr, t, bid, g.wrongSize(n, 10000))}
		if g.r.Intn(2) == 0 {
			in.Seq = append(in.Seq, g.cleanVSB(ph, pr, t, randBlockIDProto(g.r), g.wrongSize(n, 10000)))
		}
	default: // (d) HasVote with indexes beyond the validator count, then votes arrive
		in.Class = "stateful:d-hasVote-index-beyond-validators"
		ph, pr := H, R
		if prev {
			ph, pr = H-1, g.lc.LCR
			if pr < 0 {
				pr = 0
			}
			in.Class += "@previous-height"
		}
		in.Prefix = []wireMsg{g.mNRS(ph, pr, step)}
		t := g.voteType()
		in.Seq = []wireMsg{g.arraysVote(ph, pr, t)}
		for i := 0; i < 1+g.r.Intn(3); i++ {
			in.Seq = append(in.Seq, g.cleanHasVote(ph, pr, g.voteType(), int32(pick64(g.r, n, n+1, 63, 64, 65, 127, 128, 9999, 10000, math.MaxInt32))))
		}
		in.Mirror = true
	}
}

// blockPartBoundaries: BlockPart messages for the node's current height, all passing ValidateBasic,
// whose index / proof sit at the edges of the part set the node is collecting (its own proposal's, or
// the one of a proposal the harness' validator has just signed), or arrive before any proposal is known.
func (g *gen) blockPartBoundaries(in *n3Input) {
	H, R := g.lc.H, g.lc.R
	in.Class = "stateful:f-blockPart-boundary"
	in.DwellMs = 20
	in.Mirror = false
	in.Prefix = []wireMsg{g.mNRS(H, R, g.lc.Step)}
	total := int64(g.lc.PartsTotal)
	hash := g.lc.PartsHash
	switch {
	case g.lc.HarnessProposes && g.r.Intn(3) != 0:
		// a properly signed proposal of the round's proposer: the node starts collecting its parts
		total = pick64(g.r, 1, 1, 2, 3, 64, 65, 1601)
		hash = make([]byte, 32)
		g.r.Read(hash)
		bh := make([]byte, 32)
		g.r.Read(bh)
		p := tmproto.Proposal{Type: tmproto.ProposalType, Height: H, Round: R, PolRound: -1, Timestamp: tmtime.Now(),
			BlockID: tmproto.BlockID{Hash: bh, PartSetHeader: tmproto.PartSetHeader{Total: uint32(total), Hash: hash}}}
		p.Signature, _ = g.n.hostPV.PrivKey.Sign(types.ProposalSignBytes(g.n.chainID, &p))
		in.Seq = append(in.Seq, wm(chData, fmt.Sprintf("Proposal h=%d r=%d pol=-1 total=%d sig=proposer (harness validator)", H, R, total), &tmcons.Proposal{Proposal: p}))
		in.Class += "@collecting-signed-proposal"
	case g.lc.HasParts:
		in.Class += "@holding-own-proposal"
	default:
		in.Class += "@no-proposal-known"
		if total == 0 {
			total = pick64(g.r, 1, 2, 64)
		}
	}
	mk := func(what string, round int32, index uint32, genuine bool, proofIndex, proofTotal int64) wireMsg {
		var part tmproto.Part
		if genuine && g.lc.Part != nil {
			part = *g.lc.Part
			part.Bytes = append([]byte{}, part.Bytes...)
		} else {
			part = tmproto.Part{Bytes: make([]byte, 1+g.r.Intn(300)), Proof: tmcrypto.Proof{LeafHash: make([]byte, 32)}}
			g.r.Read(part.Bytes)
			g.r.Read(part.Proof.LeafHash)
		}
		part.Index = index
		if !genuine || proofTotal >= 0 {
			part.Proof.Index, part.Proof.Total = proofIndex, proofTotal
		}
		return wm(chData, fmt.Sprintf("BlockPart h=%d r=%d index=%d (part-set total=%d) proof=(%d/%d) %s", H, round, part.Index, total, part.Proof.Index, part.Proof.Total, what),
			&tmcons.BlockPart{Height: H, Round: round, Part: part})
	}
	T := uint32(total)
	for i := 0; i < 2+g.r.Intn(3); i++ {
		round := R
		switch g.r.Intn(6) {
		case 0:
			if R > 0 {
				round = R - 1
			}
		case 1:
			round = R + 1
		}
		var m wireMsg
		switch g.r.Intn(9) {
		case 0, 1:
			m = mk("index == total", round, T, false, int64(T), total+1)
		case 2:
			m = mk("index == total+1", round, T+1, false, int64(T)+1, total+2)
		case 3:
			m = mk("index == MaxUint32", round, math.MaxUint32, false, 0, 1)
		case 4:
			m = mk("last index, wrong proof", round, T-1, false, total-1, total)
		case 5:
			m = mk("right index, proof for another leaf", round, 0, false, 0, total)
		case 6:
			m = mk("genuine part, proof total differs from the header's", round, 0, true, 0, total+1)
		case 7:
			m = mk("genuine part again (duplicate)", round, 0, true, -1, -1)
		default:
			m = mk("index == total, genuine bytes", round, T, true, int64(T), total)
		}
		in.Seq = append(in.Seq, m)
	}
}

func randBlockIDProto(r *rand.Rand) tmproto.BlockID {
	b := randBlockID(r)
	return b.ToProto()
}

func (g *gen) consensusInput(in *n3Input) {
	H, R := g.peerH, g.peerR
	if g.r.Intn(10) < 3 {
		g.statefulInput(in)
		return
	}
	if (g.focusPrev && g.r.Intn(2) == 0) || g.r.Intn(8) == 0 {
		g.previousHeight(in)
		return
	}
	switch k := g.r.Intn(20); {
	case k < 3:
		// the peer announces a proposal (no valid signature needed) with a POL round, then the POL bit array
		pol := int32(pick64(g.r, 0, 0, 0, 1, int64(g.lc.R)))
		in.Class = "seq:proposal+proposalPOL"
		in.Seq = []wireMsg{g.mProposal(H, R, pol, g.blockID()), g.mPPOL(H, pol, int64(pick64(g.r, 1, 2, 2, 3, 64, 65, 10000)))}
	case k < 6:
		psh := g.psh()
		if psh.Total == 0 || psh.Total > 1601 {
			psh.Total = uint32(pick64(g.r, 1, 2, 3, 64, 65, 100, 1601))
		}
		in.Class = "seq:newValidBlock+blockPart"
		in.Seq = []wireMsg{g.mNVB(H, R, psh, int64(psh.Total), g.r.Intn(2) == 0), g.mBlockPart(H, R)}
	case k < 8:
		bid := g.blockID()
		in.Class = "seq:proposal+blockParts"
		in.Seq = []wireMsg{g.mProposal(H, R, -1, bid), g.mBlockPart(H, R), g.mBlockPart(H, R)}
	case k < 10:
		in.Class = "seq:votes+voteSetBits"
		in.Seq = []wireMsg{g.mVote(g.vtype(), H, R, g.blockID()), g.mVSB(H, R, int64(pick64(g.r, 1, 2, 2, 3, 64, 65, 10000))), g.mHasVote(H, R)}
	case k < 12:
		in.Class = "seq:maj23"
		for i := 0; i < 1+g.r.Intn(4); i++ {
			in.Seq = append(in.Seq, g.mMaj23(g.lc.H, g.round()))
		}
	case k < 13:
		in.Class = "seq:step-to-next-height"
		in.Seq = []wireMsg{g.mVote(tmproto.PrecommitType, H, R, g.blockID()), g.mNRS(H+1, 0, 1), g.mHasVote(H, R), g.mVSB(H, R, g.bitsN())}
	default:
		in.Class = "mutated-fields"
		for i := 0; i < 1+g.r.Intn(3); i++ {
			in.Seq = append(in.Seq, g.anyConsensus())
		}
	}
}

// ---- the other reactors ---------------------------------------------------

func (g *gen) mempoolInput(in *n3Input) {
	in.Class = "mutated-fields"
	var txs [][]byte
	switch g.r.Intn(7) {
	case 0:
		txs = nil
	case 1:
		for i := 0; i < 1000; i++ {
			txs = append(txs, []byte{byte(i), byte(i >> 8), byte(g.r.Intn(256))})
		}
	case 2:
		b := make([]byte, 1<<20) // == max_tx_bytes
		g.r.Read(b[:64])
		txs = [][]byte{b}
	case 3:
		b := make([]byte, 1<<20+1+g.r.Intn(100))
		txs = [][]byte{b}
	case 4:
		t := []byte(fmt.Sprintf("dup-%d=%d", g.r.Int63(), g.r.Int63()))
		txs = [][]byte{t, t, t, {}, nil}
	default:
		for i := 0; i < 1+g.r.Intn(5); i++ {
			b := make([]byte, g.r.Intn(300))
			g.r.Read(b)
			txs = append(txs, b)
		}
	}
	in.Seq = []wireMsg{wm(chMempool, fmt.Sprintf("Txs n=%d", len(txs)), &protomem.Txs{Txs: txs})}
	if g.r.Intn(10) == 0 {
		in.Seq = []wireMsg{{Ch: chMempool, Note: "mempool Message without a oneof member (unknown field 2)", B: []byte{0x12, 0x00}}}
	}
}

func (g *gen) evidenceInput(in *n3Input) {
	in.Class = "mutated-fields"
	var evs []tmproto.Evidence
	h := g.lc.H - 1 - int64(g.r.Intn(3))
	if h < g.n.genDoc.InitialHeight {
		h = g.n.genDoc.InitialHeight
	}
	k := g.r.Intn(12)
	switch {
	case k < 5:
		pb, err := g.n.dupVoteEvidenceProto(h, g.r)
		if err != nil {
			pb = &tmproto.DuplicateVoteEvidence{}
		}
		switch g.r.Intn(12) {
		case 0:
			pb.VoteA = nil
		case 1:
			pb.VoteB = nil
		case 2:
			if pb.VoteA != nil && pb.VoteB != nil {
				pb.VoteA.Height = g.height()
				pb.VoteB.Height = pb.VoteA.Height
			}
		case 3:
			pb.TotalVotingPower = pick64(g.r, 0, -1, math.MaxInt64, 1)
		case 4:
			pb.ValidatorPower = pick64(g.r, 0, -1, math.MaxInt64, 1)
		case 5:
			pb.Timestamp = time.Unix(pick64(g.r, 0, 1, -62135596800, 253402300799), 0).UTC()
		case 6:
			if pb.VoteA != nil {
				pb.VoteA.ValidatorIndex = int32(g.idx())
			}
		case 7:
			if pb.VoteB != nil {
				pb.VoteB.Signature, _ = g.sig([]byte("x"))
			}
		case 8:
			if pb.VoteA != nil && pb.VoteB != nil {
				pb.VoteA, pb.VoteB = pb.VoteB, pb.VoteA
			}
		case 9:
			if pb.VoteA != nil {
				pb.VoteA.ValidatorAddress = g.hash()
			}
		case 10:
			if pb.VoteA != nil && pb.VoteB != nil {
				pb.VoteB.BlockID = pb.VoteA.BlockID
			}
		}
		evs = []tmproto.Evidence{{Sum: &tmproto.Evidence_DuplicateVoteEvidence{DuplicateVoteEvidence: pb}}}
		in.Seq = []wireMsg{wm(chEvidence, fmt.Sprintf("EvidenceList[DuplicateVote h=%d] mutated", h), &tmproto.EvidenceList{Evidence: evs})}
	case k < 10:
		pb := g.n.lightAttackProto(h)
		switch g.r.Intn(12) {
		case 0:
			pb.ConflictingBlock = nil
		case 1:
			if pb.ConflictingBlock != nil {
				pb.ConflictingBlock.SignedHeader = nil
			}
		case 2:
			if pb.ConflictingBlock != nil {
				pb.ConflictingBlock.ValidatorSet = nil
			}
		case 3:
			if pb.ConflictingBlock != nil && pb.ConflictingBlock.SignedHeader != nil {
				pb.ConflictingBlock.SignedHeader.Commit = nil
			}
		case 4:
			if pb.ConflictingBlock != nil && pb.ConflictingBlock.SignedHeader != nil {
				pb.ConflictingBlock.SignedHeader.Header = nil
			}
		case 5:
			pb.CommonHeight = g.height()
		case 6:
			pb.ByzantineValidators = append(pb.ByzantineValidators, &tmproto.Validator{})
		case 7:
			pb.TotalVotingPower = pick64(g.r, 0, -1, math.MaxInt64)
		case 8:
			if pb.ConflictingBlock != nil && pb.ConflictingBlock.SignedHeader != nil && pb.ConflictingBlock.SignedHeader.Header != nil {
				pb.ConflictingBlock.SignedHeader.Header.Height = g.height()
			}
		case 9:
			if pb.ConflictingBlock != nil && pb.ConflictingBlock.ValidatorSet != nil {
				pb.ConflictingBlock.ValidatorSet.Validators = append(pb.ConflictingBlock.ValidatorSet.Validators, &tmproto.Validator{})
			}
		case 10:
			if pb.ConflictingBlock != nil && pb.ConflictingBlock.SignedHeader != nil && pb.ConflictingBlock.SignedHeader.Commit != nil {
				c := pb.ConflictingBlock.SignedHeader.Commit
				c.Signatures = append(c.Signatures, c.Signatures...)
				c.Round = int32(pick64(g.r, -1, math.MaxInt32))
			}
		case 11:
			if pb.ConflictingBlock != nil && pb.ConflictingBlock.ValidatorSet != nil {
				pb.ConflictingBlock.ValidatorSet.Proposer = nil
				pb.ConflictingBlock.ValidatorSet.TotalVotingPower = -1
			}
		}
		evs = []tmproto.Evidence{{Sum: &tmproto.Evidence_LightClientAttackEvidence{LightClientAttackEvidence: pb}}}
		in.Seq = []wireMsg{wm(chEvidence, fmt.Sprintf("EvidenceList[LightClientAttack h=%d] mutated", h), &tmproto.EvidenceList{Evidence: evs})}
	case k == 10:
		evs = []tmproto.Evidence{{}, {}}
		in.Seq = []wireMsg{wm(chEvidence, "EvidenceList of two empty Evidence", &tmproto.EvidenceList{Evidence: evs})}
	default:
		in.Seq = []wireMsg{wm(chEvidence, "empty EvidenceList", &tmproto.EvidenceList{})}
	}
}

func (g *gen) blockchainInput(in *n3Input) {
	in.Class = "mutated-fields"
	var m proto.Message
	var note string
	switch g.r.Intn(8) {
	case 0, 1:
		h := g.height()
		m, note = &bcproto.BlockRequest{Height: h}, fmt.Sprintf("BlockRequest h=%d", h)
	case 2:
		h := g.height()
		m, note = &bcproto.NoBlockResponse{Height: h}, fmt.Sprintf("NoBlockResponse h=%d", h)
	case 3:
		h, b := g.height(), g.height()
		m, note = &bcproto.StatusResponse{Height: h, Base: b}, fmt.Sprintf("StatusResponse h=%d base=%d", h, b)
	case 4:
		m, note = &bcproto.BlockResponse{}, "BlockResponse with nil block"
	case 5, 6:
		h := g.lc.H - 1
		var pb *tmproto.Block
		if blk := g.n.store.LoadBlock(h); blk != nil {
			pb, _ = blk.ToProto()
		}
		if pb == nil {
			pb = &tmproto.Block{}
		}
		switch g.r.Intn(8) {
		case 0:
			pb.LastCommit = nil
		case 1:
			pb.Header.Height = g.height()
		case 2:
			pb.Data.Txs = [][]byte{make([]byte, 100000)}
		case 3:
			pb.Header.LastBlockId = g.blockID()
		case 4:
			if pb.LastCommit != nil {
				pb.LastCommit.Signatures = append(pb.LastCommit.Signatures, pb.LastCommit.Signatures...)
			}
		case 5:
			pb.Header.ValidatorsHash = g.hash()
		case 6:
			pb.Evidence.Evidence = []tmproto.Evidence{{}}
		}
		m, note = &bcproto.BlockResponse{Block: pb}, fmt.Sprintf("BlockResponse (block %d mutated)", h)
	default:
		m, note = &bcproto.StatusRequest{}, "StatusRequest"
	}
	in.Seq = []wireMsg{wm(chBlockchan, note, m)}
	if g.r.Intn(6) == 0 {
		for i := 0; i < 20; i++ {
			in.Seq = append(in.Seq, wm(chBlockchan, "StatusRequest (burst)", &bcproto.StatusRequest{}))
		}
	}
}

func (g *gen) statesyncInput(in *n3Input) {
	in.Class = "mutated-fields"
	u64 := func() uint64 { return uint64(pick64(g.r, 0, 1, 1, 2, int64(g.lc.H), 1<<62, -1)) }
	u32 := func() uint32 { return uint32(pick64(g.r, 0, 1, 1, 2, 1000, math.MaxUint32)) }
	var m proto.Message
	var note string
	ch := chSnapshot
	switch g.r.Intn(6) {
	case 0:
		m, note = &ssproto.SnapshotsRequest{}, "SnapshotsRequest"
	case 1:
		md := make([]byte, int(pick64(g.r, 0, 10, 100000, 3_900_000)))
		m = &ssproto.SnapshotsResponse{Height: u64(), Format: u32(), Chunks: u32(), Hash: g.hash(), Metadata: md}
		note = fmt.Sprintf("SnapshotsResponse metadata=%d", len(md))
	case 2, 3:
		ch = chChunk
		r := &ssproto.ChunkRequest{Height: u64(), Format: u32(), Index: u32()}
		m, note = r, fmt.Sprintf("ChunkRequest h=%d f=%d i=%d", r.Height, r.Format, r.Index)
	default:
		ch = chChunk
		r := &ssproto.ChunkResponse{Height: u64(), Format: u32(), Index: u32(), Missing: g.r.Intn(2) == 0}
		if g.r.Intn(2) == 0 {
			r.Chunk = make([]byte, int(pick64(g.r, 0, 1, 100000, 1<<20)))
		}
		m, note = r, fmt.Sprintf("ChunkResponse h=%d chunk=%d missing=%v", r.Height, len(r.Chunk), r.Missing)
	}
	if g.r.Intn(8) == 0 { // right message, wrong state sync channel
		if ch == chSnapshot {
			ch = chChunk
		} else {
			ch = chSnapshot
		}
		note += " (other statesync channel)"
	}
	in.Seq = []wireMsg{wm(ch, note, m)}
}

func (g *gen) pexInput(in *n3Input) {
	in.Class = "mutated-fields"
	switch g.r.Intn(5) {
	case 0:
		n := 1 + g.r.Intn(5)
		for i := 0; i < n; i++ {
			in.Seq = append(in.Seq, wm(chPex, "PexRequest", &tmp2p.PexRequest{}))
		}
	default:
		var addrs []tmp2p.NetAddress
		n := int(pick64(g.r, 0, 1, 3, 100, 250, 251, 1000))
		for i := 0; i < n; i++ {
			a := tmp2p.NetAddress{ID: fmt.Sprintf("%040x", g.r.Int63()), IP: fmt.Sprintf("%d.%d.%d.%d", 1+g.r.Intn(200), g.r.Intn(256), g.r.Intn(256), 1+g.r.Intn(250)), Port: uint32(1 + g.r.Intn(65000))}
			switch g.r.Intn(10) {
			case 0:
				a.ID = "zz"
			case 1:
				a.IP = "not-an-ip"
			case 2:
				a.Port = uint32(pick64(g.r, 0, 65536, math.MaxUint32))
			case 3:
				a.IP = "::1"
			case 4:
				a.ID = ""
			case 5:
				a.IP = "127.0.0.1"
			}
			addrs = append(addrs, a)
		}
		in.Seq = []wireMsg{wm(chPex, fmt.Sprintf("PexAddrs n=%d (unsolicited)", n), &tmp2p.PexAddrs{Addrs: addrs})}
	}
}

// byteLevel derives byte-level corruptions of a structured input.
func (g *gen) byteLevel(in *n3Input) {
	if len(in.Seq) == 0 {
		return
	}
	i := g.r.Intn(len(in.Seq))
	m := &in.Seq[i]
	b := append([]byte{}, m.B...)
	switch g.r.Intn(4) {
	case 0:
		b = make([]byte, 1+g.r.Intn(300))
		g.r.Read(b)
		in.Class = "random-bytes"
		m.Note = "random bytes"
	case 1:
		if len(b) > 1 {
			b = b[:1+g.r.Intn(len(b)-1)]
		}
		in.Class = "truncated-valid"
		m.Note = "truncated: " + m.Note
	case 2:
		if len(b) > 0 {
			for k := 0; k < 1+g.r.Intn(3); k++ {
				b[g.r.Intn(len(b))] ^= 1 << uint(g.r.Intn(8))
			}
		}
		in.Class = "bit-flipped"
		m.Note = "bit-flipped: " + m.Note
	default:
		// the right bytes for another reactor
		other := allChannels[g.r.Intn(len(allChannels))]
		in.Class = "wrong-channel"
		m.Note = fmt.Sprintf("sent on channel %#x: %s", other, m.Note)
		m.Ch = other
	}
	m.B = b
	in.Seq = in.Seq[:i+1]
}

var n3Reactors = []string{"consensus", "consensus", "consensus", "consensus", "mempool", "evidence", "blockchain", "statesync", "pex"}
var n3States = []string{"fresh", "synced", "synced", "synced", "synced-next-round", "behind", "far-future"}

// makeInput draws one input; live context is filled in by the caller.
var (
	reSigH = regexp.MustCompile(` h=(-?\d+)`)
	reSigT = regexp.MustCompile(` type=(-?\d+)`)
)

// msgSig classifies a message coarsely (see wireMsg.Sig).
func (g *gen) msgSig(reactor string, m wireMsg) string {
	note := m.Note
	for _, pre := range []string{"truncated: ", "bit-flipped: "} {
		note = strings.TrimPrefix(note, pre)
	}
	kind := note
	if i := strings.IndexByte(kind, ' '); i > 0 {
		kind = kind[:i]
	}
	rel, vt := "-", "-"
	if mm := reSigH.FindStringSubmatch(note); mm != nil {
		h, _ := strconv.ParseInt(mm[1], 10, 64)
		switch d := h - g.lc.H; {
		case h < 0:
			rel = "neg"
		case d == -1:
			rel = "-1"
		case h == 0:
			rel = "zero"
		case d == 0:
			rel = "0"
		case d == 1:
			rel = "+1"
		case d < 0:
			rel = "past"
		default:
			rel = "far"
		}
	}
	if mm := reSigT.FindStringSubmatch(note); mm != nil {
		vt = mm[1]
	}
	return fmt.Sprintf("%s/%s|h%s|t%s|step%d", reactor, kind, rel, vt, g.lc.Step)
}

// makeInput draws inputs until one contains no message signature on the avoid list.
func (g *gen) makeInput(batch, idx int) *n3Input {
	var in *n3Input
	for try := 0; try < 30; try++ {
		in = g.makeInput1(batch, idx)
		bad := false
		for i := range in.Seq {
			in.Seq[i].Sig = g.msgSig(in.Reactor, in.Seq[i])
			if g.avoid[in.Seq[i].Sig] {
				bad = true
			}
		}
		if !bad {
			break
		}
		in.Seq = nil
	}
	return in
}

func (g *gen) makeInput1(batch, idx int) *n3Input {
	in := &n3Input{Stream: "n3", Batch: batch, Index: idx}
	in.Reactor = n3Reactors[g.r.Intn(len(n3Reactors))]
	if g.focusPrev && g.r.Intn(4) != 0 {
		in.Reactor = "consensus"
	}
	in.State = n3States[g.r.Intn(len(n3States))]
	g.peerH, g.peerR = g.lc.H, g.lc.R
	switch in.State {
	case "fresh":
		g.peerH, g.peerR = 0, -1
	case "synced":
		in.Prefix = []wireMsg{g.mNRS(g.lc.H, g.lc.R, g.lc.Step)}
	case "synced-next-round":
		g.peerR = g.lc.R + 1
		in.Prefix = []wireMsg{g.mNRS(g.lc.H, g.peerR, 3)}
	case "behind":
		if g.lc.H > g.n.genDoc.InitialHeight+1 {
			g.peerH, g.peerR = g.lc.H-1-int64(g.r.Intn(2)), 0
		}
		in.Prefix = []wireMsg{g.mNRS(g.peerH, g.peerR, uint32(pick64(g.r, 1, 4, 6, 8)))}
	case "far-future":
		g.peerH, g.peerR = pick64(g.r, g.lc.H+1000, 1<<62, math.MaxInt64), int32(pick64(g.r, 0, 5, math.MaxInt32))
		in.Prefix = []wireMsg{g.mNRS(g.peerH, g.peerR, uint32(pick64(g.r, 1, 3, 4, 6)))}
	}
	switch in.Reactor {
	case "consensus":
		g.consensusInput(in)
	case "mempool":
		g.mempoolInput(in)
	case "evidence":
		g.evidenceInput(in)
	case "blockchain":
		g.blockchainInput(in)
	case "statesync":
		g.statesyncInput(in)
	case "pex":
		g.pexInput(in)
	}
	if g.r.Intn(4) == 0 && in.State != "stateful" {
		g.byteLevel(in)
	}
	for i := range in.Prefix {
		in.Prefix[i].Len, in.Prefix[i].Hex = len(in.Prefix[i].B), hexCap(in.Prefix[i].B, 300)
	}
	for i := range in.Seq {
		in.Seq[i].Len, in.Seq[i].Hex = len(in.Seq[i].B), hexCap(in.Seq[i].B, 600)
	}
	return in
}

func hexCap(b []byte, n int) string {
	const hexd = "0123456789abcdef"
	trunc := false
	if len(b) > n {
		b, trunc = b[:n], true
	}
	out := make([]byte, 0, 2*len(b)+4)
	for _, c := range b {
		out = append(out, hexd[c>>4], hexd[c&15])
	}
	if trunc {
		out = append(out, "..."...)
	}
	return string(out)
}

// ---- genuine material the mutations start from ------------------------------

func randBlockID(r *rand.Rand) types.BlockID {
	h, ph := make([]byte, 32), make([]byte, 32)
	r.Read(h)
	r.Read(ph)
	return types.BlockID{Hash: h, PartSetHeader: types.PartSetHeader{Total: 1, Hash: ph}}
}

// dupVoteEvidence builds valid duplicate-vote evidence against the harness' validator at a committed height.
func (n *n3Node) dupVoteEvidence(h int64, r *rand.Rand) (*types.DuplicateVoteEvidence, error) {
	meta := n.store.LoadBlockMeta(h)
	if meta == nil {
		return nil, fmt.Errorf("no block meta at %d", h)
	}
	vals, err := n.stateSt.LoadValidators(h)
	if err != nil {
		return nil, err
	}
	round := int32(100 + r.Intn(1000000))
	a := n.signedVote(n.hostPV, n.hostAddr, n.hostValIx, tmproto.PrevoteType, h, round, randBlockID(r))
	b := n.signedVote(n.hostPV, n.hostAddr, n.hostValIx, tmproto.PrevoteType, h, round, randBlockID(r))
	ev := types.NewDuplicateVoteEvidence(a, b, meta.Header.Time, vals)
	if ev == nil {
		return nil, fmt.Errorf("NewDuplicateVoteEvidence returned nil")
	}
	return ev, nil
}

func (n *n3Node) dupVoteEvidenceProto(h int64, r *rand.Rand) (*tmproto.DuplicateVoteEvidence, error) {
	ev, err := n.dupVoteEvidence(h, r)
	if err != nil {
		return nil, err
	}
	return ev.ToProto(), nil
}

// lightAttackProto builds a light-client-attack evidence skeleton out of a real committed block.
func (n *n3Node) lightAttackProto(h int64) *tmproto.LightClientAttackEvidence {
	out := &tmproto.LightClientAttackEvidence{CommonHeight: h - 1, TotalVotingPower: 100, Timestamp: tmtime.Now()}
	meta := n.store.LoadBlockMeta(h)
	commit := n.store.LoadBlockCommit(h)
	if commit == nil {
		commit = n.store.LoadSeenCommit(h)
	}
	vals, err := n.stateSt.LoadValidators(h)
	if meta == nil || commit == nil || err != nil {
		return out
	}
	hdr := meta.Header
	hdr.AppHash = []byte("conflicting-app-hash")
	vp, _ := vals.ToProto()
	out.ConflictingBlock = &tmproto.LightBlock{SignedHeader: &tmproto.SignedHeader{Header: hdr.ToProto(), Commit: commit.ToProto()}, ValidatorSet: vp}
	if cm := n.store.LoadBlockMeta(h - 1); cm != nil {
		out.Timestamp = cm.Header.Time
	}
	if v := vals.Validators[0]; v != nil {
		if pv, err := v.ToProto(); err == nil {
			out.ByzantineValidators = []*tmproto.Validator{pv}
		}
	}
	return out
}
