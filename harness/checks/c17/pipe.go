package c17

import (
	"io"
	"math/rand"
	"net"
	"sync"
	"time"
)

// memPipe is this check's own in-memory full-duplex net.Conn pair.  Unlike
// net.Pipe it is buffered (bounded, so writers see back-pressure) and a Read
// returns PRNG-sized fragments, so the code under test sees short reads at
// arbitrary byte positions.

type halfPipe struct {
	mu     sync.Mutex
	cond   *sync.Cond
	buf    []byte
	limit  int
	wclose bool // writer closed: reader drains then gets EOF
	rclose bool // reader closed: writer gets ErrClosedPipe
	rng    *rand.Rand
	frag   int  // max fragment per Read (0 = unlimited)
	gated  bool // reads block while set (a reader that does not read: back-pressure on the writer)
}

func newHalf(limit, frag int, seed int64) *halfPipe {
	h := &halfPipe{limit: limit, frag: frag, rng: rand.New(rand.NewSource(seed))}
	h.cond = sync.NewCond(&h.mu)
	return h
}

func (h *halfPipe) write(p []byte) (int, error) {
	n := 0
	h.mu.Lock()
	defer h.mu.Unlock()
	for len(p) > 0 {
		for len(h.buf) >= h.limit && !h.rclose && !h.wclose {
			h.cond.Wait()
		}
		if h.rclose || h.wclose {
			return n, io.ErrClosedPipe
		}
		k := h.limit - len(h.buf)
		if k > len(p) {
			k = len(p)
		}
		h.buf = append(h.buf, p[:k]...)
		p = p[k:]
		n += k
		h.cond.Broadcast()
	}
	return n, nil
}

func (h *halfPipe) read(p []byte) (int, error) {
	h.mu.Lock()
	defer h.mu.Unlock()
	for (len(h.buf) == 0 || h.gated) && !h.wclose && !h.rclose {
		h.cond.Wait()
	}
	if h.rclose {
		return 0, io.ErrClosedPipe
	}
	if len(h.buf) == 0 {
		return 0, io.EOF
	}
	if len(p) == 0 {
		return 0, nil
	}
	k := len(h.buf)
	if k > len(p) {
		k = len(p)
	}
	if h.frag > 0 {
		f := 1 + h.rng.Intn(h.frag)
		if k > f {
			k = f
		}
	}
	copy(p, h.buf[:k])
	h.buf = h.buf[k:]
	if len(h.buf) == 0 {
		h.buf = nil
	}
	h.cond.Broadcast()
	return k, nil
}

type memAddr string

func (a memAddr) Network() string { return "mem" }
func (a memAddr) String() string  { return string(a) }

type memConn struct {
	r, w *halfPipe
	name string
	once sync.Once
}

func (c *memConn) Read(p []byte) (int, error)  { return c.r.read(p) }
func (c *memConn) Write(p []byte) (int, error) { return c.w.write(p) }
func (c *memConn) Close() error {
	c.once.Do(func() {
		c.w.mu.Lock()
		c.w.wclose = true
		c.w.cond.Broadcast()
		c.w.mu.Unlock()
		c.r.mu.Lock()
		c.r.rclose = true
		c.r.cond.Broadcast()
		c.r.mu.Unlock()
	})
	return nil
}

// SetReadGate(true) makes this end stop reading (its Read calls block) until SetReadGate(false).
func (c *memConn) SetReadGate(closed bool) {
	c.r.mu.Lock()
	c.r.gated = closed
	c.r.cond.Broadcast()
	c.r.mu.Unlock()
}

// CloseWrite half-closes: the peer reads what is buffered, then EOF.
func (c *memConn) CloseWrite() {
	c.w.mu.Lock()
	c.w.wclose = true
	c.w.cond.Broadcast()
	c.w.mu.Unlock()
}
func (c *memConn) LocalAddr() net.Addr                { return memAddr(c.name) }
func (c *memConn) RemoteAddr() net.Addr               { return memAddr(c.name + "-peer") }
func (c *memConn) SetDeadline(t time.Time) error      { return nil }
func (c *memConn) SetReadDeadline(t time.Time) error  { return nil }
func (c *memConn) SetWriteDeadline(t time.Time) error { return nil }

// newMemPipe returns the two ends.  limit = bytes buffered per direction,
// frag = maximum fragment returned by one Read (0 = whatever is there).
func newMemPipe(limit, frag int, seed int64) (*memConn, *memConn) {
	ab := newHalf(limit, frag, seed)
	ba := newHalf(limit, frag, seed+1)
	return &memConn{r: ba, w: ab, name: "a"}, &memConn{r: ab, w: ba, name: "b"}
}

// tcpPair returns the two ends of a TCP loopback connection.
func tcpPair() (net.Conn, net.Conn, error) {
	ln, err := net.Listen("tcp", "127.0.0.1:0")
	if err != nil {
		return nil, nil, err
	}
	defer ln.Close()
	type res struct {
		c   net.Conn
		err error
	}
	ch := make(chan res, 1)
	go func() {
		c, err := ln.Accept()
		ch <- res{c, err}
	}()
	a, err := net.Dial("tcp", ln.Addr().String())
	if err != nil {
		return nil, nil, err
	}
	r := <-ch
	if r.err != nil {
		a.Close()
		return nil, nil, r.err
	}
	return a, r.c, nil
}
