package c17

import (
	"encoding/json"
	"fmt"
	"math/rand"
	"os"
	"path/filepath"
	"strconv"
	"strings"
	"sync"
	"sync/atomic"
	"time"

	"github.com/tendermint/tendermint/p2p"
	tmcons "github.com/tendermint/tendermint/proto/tendermint/consensus"
	tmcrypto "github.com/tendermint/tendermint/proto/tendermint/crypto"
	tmproto "github.com/tendermint/tendermint/proto/tendermint/types"
	"github.com/tendermint/tendermint/types"
	tmtime "github.com/tendermint/tendermint/types/time"

	"verif/verdict"
)

// ---------------------------------------------------------------------------
// N3-flood: "never crashes or wedges the node" under FLOODS of well-formed
// consensus messages from several peers at once.
//
// 1-4 hostile switches, each with a goroutine of its own, are released by one
// barrier and push thousands of ValidateBasic-clean votes (non-verifying
// signatures; optionally proposals and block parts) for the node's CURRENT
// height/round through real MConnections into the consensus reactor, whose
// single consensus routine works the peer message queue (capacity 1000) off with
// a WAL write and a signature check per vote.  The honest co-validator keeps
// mirroring the node's votes all the while.
//
// Logical end of the flood: every Receive call the flood caused has returned
// (wrapReactor: nothing in flight, per peer as many completed calls as messages
// accepted for sending, or the node dropped the peer).  Afterwards the node must
// answer GetRoundState, take the co-validator's votes and commit further blocks.
//
// A flood that is still stuck inside Receive after a generous watchdog while
// the node can no longer do these things is a candidate wedge; the child
// reports it (exit 92) and the parent executes the same case in a fresh
// process: only a repeated candidate is the violation
// node-wedged-by-concurrent-vote-flood, a single one is inconclusive.
// ---------------------------------------------------------------------------

type floodCase struct {
	Stream   string `json:"stream"`
	Case     int    `json:"case"`
	Peers    int    `json:"flooding_peers"`
	PerPeer  int    `json:"messages_per_peer"`
	Mix      string `json:"mix"` // "votes" | "votes+proposals+parts"
	Control  bool   `json:"single_peer_control"`
	Confirm  bool   `json:"second_execution"`
	NodeStep string `json:"node_step_at_release"`
	NodeH    int64  `json:"node_height_at_release"`
	NodeR    int32  `json:"node_round_at_release"`
}

func genFlood(c *verdict.Ctx, idx int) floodCase {
	r := c.Rand("n3flood", idx)
	fc := floodCase{Stream: "n3flood", Case: idx}
	lo, hi := 2000, 3000
	if c.Thorough() {
		lo, hi = 2000, 5000
	}
	fc.PerPeer = lo + r.Intn(hi-lo+1)
	switch idx % 4 {
	case 0:
		fc.Peers, fc.Control = 1, true
	case 1:
		fc.Peers = 2
	case 2:
		fc.Peers = 4
	default:
		fc.Peers = 2 + r.Intn(3)
	}
	fc.Mix = "votes"
	if idx%4 >= 2 || r.Intn(3) == 0 {
		fc.Mix = "votes+proposals+parts"
	}
	return fc
}

// floodMsg makes one well-formed message for (h, r) that will not verify.
func floodMsg(n *n3Node, rnd *rand.Rand, mix string, h int64, r int32) (byte, []byte) {
	kind := 0
	if mix != "votes" {
		switch k := rnd.Intn(10); {
		case k == 0:
			kind = 1
		case k == 1:
			kind = 2
		}
	}
	rb := randBlockID(rnd)
	sig := make([]byte, 64)
	rnd.Read(sig)
	sig[63] &= 0x0f // a canonical scalar: the verifier cannot reject it before doing the curve arithmetic
	switch kind {
	case 1:
		p := tmproto.Proposal{Type: tmproto.ProposalType, Height: h, Round: r, PolRound: -1, BlockID: rb.ToProto(), Timestamp: tmtime.Now(), Signature: sig}
		return chData, consMsg(&tmcons.Proposal{Proposal: p})
	case 2:
		part := tmproto.Part{Index: 0, Bytes: make([]byte, 64+rnd.Intn(200)), Proof: tmcrypto.Proof{Total: 1, Index: 0, LeafHash: rb.Hash}}
		rnd.Read(part.Bytes)
		return chData, consMsg(&tmcons.BlockPart{Height: h, Round: r, Part: part})
	}
	t := tmproto.PrevoteType
	if rnd.Intn(2) == 0 {
		t = tmproto.PrecommitType
	}
	v := tmproto.Vote{Type: t, Height: h, Round: r, Timestamp: tmtime.Now(), ValidatorAddress: n.hostAddr, ValidatorIndex: n.hostValIx, Signature: sig}
	if rnd.Intn(4) == 0 {
		v.ValidatorAddress, v.ValidatorIndex = n.nodeAddr, n.nodeValIx
	}
	if rnd.Intn(5) != 0 {
		v.BlockID = rb.ToProto()
	}
	return chVote, consMsg(&tmcons.Vote{Vote: &v})
}

type floodResult struct {
	class    string // "drained" | "drained-slowly" | "stuck-but-node-alive" | "candidate-wedge" | "no-progress-after-drain" | "harness"
	detail   map[string]interface{}
	accepted int64
	drainMs  int64
	heights  int64
}

func (n *n3Node) roundStateAnswers(d time.Duration) bool {
	done := make(chan struct{})
	go func() { _ = n.conS.GetRoundState(); close(done) }()
	select {
	case <-done:
		return true
	case <-time.After(d):
		return false
	}
}

func runFlood(c *verdict.Ctx, r *rec, n *n3Node, flooders []*p2p.Switch, fc *floodCase) floodResult {
	w := n.wraps["consensus"]
	res := floodResult{detail: map[string]interface{}{}}
	// connect the flooding peers and tell the node they are at its height
	peers := make([]p2p.Peer, fc.Peers)
	for i := 0; i < fc.Peers; i++ {
		p, _, err := n.peerOf(flooders[i])
		if err != nil {
			res.class = "harness"
			res.detail["error"] = "flooding peer cannot connect: " + err.Error()
			return res
		}
		peers[i] = p
	}
	n.settle(time.Second)
	rs := n.conS.GetRoundState()
	fc.NodeStep, fc.NodeH, fc.NodeR = rs.Step.String(), rs.Height, rs.Round
	g := &gen{r: c.Rand("n3flood-prefix", fc.Case), n: n, lc: n.live()}
	for i := range peers {
		m := g.mNRS(rs.Height, rs.Round, uint32(rs.Step))
		peers[i].Send(m.Ch, m.B)
	}
	time.Sleep(10 * time.Millisecond)
	base := make([]int64, fc.Peers)
	for i := range peers {
		base[i] = w.doneFor(flooders[i].NodeInfo().ID())
	}
	atomic.StoreInt64(&w.maxIn, 0)
	h0 := n.store.Height()

	// ---- the flood -------------------------------------------------------
	barrier := make(chan struct{})
	accepted := make([]int64, fc.Peers)
	var wg sync.WaitGroup
	var stop int32
	for i := 0; i < fc.Peers; i++ {
		wg.Add(1)
		go func(i int) {
			defer wg.Done()
			rnd := c.Rand("n3flood-peer", fc.Case*16+i)
			<-barrier
			var h int64
			var rd int32
			timeouts := 0
			for k := 0; k < fc.PerPeer && atomic.LoadInt32(&stop) == 0; k++ {
				if k%50 == 0 { // follow the node: the flood is always about its current height / round
					cur := n.roundStateQuick()
					if cur != nil {
						h, rd = cur.Height, cur.Round
					}
				}
				ch, b := floodMsg(n, rnd, fc.Mix, h, rd)
				if !peers[i].Send(ch, b) {
					if !peers[i].IsRunning() {
						return // the node (or the connection) dropped this peer: allowed
					}
					// Send timed out (10 s) on a full queue: the message was not accepted
					if timeouts++; timeouts >= 3 {
						return // nothing has moved for 30 s: the rest of the flood adds nothing
					}
					continue
				}
				timeouts = 0
				atomic.AddInt64(&accepted[i], 1)
			}
		}(i)
	}
	t0 := time.Now()
	close(barrier)
	// honest traffic all the while: the co-validator mirrors the node's votes
	floodDone := make(chan struct{})
	go func() { wg.Wait(); close(floodDone) }()
	sendersReturned := false
	sendDeadline := time.After(150 * time.Second)
mirror:
	for {
		select {
		case <-floodDone:
			sendersReturned = true
			break mirror
		case <-sendDeadline:
			break mirror
		default:
			_, _ = n.mirrorStepTimeout(2 * time.Second)
			time.Sleep(time.Millisecond)
		}
	}
	atomic.StoreInt32(&stop, 1)
	for i := range accepted {
		res.accepted += atomic.LoadInt64(&accepted[i])
	}
	res.heights = n.store.Height() - h0
	// ---- logical end: every Receive call of the flood has returned -------
	drained := func() bool {
		if w.inFlight() != 0 {
			return false
		}
		for i := range peers {
			if !n.nodeHasPeer(flooders[i]) {
				continue
			}
			if w.doneFor(flooders[i].NodeInfo().ID())-base[i] < atomic.LoadInt64(&accepted[i]) {
				return false
			}
		}
		return true
	}
	waitDrain := func(d time.Duration) bool {
		dl := time.Now().Add(d)
		for {
			if sendersReturned && drained() {
				return true
			}
			if !sendersReturned {
				select {
				case <-floodDone:
					sendersReturned = true
				default:
				}
			}
			if time.Now().After(dl) {
				return false
			}
			_, _ = n.mirrorStepTimeout(2 * time.Second)
			time.Sleep(2 * time.Millisecond)
		}
	}
	ok := waitDrain(60 * time.Second)
	res.drainMs = time.Since(t0).Milliseconds()
	res.detail["max_receive_calls_in_flight"] = atomic.LoadInt64(&w.maxIn)
	res.detail["heights_committed_during_flood"] = res.heights
	res.detail["accepted_for_sending"] = res.accepted
	dropped := 0
	for i := range peers {
		if !n.nodeHasPeer(flooders[i]) {
			dropped++
		}
	}
	res.detail["flooding_peers_dropped_by_node"] = dropped
	alive := func() (bool, string) {
		if n.consensusDead() {
			return false, "the consensus receive routine has exited"
		}
		if !n.roundStateAnswers(10 * time.Second) {
			return false, "GetRoundState does not return within 10 s"
		}
		if got, err := n.advanceTimeout(1, 60*time.Second); err != nil {
			return false, fmt.Sprintf("with the honest co-validator's votes the node committed %d of 1 heights in 60 s: %v", got, err)
		}
		return true, ""
	}
	if !ok {
		res.detail["senders_returned"] = sendersReturned
		res.detail["receive_calls_in_flight"] = w.inFlight()
		live, why := alive()
		if live {
			// slow, not wedged: give it more time
			if waitDrain(120 * time.Second) {
				res.class = "drained-slowly"
				res.drainMs = time.Since(t0).Milliseconds()
			} else {
				res.class = "stuck-but-node-alive"
				res.detail["goroutines"] = goroutineDump()
			}
			return res
		}
		res.class = "candidate-wedge"
		res.detail["node_failure"] = why
		res.detail["goroutines"] = goroutineDump()
		return res
	}
	if live, why := alive(); !live {
		res.class = "no-progress-after-drain"
		res.detail["node_failure"] = why
		res.detail["goroutines"] = goroutineDump()
		return res
	}
	if _, err := n.advanceTimeout(1, 60*time.Second); err != nil {
		res.class = "no-progress-after-drain"
		res.detail["node_failure"] = err.Error()
		res.detail["goroutines"] = goroutineDump()
		return res
	}
	res.class = "drained"
	return res
}

// roundStateQuick: the flooders must not hang on the node's lock themselves.
func (n *n3Node) roundStateQuick() *struct {
	Height int64
	Round  int32
} {
	type hr = struct {
		Height int64
		Round  int32
	}
	out := make(chan *hr, 1)
	go func() {
		rs := n.conS.GetRoundState()
		out <- &hr{rs.Height, rs.Round}
	}()
	select {
	case v := <-out:
		return v
	case <-time.After(2 * time.Second):
		return nil
	}
}

// mirrorStepTimeout / advanceTimeout: the harness' own calls into the node must not wedge the harness.
func (n *n3Node) mirrorStepTimeout(d time.Duration) (bool, error) {
	type res struct {
		b   bool
		err error
	}
	out := make(chan res, 1)
	go func() { b, err := n.mirrorStep(); out <- res{b, err} }()
	select {
	case v := <-out:
		return v.b, v.err
	case <-time.After(d):
		return false, fmt.Errorf("mirror step did not return within %v", d)
	}
}

func (n *n3Node) advanceTimeout(k int64, d time.Duration) (int64, error) {
	type res struct {
		k   int64
		err error
	}
	out := make(chan res, 1)
	go func() { got, err := n.advance(k, d); out <- res{got, err} }()
	select {
	case v := <-out:
		return v.k, v.err
	case <-time.After(d + 10*time.Second):
		return 0, fmt.Errorf("the harness' own calls into the node (GetRoundState / Send) did not return within %v", d+10*time.Second)
	}
}

func stageN3Flood(c *verdict.Ctx, r *rec, arg string) {
	memoryGuard(6 << 30)
	dir := os.Getenv("VERIF_C17_DIR")
	if dir == "" {
		dir = verdict.TmpDir("c17n3f-")
		defer os.RemoveAll(dir)
	}
	tag := sanitizeName(arg)
	n := newN3NodeOpts(filepath.Join(dir, "node-n3flood-"+tag), nodeOpts{gossipSleep: n3GossipSleep, timeoutCommit: 10 * time.Millisecond, skipTimeoutCommit: true})
	if got, err := n.advance(3, 60*time.Second); err != nil {
		r.HarnessError("n3flood: the node under test did not commit its first heights (%d of 3): %v", got, err)
		return
	}
	var flooders []*p2p.Switch
	for i := 0; i < 4; i++ {
		flooders = append(flooders, n.newFlooder(i))
	}
	for _, f := range strings.Split(arg, ",") {
		confirm := strings.HasSuffix(f, ":confirm")
		idx, err := strconv.Atoi(strings.TrimSuffix(f, ":confirm"))
		if err != nil {
			continue
		}
		fc := genFlood(c, idx)
		fc.Confirm = confirm
		r.Eval()
		res := runFlood(c, r, n, flooders, &fc)
		tagN := fmt.Sprintf("%d_peers", fc.Peers)
		r.Count("n3flood.cases", 1)
		r.Count("n3flood.outcome."+tagN+"."+res.class, 1)
		r.Count("n3flood.messages_accepted_for_sending", res.accepted)
		r.Count("n3flood.heights_committed_during_floods", res.heights)
		r.Max("n3flood.max_drain_ms", res.drainMs)
		if v, ok := res.detail["max_receive_calls_in_flight"].(int64); ok {
			r.Max("n3flood.max_receive_calls_in_flight", v)
		}
		if v, ok := res.detail["flooding_peers_dropped_by_node"].(int); ok {
			r.Count("n3flood.flooding_peers_dropped_by_node", int64(v))
		}
		wit := map[string]interface{}{"stream": "n3flood", "case": fc, "observation": res.detail}
		switch res.class {
		case "drained", "drained-slowly":
			r.Distinct("n3flood", fc.Case, fc.Peers, fc.PerPeer, fc.Mix, fc.NodeStep)
			if fc.Case < 4 {
				r.Sample(map[string]interface{}{"stage": "n3flood", "case": fc, "outcome": res.class, "drain_ms": res.drainMs, "accepted": res.accepted,
					"max_receive_calls_in_flight": res.detail["max_receive_calls_in_flight"], "heights_committed_during_flood": res.heights})
			}
		case "harness":
			r.HarnessError("n3flood: %v", res.detail["error"])
			return
		case "stuck-but-node-alive":
			r.Inconclusive("n3flood: Receive calls of the flood still in flight after 210 s although the node answers and commits")
			r.Set("n3flood.stuck_but_alive", wit)
			return // the node is not in a known state any more
		default: // candidate-wedge | no-progress-after-drain
			r.Set("n3flood.candidate", map[string]interface{}{"class": res.class, "witness": wit})
			r.Count("n3flood.candidates", 1)
			r.flush()
			os.Exit(92) // the parent runs the same case once more in a fresh process
		}
		// between floods: drop the flooding peers
		for i := 0; i < fc.Peers; i++ {
			n.disconnect(flooders[i])
		}
		r.flush()
	}
	n.stop()
}

// runN3flood is the parent side: a candidate must repeat in a fresh process to become a violation.
func runN3flood(c *verdict.Ctx, dir string, mu *sync.Mutex) {
	ncase := c.N(8, 32)
	var todo []string
	for i := 0; i < ncase; i++ {
		todo = append(todo, strconv.Itoa(i))
	}
	t0 := time.Now()
	var first map[string]interface{}
	for attempt := 0; len(todo) > 0 && attempt < 8; attempt++ {
		arg := strings.Join(todo, ",")
		res := spawn(c, dir, "n3flood", arg, false, 12*time.Minute)
		mu.Lock()
		cand, _ := res.rec.Sets["n3flood.candidate"].(map[string]interface{})
		delete(res.rec.Sets, "n3flood.candidate")
		res.rec.apply(c, "")
		mu.Unlock()
		if !res.crashed {
			break
		}
		if res.exit != 92 || cand == nil {
			mu.Lock()
			if res.exit == 91 || strings.Contains(res.stderr, "CONSENSUS FAILURE") {
				c.Violation("consensus-failure@during-vote-flood", "the consensus routine died during a flood of well-formed votes", map[string]interface{}{"stream": "n3flood", "cases": arg, "stderr": res.stderr})
			} else {
				reportCrash(c, "n3flood", res, map[string]interface{}{"stream": "n3flood", "cases": arg})
			}
			mu.Unlock()
			break
		}
		// which case was it?
		caseIdx := -1
		if w, ok := cand["witness"].(map[string]interface{}); ok {
			if cs, ok := w["case"].(map[string]interface{}); ok {
				if v, ok := cs["case"].(float64); ok {
					caseIdx = int(v)
				}
			}
		}
		wasConfirm := strings.HasSuffix(todo[0], ":confirm") && strings.HasPrefix(todo[0], strconv.Itoa(caseIdx)+":")
		var rest []string
		found := false
		for _, f := range todo {
			id, _ := strconv.Atoi(strings.TrimSuffix(f, ":confirm"))
			if found {
				rest = append(rest, f)
			} else if id == caseIdx {
				found = true
			}
		}
		class, _ := cand["class"].(string)
		if wasConfirm {
			key, what := "node-wedged-by-concurrent-vote-flood", "a flood of well-formed consensus messages from concurrent peers left their Receive calls blocked for good and the node unable to answer GetRoundState / take an honest vote / commit the next block; reproduced in a fresh process"
			if class == "no-progress-after-drain" {
				key, what = "node-unresponsive-after-vote-flood", "after a flood of well-formed consensus messages had been worked off the node could no longer commit blocks with its honest co-validator; reproduced in a fresh process"
			}
			mu.Lock()
			c.Violation(key, what, map[string]interface{}{"stream": "n3flood", "first_execution": first, "second_execution": cand})
			c.Count("n3flood.cases_not_run_after_confirmed_violation", int64(len(rest)))
			mu.Unlock()
			todo = nil // the verdict is established; every further case would cost minutes of watchdogs
		} else {
			first = cand
			todo = append([]string{fmt.Sprintf("%d:confirm", caseIdx)}, rest...)
		}
		_ = class
	}
	// a candidate whose confirmation run did not reproduce it
	mu.Lock()
	if first != nil && c.Counter("n3flood.candidates") == 1 {
		c.Inconclusive("n3flood: a wedge candidate was not reproduced in a fresh process")
		b, _ := json.Marshal(first)
		if len(b) > 20000 {
			b = b[:20000]
		}
		c.Set("n3flood.unreproduced_candidate", string(b))
	}
	c.Set("n3flood.wall_s", time.Since(t0).Seconds())
	mu.Unlock()
}

var _ = types.MaxVotesCount
