// Package c17: channel messages arrive intact and in order; bad peer input only
// drops the peer (DESIGN.md section 3 "C17", section 4 row S17).
//
// Stages (each runs in a child process so that a panic of the code under test
// is an observation, not the end of the check):
//
//	N1      two real MConnections over an in-memory pipe / TCP loopback; oracle =
//	        accepted-for-sending sequences == delivered sequences (race build if available)
//	N2      a raw peer writes hand-made packets to a real MConnection; oracle =
//	        legal input delivered, len(recving) never above capacity, no crash, no wedge
//	N3-lite real reactors (consensus, mempool v0, evidence, blockchain v0, statesync,
//	        pex) on one real switch, a hostile switch sends arbitrary bytes; oracle =
//	        no crash, honest probes still answered, bounded memory per message
//	N3      (whole node in a child process) is plugged in by the coordinator via runN3.
package c17

import (
	"bytes"
	"crypto/sha256"
	"encoding/hex"
	"encoding/json"
	"fmt"
	"os"
	"os/exec"
	"path/filepath"
	"sort"
	"strings"
	"sync"
	"time"

	"verif/verdict"
)

// runN3 is the full-node stage; nil until the coordinator provides it.
var runN3 func(*verdict.Ctx)

const (
	envStage = "VERIF_C17_STAGE"
	envOut   = "VERIF_C17_OUT"
	envArg   = "VERIF_C17_ARG"
)

// rec is what a stage records; it is applied to the verdict.Ctx of the parent.
type recViolation struct {
	Key     string      `json:"key"`
	What    string      `json:"what"`
	Witness interface{} `json:"witness"`
}

type rec struct {
	mu           sync.Mutex
	Evals        int64                  `json:"evals"`
	DistinctKeys []string               `json:"distinct"`
	Counts       map[string]int64       `json:"counts"`
	Maxes        map[string]int64       `json:"maxes"`
	Violations   []recViolation         `json:"violations"`
	Inconcl      []string               `json:"inconclusive"`
	Samples      []interface{}          `json:"samples"`
	Sets         map[string]interface{} `json:"sets"`
	HarnessErrs  []string               `json:"harness_errors"`
	Done         bool                   `json:"done"`
	seen         map[string]bool
	path         string
}

func newRec() *rec {
	return &rec{Counts: map[string]int64{}, Maxes: map[string]int64{}, Sets: map[string]interface{}{}, seen: map[string]bool{}}
}

func (r *rec) Eval() { r.mu.Lock(); r.Evals++; r.mu.Unlock() }
func (r *rec) Distinct(d ...interface{}) {
	var sb strings.Builder
	for _, x := range d {
		fmt.Fprintf(&sb, "%v\x00", x)
	}
	k := sb.String()
	r.mu.Lock()
	if !r.seen[k] {
		r.seen[k] = true
		r.DistinctKeys = append(r.DistinctKeys, k)
	}
	r.mu.Unlock()
}
func (r *rec) Count(name string, n int64) { r.mu.Lock(); r.Counts[name] += n; r.mu.Unlock() }
func (r *rec) Max(name string, v int64) {
	r.mu.Lock()
	if v > r.Maxes[name] {
		r.Maxes[name] = v
	}
	r.mu.Unlock()
}
func (r *rec) Set(name string, v interface{}) { r.mu.Lock(); r.Sets[name] = v; r.mu.Unlock() }
func (r *rec) Violation(key, what string, witness interface{}) {
	r.mu.Lock()
	n := 0
	for _, v := range r.Violations {
		if v.Key == key {
			n++
		}
	}
	if n < 3 {
		r.Violations = append(r.Violations, recViolation{key, what, witness})
	} else {
		r.Counts["violations_beyond_three."+key]++
	}
	r.mu.Unlock()
	r.flush()
}
func (r *rec) Inconclusive(why string) {
	r.mu.Lock()
	r.Inconcl = append(r.Inconcl, why)
	r.mu.Unlock()
}
func (r *rec) Sample(v interface{}) {
	r.mu.Lock()
	if len(r.Samples) < 2 {
		r.Samples = append(r.Samples, v)
	}
	r.mu.Unlock()
}
func (r *rec) HarnessError(f string, a ...interface{}) {
	r.mu.Lock()
	r.HarnessErrs = append(r.HarnessErrs, fmt.Sprintf(f, a...))
	r.mu.Unlock()
}

// flush writes the record to its file (atomically), so that a later crash of
// the child does not lose what was decided before.
func (r *rec) flush() {
	if r.path == "" {
		return
	}
	r.mu.Lock()
	b, err := json.Marshal(r)
	r.mu.Unlock()
	if err != nil {
		return
	}
	tmp := r.path + ".tmp"
	if os.WriteFile(tmp, b, 0o644) == nil {
		_ = os.Rename(tmp, r.path)
	}
}

func (r *rec) apply(c *verdict.Ctx, prefix string) {
	for i := int64(0); i < r.Evals; i++ {
		c.Eval()
	}
	for _, k := range r.DistinctKeys {
		c.Distinct(k)
	}
	for k, v := range r.Counts {
		c.Count(prefix+k, v)
	}
	for k, v := range r.Maxes {
		c.Max(prefix+k, v)
	}
	for k, v := range r.Sets {
		c.Set(prefix+k, v)
	}
	for _, v := range r.Violations {
		c.Violation(v.Key, v.What, v.Witness)
	}
	for _, s := range r.Inconcl {
		c.Inconclusive(prefix + s)
	}
	for _, s := range r.Samples {
		c.Sample(s)
	}
	for _, s := range r.HarnessErrs {
		c.HarnessError("%s%s", prefix, s)
	}
}

// childResult is what the parent learns from one child process.
type childResult struct {
	rec      *rec
	exit     int
	crashed  bool   // died without finishing (panic, fatal error, os.Exit by the code under test, killed)
	panicKey string // stable key derived from the panic message / innermost tendermint frame
	stderr   string // tail of stderr
	races    int    // deduplicated race reports
	timedOut bool
	wall     time.Duration
}

// crashSite describes the first panic / fatal error in a Go crash dump.
type crashSite struct {
	msg       string // the "panic: ..." line
	innermost string // innermost frame that is not the Go runtime / standard library
	tmFrame   string // innermost frame inside tendermint (without the module prefix)
	harness   bool   // innermost non-std frame belongs to this harness
	entry     string // function the panicking goroutine was started with (or main)
}

func panicSite(stderr string) (string, string) {
	cs := parseCrash(stderr)
	return cs.msg, cs.tmFrame
}

// crashIndex finds the first line that starts with the Go runtime's "panic: " or
// "fatal error: " (log lines of the node may contain these words elsewhere).
func crashIndex(s string) int {
	idx := -1
	for _, marker := range []string{"panic: ", "fatal error: "} {
		if strings.HasPrefix(s, marker) {
			return 0
		}
		if i := strings.Index(s, "\n"+marker); i >= 0 && (idx < 0 || i+1 < idx) {
			idx = i + 1
		}
	}
	return idx
}

func parseCrash(stderr string) (cs crashSite) {
	idx := crashIndex(stderr)
	if idx < 0 {
		return
	}
	rest := stderr[idx:]
	if nl := strings.IndexByte(rest, '\n'); nl >= 0 {
		cs.msg = rest[:nl]
	} else {
		cs.msg = rest
	}
	if len(cs.msg) > 300 {
		cs.msg = cs.msg[:300]
	}
	g := strings.Index(rest, "\ngoroutine ")
	if g < 0 {
		return
	}
	block := rest[g+1:]
	if e := strings.Index(block, "\n\n"); e >= 0 {
		block = block[:e]
	}
	lines := strings.Split(block, "\n")
	for _, ln := range lines[1:] {
		if ln == "" || ln[0] == '\t' || strings.HasPrefix(ln, "created by ") {
			continue
		}
		fn := ln
		if i := strings.LastIndexByte(fn, '('); i > 0 {
			fn = fn[:i]
		}
		first := fn
		if i := strings.IndexByte(first, '/'); i >= 0 {
			first = first[:i]
		}
		isHarness := strings.HasPrefix(fn, "verif/") || strings.HasPrefix(fn, "main.")
		isThird := strings.Contains(first, ".") && strings.Contains(fn, "/")
		if !isHarness && !isThird {
			continue // runtime / standard library
		}
		if strings.Contains(fn, "tendermint/libs/log") {
			continue
		}
		if cs.innermost == "" {
			cs.innermost = fn
			cs.harness = isHarness
		}
		if cs.tmFrame == "" && strings.HasPrefix(fn, "github.com/tendermint/tendermint/") {
			cs.tmFrame = strings.TrimPrefix(fn, "github.com/tendermint/tendermint/")
		}
	}
	// who owns the goroutine?  A goroutine started by the harness (or main itself) that
	// panics inside a tendermint helper is a harness failure, not an observation.
	owner := ""
	for i := len(lines) - 1; i >= 1; i-- {
		ln := lines[i]
		if ln == "" || ln[0] == '\t' {
			continue
		}
		owner = strings.TrimPrefix(ln, "created by ")
		break
	}
	if strings.HasPrefix(owner, "verif/") || strings.HasPrefix(owner, "main.") {
		cs.harness = true
	}
	// entry function of the goroutine = last function line before "created by"
	for i := len(lines) - 1; i >= 1; i-- {
		ln := lines[i]
		if ln == "" || ln[0] == '\t' || strings.HasPrefix(ln, "created by ") {
			continue
		}
		if j := strings.LastIndexByte(ln, '('); j > 0 {
			ln = ln[:j]
		}
		cs.entry = strings.TrimPrefix(ln, "github.com/tendermint/tendermint/")
		break
	}
	return
}

// crashKey is the stable finding key of a crash: where it panicked and in which routine.
func (cs crashSite) key(stage string) string {
	site := cs.tmFrame
	if site == "" {
		site = cs.innermost
	}
	if site == "" {
		site = stage
	}
	// every method of the unvalidated bit array is the same finding per routine
	if i := strings.Index(site, "libs/bits.(*BitArray)."); i >= 0 {
		site = site[:i] + "libs/bits.(*BitArray).*"
	}
	if cs.entry != "" && cs.entry != site {
		return "process-crash@" + site + "<-" + cs.entry
	}
	return "process-crash@" + site
}

// countRaces deduplicates race reports by the two top frames of each report.
func countRaces(s string) (int, []string) {
	parts := strings.Split(s, "WARNING: DATA RACE")
	seen := map[string]bool{}
	var keys []string
	for _, p := range parts[1:] {
		var fr []string
		for _, ln := range strings.Split(p, "\n") {
			ln = strings.TrimSpace(ln)
			if strings.HasSuffix(ln, ")") && strings.Contains(ln, "(") && !strings.HasPrefix(ln, "/") && !strings.HasPrefix(ln, "Previous") && !strings.HasPrefix(ln, "Goroutine") && !strings.HasPrefix(ln, "Read") && !strings.HasPrefix(ln, "Write") {
				if i := strings.IndexByte(ln, '('); i > 0 {
					fr = append(fr, ln[:i])
				}
			}
			if strings.HasPrefix(ln, "Goroutine") {
				break
			}
		}
		k := ""
		if len(fr) > 0 {
			k = fr[0]
		}
		for _, f := range fr[1:] {
			if f != fr[0] && strings.Contains(f, "tendermint") {
				k += " | " + f
				break
			}
		}
		if !seen[k] {
			seen[k] = true
			keys = append(keys, k)
		}
	}
	sort.Strings(keys)
	return len(keys), keys
}

// spawn re-executes this binary (or the race build) as a stage child.
func spawn(c *verdict.Ctx, dir, stage, arg string, race bool, timeout time.Duration, extraEnv ...string) childResult {
	bin := os.Getenv("VERIF_SELF")
	if bin == "" {
		bin, _ = os.Executable()
	}
	if race {
		if rb := os.Getenv("VERIF_RACE_BIN"); rb != "" {
			if st, err := os.Stat(rb); err == nil && !st.IsDir() {
				bin = rb
			} else {
				race = false
			}
		} else {
			race = false
		}
	}
	tag := stage + "-" + sanitizeName(arg)
	out := filepath.Join(dir, tag+".json")
	errPath := filepath.Join(dir, tag+".stderr")
	errF, _ := os.Create(errPath)
	args := []string{"--tier", c.Tier, c.ID}
	var cmd *exec.Cmd
	// `timeout -s QUIT` so that a wedged child leaves a goroutine dump
	if tp, err := exec.LookPath("timeout"); err == nil {
		a := append([]string{"-s", "QUIT", "-k", "10", fmt.Sprintf("%d", int(timeout.Seconds())), bin}, args...)
		cmd = exec.Command(tp, a...)
	} else {
		cmd = exec.Command(bin, args...)
	}
	cmd.Env = append(os.Environ(), envStage+"="+stage, envOut+"="+out, envArg+"="+arg,
		"TMPDIR="+dir, "VERIF_C17_DIR="+dir)
	if race {
		cmd.Env = append(cmd.Env, "GORACE=halt_on_error=0 log_path="+filepath.Join(dir, tag+".race"))
	}
	cmd.Env = append(cmd.Env, extraEnv...)
	cmd.Stdout = errF
	cmd.Stderr = errF
	t0 := time.Now()
	err := cmd.Run()
	errF.Close()
	res := childResult{rec: newRec(), wall: time.Since(t0)}
	if err != nil {
		if ee, ok := err.(*exec.ExitError); ok {
			res.exit = ee.ExitCode()
		} else {
			res.exit = -1
		}
	}
	if res.exit == 124 || res.exit == 137 {
		res.timedOut = true
	}
	if b, err := os.ReadFile(out); err == nil {
		_ = json.Unmarshal(b, res.rec)
	}
	if b, err := os.ReadFile(errPath); err == nil {
		full := string(b)
		if i := crashIndex(full); i >= 0 {
			_, res.panicKey = panicSite(full)
			end := i + 8000
			if end > len(full) {
				end = len(full)
			}
			res.stderr = full[i:end]
			if nl := strings.LastIndexByte(res.stderr, '\n'); nl > 0 && end < len(full) {
				res.stderr = res.stderr[:nl] // never cut a stack line in half
			}
		} else if len(full) > 4000 {
			res.stderr = full[len(full)-4000:]
		} else {
			res.stderr = full
		}
	}
	if stage == "n3" || stage == "n3mem" || stage == "n3init" || stage == "n3flood" || stage == "n3volume" {
		if b, err := os.ReadFile(errPath); err == nil {
			for k, v := range recoveredPanics(string(b)) {
				res.rec.Counts["n3.panic_recovered_by_connection@"+k] += int64(v)
			}
			if strings.Contains(string(b), "CONSENSUS FAILURE") {
				res.rec.Counts["n3.consensus_failure_lines"] += int64(strings.Count(string(b), "CONSENSUS FAILURE"))
			}
		}
	}
	if race {
		files, _ := filepath.Glob(filepath.Join(dir, tag+".race*"))
		var all bytes.Buffer
		for _, f := range files {
			if b, err := os.ReadFile(f); err == nil {
				all.Write(b)
			}
		}
		n, keys := countRaces(all.String())
		res.races = n
		if n > 0 {
			res.rec.Sets["race_reports_dedup"] = keys
		}
	}
	res.crashed = !res.rec.Done
	return res
}

// sanitizeName turns a child argument into a unique, file-name-safe tag.
// recoveredPanics classifies the "MConnection panicked" log lines of a node by
// the innermost tendermint frame that panicked.  These panics are caught by
// MConnection._recover and cost the peer its connection, which the property allows.
func recoveredPanics(log string) map[string]int {
	out := map[string]int{}
	for _, ln := range strings.Split(log, "\n") {
		if !strings.Contains(ln, "MConnection panicked") {
			continue
		}
		i := strings.Index(ln, `stack="`)
		if i < 0 {
			out["?"]++
			continue
		}
		fr := strings.Split(ln[i+7:], `\n`)
		site := "?"
		for j, f := range fr {
			if !strings.HasPrefix(f, "panic(") {
				continue
			}
			for k := j + 1; k+1 < len(fr); k++ {
				if strings.HasPrefix(fr[k], `\t`) || !strings.HasPrefix(fr[k], "github.com/tendermint/tendermint/") {
					continue
				}
				fn := fr[k]
				if a := strings.LastIndexByte(fn, '('); a > 0 {
					fn = fn[:a]
				}
				loc := strings.TrimPrefix(strings.TrimSpace(strings.ReplaceAll(fr[k+1], `\t`, "")), "/repo/")
				if sp := strings.IndexByte(loc, ' '); sp > 0 {
					loc = loc[:sp]
				}
				site = strings.TrimPrefix(fn, "github.com/tendermint/tendermint/") + " " + loc
				break
			}
			break
		}
		out[site]++
	}
	return out
}

func sanitizeName(s string) string {
	b := []byte(s)
	for i, ch := range b {
		if !(ch >= 'a' && ch <= 'z' || ch >= 'A' && ch <= 'Z' || ch >= '0' && ch <= '9' || ch == '-') {
			b[i] = '_'
		}
	}
	if len(b) > 24 {
		b = b[:24]
	}
	sum := sha256.Sum256([]byte(s))
	return string(b) + "-" + hex.EncodeToString(sum[:4])
}

// childMain runs one stage inside a child process and writes the record.
func childMain(c *verdict.Ctx, stage string) int {
	r := newRec()
	r.path = os.Getenv(envOut)
	arg := os.Getenv(envArg)
	switch stage {
	case "n1":
		stageN1(c, r)
	case "n2":
		stageN2(c, r)
	case "n3":
		stageN3(c, r, arg)
	case "n3init":
		stageN3Init(c, r, arg)
	case "n3flood":
		stageN3Flood(c, r, arg)
	case "n3volume":
		stageN3Volume(c, r, arg)
	case "n3mem":
		stageN3Mem(c, r, arg)
	default:
		fmt.Fprintln(os.Stderr, "unknown C17 stage", stage)
		return 3
	}
	r.mu.Lock()
	r.Done = true
	r.mu.Unlock()
	r.flush()
	return 0
}

// reportCrash turns the death of a child into a violation (or a harness error
// when it was the harness that failed).
func reportCrash(c *verdict.Ctx, stage string, res childResult, extra map[string]interface{}) {
	w := map[string]interface{}{"stage": stage, "exit": res.exit, "stderr": res.stderr}
	for k, v := range extra {
		w[k] = v
	}
	cs := parseCrash(res.stderr)
	switch {
	case strings.Contains(cs.msg, "simulated decode failure in the peer's onReceive"):
		// N2 class callback-panic: the callback panics on purpose, exactly like p2p/peer.go's
		// onReceive does for undecodable bytes; the connection must recover it
		c.Violation("process-crash@p2p/conn.(*MConnection).recvRoutine", "a panic raised by the onReceive callback (as p2p/peer.go raises for undecodable messages) was not recovered by the connection and killed the process", w)
	case cs.msg != "" && cs.harness:
		c.HarnessError("%s child: panic in harness code: %s", stage, firstLines(res.stderr, 14))
	case cs.msg != "":
		c.Violation(cs.key(stage), "peer input crashed the process: "+cs.msg, w)
	case res.timedOut:
		c.Inconclusive(stage + ": child exceeded its watchdog")
		c.Set(stage+".timeout_stderr_tail", tail(res.stderr, 1500))
	default:
		c.HarnessError("%s child ended without a result (exit %d): %s", stage, res.exit, tail(res.stderr, 600))
	}
}

func firstLines(s string, n int) string {
	ls := strings.SplitN(s, "\n", n+1)
	if len(ls) > n {
		ls = ls[:n]
	}
	return strings.Join(ls, "\n")
}

func tail(s string, n int) string {
	if len(s) > n {
		return s[len(s)-n:]
	}
	return s
}

func runN1(c *verdict.Ctx) {
	dir := verdict.TmpDir("c17n1-")
	defer os.RemoveAll(dir)
	res := spawn(c, dir, "n1", "", true, 10*time.Minute)
	res.rec.apply(c, "")
	c.Set("n1.race_reports_dedup_count", res.races)
	c.Set("n1.wall_s", res.wall.Seconds())
	if res.crashed {
		reportCrash(c, "n1", res, nil)
	}
}

func runN2(c *verdict.Ctx) {
	dir := verdict.TmpDir("c17n2-")
	defer os.RemoveAll(dir)
	res := spawn(c, dir, "n2", "", true, 10*time.Minute)
	res.rec.apply(c, "")
	c.Set("n2.race_reports_dedup_count", res.races)
	c.Set("n2.wall_s", res.wall.Seconds())
	if res.crashed {
		reportCrash(c, "n2", res, nil)
	}
}

func Run(c *verdict.Ctx) int {
	if st := os.Getenv(envStage); st != "" {
		return childMain(c, st)
	}
	if c.Replay() != "" {
		return replay(c)
	}
	c.Level = "exploration"
	c.Rule = "N1: a run = (transport, channel set incl. ids >= 0x80, rates, sender schedule) and is non-trivial when both directions accepted and delivered messages on >= 2 channels; " +
		"N1-park: a case = (burst shape, channel priorities, queue capacities, message sizes around multiples of the packet payload) in which >= 2 messages were accepted and then nothing more was sent; " +
		"N2: a case = (packet class, parameters, channel capacities) executed against a real MConnection; " +
		"N3-volume: a case = (non-consensus channel, message kind, > 1100 well-formed messages) after which the peer could be removed, an honest peer's message was consumed and all probes passed; " +
		"N3-flood: a case = (number of concurrently flooding peers, messages per peer, mix) whose flood was worked off completely while the honest co-validator kept voting; " +
		"N3-lite: an input = (reactor channel, peer state, message class, bytes) that was handed to a live reactor's Receive path by a real switch while the node stood in a recorded consensus step (new-height incl. the initial height before round 0, propose, prevote, precommit); distinct by descriptor hash"
	c.Assume(
		"protobuf encoding/decoding of packets and reactor messages (gogo/protobuf) is shared with the implementation",
		"ed25519 signing is shared with the implementation",
		"N3-lite runs the reactors wired from exported constructors on one p2p.Switch (MemDB stores, kvstore app, MockPV), not a node.Node; the hostile and honest peers are real switches connected over TCP loopback",
		"memory figures are runtime.MemStats deltas of a process that also runs the idle node; an idle window of equal length is subtracted",
	)
	only := os.Getenv("VERIF_C17_ONLY") // development aid: run a subset of the stages, e.g. "n3"
	if only == "" || strings.Contains(only, "n1") {
		runN1(c)
	}
	if only == "" || strings.Contains(only, "n2") {
		runN2(c)
	}
	if only == "" || strings.Contains(only, "n3") {
		runN3lite(c)
	}
	if runN3 != nil {
		runN3(c)
	}
	return c.Finish(c.N(300, 1500))
}

// replay re-executes the case of a violation witness: an N1 run or an N2 case is
// regenerated from (seed, case index) and run in this process; for N3 the whole
// batch of the witness is run again in a child (the inputs depend on the live
// state of the node, so the bytes of the witness are the authoritative record).
func replay(c *verdict.Ctx) int {
	b, err := os.ReadFile(c.Replay())
	if err != nil {
		c.HarnessError("replay: %v", err)
		return c.Finish(0)
	}
	var f struct {
		Seed    int64 `json:"seed"`
		Witness struct {
			Config *struct {
				Case int `json:"case"`
			} `json:"config"`
			Case *struct {
				Case int `json:"case"`
			} `json:"case"`
			Batch  *int   `json:"batch"`
			Stream string `json:"stream"`
			Last   []struct {
				Batch int `json:"batch"`
			} `json:"last_logged_inputs_newest_last"`
		} `json:"witness"`
	}
	if err := json.Unmarshal(b, &f); err != nil {
		c.HarnessError("replay: %v", err)
		return c.Finish(0)
	}
	c.Seed = f.Seed
	os.Setenv("VERIF_SEED", fmt.Sprint(f.Seed))
	r := newRec()
	switch {
	case f.Witness.Config != nil:
		installRecvingHook()
		runN1Case(r, genN1(c, f.Witness.Config.Case))
		r.apply(c, "")
	case f.Witness.Case != nil:
		installRecvingHook()
		runN2Case(r, genN2(c, f.Witness.Case.Case))
		r.apply(c, "")
	default:
		batch := -1
		if f.Witness.Batch != nil {
			batch = *f.Witness.Batch
		} else if n := len(f.Witness.Last); n > 0 {
			batch = f.Witness.Last[n-1].Batch
		}
		dir := verdict.TmpDir("c17rp-")
		defer os.RemoveAll(dir)
		stage, arg := "n3", fmt.Sprint(batch)
		if f.Witness.Stream == "n3init" {
			stage = "n3init"
		} else if f.Witness.Stream == "n3mem" || batch < 0 {
			stage, arg = "n3mem", ""
		}
		res := spawn(c, dir, stage, arg, false, 10*time.Minute)
		res.rec.apply(c, "")
		if res.crashed && res.exit != 91 {
			ins, _, _ := lastInputs(filepath.Join(dir, stage+"-"+sanitizeName(arg)+".inputs"), 4)
			reportCrash(c, stage, res, map[string]interface{}{"stream": stage, "last_logged_inputs_newest_last": ins})
		}
	}
	return c.Finish(0)
}
