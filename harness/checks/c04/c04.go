// Package c04: no crash or restart can make a validator sign conflicting
// messages (DESIGN.md C04).  M0 drives a real privval.FilePV alone with hostile
// request sequences, restarts and crashes at the sign-state temp-file point;
// M1 kills a whole node (engine crashbox) at every persistence operation of the
// signer and the WAL, cuts or garbles the unsynced WAL tail, crashes again
// during replay, and audits the union of the signer journals.
package c04

import (
	"encoding/hex"
	"fmt"
	"math/rand"
	"os"
	"path/filepath"
	"runtime"
	"strings"
	"sync"
	"time"

	"github.com/tendermint/tendermint/crypto/ed25519"
	"github.com/tendermint/tendermint/libs/verifhook"
	"github.com/tendermint/tendermint/privval"
	tmproto "github.com/tendermint/tendermint/proto/tendermint/types"
	"github.com/tendermint/tendermint/types"

	"verif/crash"
	"verif/verdict"
)

const chainID = "c04-chain"

// ---------------------------------------------------------------- M0

type req struct {
	Kind  string `json:"kind"`
	H     int64  `json:"h"`
	R     int32  `json:"r"`
	Block int    `json:"block"` // 0 = nil, k = block variant k
	POL   int32  `json:"pol"`
	TsMs  int64  `json:"ts_ms"`
	Op    string `json:"op,omitempty"` // "restart" | "crash-before-rename"
}

func blockID(k int) tmproto.BlockID {
	if k == 0 {
		return tmproto.BlockID{}
	}
	h := make([]byte, 32)
	p := make([]byte, 32)
	for i := range h {
		h[i] = byte(k)
		p[i] = byte(k + 100)
	}
	return tmproto.BlockID{Hash: h, PartSetHeader: tmproto.PartSetHeader{Total: uint32(k), Hash: p}}
}

var crashMu sync.Mutex // the tempfile hook handler is process-global

type crashNow struct{}

func runM0(c *verdict.Ctx, idx int, tmp string) {
	r := c.Rand("m0", idx)
	dir := filepath.Join(tmp, fmt.Sprintf("m0-%d", idx))
	_ = os.MkdirAll(dir, 0o755)
	defer os.RemoveAll(dir)
	keyFile, stateFile := filepath.Join(dir, "key.json"), filepath.Join(dir, "state.json")
	pv := privval.NewFilePV(ed25519.GenPrivKeyFromSecret([]byte(fmt.Sprint("c04", idx))), keyFile, stateFile)
	pv.Save()
	var journal []crash.PVEntry
	var reqs []req
	base := time.Date(2024, 1, 1, 0, 0, 0, 0, time.UTC)
	h, round := int64(1+r.Intn(3)), int32(0)
	inc := 0
	var forced []req
	n := 40 + r.Intn(80)
	for k := 0; k < n; k++ {
		var q req
		if len(forced) > 0 {
			q, forced = forced[0], forced[1:]
		} else {
			// walk (h, r) mostly forwards, sometimes backwards (regressions must be refused, never conflict)
			switch x := r.Intn(20); {
			case x < 2:
				h++
				round = 0
			case x < 5:
				round++
			case x == 5 && round > 0:
				round--
			case x == 6 && h > 1:
				h--
			}
			q = req{H: h, R: round, Block: r.Intn(3), POL: -1, TsMs: int64(k*10 + r.Intn(3))}
			switch r.Intn(3) {
			case 0:
				q.Kind = "proposal"
				if q.Block == 0 {
					q.Block = 1
				}
				if r.Intn(3) == 0 && round > 0 {
					q.POL = int32(r.Intn(int(round)))
				}
			case 1:
				q.Kind = "prevote"
			default:
				q.Kind = "precommit"
			}
			if r.Intn(4) == 0 && len(reqs) > 0 {
				// repeat an earlier request exactly, with only the timestamp changed, or with another block
				prev := reqs[r.Intn(len(reqs))]
				if prev.Kind != "" {
					q = prev
					q.Op = ""
					switch r.Intn(3) {
					case 1:
						q.TsMs += int64(1 + r.Intn(1000))
					case 2:
						q.Block = (q.Block % 2) + 1
					}
				}
			}
			op := r.Intn(12)
			if op == 0 {
				q.Op = "restart"
			} else if op == 1 {
				q.Op = "crash-before-rename"
			} else if op == 2 {
				// the sign-state write itself fails (its directory is gone for the duration of the call): whatever the
				// signer does then (die, or report an error and live on), the caller retries the same request, the signer
				// is restarted, and another block is requested at the same height/round/step
				q.Op = "write-fails"
				retry, other := q, q
				retry.Op, other.Op = "restart", ""
				other.Block = (q.Block % 2) + 1
				forced = append(forced, retry, other)
			}
		}
		reqs = append(reqs, q)
		ts := base.Add(time.Duration(q.TsMs) * time.Millisecond)
		crashed := false
		if q.Op == "crash-before-rename" {
			crashMu.Lock()
			verifhook.Handle("tempfile.written", func(kv ...interface{}) {
				if len(kv) > 0 && kv[0] == stateFile {
					panic(crashNow{})
				}
			})
		}
		if q.Op == "write-fails" {
			if err := os.Rename(dir, dir+".off"); err != nil {
				c.HarnessError("m0: %v", err)
				return
			}
			c.Count("m0.sign_state_write_failures_injected", 1)
		}
		func() {
			defer func() {
				if q.Op == "write-fails" {
					if err := os.Rename(dir+".off", dir); err != nil {
						c.HarnessError("m0: %v", err)
					}
				}
				if rec := recover(); rec != nil {
					if _, ok := rec.(crashNow); ok {
						crashed = true
						return
					}
					if q.Op == "write-fails" {
						// FilePV.save panics on write errors: the signer process dies, nothing was released
						crashed = true
						c.Count("m0.signer_died_on_write_failure", 1)
						return
					}
					// FilePV.save panics on write errors; anything else is unexpected
					c.Violation("signer-panicked", fmt.Sprintf("FilePV panicked: %v", rec), map[string]interface{}{"stream": "m0", "case": idx, "requests": reqs})
				}
			}()
			var e crash.PVEntry
			var err error
			switch q.Kind {
			case "proposal":
				p := &tmproto.Proposal{Type: tmproto.ProposalType, Height: q.H, Round: q.R, PolRound: q.POL, BlockID: blockID(q.Block), Timestamp: ts}
				err = pv.SignProposal(chainID, p)
				if err == nil {
					e = crash.PVEntry{Kind: "proposal", Height: p.Height, Round: p.Round, POLRound: p.PolRound, BlockHash: hex.EncodeToString(p.BlockID.Hash),
						PartsHash: hex.EncodeToString(p.BlockID.PartSetHeader.Hash), PartsTot: p.BlockID.PartSetHeader.Total, TsNanos: p.Timestamp.UnixNano(),
						SignBytes: hex.EncodeToString(types.ProposalSignBytes(chainID, p)), Signature: hex.EncodeToString(p.Signature)}
				}
			default:
				typ := tmproto.PrevoteType
				if q.Kind == "precommit" {
					typ = tmproto.PrecommitType
				}
				v := &tmproto.Vote{Type: typ, Height: q.H, Round: q.R, BlockID: blockID(q.Block), Timestamp: ts, ValidatorAddress: pv.GetAddress(), ValidatorIndex: 0}
				err = pv.SignVote(chainID, v)
				if err == nil {
					e = crash.PVEntry{Kind: q.Kind, Height: v.Height, Round: v.Round, BlockHash: hex.EncodeToString(v.BlockID.Hash),
						PartsHash: hex.EncodeToString(v.BlockID.PartSetHeader.Hash), PartsTot: v.BlockID.PartSetHeader.Total, TsNanos: v.Timestamp.UnixNano(),
						SignBytes: hex.EncodeToString(types.VoteSignBytes(chainID, v)), Signature: hex.EncodeToString(v.Signature)}
				}
			}
			if err == nil {
				e.Inc, e.N = inc, int64(k)
				// the signature must verify over the sign-bytes that were returned
				sb, _ := hex.DecodeString(e.SignBytes)
				sig, _ := hex.DecodeString(e.Signature)
				if !pv.Key.PubKey.VerifySignature(sb, sig) {
					c.Violation("released-signature-does-not-verify", "the returned signature does not verify over the returned message", map[string]interface{}{"stream": "m0", "case": idx, "requests": reqs})
				}
				journal = append(journal, e)
				c.Count("m0.signed."+q.Kind, 1)
			} else {
				c.Count("m0.refused", 1)
			}
		}()
		if q.Op == "crash-before-rename" {
			verifhook.Handle("tempfile.written", nil)
			crashMu.Unlock()
		}
		if crashed && q.Op == "crash-before-rename" {
			c.Count("m0.crash_before_rename", 1)
		}
		if crashed || q.Op == "restart" {
			inc++
			pv = privval.LoadFilePV(keyFile, stateFile)
			c.Count("m0.restarts", 1)
		}
	}
	c.Eval()
	for _, f := range crash.AuditPV(journal) {
		c.Violation("m0-"+f.Key, f.What, map[string]interface{}{"stream": "m0", "case": idx, "requests": reqs, "journal": journal})
	}
	if len(journal) > 3 {
		c.Distinct("m0", idx, len(journal), inc)
	}
	if c.WantSample() && idx < 2 {
		c.Sample(map[string]interface{}{"stream": "m0", "case": idx, "requests": reqs[:12], "signed": len(journal), "restarts": inc})
	}
}

// ---------------------------------------------------------------- M1

const h0 = 2

func runM1(c *verdict.Ctx, tmp string) {
	bin := os.Getenv("VERIF_CRASHBOX")
	if bin == "" {
		bin = filepath.Join(os.Getenv("VERIF_BIN"), "crashbox")
	}
	if _, err := os.Stat(bin); err != nil {
		c.HarnessError("crashbox binary not found at %s", bin)
		return
	}
	r := &crash.Runner{Bin: bin, Tmp: tmp}
	template := filepath.Join(tmp, "template")
	if err := r.InitHome(template, h0); err != nil {
		c.HarnessError("template: %v", err)
		return
	}
	// census of the signer / WAL persistence operations over two heights
	res, err := r.Run(template, "census", []crash.Step{{Target: h0 + 2}}, func(n int64) int64 { return 0 })
	if err != nil || len(res.Incs) != 1 || !res.Incs[0].Reached {
		c.HarnessError("census run failed: %v %+v", err, res)
		return
	}
	nPV := 0
	for _, e := range res.PV {
		if e.Inc == 1 {
			nPV++
		}
	}
	nSync, nTemp := 0, 0
	b, _ := os.ReadFile(filepath.Join(res.Home, "hookjournal"))
	for _, l := range strings.Split(string(b), "\n") {
		if strings.HasPrefix(l, "autofile.synced") {
			nSync++
		}
		if strings.HasPrefix(l, "tempfile.written") {
			nTemp++
		}
	}
	os.RemoveAll(res.Home)
	var plans []string
	for i := 1; i <= nPV; i++ {
		plans = append(plans, fmt.Sprintf("pv:%d:entry", i), fmt.Sprintf("pv:%d:exit", i))
	}
	for i := 1; i <= nTemp; i++ {
		plans = append(plans, fmt.Sprintf("point:tempfile.written:%d", i))
	}
	for i := 1; i <= nSync; i++ {
		plans = append(plans, fmt.Sprintf("point:autofile.synced:%d", i))
	}
	for i := 0; i < 24; i++ { // the fail points of two heights (WAL-affecting ones included)
		plans = append(plans, fmt.Sprintf("fail:%d", i))
	}
	// syscall-level crash points (strace fault injection): the process is killed on entering the n-th
	// rename / unlink / fsync, i.e. between any two file-system steps of the sign-state replacement and the WAL sync
	for i := 1; i <= 12; i++ {
		plans = append(plans, fmt.Sprintf("sys:rename,renameat,renameat2:%d", i), fmt.Sprintf("sys:unlink,unlinkat:%d", i), fmt.Sprintf("sys:fsync,fdatasync:%d", i))
	}
	c.Set("m1_census", map[string]int{"signer_calls": nPV, "sign_state_tempfile_points": nTemp, "wal_fsyncs": nSync, "fail_points_tried": 24, "syscall_points_tried": 36})
	c.Set("m1_first_level_crash_points_enumerated", len(plans))
	// every first-level point is combined with several WAL tail treatments; thorough adds more repetitions
	reps := c.N(2, 12)
	type job struct {
		k    int
		plan string
	}
	var jobs []job
	for rep := 0; rep < reps; rep++ {
		for _, p := range plans {
			jobs = append(jobs, job{len(jobs), p})
		}
	}
	rr := c.Rand("m1-order", 0)
	rr.Shuffle(len(jobs), func(i, j int) { jobs[i], jobs[j] = jobs[j], jobs[i] })
	if !c.Thorough() && len(jobs) > 240 {
		jobs = jobs[:240]
	}
	ch := make(chan job, 64)
	var wg sync.WaitGroup
	for w := 0; w < runtime.NumCPU(); w++ {
		wg.Add(1)
		go func() {
			defer wg.Done()
			for j := range ch {
				runPlanM1(c, r, template, j.k, j.plan)
			}
		}()
	}
	for _, j := range jobs {
		ch <- j
	}
	close(ch)
	wg.Wait()
}

var recovery = []string{"pv:1:entry", "pv:1:exit", "pv:2:entry", "pv:2:exit", "pv:3:exit", "point:tempfile.written:1", "point:tempfile.written:2",
	"point:autofile.synced:1", "point:autofile.synced:2", "point:autofile.synced:3", "fail:0", "fail:1", "fail:2", "fail:4"}

func runPlanM1(c *verdict.Ctx, r *crash.Runner, template string, k int, first string) {
	pr := c.Rand("m1", k)
	cuts := []string{"", "synced", "rand", "rand", "garbage"}
	steps := []crash.Step{{Plan: first, Target: h0 + 2, WALCut: cuts[pr.Intn(len(cuts))]}}
	nrec := pr.Intn(4) // up to k = 3 further crashes in the same height, during replay
	for i := 0; i < nrec; i++ {
		steps = append(steps, crash.Step{Plan: recovery[pr.Intn(len(recovery))], Target: h0 + 2, WALCut: cuts[pr.Intn(len(cuts))]})
	}
	steps = append(steps, crash.Step{Target: h0 + 4})
	res, err := r.Run(template, fmt.Sprintf("m1-%d", k), steps, func(n int64) int64 { return pr.Int63n(n) })
	if err != nil {
		c.HarnessError("plan %d: %v", k, err)
		return
	}
	defer os.RemoveAll(res.Home)
	c.Eval()
	w := map[string]interface{}{"stream": "m1", "case": k, "steps": steps, "incarnations": res.Incs}
	crashed := 0
	for i, inc := range res.Incs {
		if inc.Crashed {
			crashed++
			kind := strings.SplitN(inc.Step.Plan, ":", 3)
			lvl := "first"
			if i > 0 {
				lvl = "recovery"
			}
			name := kind[0]
			if (kind[0] == "point" || kind[0] == "sys") && len(kind) > 1 {
				name = kind[0] + "." + strings.SplitN(kind[1], ",", 2)[0]
			}
			c.Count("m1.crash_reached."+lvl+"."+name, 1)
			if inc.WALAfter < inc.WALBefore {
				c.Count("m1.wal_tail_cut", 1)
				c.Count("m1.wal_tail_bytes_cut", inc.WALBefore-inc.WALAfter)
			}
		}
	}
	c.Count("m1.signatures_audited", int64(len(res.PV)))
	for _, f := range crash.AuditPV(res.PV) {
		w["journal"] = res.PV
		c.Violation("m1-"+f.Key, f.What, w)
	}
	last := res.Incs[len(res.Incs)-1]
	switch {
	case last.Timeout:
		c.Inconclusive("final clean run hit the wall-clock watchdog")
	case !last.Reached:
		// recovery failures belong to C05 / C15; they are counted here, not judged
		c.Count("m1.node_did_not_keep_signing_after_plan", 1)
	}
	if crashed > 0 {
		c.Distinct("m1", fmt.Sprint(steps))
	}
	if c.WantSample() && crashed > 1 {
		c.Sample(w)
	}
}

func Run(c *verdict.Ctx) int {
	c.Level = "fault_enumeration"
	c.Rule = "M0: one case = a seeded sequence of 40-120 signing requests to a real FilePV on disk (same HRS with identical data / only the timestamp changed / another block or POL round; height, round and step regressions) interleaved with reloads from the files, crashes at the point between writing the sign-state temp file and renaming it, and failing sign-state writes (directory gone during the call) followed by a retry of the same request, a restart and a request for another block at the same height/round/step; M1: one case = a crash plan for a whole node: a first-level crash point from the enumeration of a census run over two heights (every signer call entry and exit, every sign-state temp-file point, every WAL fsync, the fail.Fail points), a WAL tail treatment (kept / cut to the synced size / cut at a random byte / garbled), 0-3 further crashes during replay, a final clean run. The union of the signer journals of all incarnations is audited; non-trivial = a crash point was reached (M1) or more than 3 signatures were released (M0)"
	c.Assume("the signer journal is written (and fsynced) after FilePV returned and before the caller gets the signature; a journaled signature counts as released",
		"process-crash semantics plus explicit surgery on the unsynced WAL tail; reordering between the sign-state file and the WAL on power loss is not modelled", "single-validator node in M1 (multi-round histories come from M0)")
	tmp := verdict.TmpDir("c04-")
	defer os.RemoveAll(tmp)
	n := c.N(2000, 60000)
	var wg sync.WaitGroup
	jobs := make(chan int, 64)
	for w := 0; w < runtime.NumCPU(); w++ {
		wg.Add(1)
		go func() {
			defer wg.Done()
			for j := range jobs {
				runM0(c, j, tmp)
			}
		}()
	}
	for i := 0; i < n; i++ {
		jobs <- i
	}
	close(jobs)
	wg.Wait()
	runM1(c, tmp)
	return c.Finish(100)
}

var _ = rand.Int
