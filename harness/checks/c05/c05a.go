// Package c05: the application sees each block exactly once, in order, even
// across crashes (C05a, engine crashbox, fault enumeration) and no new-tx
// CheckTx between commit request and end of recheck (C05b, in-process, -race).
package c05

import (
	"fmt"
	"os"
	"path/filepath"
	"runtime"
	"sort"
	"strings"
	"sync"

	"verif/crash"
	"verif/verdict"
)

const h0 = 2 // the template home is advanced to this height before any plan

type planCase struct {
	Idx   int          `json:"case"`
	Steps []crash.Step `json:"steps"`
}

type census struct {
	DB     map[string]int
	App    int
	PV     int
	Synced int
	Temp   int
}

func special() string {
	pk := strings.Repeat("ab", 32)
	return fmt.Sprintf("%d:param:maxbytes=10000000,%d:val:%s:3,%d:val:%s:0,%d:param:maxgas=5000000,%d:param:appversion=1", h0+1, h0+1, pk, h0+2, pk, h0+2, h0+1)
}

func takeCensus(r *crash.Runner, template string) (census, error) {
	cz := census{DB: map[string]int{}}
	res, err := r.Run(template, "census", []crash.Step{{Target: h0 + 3}}, func(n int64) int64 { return 0 })
	if err != nil {
		return cz, err
	}
	defer os.RemoveAll(res.Home)
	if len(res.Incs) != 1 || !res.Incs[0].Reached {
		return cz, fmt.Errorf("census run did not reach its target: %+v", res.Incs)
	}
	for name, m := range res.DBOps {
		cz.DB[name] = m[1]
	}
	for _, e := range res.App {
		if e.Inc == 1 && int(e.CSeq) > cz.App {
			cz.App = int(e.CSeq)
		}
	}
	for _, e := range res.PV {
		if e.Inc == 1 {
			cz.PV++
		}
	}
	b, _ := os.ReadFile(filepath.Join(res.Home, "hookjournal"))
	for _, l := range strings.Split(string(b), "\n") {
		if strings.HasPrefix(l, "autofile.synced") {
			cz.Synced++
		}
		if strings.HasPrefix(l, "tempfile.written") {
			cz.Temp++
		}
	}
	return cz, nil
}

// allPlans enumerates every first-level crash point of the census run.
func allPlans(cz census, focus string) []string {
	var out []string
	names := []string{}
	for n := range cz.DB {
		names = append(names, n)
	}
	sort.Strings(names)
	for _, n := range names {
		for i := 1; i <= cz.DB[n]; i++ {
			out = append(out, fmt.Sprintf("db:%s:%d:before", n, i), fmt.Sprintf("db:%s:%d:after", n, i))
		}
	}
	for i := 0; i < 10*4; i++ {
		out = append(out, fmt.Sprintf("fail:%d", i))
	}
	for i := 1; i <= cz.App; i++ {
		out = append(out, fmt.Sprintf("app:%d", i))
	}
	for i := 1; i <= cz.PV; i++ {
		out = append(out, fmt.Sprintf("pv:%d:entry", i), fmt.Sprintf("pv:%d:exit", i))
	}
	for i := 1; i <= cz.Synced; i++ {
		out = append(out, fmt.Sprintf("point:autofile.synced:%d", i))
	}
	for i := 1; i <= cz.Temp; i++ {
		out = append(out, fmt.Sprintf("point:tempfile.written:%d", i))
	}
	return out
}

var recoveryPlans = []string{"db:state:1:before", "db:state:1:after", "db:state:2:before", "db:state:3:after", "db:blockstore:1:before", "db:blockstore:2:after",
	"app:1", "app:2", "app:3", "app:4", "app:6", "app:9", "app:12", "fail:0", "fail:1", "fail:2", "fail:3", "fail:5", "pv:1:entry", "pv:1:exit", "pv:2:exit",
	"point:autofile.synced:1", "point:autofile.synced:2", "point:tempfile.written:1", "db:tx_index:1:before"}

func runA(c *verdict.Ctx) {
	bin := os.Getenv("VERIF_CRASHBOX")
	if bin == "" {
		bin = filepath.Join(os.Getenv("VERIF_BIN"), "crashbox")
	}
	if _, err := os.Stat(bin); err != nil {
		c.HarnessError("crashbox binary not found at %s", bin)
		return
	}
	tmp := verdict.TmpDir("c05a-")
	defer os.RemoveAll(tmp)
	r := &crash.Runner{Bin: bin, Tmp: tmp, Special: special()}
	template := filepath.Join(tmp, "template")
	if err := r.InitHome(template, h0); err != nil {
		c.HarnessError("template: %v", err)
		return
	}
	cz, err := takeCensus(r, template)
	if err != nil {
		c.HarnessError("census: %v", err)
		return
	}
	c.Set("census", cz)
	plans := allPlans(cz, "")
	c.Set("first_level_crash_points_enumerated", len(plans))
	// quick: a seeded sample of the enumeration; thorough: all of it
	rr := c.Rand("plans", 0)
	order := rr.Perm(len(plans))
	n := c.N(220, len(plans))
	if n > len(plans) {
		n = len(plans)
	}
	c.Set("exhaustive_first_level", n == len(plans))
	var wg sync.WaitGroup
	jobs := make(chan int, 64)
	for w := 0; w < runtime.NumCPU(); w++ {
		wg.Add(1)
		go func() {
			defer wg.Done()
			for k := range jobs {
				runPlanA(c, r, template, k, plans[order[k]])
			}
		}()
	}
	for k := 0; k < n; k++ {
		jobs <- k
	}
	close(jobs)
	wg.Wait()
	// ---- the very first blocks of the chain: a fresh home (nothing committed, InitChain still to come)
	// with crash points over InitChain and the first heights
	fresh := filepath.Join(tmp, "template-genesis")
	if err := r.InitHome(fresh, 0); err != nil {
		c.HarnessError("genesis template: %v", err)
		return
	}
	var gplans []string
	for i := 0; i < 12; i++ {
		gplans = append(gplans, fmt.Sprintf("fail:%d", i))
	}
	for i := 1; i <= 14; i++ {
		gplans = append(gplans, fmt.Sprintf("app:%d", i))
	}
	for i := 1; i <= 6; i++ {
		gplans = append(gplans, fmt.Sprintf("db:state:%d:before", i), fmt.Sprintf("db:state:%d:after", i), fmt.Sprintf("db:blockstore:%d:before", i), fmt.Sprintf("db:blockstore:%d:after", i))
	}
	gplans = append(gplans, "pv:1:exit", "pv:2:exit", "point:autofile.synced:1", "point:autofile.synced:3")
	gorder := c.Rand("gplans", 0).Perm(len(gplans))
	gn := c.N(len(gplans), len(gplans))
	if gn > len(gplans) {
		gn = len(gplans)
	}
	c.Set("genesis_crash_points_enumerated", len(gplans))
	var gwg sync.WaitGroup
	gjobs := make(chan int, 64)
	for w := 0; w < runtime.NumCPU(); w++ {
		gwg.Add(1)
		go func() {
			defer gwg.Done()
			for k := range gjobs {
				runPlanAt(c, r, fresh, k, gplans[gorder[k]], 0, "genesis-plan")
				c.Count("genesis_plans_run", 1)
			}
		}()
	}
	for k := 0; k < gn; k++ {
		gjobs <- k
	}
	close(gjobs)
	gwg.Wait()
	// ---- the same crash plans on a node whose configuration still says statesync.enable = true (left on after a
	// state sync long ago) and that is not the only validator of its chain (a second validator with 1/11 of the
	// power never shows up): a node that has state must ignore the setting and recover exactly as above
	r2 := &crash.Runner{Bin: bin, Tmp: tmp, Special: special(), AbsentValidator: true, StateSyncLeftOn: true}
	template2 := filepath.Join(tmp, "template-2v")
	if err := r2.InitHome(template2, h0); err != nil {
		c.HarnessError("two-validator template: %v", err)
		return
	}
	cz2, err := takeCensus(r2, template2)
	if err != nil {
		// the census is a clean restart of the template; if that already fails it is the plans below that say so
		// (the crash points of the one-validator census are used instead)
		c.Count("statesync_left_on_census_failed", 1)
		cz2 = cz
	}
	plans2 := allPlans(cz2, "")
	order2 := c.Rand("plans-2v", 0).Perm(len(plans2))
	n2 := c.N(64, len(plans2))
	if n2 > len(plans2) {
		n2 = len(plans2)
	}
	c.Set("statesync_left_on_crash_points_enumerated", len(plans2))
	var wg2 sync.WaitGroup
	jobs2 := make(chan int, 64)
	for w := 0; w < runtime.NumCPU(); w++ {
		wg2.Add(1)
		go func() {
			defer wg2.Done()
			for k := range jobs2 {
				runPlanAt(c, r2, template2, k, plans2[order2[k]], h0, "statesync-left-on-plan")
				c.Count("statesync_left_on_plans_run", 1)
			}
		}()
	}
	for k := 0; k < n2; k++ {
		jobs2 <- k
	}
	close(jobs2)
	wg2.Wait()
}

func runPlanA(c *verdict.Ctx, r *crash.Runner, template string, k int, first string) {
	runPlanAt(c, r, template, k, first, h0, "plan")
}

// runPlanAt runs one crash plan on a template home that stands at height base.
func runPlanAt(c *verdict.Ctx, r *crash.Runner, template string, k int, first string, base int64, stream string) {
	h0 := base
	pr := c.Rand(stream, k)
	cuts := []string{"", "", "synced", "rand", "garbage"}
	steps := []crash.Step{{Plan: first, Target: h0 + 3, WALCut: cuts[pr.Intn(len(cuts))]}}
	if pr.Intn(2) == 0 {
		steps = append(steps, crash.Step{Plan: recoveryPlans[pr.Intn(len(recoveryPlans))], Target: h0 + 3, WALCut: cuts[pr.Intn(len(cuts))]})
		if pr.Intn(3) == 0 {
			steps = append(steps, crash.Step{Plan: recoveryPlans[pr.Intn(len(recoveryPlans))], Target: h0 + 3})
		}
	}
	steps = append(steps, crash.Step{Target: h0 + 5})
	res, err := r.Run(template, fmt.Sprintf("%s%d", stream[:1], k), steps, func(n int64) int64 { return pr.Int63n(n) })
	if err != nil {
		c.HarnessError("plan %d: %v", k, err)
		return
	}
	defer os.RemoveAll(res.Home)
	c.Eval()
	w := map[string]interface{}{"stream": stream, "case": k, "steps": steps, "incarnations": res.Incs, "handshake": res.Handshake}
	crashed := 0
	for i, inc := range res.Incs {
		kind := strings.SplitN(inc.Step.Plan, ":", 2)[0]
		if inc.Step.Plan == "" {
			kind = "clean"
		}
		switch {
		case inc.Crashed:
			crashed++
			lvl := "first"
			if i > 0 {
				lvl = "recovery"
			}
			c.Count("crash_reached."+lvl+"."+kind, 1)
			if inc.WALAfter < inc.WALBefore {
				c.Count("wal_tail_cut", 1)
			}
		case inc.Timeout:
			c.Count("incarnation_timeout", 1)
		case inc.Stalled:
			c.Count("incarnation_stalled", 1)
		case !inc.Reached:
			c.Count("incarnation_died."+kind, 1)
		}
	}
	last := res.Incs[len(res.Incs)-1]
	if last.Timeout {
		c.Inconclusive("final clean run hit the wall-clock watchdog")
		return
	}
	blockTxs, _, _, err := crash.BlockTxs(res.Home)
	if err != nil {
		c.Violation("blockstore-unreadable-after-plan", err.Error(), w)
		return
	}
	for _, f := range crash.AuditApp(res, blockTxs) {
		c.Violation(f.Key, f.What, w)
	}
	if !last.Reached && res.Handshake.Err == "" && last.Stalled {
		// a node that is really stuck stays stuck: give it one more incarnation before judging
		again := r.Extra(res, crash.Step{Target: h0 + 5})
		if again.Reached {
			c.Count("stall_not_confirmed_on_second_attempt", 1)
			c.Inconclusive("final run stalled once but the node committed on a further restart")
			return
		}
		last = again
		w["incarnations"] = res.Incs
		// classify the one stall that is understood: an earlier crash fell between saving block h and the
		// WAL end-of-height marker for h (the handshake then applies block h but nobody writes the marker),
		// and a later crash at height h+1 came after the validator had signed there: catch-up replay of h+1
		// refuses to run without the marker, the signer refuses to sign the same steps again, and a
		// single-validator chain cannot leave round 0.
		marks := crash.WALEndHeights(res.Home)
		pvH, _, pvStep := crash.PVState(res.Home)
		if !marks[res.Handshake.StoreHeight] && pvH == res.Handshake.StoreHeight+1 && pvStep > 0 {
			w["wal_end_height_markers"] = fmt.Sprint(marks)
			w["signer_last_height"] = pvH
			c.Violation("stalled-wal-endheight-marker-never-written-after-crash-before-it",
				fmt.Sprintf("node stalls at height %d: WAL has no end-of-height marker for %d (crash between block save and marker), so the records of height %d are not replayed, and the signer already signed %d/0", pvH, res.Handshake.StoreHeight, pvH, pvH), w)
			return
		}
	}
	if !last.Reached && res.Handshake.Err == "" {
		c.Violation("node-does-not-go-on-committing", fmt.Sprintf("after the plan the node restarted but did not commit two further heights (exit %d, marker %q): %s", last.Exit, last.Marker, last.Stderr), w)
	}
	// an unplanned death of a non-final incarnation is a recovery failure too
	for i, inc := range res.Incs[:len(res.Incs)-1] {
		if !inc.Crashed && !inc.Reached && !inc.Timeout && !inc.Stalled {
			c.Violation("incarnation-died-unplanned", fmt.Sprintf("incarnation %d exited %d without reaching its crash point or target: %s", i+1, inc.Exit, inc.Stderr), w)
		}
	}
	if crashed > 0 {
		c.Distinct("plan", fmt.Sprint(steps))
		c.Count("plans_with_crash", 1)
	} else {
		c.Count("plans_trivial_crash_point_not_reached", 1)
	}
	if c.WantSample() && crashed > 0 {
		c.Sample(w)
	}
}
