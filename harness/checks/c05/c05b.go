package c05

// C05b: from the moment a commit is requested until the mempool has been
// updated and rechecked for that block, no check of a NEW transaction is
// started or in flight on the mempool connection.
//
// History at the application boundary (harness/recapp journals every ABCI call
// on entry and on return, per connection, under one lock = one total order):
// after Commit is called for height h the application must see Commit return
// and then exactly R re-checks (R = mempool size right after Update returned,
// captured by wrapping the mempool handed to the BlockExecutor) before it sees
// the call of any new-transaction check; and no new-transaction check may be
// open (called, not returned) when Commit is called.

import (
	"fmt"
	"os"
	"os/exec"
	"path/filepath"
	"strings"
	"sync"
	"sync/atomic"
	"time"

	abciserver "github.com/tendermint/tendermint/abci/server"
	abci "github.com/tendermint/tendermint/abci/types"
	cfg "github.com/tendermint/tendermint/config"
	"github.com/tendermint/tendermint/libs/log"
	mempl "github.com/tendermint/tendermint/mempool"
	mempoolv0 "github.com/tendermint/tendermint/mempool/v0"
	mempoolv1 "github.com/tendermint/tendermint/mempool/v1"
	"github.com/tendermint/tendermint/proxy"
	sm "github.com/tendermint/tendermint/state"
	"github.com/tendermint/tendermint/types"

	"verif/chaingen"
	"verif/recapp"
	"verif/verdict"
)

type bEvent struct {
	Seq    int64  `json:"seq"`
	Conn   string `json:"conn"`
	Method string `json:"m"`
	Phase  string `json:"p"`
	Height int64  `json:"h,omitempty"`
	Type   string `json:"type,omitempty"`
	Tx     string `json:"tx,omitempty"`
}

// updMempool wraps the mempool given to the executor and records, per height,
// how many transactions remained right after Update (= re-checks to expect).
type updMempool struct {
	mempl.Mempool
	recheck bool
	mu      sync.Mutex
	remain  map[int64]int
	late    int64
	lateWG  sync.WaitGroup
	id      int
}

func (m *updMempool) Update(h int64, txs types.Txs, res []*abci.ResponseDeliverTx, pre mempl.PreCheckFunc, post mempl.PostCheckFunc) error {
	err := m.Mempool.Update(h, txs, res, pre, post)
	n := 0
	if m.recheck {
		n = m.Mempool.Size()
	}
	m.mu.Lock()
	m.remain[h] = n
	m.mu.Unlock()
	return err
}

// FlushAppConn: a transaction submission is started right after the flush of the mempool connection has
// returned and given a moment to get going before the executor carries on (a delay injected at an existing
// suspension point).  The executor calls this with the mempool locked, so on a correct tree the submission
// just waits for the lock and is checked after the update; nothing is assumed about that here - the
// application-side history decides.
func (m *updMempool) FlushAppConn() error {
	err := m.Mempool.FlushAppConn()
	k := atomic.AddInt64(&m.late, 1)
	m.lateWG.Add(1)
	go func() {
		defer m.lateWG.Done()
		_ = m.Mempool.CheckTx(types.Tx(fmt.Sprintf("late-%d-%d=v", m.id, k)), nil, mempl.TxInfo{SenderID: 999})
	}()
	time.Sleep(150 * time.Microsecond)
	return err
}

type bCase struct {
	Idx     int    `json:"case"`
	Version string `json:"mempool"`
	Client  string `json:"client"`
	Recheck bool   `json:"recheck"`
	Subs    int    `json:"submitters"`
	Blocks  int    `json:"blocks"`
	CommitD int    `json:"commit_delay_us"`
	CheckD  int    `json:"check_delay_us"`
	Burst   bool   `json:"burst_mode"` // submitters pause until the pool is empty and fire right when a block is committed
}

func runOneB(c *verdict.Ctx, idx int, tmp string) {
	r := c.Rand("c05b", idx)
	bc := bCase{Idx: idx, Version: []string{"v0", "v1"}[r.Intn(2)], Client: []string{"local", "socket"}[r.Intn(2)], Recheck: r.Intn(4) != 0,
		Subs: 4 + r.Intn(12), Blocks: c.N(8, 24), CommitD: []int{0, 200, 2000}[r.Intn(3)], CheckD: []int{0, 50, 500}[r.Intn(3)], Burst: r.Intn(3) == 0}
	if bc.Burst && bc.CheckD == 0 {
		bc.CheckD = 300
	}
	var evMu sync.Mutex
	var events []bEvent
	hook := func(ev recapp.Event) {
		if ev.Conn == "mempool" || (ev.Conn == "consensus" && ev.Method == "Commit") {
			evMu.Lock()
			events = append(events, bEvent{Seq: ev.Seq, Conn: ev.Conn, Method: ev.Method, Phase: ev.Phase, Height: ev.Height, Type: ev.Extra, Tx: ev.Tx})
			evMu.Unlock()
		}
	}
	mcfg := cfg.TestMempoolConfig()
	mcfg.Recheck = bc.Recheck
	mcfg.Size = 40 + r.Intn(200)
	mcfg.CacheSize = 1000
	mcfg.Version = bc.Version
	var wrapped *updMempool
	var sock string
	var srvStop func()
	opts := chaingen.Options{Seed: c.SubSeed("c05b-keys", idx), Powers: []int64{10}, NoBlockStore: true,
		AppOptions: recapp.Options{Hook: hook, CommitDelay: time.Duration(bc.CommitD) * time.Microsecond, CheckDelay: time.Duration(bc.CheckD) * time.Microsecond},
		MempoolFactory: func(conns proxy.AppConns, st sm.State) mempl.Mempool {
			var mp mempl.Mempool
			if bc.Version == "v0" {
				mp = mempoolv0.NewCListMempool(mcfg, conns.Mempool(), st.LastBlockHeight)
			} else {
				mp = mempoolv1.NewTxMempool(log.NewNopLogger(), mcfg, conns.Mempool(), st.LastBlockHeight)
			}
			wrapped = &updMempool{Mempool: mp, recheck: bc.Recheck, remain: map[int64]int{}, id: idx}
			return wrapped
		}}
	if bc.Client == "socket" {
		sock = filepath.Join(tmp, fmt.Sprintf("abci-%d.sock", idx))
		opts.ClientCreator = func(app *recapp.App) proxy.ClientCreator {
			srv := abciserver.NewSocketServer("unix://"+sock, app)
			srv.SetLogger(log.NewNopLogger())
			if err := srv.Start(); err != nil {
				panic(err)
			}
			srvStop = func() { _ = srv.Stop() }
			return proxy.NewRemoteClientCreator("unix://"+sock, "socket", true)
		}
	}
	chain := chaingen.New(opts)
	defer func() {
		chain.Close()
		if srvStop != nil {
			srvStop()
		}
		if sock != "" {
			_ = os.Remove(sock)
		}
	}()
	mp := wrapped
	// submitters: few distinct keys, repeats are the norm
	var stop, paused int32
	var wg sync.WaitGroup
	var submitted int64
	for s := 0; s < bc.Subs; s++ {
		wg.Add(1)
		go func(s int) {
			defer wg.Done()
			i := 0
			for atomic.LoadInt32(&stop) == 0 {
				if atomic.LoadInt32(&paused) != 0 {
					time.Sleep(50 * time.Microsecond)
					continue
				}
				i++
				tx := types.Tx(fmt.Sprintf("s%d-%d=v", s%5, i%400))
				_ = mp.CheckTx(tx, nil, mempl.TxInfo{SenderID: uint16(s + 1)})
				atomic.AddInt64(&submitted, 1)
				if i%4 == 0 {
					time.Sleep(20 * time.Microsecond) // keep the history short enough to audit; contention comes from the number of submitters
				}
			}
		}(s)
	}
	for b := 0; b < bc.Blocks; b++ {
		if bc.Burst {
			// quiet phase: no submissions until everything pending has been committed and the pool is empty ...
			atomic.StoreInt32(&paused, 1)
			for k := 0; k < 20 && mp.Size() > 0; k++ {
				if _, err := chain.Step(chaingen.StepPlan{Txs: mp.ReapMaxBytesMaxGas(-1, -1)}); err != nil {
					break
				}
			}
			// ... then a burst of new transactions starts right when the next (empty) block is committed
			atomic.StoreInt32(&paused, 0)
			time.Sleep(time.Duration(r.Intn(300)) * time.Microsecond)
		}
		txs := mp.ReapMaxBytesMaxGas(20000, -1)
		if _, err := chain.Step(chaingen.StepPlan{Txs: txs}); err != nil {
			c.HarnessError("c05b case %d: step failed: %v", idx, err)
			break
		}
		time.Sleep(time.Duration(200+r.Intn(800)) * time.Microsecond)
	}
	atomic.StoreInt32(&stop, 1)
	wg.Wait()
	mp.lateWG.Wait()
	// let detached re-checks (v1) and async responses drain.  With a socket client also the trailing throttled
	// Flush (sent 20 ms after the last request) must have been answered before the client is stopped: tendermint's
	// socket client marks its in-flight requests done on Stop and panics ("negative WaitGroup counter") if one of
	// their responses still arrives - a teardown matter outside the property that used to kill the child batch
	time.Sleep(20 * time.Millisecond)
	if bc.Client == "socket" {
		time.Sleep(80 * time.Millisecond)
	}
	evMu.Lock()
	evs := append([]bEvent{}, events...)
	evMu.Unlock()
	c.Eval()
	c.Count("c05b.runs", 1)
	c.Count("c05b.runs."+bc.Version+"."+bc.Client, 1)
	if bc.Burst {
		c.Count("c05b.runs.burst_mode", 1)
	}
	c.Count("c05b.txs_submitted", atomic.LoadInt64(&submitted))
	// ---- oracle over the application-side history
	openNew := 0 // new-tx checks called and not yet returned
	var window *struct {
		h            int64
		commitRet    bool
		needRechecks int
		seenRechecks int
	}
	nNew, nRe, windows, overlapped := 0, 0, 0, 0
	report := func(key, what string, at int) {
		lo := at - 12
		if lo < 0 {
			lo = 0
		}
		hi := at + 6
		if hi > len(evs) {
			hi = len(evs)
		}
		c.Violation(bc.Version+"-"+key, what, map[string]interface{}{"stream": "c05b", "case": bc, "history_excerpt": evs[lo:hi]})
	}
	for i, e := range evs {
		switch {
		case e.Conn == "consensus" && e.Method == "Commit" && e.Phase == "call":
			if openNew > 0 {
				overlapped++
				report("new-tx-check-in-flight-at-commit", fmt.Sprintf("Commit(%d) was requested while %d new-transaction CheckTx call(s) were still in flight at the application", e.Height, openNew), i)
			}
			mp.mu.Lock()
			need, ok := mp.remain[e.Height]
			mp.mu.Unlock()
			_ = ok
			window = &struct {
				h            int64
				commitRet    bool
				needRechecks int
				seenRechecks int
			}{h: e.Height, needRechecks: need}
			windows++
		case e.Conn == "consensus" && e.Method == "Commit" && e.Phase == "ret":
			if window != nil {
				window.commitRet = true
				// the number of re-checks is known only after Update (which follows Commit): read it now
				mp.mu.Lock()
				window.needRechecks = mp.remain[window.h]
				mp.mu.Unlock()
				if window.needRechecks == 0 {
					window = nil
				}
			}
		case e.Conn == "mempool" && e.Method == "CheckTx":
			isNew := e.Type == "NEW"
			if e.Phase == "call" {
				if isNew {
					nNew++
					openNew++
					if window != nil {
						overlapped++
						report("new-tx-check-before-recheck-finished", fmt.Sprintf("a new-transaction CheckTx reached the application after Commit(%d) was requested and before the %d re-checks of that update had finished (%d seen)", window.h, window.needRechecks, window.seenRechecks), i)
						window = nil // report once per window
					}
				} else {
					nRe++
				}
			} else if e.Phase == "ret" {
				if isNew {
					if openNew > 0 {
						openNew--
					}
				} else if window != nil && window.commitRet {
					window.seenRechecks++
					if window.seenRechecks >= window.needRechecks {
						window = nil
					}
				}
			}
		}
	}
	c.Count("c05b.new_checks", int64(nNew))
	c.Count("c05b.rechecks", int64(nRe))
	c.Count("c05b.commit_windows", int64(windows))
	if windows > 2 && nNew > 10 {
		c.Distinct("c05b", idx, fmt.Sprint(bc), nNew/50, nRe/50)
	}
	if c.WantSample() && idx == 0 {
		k := 30
		if len(evs) < k {
			k = len(evs)
		}
		c.Sample(map[string]interface{}{"stream": "c05b", "case": bc, "history_head": evs[:k], "new_checks": nNew, "rechecks": nRe, "windows": windows})
	}
}

func init() {
	runB = func(c *verdict.Ctx) { runBChild(c) }
}

func runBInProc(c *verdict.Ctx) {
	tmp := verdict.TmpDir("c05b-")
	defer os.RemoveAll(tmp)
	n := c.N(32, 800)
	var wg sync.WaitGroup
	jobs := make(chan int, 16)
	for w := 0; w < 8; w++ { // each run already has 4-16 submitter goroutines
		wg.Add(1)
		go func() {
			defer wg.Done()
			for j := range jobs {
				runOneB(c, j, tmp)
			}
		}()
	}
	from, to := 0, n
	if v := os.Getenv("VERIF_C05B_FROM"); v != "" {
		fmt.Sscan(v, &from)
	}
	if v := os.Getenv("VERIF_C05B_TO"); v != "" {
		fmt.Sscan(v, &to)
	}
	var prog *os.File
	if p := os.Getenv("VERIF_C05B_PROGRESS"); p != "" {
		prog, _ = os.OpenFile(p, os.O_CREATE|os.O_WRONLY|os.O_APPEND, 0o644)
	}
	for i := from; i < to && i < n; i++ {
		if prog != nil {
			fmt.Fprintf(prog, "start %d\n", i)
		}
		jobs <- i
	}
	close(jobs)
	wg.Wait()
}

// runBChild runs the C05b stage in child processes (the race-built binary when
// there is one) and merges their evidence.  The mempool's ABCI callbacks run on
// goroutines of the code under test, so a panic there kills the process: the
// parent then counts the case that was running as inconclusive (a crash is not
// what this property is about) and restarts a child behind it.
func runBChild(c *verdict.Ctx) {
	tmp := verdict.TmpDir("c05b-child-")
	defer os.RemoveAll(tmp)
	bin := os.Getenv("VERIF_RACE_BIN")
	if bin == "" || os.Getenv("VERIF_C05_NORACE") != "" {
		bin = os.Getenv("VERIF_SELF")
	}
	if bin == "" {
		runBInProc(c)
		return
	}
	n := c.N(32, 800)
	from := 0
	races := 0
	const batch = 40 // a crash of the child costs at most this many single-case re-runs
	for attempt := 0; from < n && attempt < 64; attempt++ {
		to := from + batch
		if to > n {
			to = n
		}
		evp := filepath.Join(tmp, fmt.Sprintf("evidence-%d.json", attempt))
		progress := filepath.Join(tmp, fmt.Sprintf("progress-%d", attempt))
		errLog := filepath.Join(tmp, fmt.Sprintf("stderr-%d", attempt))
		ef, _ := os.Create(errLog)
		cmd := exec.Command(bin, "--tier", c.Tier, "C05")
		cmd.Env = append(os.Environ(), "VERIF_C05_STAGE=b", "VERIF_EVIDENCE_PATH="+evp, "VERIF_C05B_PROGRESS="+progress,
			fmt.Sprintf("VERIF_C05B_FROM=%d", from), fmt.Sprintf("VERIF_C05B_TO=%d", to), "GORACE=halt_on_error=0 log_path="+filepath.Join(tmp, fmt.Sprintf("race-%d", attempt)))
		cmd.Stdout, cmd.Stderr = os.Stdout, ef
		err := cmd.Run()
		ef.Close()
		if merr := c.MergeChild(evp, ""); merr == nil {
			from = to // the child ran its batch to the end
			_ = err
		} else {
			// crashed: find the highest case index it had started
			last := from
			b, _ := os.ReadFile(progress)
			for _, l := range strings.Split(string(b), "\n") {
				var k int
				if _, e := fmt.Sscanf(l, "start %d", &k); e == nil && k > last {
					last = k
				}
			}
			eb, _ := os.ReadFile(errLog)
			msg := "no panic line"
			for _, l := range strings.Split(string(eb), "\n") {
				if strings.HasPrefix(l, "panic:") || strings.HasPrefix(l, "fatal error:") {
					msg = l
					break
				}
			}
			if len(msg) > 200 {
				msg = msg[:200]
			}
			c.Count("c05b.child_crashes", 1)
			c.Set(fmt.Sprintf("c05b_child_crash_%d", attempt), map[string]interface{}{"cases_in_flight_up_to": last, "panic": msg})
			// the cases of the crashed batch are run again one per process, so that one crashing case does not
			// take the others' histories with it; only a case that crashes on its own stays inconclusive
			for k := from; k <= last && k < to; k++ {
				evk := filepath.Join(tmp, fmt.Sprintf("evidence-%d-case-%d.json", attempt, k))
				ck := exec.Command(bin, "--tier", c.Tier, "C05")
				ck.Env = append(os.Environ(), "VERIF_C05_STAGE=b", "VERIF_EVIDENCE_PATH="+evk, fmt.Sprintf("VERIF_C05B_FROM=%d", k), fmt.Sprintf("VERIF_C05B_TO=%d", k+1),
					"GORACE=halt_on_error=0 log_path="+filepath.Join(tmp, fmt.Sprintf("race-%d-%d", attempt, k)))
				ck.Stdout = os.Stdout
				_ = ck.Run()
				if c.MergeChild(evk, "") != nil {
					c.Count("c05b.cases_crashing_on_their_own", 1)
					c.Inconclusive(fmt.Sprintf("c05b case %d: child process crashed (%s)", k, msg))
				}
			}
			from = last + 1
		}
		logs, _ := filepath.Glob(filepath.Join(tmp, fmt.Sprintf("race-%d.*", attempt)))
		for _, l := range logs {
			b, _ := os.ReadFile(l)
			races += strings.Count(string(b), "WARNING: DATA RACE")
		}
	}
	c.Count("c05b.race_reports(diagnostic)", int64(races))
}
