package c05

import (
	"os"

	"verif/verdict"
)

var runB func(c *verdict.Ctx)

func Run(c *verdict.Ctx) int {
	c.Level = "fault_enumeration"
	c.Rule = "C05a: one case = a crash plan for a real node in a child process: a first-level crash point taken from the full enumeration (every DB write of block/state/tx-index stores before and after, the fail.Fail points, every application call boundary, every signer call, every WAL fsync, the sign-state temp-file point) of a census run over three heights with a validator addition, removal and two parameter changes, an optional WAL tail cut / garbage tail, 0-2 further crashes during recovery, a final clean run and a handshake; non-trivial = the child actually died at a planned point (exit 87 / fail-test marker); distinct by plan. C05b: see coverage.c05b"
	c.Assume("process-crash semantics: everything handed to the OS survives (plus an explicitly cut or garbled unsynced WAL tail); loss of unsynced DB writes is not modelled",
		"the application journal is written at the ABCI boundary by harness/recapp", "single-validator chain")
	if os.Getenv("VERIF_C05_STAGE") == "b" {
		// child stage: C05b only (race-built binary)
		runBInProc(c)
		return c.Finish(2)
	}
	runA(c)
	if runB != nil {
		runB(c)
	}
	return c.Finish(50)
}
