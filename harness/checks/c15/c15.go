// Package c15: the consensus write-ahead log returns what was durably written,
// in order (DESIGN.md section 3 "C15").
//
// C15a (this file, model.go, live.go, oracle.go): a real BaseWAL with tiny
// head-size / total-size limits is driven with a seeded sequence of Write,
// WriteSync, FlushAndSync and end-height markers; the harness keeps a journal
// of every record (frame position, whether a sync covering it returned nil,
// what the autofile.synced point reported).  A crash is a plain copy of the
// directory (the bufio contents are lost) with the head cut at an offset
// >= the last synced size and optionally one flipped byte in the unsynced
// region.  The copy is started the way a node starts its WAL (open, catchup
// search + decode, repair on DataCorruptionError), read through the group
// reader and through SearchForEndHeight for every height, appended to, crashed
// and started again, up to three times.
//
// C15b (replay equivalence) is added by another file through runReplay.
package c15

import (
	"errors"
	"fmt"
	"math/rand"
	"os"
	"sort"

	"verif/verdict"
)

// runReplay is the C15b stage; set from another file of this package.
var runReplay func(*verdict.Ctx)

func Run(c *verdict.Ctx) int {
	if spec := os.Getenv("VERIF_C15_CHILD"); spec != "" {
		return childMain(c, spec) // a child of runStages: runs cases, reports over the pipe
	}
	c.Level = "fault_enumeration"
	runStorage(c)
	if runReplay != nil {
		runReplay(c)
	}
	return c.Finish(c.N(1000, 20000))
}

const maxCutsPerCrash = 8

type hist struct {
	stream string // "" for the plain histories; names the family otherwise
	c      vctx
	idx    int
	base   string
	rep    *reporter
}

func genCfg(r *rand.Rand) histCfg {
	var cfg histCfg
	if r.Intn(10) != 0 {
		cfg.HeadLimit = int64(200 + r.Intn(3000))
	}
	if r.Intn(4) != 0 {
		if cfg.HeadLimit > 0 {
			cfg.TotalLimit = cfg.HeadLimit * int64(2+r.Intn(6))
		} else {
			cfg.TotalLimit = int64(5000 + r.Intn(60000))
		}
	}
	cfg.Cycles = 1 + r.Intn(3)
	return cfg
}

func genOp(r *rand.Rand) opSpec {
	var op opSpec
	switch x := r.Intn(100); {
	case x < 58:
		op.Kind = opWrite
	case x < 69:
		op.Kind = opWriteSync
	case x < 74:
		op.Kind = opFlush
	case x < 93:
		op.Kind = opEndSync
	default:
		op.Kind = opEndWrite
	}
	switch x := r.Intn(100); {
	case x < 82:
		op.StepLen = r.Intn(40)
	case x < 96:
		op.StepLen = 100 + r.Intn(1500)
	default:
		op.StepLen = 6000 + r.Intn(40000) // larger than what is left in the 40 KiB bufio: spills a partial frame to the file
	}
	if r.Intn(10) == 0 {
		op.Gap = int64(1 + r.Intn(3))
	}
	return op
}

func (hs *hist) fail(err error) {
	var sl stopLineage
	if errors.As(err, &sl) {
		return
	}
	var ie inconclusive
	if errors.As(err, &ie) {
		hs.c.Inconclusive(ie.s)
		return
	}
	hs.c.HarnessError("C15 history %d: %v", hs.idx, err)
}

// crash takes the snapshot and enumerates the outcomes of a power loss.
// The live WAL is stopped afterwards (its directory is not used again).
func (hs *hist) crash(lv *live, r *rand.Rand) (snapshot, []cutPlan, []cutPlan, error) {
	defer lv.stop()
	m := lv.m
	if err := lv.after(nil, 0, false); err != nil { // quiesce once more before looking
		return nil, nil, nil, err
	}
	h := m.head()
	s := h.Synced
	// a crash while FlushAndSync is between Flush and the return of fsync:
	// the buffered frames reached the file, nothing new is acknowledged.
	if h.Logical > h.Size && r.Intn(4) != 0 {
		di := scanDir(lv.dir)
		grow := h.Logical - h.Size
		rot := m.HeadLimit > 0 && h.Logical >= m.HeadLimit
		prune := m.TotalLimit > 0 && di.total+grow >= m.TotalLimit && di.numbered > 0
		if !rot && !prune {
			if err := lv.wal.FlushAndSync(); err != nil {
				return nil, nil, nil, harnessErr{"FlushAndSync: " + err.Error()}
			}
			for _, e := range lv.drain() {
				switch {
				case e.kind == evSynced:
				case e.kind == evRemoved && m.file(e.name) == nil:
					// A pruned index that a reader re-created as an empty file
					// (GroupReader opens with O_CREATE at the stale MinIndex) and the
					// ticker removed again.  group.removed is hit after the unlink and
					// the model ignores such files, so its directory check can be
					// satisfied before the event arrives: it may show up here, late.
					hs.c.Count("empty_recreated_files_removed", 1)
					hs.c.Count("empty_recreated_file_removals_seen_late_at_the_crash", 1)
				default:
					return nil, nil, nil, harnessErr{fmt.Sprintf("unexpected event during the in-flight flush: kind %d file %s size %d (head logical %d, limits %d/%d, directory total %d + %d, numbered %d)",
						e.kind, e.name, e.size, h.Logical, m.HeadLimit, m.TotalLimit, di.total, grow, di.numbered)}
				}
			}
			h.Size = statSize(headPath(lv.dir))
			if h.Size != h.Logical {
				return nil, nil, nil, harnessErr{fmt.Sprintf("after flush the head has %d bytes, model %d", h.Size, h.Logical)}
			}
			m.logf("in-flight FlushAndSync at the crash: %d bytes reached the file, not acknowledged", grow)
			hs.c.Count("crash_during_sync", 1)
		}
	}
	snap, err := snapshotDir(lv.dir)
	lv.stop()
	if err != nil {
		return nil, nil, nil, harnessErr{"snapshot: " + err.Error()}
	}
	for _, f := range m.Files {
		b, ok := snap[f.Name]
		if !ok || int64(len(b)) != f.Size {
			return nil, nil, nil, harnessErr{fmt.Sprintf("snapshot: file %s has %d bytes (present=%v), model %d; files %v; log %v", f.Name, len(b), ok, f.Size, snap.names(), tailOf(m.Log, 14))}
		}
		if why := m.learnFromBytes(f, b); why != "" {
			return nil, nil, nil, harnessErr{"snapshot: " + why}
		}
	}
	d := h.Size
	if s > d {
		return nil, nil, nil, harnessErr{fmt.Sprintf("synced size %d > file size %d", s, d)}
	}
	checkAckedCovered(m, lv.rep)
	if d > s {
		hs.c.Count("crashes_with_unsynced_tail", 1)
	} else {
		hs.c.Count("crashes_without_unsynced_tail", 1)
	}

	// frames (and partial frames) in the unsynced tail
	type span struct{ off, end int64 }
	var spans []span
	for _, i := range h.Recs {
		x := m.J[i]
		if x.State == stPresent && x.Len >= 0 && x.Off+x.Len > s && x.Off < d {
			spans = append(spans, span{x.Off, x.Off + x.Len})
		}
	}
	classify := func(cut int64) string {
		cl := "boundary"
		for _, sp := range spans {
			if cut > sp.off && cut < sp.end {
				switch res := cut - sp.off; {
				case res <= 3:
					cl = fmt.Sprintf("res%d", res)
				case res <= 7:
					cl = "res4-7"
				default:
					cl = "res8+"
				}
			}
		}
		if cut == d {
			cl += "/all"
		}
		if cut == s {
			cl += "/synced-only"
		}
		return cl
	}
	set := map[int64]bool{s: true, d: true}
	forced := map[int64]bool{s: true, d: true}
	if d-s <= 40 {
		for o := s; o <= d; o++ {
			set[o] = true
		}
	} else {
		for _, sp := range spans {
			for _, k := range []int64{0, 1, 2, 3, 4, 5, 6, 7, 8, 9, 12, (sp.end - sp.off) / 2, sp.end - sp.off - 1} {
				if o := sp.off + k; o >= s && o <= d && o < sp.end {
					set[o] = true
				}
			}
		}
		for i := 0; i < 4; i++ {
			set[s+r.Int63n(d-s+1)] = true
		}
	}
	var offs []int64
	for o := range set {
		offs = append(offs, o)
	}
	sort.Slice(offs, func(i, j int) bool { return offs[i] < offs[j] })
	if len(offs) > maxCutsPerCrash {
		// keep s and d, one short residual, then a seeded sample
		var short []int64
		for _, o := range offs {
			if cl := classify(o); cl == "res1" || cl == "res2" || cl == "res3" {
				short = append(short, o)
			}
		}
		if len(short) > 0 {
			forced[short[r.Intn(len(short))]] = true
		}
		r.Shuffle(len(offs), func(i, j int) { offs[i], offs[j] = offs[j], offs[i] })
		var keep []int64
		for o := range forced {
			keep = append(keep, o)
		}
		for _, o := range offs {
			if len(keep) >= maxCutsPerCrash {
				break
			}
			if !forced[o] {
				keep = append(keep, o)
			}
		}
		offs = keep
		sort.Slice(offs, func(i, j int) bool { return offs[i] < offs[j] })
	}
	var plans []cutPlan
	for _, o := range offs {
		p := cutPlan{Cut: o, Class: classify(o), FlipAt: -1}
		if o > s && r.Intn(10) < 3 {
			p.FlipFile, p.FlipAt, p.FlipMask = headName, s+r.Int63n(o-s), byte(1)<<uint(r.Intn(8))
			p.Class += "+flip"
		}
		plans = append(plans, p)
	}
	// synced-region corruption (separate, weaker class)
	var weak []cutPlan
	if r.Intn(2) == 0 {
		var cands []*fileModel
		for _, f := range m.Files {
			lim := f.Size
			if f.Name == headName {
				lim = s
			}
			if lim > 0 {
				cands = append(cands, f)
			}
		}
		if len(cands) > 0 {
			f := cands[r.Intn(len(cands))]
			lim := f.Size
			if f.Name == headName {
				lim = s
			}
			weak = append(weak, cutPlan{Cut: d, Class: "synced-region-flip", FlipFile: f.Name, FlipAt: r.Int63n(lim),
				FlipMask: byte(1) << uint(r.Intn(8)), SyncedCorruption: true})
		}
	}
	return snap, plans, weak, nil
}

// checkAckedCovered: every record whose sync returned nil must lie below the
// size the autofile.synced point reported for its file (otherwise the crash
// model may cut it away: success was returned without an fsync covering it).
func checkAckedCovered(m *model, rep *reporter) bool {
	for _, f := range m.Files {
		for _, i := range f.Recs {
			x := m.J[i]
			if x.Acked && x.State == stPresent && x.Len >= 0 && x.Off+x.Len > f.Synced {
				rep.violation(m, "sync-returned-success-without-covering-fsync", -1,
					fmt.Sprintf("WriteSync / FlushAndSync returned nil for %s, but the largest size an fsync of %s was observed at is %d", x.desc(), f.Name, f.Synced), nil)
				return true
			}
		}
	}
	return false
}

// startFrom materializes one crash outcome and starts a node's WAL on it.
func (hs *hist) startFrom(m *model, snap snapshot, p cutPlan, rep *reporter, skipCatchup bool) (*live, *model, bool, error) {
	m2, s2 := applyCut(m, snap, p)
	dir, err := materialize(hs.base, s2)
	if err != nil {
		return nil, nil, false, harnessErr{"materialize: " + err.Error()}
	}
	return hs.startDir(m2, dir, rep, skipCatchup)
}

func (hs *hist) startDir(m2 *model, dir string, rep *reporter, skipCatchup bool) (*live, *model, bool, error) {
	lv, info, err := nodeStart(m2, dir, rep, skipCatchup)
	if err != nil {
		return nil, nil, false, err
	}
	if hs.stream == idxStream {
		idxObserve(hs.c, m2)
	}
	if info.Repaired {
		hs.c.Count("starts_with_repair", 1)
	}
	if !info.CatchupRan {
		hs.c.Count("starts_without_catchup", 1)
	}
	if info.StartFailed {
		idx := -1
		for _, f := range m2.Files {
			for _, t := range f.Taints {
				if idx < 0 || t.Idx < idx {
					idx = t.Idx
				}
			}
		}
		rep.violation(m2, "node-cannot-start-corruption-persists", idx, "the decode from the newest end-height marker still hits a DataCorruptionError after the one repair State.OnStart attempts: "+info.Note, info)
		hs.c.Count("starts_failed", 1)
		lv.stop()
		return nil, m2, false, nil
	}
	n, err := verifyReaders(lv, rep)
	if err != nil {
		lv.stop()
		return nil, nil, false, err
	}
	return lv, m2, n > 0, nil
}

// probe: one crash outcome, then a short synced append, a second crash that
// loses nothing, and a second start.
func (hs *hist) probe(m *model, snap snapshot, p cutPlan, cyc, pi int, nontrivialBase bool) {
	c := hs.c
	r := c.Rand("probe"+hs.stream, hs.idx*1000+cyc*100+pi)
	rep := hs.rep.child(p)
	rep.weak = p.SyncedCorruption
	skip := !rep.weak && r.Intn(10) == 0
	c.Count("crash_outcomes_explored", 1)
	c.Count("outcome_class_"+p.Class, 1)
	lv, m2, checked, err := hs.startFrom(m, snap, p, rep, skip)
	if err != nil {
		hs.fail(err)
		return
	}
	if lv == nil {
		return
	}
	if c.WantSample() && (pi == 1 || rep.weak) {
		var files []string
		for _, f := range m2.Files {
			files = append(files, fmt.Sprintf("%s:%d", f.Name, f.Size))
		}
		c.Sample(map[string]interface{}{"stream": "history", "index": hs.idx, "config": hs.rep.cfg, "cycle": cyc,
			"crash_outcome": p, "catchup_skipped": skip, "start": lv.info, "journal_records": len(m2.J),
			"files_after_start": files, "history_tail": tailOf(m2.Log, 10)})
	}
	if rep.weak {
		lv.stop()
		if checked {
			c.Distinct("weak", hs.idx, cyc, p.FlipFile, p.FlipAt, p.FlipMask)
		}
		return
	}
	nops := 1 + r.Intn(3)
	for i := 0; i < nops; i++ {
		op := genOp(r)
		if op.StepLen > 2000 {
			op.StepLen = r.Intn(200)
		}
		if i == nops-1 {
			if op.Kind == opWrite || op.Kind == opEndWrite {
				op.Kind = []int{opWriteSync, opEndSync, opFlush}[r.Intn(3)]
			}
		} else if op.Kind != opEndWrite {
			op.Kind = opWrite
		}
		if err := lv.do(op); err != nil {
			lv.stop()
			hs.fail(err)
			return
		}
	}
	// second crash: everything the WAL was given is flushed and synced, so a
	// kill loses nothing and the directory itself is the post-crash state
	if err := lv.after(nil, 0, false); err != nil {
		lv.stop()
		hs.fail(err)
		return
	}
	h := m2.head()
	dir := lv.dir
	flushed := h.Size == h.Logical && int64(lv.wal.Group().Buffered()) == 0
	lv.stop()
	if !flushed {
		hs.fail(harnessErr{fmt.Sprintf("probe append not flushed: size %d logical %d", h.Size, h.Logical)})
		return
	}
	if checkAckedCovered(m2, rep) {
		return
	}
	p2 := cutPlan{Cut: h.Size, Class: "after-synced-append", FlipAt: -1}
	rep2 := rep.child(p2)
	m3 := m2.clone()
	m3.logf("CRASH cycle=%d: killed with nothing buffered and everything synced (head %d bytes)", m3.Cycle, h.Size)
	m3.Cycle++
	for _, f := range m3.Files {
		f.Synced = f.Size
	}
	lv3, _, checked2, err := hs.startDir(m3, dir, rep2, false)
	if err != nil {
		hs.fail(err)
		return
	}
	if lv3 != nil {
		lv3.stop()
	}
	if (checked || checked2) && nontrivialBase {
		c.Distinct("probe"+hs.stream, hs.idx, cyc, p.Cut, p.Class, p.FlipAt, p.FlipMask, skip)
	}
}

func runHistory(c vctx, idx int, base string) {
	r := c.Rand("history", idx)
	cfg := genCfg(r)
	hb, err := os.MkdirTemp(base, fmt.Sprintf("h%d-", idx))
	if err != nil {
		c.HarnessError("mkdir: %v", err)
		return
	}
	defer os.RemoveAll(hb)
	hs := &hist{c: c, idx: idx, base: hb}
	hs.rep = &reporter{c: c, hist: idx, cfg: cfg}
	m := newModel(cfg.HeadLimit, cfg.TotalLimit)
	defer attachSink(m, "history", idx)()
	dir, err := os.MkdirTemp(hb, "d")
	if err != nil {
		c.HarnessError("mkdir: %v", err)
		return
	}
	lv, _, err := nodeStart(m, dir, hs.rep, false)
	if err != nil {
		hs.fail(err)
		return
	}
	c.Eval()
	hs.cycles(r, cfg, m, lv)
}

// cycles runs the operate / crash / probe / restart loop on a started WAL.
func (hs *hist) cycles(r *rand.Rand, cfg histCfg, m *model, lv *live) {
	c, idx := hs.c, hs.idx
	// one history in six stays at the initial height: no end-height marker is
	// ever written by the harness, so a restart replays from marker 0
	initialOnly := r.Intn(6) == 0
	if initialOnly {
		c.Count("histories_staying_at_the_initial_height", 1)
	}
	gen := func() opSpec {
		op := genOp(r)
		if initialOnly {
			switch op.Kind {
			case opEndSync:
				op.Kind = opWriteSync
			case opEndWrite:
				op.Kind = opWrite
			}
		}
		return op
	}
	// WALs written before OnStart was repaired have an EndHeight{0} at the top
	// of every head that was found empty at a start, also behind rotated files.
	// The API writes any height; such a marker is written here now and then,
	// but only once the chain has left the initial height (a durable marker
	// > 0 exists), where marker 0 is no longer what a replay searches.
	legacyZero := func() error {
		if initialOnly || len(m.Files) < 2 || m.head().Logical != 0 || r.Intn(3) != 0 {
			return nil
		}
		for _, x := range m.J {
			if x.End && x.H > 0 && x.Acked && m.onDisk(x) {
				c.Count("legacy_marker_0_written_at_the_top_of_a_head", 1)
				return lv.do(opSpec{Kind: opEndZeroSync})
			}
		}
		return nil
	}
	for cyc := 0; cyc < cfg.Cycles; cyc++ {
		nops := 3 + r.Intn(28)
		for i := 0; i < nops; i++ {
			if err := legacyZero(); err != nil {
				lv.stop()
				hs.fail(err)
				return
			}
			if err := lv.do(gen()); err != nil {
				lv.stop()
				hs.fail(err)
				return
			}
		}
		// in a third of the cycles the last sync before the crash is a rotation (the cut
		// at the synced size then leaves an empty head next to rotated files): keep
		// writing synced records until the head has just been rotated away
		afterRotation := false
		if m.HeadLimit > 0 && m.HeadLimit < hugeLimit && r.Intn(3) == 0 {
			for i := 0; i < 300 && !(len(m.Files) > 1 && m.head().Logical == 0); i++ {
				op := gen()
				if op.Kind == opWrite || op.Kind == opEndWrite {
					op.Kind = opWriteSync
				}
				if op.StepLen > 2000 {
					op.StepLen = r.Intn(400)
				}
				if err := lv.do(op); err != nil {
					lv.stop()
					hs.fail(err)
					return
				}
				nops++
			}
			afterRotation = len(m.Files) > 1 && m.head().Logical == 0
			if afterRotation {
				c.Count("crashes_right_after_a_rotation", 1)
			}
		}
		if r.Intn(10) < 7 { // leave unsynced records in the buffer so that the crash has a tail
			extra := 1 + r.Intn(3)
			for i := 0; i < extra; i++ {
				op := gen()
				if op.Kind != opEndWrite {
					op.Kind = opWrite
				}
				if err := lv.do(op); err != nil {
					lv.stop()
					hs.fail(err)
					return
				}
			}
			nops += extra
		}
		c.Count("operations", int64(nops))
		snap, plans, weak, err := hs.crash(lv, r)
		if err != nil {
			hs.fail(err)
			return
		}
		h := m.head()
		discarded := false
		for _, x := range m.J {
			if x.State == stDiscarded {
				discarded = true
			}
		}
		nontrivial := int64(len(snap[headName])) > h.Synced || len(m.Files) > 1 || discarded
		main := -1
		if cyc < cfg.Cycles-1 {
			main = r.Intn(len(plans))
		}
		for i, p := range plans {
			if i != main {
				hs.probe(m, snap, p, cyc, i, nontrivial)
			}
		}
		for i, p := range weak {
			hs.probe(m, snap, p, cyc, 50+i, true)
		}
		if main < 0 {
			break
		}
		p := plans[main]
		rep := hs.rep.child(p)
		c.Count("crash_outcomes_explored", 1)
		c.Count("outcome_class_"+p.Class, 1)
		lv2, m2, checked, err := hs.startFrom(m, snap, p, rep, r.Intn(10) == 0)
		if err != nil {
			hs.fail(err)
			return
		}
		if lv2 == nil {
			return
		}
		if checked && nontrivial {
			c.Distinct("main"+hs.stream, idx, cyc, p.Cut, p.Class, p.FlipAt, p.FlipMask)
		}
		if rep.dirty {
			lv2.stop()
			return
		}
		hs.rep, m, lv = rep, m2, lv2
	}
}

func runStorage(c *verdict.Ctx) {
	c.Rule = "C15a: a case is one crash outcome of a seeded WAL history (history index, crash cycle, cut offset and its class relative to the frame boundaries of the unsynced tail, flipped byte, catchup on/off), started the way a node starts its WAL, read back through the group reader and through SearchForEndHeight for every height, appended to with a sync, killed and started again; it is non-trivial if the crash left an unsynced tail or the group had rotated / pruned files, and at least one record whose sync had returned nil was confirmed in what the readers returned"
	c.Assume(
		"crash model: what fsync covered survives; of the bytes written after the last fsync any prefix survives, possibly with one flipped byte; rename and unlink of whole files are durable; the content of the bufio writer is lost",
		"the autofile.synced point reports the file size right after fsync returned; a record counts as durably written only if a WriteSync / FlushAndSync covering it returned nil",
		"repair: consensus/state.go repairWalFile is unexported; the harness re-implements its loop literally (Decode until the first error, Encode each message) with the exported WALDecoder / WALEncoder and performs the surrounding Stop / CopyFile / reopen steps of State.OnStart itself",
		"the node's height at a restart is taken to be one above the newest end-height marker SearchForEndHeight can find (the marker is written with WriteSync before the state is saved)",
		"frame timestamps come from tmtime.Now inside BaseWAL.Write, so frame lengths vary by a few bytes between runs; cut offsets are chosen relative to frame boundaries",
		"protobuf types of proto/tendermint/consensus are shared with the implementation; CRC-32C framing is parsed by the harness's own parser",
		"'any later reader' is a reader that calls Decode again after a DataCorruptionError (as SearchForEndHeight does with IgnoreDataCorruptionErrors); the node's own catchup decode is strict and its DataCorruptionError triggers the repair",
		"a single flipped byte inside the synced region is a separate class with the weaker oracle only (nothing returned that was not written, in order)",
		"a successful sync is taken to cover every record handed to the WAL since it was opened; unsynced records that merely survived an earlier crash are never demanded",
	)
	c.Assume("rotation-race family: the operation sequence is seeded, the interleaving of the writer with the group's ticker and with the RotateFile goroutine is left to the scheduler (counts vary between runs); RotateFile is exported and takes the group mutex like the ticker's call, so a rotation between any two Group.Write calls is a schedule the node can produce",
		"power-loss image: of every file only the prefix survives that the autofile.synced point (hit right after fsync returned, rotation included) reported; the bytes behind it are dropped or overwritten with garbage",
		"every case of C15a runs in a child process (the same binary, re-executed): a panic of the code under test in one of its own goroutines ends that child and is reported as a finding, the remaining cases continue in a fresh child")
	runStages(c)
}
