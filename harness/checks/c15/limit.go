package c15

// C15a, family "records at the writer's size limit".  The encoder refuses a
// record whose encoded payload exceeds a limit; everything it accepts must be
// readable.  The limit is found by asking the encoder (binary search on the
// length of a round-step event's step string), not taken from a constant.
// Records with a payload of exactly limit-1, limit, limit+1 (refused at write
// time) and each of the last 64 sizes the writer accepts are written and
// synced, each followed by ordinary records and an end-height marker; the WAL
// is killed with everything synced and started again, and the usual oracles
// decide: whatever the synced write accepted is returned by the readers, in
// order and identical, and SearchForEndHeight finds the markers behind it.
// Byte-exact sizes need a fixed timestamp, so these records go through the
// exported WALEncoder on the WAL's own group followed by FlushAndSync (what
// BaseWAL.WriteSync does with tmtime.Now); a few cases use BaseWAL.WriteSync
// itself with sizes just below the limit.

import (
	"fmt"
	"os"
	"sync"
	"time"

	"github.com/tendermint/tendermint/consensus"
	"github.com/tendermint/tendermint/types"
)

const limitStream = "writer-limit"

type countWriter struct{ n int }

func (w *countWriter) Write(p []byte) (int, error) { w.n += len(p); return len(p), nil }

var limitFixedTime = time.Unix(1790000000, 123456789).UTC()

// payloadOf returns the encoded payload size (frame minus the 8-byte header)
// of a round-step event with a step of n bytes, or the encoder's refusal.
func payloadOf(n int, id int64, round int32, t time.Time) (int, error) {
	var w countWriter
	err := consensus.NewWALEncoder(&w).Encode(&consensus.TimedWALMessage{Time: t,
		Msg: types.EventDataRoundState{Height: id, Round: round, Step: stepString(id, n)}})
	if err != nil {
		return 0, err
	}
	return w.n - 8, nil
}

var (
	limitOnce    sync.Once
	limitPayload int // the largest payload the encoder accepts
	limitStep    int // the step length that gives it (for ids of 7 digits, round 0, limitFixedTime)
	limitErr     error
)

func findWriterLimit() {
	const id = 1000000
	lo, hi := 1000, 64<<20 // accepted .. (assumed) refused
	if _, err := payloadOf(lo, id, 0, limitFixedTime); err != nil {
		limitErr = fmt.Errorf("the encoder refuses a %d-byte step: %v", lo, err)
		return
	}
	if _, err := payloadOf(hi, id, 0, limitFixedTime); err == nil {
		limitErr = fmt.Errorf("the encoder accepts a %d-byte step: no writer limit found", hi)
		return
	}
	for hi-lo > 1 {
		mid := (lo + hi) / 2
		if _, err := payloadOf(mid, id, 0, limitFixedTime); err == nil {
			lo = mid
		} else {
			hi = mid
		}
	}
	limitStep = lo
	limitPayload, _ = payloadOf(lo, id, 0, limitFixedTime)
}

// limitSizes: offsets from the writer limit, 3 per case: +1 (refused), 0, -1 first, then the sweep.
func limitOffsets(k int) []int {
	all := []int{1, 0, -1}
	for d := 2; d <= 64; d++ {
		all = append(all, -d)
	}
	all = append(all, 0, 1, -24, -25) // the limit once more, and the constant's neighbourhood
	var out []int
	for i := 3 * k; i < 3*k+3 && i < len(all); i++ {
		out = append(out, all[i])
	}
	return out
}

const limitFixedCases = 24 // 24*3 >= 3 + 63 + 4

func runLimitCase(c vctx, idx int, base string) {
	limitOnce.Do(findWriterLimit)
	if limitErr != nil {
		c.HarnessError("C15 writer-limit: %v", limitErr)
		return
	}
	r := c.Rand(limitStream, idx)
	cfg := histCfg{Cycles: 1}
	if idx%2 == 1 {
		cfg.HeadLimit = int64(3000 + r.Intn(5000)) // every big record is rotated away right after its sync
	}
	hb, err := os.MkdirTemp(base, fmt.Sprintf("l%d-", idx))
	if err != nil {
		c.HarnessError("mkdir: %v", err)
		return
	}
	defer os.RemoveAll(hb)
	hs := &hist{stream: limitStream, c: c, idx: idx, base: hb}
	hs.rep = &reporter{c: c, hist: idx, cfg: cfg, stream: limitStream}
	m := newModel(cfg.HeadLimit, 0)
	defer attachSink(m, limitStream, idx)()
	dir, err := os.MkdirTemp(hb, "d")
	if err != nil {
		c.HarnessError("mkdir: %v", err)
		return
	}
	lv, _, err := nodeStart(m, dir, hs.rep, false)
	if err != nil {
		hs.fail(err)
		return
	}
	c.Eval()
	c.Count("limit_cases", 1)
	do := func(op opSpec) bool {
		if err := lv.do(op); err != nil {
			lv.stop()
			hs.fail(err)
			return false
		}
		return true
	}
	ordinary := func() bool {
		for n := 1 + r.Intn(3); n > 0; n-- {
			op := genOp(r)
			if op.StepLen > 1500 {
				op.StepLen = r.Intn(300)
			}
			if !do(op) {
				return false
			}
		}
		return do(opSpec{Kind: opEndSync})
	}
	if !ordinary() {
		return
	}
	var offs []int
	fixed := idx%(limitFixedCases+8) < limitFixedCases
	if fixed {
		offs = limitOffsets(idx % (limitFixedCases + 8))
	} else {
		offs = []int{-r.Intn(3), -r.Intn(8)} // through BaseWAL.WriteSync: the real timestamp can only make it shorter
	}
	for _, off := range offs {
		// ids have 7 digits and the round is the cycle (0): same overhead as in findWriterLimit
		op := opSpec{Kind: opWriteSync, StepLen: limitStep + off, MayRefuse: true}
		if fixed {
			op.FixedTime = limitFixedTime
		} else {
			// tmtime.Now has up to 9 digits of nanoseconds and today's seconds: size the step for the largest timestamp
			p, err := payloadOf(limitStep, m.NextID, 0, time.Unix(time.Now().Unix(), 999999999).UTC())
			if err != nil {
				op.StepLen -= 8
			} else {
				op.StepLen -= p - limitPayload
			}
		}
		refusedBefore, nrec := lv.refused, len(m.J)
		if !do(op) {
			return
		}
		switch {
		case lv.refused > refusedBefore:
			c.Count("limit_records_refused_at_write", 1)
			if off <= 0 {
				c.HarnessError("C15 writer-limit %d: a record %d bytes below/at the limit the encoder reported was refused", idx, -off)
			}
		case len(m.J) > nrec:
			x := m.J[nrec]
			d := int(x.Len) - 8 - limitPayload
			c.Count("limit_records_accepted", 1)
			switch {
			case d == 0:
				c.Count("limit_records_exactly_at_the_writer_limit", 1)
			case d > 0:
				c.Count("limit_records_accepted_above_the_reported_limit", 1)
			case d >= -64:
				c.Count("limit_records_within_64_bytes_below_the_limit", 1)
			}
			if !fixed {
				c.Count("limit_records_through_BaseWAL_WriteSync", 1)
			}
		}
		if !ordinary() {
			return
		}
	}
	// kill with everything synced, start again, read
	if err := lv.after(nil, 0, false); err != nil {
		lv.stop()
		hs.fail(err)
		return
	}
	h := m.head()
	flushed := h.Size == h.Logical
	lv.stop()
	if !flushed {
		hs.fail(harnessErr{"writer-limit case not flushed at the end"})
		return
	}
	if checkAckedCovered(m, hs.rep) {
		return
	}
	p := cutPlan{Cut: h.Size, Class: "killed-after-synced-records-at-the-writer-limit", FlipAt: -1}
	rep := hs.rep.child(p)
	m2 := m.clone()
	m2.logf("CRASH cycle=%d: killed with nothing buffered and everything synced", m2.Cycle)
	m2.Cycle++
	for _, f := range m2.Files {
		f.Synced = f.Size
	}
	lv2, _, checked, err := hs.startDir(m2, dir, rep, false)
	if err != nil {
		hs.fail(err)
		return
	}
	if lv2 != nil {
		lv2.stop()
	}
	if checked {
		c.Distinct(limitStream, idx, fmt.Sprint(offs), cfg.HeadLimit)
	}
}
