package c15

// C15a, family "records larger than the group's buffered writer".  The group
// writes through a bufio.Writer of 4096*10 = 40960 bytes; a frame larger than
// that, written while the buffer is empty (the normal state right after a
// synced write), is passed straight through to the file and the buffer stays
// empty.  Consensus logs 64 kB block parts this way.  Here such records (and
// frames of 40959 / 40960 / 40961 bytes, and small ones) go through
// BaseWAL.WriteSync, through Write + FlushAndSync, and with the periodic flush
// ticking, and after EVERY sync that returned nil a POWER-LOSS image is taken:
// every file keeps only the prefix the autofile.synced point reported as
// fsynced (dropped, or kept but overwritten with garbage).  The image is
// started the way a node starts its WAL and every acknowledged record is
// demanded from the readers.  A second sub-family does the same with raw
// payloads on a bare autofile.Group.

import (
	"bytes"
	"fmt"
	"io"
	"math/rand"
	"os"
	"path/filepath"
	"time"

	"github.com/tendermint/tendermint/consensus"
	"github.com/tendermint/tendermint/libs/autofile"
	"github.com/tendermint/tendermint/types"
)

const bufioSize = 4096 * 10

// stepLenFor returns the Step length that makes the EventDataRoundState frame
// total bytes long (for a timestamp with 9-digit nanoseconds; the real frame
// may be up to 4 bytes shorter).
func stepLenFor(total int, id int64, round int32) int {
	s := total - 60
	if s < 0 {
		s = 0
	}
	for i := 0; i < 6; i++ {
		var b bytes.Buffer
		_ = consensus.NewWALEncoder(&b).Encode(&consensus.TimedWALMessage{Time: time.Unix(1790000000, 999999999).UTC(),
			Msg: types.EventDataRoundState{Height: id, Round: round, Step: stepString(id, s)}})
		if b.Len() == total {
			break
		}
		s += total - b.Len()
		if s < 0 {
			return 0
		}
	}
	return s
}

func bigSize(r *rand.Rand) int {
	switch x := r.Intn(100); {
	case x < 20:
		return 30 + r.Intn(300)
	case x < 50:
		return 40957 + r.Intn(8) // around the buffer size: 40959, 40960, 40961
	case x < 65:
		return 65536 + r.Intn(200)
	case x < 85:
		return 100000 + r.Intn(80000)
	default:
		return 20000 + r.Intn(40000)
	}
}

func runBigCase(c vctx, idx int, base string) {
	r := c.Rand("bigrec", idx)
	cfg := histCfg{Cycles: 1}
	switch r.Intn(3) {
	case 1:
		cfg.HeadLimit = int64(3000 + r.Intn(5000))
	case 2:
		cfg.HeadLimit = int64(60000 + r.Intn(300000))
	}
	hb, err := os.MkdirTemp(base, fmt.Sprintf("b%d-", idx))
	if err != nil {
		c.HarnessError("mkdir: %v", err)
		return
	}
	defer os.RemoveAll(hb)
	hs := &hist{c: c, idx: idx, base: hb}
	hs.rep = &reporter{c: c, hist: idx, cfg: cfg, stream: "bigrec"}
	m := newModel(cfg.HeadLimit, 0)
	defer attachSink(m, "bigrec", idx)()
	if r.Intn(3) == 0 {
		// the periodic flush of BaseWAL runs concurrently.  It moves buffered
		// bytes to the file at moments of its own, so a rotation could follow at
		// any time and the harness could no longer attribute offsets: no head
		// limit in these cases.
		m.FlushEvery = 2 * time.Millisecond
		m.HeadLimit, cfg.HeadLimit = 0, 0
		hs.rep.cfg = cfg
		c.Count("big_cases_with_periodic_flush", 1)
	}
	dir, err := os.MkdirTemp(hb, "d")
	if err != nil {
		c.HarnessError("mkdir: %v", err)
		return
	}
	lv, _, err := nodeStart(m, dir, hs.rep, false)
	if err != nil {
		hs.fail(err)
		return
	}
	defer func() { lv.stop() }()
	c.Eval()
	images := 0
	step := func(op opSpec) bool {
		h := m.head()
		bufBefore := h.Logical - h.Size
		se := lv.syncEvents
		nrec := len(m.J)
		if err := lv.do(op); err != nil {
			hs.fail(err)
			return false
		}
		if len(m.J) > nrec {
			x := m.J[nrec]
			switch x.Len {
			case bufioSize - 1, bufioSize, bufioSize + 1:
				c.Count(fmt.Sprintf("big_frames_of_%d_bytes", x.Len), 1)
			}
			if x.Len > bufioSize {
				c.Count("big_frames_larger_than_bufio", 1)
				if bufBefore == 0 {
					c.Count("big_frames_larger_than_bufio_written_with_empty_buffer", 1)
				}
			}
			if x.Part {
				c.Count("big_block_part_messages", 1)
			}
		}
		synced := op.Kind == opWriteSync || op.Kind == opEndSync || op.Kind == opPartSync || op.Kind == opFlush
		if !synced {
			return true
		}
		c.Count("big_synced_writes_returned_nil", 1)
		if lv.syncEvents > se {
			c.Count("big_synced_writes_with_fsync_hook_hit", 1)
		}
		covered := true
		for _, f := range m.Files {
			for _, i := range f.Recs {
				x := m.J[i]
				if x.Acked && x.State == stPresent && x.Len >= 0 && x.Off+x.Len > f.Synced {
					covered = false
				}
			}
		}
		if covered {
			c.Count("big_synced_writes_covered_by_fsync", 1)
		}
		// power-loss image after every successful synced write
		checkAckedCovered(m, hs.rep)
		snap, err := snapshotDir(lv.dir)
		if err != nil {
			hs.fail(harnessErr{"snapshot: " + err.Error()})
			return false
		}
		p := cutPlan{PowerLoss: true, Garble: images%2 == 1, Class: "power-loss-after-synced-write", FlipAt: -1}
		images++
		rep := hs.rep.child(p)
		lv2, m2, checked, err := hs.startFrom(m, snap, p, rep, false)
		if err != nil {
			hs.fail(err)
			return false
		}
		c.Count("big_power_loss_images", 1)
		if p.Garble {
			c.Count("big_power_loss_images_garbled", 1)
		}
		if m2 != nil && len(m2.AckedLost) > 0 {
			x := m2.J[m2.AckedLost[0]]
			rep.violation(m2, "reader-misses-synced-records-after-power-loss", -1,
				fmt.Sprintf("%d record(s) whose sync had returned nil are not in the power-loss image (every file cut to the prefix the autofile.synced point reported as fsynced), so no reader can return them; first: %s", len(m2.AckedLost), x.desc()), nil)
		}
		if lv2 != nil {
			lv2.stop()
		}
		if checked {
			c.Distinct("bigrec", idx, images, len(m.J), p.Garble)
		}
		return true
	}
	nops := 6 + r.Intn(7)
	for i := 0; i < nops; i++ {
		size := bigSize(r)
		var ops []opSpec
		switch x := r.Intn(100); {
		case x < 40:
			ops = []opSpec{{Kind: opWriteSync}}
		case x < 60:
			ops = []opSpec{{Kind: opPartSync}}
		case x < 72:
			ops = []opSpec{{Kind: opWrite}, {Kind: opFlush}}
		case x < 80:
			ops = []opSpec{{Kind: opPartWrite}, {Kind: opFlush}}
		case x < 90:
			ops = []opSpec{{Kind: opEndSync}}
		default:
			ops = []opSpec{{Kind: opWrite}}
		}
		for _, op := range ops {
			switch op.Kind {
			case opWrite, opWriteSync:
				op.StepLen = stepLenFor(size, m.NextID, int32(m.Cycle))
			case opPartWrite, opPartSync:
				switch y := r.Intn(4); y {
				case 0:
					op.StepLen = int(types.BlockPartSizeBytes) // 65536
				case 1:
					op.StepLen = 40860 + r.Intn(40) // frame around the buffer size
				default:
					op.StepLen = size
					if op.StepLen > int(types.BlockPartSizeBytes) {
						op.StepLen = int(types.BlockPartSizeBytes)
					}
				}
			}
			if !step(op) {
				return
			}
		}
	}
}

// ---------------------------------------------------------------- bare autofile.Group

type rawFile struct {
	Name   string `json:"name"`
	Start  int64  `json:"starts_at_byte"`
	Synced int64  `json:"fsynced_prefix"`
}

func runRawCase(c vctx, idx int, base string) {
	r := c.Rand("rawgroup", idx)
	dir, err := os.MkdirTemp(base, fmt.Sprintf("g%d-", idx))
	if err != nil {
		c.HarnessError("mkdir: %v", err)
		return
	}
	defer os.RemoveAll(dir)
	live := filepath.Join(dir, "live")
	_ = os.Mkdir(live, 0o700)
	w := &watch{}
	registry.Lock()
	registry.m[live] = w
	registry.Unlock()
	defer func() {
		registry.Lock()
		delete(registry.m, live)
		registry.Unlock()
	}()
	g, err := autofile.OpenGroup(headPath(live), autofile.GroupHeadSizeLimit(0), autofile.GroupTotalSizeLimit(0), autofile.GroupCheckDuration(time.Hour))
	if err != nil {
		c.HarnessError("raw %d: OpenGroup: %v", idx, err)
		return
	}
	if err := g.Start(); err != nil {
		releaseAutoFile(g.Head)
		c.HarnessError("raw %d: Start: %v", idx, err)
		return
	}
	defer func() {
		_ = g.Stop()
		g.Wait()
		g.Close()
		releaseAutoFile(g.Head)
	}()
	c.Eval()
	var written []byte
	var acked int64
	files := []*rawFile{{Name: headName}}
	var log []string
	pump := func() {
		w.mu.Lock()
		ev := w.ev
		w.ev = nil
		w.mu.Unlock()
		for _, e := range ev {
			h := files[len(files)-1]
			switch e.kind {
			case evSynced:
				if e.size > h.Synced {
					h.Synced = e.size
				}
			case evRotate:
				h.Name = e.name
				files = append(files, &rawFile{Name: headName, Start: h.Start + e.size})
			}
		}
	}
	nops := 6 + r.Intn(8)
	for i := 0; i < nops; i++ {
		var n int
		switch x := r.Intn(100); {
		case x < 20:
			n = 1 + r.Intn(300)
		case x < 50:
			n = bufioSize - 1 + r.Intn(3)
		case x < 65:
			n = 65536
		case x < 85:
			n = 100000 + r.Intn(60000)
		default:
			n = 1 + r.Intn(bufioSize)
		}
		p := make([]byte, n)
		for k := range p {
			p[k] = byte(idx + i*31 + k*7 + k>>8)
		}
		empty := g.Buffered() == 0
		if nn, err := g.Write(p); err != nil || nn != n {
			c.HarnessError("raw %d: Group.Write(%d) = %d, %v", idx, n, nn, err)
			return
		}
		written = append(written, p...)
		log = append(log, fmt.Sprintf("Write %d bytes (buffer empty before: %v)", n, empty))
		c.Count("raw_payloads_written", 1)
		if n > bufioSize && empty {
			c.Count("raw_payloads_larger_than_bufio_written_with_empty_buffer", 1)
		}
		switch n {
		case bufioSize - 1, bufioSize, bufioSize + 1, 65536:
			c.Count(fmt.Sprintf("raw_payloads_of_%d_bytes", n), 1)
		}
		switch x := r.Intn(100); {
		case x < 12:
			g.RotateFile()
			log = append(log, "RotateFile")
			pump()
			continue
		case x < 30:
			continue // left unsynced
		}
		if err := g.FlushAndSync(); err != nil {
			c.HarnessError("raw %d: FlushAndSync: %v", idx, err)
			return
		}
		acked = int64(len(written))
		log = append(log, fmt.Sprintf("FlushAndSync -> nil (acknowledged %d bytes)", acked))
		pump()
		c.Count("raw_synced_writes_returned_nil", 1)
		// power-loss image
		img, err := os.MkdirTemp(dir, "img")
		if err != nil {
			c.HarnessError("mkdir: %v", err)
			return
		}
		var durable int64
		contiguous := true
		for _, f := range files {
			b, err := os.ReadFile(filepath.Join(live, f.Name))
			if err != nil && !os.IsNotExist(err) {
				c.HarnessError("raw %d: %v", idx, err)
				return
			}
			keep := f.Synced
			if keep > int64(len(b)) {
				keep = int64(len(b))
			}
			if contiguous {
				durable = f.Start + keep
			}
			if keep < int64(len(b)) {
				contiguous = false
			}
			if keep > 0 || f.Name != headName {
				if err := os.WriteFile(filepath.Join(img, f.Name), b[:keep], 0o600); err != nil {
					c.HarnessError("raw %d: %v", idx, err)
					return
				}
			}
		}
		wit := func() interface{} {
			return map[string]interface{}{"stream": "rawgroup", "index": idx, "files": files, "acknowledged_bytes": acked,
				"written_bytes": len(written), "operations": log}
		}
		if durable >= acked {
			c.Count("raw_synced_writes_covered_by_fsync", 1)
		} else {
			c.Violation("synced-write-not-fsynced", fmt.Sprintf("autofile.Group: FlushAndSync returned nil with %d bytes written, but the fsyncs observed at the autofile.synced point cover only the first %d", acked, durable), wit())
			return
		}
		g2, err := autofile.OpenGroup(headPath(img))
		if err != nil {
			c.HarnessError("raw %d: reopen: %v", idx, err)
			return
		}
		gr, err := g2.NewReader(g2.MinIndex())
		var got []byte
		if err == nil {
			got, err = io.ReadAll(gr)
			gr.Close()
		}
		g2.Close()
		releaseAutoFile(g2.Head)
		if err != nil {
			c.HarnessError("raw %d: reading the image: %v", idx, err)
			return
		}
		c.Count("raw_power_loss_images", 1)
		if !bytes.HasPrefix(written, got) {
			c.Violation("raw-group-reader-returns-bytes-not-written", fmt.Sprintf("the group reader over the power-loss image returned %d bytes that are not a prefix of the %d bytes written", len(got), len(written)), wit())
			return
		}
		if int64(len(got)) < acked {
			c.Violation("reader-misses-synced-records-after-power-loss", fmt.Sprintf("autofile.Group: the reader over the power-loss image returned %d bytes; FlushAndSync had returned nil for %d", len(got), acked), wit())
			return
		}
		_ = os.RemoveAll(img)
		c.Distinct("rawgroup", idx, i, n)
	}
}
