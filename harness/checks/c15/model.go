package c15

// The harness-side model of one WAL directory: a journal of every record the
// harness (or BaseWAL.OnStart) handed to the WAL, where each record lives
// (file, offset, length), whether a sync that covered it returned nil (Acked),
// and what the autofile.synced point reported (fileModel.Synced).  The frame
// parser below is written from the format comment of WALEncoder
// ("4 bytes CRC sum + 4 bytes length + arbitrary-length value", CRC-32C,
// big endian), not by calling WALDecoder.

import (
	"encoding/binary"
	"fmt"
	"hash/crc32"
	"os"
	"sort"
	"strings"
	"time"

	tmcons "github.com/tendermint/tendermint/proto/tendermint/consensus"
)

var castagnoli = crc32.MakeTable(crc32.Castagnoli)

const headName = "wal"

// record states
const (
	stPresent    = iota // in the buffer or on disk, intact as far as the model knows
	stLostCut           // never reached the disk, or cut away by the crash (always unsynced)
	stDamaged           // on disk but hit by the injected byte flip
	stDiscarded         // its whole file was removed by the total-size limit
	stRepairDrop        // dropped by the node's repair procedure
)

var stNames = []string{"present", "lost-in-crash", "damaged-by-flip", "file-discarded", "dropped-by-repair"}

type rec struct {
	Idx    int
	End    bool // EndHeightMessage, else EventDataRoundState (or, with Part, msgInfo{BlockPartMessage})
	Part   bool // msgInfo{BlockPartMessage{Height: H, Round: R, Part{Bytes: Step}}}
	H      int64
	R      int32
	Step   string
	Auto   bool // EndHeightMessage{0} written by BaseWAL.OnStart on an empty head
	Cycle  int
	File   string
	Off    int64
	Len    int64 // -1 until known
	Acked  bool  // a WriteSync / FlushAndSync / Start covering it returned nil
	State  int
	TimeNs int64
	TimeOK bool // frame was read back from disk, TimeNs valid
}

func (r *rec) desc() string {
	k := fmt.Sprintf("RoundState{id=%d,round=%d,steplen=%d}", r.H, r.R, len(r.Step))
	if r.Part {
		k = fmt.Sprintf("MsgInfo{BlockPart{id=%d,round=%d,bytes=%d}}", r.H, r.R, len(r.Step))
	}
	if r.End {
		k = fmt.Sprintf("EndHeight{%d}", r.H)
		if r.Auto {
			k += "(auto)"
		}
	}
	return fmt.Sprintf("#%d %s cycle=%d file=%s off=%d len=%d acked=%v state=%s", r.Idx, k, r.Cycle, r.File, r.Off, r.Len, r.Acked, stNames[r.State])
}

type fileModel struct {
	Name    string
	Recs    []int
	Size    int64    // on-disk size
	Logical int64    // on-disk + buffered (head only)
	Synced  int64    // largest size reported by autofile.synced for this file (or the size it had when the directory was (re)opened)
	Taints  []*taint // undecodable bytes that were in this file when records were appended behind them
}

type taint struct {
	Idx      int    `json:"first_record_behind"` // first journal index appended behind the garbage
	At       int64  `json:"garbage_offset"`
	Residual int64  `json:"garbage_bytes"` // bytes after the last decodable frame of the head when appending started
	Cause    string `json:"cause"`         // short-tail | catchup-not-run | damaged-frame
	Why      string `json:"why"`
}

type model struct {
	J          []*rec
	Files      []*fileModel // oldest .. head (head is always last, named "wal")
	HeadLimit  int64
	TotalLimit int64
	NextID     int64
	NextH      int64
	Cycle      int
	Gone       map[string]bool // names of files discarded by the total-size limit
	CheckEvery time.Duration   // group check interval (0: 1 ms); an hour or more means: no ticker
	sink       *os.File        // write-ahead copy of Log for the parent process (see proc.go)
	FlushEvery time.Duration   // BaseWAL periodic flush interval (0: one hour, i.e. never)
	AckedLost  []int           // acknowledged records a power-loss image does not contain
	Log        []string        // human readable history for witnesses
}

func newModel(headLimit, totalLimit int64) *model {
	return &model{HeadLimit: headLimit, TotalLimit: totalLimit, NextID: 1000000, NextH: 1,
		Files: []*fileModel{{Name: headName}}, Gone: map[string]bool{}}
}

func (m *model) head() *fileModel { return m.Files[len(m.Files)-1] }

func (m *model) file(name string) *fileModel {
	for _, f := range m.Files {
		if f.Name == name {
			return f
		}
	}
	return nil
}

func (m *model) logf(format string, a ...interface{}) {
	line := fmt.Sprintf(format, a...)
	if len(m.Log) < 400 {
		m.Log = append(m.Log, line)
	}
	if m.sink != nil {
		if len(line) > 300 {
			line = line[:300]
		}
		m.sink.WriteString(line + "\n")
	}
}

func (m *model) clone() *model {
	n := *m
	n.J = make([]*rec, len(m.J))
	for i, r := range m.J {
		c := *r
		n.J[i] = &c
	}
	n.Files = make([]*fileModel, len(m.Files))
	for i, f := range m.Files {
		c := *f
		c.Recs = append([]int{}, f.Recs...)
		c.Taints = append([]*taint{}, f.Taints...)
		n.Files[i] = &c
	}
	n.Log = append([]string{}, m.Log...)
	n.AckedLost = append([]int{}, m.AckedLost...)
	n.Gone = map[string]bool{}
	for k := range m.Gone {
		n.Gone[k] = true
	}
	return &n
}

// ---------------------------------------------------------------- frames

type canon struct {
	End    bool
	Part   bool
	H      int64
	R      int32
	Step   string
	TimeNs int64
}

// parseFrame parses one frame at off; ok=false if the bytes at off are not a
// complete frame with a matching CRC-32C.
func parseFrame(b []byte, off int64) (data []byte, end int64, ok bool) {
	if off < 0 || int64(len(b))-off < 8 {
		return nil, off, false
	}
	crc := binary.BigEndian.Uint32(b[off : off+4])
	ln := int64(binary.BigEndian.Uint32(b[off+4 : off+8]))
	if ln == 0 || off+8+ln > int64(len(b)) {
		return nil, off, false
	}
	data = b[off+8 : off+8+ln]
	if crc32.Checksum(data, castagnoli) != crc {
		return nil, off, false
	}
	return data, off + 8 + ln, true
}

func decodeData(data []byte) (canon, bool) {
	var pb tmcons.TimedWALMessage
	if err := pb.Unmarshal(data); err != nil || pb.Msg == nil {
		return canon{}, false
	}
	c := canon{TimeNs: pb.Time.UnixNano()}
	switch s := pb.Msg.Sum.(type) {
	case *tmcons.WALMessage_EndHeight:
		c.End, c.H = true, s.EndHeight.Height
	default:
		return canonOfProto(pb.Msg, c.TimeNs)
	}
	return c, true
}

// canonOfProto covers the kinds the harness writes.
func canonOfProto(w *tmcons.WALMessage, timeNs int64) (canon, bool) {
	c := canon{TimeNs: timeNs}
	if w == nil {
		return c, false
	}
	switch s := w.Sum.(type) {
	case *tmcons.WALMessage_EndHeight:
		c.End, c.H = true, s.EndHeight.Height
	case *tmcons.WALMessage_EventDataRoundState:
		c.H, c.R, c.Step = s.EventDataRoundState.Height, s.EventDataRoundState.Round, s.EventDataRoundState.Step
	case *tmcons.WALMessage_MsgInfo:
		bp, ok := s.MsgInfo.Msg.Sum.(*tmcons.Message_BlockPart)
		if !ok || bp.BlockPart == nil {
			return c, false
		}
		c.Part, c.H, c.R, c.Step = true, bp.BlockPart.Height, bp.BlockPart.Round, string(bp.BlockPart.Part.Bytes)
	default:
		return c, false
	}
	return c, true
}

// cleanPrefix returns the length of the longest prefix of b that is a
// sequence of complete frames, and the decoded frames.
func cleanPrefix(b []byte) (int64, []canon, []int64) {
	var off int64
	var out []canon
	var offs []int64
	for {
		data, end, ok := parseFrame(b, off)
		if !ok {
			return off, out, offs
		}
		c, ok := decodeData(data)
		if !ok {
			return off, out, offs
		}
		out = append(out, c)
		offs = append(offs, off)
		off = end
	}
}

func (r *rec) sameMsg(c canon) bool {
	return r.End == c.End && r.Part == c.Part && r.H == c.H && r.R == c.R && r.Step == c.Step
}

func (r *rec) matches(c canon) bool {
	return r.sameMsg(c) && (!r.TimeOK || r.TimeNs == c.TimeNs)
}

// ---------------------------------------------------------------- snapshots

// snapshot = the files of a WAL directory as plain byte slices.
type snapshot map[string][]byte

func (s snapshot) names() []string {
	var out []string
	for k := range s {
		out = append(out, k)
	}
	sort.Strings(out)
	return out
}

func isNumbered(name string) bool {
	if !strings.HasPrefix(name, headName+".") {
		return false
	}
	suf := name[len(headName)+1:]
	if len(suf) < 3 {
		return false
	}
	for _, ch := range suf {
		if ch < '0' || ch > '9' {
			return false
		}
	}
	return true
}

// learnFromBytes reads back, for every present record of file f that lies
// wholly inside content and was not read back yet, its frame; it returns a
// description of the first disagreement between disk and journal.
func (m *model) learnFromBytes(f *fileModel, content []byte) string {
	for _, i := range f.Recs {
		r := m.J[i]
		if r.State != stPresent || r.TimeOK || r.Len < 0 || r.Off+r.Len > int64(len(content)) {
			continue
		}
		data, end, ok := parseFrame(content, r.Off)
		if !ok || end != r.Off+r.Len {
			return fmt.Sprintf("no intact frame of %d bytes at %s:%d for %s", r.Len, f.Name, r.Off, r.desc())
		}
		c, ok := decodeData(data)
		if !ok || !r.sameMsg(c) {
			return fmt.Sprintf("frame at %s:%d decodes to %+v, journal has %s", f.Name, r.Off, c, r.desc())
		}
		r.TimeNs, r.TimeOK = c.TimeNs, true
	}
	return ""
}

// cutPlan is one crash outcome: the head keeps Cut bytes; optionally one byte
// at FlipAt (inside the unsynced region of the head, or anywhere for the
// synced-corruption class) is XORed with FlipMask.
type cutPlan struct {
	Cut              int64  `json:"cut"`
	Class            string `json:"class"`
	FlipFile         string `json:"flip_file,omitempty"`
	FlipAt           int64  `json:"flip_at"`
	FlipMask         byte   `json:"flip_mask,omitempty"`
	SyncedCorruption bool   `json:"synced_corruption,omitempty"`
	// PowerLoss: every file (rotated ones too) keeps only the prefix that the
	// autofile.synced point reported as fsynced; Garble: the bytes behind it
	// stay but are overwritten with garbage instead of being dropped.
	PowerLoss bool `json:"power_loss,omitempty"`
	Garble    bool `json:"garble,omitempty"`
}

// applyCut returns the model and the directory content after the crash.
func applyCut(m *model, snap snapshot, p cutPlan) (*model, snapshot) {
	n := m.clone()
	out := snapshot{}
	for k, v := range snap {
		out[k] = append([]byte{}, v...)
	}
	if p.PowerLoss {
		n.AckedLost = nil
		for _, f := range n.Files {
			b := out[f.Name]
			keep := f.Synced
			if keep > int64(len(b)) {
				keep = int64(len(b))
			}
			if p.Garble {
				for i := keep; i < int64(len(b)); i++ {
					b[i] = byte(37*i + 11) // no frame survives: the CRC fields are overwritten too
				}
			} else {
				b = b[:keep]
			}
			out[f.Name] = b
			for _, i := range f.Recs {
				r := n.J[i]
				if r.State == stPresent && (r.Len < 0 || r.Off+r.Len > keep) {
					r.State = stLostCut
					if r.Acked {
						n.AckedLost = append(n.AckedLost, r.Idx)
					}
				}
			}
			f.Size = int64(len(b))
			if f.Name == headName {
				f.Logical = f.Size
			}
			f.Synced = f.Size
		}
		n.logf("POWER LOSS cycle=%d: every file cut to its fsynced prefix (garble=%v)", n.Cycle, p.Garble)
		n.Cycle++
		return n, out
	}
	h := n.head()
	hb := out[headName]
	if p.Cut < int64(len(hb)) {
		hb = hb[:p.Cut]
	}
	out[headName] = hb
	size := int64(len(hb))
	for _, i := range h.Recs {
		r := n.J[i]
		if r.State != stPresent {
			continue
		}
		if r.Len < 0 || r.Off+r.Len > size {
			r.State = stLostCut
		}
	}
	h.Size, h.Logical, h.Synced = size, size, size
	// rotated files are complete and synced
	for _, f := range n.Files[:len(n.Files)-1] {
		f.Synced = f.Size
	}
	if p.FlipMask != 0 {
		b := out[p.FlipFile]
		if p.FlipAt >= 0 && p.FlipAt < int64(len(b)) {
			b[p.FlipAt] ^= p.FlipMask
			if f := n.file(p.FlipFile); f != nil {
				for _, i := range f.Recs {
					r := n.J[i]
					if r.State == stPresent && r.Len >= 0 && p.FlipAt >= r.Off && p.FlipAt < r.Off+r.Len {
						r.State = stDamaged
					}
				}
			}
		}
	}
	n.logf("CRASH cycle=%d: head cut to %d bytes (%s) flip=%s@%d^%#x", n.Cycle, size, p.Class, p.FlipFile, p.FlipAt, p.FlipMask)
	n.Cycle++
	return n, out
}

// taintFor returns the garbage a record was appended behind, if any.  For a
// record dropped by the repair the first garbage of the file is what the
// repair stopped at; for a reader, garbage that is not a whole frame breaks
// the framing of everything behind it, so a short tail takes precedence.
func (m *model) taintFor(idx int, kind string) *taint {
	if idx < 0 || idx >= len(m.J) {
		return nil
	}
	f := m.file(m.J[idx].File)
	if f == nil {
		return nil
	}
	var cands []*taint
	for _, t := range f.Taints {
		if t.Idx <= idx {
			cands = append(cands, t)
		}
	}
	if len(cands) == 0 {
		return nil
	}
	if kind == "synced-record-dropped-by-repair" {
		return cands[0]
	}
	for _, want := range []string{"short-tail", "catchup-not-run"} {
		for _, t := range cands {
			if t.Cause == want {
				return t
			}
		}
	}
	return cands[0]
}

// taintOnPath returns undecodable bytes that a sequential reader passes on its
// way to record idx: the reader starts behind journal record lo (-1: at the
// beginning of the oldest file), the bytes lie in a file that is still on disk
// - the record's own file or any earlier one, a GroupReader runs on into the
// next files - and the first record appended behind them (t.Idx) is at or
// before idx and behind lo.  Bytes that are not a whole frame break the framing
// of everything behind them, in later files too.
func (m *model) taintOnPath(lo, idx int) *taint {
	if idx < 0 || idx >= len(m.J) {
		return nil
	}
	var cands []*taint
	for _, f := range m.Files {
		for _, t := range f.Taints {
			if t.Idx > lo && t.Idx <= idx {
				cands = append(cands, t)
			}
		}
	}
	if len(cands) == 0 {
		return nil
	}
	for _, want := range []string{"short-tail", "catchup-not-run", "tail-kept-after-catchup"} {
		for _, t := range cands {
			if t.Cause == want {
				return t
			}
		}
	}
	return cands[0]
}
