package c15

// C15a, family "total-size limit with unusual size relations".  A first run
// with the group's ticker off and head rotation effectively disabled (huge
// head limit) builds 0-3 rotated files through explicit Group().RotateFile()
// calls plus a head.  Then the limits are changed between the runs - total
// limit at or below the head limit, a head that is by itself at or over the
// total limit, a total limit just at / below the current total, non-group
// files that share the head's name prefix and are counted by the group's size
// accounting (wal.CORRUPTED as a repair leaves it, wal.bak, wal.12, walrus) -
// and the directory is started with a 1 ms check interval, so the
// ticker-driven processTicks path prunes.  The existing oracles decide
// (readers, searches, "discarded other than the oldest file"), plus: the head
// file is never removed, replaced or shortened by the size limit.  The normal
// operate / crash / restart cycles continue on the directory afterwards.

import (
	"bytes"
	"fmt"
	"os"
	"time"
)

const sizeStream = "size-limit"

const hugeLimit = int64(1) << 40

func runSizeCase(c vctx, idx int, base string) {
	r := c.Rand(sizeStream, idx)
	hb, err := os.MkdirTemp(base, fmt.Sprintf("s%d-", idx))
	if err != nil {
		c.HarnessError("mkdir: %v", err)
		return
	}
	defer os.RemoveAll(hb)
	hs := &hist{stream: sizeStream, c: c, idx: idx, base: hb}
	hs.rep = &reporter{c: c, hist: idx, cfg: histCfg{HeadLimit: hugeLimit}, stream: sizeStream}
	// ---- first run: no ticker, explicit rotations
	m := newModel(hugeLimit, 0)
	m.CheckEvery = time.Hour
	defer attachSink(m, sizeStream, idx)()
	dir, err := os.MkdirTemp(hb, "d")
	if err != nil {
		c.HarnessError("mkdir: %v", err)
		return
	}
	lv, _, err := nodeStart(m, dir, hs.rep, false)
	if err != nil {
		hs.fail(err)
		return
	}
	k := 1 + r.Intn(3)
	if r.Intn(8) == 0 {
		k = 0
	}
	emptyHead := k > 0 && r.Intn(7) == 0
	do := func(op opSpec) bool {
		if err := lv.do(op); err != nil {
			lv.stop()
			hs.fail(err)
			return false
		}
		return true
	}
	for f := 0; f <= k; f++ {
		if f == k && emptyHead {
			break
		}
		for n := 1 + r.Intn(7); n > 0; n-- {
			op := genOp(r)
			if op.StepLen > 1500 {
				op.StepLen = r.Intn(600)
			}
			if !do(op) {
				return
			}
		}
		if f < k && !do(opSpec{Kind: opRotate}) {
			return
		}
	}
	if !do(opSpec{Kind: opFlush}) {
		return
	}
	snap, err := snapshotDir(lv.dir)
	lv.stop()
	if err != nil {
		hs.fail(harnessErr{"snapshot: " + err.Error()})
		return
	}
	if len(m.Files)-1 != k {
		c.HarnessError("C15 size-limit %d: %d rotated files after %d RotateFile calls", idx, len(m.Files)-1, k)
		return
	}
	headSize := int64(len(snap[headName]))
	var total int64
	for _, b := range snap {
		total += int64(len(b))
	}
	// ---- between the runs: other files with the head's prefix, new limits
	var foreign int64
	if r.Intn(5) < 2 {
		names := []string{headName + ".CORRUPTED", headName + ".bak", headName + ".12", headName + "rus"}
		for n := 1 + r.Intn(2); n > 0; n-- {
			var size int64
			switch r.Intn(3) {
			case 0:
				size = int64(r.Intn(200))
			case 1:
				size = total/2 + int64(r.Intn(500))
			default:
				size = total + int64(r.Intn(3000))
			}
			b := make([]byte, size)
			r.Read(b)
			snap[names[r.Intn(len(names))]] = b
		}
		for name, b := range snap {
			if m.file(name) == nil {
				foreign += int64(len(b))
			}
		}
		c.Count("size_cases_with_other_files_sharing_the_head_prefix", 1)
	}
	cfg := histCfg{Cycles: 1 + r.Intn(2)}
	variant := r.Intn(5)
	switch variant {
	case 0: // total limit at or below the head limit
		cfg.HeadLimit = int64(300 + r.Intn(2000))
		cfg.TotalLimit = 1 + r.Int63n(cfg.HeadLimit)
		if r.Intn(4) == 0 {
			cfg.TotalLimit = cfg.HeadLimit
		}
	case 1: // the head alone is at or over the total limit, and never rotates
		cfg.HeadLimit = hugeLimit
		cfg.TotalLimit = 1 + int64(r.Intn(200))
		if headSize > 1 {
			cfg.TotalLimit = headSize - r.Int63n(headSize/2+1)
		}
	case 2: // limit lowered below what is there
		cfg.TotalLimit = 1 + (total+foreign)*int64(30+r.Intn(61))/100
		cfg.HeadLimit = hugeLimit
		if r.Intn(2) == 0 {
			cfg.HeadLimit = int64(300 + r.Intn(2000))
		}
	case 3: // exactly at the boundary of the comparison
		cfg.HeadLimit = hugeLimit
		cfg.TotalLimit = total + foreign + int64(r.Intn(3)) - 1
		if cfg.TotalLimit < 1 {
			cfg.TotalLimit = 1
		}
	default: // ordinary relation, small limits
		cfg.HeadLimit = int64(200 + r.Intn(1200))
		cfg.TotalLimit = cfg.HeadLimit * int64(2+r.Intn(4))
	}
	c.Count(fmt.Sprintf("size_cases_variant_%d", variant), 1)
	c.Count(fmt.Sprintf("size_cases_with_%d_rotated_files_at_the_size_check", k), 1)
	if headSize >= cfg.TotalLimit {
		c.Count("size_cases_with_head_at_or_over_total_limit", 1)
	}
	if cfg.TotalLimit <= cfg.HeadLimit && cfg.HeadLimit != hugeLimit {
		c.Count("size_cases_with_total_limit_at_or_below_head_limit", 1)
	}
	m.HeadLimit, m.TotalLimit, m.CheckEvery = cfg.HeadLimit, cfg.TotalLimit, 0
	m.logf("BETWEEN THE RUNS: limits now head=%d total=%d; directory has %d bytes in group files (head %d) and %d bytes in other files with the head's prefix", cfg.HeadLimit, cfg.TotalLimit, total, headSize, foreign)
	c.Count("size_cases", 1)
	c.Eval()
	p := cutPlan{Cut: headSize, Class: "limits-changed-between-runs", FlipAt: -1}
	rep := hs.rep.child(p)
	rep.cfg = cfg
	before := len(m.Files)
	lv2, m2, _, err := hs.startFrom(m, snap, p, rep, false)
	if err != nil {
		hs.fail(err)
		return
	}
	if lv2 == nil || m2 == nil {
		return
	}
	c.Count("size_files_pruned_by_the_ticker", int64(before-len(m2.Files)))
	// the head survives every pruning, with its content
	now, err := os.ReadFile(headPath(lv2.dir))
	if lv2.rotSeen > 0 {
		c.Count("size_head_rotated_at_the_start", 1) // over the head limit: legitimately moved to an indexed file
	} else if (err != nil && headSize > 0) || !bytes.HasPrefix(now, snap[headName]) {
		rep.violation(m2, "size-limit-removed-head-file", -1,
			fmt.Sprintf("after the start with the new limits the head file does not begin with the %d bytes it had (now %d bytes, err %v)", headSize, len(now), err), nil)
		lv2.stop()
		return
	}
	c.Count("size_head_checked_after_pruning", 1)
	if rep.dirty {
		lv2.stop()
		return
	}
	c.Distinct(sizeStream, idx, variant, k, cfg.HeadLimit, cfg.TotalLimit, foreign)
	hs.rep = rep
	hs.cycles(r, cfg, m2, lv2)
}
