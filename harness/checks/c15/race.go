package c15

// C15a, family "rotation racing with writes".  The histories of c15.go wait
// after every operation until the group's ticker has nothing left to do, so a
// rotation never competes with a write for the group mutex.  Here one writer
// issues Write / WriteSync / end-height markers back to back, with no
// settling, against a 1 ms ticker and a small head-size limit, and in the
// other half of the runs (ticker off) a second goroutine calls
// Group().RotateFile() whenever something is buffered (a rotation at any moment between two Group.Write calls is a
// schedule the ticker itself can produce for a suitable limit).  Then the WAL
// is flushed, synced and stopped cleanly - every record is acknowledged, there
// is no crash - and the verdict is taken from the files and from fresh readers:
//
//	(0) every surviving file, parsed by the harness's own frame parser, is a
//	    sequence of whole frames, and the files together hold exactly a suffix
//	    of the journal (the whole journal if nothing was pruned);
//	(1) a reader opened at ANY file index returns exactly the records of the
//	    files >= that index, in order, without a DataCorruptionError;
//	(2) that includes the new oldest index after the total-size limit pruned;
//	(3) strict SearchForEndHeight (IgnoreDataCorruptionErrors=false) finds
//	    every marker whose file survives, and none that is not on disk.

import (
	"fmt"
	"io"
	"math/rand"
	"os"
	"path/filepath"
	"runtime"
	"sort"
	"strconv"
	"sync"
	"sync/atomic"
	"time"

	"github.com/tendermint/tendermint/consensus"
	"github.com/tendermint/tendermint/libs/autofile"
	"github.com/tendermint/tendermint/types"
)

type raceCfg struct {
	HeadLimit  int64 `json:"head_size_limit"`
	TotalLimit int64 `json:"total_size_limit"`
	Ops        int   `json:"operations"`
	Rotator    bool  `json:"second_goroutine_calls_RotateFile"`
}

type raceFile struct {
	Name  string `json:"name"`
	Index int    `json:"index"`
	Size  int64  `json:"size"`
	Clean int64  `json:"bytes_that_are_whole_frames"`
	Recs  int    `json:"records"`
}

type raceWitness struct {
	Stream string      `json:"stream"`
	Index  int         `json:"index"`
	Cfg    raceCfg     `json:"config"`
	Files  []raceFile  `json:"files"`
	Detail interface{} `json:"detail,omitempty"`
	Note   string      `json:"note"`
}

type raceRec struct {
	End  bool
	H    int64
	R    int32
	Step string
}

func (r raceRec) String() string {
	if r.End {
		return fmt.Sprintf("EndHeight{%d}", r.H)
	}
	return fmt.Sprintf("RoundState{id=%d,steplen=%d}", r.H, len(r.Step))
}

func (r raceRec) is(c canon) bool {
	return r.End == c.End && r.H == c.H && r.R == c.R && r.Step == c.Step
}

func runRaceCase(c vctx, idx int, base string) {
	r := c.Rand("rotation-race", idx)
	cfg := raceCfg{HeadLimit: int64(150 + r.Intn(2500)), Ops: 40 + r.Intn(120), Rotator: r.Intn(2) == 0}
	if r.Intn(3) == 0 {
		cfg.TotalLimit = cfg.HeadLimit * int64(3+r.Intn(6))
	}
	// The RotateFile goroutine never runs together with the group's ticker: the
	// ticker's checkHeadSizeLimit calls Head.Size(), which reopens the head
	// without the group mutex; interleaved with a RotateFile of ANOTHER
	// goroutine that leaves the AutoFile holding the renamed file (later
	// writes go to the rotated file, the next RotateFile panics in Rename).
	// In the node only the ticker goroutine rotates, so that schedule is not
	// the node's; with the rotator the ticker is off (and with it the pruning).
	period := tick
	if cfg.Rotator {
		period = time.Hour
		cfg.TotalLimit = 0
	}
	dir, err := os.MkdirTemp(base, fmt.Sprintf("r%d-", idx))
	if err != nil {
		c.HarnessError("mkdir: %v", err)
		return
	}
	defer os.RemoveAll(dir)
	hp := headPath(dir)
	wal, err := consensus.NewWAL(hp, autofile.GroupHeadSizeLimit(cfg.HeadLimit),
		autofile.GroupTotalSizeLimit(cfg.TotalLimit), autofile.GroupCheckDuration(period))
	if err != nil {
		c.HarnessError("race %d: NewWAL: %v", idx, err)
		return
	}
	wal.SetFlushInterval(time.Hour)
	if err := wal.Start(); err != nil {
		releaseAutoFile(wal.Group().Head)
		c.HarnessError("race %d: Start: %v", idx, err)
		return
	}
	c.Eval()
	journal := []raceRec{{End: true, H: 0}} // written by OnStart with WriteSync
	g := wal.Group()

	var stop int32
	var manual int64
	var wg sync.WaitGroup
	if cfg.Rotator {
		rr := rand.New(rand.NewSource(c.SubSeed("rotation-race-rotator", idx)))
		wg.Add(1)
		go func() {
			defer wg.Done()
			for atomic.LoadInt32(&stop) == 0 && manual < 60 {
				if g.Buffered() > 0 {
					g.RotateFile()
					manual++
					for k := rr.Intn(400); k > 0; k-- {
						runtime.Gosched()
					}
				} else {
					runtime.Gosched()
				}
			}
		}()
	}

	var opErr error
	nextH, id := int64(1), int64(5000000)
	for i := 0; i < cfg.Ops && opErr == nil; i++ {
		var rec raceRec
		sync := false
		switch x := r.Intn(100); {
		case x < 45:
		case x < 75:
			sync = true
		case x < 95:
			rec.End, sync = true, true
		default:
			rec.End = true
		}
		var msg consensus.WALMessage
		if rec.End {
			rec.H = nextH
			nextH++
			msg = consensus.EndHeightMessage{Height: rec.H}
		} else {
			n := r.Intn(60)
			switch y := r.Intn(100); {
			case y < 25:
				n = 200 + r.Intn(1500)
			case y < 32:
				n = 3000 + r.Intn(9000)
			}
			id++
			rec.H, rec.R, rec.Step = id, int32(i), stepString(id, n)
			msg = types.EventDataRoundState{Height: rec.H, Round: rec.R, Step: rec.Step}
		}
		journal = append(journal, rec)
		if sync {
			opErr = wal.WriteSync(msg)
		} else {
			opErr = wal.Write(msg)
		}
	}
	if opErr == nil {
		opErr = wal.FlushAndSync() // acknowledges everything written
	}
	atomic.StoreInt32(&stop, 1)
	wg.Wait()
	_ = wal.Stop()
	wal.Wait()
	releaseAutoFile(g.Head)
	if opErr != nil {
		c.HarnessError("race %d: WAL operation failed: %v", idx, opErr)
		return
	}
	c.Count("race_manual_rotations", manual)

	// ---- the files, by the harness's own parser
	ents, err := os.ReadDir(dir)
	if err != nil {
		c.HarnessError("race %d: %v", idx, err)
		return
	}
	var files []raceFile
	for _, e := range ents {
		n := e.Name()
		if isNumbered(n) {
			k, _ := strconv.Atoi(n[len(headName)+1:])
			files = append(files, raceFile{Name: n, Index: k})
		}
	}
	sort.Slice(files, func(i, j int) bool { return files[i].Index < files[j].Index })
	headIdx := 0
	if len(files) > 0 {
		headIdx = files[len(files)-1].Index + 1
	}
	files = append(files, raceFile{Name: headName, Index: headIdx})
	// whole-frame check per file (diagnostic) and the parse of the files taken together
	var concat []byte
	fileStart := make([]int64, len(files)+1)
	split := -1
	for i := range files {
		b, err := os.ReadFile(filepath.Join(dir, files[i].Name))
		if err != nil && !(os.IsNotExist(err) && files[i].Name == headName) {
			c.HarnessError("race %d: %v", idx, err)
			return
		}
		p, recs, _ := cleanPrefix(b)
		files[i].Size, files[i].Clean, files[i].Recs = int64(len(b)), p, len(recs)
		if p != int64(len(b)) && split < 0 {
			split = i
		}
		fileStart[i] = int64(len(concat))
		concat = append(concat, b...)
	}
	fileStart[len(files)] = int64(len(concat))
	c.Count("race_files_checked", int64(len(files)))
	c.Count("race_rotations", int64(headIdx))
	pruned := cfg.TotalLimit > 0 // whole oldest files may be gone (all numbered ones too)
	if files[0].Index > 0 {
		c.Count("race_runs_with_pruning", 1)
	}
	note := "the interleaving of the writer with the ticker / rotator is not replayable; re-running the index repeats the operations"
	if split >= 0 {
		c.Count("race_files_not_whole_frames", 1)
		f := files[split]
		note = fmt.Sprintf("file %s has %d bytes of which only the first %d are whole frames: a rotation fell inside a record; ", f.Name, f.Size, f.Clean) + note
	}
	wit := func(detail interface{}) raceWitness {
		return raceWitness{Stream: "rotation-race", Index: idx, Cfg: cfg, Files: files, Detail: detail, Note: note}
	}
	cp, all, offs := cleanPrefix(concat)
	exact := cp == int64(len(concat))
	starts := make([]int, len(files)+1)
	if exact {
		// starts[i] = first record that begins in file i or later
		k := 0
		for i := range files {
			for k < len(all) && offs[k] < fileStart[i] {
				k++
			}
			starts[i] = k
		}
		starts[len(files)] = len(all)
		off := len(journal) - len(all)
		bad := off < 0 || (off > 0 && !pruned)
		for i := 0; !bad && i < len(all); i++ {
			bad = !journal[off+i].is(all[i])
		}
		if bad {
			c.Violation("rotation-race-files-are-not-a-suffix-of-the-journal",
				fmt.Sprintf("%d records were written and acknowledged; the surviving files hold %d records which are not the last %d of them in order (pruning possible=%v)", len(journal), len(all), len(all), pruned), wit(nil))
			return
		}
	} else if !pruned {
		c.Violation("rotation-race-files-are-not-a-suffix-of-the-journal",
			fmt.Sprintf("after a clean stop the files taken together are %d bytes of which only the first %d are whole frames, although nothing was pruned", len(concat), cp), wit(nil))
		return
	}
	// !exact && pruned: the oldest surviving file begins inside a record; the
	// reader from the oldest index below decides (it must not hit corruption)

	// ---- fresh readers on the directory (no Start: no ticker, no new marker)
	rw, err := consensus.NewWAL(hp, autofile.GroupHeadSizeLimit(0), autofile.GroupTotalSizeLimit(0))
	if err != nil {
		c.HarnessError("race %d: reopen: %v", idx, err)
		return
	}
	rg := rw.Group()
	defer releaseAutoFile(rg.Head)
	if rg.MinIndex() != files[0].Index || rg.MaxIndex() != headIdx {
		c.HarnessError("race %d: group indexes %d..%d, directory %d..%d", idx, rg.MinIndex(), rg.MaxIndex(), files[0].Index, headIdx)
		return
	}
	for fi, f := range files {
		gr, err := rg.NewReader(f.Index)
		if err != nil {
			c.HarnessError("race %d: NewReader(%d): %v", idx, f.Index, err)
			return
		}
		var got []canon
		var rerr error
		dec := consensus.NewWALDecoder(gr)
		for {
			msg, e := dec.Decode()
			if e == io.EOF {
				break
			}
			if e != nil {
				rerr = e
				break
			}
			cn, ok := toCanon(msg)
			if !ok {
				rerr = fmt.Errorf("foreign message %T", msg.Msg)
				break
			}
			got = append(got, cn)
		}
		gr.Close()
		ok := rerr == nil
		nwant := -1
		if exact {
			nwant = len(all) - starts[fi]
		}
		if ok && exact {
			want := all[starts[fi]:]
			ok = len(got) == len(want)
			for i := 0; ok && i < len(got); i++ {
				ok = got[i].End == want[i].End && got[i].H == want[i].H && got[i].R == want[i].R && got[i].Step == want[i].Step
			}
		}
		c.Count("race_readers_opened", 1)
		if !ok {
			if cfg.Rotator {
				c.Count("race_reader_failures_in_runs_with_RotateFile_goroutine", 1)
			} else {
				c.Count("race_reader_failures_in_runs_with_ticker_only", 1)
			}
			key := "reader-opened-at-file-index-misses-synced-records"
			if fi == 0 && pruned {
				key = "reader-from-oldest-file-after-pruning-misses-synced-records"
			}
			c.Violation(key, fmt.Sprintf("a reader opened at file index %d (%s) returned %d records and ended with %v; every record was flushed, synced and acknowledged before a clean stop, the records that begin in the files from there on number %d (-1: not computable, the oldest file begins inside a record)", f.Index, f.Name, len(got), rerr, nwant), wit(nil))
			return
		}
	}
	// ---- searches
	if !exact {
		return
	}
	onDisk := map[int64]bool{}
	for _, cn := range all {
		if cn.End {
			onDisk[cn.H] = true
		}
	}
	for _, jr := range journal {
		if !jr.End {
			continue
		}
		for _, ignore := range []bool{false, true} {
			rd, found, serr := rw.SearchForEndHeight(jr.H, &consensus.WALSearchOptions{IgnoreDataCorruptionErrors: ignore})
			if rd != nil {
				rd.Close()
			}
			c.Count("race_searches", 1)
			if serr != nil || found != onDisk[jr.H] {
				c.Violation("search-after-rotation-race-wrong",
					fmt.Sprintf("SearchForEndHeight(%d, IgnoreDataCorruptionErrors=%v) = found %v, err %v; the marker was written with a sync that returned nil and is on disk: %v", jr.H, ignore, found, serr, onDisk[jr.H]), wit(nil))
				return
			}
		}
	}
	if headIdx > 0 {
		c.Distinct("race", idx, cfg.HeadLimit, cfg.TotalLimit, cfg.Ops, cfg.Rotator)
	}
}
