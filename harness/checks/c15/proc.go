package c15

// Process isolation of C15a.  Every case starts real tickers of the code under
// test (autofile.Group.processTicks, AutoFile's close routine, BaseWAL's flush
// ticks); a panic in one of those goroutines cannot be recovered and kills the
// process.  So the cases run in a child process - the same binary re-executed
// with VERIF_C15_CHILD - which reports everything it would have told the
// verdict.Ctx over a pipe.  If the child dies with a Go panic the parent
// reports process-crash@<innermost tendermint frame> with the operations of the
// cases that were in flight, re-runs those cases one by one to attribute the
// crash, and continues with the rest in a fresh child.

import (
	"bufio"
	"encoding/json"
	"fmt"
	"math/rand"
	"os"
	"os/exec"
	"path/filepath"
	"runtime"
	"sort"
	"strings"
	"sync"
	"time"

	"github.com/tendermint/tendermint/libs/verifhook"

	"verif/verdict"
)

// vctx is the part of verdict.Ctx the cases use.
type vctx interface {
	Rand(stream string, idx int) *rand.Rand
	SubSeed(stream string, idx int) int64
	N(quick, thorough int) int
	Eval()
	Distinct(descriptor ...interface{}) bool
	Count(name string, n int64)
	Counter(name string) int64
	Sample(v interface{})
	WantSample() bool
	Inconclusive(why string)
	HarnessError(format string, a ...interface{})
	Violation(key, what string, witness interface{}) bool
	Violations() int
}

func caseFn(stream string) func(c vctx, idx int, base string) {
	switch stream {
	case "history":
		return runHistory
	case "rotation-race":
		return runRaceCase
	case "bigrec":
		return runBigCase
	case "rawgroup":
		return runRawCase
	case idxStream:
		return runIdxCase
	case sizeStream:
		return runSizeCase
	case limitStream:
		return runLimitCase
	}
	return nil
}

type job struct {
	Stream string `json:"s"`
	Index  int    `json:"i"`
}

func (j job) String() string { return fmt.Sprintf("%s/%d", j.Stream, j.Index) }

type childSpec struct {
	Jobs    []job  `json:"jobs"`
	Workers int    `json:"workers"`
	Base    string `json:"base"`
}

// pmsg is one line of the child -> parent protocol.
type pmsg struct {
	Op     string           `json:"op"` // begin end eval distinct counts viol inc herr sample done
	Job    *job             `json:"job,omitempty"`
	D      []string         `json:"d,omitempty"`
	Counts map[string]int64 `json:"counts,omitempty"`
	Key    string           `json:"key,omitempty"`
	What   string           `json:"what,omitempty"`
	W      json.RawMessage  `json:"w,omitempty"`
}

// ---------------------------------------------------------------- child side

type pipeCtx struct {
	*verdict.Ctx // Rand, SubSeed, N: pure functions of (seed, id, tier)
	mu           sync.Mutex
	w            *bufio.Writer
	counts       map[string]int64
	all          map[string]int64
	samples      int
	viol         int
}

func (p *pipeCtx) send(m pmsg) {
	b, err := json.Marshal(m)
	if err != nil {
		return
	}
	p.w.Write(b)
	p.w.WriteByte('\n')
	p.w.Flush()
}

func (p *pipeCtx) Eval() { p.mu.Lock(); p.send(pmsg{Op: "eval"}); p.mu.Unlock() }

func (p *pipeCtx) Distinct(d ...interface{}) bool {
	s := make([]string, len(d))
	for i, v := range d {
		switch x := v.(type) {
		case string:
			s[i] = x
		case []byte:
			s[i] = string(x)
		default:
			s[i] = fmt.Sprintf("%v", x)
		}
	}
	p.mu.Lock()
	p.send(pmsg{Op: "distinct", D: s})
	p.mu.Unlock()
	return true
}

func (p *pipeCtx) Count(name string, n int64) {
	p.mu.Lock()
	p.counts[name] += n
	p.all[name] += n
	p.mu.Unlock()
}

func (p *pipeCtx) Counter(name string) int64 {
	p.mu.Lock()
	defer p.mu.Unlock()
	return p.all[name]
}

func (p *pipeCtx) flushCounts() {
	if len(p.counts) > 0 {
		p.send(pmsg{Op: "counts", Counts: p.counts})
		p.counts = map[string]int64{}
	}
}

func (p *pipeCtx) Sample(v interface{}) {
	b, err := json.Marshal(v)
	if err != nil {
		return
	}
	p.mu.Lock()
	p.samples++
	p.send(pmsg{Op: "sample", W: b})
	p.mu.Unlock()
}

func (p *pipeCtx) WantSample() bool {
	p.mu.Lock()
	defer p.mu.Unlock()
	return p.samples < 3
}

func (p *pipeCtx) Inconclusive(why string) {
	p.mu.Lock()
	p.send(pmsg{Op: "inc", What: why})
	p.mu.Unlock()
}

func (p *pipeCtx) HarnessError(format string, a ...interface{}) {
	p.mu.Lock()
	p.send(pmsg{Op: "herr", What: fmt.Sprintf(format, a...)})
	p.mu.Unlock()
}

func (p *pipeCtx) Violation(key, what string, witness interface{}) bool {
	b, err := json.Marshal(witness)
	if err != nil {
		b, _ = json.Marshal(fmt.Sprintf("%+v", witness))
	}
	p.mu.Lock()
	p.viol++
	p.send(pmsg{Op: "viol", Key: key, What: what, W: b})
	p.mu.Unlock()
	return true
}

func (p *pipeCtx) Violations() int {
	p.mu.Lock()
	defer p.mu.Unlock()
	return p.viol
}

var opLogDir string // child: where the write-ahead operation logs of the running cases go

func opLogPath(dir string, j job) string {
	return filepath.Join(dir, fmt.Sprintf("oplog-%s-%d.log", j.Stream, j.Index))
}

// attachSink makes every logf of the model (and of its clones) also append to a
// file, before the operation it describes runs, so that the parent can show the
// last operations of a case whose process died.
func attachSink(m *model, stream string, idx int) func() {
	if opLogDir == "" {
		return func() {}
	}
	if stream == "" {
		stream = "history"
	}
	p := opLogPath(opLogDir, job{stream, idx})
	f, err := os.Create(p)
	if err != nil {
		return func() {}
	}
	m.sink = f
	return func() {
		f.Close()
		os.Remove(p)
	}
}

func childMain(c *verdict.Ctx, specPath string) int {
	b, err := os.ReadFile(specPath)
	var spec childSpec
	if err != nil || json.Unmarshal(b, &spec) != nil {
		fmt.Fprintln(os.Stderr, "C15 child: bad job file", specPath, err)
		return 2
	}
	out := os.NewFile(3, "events")
	if out == nil {
		fmt.Fprintln(os.Stderr, "C15 child: no event pipe")
		return 2
	}
	p := &pipeCtx{Ctx: c, w: bufio.NewWriterSize(out, 1<<16), counts: map[string]int64{}, all: map[string]int64{}}
	opLogDir = spec.Base
	installHooks()
	jobs := make(chan job, 64)
	var wg sync.WaitGroup
	for w := 0; w < spec.Workers; w++ {
		wg.Add(1)
		go func() {
			defer wg.Done()
			for j := range jobs {
				fn := caseFn(j.Stream)
				if fn == nil {
					p.HarnessError("C15 child: unknown stream %q", j.Stream)
					continue
				}
				jj := j
				p.mu.Lock()
				p.send(pmsg{Op: "begin", Job: &jj})
				p.mu.Unlock()
				fn(p, j.Index, spec.Base)
				p.mu.Lock()
				p.flushCounts()
				p.send(pmsg{Op: "end", Job: &jj})
				p.mu.Unlock()
			}
		}()
	}
	for _, j := range spec.Jobs {
		jobs <- j
	}
	close(jobs)
	wg.Wait()
	p.mu.Lock()
	p.counts["hook_autofile_synced_hits"] += verifhook.Hits("autofile.synced")
	p.counts["hook_group_rotate_hits"] += verifhook.Hits("group.rotate")
	p.counts["hook_group_removed_hits"] += verifhook.Hits("group.removed")
	p.flushCounts()
	p.send(pmsg{Op: "done"})
	p.mu.Unlock()
	return 0
}

// ---------------------------------------------------------------- parent side

type childResult struct {
	done     map[job]bool
	inflight []job
	finished bool // the child sent "done" and exited 0
	stderr   string
	exitErr  error
	timedOut bool
}

var childSeq int

func runChild(c *verdict.Ctx, jobs []job, workers int, base string) childResult {
	res := childResult{done: map[job]bool{}}
	childSeq++
	specPath := filepath.Join(base, fmt.Sprintf("jobs-%d.json", childSeq))
	b, _ := json.Marshal(childSpec{Jobs: jobs, Workers: workers, Base: base})
	if err := os.WriteFile(specPath, b, 0o600); err != nil {
		c.HarnessError("C15: %v", err)
		return res
	}
	self := os.Getenv("VERIF_SELF")
	if self == "" {
		self, _ = os.Executable()
	}
	rd, wr, err := os.Pipe()
	if err != nil {
		c.HarnessError("C15: pipe: %v", err)
		return res
	}
	errPath := filepath.Join(base, fmt.Sprintf("child-%d.stderr", childSeq))
	errFile, err := os.Create(errPath)
	if err != nil {
		c.HarnessError("C15: %v", err)
		return res
	}
	cmd := exec.Command(self, "--tier", c.Tier, c.ID)
	cmd.Env = append(os.Environ(), "VERIF_C15_CHILD="+specPath, fmt.Sprintf("VERIF_SEED=%d", c.Seed), "GOTRACEBACK=all")
	cmd.Stdout = os.Stdout
	cmd.Stderr = errFile
	cmd.ExtraFiles = []*os.File{wr}
	if err := cmd.Start(); err != nil {
		wr.Close()
		rd.Close()
		errFile.Close()
		c.HarnessError("C15: cannot start the child process %s: %v", self, err)
		return res
	}
	wr.Close()
	limit := 20 * time.Minute
	if c.Thorough() {
		limit = 90 * time.Minute
	}
	timer := time.AfterFunc(limit, func() {
		res.timedOut = true
		_ = cmd.Process.Kill()
	})
	running := map[job]bool{}
	br := bufio.NewReaderSize(rd, 1<<20)
	for {
		line, err := br.ReadBytes('\n')
		if len(line) > 0 {
			var m pmsg
			if json.Unmarshal(line, &m) == nil {
				switch m.Op {
				case "begin":
					running[*m.Job] = true
				case "end":
					delete(running, *m.Job)
					res.done[*m.Job] = true
				case "eval":
					c.Eval()
				case "distinct":
					d := make([]interface{}, len(m.D))
					for i := range m.D {
						d[i] = m.D[i]
					}
					c.Distinct(d...)
				case "counts":
					for k, v := range m.Counts {
						c.Count(k, v)
					}
				case "viol":
					c.Violation(m.Key, m.What, m.W)
				case "inc":
					c.Inconclusive(m.What)
				case "herr":
					c.HarnessError("%s", m.What)
				case "sample":
					c.Sample(m.W)
				case "done":
					res.finished = true
				}
			}
		}
		if err != nil {
			break
		}
	}
	rd.Close()
	res.exitErr = cmd.Wait()
	timer.Stop()
	errFile.Close()
	if eb, err := os.ReadFile(errPath); err == nil {
		res.stderr = string(eb)
	}
	os.Remove(errPath)
	os.Remove(specPath)
	if res.exitErr != nil {
		res.finished = false
	}
	for j := range running {
		res.inflight = append(res.inflight, j)
	}
	sort.Slice(res.inflight, func(a, b int) bool {
		if res.inflight[a].Stream != res.inflight[b].Stream {
			return res.inflight[a].Stream < res.inflight[b].Stream
		}
		return res.inflight[a].Index < res.inflight[b].Index
	})
	return res
}

// crashSite extracts from a Go crash report the panic message, the stack of
// the crashing goroutine, and the innermost frame inside tendermint.
func crashSite(stderr string) (msg string, stack []string, frame string, ok bool) {
	lines := strings.Split(stderr, "\n")
	start := -1
	for i, l := range lines {
		if strings.HasPrefix(l, "panic: ") || strings.HasPrefix(l, "fatal error: ") {
			start = i
			break
		}
	}
	if start < 0 {
		return "", nil, "", false
	}
	msg = lines[start]
	i := start + 1
	for i < len(lines) && !strings.HasPrefix(lines[i], "goroutine ") {
		if strings.TrimSpace(lines[i]) != "" && len(msg) < 600 {
			msg += " " + strings.TrimSpace(lines[i])
		}
		i++
	}
	for ; i < len(lines) && strings.TrimSpace(lines[i]) != ""; i++ {
		if len(stack) < 40 {
			stack = append(stack, lines[i])
		}
		l := lines[i]
		if frame == "" && !strings.HasPrefix(l, "\t") && !strings.HasPrefix(l, "created by ") {
			const pfx = "github.com/tendermint/tendermint/"
			if k := strings.Index(l, pfx); k == 0 {
				f := l[len(pfx):]
				if p := strings.LastIndex(f, "("); p > 0 {
					f = f[:p]
				}
				frame = f
			}
		}
	}
	return msg, stack, frame, true
}

type crashWitness struct {
	Note     string              `json:"note"`
	Stream   string              `json:"stream,omitempty"`
	Index    int                 `json:"index"`
	InFlight []string            `json:"cases_in_flight"`
	Panic    string              `json:"panic"`
	Stack    []string            `json:"stack_of_the_crashing_goroutine"`
	LastOps  map[string][]string `json:"last_operations"`
}

// reportCrash turns a dead child into a finding (or, if it did not die of a Go
// panic inside tendermint, into a harness error).  Returns true for a finding.
func reportCrash(c *verdict.Ctx, res childResult, base string, solo bool) bool {
	if res.timedOut {
		c.Inconclusive("C15 child process exceeded its time limit and was killed")
		return false
	}
	msg, stack, frame, ok := crashSite(res.stderr)
	if !ok || frame == "" {
		tail := res.stderr
		if len(tail) > 3000 {
			tail = tail[:3000]
		}
		c.HarnessError("C15: the child process died (%v) without a Go panic inside tendermint; in flight %v; stderr: %s", res.exitErr, res.inflight, tail)
		return false
	}
	w := crashWitness{Panic: msg, Stack: stack, LastOps: map[string][]string{}}
	for _, j := range res.inflight {
		w.InFlight = append(w.InFlight, j.String())
		if b, err := os.ReadFile(opLogPath(base, j)); err == nil {
			ls := strings.Split(strings.TrimRight(string(b), "\n"), "\n")
			w.LastOps[j.String()] = tailOf(ls, 30)
		}
		os.Remove(opLogPath(base, j))
	}
	if len(res.inflight) > 0 {
		w.Stream, w.Index = res.inflight[0].Stream, res.inflight[0].Index
	}
	w.Note = "the process running the cases died with a Go panic in a goroutine of the code under test"
	if solo {
		w.Note += "; this case was running alone"
	} else {
		w.Note += "; the cases in flight are re-run one by one to find the one that does it"
	}
	c.Count("process_crashes_of_the_code_under_test", 1)
	c.Violation("process-crash@"+frame, msg, w)
	return true
}

const maxCrashesPerStage = 4

// runStage runs the cases of one family in child processes.
func runStage(c *verdict.Ctx, stream string, n, workers int, base string) {
	var remaining []job
	for i := 0; i < n; i++ {
		remaining = append(remaining, job{stream, i})
	}
	drop := func(done map[job]bool, also []job) {
		skip := map[job]bool{}
		for _, j := range also {
			skip[j] = true
		}
		var keep []job
		for _, j := range remaining {
			if !done[j] && !skip[j] {
				keep = append(keep, j)
			}
		}
		remaining = keep
	}
	crashes := 0
	for len(remaining) > 0 {
		res := runChild(c, remaining, workers, base)
		before := len(remaining)
		drop(res.done, nil)
		if res.finished {
			if len(remaining) > 0 {
				c.HarnessError("C15 %s: the child finished but %d cases were not run", stream, len(remaining))
			}
			return
		}
		if !reportCrash(c, res, base, false) {
			return
		}
		crashes++
		suspects := res.inflight
		drop(nil, suspects)
		for _, s := range suspects {
			if crashes >= maxCrashesPerStage {
				c.Count("cases_skipped_after_repeated_process_crashes", 1)
				continue
			}
			r1 := runChild(c, []job{s}, 1, base)
			if !r1.finished {
				if reportCrash(c, r1, base, true) {
					crashes++
				}
			}
		}
		if crashes >= maxCrashesPerStage {
			c.Count("cases_skipped_after_repeated_process_crashes", int64(len(remaining)))
			return
		}
		if len(remaining) == before && len(suspects) == 0 {
			c.HarnessError("C15 %s: the child died without having started a case", stream)
			return
		}
	}
}

func envInt(name string, def int) int {
	if s := os.Getenv(name); s != "" {
		var v int
		if _, err := fmt.Sscan(s, &v); err == nil {
			return v
		}
	}
	return def
}

// runStages is the parent: replay in-process, everything else in children.
func runStages(c *verdict.Ctx) {
	base := verdict.TmpDir("c15-")
	defer os.RemoveAll(base)
	if rp := c.Replay(); rp != "" {
		var w struct {
			Stream string `json:"stream"`
			Index  int    `json:"index"`
		}
		if err := verdict.LoadReplay(rp, &w); err != nil {
			c.HarnessError("replay file: %v", err)
			return
		}
		fn := caseFn(w.Stream)
		if fn == nil {
			return // a C15b replay file
		}
		installHooks()
		defer removeHooks()
		reps := 1
		if w.Stream == "rotation-race" {
			reps = 200 // the schedule is not replayable: repeat
		}
		for i := 0; i < reps && c.Violations() == 0; i++ {
			fn(c, w.Index, base)
		}
		return
	}
	cpu := runtime.NumCPU()
	if s := os.Getenv("VERIF_C15_HISTORY"); s != "" { // debugging aid: one history
		runChildOnce(c, job{"history", envInt("VERIF_C15_HISTORY", 0)}, base)
		return
	}
	nh := envInt("VERIF_C15_N", c.N(2000, 40000))
	c.Set("histories", nh)
	// the histories are bound by fsync latency, not by CPU: more workers than cores
	runStage(c, "history", nh, envInt("VERIF_C15_WORKERS", 4*cpu), base)
	nr := envInt("VERIF_C15_RACE_N", c.N(1500, 30000))
	c.Set("rotation_race_runs", nr)
	runStage(c, "rotation-race", nr, cpu, base)
	nb := envInt("VERIF_C15_BIG_N", c.N(150, 3000))
	runStage(c, "bigrec", nb, cpu, base)
	ng := c.N(400, 8000)
	if os.Getenv("VERIF_C15_BIG_N") != "" {
		ng = nb
	}
	runStage(c, "rawgroup", ng, cpu, base)
	runStage(c, idxStream, envInt("VERIF_C15_IDX_N", c.N(150, 4000)), 2*cpu, base)
	runStage(c, sizeStream, envInt("VERIF_C15_SIZE_N", c.N(400, 8000)), 2*cpu, base)
	nl := envInt("VERIF_C15_LIMIT_N", c.N(32, 320))
	runStage(c, limitStream, nl, cpu, base)

	if c.Violations() > 0 && c.Counter("process_crashes_of_the_code_under_test") > 0 {
		return // families may legitimately have observed nothing if their cases died
	}
	if c.Counter("hook_autofile_synced_hits") == 0 {
		c.HarnessError("C15a observed nothing: the autofile.synced point was never hit (no fsync of the WAL head was ever observed)")
	}
	if c.Counter("acked_records_confirmed") == 0 {
		c.HarnessError("C15a observed nothing: no record whose sync returned nil was ever confirmed by a reader")
	}
	if nr > 0 && c.Counter("race_rotations") == 0 {
		c.HarnessError("C15a rotation-race family observed nothing: no rotation happened")
	}
	if nb > 0 && (c.Counter("big_synced_writes_returned_nil") == 0 || c.Counter("big_frames_larger_than_bufio_written_with_empty_buffer") == 0 ||
		c.Counter("raw_payloads_larger_than_bufio_written_with_empty_buffer") == 0) {
		c.HarnessError("C15a big-record family observed nothing: no synced write of a frame larger than the bufio buffer happened")
	}
	if nb > 0 && c.Counter("big_synced_writes_with_fsync_hook_hit") == 0 {
		c.HarnessError("C15a big-record family observed nothing: no synced write was ever seen at the autofile.synced point")
	}
	if envInt("VERIF_C15_IDX_N", 150) >= 100 && (c.Counter("rotations_to_index_of_4_or_more_digits") == 0 || c.Counter("idx_starts_with_files_of_4_or_more_digits") == 0) {
		c.HarnessError("C15a index-boundary family observed nothing: no rotation to a 4-digit index followed by a restart happened")
	}
	if nl >= 32 && (c.Counter("limit_records_exactly_at_the_writer_limit") == 0 || c.Counter("limit_records_refused_at_write") == 0) {
		c.HarnessError("C15a writer-limit family observed nothing: no record exactly at the writer's limit was accepted, or none above it was refused")
	}
	if envInt("VERIF_C15_SIZE_N", 400) >= 100 && (c.Counter("size_files_pruned_by_the_ticker") == 0 || c.Counter("size_cases_with_head_at_or_over_total_limit") == 0) {
		c.HarnessError("C15a size-limit family observed nothing: the ticker never pruned, or no head reached the total limit")
	}
}

func runChildOnce(c *verdict.Ctx, j job, base string) {
	res := runChild(c, []job{j}, 1, base)
	if !res.finished {
		reportCrash(c, res, base, true)
	}
}
