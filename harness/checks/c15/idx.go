package c15

// C15a, family "file index crosses a digit boundary".  Rotated files are named
// <head>.%03d - a minimum width - so after index 999 the names get longer
// (.1000), and a reopen derives MinIndex / MaxIndex from the directory
// listing.  The starting directory is fabricated: a real WAL writes a few
// rotated files, which are then renamed so that the highest index is
// 997 … 999 (or 9997 … 9999); the directory is started with the production
// code and the normal write / sync / rotate / prune / crash / restart cycles
// of c15.go run on it, with the same oracles.

import (
	"fmt"
	"os"
	"strconv"
)

const idxStream = "index-boundary"

func fileIndex(name string) int {
	if !isNumbered(name) {
		return -1
	}
	k, _ := strconv.Atoi(name[len(headName)+1:])
	return k
}

// idxObserve counts, at every start of a directory of this family, what is on
// disk beyond the 3-digit names.
func idxObserve(c vctx, m *model) {
	long, markers := 0, 0
	for _, f := range m.Files {
		if len(f.Name) > len(headName)+4 {
			long++
			for _, i := range f.Recs {
				if r := m.J[i]; r.End && m.onDisk(r) {
					markers++
				}
			}
		}
	}
	c.Count("idx_starts", 1)
	if long > 0 {
		c.Count("idx_starts_with_files_of_4_or_more_digits", 1)
		c.Count("idx_files_of_4_or_more_digits_at_start", int64(long))
		c.Count("idx_markers_in_files_of_4_or_more_digits_at_start", int64(markers))
	}
	if len(m.Files) > 1 {
		lo, hi := fileIndex(m.Files[0].Name), fileIndex(m.Files[len(m.Files)-2].Name)
		if (lo < 1000 && hi >= 1000) || (lo < 10000 && hi >= 10000) {
			c.Count("idx_starts_with_files_on_both_sides_of_the_boundary", 1)
		}
	}
}

func runIdxCase(c vctx, idx int, base string) {
	r := c.Rand(idxStream, idx)
	cfg := histCfg{HeadLimit: int64(200 + r.Intn(1000)), Cycles: 2 + r.Intn(2)}
	if r.Intn(2) == 0 {
		cfg.TotalLimit = cfg.HeadLimit * int64(3+r.Intn(6))
	}
	hb, err := os.MkdirTemp(base, fmt.Sprintf("i%d-", idx))
	if err != nil {
		c.HarnessError("mkdir: %v", err)
		return
	}
	defer os.RemoveAll(hb)
	hs := &hist{stream: idxStream, c: c, idx: idx, base: hb}
	hs.rep = &reporter{c: c, hist: idx, cfg: cfg, stream: idxStream}
	// phase 0: genuine files, written by the real WAL without pruning
	m := newModel(cfg.HeadLimit, 0)
	defer attachSink(m, idxStream, idx)()
	dir, err := os.MkdirTemp(hb, "d")
	if err != nil {
		c.HarnessError("mkdir: %v", err)
		return
	}
	lv, _, err := nodeStart(m, dir, hs.rep, false)
	if err != nil {
		hs.fail(err)
		return
	}
	want := 2 + r.Intn(4)
	for i := 0; i < 400 && len(m.Files)-1 < want; i++ {
		op := genOp(r)
		if op.StepLen > 1500 {
			op.StepLen = r.Intn(300)
		}
		if err := lv.do(op); err != nil {
			lv.stop()
			hs.fail(err)
			return
		}
	}
	if err := lv.do(opSpec{Kind: opFlush}); err != nil {
		lv.stop()
		hs.fail(err)
		return
	}
	snap, err := snapshotDir(lv.dir)
	lv.stop()
	if err != nil {
		hs.fail(harnessErr{"snapshot: " + err.Error()})
		return
	}
	n := len(m.Files) - 1
	if n < 1 {
		return
	}
	boundary := 1000
	if r.Intn(8) == 0 {
		boundary = 10000
	}
	top := boundary - 1 - r.Intn(3)
	shift := top - (n - 1)
	for i := n - 1; i >= 0; i-- { // highest first: no collisions
		f := m.Files[i]
		old := fileIndex(f.Name)
		if old != i {
			c.HarnessError("C15 index-boundary %d: generated files are not wal.000…: %s at %d", idx, f.Name, i)
			return
		}
		nn := fmt.Sprintf("%s.%03d", headName, old+shift)
		snap[nn] = snap[f.Name]
		delete(snap, f.Name)
		for _, j := range f.Recs {
			m.J[j].File = nn
		}
		f.Name = nn
	}
	m.Gone = map[string]bool{}
	m.TotalLimit = cfg.TotalLimit
	m.logf("FABRICATED DIRECTORY: the %d rotated files were renamed to %s … %s", n, m.Files[0].Name, m.Files[n-1].Name)
	c.Count("idx_cases", 1)
	if boundary == 10000 {
		c.Count("idx_cases_at_9999", 1)
	}
	c.Eval()
	p := cutPlan{Cut: int64(len(snap[headName])), Class: "fabricated-directory", FlipAt: -1}
	rep := hs.rep.child(p)
	lv2, m2, _, err := hs.startFrom(m, snap, p, rep, false)
	if err != nil {
		hs.fail(err)
		return
	}
	if lv2 == nil || rep.dirty {
		if lv2 != nil {
			lv2.stop()
		}
		return
	}
	hs.rep = rep
	hs.cycles(r, cfg, m2, lv2)
}
