package c15

// The deciding part: what readers return after a reopen versus the journal.

import (
	"fmt"
	"io"
	"os"
	"path/filepath"

	"github.com/tendermint/tendermint/consensus"
	"github.com/tendermint/tendermint/types"
)

type histCfg struct {
	HeadLimit  int64 `json:"head_size_limit"`
	TotalLimit int64 `json:"total_size_limit"`
	Cycles     int   `json:"cycles"`
}

type reporter struct {
	c        vctx
	hist     int
	cfg      histCfg
	plans    []cutPlan // crash outcomes applied on the path to the current directory
	weak     bool      // synced-region corruption class: only "never return what was not written" is demanded
	dirty    bool      // something was reported on this path
	stream   string    // PRNG stream of the case ("" = "history")
	missKind string    // kind reported by checkSeq for a missing record ("" = synced-record-missing)
	pathSet  bool      // set while checkSeq reports a missing record: the reader started behind journal record pathLo
	pathLo   int
}

func (rp *reporter) child(p cutPlan) *reporter {
	n := *rp
	n.plans = append(append([]cutPlan{}, rp.plans...), p)
	n.dirty = false
	return &n
}

// kinds that demand a record to be returned; not applicable when the synced
// region itself was corrupted.
var strongOnly = map[string]bool{
	"synced-record-missing":                                  true,
	"initial-height-records-hidden-behind-later-endheight-0": true,
	"synced-record-dropped-by-repair":                        true,
	"search-missed-durable-marker":                           true,
	"node-cannot-start-corruption-persists":                  true,
	"repaired-file-not-decodable":                            false,
}

type witness struct {
	Stream  string      `json:"stream"`
	Index   int         `json:"index"`
	Cfg     histCfg     `json:"config"`
	Plans   []cutPlan   `json:"crash_outcomes"`
	Kind    string      `json:"kind"`
	What    string      `json:"what"`
	Taint   *taint      `json:"appended_behind_garbage,omitempty"`
	Record  string      `json:"record,omitempty"`
	Journal []string    `json:"journal_tail"`
	Log     []string    `json:"history"`
	Extra   interface{} `json:"extra,omitempty"`
}

// violation classifies and reports.  idx is the journal index of the record
// concerned (-1: none).  A record that was appended behind undecodable bytes
// is attributed to the reason those bytes were still there.
func (rp *reporter) violation(m *model, kind string, idx int, what string, extra interface{}) {
	if rp.weak && strongOnly[kind] {
		rp.c.Count("weak_class_suppressed_"+kind, 1)
		return
	}
	key := kind
	t := m.taintFor(idx, kind)
	if t == nil && rp.pathSet {
		// a record missing from a sequential reader: stray bytes in an earlier
		// file that the reader had to pass explain it as well
		if t = m.taintOnPath(rp.pathLo, idx); t != nil {
			rp.c.Count("missing_records_explained_by_stray_bytes_in_an_earlier_file", 1)
		}
	}
	if t != nil {
		switch t.Cause {
		case "short-tail":
			key = "wal-short-torn-tail-hides-later-appends"
		case "catchup-not-run":
			key = "wal-torn-tail-kept-when-catchup-not-run-hides-later-appends"
		case "damaged-frame":
			key = "wal-corrupt-frame-before-newest-marker-kept-later-repair-drops-synced-appends"
		default:
			key = "wal-torn-tail-kept-after-catchup-hides-later-appends"
		}
		what = what + "; " + t.Why
	}
	rp.dirty = true
	stream := rp.stream
	if stream == "" {
		stream = "history"
	}
	w := witness{Stream: stream, Index: rp.hist, Cfg: rp.cfg, Plans: rp.plans, Kind: kind, What: what, Taint: t, Extra: extra}
	if idx >= 0 && idx < len(m.J) {
		w.Record = m.J[idx].desc()
	}
	from := len(m.J) - 40
	if from < 0 {
		from = 0
	}
	for _, r := range m.J[from:] {
		w.Journal = append(w.Journal, r.desc())
	}
	lf := len(m.Log) - 150
	if lf < 0 {
		lf = 0
	}
	w.Log = m.Log[lf:]
	rp.c.Violation(key, what, w)
}

func toCanon(t *consensus.TimedWALMessage) (canon, bool) {
	c := canon{TimeNs: t.Time.UnixNano()}
	switch v := t.Msg.(type) {
	case consensus.EndHeightMessage:
		c.End, c.H = true, v.Height
	case types.EventDataRoundState:
		c.H, c.R, c.Step = v.Height, v.Round, v.Step
	default:
		// msgInfo / timeoutInfo are unexported: go through the exported converter
		pb, err := consensus.WALToProto(t.Msg)
		if err != nil {
			return c, false
		}
		return canonOfProto(pb, c.TimeNs)
	}
	return c, true
}

// readAll decodes from rd until EOF.  A DataCorruptionError is skipped (the
// decoder is called again, exactly as SearchForEndHeight does with
// IgnoreDataCorruptionErrors): "any later reader" is taken to be one that may
// skip what it cannot decode.  skipped = number of such errors, last = the
// last of them.
func readAll(rd io.Reader) (got []canon, foreign []string, skipped int, last error, err error) {
	dec := consensus.NewWALDecoder(rd)
	for n := 0; n < 3000000; n++ {
		msg, e := dec.Decode()
		if e == io.EOF {
			return got, foreign, skipped, last, nil
		}
		if consensus.IsDataCorruptionError(e) {
			skipped++
			last = e
			continue
		}
		if e != nil {
			return got, foreign, skipped, last, e
		}
		c, ok := toCanon(msg)
		if !ok {
			foreign = append(foreign, fmt.Sprintf("%T", msg.Msg))
			continue
		}
		got = append(got, c)
	}
	return got, foreign, skipped, last, inconclusive{"decoder did not reach EOF after 3e6 calls"}
}

func (m *model) onDisk(r *rec) bool {
	if r.State != stPresent || r.Len < 0 {
		return false
	}
	f := m.file(r.File)
	return f != nil && r.Off+r.Len <= f.Size
}

// checkSeq: got must be an in-order selection of journal records with index
// > lo; every acked record still on disk with index > reqFrom must be in it.
// Returns the number of acked records confirmed.
func (rp *reporter) checkSeq(m *model, reader string, got []canon, foreign []string, rerr error, lo, reqFrom int) int {
	for _, f := range foreign {
		rp.violation(m, "unwritten-record-returned", -1, fmt.Sprintf("%s returned a message of kind %s; the harness never wrote one", reader, f), nil)
	}
	returned := map[int]bool{}
	p := lo + 1
	for gi, x := range got {
		j := -1
		for k := p; k < len(m.J); k++ {
			if m.J[k].matches(x) {
				j = k
				break
			}
		}
		if j < 0 {
			kind, idx := "unwritten-record-returned", -1
			for k := range m.J {
				if m.J[k].matches(x) {
					kind, idx = "record-returned-out-of-order-or-twice", k
					break
				}
			}
			if idx < 0 {
				for k := range m.J {
					r := m.J[k]
					if r.End == x.End && r.H == x.H && !(r.End && r.H == 0) {
						kind, idx = "record-returned-altered", k
						break
					}
				}
			}
			rp.violation(m, kind, idx, fmt.Sprintf("%s returned %s as item %d of %d; expected a record written after journal index %d", reader, shortCanon(x), gi, len(got), p-1), nil)
			return len(returned)
		}
		r := m.J[j]
		if r.State == stLostCut && r.TimeOK {
			// a torn frame completed by the first bytes of a later append (see resyncHead)
			rp.c.Count("torn_frame_completed_by_later_bytes", 1)
			returned[j] = true
			p = j + 1
			continue
		}
		if r.State != stPresent && r.State != stDamaged {
			rp.c.HarnessError("C15 model: %s returned %s which the model has as %s", reader, r.desc(), stNames[r.State])
			return len(returned)
		}
		if r.State == stDamaged {
			rp.violation(m, "record-returned-altered", j, fmt.Sprintf("%s returned %s although one byte of its frame was flipped", reader, r.desc()), nil)
		}
		returned[j] = true
		p = j + 1
	}
	n := 0
	for k := reqFrom + 1; k < len(m.J); k++ {
		r := m.J[k]
		if !r.Acked || !m.onDisk(r) {
			continue
		}
		if returned[k] {
			n++
			continue
		}
		es := "reached EOF without a decoding error"
		if rerr != nil {
			es = "reached EOF after skipping undecodable data (last error: " + rerr.Error() + ")"
		}
		kind := "synced-record-missing"
		if rp.missKind != "" {
			kind = rp.missKind
		}
		rp.pathSet, rp.pathLo = true, lo
		defer func() { rp.pathSet = false }()
		rp.violation(m, kind, k, fmt.Sprintf("%s returned %d records and %s, without %s whose sync had returned nil and whose file is still there", reader, len(got), es, r.desc()), nil)
		return n
	}
	return n
}

// dirClean: every file of the model on disk consists of complete frames only.
func dirClean(m *model, dir string) bool {
	for _, f := range m.Files {
		b, err := os.ReadFile(filepath.Join(dir, f.Name))
		if err != nil {
			if os.IsNotExist(err) && f.Name == headName {
				continue
			}
			return false
		}
		if p, _, _ := cleanPrefix(b); p != int64(len(b)) {
			return false
		}
	}
	return true
}

// verifyReaders runs every reader on the just started WAL and applies the
// oracles.  Returns how many acked records were confirmed by the full reader.
func verifyReaders(lv *live, rp *reporter) (int, error) {
	m := lv.m
	c := rp.c
	g := lv.wal.Group()
	clean := dirClean(m, lv.dir)

	// reader A: plain group reader from the oldest file
	gr, err := g.NewReader(g.MinIndex())
	if err != nil {
		return 0, harnessErr{"NewReader: " + err.Error()}
	}
	got, foreign, skipped, rerr, ferr := readAll(gr)
	gr.Close()
	if ferr != nil {
		if ie, ok := ferr.(inconclusive); ok {
			return 0, ie
		}
		return 0, harnessErr{"group reader: " + ferr.Error()}
	}
	if skipped > 0 {
		c.Count("full_reader_skipped_corruption", 1)
	} else {
		c.Count("full_reader_clean", 1)
	}
	confirmed := rp.checkSeq(m, "the group reader from the oldest file", got, foreign, rerr, -1, -1)
	c.Count("records_returned", int64(len(got)))
	c.Count("acked_records_confirmed", int64(confirmed))

	// reader B: SearchForEndHeight + decode to EOF, for every height ever written and two never written
	hs := m.markerHeights()
	hs = append(hs, m.NextH+3, -5)
	for hi, h := range hs {
		var cand []*rec
		for _, r := range m.J {
			if r.End && r.H == h {
				cand = append(cand, r)
			}
		}
		may, must := false, false
		minIdx, maxIdx, mustIdx := -1, -1, -1
		for _, r := range cand {
			if m.onDisk(r) {
				may = true
				if minIdx < 0 {
					minIdx = r.Idx
				}
				maxIdx = r.Idx
				if r.Acked {
					must = true
					mustIdx = r.Idx
				}
			}
		}
		// the node searches with IgnoreDataCorruptionErrors=true; the strict
		// variant and the decode of what follows the marker are exercised for
		// the newest two heights, the oldest one and every fourth other
		full := hi < 2 || hi >= len(hs)-3 || hi%4 == len(m.J)%4
		opts := []bool{true}
		if full {
			opts = []bool{true, false}
		}
		for _, ignore := range opts {
			rd, found, serr := lv.wal.SearchForEndHeight(h, &consensus.WALSearchOptions{IgnoreDataCorruptionErrors: ignore})
			name := fmt.Sprintf("SearchForEndHeight(%d, IgnoreDataCorruptionErrors=%v)", h, ignore)
			if serr != nil {
				c.Count("search_returned_error", 1)
				if !consensus.IsDataCorruptionError(serr) {
					return confirmed, harnessErr{name + ": " + serr.Error()}
				}
				if must && clean {
					rp.violation(m, "search-missed-durable-marker", mustIdx, fmt.Sprintf("%s returned %v although every file consists of complete frames", name, serr), nil)
				}
				continue
			}
			switch {
			case found && !may:
				idx := -1
				if len(cand) > 0 {
					idx = cand[len(cand)-1].Idx
				}
				rp.violation(m, "search-found-marker-that-is-not-there", idx, name+" reported found, but no such marker is on disk (never written, cut by the crash, or its file was discarded)", nil)
			case !found && must && (ignore || clean):
				rp.violation(m, "search-missed-durable-marker", mustIdx, name+" reported not found, but the marker's sync had returned nil and its file is still there: "+m.J[mustIdx].desc(), nil)
			}
			if found {
				c.Count("search_found", 1)
			} else {
				c.Count("search_not_found", 1)
			}
			if found && rd != nil && !full {
				rd.Close()
			}
			if found && rd != nil && full {
				got, foreign, _, rerr, ferr := readAll(rd)
				rd.Close()
				if ferr != nil {
					if ie, ok := ferr.(inconclusive); ok {
						return confirmed, ie
					}
					return confirmed, harnessErr{name + " reader: " + ferr.Error()}
				}
				if may {
					reqFrom := maxIdx
					if h == 0 && minIdx != maxIdx {
						// Several markers 0 on disk.  While the chain is at its initial
						// height (no marker > 0 was ever written) catchupReplay searches
						// exactly marker 0 and must get every record of the unfinished
						// height, i.e. everything after the FIRST marker 0.
						later := false // has the chain ever left the initial height?
						for _, r := range m.J {
							if r.End && r.H > 0 {
								later = true
								break
							}
						}
						if !later {
							reqFrom = minIdx
							rp.missKind = "initial-height-records-hidden-behind-later-endheight-0"
							c.Count("initial_height_searches_with_several_markers_0", 1)
						}
					}
					if h == 0 {
						c.Count("searches_for_marker_0_followed_by_read", 1)
					}
					n := rp.checkSeq(m, "the reader returned by "+name, got, foreign, rerr, minIdx, reqFrom)
					rp.missKind = ""
					c.Count("acked_records_confirmed_after_search", int64(n))
				}
			}
		}
	}
	return confirmed, nil
}
