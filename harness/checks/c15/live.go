package c15

// A live BaseWAL on a scratch directory, the hook dispatch that feeds the
// model, and the emulation of what a node does with its WAL when it starts
// (State.OnStart: open, catchupReplay's search + decode to EOF, repair on a
// DataCorruptionError, reopen).

import (
	bytes2 "bytes"
	"encoding/binary"
	"errors"
	"fmt"
	"hash/crc32"
	"io"
	"os"
	"os/signal"
	"path/filepath"
	"reflect"
	"sync"
	"syscall"
	"time"
	"unsafe"

	"github.com/tendermint/tendermint/consensus"
	"github.com/tendermint/tendermint/libs/autofile"
	tmos "github.com/tendermint/tendermint/libs/os"
	"github.com/tendermint/tendermint/libs/verifhook"
	tmcons "github.com/tendermint/tendermint/proto/tendermint/consensus"
	tmcrypto "github.com/tendermint/tendermint/proto/tendermint/crypto"
	tmproto "github.com/tendermint/tendermint/proto/tendermint/types"
	"github.com/tendermint/tendermint/types"
)

// ---------------------------------------------------------------- hook dispatch

const (
	evSynced = iota
	evRotate
	evRemoved
)

type event struct {
	kind int
	name string // base name of the file concerned (for rotate: the new indexed name)
	size int64
}

type watch struct {
	mu sync.Mutex
	ev []event
}

var registry = struct {
	sync.RWMutex
	m map[string]*watch
}{m: map[string]*watch{}}

func dispatch(path string, e event) {
	registry.RLock()
	w := registry.m[filepath.Dir(path)]
	registry.RUnlock()
	if w == nil {
		return
	}
	w.mu.Lock()
	w.ev = append(w.ev, e)
	w.mu.Unlock()
}

// installHooks registers the process-wide handlers.  They only append to the
// per-directory queue (never call back into the WAL: the points are hit with
// AutoFile.mtx / Group.mtx held).
func installHooks() {
	verifhook.Handle("autofile.synced", func(kv ...interface{}) {
		if len(kv) < 2 {
			return
		}
		p, _ := kv[0].(string)
		s, _ := kv[1].(int64)
		dispatch(p, event{evSynced, filepath.Base(p), s})
	})
	verifhook.Handle("group.rotate", func(kv ...interface{}) {
		if len(kv) < 2 {
			return
		}
		hp, _ := kv[0].(string)
		ip, _ := kv[1].(string)
		var size int64 = -1
		if st, err := os.Stat(hp); err == nil { // head is flushed, synced and closed at this point, not yet renamed
			size = st.Size()
		}
		dispatch(hp, event{evRotate, filepath.Base(ip), size})
	})
	verifhook.Handle("group.removed", func(kv ...interface{}) {
		if len(kv) < 1 {
			return
		}
		p, _ := kv[0].(string)
		dispatch(p, event{evRemoved, filepath.Base(p), 0})
	})
}

func removeHooks() {
	verifhook.Handle("autofile.synced", nil)
	verifhook.Handle("group.rotate", nil)
	verifhook.Handle("group.removed", nil)
}

// ---------------------------------------------------------------- live WAL

type harnessErr struct{ s string }

func (e harnessErr) Error() string { return e.s }

// stopLineage ends a history after a reported violation the model cannot follow.
type stopLineage struct{ s string }

func (e stopLineage) Error() string { return e.s }

type inconclusive struct{ s string }

func (e inconclusive) Error() string { return e.s }

type live struct {
	info    startInfo
	checked bool // head examined for garbage before the first append
	dir     string
	wal     *consensus.BaseWAL
	w       *watch
	m       *model
	rep     *reporter
	dead    bool

	syncEvents int // autofile.synced events seen for this directory

	headIno  uint64 // inode and on-disk size of the head at the last look, and the
	headDisk int64  // number of files the model had seen then (a rotation changes it)
	headGen  int
	rotSeen  int // rotations of this live WAL seen so far
	refused  int // writes the WAL refused (opSpec.MayRefuse)
}

const tick = time.Millisecond

func headPath(dir string) string { return filepath.Join(dir, headName) }

func statSize(p string) int64 {
	st, err := os.Stat(p)
	if err != nil {
		return 0
	}
	return st.Size()
}

// openLive opens dir the way State.OpenWAL does (NewWAL + Start).  If the head
// is empty BaseWAL.OnStart writes EndHeightMessage{0} with WriteSync; the
// journal gets that record.
func openLive(m *model, dir string, rep *reporter) (*live, error) {
	hp := headPath(dir)
	w := &watch{}
	registry.Lock()
	registry.m[dir] = w
	registry.Unlock()
	before := statSize(hp)
	wal, err := consensus.NewWAL(hp,
		autofile.GroupHeadSizeLimit(m.HeadLimit),
		autofile.GroupTotalSizeLimit(m.TotalLimit),
		autofile.GroupCheckDuration(m.checkEvery()))
	if err != nil {
		return nil, harnessErr{"NewWAL: " + err.Error()}
	}
	if m.FlushEvery > 0 {
		wal.SetFlushInterval(m.FlushEvery)
	} else {
		wal.SetFlushInterval(time.Hour)
	}
	lv := &live{dir: dir, wal: wal, w: w, m: m, rep: rep}
	rotated := false // any indexed file in the listing: that is what MinIndex != MaxIndex means after OpenGroup
	if ents, err := os.ReadDir(dir); err == nil {
		for _, e := range ents {
			if isNumbered(e.Name()) {
				rotated = true
			}
		}
	}
	if err := wal.Start(); err != nil {
		lv.stop()
		return nil, harnessErr{"wal.Start: " + err.Error()}
	}
	// BaseWAL.OnStart writes EndHeightMessage{0} (with WriteSync) when it starts
	// a new WAL.  Whether it did is observed, not assumed: the head was empty
	// before and is not now.
	var auto *rec
	wrote := before == 0 && statSize(hp)+int64(wal.Group().Buffered()) > 0
	if wrote {
		auto = &rec{Idx: len(m.J), End: true, H: 0, Auto: true, Cycle: m.Cycle, File: headName, Off: 0, Len: -1}
		m.J = append(m.J, auto)
		m.head().Recs = append(m.head().Recs, auto.Idx)
	}
	switch {
	case before > 0:
		m.logf("OPEN cycle=%d: head has %d bytes", m.Cycle, before)
	case wrote:
		m.logf("OPEN cycle=%d: head empty (rotated files in the directory: %v), OnStart wrote EndHeight{0} as #%d", m.Cycle, rotated, auto.Idx)
	default:
		m.logf("OPEN cycle=%d: head empty (rotated files in the directory: %v), OnStart wrote nothing", m.Cycle, rotated)
	}
	if before == 0 {
		k := "starts_with_empty_head_and_no_rotated_files"
		if rotated {
			k = "starts_with_empty_head_next_to_rotated_files"
		}
		rep.c.Count(k, 1)
		if wrote {
			rep.c.Count(k+"_marker_0_written", 1)
		}
	}
	if err := lv.after(auto, 0, auto != nil); err != nil {
		lv.stop()
		return nil, err
	}
	return lv, nil
}

// stop shuts the WAL object down and releases what BaseWAL.Stop leaves behind
// (AutoFile's close ticker goroutine and its SIGHUP registration).
func (lv *live) stop() {
	if lv.dead {
		return
	}
	lv.dead = true
	if lv.wal.IsRunning() {
		_ = lv.wal.Stop()
		lv.wal.Wait()
	}
	releaseAutoFile(lv.wal.Group().Head)
	registry.Lock()
	delete(registry.m, lv.dir)
	registry.Unlock()
}

func releaseAutoFile(af *autofile.AutoFile) {
	defer func() { _ = recover() }()
	v := reflect.ValueOf(af).Elem().FieldByName("hupc")
	if v.IsValid() && v.CanAddr() {
		ch := *(*chan os.Signal)(unsafe.Pointer(v.UnsafeAddr()))
		if ch != nil {
			signal.Stop(ch)
		}
	}
	_ = af.Close()
}

type dirInfo struct {
	head     int64
	total    int64
	numbered int
}

func scanDir(dir string) dirInfo {
	for try := 0; ; try++ {
		di, ok := scanDirOnce(dir)
		if ok || try > 1000 {
			return di
		}
	}
}

// scanDirOnce reports ok=false if a listed file vanished before it could be
// examined (a rotation's rename or a pruning in flight): the sizes would be
// undercounted and settle would return too early.
func scanDirOnce(dir string) (dirInfo, bool) {
	var di dirInfo
	ents, err := os.ReadDir(dir)
	if err != nil {
		return di, true
	}
	for _, e := range ents {
		n := e.Name()
		if len(n) < len(headName) || n[:len(headName)] != headName {
			continue
		}
		fi, err := e.Info()
		if err != nil {
			return di, false
		}
		di.total += fi.Size() // the group counts every file with the head's name as prefix, also wal.CORRUPTED
		if n == headName {
			di.head = fi.Size()
		} else if isNumbered(n) {
			di.numbered++
		}
	}
	return di, true
}

// settle waits until the group's ticker has nothing left to do: the head is
// below the head size limit and the total is below the total size limit (or
// only the head is left).  The ticker's actions are a function of the
// directory state, so waiting for the fixpoint makes the history independent
// of when the ticks happen.
func (lv *live) settle() error {
	if lv.m.checkEvery() >= time.Minute {
		return nil // no ticker: nothing rotates or prunes by itself
	}
	deadline := time.Now().Add(60 * time.Second)
	for {
		di := scanDir(lv.dir)
		needRotate := lv.m.HeadLimit > 0 && di.head >= lv.m.HeadLimit
		needPrune := lv.m.TotalLimit > 0 && di.total >= lv.m.TotalLimit && di.numbered > 0
		if !needRotate && !needPrune {
			return nil
		}
		if time.Now().After(deadline) {
			return inconclusive{"group ticker did not rotate/prune within 60 s"}
		}
		time.Sleep(150 * time.Microsecond)
	}
}

func (lv *live) drain() []event {
	lv.w.mu.Lock()
	ev := lv.w.ev
	lv.w.ev = nil
	lv.w.mu.Unlock()
	return ev
}

// after brings the model up to date after one operation: r (may be nil) is the
// record just handed to the WAL, l0 the logical head length before it, acked
// whether the operation was a sync that returned nil.
func (lv *live) after(r *rec, l0 int64, acked bool) error {
	deadline := time.Now().Add(60 * time.Second)
	for {
		if err := lv.settle(); err != nil {
			return err
		}
		if err := lv.applyEvents(r, l0); err != nil {
			return err
		}
		// group.removed is hit after the unlink: wait until the model has seen
		// every change of the directory
		if why := lv.filesDisagree(); why == "" {
			break
		} else if time.Now().After(deadline) {
			return harnessErr{"directory and model disagree: " + why}
		}
		time.Sleep(150 * time.Microsecond)
	}
	return lv.measure(r, l0, acked)
}

func (lv *live) filesDisagree() string {
	ents, err := os.ReadDir(lv.dir)
	if err != nil {
		return err.Error()
	}
	// GroupReader.openFile opens with O_CREATE and Group.minIndex is never
	// advanced after pruning, so readers re-create pruned files as empty
	// files: an empty numbered file the model does not know is not a file.
	on := map[string]bool{}
	for _, e := range ents {
		if isNumbered(e.Name()) {
			if fi, err := e.Info(); err == nil && fi.Size() == 0 && lv.m.file(e.Name()) == nil {
				continue
			}
			on[e.Name()] = true
		}
	}
	n := 0
	for _, f := range lv.m.Files {
		if f.Name == headName {
			continue
		}
		n++
		if !on[f.Name] {
			return fmt.Sprintf("model has %s, directory does not; dir %v; gone %v; pending events %d; log tail %v", f.Name, on, lv.m.Gone, len(lv.w.ev), tailOf(lv.m.Log, 16))
		}
	}
	if n != len(on) {
		var names []string
		for _, f := range lv.m.Files {
			names = append(names, f.Name)
		}
		return fmt.Sprintf("directory has %d numbered files %v, model %d %v; log tail %v", len(on), on, n, names, tailOf(lv.m.Log, 12))
	}
	return ""
}

func (lv *live) applyEvents(r *rec, l0 int64) error {
	m := lv.m
	for _, e := range lv.drain() {
		switch e.kind {
		case evSynced:
			lv.syncEvents++
			if f := m.file(e.name); f != nil && e.size > f.Synced {
				f.Synced = e.size
			}
		case evRotate:
			h := m.head()
			if e.size < 0 {
				return harnessErr{"rotate hook could not stat the head"}
			}
			if r != nil && r.Len < 0 {
				r.Len = e.size - l0
			}
			if e.size < h.Logical {
				return harnessErr{fmt.Sprintf("rotated file %s has %d bytes, model had written %d", e.name, e.size, h.Logical)}
			}
			if old := m.file(e.name); old != nil && old != h {
				lv.rep.violation(m, "rotation-overwrote-existing-file", -1,
					fmt.Sprintf("the head was rotated to %s, which already existed with %d records (%d bytes)", e.name, len(old.Recs), old.Size), nil)
				return stopLineage{"a rotation replaced an existing file"}
			}
			h.Size, h.Logical = e.size, e.size
			h.Name = e.name
			for _, i := range h.Recs {
				m.J[i].File = e.name
			}
			if m.file(headName) != nil {
				return harnessErr{"two heads in model"}
			}
			if len(e.name) > len(headName)+4 {
				lv.rep.c.Count("rotations_to_index_of_4_or_more_digits", 1)
			}
			lv.rotSeen++
			// read the rotated file back (it may already have been pruned)
			if b, err := os.ReadFile(filepath.Join(lv.dir, e.name)); err == nil {
				if why := m.learnFromBytes(h, b); why != "" {
					return harnessErr{"after rotation: " + why}
				}
			}
			m.Files = append(m.Files, &fileModel{Name: headName})
			delete(m.Gone, e.name)
			m.logf("  rotate -> %s (%d bytes, synced %d)", e.name, e.size, h.Synced)
			lv.rep.c.Count("rotations", 1)
		case evRemoved:
			if e.name == headName {
				lv.rep.violation(m, "size-limit-removed-head-file", -1,
					fmt.Sprintf("the total-size limit removed the head file itself (%d bytes on disk, %d records) - it may discard only whole oldest files", m.head().Size, len(m.head().Recs)), nil)
				return stopLineage{"the head file was removed"}
			}
			if m.file(e.name) == nil && m.Gone[e.name] {
				// an empty file re-created by a reader at a pruned index (see filesDisagree)
				lv.rep.c.Count("empty_recreated_files_removed", 1)
				continue
			}
			if len(m.Files) < 2 || m.Files[0].Name != e.name {
				oldest := m.Files[0].Name
				lv.rep.violation(m, "size-limit-discarded-other-than-oldest-file", -1,
					fmt.Sprintf("the total-size limit removed %s while the oldest file of the group is %s", e.name, oldest), nil)
			}
			if f := m.file(e.name); f != nil && f.Name != headName {
				for _, i := range f.Recs {
					if m.J[i].State == stPresent || m.J[i].State == stDamaged {
						m.J[i].State = stDiscarded
					}
				}
				var keep []*fileModel
				for _, g := range m.Files {
					if g != f {
						keep = append(keep, g)
					}
				}
				m.Files = keep
				m.Gone[e.name] = true
				m.logf("  pruned %s (%d records)", e.name, len(f.Recs))
				lv.rep.c.Count("files_pruned", 1)
			}
		}
	}
	return nil
}

func (lv *live) measure(r *rec, l0 int64, acked bool) error {
	m := lv.m
	h := m.head()
	// (file size, buffered) is read twice until stable: the periodic flush of
	// BaseWAL may move bytes from the buffer to the file in between
	var d, l1 int64
	for try := 0; ; try++ {
		d1 := statSize(headPath(lv.dir))
		b1 := int64(lv.wal.Group().Buffered())
		d2 := statSize(headPath(lv.dir))
		b2 := int64(lv.wal.Group().Buffered())
		if (d1 == d2 && b1 == b2) || try > 1000 {
			d, l1 = d2, d2+b2
			break
		}
	}
	// the head must stay the same file: same inode, never shorter, unless this
	// operation rotated it away
	if ino, ok := inodeOf(headPath(lv.dir)); true {
		if lv.headIno != 0 && lv.headGen == lv.rotSeen && (!ok || ino != lv.headIno || d < lv.headDisk) {
			lv.rep.violation(m, "size-limit-removed-head-file", -1,
				fmt.Sprintf("the head file was replaced or truncated without a rotation: inode %d with %d bytes before, now present=%v inode %d with %d bytes", lv.headIno, lv.headDisk, ok, ino, d), nil)
			return stopLineage{"the head file was replaced"}
		}
		lv.headIno, lv.headDisk, lv.headGen = 0, 0, lv.rotSeen
		if ok {
			lv.headIno, lv.headDisk = ino, d
		}
	}
	if r != nil && r.Len < 0 {
		r.Len = l1 - l0
		if r.Len < 8 {
			return harnessErr{fmt.Sprintf("record %s: measured frame length %d", r.desc(), r.Len)}
		}
	}
	// If a rotation happened during this op, r is in the rotated file (File was renamed above).
	if l1 < h.Logical && r == nil {
		return harnessErr{fmt.Sprintf("head shrank: %d -> %d", h.Logical, l1)}
	}
	h.Size, h.Logical = d, l1
	if r != nil && r.File == headName {
		if r.Off+r.Len != l1 {
			return harnessErr{fmt.Sprintf("offset bookkeeping: %s ends at %d, head logical length %d", r.desc(), r.Off+r.Len, l1)}
		}
	}
	if d > 0 {
		need := false
		for _, i := range h.Recs {
			x := m.J[i]
			if x.State == stPresent && !x.TimeOK && x.Len >= 0 && x.Off+x.Len <= d {
				need = true
				break
			}
		}
		if need {
			b, err := os.ReadFile(headPath(lv.dir))
			if err != nil {
				return harnessErr{"read head: " + err.Error()}
			}
			if why := m.learnFromBytes(h, b); why != "" {
				return harnessErr{"after flush: " + why}
			}
		}
	}
	if acked {
		// A sync that returned nil covers every record handed to the WAL since it
		// was opened.  Unsynced records that merely survived an earlier crash stay
		// "may be returned" for ever (the oracle demands less).
		for _, x := range m.J {
			if !x.Acked && x.State == stPresent && x.Cycle == m.Cycle {
				x.Acked = true
			}
		}
	}
	return nil
}

// op kinds
const (
	opWrite = iota
	opWriteSync
	opFlush
	opEndSync
	opEndWrite
	opPartWrite   // msgInfo{BlockPartMessage} through Write
	opPartSync    // ... through WriteSync
	opRotate      // Group().RotateFile() called by the harness (only with the group's ticker off)
	opEndZeroSync // WriteSync(EndHeightMessage{0}): the marker older versions wrote at the top of every head they found empty
)

type opSpec struct {
	Kind    int
	StepLen int
	Gap     int64
	// FixedTime (non-zero): the record goes through the exported encoder on the
	// WAL's group with this timestamp - what BaseWAL.Write does with tmtime.Now -
	// so that its encoded size is exact; a sync kind is followed by FlushAndSync.
	FixedTime time.Time
	// MayRefuse: an error of the write is an outcome (the writer's size limit),
	// not a harness failure; the record then never existed.
	MayRefuse bool
}

func stepString(id int64, n int) string {
	b := make([]byte, n)
	s := fmt.Sprintf("s%d/", id)
	for i := range b {
		b[i] = s[i%len(s)]
	}
	return string(b)
}

// noteGarbage records, before the first append after a (re)open, which bytes
// of the head are not decodable frames (a frame hit by the injected flip, the
// remains of a torn frame at the end): whatever is appended now sits behind
// them.
func (lv *live) noteGarbage() error {
	lv.checked = true
	m := lv.m
	h := m.head()
	size := statSize(headPath(lv.dir))
	have := func(at int64) bool {
		for _, t := range h.Taints {
			if t.At == at {
				return true
			}
		}
		return false
	}
	add := func(t *taint) {
		t.Idx = len(m.J)
		h.Taints = append(h.Taints, t)
		m.logf("APPENDING BEHIND GARBAGE: %s", t.Why)
		lv.rep.c.Count("appends_behind_garbage_"+t.Cause, 1)
	}
	var end int64
	for _, i := range h.Recs {
		r := m.J[i]
		if (r.State != stPresent && r.State != stDamaged) || r.Len < 0 || r.Off+r.Len > size {
			continue
		}
		if r.Off+r.Len > end {
			end = r.Off + r.Len
		}
		if r.State == stDamaged && !have(r.Off) {
			t := &taint{At: r.Off, Residual: r.Len}
			if lv.info.CatchupRan {
				t.Cause = "damaged-frame"
				t.Why = fmt.Sprintf("when the node started, an undecodable frame (one flipped byte, never synced) sat at offset %d of the head in front of the newest end-height marker EndHeight{%d}; catchupReplay searches with IgnoreDataCorruptionErrors=true, found the marker behind it and decoded from there to EOF without error, so no repair ran; the next records were appended behind it", r.Off, lv.info.StartMarker)
			} else {
				t.Cause = "catchup-not-run"
				t.Why = fmt.Sprintf("when the node started, an undecodable frame sat at offset %d of the head and the node did not read the tail before appending (%s)", r.Off, lv.info.Note)
			}
			add(t)
		}
	}
	if res := size - end; res > 0 && !have(end) {
		t := &taint{At: end, Residual: res}
		switch {
		case res <= 3 && lv.info.CatchupRan:
			t.Cause = "short-tail"
			t.Why = fmt.Sprintf("when the node started, the head ended in %d byte(s) of a torn frame at offset %d (shorter than the 4-byte CRC field); the decoder reported clean EOF, no repair ran, the next records were appended behind these bytes", res, end)
		case !lv.info.CatchupRan:
			t.Cause = "catchup-not-run"
			t.Why = fmt.Sprintf("when the node started, the head ended in %d bytes of a torn frame at offset %d and the node did not read the tail before appending (%s)", res, end, lv.info.Note)
		default:
			t.Cause = "tail-kept-after-catchup"
			t.Why = fmt.Sprintf("catchup ran from EndHeight{%d} (repaired=%v) and the head still ended in %d undecodable bytes at offset %d", lv.info.StartMarker, lv.info.Repaired, res, end)
		}
		add(t)
	}
	return nil
}

func (lv *live) do(op opSpec) error {
	m := lv.m
	if !lv.checked {
		if err := lv.noteGarbage(); err != nil {
			return err
		}
	}
	h := m.head()
	l0 := h.Logical
	var r *rec
	var msg consensus.WALMessage
	switch op.Kind {
	case opWrite, opWriteSync:
		id := m.NextID
		m.NextID++
		r = &rec{End: false, H: id, R: int32(m.Cycle), Step: stepString(id, op.StepLen)}
		msg = types.EventDataRoundState{Height: r.H, Round: r.R, Step: r.Step}
	case opPartWrite, opPartSync:
		id := m.NextID
		m.NextID++
		r = &rec{Part: true, H: id, R: int32(m.Cycle), Step: stepString(id, op.StepLen)}
		var err error
		if msg, err = makePartMsg(r.H, r.R, []byte(r.Step)); err != nil {
			return harnessErr{"building a BlockPartMessage WAL message: " + err.Error()}
		}
	case opEndZeroSync:
		r = &rec{End: true, H: 0}
		msg = consensus.EndHeightMessage{Height: 0}
	case opEndSync, opEndWrite:
		m.NextH += op.Gap
		r = &rec{End: true, H: m.NextH}
		m.NextH++
		msg = consensus.EndHeightMessage{Height: r.H}
	}
	if r != nil {
		r.Idx, r.Cycle, r.File, r.Off, r.Len = len(m.J), m.Cycle, headName, l0, -1
		m.J = append(m.J, r)
		h.Recs = append(h.Recs, r.Idx)
	}
	var err error
	acked := false
	verb := ""
	if m.sink != nil { // write-ahead: the parent shows these lines if the process dies in this operation
		d := "FlushAndSync / RotateFile"
		if r != nil {
			d = r.desc()
		}
		m.sink.WriteString(fmt.Sprintf("about to run op kind %d: %s\n", op.Kind, d))
	}
	switch op.Kind {
	case opRotate:
		lv.wal.Group().RotateFile()
		verb = "Group().RotateFile()"
		lv.rep.c.Count("explicit_RotateFile_calls", 1)
	case opWrite, opEndWrite, opPartWrite:
		err = lv.wal.Write(msg)
		verb = "Write"
	case opWriteSync, opEndSync, opPartSync, opEndZeroSync:
		if !op.FixedTime.IsZero() {
			verb = "Encode(fixed time)+FlushAndSync"
			err = consensus.NewWALEncoder(lv.wal.Group()).Encode(&consensus.TimedWALMessage{Time: op.FixedTime, Msg: msg})
			if err != nil {
				break
			}
			if err = lv.wal.FlushAndSync(); err != nil {
				return harnessErr{"FlushAndSync failed: " + err.Error()}
			}
			acked = true
			break
		}
		err = lv.wal.WriteSync(msg)
		acked = err == nil
		verb = "WriteSync"
	case opFlush:
		err = lv.wal.FlushAndSync()
		acked = err == nil
		verb = "FlushAndSync"
	}
	if err != nil && op.MayRefuse && r != nil && r.Idx == len(m.J)-1 {
		// refused at write time: nothing reached the group
		m.J = m.J[:len(m.J)-1]
		h.Recs = h.Recs[:len(h.Recs)-1]
		m.logf("%s of a %d-byte step REFUSED: %v", verb, op.StepLen, err)
		lv.refused++
		return lv.after(nil, 0, false)
	}
	if err != nil {
		return harnessErr{"WAL operation " + verb + " failed: " + err.Error()}
	}
	mark := len(m.Log)
	err = lv.after(r, l0, acked)
	line := verb + " -> nil"
	if r != nil {
		line = verb + " " + r.desc() + " -> nil"
	}
	// keep the operation in front of the rotations / prunings it triggered
	if len(m.Log) < 400 {
		m.Log = append(m.Log, "")
		copy(m.Log[mark+1:], m.Log[mark:])
		m.Log[mark] = line
	}
	return err
}

// snapshotDir copies the directory as the OS has it (the bufio contents of the
// live group are not in it: a killed process loses them).
func snapshotDir(dir string) (snapshot, error) {
	ents, err := os.ReadDir(dir)
	if err != nil {
		return nil, err
	}
	s := snapshot{}
	for _, e := range ents {
		b, err := os.ReadFile(filepath.Join(dir, e.Name()))
		if err != nil {
			return nil, err
		}
		s[e.Name()] = b
	}
	if _, ok := s[headName]; !ok {
		s[headName] = []byte{} // after a rotation the head is created lazily
	}
	return s, nil
}

func materialize(base string, s snapshot) (string, error) {
	dir, err := os.MkdirTemp(base, "d")
	if err != nil {
		return "", err
	}
	for name, b := range s {
		if name == headName && len(b) == 0 {
			continue
		}
		if err := os.WriteFile(filepath.Join(dir, name), b, 0o600); err != nil {
			return "", err
		}
	}
	return dir, nil
}

// ---------------------------------------------------------------- node start emulation

// repairWalFile is the procedure of consensus/state.go repairWalFile (which is
// unexported), re-implemented literally with the exported decoder / encoder.
// The coordinator may point it at a verif-tagged export of the real function.
var repairWalFile = func(src, dst string) error {
	in, err := os.Open(src)
	if err != nil {
		return err
	}
	defer in.Close()
	out, err := os.Create(dst)
	if err != nil {
		return err
	}
	defer out.Close()
	dec := consensus.NewWALDecoder(in)
	enc := consensus.NewWALEncoder(out)
	for {
		msg, err := dec.Decode()
		if err != nil {
			break
		}
		if err = enc.Encode(msg); err != nil {
			return fmt.Errorf("failed to encode msg: %w", err)
		}
	}
	return nil
}

type startInfo struct {
	CatchupRan  bool   `json:"catchup_ran"`
	StartMarker int64  `json:"start_marker"`
	Repaired    bool   `json:"repaired"`
	StartFailed bool   `json:"start_failed"`
	Note        string `json:"note,omitempty"`
}

// markerHeights returns the distinct marker heights of the journal, newest first.
func (m *model) markerHeights() []int64 {
	seen := map[int64]bool{}
	var out []int64
	for i := len(m.J) - 1; i >= 0; i-- {
		if r := m.J[i]; r.End && !seen[r.H] {
			seen[r.H] = true
			out = append(out, r.H)
		}
	}
	return out
}

// catchup does what catchupReplay does with the WAL for a node whose state is
// one above the newest end-height marker it can find: search that marker with
// IgnoreDataCorruptionErrors=true and decode to EOF.
func (lv *live) catchup() (marker int64, found bool, err error) {
	for _, h := range lv.m.markerHeights() {
		rd, ok, e := lv.wal.SearchForEndHeight(h, &consensus.WALSearchOptions{IgnoreDataCorruptionErrors: true})
		if e != nil {
			return h, false, e
		}
		if !ok {
			continue
		}
		dec := consensus.NewWALDecoder(rd)
		for n := 0; ; n++ {
			_, e = dec.Decode()
			if e == io.EOF {
				rd.Close()
				return h, true, nil
			}
			if e != nil {
				rd.Close()
				return h, true, e
			}
			if n > 1000000 {
				rd.Close()
				return h, true, inconclusive{"decoder did not reach EOF after 1e6 records"}
			}
		}
	}
	return -1, false, nil
}

// nodeStart emulates State.OnStart on dir: loadWalFile, catchupReplay, and on a
// DataCorruptionError the stop / backup / repair / reload sequence, once.
func nodeStart(m *model, dir string, rep *reporter, skipCatchup bool) (*live, startInfo, error) {
	var info startInfo
	lv, err := openLive(m, dir, rep)
	if err != nil {
		return nil, info, err
	}
	if skipCatchup {
		info.Note = "doWALCatchup=false (as after block sync / state sync)"
		m.logf("START: catchup skipped")
		lv.info = info
		return lv, info, nil
	}
	for attempt := 0; ; attempt++ {
		h, found, err := lv.catchup()
		var ie inconclusive
		if errors.As(err, &ie) {
			lv.stop()
			return nil, info, err
		}
		info.StartMarker = h
		if !found && err == nil {
			info.Note = "no end-height marker found: node logs the error and proceeds without reading the tail"
			m.logf("START: no marker found, no catchup")
			lv.info = info
			return lv, info, nil
		}
		info.CatchupRan = true
		if err == nil {
			m.logf("START: catchup from EndHeight{%d} reached EOF (attempt %d)", h, attempt)
			lv.info = info
			return lv, info, nil
		}
		if !consensus.IsDataCorruptionError(err) {
			info.Note = "catchup error (not corruption): " + err.Error()
			m.logf("START: %s", info.Note)
			lv.info = info
			return lv, info, nil
		}
		if attempt > 0 {
			info.StartFailed = true
			info.Note = "corruption persists after repair: " + err.Error()
			m.logf("START: %s", info.Note)
			lv.info = info
			return lv, info, nil
		}
		m.logf("START: catchup from EndHeight{%d}: %v -> repair", h, err)
		rep.c.Count("repairs", 1)
		// 1) cs.wal.Stop()
		lv.stop()
		// 2) backup, 3) repair
		hp := headPath(dir)
		corrupted := hp + ".CORRUPTED"
		if err := tmos.CopyFile(hp, corrupted); err != nil {
			return nil, info, harnessErr{"CopyFile: " + err.Error()}
		}
		if err := repairWalFile(corrupted, hp); err != nil {
			return nil, info, harnessErr{"repair: " + err.Error()}
		}
		info.Repaired = true
		if err := resyncHead(m, dir, rep); err != nil {
			return nil, info, err
		}
		// reload
		lv, err = openLive(m, dir, rep)
		if err != nil {
			return nil, info, err
		}
	}
}

// resyncHead rebuilds the head's part of the model from the repaired file.
func resyncHead(m *model, dir string, rep *reporter) error {
	b, err := os.ReadFile(headPath(dir))
	if err != nil {
		return harnessErr{"read repaired head: " + err.Error()}
	}
	p, frames, offs := cleanPrefix(b)
	h := m.head()
	if p != int64(len(b)) {
		rep.violation(m, "repaired-file-not-decodable", -1,
			fmt.Sprintf("after the repair the head has %d bytes of which only %d are complete frames", len(b), p), nil)
	}
	var recs []int
	k := 0
	for fi, c := range frames {
		matched := -1
		for ; k < len(h.Recs); k++ {
			r := m.J[h.Recs[k]]
			// stLostCut: a frame torn by the crash can be completed by the first
			// bytes appended later (1 in 256 for a frame that lost one byte); it is
			// then a record that was written, byte-identical and in order
			if (r.State == stPresent || r.State == stRepairDrop || r.State == stLostCut) && r.matches(c) {
				if r.State == stLostCut {
					rep.c.Count("torn_frame_completed_by_later_bytes", 1)
				}
				matched = r.Idx
				k++
				break
			}
		}
		if matched < 0 {
			rep.violation(m, "repair-produced-unwritten-record", -1,
				fmt.Sprintf("the repaired head contains %+v at offset %d which is no record of this file in write order", shortCanon(c), offs[fi]), nil)
			continue
		}
		r := m.J[matched]
		r.Off = offs[fi]
		r.State = stPresent
		r.TimeNs, r.TimeOK = c.TimeNs, true
		recs = append(recs, matched)
	}
	keep := map[int]bool{}
	for _, i := range recs {
		keep[i] = true
	}
	for _, i := range h.Recs {
		r := m.J[i]
		if keep[i] {
			continue
		}
		if r.State == stPresent {
			r.State = stRepairDrop
			if r.Acked {
				rep.violation(m, "synced-record-dropped-by-repair", r.Idx,
					"the repair of the head dropped a record whose sync had returned nil: "+r.desc(), nil)
			}
		}
	}
	h.Recs = recs
	h.Taints = nil
	h.Size, h.Logical, h.Synced = int64(len(b)), int64(len(b)), int64(len(b))
	m.logf("  repaired head: %d records, %d bytes", len(recs), len(b))
	return nil
}

func shortCanon(c canon) string {
	if c.End {
		return fmt.Sprintf("EndHeight{%d}@%d", c.H, c.TimeNs)
	}
	return fmt.Sprintf("RoundState{id=%d,round=%d,steplen=%d}@%d", c.H, c.R, len(c.Step), c.TimeNs)
}

func tailOf(s []string, n int) []string {
	if len(s) > n {
		return s[len(s)-n:]
	}
	return s
}

// makePartMsg returns the WAL message a node logs for a received block part:
// msgInfo{Msg: &BlockPartMessage{...}}.  msgInfo is unexported; the value is
// obtained from the exported decoder, which builds it from the protobuf form.
func makePartMsg(height int64, round int32, bytes []byte) (consensus.WALMessage, error) {
	pb := tmcons.TimedWALMessage{Time: time.Unix(1700000000, 0).UTC(), Msg: &tmcons.WALMessage{Sum: &tmcons.WALMessage_MsgInfo{MsgInfo: &tmcons.MsgInfo{
		PeerID: "verif-peer",
		Msg: tmcons.Message{Sum: &tmcons.Message_BlockPart{BlockPart: &tmcons.BlockPart{Height: height, Round: round,
			Part: tmproto.Part{Index: 0, Bytes: bytes, Proof: tmcrypto.Proof{Total: 1, Index: 0, LeafHash: make([]byte, 32)}}}}},
	}}}}
	data, err := pb.Marshal()
	if err != nil {
		return nil, err
	}
	frame := make([]byte, 8+len(data))
	binary.BigEndian.PutUint32(frame[0:4], crc32.Checksum(data, castagnoli))
	binary.BigEndian.PutUint32(frame[4:8], uint32(len(data)))
	copy(frame[8:], data)
	t, err := consensus.NewWALDecoder(bytes2.NewReader(frame)).Decode()
	if err != nil {
		return nil, err
	}
	return t.Msg, nil
}

func (m *model) checkEvery() time.Duration {
	if m.CheckEvery > 0 {
		return m.CheckEvery
	}
	return tick
}

func inodeOf(p string) (uint64, bool) {
	st, err := os.Stat(p)
	if err != nil {
		return 0, false
	}
	if s, ok := st.Sys().(*syscall.Stat_t); ok {
		return s.Ino, true
	}
	return 0, false
}
