package c15

// C15b: replaying the records of the unfinished height brings the node back to
// the height, round, step, lock and vote sets it had reached.
//
// Engine sim with a real consensus WAL on disk attached to one node.  At seeded
// quiescent points (the node's own message queue is empty) the WAL is flushed,
// its directory is copied, a fresh consensus state is built on copies of the
// node's stores and on the copied WAL, the production catchupReplay is run,
// and the replayed round state is compared with the live one.

import (
	"bytes"
	"encoding/binary"
	"fmt"
	"hash/crc32"
	"math/rand"
	"os"
	"os/exec"
	"path/filepath"
	"runtime"
	"sort"
	"strconv"
	"strings"
	"sync"
	"time"

	tmcfg "github.com/tendermint/tendermint/config"
	cs "github.com/tendermint/tendermint/consensus"
	cstypes "github.com/tendermint/tendermint/consensus/types"
	"github.com/tendermint/tendermint/libs/autofile"
	"github.com/tendermint/tendermint/libs/log"
	"github.com/tendermint/tendermint/privval"
	"github.com/tendermint/tendermint/types"

	"verif/recapp"
	"verif/sim"
	"verif/verdict"
)

func init() { runReplay = runReplayStage }

type rsView struct {
	Height      int64    `json:"height"`
	Round       int32    `json:"round"`
	Step        string   `json:"step"`
	LockedRound int32    `json:"locked_round"`
	Locked      string   `json:"locked_block"`
	ValidRound  int32    `json:"valid_round"`
	Valid       string   `json:"valid_block"`
	Proposal    string   `json:"proposal"`
	PropBlock   string   `json:"proposal_block"`
	Parts       string   `json:"proposal_parts"`
	CommitRound int32    `json:"commit_round"`
	Votes       []string `json:"votes"`
	LastCommit  string   `json:"last_commit"`
}

func hashOf(b *types.Block) string {
	if b == nil {
		return ""
	}
	return fmt.Sprintf("%X", b.Hash())
}

func view(rs *cstypes.RoundState) rsView {
	v := rsView{Height: rs.Height, Round: rs.Round, Step: rs.Step.String(), LockedRound: rs.LockedRound, Locked: hashOf(rs.LockedBlock),
		ValidRound: rs.ValidRound, Valid: hashOf(rs.ValidBlock), PropBlock: hashOf(rs.ProposalBlock), CommitRound: rs.CommitRound}
	if rs.Proposal != nil {
		v.Proposal = fmt.Sprintf("%d/%d/%d/%X/%X", rs.Proposal.Height, rs.Proposal.Round, rs.Proposal.POLRound, rs.Proposal.BlockID.Hash, rs.Proposal.Signature)
	}
	if rs.ProposalBlockParts != nil {
		v.Parts = fmt.Sprintf("%X:%s", rs.ProposalBlockParts.Header().Hash, rs.ProposalBlockParts.BitArray().String())
	}
	maxR := rs.Round
	if rs.Votes.Round() > maxR {
		maxR = rs.Votes.Round()
	}
	// catch-up rounds admitted for peers may lie beyond Round()+1 and Round() itself depends on whether
	// enterNewRound has run: list every round that holds votes, not a range derived from Round()
	for r := int32(0); r <= maxR+64; r++ {
		if pv := rs.Votes.Prevotes(r); pv != nil && !pv.BitArray().IsEmpty() { // an allocated but empty set carries no information
			m, ok := pv.TwoThirdsMajority()
			v.Votes = append(v.Votes, fmt.Sprintf("r%d prevotes %s maj23=%v:%X", r, pv.BitArray().String(), ok, m.Hash))
		}
		if pc := rs.Votes.Precommits(r); pc != nil && !pc.BitArray().IsEmpty() {
			m, ok := pc.TwoThirdsMajority()
			v.Votes = append(v.Votes, fmt.Sprintf("r%d precommits %s maj23=%v:%X", r, pc.BitArray().String(), ok, m.Hash))
		}
	}
	if rs.LastCommit != nil {
		v.LastCommit = rs.LastCommit.BitArray().String()
	}
	return v
}

func diff(a, b rsView) []string {
	var d []string
	cmp := func(name string, x, y interface{}) {
		if fmt.Sprint(x) != fmt.Sprint(y) {
			d = append(d, fmt.Sprintf("%s: live %v, replayed %v", name, x, y))
		}
	}
	cmp("height", a.Height, b.Height)
	cmp("round", a.Round, b.Round)
	cmp("step", a.Step, b.Step)
	cmp("locked_round", a.LockedRound, b.LockedRound)
	cmp("locked_block", a.Locked, b.Locked)
	cmp("valid_round", a.ValidRound, b.ValidRound)
	cmp("valid_block", a.Valid, b.Valid)
	cmp("proposal", a.Proposal, b.Proposal)
	cmp("proposal_block", a.PropBlock, b.PropBlock)
	cmp("proposal_parts", a.Parts, b.Parts)
	cmp("votes", a.Votes, b.Votes)
	return d
}

func runReplayCase(c *verdict.Ctx, idx int, tmp string) {
	r := c.Rand("replay", idx)
	cfg := sim.DrawConfig(r, false)
	cfg.Bumps = false
	walDir := filepath.Join(tmp, fmt.Sprintf("wal-%d", idx))
	_ = os.MkdirAll(walDir, 0o755)
	defer os.RemoveAll(walDir)
	// the observed node: the first correct validator
	obs := -1
	for i := range cfg.Powers {
		f := false
		for _, g := range cfg.Faulty {
			if g == i {
				f = true
			}
		}
		if !f {
			obs = i
			break
		}
	}
	walFile := filepath.Join(walDir, "live", "wal")
	var liveWAL *cs.BaseWAL
	seed := c.SubSeed("replay-keys", idx)
	// every second case the observed node signs through a real privval.FilePV (sign state on disk), like a real
	// node: during a replay that signer answers a request for an earlier round with an error and the last one with
	// the stored signature, where MockPV signs anything again
	useFilePV := idx%2 == 1
	pvDir := filepath.Join(walDir, "live-pv")
	pvKeyFile, pvStateFile := filepath.Join(pvDir, "key.json"), filepath.Join(pvDir, "state.json")
	if useFilePV {
		_ = os.MkdirAll(pvDir, 0o755)
		c.Count("replay.cases_with_file_signer", 1)
	}
	net := sim.NewNet(r, sim.NetOpt{Seed: seed, Powers: cfg.Powers, Faulty: cfg.Faulty, SkipTimeoutCommit: cfg.Skip, InitialHeight: cfg.InitialH,
		NodeOpt: func(i int) sim.NodeOpt {
			o := sim.NodeOpt{SkipTimeoutCommit: cfg.Skip}
			if i == obs {
				w, err := cs.NewWAL(walFile, autofile.GroupCheckDuration(time.Hour))
				if err != nil {
					panic(err)
				}
				w.SetLogger(log.NewNopLogger())
				w.SetFlushInterval(time.Hour)
				if err := w.Start(); err != nil {
					panic(err)
				}
				liveWAL = w
				o.WAL = w
				if useFilePV {
					fpv := privval.NewFilePV(sim.KeyOf(seed, obs), pvKeyFile, pvStateFile)
					fpv.Save()
					o.PV = fpv
				}
			}
			return o
		}})
	defer func() {
		net.Close()
		if liveWAL != nil {
			_ = liveWAL.Stop()
			liveWAL.Wait()
		}
	}()
	net.TraceOn = c.Replay() != ""
	net.JournalOn = true
	net.Start()
	net.Pump()
	nd := net.Nodes[obs]
	points := 3 + r.Intn(4)
	emptyHeadRestartAt := map[int64]bool{} // heights during which the WAL was reopened on an empty head (-> #ENDHEIGHT 0 written there)
	for p := 0; p < points; p++ {
		switch r.Intn(4) {
		case 0:
			_, hi0 := net.MinMaxHeight()
			net.RunSync(hi0, 60, 200, nil)
			net.Synchronous = false
			net.RecipeSplitLock()
		case 1:
			_, hi0 := net.MinMaxHeight()
			net.RunSync(hi0, 60, 200, nil)
			net.Synchronous = false
			net.RecipeCommitWithoutBlock()
		default:
		}
		net.AsyncRun(20 + r.Intn(200))
		if nd.Halted != "" {
			break
		}
		// ---- quiescent point: flush, copy, replay, compare
		if err := liveWAL.FlushAndSync(); err != nil {
			c.HarnessError("flush: %v", err)
			return
		}
		live := view(nd.CS.GetRoundState())
		cpDir := filepath.Join(walDir, fmt.Sprintf("copy-%d", p))
		if out, err := exec.Command("cp", "-a", filepath.Join(walDir, "live"), cpDir).CombinedOutput(); err != nil {
			c.HarnessError("cp: %v %s", err, out)
			return
		}
		w2, err := cs.NewWAL(filepath.Join(cpDir, "wal"), autofile.GroupCheckDuration(time.Hour))
		if err != nil {
			c.HarnessError("open copied wal: %v", err)
			return
		}
		w2.SetLogger(log.NewNopLogger())
		w2.SetFlushInterval(time.Hour)
		if err := w2.Start(); err != nil {
			c.HarnessError("start copied wal: %v", err)
			return
		}
		app := recapp.New(recapp.Options{}) // never called unless the replay (wrongly) commits
		repOpt := sim.NodeOpt{SkipTimeoutCommit: cfg.Skip, WAL: w2}
		if useFilePV {
			repOpt.PV = copyFilePV(pvDir, filepath.Join(cpDir, "pv"))
		}
		rep := sim.NewNodeFrom(obs, net.GenDoc, sim.KeyOf(seed, obs), repOpt,
			sim.CopyMemDB(nd.BlockDB), sim.CopyMemDB(nd.StateDB), sim.CopyMemDB(nd.EvDB), app)
		if os.Getenv("VERIF_C15B_CASE") != "" {
			// debug: dump the records after the last end-of-height marker
			f, _ := os.Open(filepath.Join(cpDir, "wal"))
			dec := cs.NewWALDecoder(f)
			var recs []string
			for {
				m, err := dec.Decode()
				if err != nil {
					break
				}
				if _, ok := m.Msg.(cs.EndHeightMessage); ok {
					recs = nil
				}
				recs = append(recs, fmt.Sprintf("%T %v", m.Msg, m.Msg))
			}
			f.Close()
			fmt.Printf("point %d live=%s/%d/%d records after last marker:\n", p, live.Step, live.Height, live.Round)
			for _, x := range recs {
				if len(x) > 200 {
					x = x[:200]
				}
				fmt.Println("   ", x)
			}
		}
		var rerr error
		panicked := ""
		func() {
			defer func() {
				if x := recover(); x != nil {
					panicked = fmt.Sprint(x)
				}
			}()
			if os.Getenv("VERIF_C15B_LOG") != "" {
				rep.CS.SetLogger(log.NewTMLogger(log.NewSyncWriter(os.Stdout)))
			}
			rerr = rep.CS.VerifCatchupReplay(rep.CS.GetRoundState().Height)
		}()
		replayed := view(rep.CS.GetRoundState())
		initialMarkers := countEndHeightMarkers(w2, cfg.InitialH-1)
		rep.Close()
		_ = w2.Stop()
		w2.Wait()
		_ = os.RemoveAll(cpDir)
		c.Eval()
		c.Count("replay.points", 1)
		c.Count("replay.points.step."+live.Step, 1)
		if live.LockedRound >= 0 {
			c.Count("replay.points.locked", 1)
		}
		if live.ValidRound >= 0 {
			c.Count("replay.points.valid_block", 1)
		}
		if live.Round > 0 {
			c.Count("replay.points.round>0", 1)
		}
		if live.Step == "RoundStepCommit" && live.PropBlock == "" {
			c.Count("replay.points.commit_without_block", 1)
		}
		c.Distinct("replay", idx, p, live.Height, live.Round, live.Step, live.LockedRound, live.ValidRound, len(live.Votes))
		w := map[string]interface{}{"stream": "replay", "case": idx, "point": p, "config": cfg, "live": live, "replayed": replayed, "replay_error": fmt.Sprint(rerr), "panic": panicked}
		switch {
		case panicked != "":
			c.Violation("replay-panics", "catchupReplay panicked: "+panicked, w)
		case rerr != nil:
			c.Violation("replay-fails", "catchupReplay failed on a flushed WAL: "+rerr.Error(), w)
		default:
			if d := diff(live, replayed); len(d) > 0 {
				w["differences"] = d
				key := "replay-state-differs"
				onlyStep := len(d) == 1 && live.Step != replayed.Step
				switch {
				case live.Height == cfg.InitialH && emptyHeadRestartAt[live.Height] && initialMarkers > 1:
					// at the initial height catchupReplay looks for "#ENDHEIGHT 0"; a restart on an empty head (right after a
					// rotation) writes another "#ENDHEIGHT 0" in the middle of that height's records and the search finds it first
					key = "replay-starts-at-endheight-0-written-by-restart-on-empty-head-at-initial-height"
				case onlyStep && replayed.Step == "RoundStepNewHeight" && cfg.Skip:
					// with skip_timeout_commit the vote that completes the commit of h-1 also moves the node into
					// round 0 of h; that vote sits before the end-of-height marker and is not replayed
					key = "replay-step-stays-newheight-after-skip-timeout-commit"
				case equivocationSeen(nd, live.Height) && (!containsField(d, "height", "round", "step", "proposal:", "proposal_block") ||
					(lostClaimedMajority(live.Votes, replayed.Votes) && !containsField(d, "height"))):
					// (second form: a polka that existed live only through such a vote is missing after replay, and
					// what hangs on it differs too - a proposal whose POL round it was stays incomplete, so the
					// replayed node is still waiting in an earlier step and has not locked, or has not seen the commit
					// the live node is waiting for and went on to later rounds)
					// votes admitted only because a peer claimed a 2/3 majority (SetPeerMaj23 is not written to the WAL)
					// are refused as conflicting on replay: vote sets / polka-derived fields differ
					key = "replay-loses-conflicting-votes-admitted-through-unlogged-maj23-claim"
				}
				c.Violation(key, fmt.Sprintf("replaying the WAL of the unfinished height does not restore the state: %v", d), w)
			} else {
				c.Count("replay.points_equal", 1)
			}
		}
		if c.WantSample() && p == 1 && idx < 3 {
			c.Sample(map[string]interface{}{"stream": "replay", "case": idx, "point": p, "live_state": live})
		}
		// ---- a crash that left a partial record at the end of the head, then the start-up of a real State on it
		if tr := c.Rand("replay-torn", idx*64+p); tr.Intn(2) == 0 {
			var pvSrc string
			if useFilePV {
				pvSrc = pvDir
			}
			runTornTail(c, tr, idx, p, walDir, nd, net, cfg.Skip, obs, seed, pvSrc)
		}
		// ---- sometimes the node "restarts" here in the middle of the height: the WAL is closed and opened
		// again the way the node does it (an empty head gets an #ENDHEIGHT 0 marker), possibly right after the
		// head was rotated.  The state machine keeps what a successful replay would have restored (checked
		// above); what changes is the WAL the later records go to and the next replay has to read through.
		if r.Intn(3) == 0 {
			rotated := false
			if r.Intn(2) == 0 {
				liveWAL.Group().RotateFile()
				c.Count("replay.live_wal_rotated_before_restart", 1)
				emptyHeadRestartAt[nd.CS.GetRoundState().Height] = true
				rotated = true
			}
			_ = liveWAL.Stop()
			liveWAL.Wait()
			w, err := cs.NewWAL(walFile, autofile.GroupCheckDuration(time.Hour))
			if err != nil {
				c.HarnessError("reopen live wal: %v", err)
				return
			}
			w.SetLogger(log.NewNopLogger())
			w.SetFlushInterval(time.Hour)
			if err := w.Start(); err != nil {
				c.HarnessError("restart live wal: %v", err)
				return
			}
			// WALs written before BaseWAL.OnStart was repaired carry an "#ENDHEIGHT 0" at the top of a head that
			// was empty at a restart; a replay of a later height has to read through such a marker
			if rotated && nd.CS.GetRoundState().Height > cfg.InitialH && r.Intn(2) == 0 {
				if err := w.WriteSync(cs.EndHeightMessage{Height: 0}); err != nil {
					c.HarnessError("legacy marker: %v", err)
					return
				}
				c.Count("replay.legacy_endheight0_in_the_middle_of_a_height", 1)
			}
			liveWAL = w
			nd.CS.VerifSetWAL(w)
			c.Count("replay.live_wal_restarts", 1)
		}
	}
}

func copyFilePV(srcDir, dstDir string) *privval.FilePV {
	_ = os.MkdirAll(dstDir, 0o755)
	for _, f := range []string{"key.json", "state.json"} {
		b, err := os.ReadFile(filepath.Join(srcDir, f))
		if err != nil {
			panic(err)
		}
		if err := os.WriteFile(filepath.Join(dstDir, f), b, 0o600); err != nil {
			panic(err)
		}
	}
	return privval.LoadFilePV(filepath.Join(dstDir, "key.json"), filepath.Join(dstDir, "state.json"))
}

// walFrames returns the well-formed records (crc, length, payload) of every file of a WAL group in order,
// reading each file up to its first malformed record.
func walFrames(head string) (frames [][]byte, headBytes int) {
	dir, base := filepath.Dir(head), filepath.Base(head)
	ents, _ := os.ReadDir(dir)
	type nf struct {
		n    int
		name string
	}
	var files []nf
	for _, e := range ents {
		if strings.HasPrefix(e.Name(), base+".") {
			if n, err := strconv.Atoi(strings.TrimPrefix(e.Name(), base+".")); err == nil {
				files = append(files, nf{n, e.Name()})
			}
		}
	}
	sort.Slice(files, func(i, j int) bool { return files[i].n < files[j].n })
	files = append(files, nf{1 << 30, base})
	for _, f := range files {
		b, err := os.ReadFile(filepath.Join(dir, f.name))
		if err != nil {
			continue
		}
		if f.name == base {
			headBytes = len(b)
		}
		for len(b) >= 8 {
			crc, n := binary.BigEndian.Uint32(b[:4]), int(binary.BigEndian.Uint32(b[4:8]))
			if n <= 0 || 8+n > len(b) || crc32.Checksum(b[8:8+n], castagnoli) != crc {
				break
			}
			frames = append(frames, b[:8+n])
			b = b[8+n:]
		}
	}
	return frames, headBytes
}

// runTornTail: the WAL as flushed at this point plus a partial / garbled record at the end of the head (what a
// crash in the middle of a write leaves).  A consensus State on copies of the node's stores is started for real
// on it (State.OnStart: open the WAL, catch-up replay, on a corrupted record back the file up, repair it, open it
// again, replay) and stopped.  Every record that was in the WAL before the damage must still be there, in order.
func runTornTail(c *verdict.Ctx, tr *rand.Rand, idx, p int, walDir string, nd *sim.Node, net *sim.Net, skip bool, obs int, seed int64, pvSrc string) {
	dir := filepath.Join(walDir, fmt.Sprintf("torn-%d", p))
	defer os.RemoveAll(dir)
	if out, err := exec.Command("cp", "-a", filepath.Join(walDir, "live"), dir).CombinedOutput(); err != nil {
		c.HarnessError("cp: %v %s", err, out)
		return
	}
	head := filepath.Join(dir, "wal")
	before, headBytes := walFrames(head)
	var tail []byte
	kind := ""
	switch tr.Intn(4) {
	case 0, 1: // the frame header made it, the payload only in part
		payload := make([]byte, 20+tr.Intn(3000))
		tr.Read(payload)
		tail = make([]byte, 8)
		binary.BigEndian.PutUint32(tail[:4], crc32.Checksum(payload, castagnoli))
		binary.BigEndian.PutUint32(tail[4:8], uint32(len(payload)))
		tail = append(tail, payload[:tr.Intn(len(payload))]...)
		kind = "partial-payload"
	case 2: // not even the frame header
		tail = make([]byte, 1+tr.Intn(7))
		tr.Read(tail)
		kind = "partial-header"
	default: // garbage
		tail = make([]byte, 8+tr.Intn(600))
		tr.Read(tail)
		kind = "garbage"
	}
	f, err := os.OpenFile(head, os.O_WRONLY|os.O_APPEND, 0o600)
	if err != nil {
		c.HarnessError("torn: %v", err)
		return
	}
	_, _ = f.Write(tail)
	_ = f.Close()
	conf := tmcfg.TestConsensusConfig()
	conf.SkipTimeoutCommit = skip
	conf.SetWalFile(head)
	// nothing is to happen between the start-up and the stop
	conf.TimeoutPropose, conf.TimeoutPrevote, conf.TimeoutPrecommit, conf.TimeoutCommit = time.Hour, time.Hour, time.Hour, time.Hour
	opt := sim.NodeOpt{Config: conf, RealTicker: true}
	if pvSrc != "" {
		opt.PV = copyFilePV(pvSrc, filepath.Join(dir, "pv"))
	}
	// a copy of the live application: the start-up replays the records a second time after the repair, into
	// a state machine that has already seen them once, and may then legitimately commit the unfinished height
	// (e.g. a block part that came before its proposal is accepted on the second pass)
	app := nd.App.Clone(recapp.Options{})
	rep := sim.NewNodeFrom(obs, net.GenDoc, sim.KeyOf(seed, obs), opt, sim.CopyMemDB(nd.BlockDB), sim.CopyMemDB(nd.StateDB), sim.CopyMemDB(nd.EvDB), app)
	if os.Getenv("VERIF_C15B_LOG") != "" {
		rep.CS.SetLogger(log.NewTMLogger(log.NewSyncWriter(os.Stdout)))
	}
	var startErr error
	panicked := ""
	func() {
		defer func() {
			if x := recover(); x != nil {
				panicked = fmt.Sprint(x)
			}
		}()
		startErr = rep.CS.Start()
		if startErr == nil {
			_ = rep.CS.Stop()
			rep.CS.Wait()
		}
	}()
	if startErr != nil || panicked != "" {
		// the receive routine, which stops the WAL on its way out, never ran: stop the WAL OnStart opened, or its
		// group ticker outlives the directory
		if w, ok := rep.CS.VerifWAL().(*cs.BaseWAL); ok && w != nil && w.IsRunning() {
			_ = w.Stop()
			w.Wait()
		}
	}
	rep.Close()
	c.Eval()
	c.Count("torn.starts", 1)
	c.Count("torn.tail."+kind, 1)
	if headBytes > 4096 {
		c.Count("torn.head_longer_than_4096_bytes", 1)
	}
	if _, err := os.Stat(head + ".CORRUPTED"); err == nil {
		c.Count("torn.repair_performed", 1)
	}
	after, _ := walFrames(head)
	w := map[string]interface{}{"stream": "torn", "case": idx, "point": p, "tail_kind": kind, "tail_bytes": len(tail), "head_bytes_before_damage": headBytes,
		"records_before": len(before), "records_after": len(after), "file_signer": pvSrc != ""}
	c.Distinct("torn", idx, p, kind, len(before))
	switch {
	case panicked != "":
		c.Violation("start-panics-on-torn-wal-tail", "State.OnStart panicked on a WAL whose head ends in a partial record: "+panicked, w)
	case startErr != nil:
		c.Violation("start-fails-on-torn-wal-tail", "State.OnStart failed on a WAL whose head ends in a partial record: "+startErr.Error(), w)
	default:
		lost := -1
		for i := range before {
			if i >= len(after) || !bytes.Equal(before[i], after[i]) {
				lost = i
				break
			}
		}
		if lost >= 0 {
			w["first_lost_record"] = lost
			c.Violation("start-on-torn-wal-tail-loses-flushed-records",
				fmt.Sprintf("after the start-up (repair) on a WAL with a %s at the end of the head, record %d of the %d that were in the WAL before the damage is gone or changed (%d records left)", kind, lost, len(before), len(after)), w)
		} else {
			c.Count("torn.all_records_kept", 1)
			c.Count("torn.records_checked", int64(len(before)))
		}
	}
}

// countEndHeightMarkers counts the "#ENDHEIGHT h" records in the whole WAL group (-1: unreadable).
func countEndHeightMarkers(w *cs.BaseWAL, h int64) int {
	g := w.Group()
	gr, err := g.NewReader(g.MinIndex())
	if err != nil {
		return -1
	}
	defer gr.Close()
	dec := cs.NewWALDecoder(gr)
	n := 0
	for {
		m, err := dec.Decode()
		if err != nil {
			return n
		}
		if e, ok := m.Msg.(cs.EndHeightMessage); ok && e.Height == h {
			n++
		}
	}
}

// lostClaimedMajority reports whether some vote set had a 2/3 majority live and has none after
// replay although the SAME validators have voted in both (identical bit arrays): the signature of
// votes that exist only per block, i.e. conflicting votes admitted through a majority claim.  An
// ordinary vote lost by the replay would change the bit array.
func lostClaimedMajority(live, replayed []string) bool {
	ba := func(s string) string {
		i := strings.Index(s, "BA{")
		j := strings.Index(s, "}")
		if i < 0 || j < i {
			return ""
		}
		return s[:j+1]
	}
	for i := range live {
		if i < len(replayed) && live[i] != replayed[i] && ba(live[i]) != "" && ba(live[i]) == ba(replayed[i]) &&
			strings.Contains(live[i], "maj23=true") && strings.Contains(replayed[i], "maj23=false") {
			return true
		}
	}
	return false
}

// equivocationSeen reports whether two different votes of one validator for the same
// (round, type) were delivered to the node while it was at height h.
func equivocationSeen(nd *sim.Node, h int64) bool {
	type k struct {
		r   int32
		t   int32
		idx int32
	}
	seen := map[k]string{}
	for _, d := range nd.Journal {
		if d.Kind != "vote" || d.AtHeight != h || d.Vote.Height != h {
			continue
		}
		kk := k{d.Vote.Round, int32(d.Vote.Type), d.Vote.ValidatorIndex}
		id := string(d.Vote.BlockID.Hash)
		if prev, ok := seen[kk]; ok && prev != id {
			return true
		}
		seen[kk] = id
	}
	return false
}

func containsField(d []string, names ...string) bool {
	for _, x := range d {
		for _, n := range names {
			if len(x) >= len(n) && x[:len(n)] == n {
				return true
			}
		}
	}
	return false
}

func runReplayStage(c *verdict.Ctx) {
	tmp := verdict.TmpDir("c15b-")
	defer os.RemoveAll(tmp)
	n := c.N(60, 2000)
	var wg sync.WaitGroup
	jobs := make(chan int, 32)
	for w := 0; w < runtime.NumCPU(); w++ {
		wg.Add(1)
		go func() {
			defer wg.Done()
			for j := range jobs {
				runReplayCase(c, j, tmp)
			}
		}()
	}
	only := -1
	if v := os.Getenv("VERIF_C15B_CASE"); v != "" {
		fmt.Sscan(v, &only)
	}
	for i := 0; i < n; i++ {
		if only >= 0 && i != only {
			continue
		}
		jobs <- i
	}
	close(jobs)
	wg.Wait()
}
