package c14

import "verif/verdict"

func runTierBChild(c *verdict.Ctx, idx int, out string) {}
func runTierBCase(c *verdict.Ctx, dir string, idx int)  {}
