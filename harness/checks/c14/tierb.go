package c14

import (
	"bytes"
	"context"
	"fmt"
	"math/rand"
	"net"
	"net/http"
	"os"
	"strings"
	"sync"
	"time"

	"github.com/tendermint/tendermint/libs/log"
	"github.com/tendermint/tendermint/light"
	ctypes "github.com/tendermint/tendermint/rpc/core/types"
	rpcserver "github.com/tendermint/tendermint/rpc/jsonrpc/server"
	rpctypes "github.com/tendermint/tendermint/rpc/jsonrpc/types"
	"github.com/tendermint/tendermint/statesync"
	"github.com/tendermint/tendermint/types"

	"verif/chaingen"
	"verif/verdict"
)

// Tier B: the real light-client state provider (statesync.NewLightClientStateProvider)
// against three JSON-RPC servers (rpc/jsonrpc/server) answering commit /
// validators / consensus_params from chaingen; up to two of them lie or are
// unhelpful.  Whatever AppHash / State / Commit return without error must be the
// canonical values: nothing a lying server claimed may end up in them.

type tbLie struct {
	Mode    string `json:"mode"`    // honest | unsigned | minority | fork | validators | priorities | params | silent
	Field   string `json:"field"`   // header field falsified (unsigned / minority / fork)
	Heights string `json:"heights"` // S | S+1 | S+2 | all
	DelayMs int    `json:"delay_ms,omitempty"`
}

type tbCase struct {
	Case      int      `json:"case"`
	Stream    string   `json:"stream"`
	ChainSeed int64    `json:"chain_seed"`
	S         int64    `json:"snapshot_height"`
	Servers   [3]tbLie `json:"servers"` // [0] = primary, [1], [2] = witnesses
}

type tbServer struct {
	c      *chaingen.Chain
	lie    tbLie
	s      int64
	forged []byte
	addr   string
	ln     net.Listener

	mu     sync.Mutex
	served map[string]int
}

func (s *tbServer) liesAt(h int64) bool {
	switch s.lie.Heights {
	case "S":
		return h == s.s
	case "S+1":
		return h == s.s+1
	case "S+2":
		return h == s.s+2
	}
	return h >= s.s
}

func (s *tbServer) count(k string) {
	s.mu.Lock()
	s.served[k]++
	s.mu.Unlock()
}

func (s *tbServer) height(p *int64) (int64, error) {
	tip := s.c.Height()
	h := tip
	if p != nil {
		h = *p
	}
	if h > tip {
		return 0, fmt.Errorf("height %d must be less than or equal to the current blockchain height %d", h, tip)
	}
	if h < 1 {
		return 0, fmt.Errorf("height must be greater than 0, but got %d", h)
	}
	if s.lie.Mode == "silent" && s.liesAt(h) {
		s.count("silent")
		if s.lie.DelayMs > 0 {
			time.Sleep(time.Duration(s.lie.DelayMs) * time.Millisecond) // the unhelpful witness answers last
		}
		return 0, fmt.Errorf("height %d is not available, lowest height is %d", h, tip+1)
	}
	return h, nil
}

func (s *tbServer) lightBlock(h int64) (*types.SignedHeader, *types.ValidatorSet) {
	rec := s.c.Hist[h]
	hdr := rec.Block.Header
	commit := rec.Commit
	vals := rec.StateBefore.Validators.Copy()
	if s.liesAt(h) {
		switch s.lie.Mode {
		case "unsigned", "minority", "fork":
			switch s.lie.Field {
			case "AppHash":
				hdr.AppHash = s.forged
			case "LastResultsHash":
				hdr.LastResultsHash = s.forged
			case "NextValidatorsHash":
				hdr.NextValidatorsHash = s.forged
			case "ConsensusHash":
				hdr.ConsensusHash = s.forged
			case "Time":
				hdr.Time = hdr.Time.Add(time.Second)
			}
			if s.lie.Mode != "unsigned" {
				bid := types.BlockID{Hash: hdr.Hash(), PartSetHeader: rec.BlockID.PartSetHeader}
				var flag func(int, *types.Validator) types.BlockIDFlag
				if s.lie.Mode == "minority" {
					flag = func(idx int, _ *types.Validator) types.BlockIDFlag {
						if idx == 0 {
							return types.BlockIDFlagCommit
						}
						return types.BlockIDFlagAbsent
					}
				}
				commit = s.c.SignCommit(rec.StateBefore.Validators, h, 0, bid, flag, func(idx int) time.Time { return s.c.VoteTime(h, idx) })
			}
			s.count("header " + s.lie.Field + " " + s.lie.Mode)
		case "validators":
			vs := vals.Copy()
			vs.Validators[0] = vs.Validators[0].Copy()
			vs.Validators[0].VotingPower += 3
			vals = vs
			s.count("validators")
		case "priorities":
			// same keys and powers (the validators hash still matches), other proposer priorities
			vs := vals.Copy()
			for i := range vs.Validators {
				vs.Validators[i] = vs.Validators[i].Copy()
			}
			n := len(vs.Validators)
			first := vs.Validators[0].ProposerPriority
			for i := 0; i < n-1; i++ {
				vs.Validators[i].ProposerPriority = vs.Validators[i+1].ProposerPriority
			}
			vs.Validators[n-1].ProposerPriority = first + 1
			vals = vs
			s.count("priorities")
		}
	}
	return &types.SignedHeader{Header: &hdr, Commit: commit}, vals
}

func (s *tbServer) commit(ctx *rpctypes.Context, heightPtr *int64) (*ctypes.ResultCommit, error) {
	h, err := s.height(heightPtr)
	if err != nil {
		return nil, err
	}
	sh, _ := s.lightBlock(h)
	return &ctypes.ResultCommit{SignedHeader: *sh, CanonicalCommit: true}, nil
}

func (s *tbServer) validators(ctx *rpctypes.Context, heightPtr *int64, pagePtr, perPagePtr *int) (*ctypes.ResultValidators, error) {
	h, err := s.height(heightPtr)
	if err != nil {
		return nil, err
	}
	_, vals := s.lightBlock(h)
	return &ctypes.ResultValidators{BlockHeight: h, Validators: vals.Validators, Count: len(vals.Validators), Total: len(vals.Validators)}, nil
}

func (s *tbServer) params(ctx *rpctypes.Context, heightPtr *int64) (*ctypes.ResultConsensusParams, error) {
	h, err := s.height(heightPtr)
	if err != nil {
		return nil, err
	}
	p := s.c.Hist[h].StateBefore.ConsensusParams
	if s.lie.Mode == "params" && s.liesAt(h) {
		p.Block.MaxBytes += 4096
		s.count("params")
	}
	return &ctypes.ResultConsensusParams{BlockHeight: h, ConsensusParams: p}, nil
}

func (s *tbServer) start() error {
	routes := map[string]*rpcserver.RPCFunc{
		"commit":           rpcserver.NewRPCFunc(s.commit, "height"),
		"validators":       rpcserver.NewRPCFunc(s.validators, "height,page,per_page"),
		"consensus_params": rpcserver.NewRPCFunc(s.params, "height"),
	}
	mux := http.NewServeMux()
	rpcserver.RegisterRPCFuncs(mux, routes, log.NewNopLogger())
	cfg := rpcserver.DefaultConfig()
	ln, err := rpcserver.Listen("tcp://127.0.0.1:0", cfg)
	if err != nil {
		return err
	}
	s.ln = ln
	s.addr = "http://" + ln.Addr().String()
	go func() { _ = rpcserver.Serve(ln, mux, log.NewNopLogger(), cfg) }()
	return nil
}

func genTierB(r *rand.Rand, idx int) *tbCase {
	tc := &tbCase{Case: idx, Stream: "tierb", ChainSeed: 1 + int64(r.Intn(4))}
	tc.S = 3 + int64(r.Intn(9)) // 3 .. 11, chain has 14 heights
	fields := []string{"AppHash", "LastResultsHash", "NextValidatorsHash", "ConsensusHash", "Time"}
	modes := []string{"unsigned", "minority", "fork", "validators", "params", "priorities"}
	hs := []string{"S", "S+1", "S+2", "all"}
	lie := func() tbLie {
		return tbLie{Mode: modes[r.Intn(len(modes))], Field: fields[r.Intn(len(fields))], Heights: hs[r.Intn(len(hs))]}
	}
	for i := range tc.Servers {
		tc.Servers[i] = tbLie{Mode: "honest"}
	}
	switch idx % 6 {
	case 0: // primary lies, witnesses honest
		tc.Servers[0] = lie()
	case 1: // a witness lies
		tc.Servers[1] = lie()
	case 2: // primary lies, one witness unhelpful
		tc.Servers[0] = lie()
		tc.Servers[2] = tbLie{Mode: "silent", Heights: "all"}
	case 3: // primary serves a fully signed fork, one witness answers garbage, the other has nothing
		tc.Servers[0] = tbLie{Mode: "fork", Field: fields[r.Intn(len(fields))], Heights: hs[r.Intn(len(hs))]}
		tc.Servers[1] = tbLie{Mode: []string{"unsigned", "minority"}[r.Intn(2)], Field: fields[r.Intn(len(fields))], Heights: "all"}
		tc.Servers[2] = tbLie{Mode: "silent", Heights: "all", DelayMs: 150 * r.Intn(2)}
	case 4: // primary and one witness tell the same lie
		l := lie()
		tc.Servers[0], tc.Servers[1] = l, l
	case 5: // everybody honest, or only unhelpful witnesses
		if r.Intn(2) == 0 {
			tc.Servers[1+r.Intn(2)] = tbLie{Mode: "silent", Heights: hs[r.Intn(len(hs))]}
		}
	}
	return tc
}

func runTierBCase(c *verdict.Ctx, dir string, idx int) {
	r := c.Rand("tierb", idx)
	tc := genTierB(r, idx)
	chain := buildChain(&Scenario{ChainSeed: tc.ChainSeed, ChainLen: 14, App: AppSpec{Version: 5}})
	defer chain.Close()
	forged := randBytes(r, 32)
	var servers []*tbServer
	var addrs []string
	for i := range tc.Servers {
		s := &tbServer{c: chain, lie: tc.Servers[i], s: tc.S, forged: forged, served: map[string]int{}}
		if err := s.start(); err != nil {
			c.Inconclusive("tier B: cannot start rpc server")
			return
		}
		defer s.ln.Close()
		servers = append(servers, s)
		addrs = append(addrs, s.addr)
	}
	c.Eval()
	truth := providerState(chain, tc.S)
	tcommit := chain.Hist[tc.S].Commit

	type res struct {
		what     string
		err      error
		bad      []string
		prio     bool // proposer priorities differ from the canonical ones
		proposer bool // only the Proposer pointer differs
	}
	var results []res
	done := make(chan struct{})
	var panicked interface{}
	go func() {
		defer close(done)
		defer func() { panicked = recover() }()
		ctx, cancel := context.WithTimeout(context.Background(), 60*time.Second)
		defer cancel()
		sp, err := statesync.NewLightClientStateProvider(ctx, chain.ChainID, chain.Genesis.Version, 1, addrs,
			light.TrustOptions{Period: 100 * 365 * 24 * time.Hour, Height: 1, Hash: chain.Hist[1].Block.Hash()}, log.NewNopLogger())
		if err != nil {
			results = append(results, res{what: "NewLightClientStateProvider", err: err})
			return
		}
		ah, err := sp.AppHash(ctx, uint64(tc.S))
		rr := res{what: "AppHash", err: err}
		if err == nil && !bytes.Equal(ah, truth.AppHash) {
			rr.bad = append(rr.bad, fmt.Sprintf("app hash %X, canonical %X", ah, truth.AppHash))
		}
		results = append(results, rr)
		st, err := sp.State(ctx, uint64(tc.S))
		rr = res{what: "State", err: err}
		if err == nil {
			// the validator sets are compared in three layers: what the validators hash commits to
			// (keys, powers), the proposer priorities, and the Proposer pointer
			norm := st.Copy()
			for _, pair := range [][2]*types.ValidatorSet{{norm.LastValidators, truth.LastValidators}, {norm.Validators, truth.Validators}, {norm.NextValidators, truth.NextValidators}} {
				got, want := pair[0], pair[1]
				if got == nil || want == nil || len(got.Validators) != len(want.Validators) {
					continue
				}
				same := true
				for i := range got.Validators {
					g, w := got.Validators[i], want.Validators[i]
					if !bytes.Equal(g.Address, w.Address) || !g.PubKey.Equals(w.PubKey) || g.VotingPower != w.VotingPower {
						same = false
					}
				}
				if !same {
					continue // reported through the full comparison below
				}
				prio := false
				for i := range got.Validators {
					if got.Validators[i].ProposerPriority != want.Validators[i].ProposerPriority {
						prio = true
						got.Validators[i].ProposerPriority = want.Validators[i].ProposerPriority
					}
				}
				if prio {
					rr.prio = true
				}
				if got.Proposer != nil && want.Proposer != nil && (!bytes.Equal(got.Proposer.Address, want.Proposer.Address) || got.Proposer.ProposerPriority != want.Proposer.ProposerPriority) {
					if !bytes.Equal(got.Proposer.Address, want.Proposer.Address) && !prio {
						rr.proposer = true
					}
					got.Proposer = want.Proposer.Copy()
				}
			}
			if !bytes.Equal(stateBytes(norm), stateBytes(truth)) {
				rr.bad = append(rr.bad, "state fields: "+strings.Join(stateDiff(hexs(stateBytes(norm)), hexs(stateBytes(truth))), ","))
			}
		}
		results = append(results, rr)
		cm, err := sp.Commit(ctx, uint64(tc.S))
		rr = res{what: "Commit", err: err}
		if err == nil && !bytes.Equal(commitBytes(cm), commitBytes(tcommit)) {
			rr.bad = append(rr.bad, "commit differs from the canonical commit")
		}
		results = append(results, rr)
	}()
	select {
	case <-done:
	case <-time.After(100 * time.Second):
		c.Inconclusive("tier B: state provider did not return within 100 s")
		return
	}
	if panicked != nil {
		c.Inconclusive(fmt.Sprintf("tier B: panic in light client / provider: %v", panicked))
		return
	}
	served := map[string]int{}
	for i, s := range servers {
		s.mu.Lock()
		for k, v := range s.served {
			role := "witness"
			if i == 0 {
				role = "primary"
			}
			served[role+" "+k] += v
			c.Count("tier B lie served: "+role+" "+k, int64(v))
		}
		s.mu.Unlock()
	}
	// A header re-signed by the whole validator set and vouched for by a witness (same hash at every height the
	// provider asks for) IS light-verified: no client can tell it from the chain.  Values taken from it are outside
	// what the property promises, so they are counted, not reported.  (A fully signed fork nobody vouches for must
	// still be refused.)
	vouchedFork := false
	if tc.Servers[0].Mode == "fork" {
		vouchedFork = true
		for h := tc.S; h <= tc.S+2; h++ {
			ph, _ := servers[0].lightBlock(h)
			ok := false
			for _, w := range servers[1:] {
				if w.lie.Mode == "unsigned" || (w.lie.Mode == "silent" && w.liesAt(h)) {
					continue // an unsigned forgery does not pass the provider's ValidateBasic; a silent witness has nothing
				}
				if wh, _ := w.lightBlock(h); bytes.Equal(wh.Hash(), ph.Hash()) {
					ok = true
				}
			}
			if !ok {
				vouchedFork = false
			}
		}
	}
	outcome := ""
	for _, rr := range results {
		if len(rr.bad) > 0 && vouchedFork {
			c.Count("tier B value from a fully signed fork that a witness vouched for (light-verified; not claimed)", 1)
			rr.bad = nil
		}
		if rr.err != nil {
			outcome += rr.what + ":err "
			c.Count("tier B "+rr.what+" refused", 1)
		} else {
			outcome += rr.what + ":ok "
			c.Count("tier B "+rr.what+" returned a value", 1)
		}
		if len(rr.bad) > 0 {
			key := "tierb-unverified-value-in-" + strings.ToLower(rr.what)
			if len(served) == 0 {
				// nobody lied: the provider itself put together something else than the canonical value
				key = "tierb-" + strings.ToLower(rr.what) + "-differs-from-canonical-with-honest-servers"
			}
			c.Violation(key,
				fmt.Sprintf("the light-client state provider's %s(%d) returned without error but %s; servers: primary %+v, witnesses %+v %+v",
					rr.what, tc.S, strings.Join(rr.bad, "; "), tc.Servers[0], tc.Servers[1], tc.Servers[2]),
				map[string]interface{}{"stream": "tierb", "case": idx, "tier_b_case": tc, "lies_served": served, "outcome": outcome})
		}
	}
	for _, rr := range results {
		detail := map[string]interface{}{"stream": "tierb", "case": idx, "tier_b_case": tc, "lies_served": served, "outcome": outcome}
		if rr.prio {
			c.Violation("tierb-proposer-priorities-from-rpc-unverified",
				fmt.Sprintf("State(%d) returned validator sets whose ProposerPriority values differ from the canonical ones: they are copied from the primary's /validators answer and nothing the light client verifies commits to them; servers: primary %+v", tc.S, tc.Servers[0]), detail)
		}
		if rr.proposer {
			c.Violation("tierb-validator-set-proposer-not-canonical",
				fmt.Sprintf("State(%d) returned a validator set with the canonical keys, powers and priorities but another Proposer (types.ValidatorSetFromExistingValidators takes the validator with the lowest priority); servers: %+v", tc.S, tc.Servers), detail)
		}
	}
	if len(served) > 0 {
		keys := ""
		for k := range served {
			keys += k + ";"
		}
		c.Distinct("B", fmt.Sprintf("%+v", tc.Servers), outcome)
		_ = keys
	}
	if os.Getenv("VERIF_C14_VERBOSE") != "" {
		fmt.Printf("tierB case %d: servers=%+v served=%v outcome=%s\n", idx, tc.Servers, served, outcome)
		for _, rr := range results {
			if rr.err != nil {
				fmt.Printf("    %s: %v\n", rr.what, rr.err)
			}
		}
	}
	if c.WantSample() && idx%7 == 3 {
		c.Sample(map[string]interface{}{"tier": "B", "case": tc, "lies_served": served, "outcome": outcome})
	}
}
