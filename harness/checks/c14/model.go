package c14

import (
	"fmt"
	"sort"
	"strings"
)

// The reference model of the chunk queue, written from the ABCI description of
// ApplySnapshotChunk (spec/abci: refetch_chunks, reject_senders, RETRY,
// RETRY_SNAPSHOT) and the property statement:
//
//   - a chunk that arrives for the snapshot being restored is kept iff no chunk
//     is held for that index (first arrival wins until discarded) and -- strict
//     model only -- its sender has not been rejected;
//   - the app is given the lowest index that is not currently applied, with
//     exactly the bytes and the sender kept for it;
//   - RefetchChunks discards the listed chunks (they must arrive again),
//     RejectSenders discards the unapplied chunks of those senders,
//     RETRY un-applies the chunk of the call, RETRY_SNAPSHOT un-applies all
//     chunks without discarding any.
//
// The model is nondeterministic where the observation is: a chunk sent by a
// liar is processed by the node somewhere between its "chunk-start" and
// "chunk-ack" events, and the syncer handles an app response somewhere between
// the "-ret" event and its next call.  All interleavings are explored; the
// observed call must be possible in at least one of them.

type mstep struct {
	op   string // discard reject unret retryall uninstall install
	idx  uint32
	peer int
	att  *attempt
	keep bool
}

type attempt struct {
	callN int // event number of the AppHash call that opens it
	offer *Ev
	key   string
}

type mstate struct {
	attN   int // event number of the AppHash call of the attempt whose queue is installed
	active bool
	key    string
	h      uint64
	f      uint32
	n      uint32
	slot   []int
	ret    []bool
	rej    uint32
	steps  []mstep
	pend   []int
}

func (s *mstate) clone() *mstate {
	c := *s
	c.slot = append([]int{}, s.slot...)
	c.ret = append([]bool{}, s.ret...)
	c.steps = append([]mstep{}, s.steps...)
	c.pend = append([]int{}, s.pend...)
	return &c
}

func (s *mstate) id() string {
	var sb strings.Builder
	fmt.Fprintf(&sb, "%d|%v|%s|%v|%v|%d|", s.attN, s.active, s.key, s.slot, s.ret, s.rej)
	for _, st := range s.steps {
		fmt.Fprintf(&sb, "%s.%d.%d.%v;", st.op, st.idx, st.peer, st.keep)
	}
	fmt.Fprintf(&sb, "|%v", s.pend)
	return sb.String()
}

func (s *mstate) nextUp() (uint32, bool) {
	for i := uint32(0); i < s.n; i++ {
		if !s.ret[i] {
			return i, true
		}
	}
	return 0, false
}

type modelFail struct {
	at   int
	ev   *Ev
	key  string
	what string
}

type model struct {
	h      *Header
	evs    []Ev
	arr    map[int]*arrival
	peerOf func(string) int
	// peers certainly rejected by a REJECT_SENDER offer verdict, by offer-ret event number
	offerRejects map[int][]int

	attempts  []*attempt
	maxStates int
	checked   int
	internal  []string
	counts    map[string]int64
	strict    bool
	// strict model only: arrivals (by id) that were in flight while the syncer handled the response
	// rejecting their sender; when set, exactly these may be kept although the sender is rejected
	raceOK   map[int]bool
	overflow bool // state explosion: the model gives no verdict
}

func (m *model) prepass() {
	var cur *attempt
	for k := range m.evs {
		e := &m.evs[k]
		switch {
		case e.K == "sp-call" && e.M == "AppHash":
			cur = &attempt{callN: e.N}
			m.attempts = append(m.attempts, cur)
		case e.K == "offer-call" && cur != nil && cur.offer == nil:
			cur.offer = e
			cur.key = snapKeyOf(e.H, e.F, e.NCh, e.Hash, e.Meta)
		}
	}
}

func (m *model) nextAttempt(after int) *attempt {
	for _, a := range m.attempts {
		if a.callN > after {
			return a
		}
	}
	return nil
}

func (m *model) applyStep(s *mstate, st mstep) {
	switch st.op {
	case "discard":
		if st.idx < s.n && s.slot[st.idx] != 0 {
			s.slot[st.idx] = 0
			s.ret[st.idx] = false
		}
	case "reject":
		if st.peer >= 0 {
			s.rej |= 1 << uint(st.peer)
			for i := uint32(0); i < s.n; i++ {
				if s.slot[i] != 0 && !s.ret[i] && m.arr[s.slot[i]].peer == st.peer {
					s.slot[i] = 0
				}
			}
		}
	case "unret":
		if st.idx < s.n {
			s.ret[st.idx] = false
		}
	case "retryall":
		for i := range s.ret {
			s.ret[i] = false
		}
	case "uninstall":
		s.active = false
	case "install":
		if st.att != nil {
			s.attN = st.att.callN
		}
		if st.keep && st.att != nil && st.att.offer != nil && st.att.key == s.key {
			s.active = true
			return
		}
		s.active = true
		s.key, s.h, s.f, s.n = "", 0, 0, 0
		if st.att != nil && st.att.offer != nil {
			o := st.att.offer
			s.key, s.h, s.f, s.n = st.att.key, o.H, o.F, o.NCh
		}
		s.slot = make([]int, s.n)
		s.ret = make([]bool, s.n)
	}
}

// arrive returns the possible successors of s when pending arrival a is processed.
func (m *model) arrive(s *mstate, a *arrival) []*mstate {
	base := s.clone()
	for k, id := range base.pend {
		if id == a.id {
			base.pend = append(base.pend[:k], base.pend[k+1:]...)
			break
		}
	}
	if !s.active || a.miss || !a.ok || a.h != s.h || a.f != s.f || a.i >= s.n || s.slot[a.i] != 0 {
		return []*mstate{base}
	}
	filled := base.clone()
	filled.slot[a.i] = a.id
	if s.rej&(1<<uint(a.peer)) != 0 {
		if m.strict && !m.raceOK[a.id] {
			return []*mstate{base}
		}
		return []*mstate{base, filled}
	}
	return []*mstate{filled}
}

// closure: everything reachable by handling pending steps (in order) and
// pending arrivals (in order per peer) in any interleaving.
func (m *model) closure(set map[string]*mstate) map[string]*mstate {
	out := map[string]*mstate{}
	var work []*mstate
	for k, s := range set {
		out[k] = s
		work = append(work, s)
	}
	for len(work) > 0 {
		s := work[len(work)-1]
		work = work[:len(work)-1]
		var succ []*mstate
		if len(s.steps) > 0 {
			c := s.clone()
			st := c.steps[0]
			c.steps = c.steps[1:]
			m.applyStep(c, st)
			succ = append(succ, c)
		}
		// in order per peer and per path: what a liar sent over its connection is processed in send order;
		// chunks handed to the reactor directly (concurrent batches) are not ordered with those
		seenPeer := map[int]bool{}
		for _, id := range s.pend {
			a := m.arr[id]
			k := a.peer * 2
			if a.inj {
				k++
			}
			if seenPeer[k] {
				continue
			}
			seenPeer[k] = true
			succ = append(succ, m.arrive(s, a)...)
		}
		for _, c := range succ {
			k := c.id()
			if _, ok := out[k]; !ok {
				out[k] = c
				work = append(work, c)
				if len(out) > 20000 {
					m.overflow = true
					return out
				}
			}
		}
	}
	if len(out) > m.maxStates {
		m.maxStates = len(out)
	}
	return out
}

func filter(set map[string]*mstate, pred func(*mstate) bool) map[string]*mstate {
	out := map[string]*mstate{}
	for k, s := range set {
		if pred(s) {
			out[k] = s
		}
	}
	return out
}

func (m *model) terminalSteps(e *Ev, keep bool) []mstep {
	st := []mstep{{op: "uninstall"}}
	if keep {
		st = append(st, mstep{op: "retryall"})
	}
	if a := m.nextAttempt(e.N); a != nil {
		st = append(st, mstep{op: "install", att: a, keep: keep})
	}
	return st
}

// run replays the log; it returns the first call the model cannot explain.
func (m *model) run(strict bool) *modelFail {
	m.strict = strict
	m.counts = map[string]int64{}
	set := map[string]*mstate{}
	started := false
	for k := range m.evs {
		e := &m.evs[k]
		if !started && e.K != "sync-call" {
			continue
		}
		switch e.K {
		case "sync-call":
			started = true
			s := &mstate{}
			if a := m.nextAttempt(e.N); a != nil {
				s.steps = []mstep{{op: "install", att: a}}
			}
			set = map[string]*mstate{s.id(): s}
		case "chunk-start":
			ns := map[string]*mstate{}
			for _, s := range set {
				c := s.clone()
				c.pend = append(c.pend, e.A)
				ns[c.id()] = c
			}
			set = ns
		case "chunk-done":
			if !e.OK {
				// the message never left: drop it from every state
				ns := map[string]*mstate{}
				for _, s := range set {
					c := s.clone()
					for i, id := range c.pend {
						if id == e.A {
							c.pend = append(c.pend[:i], c.pend[i+1:]...)
							break
						}
					}
					ns[c.id()] = c
				}
				set = ns
			}
		case "chunk-ack":
			set = filter(m.closure(set), func(s *mstate) bool {
				for _, id := range s.pend {
					if id == e.A {
						return false
					}
				}
				return true
			})
			if len(set) == 0 {
				if !m.overflow {
					m.internal = append(m.internal, fmt.Sprintf("model lost all states at chunk-ack event %d", e.N))
				}
				return nil
			}
		case "sp-call":
			if e.M == "AppHash" {
				set = filter(m.closure(set), func(s *mstate) bool { return len(s.steps) == 0 })
				if len(set) == 0 {
					if !m.overflow {
						m.internal = append(m.internal, fmt.Sprintf("model lost all states at AppHash call event %d", e.N))
					}
					return nil
				}
				// an attempt that ended without an event of its own (the syncer's two-minute wait for a
				// chunk ran out): the queue of the attempt that starts here replaces the old one
				ns := map[string]*mstate{}
				for _, s := range set {
					if s.attN != e.N {
						c := s.clone()
						m.applyStep(c, mstep{op: "uninstall"})
						var att *attempt
						for _, a := range m.attempts {
							if a.callN == e.N {
								att = a
							}
						}
						m.applyStep(c, mstep{op: "install", att: att})
						c.attN = e.N
						ns[c.id()] = c
					} else {
						ns[s.id()] = s
					}
				}
				set = ns
			}
		case "sp-ret":
			if !e.OK {
				set = m.pushSteps(set, m.terminalSteps(e, false))
			}
		case "offer-ret":
			if e.M != "ACCEPT" {
				var st []mstep
				for _, p := range m.offerRejects[e.N] {
					st = append(st, mstep{op: "reject", peer: p})
				}
				set = m.pushSteps(set, append(st, m.terminalSteps(e, false)...))
			}
		case "apply-call":
			m.checked++
			all := m.closure(set)
			ready := filter(all, func(s *mstate) bool { return len(s.steps) == 0 && s.active })
			ok := filter(ready, func(s *mstate) bool {
				i, more := s.nextUp()
				if !more || i != e.I || s.slot[i] == 0 {
					return false
				}
				a := m.arr[s.slot[i]]
				return a.peer == e.P && e.P >= 0 && a.b == e.B
			})
			if m.overflow {
				return nil
			}
			if len(ok) == 0 {
				return m.diagnose(e, ready)
			}
			// coverage facts about the chunk that was applied
			unsol, nonadv := true, true
			for _, s := range ok {
				if m.arr[s.slot[e.I]].sol {
					unsol = false
				}
			}
			for _, x := range m.evs {
				if x.K == "adv-start" && x.P == e.P && x.N < e.N && x.H == e.H && x.F == e.F {
					nonadv = false
				}
			}
			if unsol {
				m.counts["applied chunk had been pushed unsolicited"]++
			}
			if nonadv {
				m.counts["applied chunk came from a peer that never advertised that snapshot"]++
			}
			if len(ok) > 1 {
				m.counts["apply call explained by more than one model state"]++
			}
			ns := map[string]*mstate{}
			for _, s := range ok {
				c := s.clone()
				c.ret[e.I] = true
				ns[c.id()] = c
			}
			set = ns
		case "apply-ret":
			var st []mstep
			for _, idx := range e.Refetch {
				st = append(st, mstep{op: "discard", idx: idx})
			}
			for _, sid := range e.Reject {
				if sid != "" {
					st = append(st, mstep{op: "reject", peer: m.peerOf(sid)})
				}
			}
			switch e.M {
			case "RETRY":
				st = append(st, mstep{op: "unret", idx: e.I})
			case "RETRY_SNAPSHOT":
				st = append(st, m.terminalSteps(e, true)...)
			case "REJECT_SNAPSHOT", "ABORT":
				st = append(st, m.terminalSteps(e, false)...)
			}
			set = m.pushSteps(set, st)
		case "sync-ret":
			if e.OK {
				done := filter(m.closure(set), func(s *mstate) bool {
					if !s.active || len(s.steps) != 0 {
						return false
					}
					_, more := s.nextUp()
					return !more && s.n > 0
				})
				if len(done) == 0 && !m.overflow {
					return &modelFail{at: e.N, ev: e, key: "sync-succeeded-with-chunks-outstanding",
						what: "Sync returned success although, in every interleaving, some chunk was still to be (re)applied"}
				}
			}
			return nil
		}
	}
	return nil
}

func (m *model) pushSteps(set map[string]*mstate, st []mstep) map[string]*mstate {
	ns := map[string]*mstate{}
	for _, s := range set {
		c := s.clone()
		c.steps = append(c.steps, st...)
		ns[c.id()] = c
	}
	return ns
}

func (m *model) diagnose(e *Ev, ready map[string]*mstate) *modelFail {
	f := &modelFail{at: e.N, ev: e}
	if len(ready) == 0 {
		f.key = "apply-call-without-active-restore"
		f.what = fmt.Sprintf("ApplySnapshotChunk(index %d) although no restore can be in progress according to the model", e.I)
		return f
	}
	exp := map[uint32]bool{}
	var held []string
	for _, s := range ready {
		if i, more := s.nextUp(); more {
			exp[i] = true
			if i == e.I {
				if s.slot[i] == 0 {
					held = append(held, "(nothing held: must wait for an arrival)")
				} else {
					a := m.arr[s.slot[i]]
					held = append(held, fmt.Sprintf("peer %d bytes %s (arrival %d)", a.peer, a.b, a.id))
				}
			}
		} else {
			exp[^uint32(0)] = true
		}
	}
	var es []string
	for i := range exp {
		if i == ^uint32(0) {
			es = append(es, "none (all applied)")
		} else {
			es = append(es, fmt.Sprint(i))
		}
	}
	sort.Strings(es)
	sort.Strings(held)
	if !exp[e.I] {
		f.key = "chunk-index-order-deviates"
		f.what = fmt.Sprintf("app was given chunk %d; the queue model (lowest index not applied; RETRY / refetch / RETRY_SNAPSHOT honoured) allows only: %s", e.I, strings.Join(es, ", "))
		return f
	}
	if k, w := provenance(m.arr, e); k != "" {
		f.key, f.what = k, w
		return f
	}
	f.key = "chunk-bytes-or-sender-not-as-recorded-at-arrival"
	f.what = fmt.Sprintf("app was given chunk %d from sender %q (peer %d) bytes %s; the model holds for that index: %s", e.I, e.Sender, e.P, e.B, strings.Join(uniq(held), " | "))
	return f
}

func uniq(ss []string) []string {
	var out []string
	for i, s := range ss {
		if i == 0 || s != ss[i-1] {
			out = append(out, s)
		}
	}
	return out
}

// provenance is the order-independent part of "chunks reach the application with the bytes and
// sender recorded at arrival": the sender named in the call must itself have delivered exactly
// these bytes for that index of that snapshot before the call.  Returns "" if it has.
func provenance(arr map[int]*arrival, e *Ev) (key, what string) {
	var others []int
	for _, a := range arr {
		if a.i != e.I || a.h != e.H || a.f != e.F || a.b != e.B || a.start > e.N || a.miss {
			continue
		}
		if a.peer == e.P && e.P >= 0 {
			return "", ""
		}
		others = append(others, a.peer)
	}
	if len(others) > 0 {
		sort.Ints(others)
		return "chunk-bytes-of-other-sender-applied", fmt.Sprintf("app was given chunk %d with sender %q (peer %d) and bytes %s: that peer never delivered these bytes for that index; they are what peer(s) %v delivered", e.I, e.Sender, e.P, e.B, others)
	}
	return "chunk-bytes-match-no-delivery", fmt.Sprintf("app was given chunk %d with sender %q and bytes %s, which no peer delivered for that index (mixed or torn content)", e.I, e.Sender, e.B)
}
