package c14

import (
	"crypto/sha256"
	"fmt"
	"math/rand"
	"sort"
	"strings"
	"sync"
	"sync/atomic"
	"time"

	"github.com/tendermint/tendermint/p2p"
	ssproto "github.com/tendermint/tendermint/proto/tendermint/statesync"
	"github.com/tendermint/tendermint/statesync"
)

// item is one message a liar is going to send.
type item struct {
	kind    string // chunk | adv
	peer    int
	h       uint64
	f       uint32
	i       uint32
	bytes   []byte
	missing bool
	sol     bool
	snap    int // adv: catalog index

	late      bool
	after     *item
	delivered bool
	enqAt     time.Time
	enqDeliv  int
}

type ackWait struct {
	id   int
	peer int
	ch   chan struct{}
	once sync.Once
}

// sched is the liar scheduler: every message of every liar goes through
// deliver, one at a time, each followed by a barrier request on the same
// channel whose processing by the node proves that the message itself has been
// processed (Receive is sequential per peer and FIFO per channel).
type sched struct {
	w *world

	qmu   sync.Mutex
	queue []*item
	rng   *rand.Rand // queue picks (under qmu)
	rng2  *rand.Rand // gate / flush order

	dmu     sync.Mutex // one delivery at a time
	deliv   int
	arrID   int
	advID   int
	nonce   uint64
	amu     sync.Mutex
	chunkAw map[uint64]*ackWait
	advAw   *ackWait
	garb    int
	async   int32            // push-async deliveries not yet acknowledged
	rereq   map[string][]int // race-on-rerequest: peers asked so far for "h/f/i"

	// refetch family (under amu)
	reqSeen        map[string]bool // "h/f/i" requested at least once
	canaryReleased bool
	verdictSeen    bool
	awaiting       map[uint32]bool // refetched indexes not yet requested again
	ticks          int             // canary re-requests since the verdict
	ticksTotal     int
	firstBy        map[uint32]int // index -> liar whose delivery was acknowledged first (since the last refetch)
}

func newSched(w *world) *sched {
	return &sched{w: w, rng: rand.New(rand.NewSource(w.scn.SubSeed ^ 0x5eed)), rng2: rand.New(rand.NewSource(w.scn.SubSeed ^ 0x9a7e)),
		chunkAw: map[uint64]*ackWait{}}
}

// garbage returns bytes that are unique per call, so that every wrong chunk can be told apart.
func (s *sched) garbage(h uint64, f uint32, i uint32) []byte {
	s.amu.Lock()
	s.garb++
	n := s.garb
	s.amu.Unlock()
	d := sha256.Sum256([]byte(fmt.Sprintf("garbage %d %d", s.w.scn.SubSeed, n)))
	return append([]byte(fmt.Sprintf("W%d/%d/%d#%d:", h, f, i, n)), d[:4+n%7]...)
}

func (s *sched) enqueue(it *item) {
	s.qmu.Lock()
	it.enqAt = time.Now()
	it.enqDeliv = s.deliv
	s.queue = append(s.queue, it)
	s.qmu.Unlock()
}

// pick removes a random eligible item from the queue (seeded permutation of arrival order).
func (s *sched) pick(force bool) *item {
	s.qmu.Lock()
	defer s.qmu.Unlock()
	var el []int
	oldest := time.Now()
	for k, it := range s.queue {
		if it.after != nil && !it.after.delivered {
			continue
		}
		if it.late && !force && s.deliv-it.enqDeliv < 2 && time.Since(it.enqAt) < 150*time.Millisecond {
			continue
		}
		el = append(el, k)
		if it.enqAt.Before(oldest) {
			oldest = it.enqAt
		}
	}
	if len(el) == 0 || (!force && time.Since(oldest) < 3*time.Millisecond) {
		return nil
	}
	k := el[s.rng.Intn(len(el))]
	it := s.queue[k]
	s.queue = append(s.queue[:k], s.queue[k+1:]...)
	return it
}

func (s *sched) pump() {
	for {
		it := s.pick(false)
		if it == nil {
			time.Sleep(2 * time.Millisecond)
			continue
		}
		s.deliver(it)
	}
}

func (s *sched) deliver(it *item) {
	s.dmu.Lock()
	defer s.dmu.Unlock()
	s.deliverLocked(it)
}

func (s *sched) deliverLocked(it *item) {
	l := s.w.liars[it.peer]
	peer := l.nodePeer()
	defer func() {
		s.qmu.Lock()
		it.delivered = true
		s.deliv++
		s.qmu.Unlock()
	}()
	switch it.kind {
	case "chunk":
		s.amu.Lock()
		s.arrID++
		id := s.arrID
		s.nonce++
		nonce := nonceBase + s.nonce
		s.amu.Unlock()
		l.smu.Lock()
		s.w.log.add(Ev{K: "chunk-start", P: it.peer, C: -1, A: id, H: it.h, F: it.f, I: it.i, B: encB(it.bytes), Miss: it.missing, Sol: it.sol})
		ok := false
		if peer != nil {
			msg := &ssproto.ChunkResponse{Height: it.h, Format: it.f, Index: it.i, Chunk: it.bytes, Missing: it.missing}
			if it.missing {
				msg.Chunk = nil
			}
			ok = p2p.SendEnvelopeShim(peer, p2p.Envelope{ChannelID: statesync.ChunkChannel, Message: msg}, nil) //nolint:staticcheck
		}
		s.w.log.add(Ev{K: "chunk-done", P: it.peer, C: -1, A: id, OK: ok})
		if !ok {
			l.smu.Unlock()
			return
		}
		aw := &ackWait{id: id, peer: it.peer, ch: make(chan struct{})}
		s.amu.Lock()
		s.chunkAw[nonce] = aw
		s.amu.Unlock()
		sent := p2p.SendEnvelopeShim(peer, p2p.Envelope{ChannelID: statesync.ChunkChannel, Message: &ssproto.ChunkRequest{Height: nonce, Format: 0, Index: 0}}, nil) //nolint:staticcheck
		l.smu.Unlock()
		if !sent {
			return
		}
		select {
		case <-aw.ch:
			if !it.missing {
				s.amu.Lock()
				if s.firstBy == nil {
					s.firstBy = map[uint32]int{}
				}
				if _, ok := s.firstBy[it.i]; !ok {
					s.firstBy[it.i] = it.peer
				}
				s.amu.Unlock()
			}
		case <-time.After(3 * time.Second):
			s.w.log.add(Ev{K: "note", P: it.peer, C: -1, A: id, M: "chunk barrier not acknowledged"})
		}
	case "adv":
		sp := s.w.scn.Catalog[it.snap]
		s.advID++
		id := s.advID
		l.mu.Lock()
		l.ever[it.snap] = true
		l.mu.Unlock()
		l.smu.Lock()
		s.w.log.add(Ev{K: "adv-start", P: it.peer, C: -1, A: id, H: sp.Height, F: sp.Format, NCh: sp.Chunks, Hash: sp.Hash, Meta: sp.Meta, X: sp.Kind})
		ok := false
		if peer != nil {
			ok = p2p.SendEnvelopeShim(peer, p2p.Envelope{ChannelID: statesync.SnapshotChannel, Message: &ssproto.SnapshotsResponse{ //nolint:staticcheck
				Height: sp.Height, Format: sp.Format, Chunks: sp.Chunks, Hash: unhex(sp.Hash), Metadata: unhex(sp.Meta)}}, nil)
		}
		s.w.log.add(Ev{K: "adv-done", P: it.peer, C: -1, A: id, OK: ok})
		if !ok {
			l.smu.Unlock()
			return
		}
		aw := &ackWait{id: id, peer: it.peer, ch: make(chan struct{})}
		s.amu.Lock()
		s.advAw = aw
		s.amu.Unlock()
		sent := p2p.SendEnvelopeShim(peer, p2p.Envelope{ChannelID: statesync.SnapshotChannel, Message: &ssproto.SnapshotsRequest{}}, nil) //nolint:staticcheck
		l.smu.Unlock()
		if !sent {
			return
		}
		select {
		case <-aw.ch:
		case <-time.After(3 * time.Second):
			s.w.log.add(Ev{K: "note", P: it.peer, C: -1, A: id, M: "advert barrier not acknowledged"})
		}
	}
}

// ackChunk is called by the app connection when the node processes a barrier ChunkRequest.
func (s *sched) ackChunk(nonce uint64) {
	s.amu.Lock()
	aw := s.chunkAw[nonce]
	delete(s.chunkAw, nonce)
	s.amu.Unlock()
	if aw != nil {
		aw.once.Do(func() {
			s.w.log.add(Ev{K: "chunk-ack", P: aw.peer, C: -1, A: aw.id})
			close(aw.ch)
		})
	}
}

// ackAdvert is called when the node processes a (barrier) SnapshotsRequest.
func (s *sched) ackAdvert() {
	s.amu.Lock()
	aw := s.advAw
	s.advAw = nil
	s.amu.Unlock()
	if aw != nil {
		aw.once.Do(func() {
			s.w.log.add(Ev{K: "adv-ack", P: aw.peer, C: -1, A: aw.id})
			close(aw.ch)
		})
	}
}

// hold runs the scripted actions of a hold point while the syncer is blocked in the call.
func (s *sched) hold(at string, call int, ctx holdCtx) {
	for _, a := range s.w.scn.Actions {
		if a.At == at && (a.Call == call || (a.Call == -1 && call >= 1)) {
			s.exec(a, ctx)
		}
	}
}

// after runs the scripted actions that race with the syncer's handling of a response.
func (s *sched) after(at string, call int, ctx holdCtx) {
	for _, a := range s.w.scn.Actions {
		if a.At == at && a.Call == call {
			a := a
			go func() {
				if a.DelayMs > 0 {
					time.Sleep(time.Duration(a.DelayMs) * time.Millisecond)
				}
				s.exec(a, ctx)
			}()
		}
	}
}

// resolvePeer: -1 = the sender of the chunk of this call, -2 = the sender most recently rejected by the app.
func (s *sched) resolvePeer(p int, ctx holdCtx) int {
	switch p {
	case -1:
		return ctx.sender
	case -2:
		s.w.mu.Lock()
		defer s.w.mu.Unlock()
		return s.w.lastRejected
	case -3: // a connected, honest-by-default peer other than the sender and the last rejected one
		s.w.mu.Lock()
		lr := s.w.lastRejected
		s.w.mu.Unlock()
		for i, l := range s.w.liars {
			l.mu.Lock()
			st := l.stopped
			l.mu.Unlock()
			if !st && i != ctx.sender && i != lr && s.w.scn.Peers[i].Default == "honest" {
				return i
			}
		}
		return -1
	}
	return p
}

func (s *sched) stopLocked(l *liar) {
	l.mu.Lock()
	was := l.stopped
	l.stopped = true
	l.mu.Unlock()
	if !was {
		if p := s.w.nodeSw.Peers().Get(l.id); p != nil {
			s.w.nodeSw.StopPeerGracefully(p)
		}
		s.w.log.add(Ev{K: "peer-stop", P: l.idx, C: -1})
	}
}

// reconnect: the liar leaves (if it has not yet) and comes back under the same node key:
// the node dials the liar's listen address again.
func (s *sched) reconnect(l *liar) bool {
	s.dmu.Lock()
	defer s.dmu.Unlock()
	s.stopLocked(l)
	deadline := time.Now().Add(3 * time.Second)
	for s.w.nodeSw.Peers().Has(l.id) || l.sw.Peers().Has(s.w.nodeID) {
		if time.Now().After(deadline) {
			s.w.log.add(Ev{K: "note", P: l.idx, C: -1, M: "reconnect skipped: old connection still registered"})
			return false
		}
		time.Sleep(2 * time.Millisecond)
	}
	l.mu.Lock()
	l.skipReq++
	l.mu.Unlock()
	if err := s.w.nodeSw.DialPeerWithAddress(l.sw.NetAddress()); err != nil {
		s.w.log.add(Ev{K: "note", P: l.idx, C: -1, M: "reconnect failed: dial error"})
		return false
	}
	for !l.sw.Peers().Has(s.w.nodeID) || !s.w.nodeSw.Peers().Has(l.id) {
		if time.Now().After(deadline) {
			s.w.log.add(Ev{K: "note", P: l.idx, C: -1, M: "reconnect failed: peer not registered"})
			return false
		}
		time.Sleep(2 * time.Millisecond)
	}
	l.mu.Lock()
	l.stopped = false
	g := l.gen
	l.mu.Unlock()
	s.w.log.add(Ev{K: "peer-reconnect", P: l.idx, C: -1, G: g})
	return true
}

// forged returns a forged body for chunk i as peer p would send it: as long as the genuine
// one, filled with a byte that is distinct per sender, unique per call.
func (s *sched) forged(h uint64, f uint32, i uint32, p int) []byte {
	g := s.garbage(h, f, i)
	size := len(s.w.rightBytes(h, f, i))
	if size <= len(g) {
		return g
	}
	b := make([]byte, size)
	copy(b, g)
	for k := len(g); k < size; k++ {
		b[k] = 0x30 + byte(p)
	}
	return b
}

// raceBatch delivers one chunk index from several peers at the same moment: one goroutine per
// peer calls Reactor.ReceiveEnvelope with that peer as source (what each peer's receive routine
// does), all released by one barrier.  wrong[k] says whether peers[k] sends forged bytes.
func (s *sched) raceBatch(h uint64, f uint32, idx uint32, peers []int, wrong []bool, sol bool) {
	s.dmu.Lock()
	defer s.dmu.Unlock()
	for t := 0; atomic.LoadInt32(&s.async) > 0 && t < 1500; t++ {
		time.Sleep(2 * time.Millisecond)
	}
	if atomic.LoadInt32(&s.async) > 0 {
		return
	}
	type part struct {
		id   int
		peer int
		src  p2p.Peer
		body []byte
	}
	var parts []part
	for k, p := range peers {
		l := s.w.liars[p]
		l.mu.Lock()
		st := l.stopped
		l.mu.Unlock()
		src := s.w.nodeSw.Peers().Get(l.id)
		if st || src == nil {
			continue
		}
		var body []byte
		if !wrong[k] {
			body = s.w.rightBytes(h, f, idx)
		}
		if body == nil {
			body = s.forged(h, f, idx, p)
		}
		s.amu.Lock()
		s.arrID++
		id := s.arrID
		s.amu.Unlock()
		parts = append(parts, part{id, p, src, body})
	}
	if len(parts) < 2 {
		return
	}
	var ids []string
	for _, pt := range parts {
		ids = append(ids, fmt.Sprint(pt.id))
	}
	s.w.log.add(Ev{K: "batch-start", P: -1, C: -1, H: h, F: f, I: idx, X: strings.Join(ids, ","), Sol: sol})
	for _, pt := range parts {
		s.w.log.add(Ev{K: "chunk-start", P: pt.peer, C: -1, A: pt.id, H: h, F: f, I: idx, B: encB(pt.body), Sol: sol, X: "concurrent"})
	}
	start := make(chan struct{})
	var wg sync.WaitGroup
	for _, pt := range parts {
		pt := pt
		wg.Add(1)
		go func() {
			defer wg.Done()
			msg := &ssproto.ChunkResponse{Height: h, Format: f, Index: idx, Chunk: append([]byte{}, pt.body...)}
			<-start
			s.w.react.ReceiveEnvelope(p2p.Envelope{Src: pt.src, ChannelID: statesync.ChunkChannel, Message: msg})
			s.w.log.add(Ev{K: "chunk-done", P: pt.peer, C: -1, A: pt.id, OK: true})
			s.w.log.add(Ev{K: "chunk-ack", P: pt.peer, C: -1, A: pt.id})
		}()
	}
	close(start)
	wg.Wait()
	s.w.log.add(Ev{K: "batch-end", P: -1, C: -1, H: h, F: f, I: idx})
	s.qmu.Lock()
	s.deliv++
	s.qmu.Unlock()
}

// racePeers picks n connected peers (seeded order): peer 0 plays the honest one in every batch,
// the others send forged bodies; prefer lists peers that should take part (the ones that were asked).
func (s *sched) racePeers(n int, prefer ...int) ([]int, []bool) {
	s.qmu.Lock()
	order := s.rng.Perm(len(s.w.liars))
	s.qmu.Unlock()
	peers := []int{0}
	add := func(p int) {
		for _, q := range peers {
			if q == p {
				return
			}
		}
		if len(peers) < n && p >= 0 && p < len(s.w.liars) {
			peers = append(peers, p)
		}
	}
	for _, p := range prefer {
		add(p)
	}
	for _, p := range order {
		add(p)
	}
	wrong := make([]bool, len(peers))
	for k, p := range peers {
		wrong[k] = p != 0
	}
	return peers, wrong
}

// canary reports whether a request for (h, f, i) is the withheld one, and counts it as a tick.
func (s *sched) canary(h uint64, f uint32, i uint32) bool {
	if !s.w.scn.Canary || len(s.w.scn.Catalog) == 0 {
		return false
	}
	m := s.w.scn.Catalog[0]
	if h != m.Height || f != m.Format || i != m.Chunks-1 {
		return false
	}
	s.amu.Lock()
	defer s.amu.Unlock()
	if s.canaryReleased {
		return false
	}
	s.ticksTotal++
	if s.verdictSeen {
		s.ticks++
	}
	if (s.verdictSeen && len(s.awaiting) == 0) || s.ticks > 48 || s.ticksTotal > 120 {
		s.canaryReleased = true
		return false
	}
	return true
}

// noteRequest records a chunk request seen by any liar.
func (s *sched) noteRequest(h uint64, f uint32, i uint32) {
	s.amu.Lock()
	if s.reqSeen == nil {
		s.reqSeen = map[string]bool{}
	}
	s.reqSeen[fmt.Sprintf("%d/%d/%d", h, f, i)] = true
	if s.verdictSeen && len(s.w.scn.Catalog) > 0 && h == s.w.scn.Catalog[0].Height && f == s.w.scn.Catalog[0].Format {
		delete(s.awaiting, i)
	}
	s.amu.Unlock()
}

// noteVerdict: the app is about to answer with a refetch list / sender rejection (refetch family).
func (s *sched) noteVerdict(refetch []uint32, rejected []int, cur uint32) {
	if !s.w.scn.Liveness {
		return
	}
	s.amu.Lock()
	s.verdictSeen = true
	if s.awaiting == nil {
		s.awaiting = map[uint32]bool{}
	}
	for _, i := range refetch {
		if !(s.w.scn.Canary && len(s.w.scn.Catalog) > 0 && i == s.w.scn.Catalog[0].Chunks-1) {
			s.awaiting[i] = true
		}
		delete(s.firstBy, i)
	}
	for i, p := range s.firstBy {
		for _, rp := range rejected {
			if p == rp && i > cur {
				s.awaiting[i] = true
				delete(s.firstBy, i)
			}
		}
	}
	s.amu.Unlock()
}

func (s *sched) exec(a Action, ctx holdCtx) {
	switch a.Kind {
	case "await-fetched":
		// every index requested at least once; every answer (but the canary's) delivered and acknowledged
		deadline := time.Now().Add(6 * time.Second)
		for time.Now().Before(deadline) {
			all := true
			s.amu.Lock()
			for i := uint32(0); i < ctx.n; i++ {
				if !s.reqSeen[fmt.Sprintf("%d/%d/%d", ctx.h, ctx.f, i)] {
					all = false
				}
			}
			s.amu.Unlock()
			if all {
				break
			}
			time.Sleep(5 * time.Millisecond)
		}
		for t := 0; t < 3; t++ {
			for {
				it := s.pick(true)
				if it == nil {
					break
				}
				s.deliver(it)
			}
			time.Sleep(10 * time.Millisecond)
		}
		s.dmu.Lock() // nothing in flight any more
		s.dmu.Unlock()
	case "race":
		h, f, n := ctx.h, ctx.f, ctx.n
		if n == 0 {
			return
		}
		cnt := a.Count
		if cnt < 2 {
			cnt = 2
		}
		var idxs []uint32
		switch a.Rel {
		case 99:
			for i := uint32(0); i < n; i++ {
				idxs = append(idxs, i)
			}
		case 98:
			for i := uint32(1); i < n; i += 2 {
				idxs = append(idxs, i)
			}
		default:
			idxs = []uint32{uint32((int(ctx.cur) + a.Rel + 4*int(n)) % int(n))}
		}
		for _, idx := range idxs {
			peers, wrong := s.racePeers(cnt)
			s.raceBatch(h, f, idx, peers, wrong, false)
		}
	case "reconnect":
		peer := s.resolvePeer(a.Peer, ctx)
		if peer < 0 || peer >= len(s.w.liars) {
			return
		}
		l := s.w.liars[peer]
		if !s.reconnect(l) {
			return
		}
		var snaps []int
		switch {
		case a.Snap >= 0 && a.Snap < len(s.w.scn.Catalog):
			snaps = []int{a.Snap}
		case a.Snap == -1:
			l.mu.Lock()
			for k := range l.ever {
				snaps = append(snaps, k)
			}
			l.mu.Unlock()
			sort.Ints(snaps)
		}
		for _, ci := range snaps {
			s.deliver(&item{kind: "adv", peer: peer, snap: ci})
		}
	case "push", "push-async":
		peer := s.resolvePeer(a.Peer, ctx)
		if peer < 0 || peer >= len(s.w.liars) {
			return
		}
		h, f, n := ctx.h, ctx.f, ctx.n
		if n == 0 {
			for _, sp := range s.w.scn.Catalog {
				if sp.Kind == "true" && sp.Height == h {
					f, n = sp.Format, sp.Chunks
					break
				}
			}
		}
		if n == 0 {
			return
		}
		idx := uint32((int(ctx.cur) + a.Rel + 4*int(n)) % int(n))
		cnt := a.Count
		if cnt < 1 {
			cnt = 1
		}
		for k := 0; k < cnt; k++ {
			var b []byte
			if a.Bytes == "right" {
				b = s.w.rightBytes(h, f, idx)
			}
			if b == nil {
				b = s.garbage(h, f, idx)
			}
			it := &item{kind: "chunk", peer: peer, h: h, f: f, i: idx, bytes: b}
			if a.Kind == "push-async" {
				// not serialised with the other deliveries and not awaited: the chunk is in flight
				// while the app's response is handled
				atomic.AddInt32(&s.async, 1)
				go func() {
					s.deliverLocked(it)
					atomic.AddInt32(&s.async, -1)
				}()
				d := a.DelayMs
				if d <= 0 {
					d = 4
				}
				time.Sleep(time.Duration(d) * time.Millisecond)
			} else {
				s.deliver(it)
			}
		}
	case "stop":
		if a.Peer < 0 || a.Peer >= len(s.w.liars) {
			return
		}
		s.dmu.Lock()
		s.stopLocked(s.w.liars[a.Peer])
		s.dmu.Unlock()
	case "readv":
		a.Peer = s.resolvePeer(a.Peer, ctx)
		if a.Peer < 0 || a.Peer >= len(s.w.liars) {
			return
		}
		l := s.w.liars[a.Peer]
		var snaps []int
		if a.Snap >= 0 && a.Snap < len(s.w.scn.Catalog) {
			snaps = []int{a.Snap}
		} else {
			l.mu.Lock()
			for k := range l.ever {
				snaps = append(snaps, k)
			}
			l.mu.Unlock()
			sort.Ints(snaps)
		}
		for _, ci := range snaps {
			s.deliver(&item{kind: "adv", peer: a.Peer, snap: ci})
		}
	case "flush":
		for {
			it := s.pick(true)
			if it == nil {
				return
			}
			s.deliver(it)
		}
	}
}
