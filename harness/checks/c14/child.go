package c14

import (
	"bufio"
	"encoding/json"
	"fmt"
	"math/rand"
	"os"
	"sync"
	"time"

	"github.com/gogo/protobuf/proto"
	dbm "github.com/tendermint/tm-db"

	abci "github.com/tendermint/tendermint/abci/types"
	"github.com/tendermint/tendermint/config"
	"github.com/tendermint/tendermint/libs/log"
	"github.com/tendermint/tendermint/p2p"
	"github.com/tendermint/tendermint/p2p/conn"
	ssproto "github.com/tendermint/tendermint/proto/tendermint/statesync"
	sm "github.com/tendermint/tendermint/state"
	"github.com/tendermint/tendermint/statesync"
	"github.com/tendermint/tendermint/store"
	"github.com/tendermint/tendermint/types"

	"verif/chaingen"
)

const (
	envStage  = "VERIF_C14_STAGE"
	envCase   = "VERIF_C14_CASE"
	envOut    = "VERIF_C14_OUT"
	envStream = "VERIF_C14_STREAM"

	nonceBase = uint64(1) << 40
)

// world is everything of one scenario (one child process).
type world struct {
	scn    *Scenario
	log    *evLog
	chain  *chaingen.Chain
	truth  map[uint64]*truthRec
	nodeSw *p2p.Switch
	nodeID p2p.ID
	react  *statesync.Reactor
	liars  []*liar
	sched  *sched
	app    *app
	rounds int32
	mu     sync.Mutex
	cutCh  chan string

	lastRejected int // liar index of the sender most recently named in RejectSenders (-1 none)
}

func (w *world) peerIndex(id string) int {
	for i, l := range w.liars {
		if string(l.id) == id {
			return i
		}
	}
	return -1
}

// advertisersOf: the liars that have advertised exactly this snapshot so far.
func (w *world) advertisersOf(s *abci.Snapshot) []int {
	var out []int
	for i, l := range w.liars {
		l.mu.Lock()
		for ci := range l.ever {
			c := w.scn.Catalog[ci]
			if c.Height == s.Height && c.Format == s.Format && c.Chunks == s.Chunks && c.Hash == hexs(s.Hash) && c.Meta == hexs(s.Metadata) {
				out = append(out, i)
				break
			}
		}
		l.mu.Unlock()
	}
	return out
}

// buildChain makes the canonical chain of a scenario: validator churn, one
// parameter change that also sets the app version, a tx per height.
func buildChain(scn *Scenario) *chaingen.Chain {
	params := types.DefaultConsensusParams()
	params.Version.AppVersion = scn.App.Version
	c := chaingen.New(chaingen.Options{ChainID: "c14-chain", Seed: scn.ChainSeed, Powers: []int64{10, 10, 10, 5}, Params: params, NoBlockStore: true})
	r := rand.New(rand.NewSource(scn.ChainSeed*7919 + 3))
	extra := c.NewKey()
	extra2 := c.NewKey()
	for h := int64(1); h <= scn.ChainLen; h++ {
		txs := []types.Tx{types.Tx(fmt.Sprintf("k%d=v%d", h, r.Intn(1000)))}
		if h == 2 {
			txs = append(txs, types.Tx("param:maxgas=900000"))
		}
		if h == 5+int64(scn.ChainSeed%3) {
			txs = append(txs, types.Tx(fmt.Sprintf("param:maxbytes=%d", 1000000+r.Intn(1000))))
		}
		switch r.Intn(4) {
		case 0:
			txs = append(txs, chaingen.ValTx(extra, int64(1+r.Intn(9))))
		case 1:
			txs = append(txs, chaingen.ValTx(extra2, int64(r.Intn(6)))) // power 0 removes it (a no-op removal is refused by the app? then the tx fails, harmless)
		case 2:
			txs = append(txs, chaingen.ValTx(c.KeyList[r.Intn(3)], int64(5+r.Intn(10))))
		}
		if _, err := c.Step(chaingen.StepPlan{Txs: txs}); err != nil {
			// a validator update the executor refuses (e.g. removing an absent validator): retry the height without it
			c.MustStep(chaingen.StepPlan{Txs: txs[:1]})
		}
	}
	return c
}

// providerState is the state a correct state provider hands out for snapshot
// height h: the canonical state after h, with the two "last changed" pointers
// set the way statesync/stateprovider.go sets them (Bootstrap relies on that).
func providerState(c *chaingen.Chain, h int64) sm.State {
	st := c.Hist[h].StateAfter.Copy()
	st.LastHeightValidatorsChanged = h + 2
	st.LastHeightConsensusParamsChanged = h + 1
	return st
}

func copyCommit(c *types.Commit) *types.Commit {
	cc, err := types.CommitFromProto(c.ToProto())
	if err != nil {
		panic(err)
	}
	return cc
}

func commitBytes(c *types.Commit) []byte {
	if c == nil {
		return nil
	}
	b, _ := proto.Marshal(c.ToProto())
	return b
}

func stateBytes(st sm.State) []byte {
	if st.Validators == nil && st.LastBlockHeight == 0 {
		return nil
	}
	pb, err := st.ToProto()
	if err != nil {
		return []byte("unmarshalable:" + err.Error())
	}
	b, _ := proto.Marshal(pb)
	return b
}

// gateLogger lets the harness act at one point of Reactor.Sync: after the
// syncer exists (so adverts are accepted) and before SyncAny looks at the pool.
type gateLogger struct {
	gate  func()
	once  sync.Once
	out   log.Logger
	added func(kv []interface{}) // the syncer reports that AddChunk queued a chunk
}

func (g *gateLogger) Debug(msg string, kv ...interface{}) {
	if g.out != nil {
		g.out.Debug(msg, kv...)
	}
	if msg == "Added chunk to queue" && g.added != nil {
		g.added(kv)
	}
	if msg == "Requesting snapshots from known peers" && g.gate != nil {
		g.once.Do(g.gate)
	}
}
func (g *gateLogger) Info(msg string, kv ...interface{}) {
	if g.out != nil {
		g.out.Info(msg, kv...)
	}
}
func (g *gateLogger) Error(msg string, kv ...interface{}) {
	if g.out != nil {
		g.out.Error(msg, kv...)
	}
}
func (g *gateLogger) With(kv ...interface{}) log.Logger { return g }

func channels() []*conn.ChannelDescriptor {
	return []*conn.ChannelDescriptor{
		{ID: statesync.SnapshotChannel, Priority: 5, SendQueueCapacity: 100, RecvMessageCapacity: 4e6, MessageType: &ssproto.Message{}},
		{ID: statesync.ChunkChannel, Priority: 3, SendQueueCapacity: 100, RecvMessageCapacity: 16e6, MessageType: &ssproto.Message{}},
	}
}

// liar is a peer of the node under test.
type liar struct {
	p2p.BaseReactor
	idx int
	w   *world
	sw  *p2p.Switch
	id  p2p.ID

	smu     sync.Mutex // held from logging "chunk-start"/"adv-start" until the message is handed to the connection: per liar, log order = send order
	mu      sync.Mutex
	reqNo   int
	round   int
	stopped bool
	ever    map[int]bool // catalog indexes ever advertised
	gen     int          // connection generation
	cur     p2p.Peer     // the node's peer object of the current generation
	skipReq int          // SnapshotsRequests to ignore (sent by the node's AddPeer after a reconnect; the scheduler advertises itself)
}

func (l *liar) GetChannels() []*conn.ChannelDescriptor { return channels() }
func (l *liar) AddPeer(p p2p.Peer) {
	l.mu.Lock()
	l.gen++
	l.cur = p
	l.mu.Unlock()
}
func (l *liar) RemovePeer(p2p.Peer, interface{}) {}

func (l *liar) nodePeer() p2p.Peer {
	l.mu.Lock()
	st := l.stopped
	l.mu.Unlock()
	if st {
		return nil
	}
	return l.sw.Peers().Get(l.w.nodeID)
}

func (l *liar) Receive(chID byte, peer p2p.Peer, msgBytes []byte) {
	m := &ssproto.Message{}
	if err := proto.Unmarshal(msgBytes, m); err != nil {
		return
	}
	um, err := m.Unwrap()
	if err != nil {
		return
	}
	l.ReceiveEnvelope(p2p.Envelope{ChannelID: chID, Src: peer, Message: um})
}

// ReceiveEnvelope is what the switch calls (BaseReactor's no-op would otherwise win).
func (l *liar) ReceiveEnvelope(e p2p.Envelope) {
	um := e.Message
	switch msg := um.(type) {
	case *ssproto.SnapshotsRequest:
		l.mu.Lock()
		if l.skipReq > 0 && e.Src == l.cur && l.gen > 1 {
			l.skipReq--
			l.mu.Unlock()
			return
		}
		r := l.round
		l.round++
		l.mu.Unlock()
		l.w.log.add(Ev{K: "req-snap", P: l.idx, C: r})
		l.w.onSnapshotsRequest(l, r)
	case *ssproto.ChunkRequest:
		l.mu.Lock()
		n := l.reqNo
		l.reqNo++
		g := l.gen
		if e.Src != l.cur {
			g-- // still the previous connection
		}
		l.mu.Unlock()
		l.w.log.add(Ev{K: "req-chunk", P: l.idx, C: n, G: g, H: msg.Height, F: msg.Format, I: msg.Index})
		l.w.sched.noteRequest(msg.Height, msg.Format, msg.Index)
		if l.w.sched.canary(msg.Height, msg.Format, msg.Index) {
			return // withheld: the fetcher waiting for this chunk asks again after ChunkRequestTimeout
		}
		l.w.onChunkRequest(l, n, msg)
	}
}

// adverts of discovery round r
func (l *liar) adverts(r int) []int {
	adv := l.w.scn.Peers[l.idx].Adverts
	if len(adv) == 0 {
		return nil
	}
	if r >= len(adv) {
		r = len(adv) - 1
	}
	return adv[r]
}

func (w *world) onSnapshotsRequest(l *liar, r int) {
	if w.scn.Discovery == "gate0" {
		if r == 0 {
			return // served inside the gate already
		}
		r--
	}
	if r >= 2 {
		select {
		case w.cutCh <- "rediscovery-limit":
		default:
		}
		return
	}
	for _, ci := range l.adverts(r) {
		w.sched.enqueue(&item{kind: "adv", peer: l.idx, snap: ci})
	}
}

func (w *world) onChunkRequest(l *liar, n int, msg *ssproto.ChunkRequest) {
	for _, ci := range w.scn.SilentFor {
		if ci >= 0 && ci < len(w.scn.Catalog) && w.scn.Catalog[ci].Height == msg.Height && w.scn.Catalog[ci].Format == msg.Format {
			return // nobody serves chunks of this snapshot
		}
	}
	if w.scn.RaceRereq && w.rightBytes(msg.Height, msg.Format, msg.Index) != nil {
		// the first request for a chunk stays unanswered; when the request is sent again (to this or
		// another peer) the peer asked first and the peer asked now answer at the same moment
		key := fmt.Sprintf("%d/%d/%d", msg.Height, msg.Format, msg.Index)
		w.sched.amu.Lock()
		if w.sched.rereq == nil {
			w.sched.rereq = map[string][]int{}
		}
		asked := w.sched.rereq[key]
		if len(asked) == 0 {
			w.sched.rereq[key] = []int{l.idx}
			w.sched.amu.Unlock()
			return
		}
		first := asked[0]
		delete(w.sched.rereq, key)
		w.sched.amu.Unlock()
		go func() {
			peers, wrong := w.sched.racePeers(2+int(msg.Index)%2, l.idx, first)
			w.sched.raceBatch(msg.Height, msg.Format, msg.Index, peers, wrong, true)
		}()
		return
	}
	ps := w.scn.Peers[l.idx]
	kind := ""
	if n < len(ps.Script) {
		kind = ps.Script[n]
	} else {
		switch ps.Default {
		case "honest":
			kind = "right"
		case "garbage":
			kind = "wrong"
		case "missing":
			kind = "missing"
		default:
			kind = "silent"
		}
	}
	mk := func(right bool, late bool) *item {
		it := &item{kind: "chunk", peer: l.idx, h: msg.Height, f: msg.Format, i: msg.Index, sol: true, late: late}
		if right {
			it.bytes = w.rightBytes(msg.Height, msg.Format, msg.Index)
		}
		if it.bytes == nil {
			it.bytes = w.sched.garbage(msg.Height, msg.Format, msg.Index)
		}
		return it
	}
	switch kind {
	case "right":
		w.sched.enqueue(mk(true, false))
	case "wrong":
		w.sched.enqueue(mk(false, false))
	case "late":
		w.sched.enqueue(mk(true, true))
	case "missing":
		w.sched.enqueue(&item{kind: "chunk", peer: l.idx, h: msg.Height, f: msg.Format, i: msg.Index, sol: true, missing: true})
	case "dup-rw":
		a, b := mk(true, false), mk(false, false)
		b.after = a
		w.sched.enqueue(a)
		w.sched.enqueue(b)
	case "dup-wr":
		a, b := mk(false, false), mk(true, false)
		b.after = a
		w.sched.enqueue(a)
		w.sched.enqueue(b)
	case "silent":
	}
}

// rightBytes: the genuine content if a genuine snapshot (h, f) with that index exists in the catalog.
func (w *world) rightBytes(h uint64, f uint32, i uint32) []byte {
	for _, s := range w.scn.Catalog {
		if s.Kind == "true" && s.Height == h && s.Format == f && i < s.Chunks {
			return content(w.scn.SubSeed, w.scn.ChunkBody, h, f, i)
		}
	}
	return nil
}

// runChild executes one scenario and writes header + event log to $VERIF_C14_OUT.
func runChild(scn *Scenario, outPath string) {
	w := &world{scn: scn, truth: map[uint64]*truthRec{}, cutCh: make(chan string, 4), lastRejected: -1}
	w.chain = buildChain(scn)
	tip := uint64(w.chain.Height())
	hdr := Header{Scenario: scn, Truth: map[uint64]Truth{}, Tip: tip}
	for h := int64(1); h+2 <= int64(tip); h++ {
		st := providerState(w.chain, h)
		cm := w.chain.Hist[h].Commit
		w.truth[uint64(h)] = &truthRec{state: st, commit: copyCommit(cm), appHash: append([]byte{}, st.AppHash...)}
		hdr.Truth[uint64(h)] = Truth{State: hexs(stateBytes(st)), Commit: hexs(commitBytes(cm)), AppHash: hexs(st.AppHash),
			AppVer: st.Version.Consensus.App, Vals: hexs(st.LastValidators.Hash()), ValsNext: hexs(st.Validators.Hash()),
			ValsNext2: hexs(st.NextValidators.Hash()), Params: hexs(types.HashConsensusParams(st.ConsensusParams))}
	}

	w.log = newEvLog("")
	w.app = newApp(w)
	w.sched = newSched(w)

	sscfg := config.DefaultStateSyncConfig()
	sscfg.ChunkFetchers = scn.Fetchers
	sscfg.ChunkRequestTimeout = time.Duration(scn.ReqTimeout) * time.Millisecond
	w.react = statesync.NewReactor(*sscfg, snapConn{w.app}, queryConn{w.app}, "")
	gl := &gateLogger{}
	if os.Getenv("VERIF_C14_VERBOSE") != "" {
		gl.out = log.NewTMLogger(log.NewSyncWriter(os.Stderr))
	}
	if scn.Discovery == "gate0" {
		gl.gate = w.gate
	}
	gl.added = func(kv []interface{}) {
		e := Ev{K: "added", P: -1, C: -1}
		for k := 0; k+1 < len(kv); k += 2 {
			switch kv[k] {
			case "height":
				if v, ok := kv[k+1].(uint64); ok {
					e.H = v
				}
			case "format":
				if v, ok := kv[k+1].(uint32); ok {
					e.F = v
				}
			case "chunk":
				if v, ok := kv[k+1].(uint32); ok {
					e.I = v
				}
			}
		}
		w.log.add(e)
	}
	w.react.SetLogger(gl)

	pcfg := config.DefaultP2PConfig()
	pcfg.AllowDuplicateIP = true
	pcfg.FlushThrottleTimeout = 2 * time.Millisecond
	if scn.ChunkBody > 0 {
		pcfg.SendRate, pcfg.RecvRate = 1<<30, 1<<30 // large chunk bodies: do not measure the throttle
	}
	switches := make([]*p2p.Switch, 1+len(scn.Peers))
	switches[0] = p2p.MakeSwitch(pcfg, 0, "127.0.0.1", "123.123.123", func(i int, sw *p2p.Switch) *p2p.Switch {
		sw.AddReactor("STATESYNC", w.react)
		return sw
	})
	w.nodeSw = switches[0]
	w.nodeID = w.nodeSw.NodeInfo().ID()
	for j := range scn.Peers {
		l := &liar{idx: j, w: w, ever: map[int]bool{}}
		l.BaseReactor = *p2p.NewBaseReactor("LIAR", l)
		switches[j+1] = p2p.MakeSwitch(pcfg, j+1, "127.0.0.1", "123.123.123", func(i int, sw *p2p.Switch) *p2p.Switch {
			sw.AddReactor("LIAR", l)
			return sw
		})
		l.sw = switches[j+1]
		l.id = l.sw.NodeInfo().ID()
		w.liars = append(w.liars, l)
		hdr.PeerIDs = append(hdr.PeerIDs, string(l.id))
	}
	if err := p2p.StartSwitches(switches); err != nil {
		panic(err)
	}
	for j := range scn.Peers {
		p2p.Connect2Switches(switches, 0, j+1)
	}

	// output: header line, then events as they happen
	hb, _ := json.Marshal(hdr)
	f, err := os.Create(outPath)
	if err != nil {
		panic(err)
	}
	f.Write(hb)
	f.Write([]byte("\n"))
	f.Close()
	w.log = reopenLog(outPath)

	go w.sched.pump()

	disc := time.Duration(0)
	if scn.Discovery == "sleep5" {
		disc = 5 * time.Second
	}
	done := make(chan struct{})
	go func() {
		w.log.add(Ev{K: "sync-call", P: -1, C: -1, X: disc.String()})
		st, cm, err := w.react.Sync(&stubProvider{w: w}, disc)
		e := Ev{K: "sync-ret", P: -1, C: -1, OK: err == nil, X: hexs(stateBytes(st)), X2: hexs(commitBytes(cm))}
		if err != nil {
			e.M = err.Error()
		}
		w.log.add(e)
		if err == nil {
			w.bootstrap(st, cm)
		}
		close(done)
	}()

	// no app / provider call for this long = the syncer waits for its 2 min chunk timeout: the scenario is over
	stallAfter := 5 * time.Second
	if scn.Discovery == "sleep5" {
		stallAfter = 8 * time.Second
	}
	if scn.Liveness {
		stallAfter = 16 * time.Second // generous: the liveness oracles decide on the canary's ticks, not on this
	}
	hardCap := 45 * time.Second
	if scn.LongTimeout {
		stallAfter, hardCap = 150*time.Second, 260*time.Second // the syncer's chunk timeout is 2 minutes
	}
	hard := time.After(hardCap)
	tick := time.NewTicker(250 * time.Millisecond)
	last, lastAt := -1, time.Now()
loop:
	for {
		select {
		case <-done:
			break loop
		case why := <-w.cutCh:
			w.log.add(Ev{K: "cut", P: -1, C: -1, M: why})
			break loop
		case <-hard:
			w.log.add(Ev{K: "cut", P: -1, C: -1, M: "hard-cap"})
			break loop
		case <-tick.C:
			if m := w.log.progressMark(); m != last {
				last, lastAt = m, time.Now()
			} else if time.Since(lastAt) > stallAfter {
				w.log.add(Ev{K: "cut", P: -1, C: -1, M: "stalled"})
				break loop
			}
		}
	}
	w.log.close()
	os.Exit(0)
}

func reopenLog(path string) *evLog {
	l := &evLog{}
	f, err := os.OpenFile(path, os.O_WRONLY|os.O_APPEND, 0o644)
	if err != nil {
		panic(err)
	}
	l.f = f
	l.w = bufio.NewWriter(f)
	return l
}

// gate runs inside Reactor.Sync (see gateLogger): every liar's round-0 adverts are
// delivered and acknowledged before SyncAny(0) looks at the pool.
func (w *world) gate() {
	order := w.sched.rng.Perm(len(w.liars))
	for _, p := range order {
		for _, ci := range w.liars[p].adverts(0) {
			w.sched.deliver(&item{kind: "adv", peer: p, snap: ci})
		}
	}
	w.sched.hold("gate", 0, holdCtx{sender: -1}) // still before SyncAny looks at the pool
}

// bootstrap does what node.startStateSync does with the result, on fresh
// stores, and logs what the stores then hold.
func (w *world) bootstrap(st sm.State, cm *types.Commit) {
	e := Ev{K: "bootstrap", P: -1, C: -1, H: uint64(st.LastBlockHeight)}
	defer func() {
		if r := recover(); r != nil {
			e.M = fmt.Sprintf("panic: %v", r)
			w.log.add(e)
		}
	}()
	ss := sm.NewStore(dbm.NewMemDB(), sm.StoreOptions{})
	bs := store.NewBlockStore(dbm.NewMemDB())
	if err := ss.Bootstrap(st); err != nil {
		e.M = "Bootstrap: " + err.Error()
		w.log.add(e)
		return
	}
	if err := bs.SaveSeenCommit(st.LastBlockHeight, cm); err != nil {
		e.M = "SaveSeenCommit: " + err.Error()
		w.log.add(e)
		return
	}
	loaded, err := ss.Load()
	if err != nil {
		e.M = "Load: " + err.Error()
		w.log.add(e)
		return
	}
	e.X = hexs(stateBytes(loaded))
	e.X2 = hexs(commitBytes(bs.LoadSeenCommit(st.LastBlockHeight)))
	var parts []string
	for d := int64(0); d <= 2; d++ {
		vs, err := ss.LoadValidators(st.LastBlockHeight + d)
		if err != nil {
			parts = append(parts, "err:"+err.Error())
		} else {
			parts = append(parts, hexs(vs.Hash()))
		}
	}
	cp, err := ss.LoadConsensusParams(st.LastBlockHeight + 1)
	if err != nil {
		parts = append(parts, "err:"+err.Error())
	} else {
		parts = append(parts, hexs(types.HashConsensusParams(cp)))
	}
	e.Reject = parts // vals(S), vals(S+1), vals(S+2), params(S+1)
	e.OK = true
	w.log.add(e)
}
