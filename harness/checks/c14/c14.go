// Package c14: state sync bootstraps only to light-verified state that the app
// reproduces (DESIGN.md section 3 "C14", section 4 row S18).
//
// Tier A: a real statesync.Reactor (syncer, chunk queue, snapshot pool) on a
// real p2p.Switch restores from liar peers on channels 0x60/0x61 into a
// recording app with scripted verdicts; the state provider is a logged stub
// serving chaingen truth.  One scenario = one child process (the syncer has no
// cancellation and hard sleeps); the child writes a totally ordered event log,
// the parent runs the oracles (oracle.go, model.go) over it.
//
// Tier B (thorough only): the real light-client state provider against
// JSON-RPC servers of which some lie about one field (tierb.go).
package c14

import (
	"bufio"
	"encoding/json"
	"fmt"
	"os"
	"os/exec"
	"path/filepath"
	"strconv"
	"strings"
	"sync"
	"time"

	"verif/verdict"
)

const stream = "scn"

type witness struct {
	Stream   string      `json:"stream"`
	Case     int         `json:"case"`
	Scenario *Scenario   `json:"scenario"`
	PeerIDs  []string    `json:"peer_ids"`
	Finding  finding     `json:"finding"`
	Outcome  string      `json:"outcome"`
	Log      []Ev        `json:"event_log"`
	Note     string      `json:"note,omitempty"`
	Extra    interface{} `json:"extra,omitempty"`
}

func scenarioFor(c *verdict.Ctx, strm string, idx int) *Scenario {
	if strm == "verify" {
		return genVerifyScenario(c.Seed, c.SubSeed(strm, idx), idx)
	}
	return genScenario(c.Rand(stream, idx), c.Seed, c.SubSeed(stream, idx), stream, idx)
}

func Run(c *verdict.Ctx) int {
	// child stages
	switch os.Getenv(envStage) {
	case "scenario":
		idx, _ := strconv.Atoi(os.Getenv(envCase))
		runChild(scenarioFor(c, os.Getenv(envStream), idx), os.Getenv(envOut))
		return 0
	}

	c.Level = "exploration"
	c.Rule = "a scenario in which the app was offered at least one snapshot and at least one hostile / non-default event happened " +
		"(wrong, missing, duplicated or unsolicited chunk, a verdict other than plain ACCEPT, a refetch / reject-sender list, a vanished peer, " +
		"a provider failure, a lying Info), counted once per distinct app-visible history (sequence of offers, chunk indexes with sender and " +
		"genuine/forged flag, verdicts, Info answer, outcome); tier B: a (lying-server field, role) pair that was actually served to the light client"
	c.Assume(
		"chaingen (real state.MakeBlock / BlockExecutor.ApplyBlock) yields the canonical state, commit and app hash of every height",
		"tier A state provider is a harness stub serving chaingen truth (light verification itself is C09's subject; tier B runs the real provider)",
		"the app connection answers concurrently like the gRPC ABCI server (no global mutex), so barrier requests are served while a restore call is held",
		"per peer and channel, p2p delivers in order and Receive runs sequentially: a barrier request processed by the node proves the preceding message of that liar was processed",
		"in gate0 scenarios the liars' adverts are injected at the syncer's own log point between creating the syncer and SyncAny(0) (a legal schedule: the goroutine is merely slow there); sleep5 scenarios use the real 5 s discovery sleep",
		"ChunkRequestTimeout is 300-700 ms instead of the 10 s default; reference queue model written from spec/abci ApplySnapshotChunk and the property statement",
	)

	dir := verdict.TmpDir("c14-")
	defer os.RemoveAll(dir)

	if rp := c.Replay(); rp != "" {
		var w witness
		if err := verdict.LoadReplay(rp, &w); err != nil {
			c.HarnessError("cannot read replay file: %v", err)
			return c.Finish(0)
		}
		if w.Stream == "tierb" {
			runTierBCase(c, dir, w.Case)
		} else {
			runCase(c, dir, w.Stream, w.Case, true)
		}
		return c.Finish(0)
	}

	n := c.N(128, 5000)
	par := 16
	if v, err := strconv.Atoi(os.Getenv("VERIF_C14_PAR")); err == nil && v > 0 {
		par = v
	}
	if v, err := strconv.Atoi(os.Getenv("VERIF_C14_N")); err == nil && v > 0 {
		n = v
	}
	var wg sync.WaitGroup
	jobs := make(chan int)
	for k := 0; k < par; k++ {
		wg.Add(1)
		go func() {
			defer wg.Done()
			for idx := range jobs {
				runCase(c, dir, stream, idx, false)
			}
		}()
	}
	for idx := 0; idx < n; idx++ {
		jobs <- idx
	}
	close(jobs)
	wg.Wait()

	// verify family: one one-chunk restore per (verified version, reported version, hash, height) combination
	nv := c.N(112, len(verifyCombos()))
	if v, err := strconv.Atoi(os.Getenv("VERIF_C14_NV")); err == nil && v >= 0 {
		nv = v
	}
	vjobs := make(chan int)
	for k := 0; k < par; k++ {
		wg.Add(1)
		go func() {
			defer wg.Done()
			for idx := range vjobs {
				runCase(c, dir, "verify", idx, false)
			}
		}()
	}
	for idx := 0; idx < nv; idx++ {
		vjobs <- idx
	}
	close(vjobs)
	wg.Wait()

	{
		// tier B: the real light-client state provider (a slice of it in the quick tier: it is cheap)
		nb := c.N(18, 60)
		if v, err := strconv.Atoi(os.Getenv("VERIF_C14_NB")); err == nil && v >= 0 {
			nb = v
		}
		jobs := make(chan int)
		for k := 0; k < 8; k++ {
			wg.Add(1)
			go func() {
				defer wg.Done()
				for idx := range jobs {
					runTierBCase(c, dir, idx)
				}
			}()
		}
		for idx := 0; idx < nb; idx++ {
			jobs <- idx
		}
		close(jobs)
		wg.Wait()
	}

	if c.Counter("ApplySnapshotChunk calls") == 0 || c.Counter("outcome: sync returned a state") == 0 {
		c.HarnessError("observed nothing: no chunk reached the app or no restore ever succeeded")
	}
	min := 30
	if c.Thorough() {
		min = 1000
	}
	if os.Getenv("VERIF_C14_N") != "" {
		min = 2
	}
	return c.Finish(min)
}

// spawn runs one child stage; returns header, events, stderr tail, exit code.
func spawn(c *verdict.Ctx, dir, stage, strm string, idx int, timeout time.Duration) (string, string, int) {
	bin := os.Getenv("VERIF_SELF")
	if bin == "" {
		bin, _ = os.Executable()
	}
	tag := fmt.Sprintf("%s-%s-%d", stage, strm, idx)
	sub := filepath.Join(dir, tag)
	_ = os.MkdirAll(sub, 0o755)
	out := filepath.Join(sub, "out.jsonl")
	errPath := filepath.Join(sub, "stderr")
	ef, _ := os.Create(errPath)
	cmd := exec.Command(bin, "--tier", c.Tier, c.ID)
	cmd.Env = append(os.Environ(), envStage+"="+stage, envStream+"="+strm, envCase+"="+strconv.Itoa(idx), envOut+"="+out,
		"TMPDIR="+sub, "VERIF_SEED="+strconv.FormatInt(c.Seed, 10))
	cmd.Stdout = ef
	cmd.Stderr = ef
	if err := cmd.Start(); err != nil {
		ef.Close()
		return out, err.Error(), -1
	}
	done := make(chan error, 1)
	go func() { done <- cmd.Wait() }()
	code := 0
	select {
	case err := <-done:
		if err != nil {
			code = 1
			if ee, ok := err.(*exec.ExitError); ok {
				code = ee.ExitCode()
			}
		}
	case <-time.After(timeout):
		_ = cmd.Process.Kill()
		<-done
		code = -2
	}
	ef.Close()
	tail := ""
	if b, err := os.ReadFile(errPath); err == nil {
		s := string(b)
		if i := strings.Index(s, "panic:"); i >= 0 {
			s = s[i:]
			if len(s) > 3000 {
				s = s[:3000]
			}
		} else if len(s) > 1500 {
			s = s[len(s)-1500:]
		}
		tail = s
	}
	return out, tail, code
}

func readLog(path string) (*Header, []Ev, error) {
	f, err := os.Open(path)
	if err != nil {
		return nil, nil, err
	}
	defer f.Close()
	sc := bufio.NewScanner(f)
	sc.Buffer(make([]byte, 1<<20), 64<<20)
	var h *Header
	var evs []Ev
	for sc.Scan() {
		line := sc.Bytes()
		if len(line) == 0 {
			continue
		}
		if h == nil {
			h = &Header{}
			if err := json.Unmarshal(line, h); err != nil {
				return nil, nil, err
			}
			continue
		}
		var e Ev
		if err := json.Unmarshal(line, &e); err != nil {
			break // torn last line of a crashed child
		}
		evs = append(evs, e)
	}
	if h == nil {
		return nil, nil, fmt.Errorf("empty log")
	}
	return h, evs, nil
}

func runCase(c *verdict.Ctx, dir, strm string, idx int, verbose bool) {
	var h *Header
	var evs []Ev
	var tail string
	var code int
	for try := 0; try < 2; try++ {
		var out string
		out, tail, code = spawn(c, dir, "scenario", strm, idx, 300*time.Second)
		var err error
		h, evs, err = readLog(out)
		_ = os.RemoveAll(filepath.Dir(out))
		if err == nil && code == 0 {
			break
		}
		if err != nil {
			h = nil
		}
		// a child that could not even set up its switches (port clash) is retried once
		if h != nil && len(evs) > 0 {
			break
		}
	}
	c.Eval()
	if h == nil {
		c.Inconclusive("child produced no log")
		fmt.Fprintf(os.Stderr, "C14 case %d: child exit %d, no log; stderr: %s\n", idx, code, tail)
		return
	}
	j := judge(h, evs)
	if code != 0 {
		// the process died inside the scenario: the log is still judged (safety oracles are prefix-closed)
		site := "exit " + strconv.Itoa(code)
		if i := strings.Index(tail, "panic:"); i >= 0 {
			site = strings.SplitN(tail[i:], "\n", 2)[0]
		}
		c.Inconclusive("child died: " + site)
		fmt.Fprintf(os.Stderr, "C14 case %d: child died (%s)\n%s\n", idx, site, tail)
	}
	for _, u := range j.undecided {
		c.Inconclusive(u)
	}
	if j.overflow {
		c.Inconclusive("chunk queue model: too many interleavings to enumerate")
	}
	for _, s := range j.internal {
		c.HarnessError("case %d: %s", idx, s)
	}
	c.Count("outcome: "+j.outcome, 1)
	for k, v := range j.counts {
		if strings.HasPrefix(k, "max ") {
			c.Max(k, v)
		} else {
			c.Count(k, v)
		}
	}
	c.Count("chunk-model apply calls checked", int64(j.modelEvents))
	c.Max("chunk-model max simultaneous states", int64(j.maxStates))
	for _, r := range h.Scenario.Recipes {
		c.Count("recipe "+r, 1)
	}
	c.Count("discovery "+h.Scenario.Discovery, 1)
	if j.nontrivial {
		c.Distinct("A", strm, j.sig)
	}
	for _, f := range j.findings {
		w := witness{Stream: strm, Case: idx, Scenario: h.Scenario, PeerIDs: h.PeerIDs, Finding: f, Outcome: j.outcome, Log: trimLog(evs, f.At),
			Note: "replay: VERIF_SEED=<seed> ./run C14 --replay <this file> re-runs this scenario (arrival order inside the node is re-drawn by the scheduler seed; goroutine timing is not reproduced exactly)"}
		c.Violation(f.Key, f.What, w)
		if verbose {
			fmt.Printf("finding %s: %s\n", f.Key, f.What)
		}
	}
	if c.WantSample() && j.nontrivial && idx%5 == 0 {
		c.Sample(map[string]interface{}{"case": idx, "recipes": h.Scenario.Recipes, "peers": len(h.Scenario.Peers), "outcome": j.outcome,
			"history": j.sig, "events": len(evs)})
	}
	if verbose {
		fmt.Printf("case %d: outcome=%s events=%d findings=%d history=%s\n", idx, j.outcome, len(evs), len(j.findings), j.sig)
	}
}

// trimLog keeps the app / provider / peer events and the chunk traffic up to shortly after the finding.
func trimLog(evs []Ev, at int) []Ev {
	var out []Ev
	for _, e := range evs {
		if e.N > at+6 {
			break
		}
		switch e.K {
		case "chunk-done", "adv-done", "adv-ack", "req-snap":
			continue
		}
		if len(e.X) > 200 {
			e.X = e.X[:200] + "…"
		}
		if len(e.X2) > 200 {
			e.X2 = e.X2[:200] + "…"
		}
		out = append(out, e)
	}
	if len(out) > 400 {
		out = out[len(out)-400:]
	}
	return out
}
