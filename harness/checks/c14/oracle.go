package c14

import (
	"bytes"
	"fmt"
	"sort"
	"strings"

	"github.com/gogo/protobuf/proto"
	tmstate "github.com/tendermint/tendermint/proto/tendermint/state"
)

// finding is one refutation seen in one scenario.
type finding struct {
	Key    string      `json:"key"`
	What   string      `json:"what"`
	At     int         `json:"at_event"`
	Detail interface{} `json:"detail,omitempty"`
}

type arrival struct {
	id    int
	peer  int
	h     uint64
	f     uint32
	i     uint32
	b     string
	miss  bool
	sol   bool
	inj   bool // handed to the reactor directly (concurrent batch), not through the liar's connection
	start int
	ack   int
	ok    bool
}

type advert struct {
	id    int
	peer  int
	f     uint32
	key   string
	start int
	ack   int
	ok    bool
}

func snapKeyOf(h uint64, f uint32, n uint32, hash, meta string) string {
	return fmt.Sprintf("%d/%d/%d/%s/%s", h, f, n, hash, meta)
}

type judgement struct {
	findings    []finding
	counts      map[string]int64
	internal    []string // inconsistencies of the monitor itself (never a verdict about tendermint)
	outcome     string
	nontrivial  bool
	sig         string
	maxStates   int
	modelEvents int
	overflow    bool
	undecided   []string // liveness clauses the log ends too early to decide (watchdog fired first)
}

func (j *judgement) add(key, what string, at int, detail interface{}) {
	j.findings = append(j.findings, finding{Key: key, What: what, At: at, Detail: detail})
}

// judge runs every oracle over the log of one scenario.
func judge(h *Header, evs []Ev) *judgement {
	j := &judgement{counts: map[string]int64{}}
	arr := map[int]*arrival{}
	adv := map[int]*advert{}
	var advList []*advert
	for _, e := range evs {
		switch e.K {
		case "chunk-start":
			arr[e.A] = &arrival{id: e.A, peer: e.P, h: e.H, f: e.F, i: e.I, b: e.B, miss: e.Miss, sol: e.Sol, inj: e.X == "concurrent", start: e.N}
		case "chunk-done":
			if a := arr[e.A]; a != nil {
				a.ok = e.OK
			}
		case "chunk-ack":
			if a := arr[e.A]; a != nil {
				a.ack = e.N
			}
		case "adv-start":
			a := &advert{id: e.A, peer: e.P, f: e.F, key: snapKeyOf(e.H, e.F, e.NCh, e.Hash, e.Meta), start: e.N}
			adv[e.A] = a
			advList = append(advList, a)
			j.counts["advert sent: "+e.X]++
		case "adv-done":
			if a := adv[e.A]; a != nil {
				a.ok = e.OK
			}
		case "adv-ack":
			if a := adv[e.A]; a != nil {
				a.ack = e.N
			}
		}
	}
	peerOf := func(id string) int {
		for i, p := range h.PeerIDs {
			if p == id {
				return i
			}
		}
		return -1
	}

	// ---------- offers, blacklists, return value ----------
	type rejection struct{ peer, at int }
	var rejections []rejection
	offerRejects := map[int][]int{} // offer-ret event (REJECT_SENDER) -> peers certainly rejected by it
	reconnects := map[[2]int]int{}  // (peer, generation) -> event number of the reconnect
	var callNs []int                // event numbers of app / provider calls (the syncer has finished handling every earlier response)
	rejectedKeys := map[string]int{}
	rejectedFormats := map[uint32]int{}
	// rejected while the pool certainly did not hold it any more (every advertiser had left or been rejected by then)
	orphanKeys := map[string]bool{}
	orphanFormats := map[uint32]bool{}
	// rejected after another snapshot of the same format had already left the pool (refused, its peers gone
	// or rejected) while further ones were still pooled
	earlierFormats := map[uint32]string{}
	var stops []rejection // (peer, event) of every peer-stop
	// senders of a snapshot answered REJECT_SENDER that had disconnected while the offer was in flight
	var awayRejections []rejection
	offerCallN := 0
	stopped := map[int]int{}
	var lastSP *Ev
	curKey := ""
	var curOffer *Ev
	lastTerminal := 0
	afterRetrySnapshot := false
	var lastApplyRet, lastInfoRet *Ev
	var syncRet, boot, cut *Ev
	offers := 0
	var batchIdx uint32
	var batchH uint64
	var batchF uint32
	batchAdded, inBatch, batchRet := 0, false, false // batchRet: the syncer handled an app response during the batch (a discard may have freed the slot)
	var lastApplyCall *Ev
	concurrent := map[int]bool{} // arrival ids delivered inside a batch
	for _, e := range evs {
		if e.K == "chunk-start" && e.X == "concurrent" {
			concurrent[e.A] = true
		}
	}
	// pooled(match, at): is there an advert accepted by match that can still be in the pool at event `at`?
	// (sent before `at`, its peer neither stopped nor rejected between the advert and `at`)
	pooled := func(match func(*advert) bool, at int) bool {
		for _, a := range advList {
			if !match(a) || a.start > at {
				continue
			}
			gone := false
			for _, st := range stops {
				if st.peer == a.peer && st.at > a.start && st.at < at {
					gone = true
				}
			}
			for _, r := range rejections {
				if r.peer == a.peer && r.at <= at {
					gone = true
				}
			}
			if !gone {
				return true
			}
		}
		return false
	}
	for k := range evs {
		e := &evs[k]
		switch e.K {
		case "sync-call":
			lastTerminal = e.N
		case "peer-stop":
			stops = append(stops, rejection{e.P, e.N})
			stopped[e.P] = e.N
			j.counts["peer stopped mid-restore"]++
		case "peer-reconnect":
			reconnects[[2]int{e.P, e.G}] = e.N
			j.counts["peer came back under the same ID"]++
		case "req-chunk":
			// a request that arrived over a connection made after the peer had certainly been rejected
			if rc, ok := reconnects[[2]int{e.P, e.G}]; ok && e.G >= 2 {
				for _, r := range rejections {
					if r.peer != e.P || r.at > rc {
						continue
					}
					certain := false
					for _, n := range callNs {
						if n > r.at && n < rc {
							certain = true
						}
					}
					if certain && j.counts["chunk request sent to a rejected sender"] == 0 {
						j.counts["chunk request sent to a rejected sender"]++
						j.add("chunk-requested-from-rejected-sender",
							fmt.Sprintf("the node asked peer %d (%s) for chunk %d of snapshot %d/%d over a connection established at event %d, after the app had rejected that sender at event %d", e.P, h.PeerIDs[e.P], e.I, e.H, e.F, rc, r.at), e.N, e)
						break
					}
				}
				j.counts["chunk request seen by a peer after it came back"]++
			}
		case "sp-call":
			callNs = append(callNs, e.N)
			j.counts["provider call "+e.M]++
		case "sp-ret":
			lastSP = e
			if !e.OK {
				j.counts["provider failure "+e.M]++
				lastTerminal = e.N
				if e.M != "AppHash" && curKey != "" && e.X2 != "nowitness" {
					rejectedKeys[curKey] = e.N
					ck := curKey
					if !pooled(func(a *advert) bool { return a.key == ck }, e.N) {
						orphanKeys[ck] = true
					}
				}
				afterRetrySnapshot = false
			}
		case "offer-call":
			callNs = append(callNs, e.N)
			offerCallN = e.N
			offers++
			key := snapKeyOf(e.H, e.F, e.NCh, e.Hash, e.Meta)
			t, verifiable := h.Truth[e.H]
			switch {
			case lastSP == nil || lastSP.M != "AppHash" || lastSP.H != e.H || !lastSP.OK:
				j.add("snapshot-offered-without-verified-app-hash", fmt.Sprintf("OfferSnapshot(height %d) was not directly preceded by a successful AppHash(%d) of the state provider", e.H, e.H), e.N, e)
			case !verifiable:
				j.add("unverifiable-snapshot-offered", fmt.Sprintf("snapshot at height %d (chain tip %d) cannot be light-verified but was offered", e.H, h.Tip), e.N, e)
			case e.B != t.AppHash:
				j.add("offered-app-hash-not-from-light-client", fmt.Sprintf("OfferSnapshot.AppHash=%s, light-verified app hash of height %d is %s", e.B, e.H, t.AppHash), e.N, e)
			}
			if at, ok := rejectedKeys[key]; ok {
				if orphanKeys[key] {
					j.add("rejected-snapshot-offered-again-after-pool-removal", fmt.Sprintf("snapshot %s was rejected at event %d, when every peer that had advertised it had already left or been rejected (the pool no longer held it); it was advertised again and is offered again", key, at), e.N, e)
				} else {
					j.add("rejected-snapshot-offered-again", fmt.Sprintf("snapshot %s was rejected at event %d and is offered again", key, at), e.N, e)
				}
			}
			if at, ok := rejectedFormats[e.F]; ok {
				if how, ok := earlierFormats[e.F]; ok && !orphanFormats[e.F] {
					j.add("rejected-format-offered-again-after-earlier-removal", fmt.Sprintf("format %d was rejected at event %d, after another snapshot of that format had already left the pool (%s); a snapshot of that format is offered nevertheless", e.F, at, how), e.N, e)
				} else if orphanFormats[e.F] {
					j.add("rejected-format-offered-again-after-pool-removal", fmt.Sprintf("format %d was rejected at event %d, when the pool held no snapshot of that format any more; a snapshot of that format is offered", e.F, at), e.N, e)
				} else {
					j.add("rejected-format-offered-again", fmt.Sprintf("format %d was rejected at event %d and a snapshot of that format is offered", e.F, at), e.N, e)
				}
			}
			if afterRetrySnapshot && key != curKey {
				j.add("retry-snapshot-offered-other-snapshot", "RETRY_SNAPSHOT was followed by an offer of a different snapshot", e.N, e)
			}
			// a source that is not a rejected sender
			if !(afterRetrySnapshot && key == curKey) {
				any, valid, validAway := false, false, false
				for _, a := range advList {
					if a.key != key || a.start > e.N {
						continue
					}
					any = true
					bad := false
					away := false
					for _, r := range awayRejections {
						if r.peer == a.peer && r.at <= lastTerminal {
							away = true
						}
					}
					for _, r := range rejections {
						if r.peer != a.peer || r.at > lastTerminal {
							continue
						}
						// rejected before the advert was sent, or after it had certainly been pooled
						if r.at < a.start || (a.ack > 0 && a.ack < r.at) {
							bad = true
						}
					}
					if !bad {
						valid = true
						if !away {
							validAway = true
						}
					}
				}
				if any && valid && !validAway {
					j.add("offer-reject-sender-misses-sender-that-left-during-the-offer",
						"the app answered REJECT_SENDER for a snapshot whose only sender had disconnected while the offer was in flight; that sender came back and a snapshot it (alone) advertises is offered", e.N, e)
				}
				if !any {
					j.add("offered-snapshot-never-advertised", "no peer sent this snapshot before it was offered", e.N, e)
				} else if !valid {
					j.add("snapshot-of-rejected-sender-offered", "every peer that advertised this snapshot had been rejected before the pool was consulted", e.N, e)
				}
			}
			curKey, curOffer = key, e
			afterRetrySnapshot = false
		case "offer-ret":
			j.counts["offer verdict "+e.M]++
			if e.M != "ACCEPT" {
				lastTerminal = e.N
			}
			switch e.M {
			case "REJECT":
				rejectedKeys[curKey] = e.N
				ck := curKey
				if !pooled(func(a *advert) bool { return a.key == ck }, e.N) {
					orphanKeys[ck] = true
					j.counts["snapshot rejected while no longer pooled (at offer)"]++
				}
			case "REJECT_FORMAT":
				if curOffer != nil {
					rejectedFormats[curOffer.F] = e.N
					cf := curOffer.F
					if !pooled(func(a *advert) bool { return a.f == cf }, e.N) {
						orphanFormats[cf] = true
						j.counts["format rejected while no snapshot of it pooled"]++
					} else {
						// which snapshots of that format had been advertised and are gone by now, and how
						seen := map[string]bool{}
						for _, a := range advList {
							if a.f != cf || a.start > e.N || a.key == curKey || seen[a.key] {
								continue
							}
							seen[a.key] = true
							ak := a.key
							how := ""
							if _, ok := rejectedKeys[ak]; ok {
								how = "refused (REJECT / provider failure)"
							} else if !pooled(func(b *advert) bool { return b.key == ak }, e.N) {
								how = "its peers had disconnected or been rejected as senders"
							}
							if how != "" {
								earlierFormats[cf] = how
								j.counts["format rejected after a snapshot of it had left the pool: "+how]++
							}
						}
						still := 0
						seen = map[string]bool{}
						for _, a := range advList {
							ak := a.key
							if a.f == cf && a.start < e.N && ak != curKey && !seen[ak] {
								seen[ak] = true
								if _, ok := rejectedKeys[ak]; !ok && pooled(func(b *advert) bool { return b.key == ak }, e.N) {
									still++
								}
							}
						}
						if still > 0 {
							j.counts["format rejected while other snapshots of it were still pooled"]++
						}
					}
				}
			case "REJECT_SENDER":
				// advertisers that left between the offer call and its answer: the pool cannot name them any more
				for _, a := range advList {
					if a.key != curKey || a.ack == 0 || a.ack > offerCallN {
						continue
					}
					for _, st := range stops {
						if st.peer == a.peer && st.at > offerCallN && st.at < e.N {
							awayRejections = append(awayRejections, rejection{a.peer, e.N})
							j.counts["REJECT_SENDER while the sender had just disconnected"]++
						}
					}
				}
				// the senders rejected are the peers the pool holds for this snapshot; only peers whose
				// advert was certainly pooled are taken as rejected (an advert is dropped when the peer
				// already has 10 snapshots pooled, or its format / key / sender was blacklisted)
				for _, a := range advList {
					if a.key != curKey || a.ack == 0 || a.ack > e.N {
						continue
					}
					if _, st := stopped[a.peer]; st {
						continue
					}
					distinct := map[string]bool{}
					for _, b := range advList {
						if b.peer == a.peer && b.start <= a.start {
							distinct[b.key] = true
						}
					}
					if len(distinct) > 10 {
						continue
					}
					if at, ok := rejectedKeys[a.key]; ok && at < a.start {
						continue
					}
					if curOffer != nil {
						if at, ok := rejectedFormats[curOffer.F]; ok && at < a.start {
							continue
						}
					}
					rejections = append(rejections, rejection{a.peer, e.N})
					offerRejects[e.N] = append(offerRejects[e.N], a.peer)
				}
			}
		case "batch-start":
			batchIdx, batchAdded, inBatch, batchRet = e.I, 0, true, false
			batchH, batchF = e.H, e.F
			j.counts["concurrent delivery batches (same index, several peers, released together)"]++
			j.counts["chunk deliveries inside concurrent batches"] += int64(len(strings.Split(e.X, ",")))
			if e.Sol {
				j.counts["concurrent batches answering a re-sent chunk request"]++
			}
		case "added":
			if inBatch && e.I == batchIdx && e.H == batchH && e.F == batchF {
				batchAdded++
			}
		case "batch-end":
			inBatch = false
			if batchAdded > 1 && !batchRet {
				j.add("concurrent-chunk-queued-more-than-once", fmt.Sprintf("%d of the concurrent deliveries of chunk %d were reported as added to the queue (AddChunk returned true); at most one may be", batchAdded, e.I), e.N, e)
			}
			if batchAdded == 1 {
				j.counts["concurrent batches in which exactly one delivery was queued"]++
			} else if batchAdded == 0 {
				j.counts["concurrent batches in which no delivery was queued (chunk already held / senders rejected)"]++
			}
		case "apply-call":
			callNs = append(callNs, e.N)
			j.counts["ApplySnapshotChunk calls"]++
			if k, w := provenance(arr, e); k != "" {
				j.add(k, w, e.N, e)
			}
			if a := concurrentSource(arr, concurrent, e); a != nil {
				j.counts["applied chunk came out of a concurrent batch"]++
				if strings.HasPrefix(string(unhex(e.B)), "T") {
					j.counts["... the honest delivery had won"]++
				} else {
					j.counts["... a forged delivery had won"]++
				}
			}
			if lastApplyRet != nil && lastApplyRet.M == "RETRY" && len(lastApplyRet.Refetch) == 0 && lastApplyCall != nil && lastApplyCall.I == e.I {
				if lastApplyCall.B == e.B && lastApplyCall.Sender == e.Sender {
					j.counts["chunk re-applied after plain RETRY with the same bytes and sender"]++
				}
			}
			lastApplyCall = e
		case "apply-ret":
			if inBatch {
				batchRet = true
			}
			lastApplyRet = e
			j.counts["apply verdict "+e.M]++
			if len(e.Refetch) > 0 {
				j.counts["apply verdict with RefetchChunks"]++
			}
			if len(e.Reject) > 0 {
				j.counts["apply verdict with RejectSenders"]++
			}
			for _, s := range e.Reject {
				if p := peerOf(s); p >= 0 {
					rejections = append(rejections, rejection{p, e.N})
				}
				if lastApplyCall != nil && s == lastApplyCall.Sender && lastApplyCall.C == e.C {
					if k, _ := provenance(arr, lastApplyCall); k == "" {
						j.counts["sender rejected for a chunk was the peer that had delivered those bytes"]++
					} else {
						j.add("sender-rejected-for-bytes-of-another-peer", fmt.Sprintf("the app rejected sender %s for chunk %d, but the bytes it was shown had not been delivered by that peer", s, e.I), e.N, e)
					}
				}
			}
			switch e.M {
			case "REJECT_SNAPSHOT":
				rejectedKeys[curKey] = e.N
				lastTerminal = e.N
				ck := curKey
				if !pooled(func(a *advert) bool { return a.key == ck }, e.N) {
					orphanKeys[ck] = true
					j.counts["snapshot rejected while no longer pooled (REJECT_SNAPSHOT + RejectSenders)"]++
				}
			case "RETRY_SNAPSHOT":
				afterRetrySnapshot = true
				lastTerminal = e.N
			case "ABORT":
				lastTerminal = e.N
			}
		case "info-ret":
			lastInfoRet = e
		case "sync-ret":
			syncRet = e
		case "bootstrap":
			boot = e
		case "cut":
			cut = e
		case "note":
			j.counts["note: "+e.M]++
		}
	}

	switch {
	case syncRet != nil && syncRet.OK:
		j.outcome = "sync returned a state"
		if curOffer == nil {
			j.add("sync-succeeded-without-accepted-offer", "Sync returned success but the app never accepted a snapshot", syncRet.N, nil)
			break
		}
		S := curOffer.H
		t, ok := h.Truth[S]
		if !ok {
			j.add("unverifiable-snapshot-restored", fmt.Sprintf("Sync returned success for height %d which cannot be light-verified", S), syncRet.N, nil)
			break
		}
		if syncRet.X != t.State {
			j.add("returned-state-differs-from-canonical", fmt.Sprintf("state returned by Sync for snapshot height %d differs from the canonical state in: %s", S, strings.Join(stateDiff(syncRet.X, t.State), ", ")), syncRet.N,
				map[string]string{"returned": syncRet.X, "canonical": t.State})
		}
		if syncRet.X2 != t.Commit {
			j.add("returned-commit-differs-from-canonical", fmt.Sprintf("commit returned by Sync for height %d is not the canonical commit", S), syncRet.N,
				map[string]string{"returned": syncRet.X2, "canonical": t.Commit})
		}
		if lastInfoRet == nil || (lastApplyRet != nil && lastInfoRet.N < lastApplyRet.N) {
			j.add("sync-succeeded-without-app-info", "Sync returned success without asking the app for its hash/height/version after the last chunk", syncRet.N, nil)
		} else {
			if lastInfoRet.Ver != t.AppVer {
				j.add("bootstrapped-with-app-version-mismatch", fmt.Sprintf("Sync returned a state and commit (the node would bootstrap) although the restored app reported app version %d; the light-verified version for height %d is %d", lastInfoRet.Ver, S+1, t.AppVer), syncRet.N, lastInfoRet)
			}
			if lastInfoRet.B != t.AppHash {
				j.add("bootstrapped-with-app-hash-mismatch", fmt.Sprintf("Sync returned a state and commit (the node would bootstrap) although the restored app reported app hash %q; the light-verified app hash after height %d is %s", lastInfoRet.B, S, t.AppHash), syncRet.N, lastInfoRet)
			}
			if lastInfoRet.H != S {
				j.add("bootstrapped-with-app-height-mismatch", fmt.Sprintf("Sync returned a state and commit (the node would bootstrap) although the restored app reported last block height %d; the snapshot height is %d", lastInfoRet.H, S), syncRet.N, lastInfoRet)
			}
		}
		if boot != nil {
			var bad []string
			if !boot.OK {
				bad = append(bad, boot.M)
			} else {
				if boot.X != t.State {
					bad = append(bad, "loaded state: "+strings.Join(stateDiff(boot.X, t.State), ","))
				}
				if boot.X2 != t.Commit {
					bad = append(bad, "seen commit")
				}
				want := []string{t.Vals, t.ValsNext, t.ValsNext2, t.Params}
				names := []string{"validators(S)", "validators(S+1)", "validators(S+2)", "params(S+1)"}
				for k := range want {
					if k >= len(boot.Reject) || boot.Reject[k] != want[k] {
						bad = append(bad, names[k])
					}
				}
			}
			if len(bad) > 0 {
				j.add("bootstrapped-stores-differ-from-canonical", "after Bootstrap+SaveSeenCommit the stores differ from the canonical chain in: "+strings.Join(bad, "; "), boot.N, boot)
			}
			j.counts["bootstrap replayed on fresh stores"]++
		}
	case syncRet != nil:
		m := syncRet.M
		for _, cls := range []string{"no suitable snapshots", "aborted", "verification failed", "app version mismatch", "no witnesses"} {
			if strings.Contains(m, cls) {
				m = cls
			}
		}
		j.outcome = "sync failed: " + m
	case cut != nil:
		j.outcome = "cut: " + cut.M
	default:
		j.outcome = "log ends (child died)"
	}

	if h.Scenario.Liveness {
		j.liveness(h, evs, arr, peerOf, syncRet, cut)
	}
	if is := h.Scenario.App.Info; is != nil && lastInfoRet != nil && curOffer != nil {
		// verify family: what the app reported against the verified values, and what Sync did with it
		t := h.Truth[curOffer.H]
		var mism []string
		if lastInfoRet.Ver != t.AppVer {
			mism = append(mism, "version")
		}
		if lastInfoRet.B != t.AppHash {
			mism = append(mism, "hash")
		}
		if lastInfoRet.H != curOffer.H {
			mism = append(mism, "height")
		}
		vclass := fmt.Sprint(t.AppVer)
		if t.AppVer > 1000 {
			vclass = "large"
		}
		switch {
		case syncRet == nil:
			j.counts["verify: scenario cut before Sync returned"]++
		case len(mism) == 0 && syncRet.OK:
			j.counts["verify: all three equal -> bootstrapped (verified version "+vclass+")"]++
		case len(mism) == 0:
			j.add("sync-refused-although-app-reports-verified-values", fmt.Sprintf("the restored app reported exactly the verified hash, height %d and version %d, honest peers and provider, yet Sync failed: %s", curOffer.H, t.AppVer, syncRet.M), syncRet.N, lastInfoRet)
		case !syncRet.OK:
			j.counts["verify: refused, app reported other "+strings.Join(mism, "+")]++
			j.counts["verify: refused mismatch with verified version "+vclass]++
			if t.AppVer == 0 && lastInfoRet.Ver != 0 {
				j.counts["verify: refused, verified version 0 and app reports non-zero"]++
			}
			if t.AppVer != 0 && lastInfoRet.Ver == 0 {
				j.counts["verify: refused, verified version non-zero and app reports 0"]++
			}
		}
	}

	// ---------- chunk queue model ----------
	m := &model{h: h, evs: evs, arr: arr, peerOf: peerOf, offerRejects: offerRejects}
	m.prepass()
	strictFail := m.run(true)
	j.maxStates, j.modelEvents = m.maxStates, m.checked
	j.internal = append(j.internal, m.internal...)
	j.overflow = m.overflow
	if strictFail != nil {
		m2 := &model{h: h, evs: evs, arr: arr, peerOf: peerOf, offerRejects: offerRejects}
		m2.prepass()
		superFail := m2.run(false)
		j.internal = append(j.internal, m2.internal...)
		if m2.overflow {
			j.overflow = true
			superFail = nil
			strictFail = nil
		}
		if m2.checked > j.modelEvents {
			j.modelEvents = m2.checked
		}
		if m2.maxStates > j.maxStates {
			j.maxStates = m2.maxStates
		}
		if strictFail != nil && (superFail == nil || superFail.at > strictFail.at) {
			e := strictFail.ev
			var rejAt []int
			for _, r := range rejections {
				if r.peer == e.P && r.at < e.N {
					rejAt = append(rejAt, r.at)
				}
			}
			var cands []int
			for _, a := range arr {
				if a.peer == e.P && a.i == e.I && a.b == e.B {
					cands = append(cands, a.start)
				}
			}
			sort.Ints(cands)
			// Chunks that were in flight while the syncer handled the response rejecting their sender
			// (sent before the syncer's next call, not yet acknowledged when the response was logged)
			// raced with RejectPeer + DiscardSender instead of arriving after them.  If allowing
			// exactly those to be kept explains the call, the deviation is that race.
			inFlight := map[int]bool{}
			for _, r := range rejections {
				next := 1 << 60
				for _, n := range callNs {
					if n > r.at && n < next {
						next = n
					}
				}
				for _, a := range arr {
					if a.peer == r.peer && a.start < next && (a.ack == 0 || a.ack > r.at) {
						inFlight[a.id] = true
					}
				}
			}
			race := false
			if len(inFlight) > 0 {
				m3 := &model{h: h, evs: evs, arr: arr, peerOf: peerOf, offerRejects: offerRejects, raceOK: inFlight}
				m3.prepass()
				f3 := m3.run(true)
				race = !m3.overflow && (f3 == nil || f3.at > strictFail.at)
			}
			if race {
				j.add("chunk-in-flight-during-sender-rejection-kept",
					fmt.Sprintf("ApplySnapshotChunk(index %d) carries sender %s, rejected by the app at event(s) %v; the chunk (sent at event(s) %v) was being processed by the node while the syncer handled that response: it was neither discarded with the sender's other unapplied chunks nor refused as coming from a rejected sender", e.I, e.Sender, rejAt, cands),
					e.N, map[string]interface{}{"apply_call": e, "model": strictFail.what})
			} else {
				j.add("rejected-sender-chunk-accepted-again",
					fmt.Sprintf("ApplySnapshotChunk(index %d) carries sender %s, which the app had rejected at event(s) %v; the chunk was sent by that peer at event(s) %v; only a queue that keeps accepting chunks from rejected senders explains the call", e.I, e.Sender, rejAt, cands),
					e.N, map[string]interface{}{"apply_call": e, "model": strictFail.what})
			}
		}
		if superFail != nil {
			dup := false
			for _, f := range j.findings {
				if f.At == superFail.at && f.Key == superFail.key {
					dup = true
				}
			}
			if !dup {
				j.add(superFail.key, superFail.what, superFail.at, superFail.ev)
			}
		}
	}
	for k, v := range m.counts {
		j.counts[k] += v
	}

	// non-trivial: the app saw at least one restore call and something hostile / non-default happened
	hostile := 0
	for _, e := range evs {
		switch e.K {
		case "chunk-start":
			if !e.Sol || e.Miss || !strings.HasPrefix(string(unhex(e.B)), "T") {
				hostile++
			}
		case "apply-ret":
			if e.M != "ACCEPT" || len(e.Refetch) > 0 || len(e.Reject) > 0 {
				hostile++
			}
		case "offer-ret":
			if e.M != "ACCEPT" {
				hostile++
			}
		case "peer-stop":
			hostile++
		case "sp-ret":
			if !e.OK {
				hostile++
			}
		case "info-ret":
			if h.Scenario.App.InfoLie != "" || h.Scenario.App.Info != nil {
				hostile++
			}
		}
	}
	j.nontrivial = offers > 0 && hostile > 0
	// signature of the observed history (for the distinct count): the app-visible call/verdict sequence
	var sb strings.Builder
	for _, e := range evs {
		switch e.K {
		case "offer-call":
			fmt.Fprintf(&sb, "O%d/%d/%d;", e.H, e.F, e.NCh)
		case "offer-ret", "apply-ret":
			fmt.Fprintf(&sb, "=%s%v%d;", e.M, e.Refetch, len(e.Reject))
		case "apply-call":
			fmt.Fprintf(&sb, "A%d<%d%v;", e.I, e.P, strings.HasPrefix(string(unhex(e.B)), "T"))
		case "info-ret":
			fmt.Fprintf(&sb, "I%d/%d/%.10s/%d;", e.H, e.Ver, e.B, len(e.B))
		case "sync-ret":
			fmt.Fprintf(&sb, "R%v;", e.OK)
		case "peer-stop":
			fmt.Fprintf(&sb, "X%d;", e.P)
		}
	}
	j.sig = sb.String()
	return j
}

// stateDiff names the fields in which two marshalled states differ.
func stateDiff(aHex, bHex string) []string {
	var a, b tmstate.State
	if err := proto.Unmarshal(unhex(aHex), &a); err != nil || aHex == "" {
		return []string{"(returned state unreadable or empty)"}
	}
	if err := proto.Unmarshal(unhex(bHex), &b); err != nil {
		return []string{"(canonical state unreadable)"}
	}
	var out []string
	cmp := func(name string, x, y proto.Message) {
		xb, _ := proto.Marshal(x)
		yb, _ := proto.Marshal(y)
		if !bytes.Equal(xb, yb) {
			out = append(out, name)
		}
	}
	cmp("Version", &a.Version, &b.Version)
	if a.ChainID != b.ChainID {
		out = append(out, "ChainID")
	}
	if a.InitialHeight != b.InitialHeight {
		out = append(out, "InitialHeight")
	}
	if a.LastBlockHeight != b.LastBlockHeight {
		out = append(out, "LastBlockHeight")
	}
	cmp("LastBlockID", &a.LastBlockID, &b.LastBlockID)
	if !a.LastBlockTime.Equal(b.LastBlockTime) {
		out = append(out, "LastBlockTime")
	}
	cmpv := func(name string, x, y proto.Message, xn, yn bool) {
		if xn || yn {
			if xn != yn {
				out = append(out, name)
			}
			return
		}
		cmp(name, x, y)
	}
	cmpv("NextValidators", a.NextValidators, b.NextValidators, a.NextValidators == nil, b.NextValidators == nil)
	cmpv("Validators", a.Validators, b.Validators, a.Validators == nil, b.Validators == nil)
	cmpv("LastValidators", a.LastValidators, b.LastValidators, a.LastValidators == nil, b.LastValidators == nil)
	if a.LastHeightValidatorsChanged != b.LastHeightValidatorsChanged {
		out = append(out, "LastHeightValidatorsChanged")
	}
	cmp("ConsensusParams", &a.ConsensusParams, &b.ConsensusParams)
	if a.LastHeightConsensusParamsChanged != b.LastHeightConsensusParamsChanged {
		out = append(out, "LastHeightConsensusParamsChanged")
	}
	if !bytes.Equal(a.LastResultsHash, b.LastResultsHash) {
		out = append(out, "LastResultsHash")
	}
	if !bytes.Equal(a.AppHash, b.AppHash) {
		out = append(out, "AppHash")
	}
	if len(out) == 0 {
		out = append(out, "(encoding only)")
	}
	return out
}

// concurrentSource: the arrival out of a concurrent batch that explains an apply call, if any.
func concurrentSource(arr map[int]*arrival, concurrent map[int]bool, e *Ev) *arrival {
	for id := range concurrent {
		a := arr[id]
		if a != nil && a.peer == e.P && a.i == e.I && a.h == e.H && a.f == e.F && a.b == e.B && a.start < e.N {
			return a
		}
	}
	return nil
}

// refetchTickBound: a refetched chunk must be requested again before another fetcher, which re-requests a
// withheld chunk every ChunkRequestTimeout (250 ms in this family), has done so this many times
// (32 x 250 ms = four of the fetchers' 2 s poll intervals).  Both clocks are timers of the same process.
const refetchTickBound = 32

// liveness decides "refetch and retry requests are honoured" for the refetch family: after an
// ACCEPT / RETRY verdict with refetch_chunks and / or reject_senders, given when every chunk index has
// been requested once and honest peers stay connected, every discarded chunk is requested again from a
// peer that is not rejected, and the restore completes with the verified state.
func (j *judgement) liveness(h *Header, evs []Ev, arr map[int]*arrival, peerOf func(string) int, syncRet, cut *Ev) {
	if len(h.Scenario.Catalog) == 0 {
		return
	}
	m := h.Scenario.Catalog[0]
	canary := uint32(1 << 31)
	if h.Scenario.Canary {
		canary = m.Chunks - 1
	}
	held := map[uint32]int{}     // index -> peer whose chunk the queue holds
	applied := map[uint32]bool{} // index currently applied
	rejected := map[int]int{}    // peer -> event of rejection
	type want struct {
		idx  uint32
		at   int // event of the verdict
		why  string
		done bool
	}
	var wants []*want
	ackPeer := map[int]*arrival{}
	for id, a := range arr {
		ackPeer[id] = a
	}
	verdicts := 0
	for k := range evs {
		e := &evs[k]
		switch e.K {
		case "chunk-ack":
			a := ackPeer[e.A]
			if a == nil || a.miss || a.h != m.Height || a.f != m.Format || a.i >= m.Chunks {
				break
			}
			if _, rej := rejected[a.peer]; rej {
				break
			}
			if _, ok := held[a.i]; !ok {
				held[a.i] = a.peer
			}
		case "apply-call":
			applied[e.I] = true
		case "apply-ret":
			if e.M != "ACCEPT" && e.M != "RETRY" {
				break
			}
			if len(e.Refetch) > 0 || len(e.Reject) > 0 {
				verdicts++
			}
			for _, idx := range e.Refetch {
				if _, ok := held[idx]; ok {
					delete(held, idx)
					delete(applied, idx)
					wants = append(wants, &want{idx: idx, at: e.N, why: "refetch_chunks"})
				}
			}
			for _, sid := range e.Reject {
				p := peerOf(sid)
				if p < 0 {
					continue
				}
				rejected[p] = e.N
				for idx, hp := range held {
					if hp == p && !applied[idx] {
						delete(held, idx)
						wants = append(wants, &want{idx: idx, at: e.N, why: "reject_senders (unapplied chunk of the rejected sender)"})
					}
				}
			}
			if e.M == "RETRY" {
				delete(applied, e.I)
			}
		case "req-chunk":
			if e.H != m.Height || e.F != m.Format {
				break
			}
			for _, w := range wants {
				if w.done || w.idx != e.I || e.N < w.at {
					continue
				}
				if at, rej := rejected[e.P]; rej && at <= e.N {
					continue // asked a rejected peer: does not count
				}
				ticks := 0
				for _, x := range evs {
					if x.K == "req-chunk" && x.N > w.at && x.N < e.N && x.I == canary && x.H == m.Height && x.F == m.Format {
						ticks++
					}
				}
				w.done = true
				if ticks > refetchTickBound {
					j.add("refetch-after-full-allocation-never-requested",
						fmt.Sprintf("chunk %d, discarded through %s at event %d when every chunk index had been requested, was requested again only after another fetcher had re-requested its outstanding chunk %d times (bound %d, i.e. four poll intervals)", w.idx, w.why, w.at, ticks, refetchTickBound), e.N, e)
				} else {
					j.counts["discarded chunk requested again from a non-rejected peer"]++
					if int64(ticks) > j.counts["max canary ticks before a refetched chunk was requested again"] {
						j.counts["max canary ticks before a refetched chunk was requested again"] = int64(ticks)
					}
				}
			}
		}
	}
	if verdicts > 0 {
		j.counts["refetch / reject-sender verdict (ACCEPT or RETRY) given after every chunk index had been requested"] += int64(verdicts)
	}
	last := 0
	if len(evs) > 0 {
		last = evs[len(evs)-1].N
	}
	for _, w := range wants {
		if w.done {
			continue
		}
		ticks := 0
		for _, x := range evs {
			if x.K == "req-chunk" && x.N > w.at && x.I == canary && x.H == m.Height && x.F == m.Format {
				ticks++
			}
		}
		if ticks > refetchTickBound {
			j.add("refetch-after-full-allocation-never-requested",
				fmt.Sprintf("chunk %d, discarded through %s at event %d when every chunk index had been requested, was not requested again although another fetcher re-requested its outstanding chunk %d times meanwhile (bound %d, i.e. four poll intervals); honest peers were connected", w.idx, w.why, w.at, ticks, refetchTickBound), last, nil)
		} else {
			j.undecided = append(j.undecided, "refetched chunk not requested again before the scenario was cut (no logical clock: no withheld chunk in this scenario)")
		}
	}
	// the restore completes
	good := false
	for p := range h.PeerIDs {
		if _, rej := rejected[p]; !rej {
			good = true
		}
	}
	switch {
	case syncRet != nil && syncRet.OK:
		j.counts["restore completed with the verified state after the refetch"]++
	case syncRet != nil && good:
		j.add("restore-abandoned-although-good-peer-available",
			fmt.Sprintf("Sync ended with %q although the app never rejected the snapshot and an honest, non-rejected peer serving it stayed connected", syncRet.M), syncRet.N, syncRet)
	case cut != nil && len(j.undecided) == 0:
		already := false
		for _, f := range j.findings {
			if f.Key == "refetch-after-full-allocation-never-requested" {
				already = true
			}
		}
		if !already {
			j.undecided = append(j.undecided, "restore neither completed nor failed before the watchdog ("+cut.M+")")
		}
	}
}
