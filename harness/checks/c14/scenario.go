package c14

import (
	"crypto/sha256"
	"encoding/binary"
	"fmt"
	"math/rand"
)

// ---- scenario description (pure function of (VERIF_SEED, "scn", case index)) ----

// SnapSpec is one snapshot identity that liars may advertise.
type SnapSpec struct {
	Height uint64 `json:"height"`
	Format uint32 `json:"format"`
	Chunks uint32 `json:"chunks"`
	Kind   string `json:"kind"` // true | bogus-hash | bogus-height | wrong-format | filler
	Hash   string `json:"hash"` // hex
	Meta   string `json:"meta"` // hex
}

// PeerSpec is one liar.
type PeerSpec struct {
	Adverts [][]int  `json:"adverts"` // per discovery round: catalog indexes, in send order
	Default string   `json:"default"` // honest | garbage | silent | missing
	Script  []string `json:"script"`  // reply kinds for successive chunk requests: right wrong missing silent dup-rw dup-wr late
}

type ApplyOverride struct {
	Result      string `json:"result"`  // ACCEPT RETRY RETRY_SNAPSHOT REJECT_SNAPSHOT ABORT ("" = smart verdict)
	Refetch     []int  `json:"refetch"` // relative to the index of the call (0 = self)
	RejectSelf  bool   `json:"reject_self"`
	RejectPeers []int  `json:"reject_peers"`
	// RejectAdvertisers: RejectSenders = every peer that ever advertised the snapshot being restored
	RejectAdvertisers bool `json:"reject_advertisers,omitempty"`
}

type AppSpec struct {
	Version     uint64                `json:"version"`
	OfferScript map[int]string        `json:"offer_script"`            // offer call number -> verdict
	OfferBySnap map[int]string        `json:"offer_by_snap,omitempty"` // catalog index -> verdict whenever that snapshot is offered (OfferScript wins)
	AcceptAny   bool                  `json:"accept_any_offer"`
	ApplyScript map[int]ApplyOverride `json:"apply_script"` // apply call number -> override
	SmartReject bool                  `json:"smart_reject_sender"`
	BadLimit    int                   `json:"bad_limit"`
	InfoLie     string                `json:"info_lie"`       // "" | height | hash | version
	Info        *InfoSpec             `json:"info,omitempty"` // verify family: what Info reports after the restore
}

// InfoSpec scripts the three values of the restored app's Info answer (verify family).  Version is the
// light-verified app version of the chain is AppSpec.Version.
type InfoSpec struct {
	Version uint64 `json:"version"` // reported app version
	Hash    string `json:"hash"`    // equal | flip (one byte differs) | empty | longer (one byte appended)
	Height  string `json:"height"`  // equal | +1 | -1 | 0
}

// Action is something the liar scheduler does at a hold point (while the
// syncer is blocked inside an app / state-provider call) or right after an app
// call returned (racing with the syncer on purpose).
type Action struct {
	At      string `json:"at"`    // gate (after the first adverts, before the pool is consulted) | apphash | offer | apply | after-apply
	Call    int    `json:"call"`  // call number of that kind; -1 = every call of that kind except the first
	Kind    string `json:"kind"`  // await-fetched (wait until every chunk index has been requested once and every answer but the canary's is in) | race (Count peers deliver chunk cur+Rel at the same moment, each with its own bytes, by concurrent Reactor.ReceiveEnvelope calls; Rel = 99: one such batch per index) | push | push-async (hold does not wait for the delivery) | stop | readv | flush | reconnect (leave if still connected, come back under the same node key, advertise Snap)
	Peer    int    `json:"peer"`  // liar index; -1 = sender of the chunk of this call, -2 = sender most recently rejected by the app, -3 = some other honest connected peer
	Rel     int    `json:"rel"`   // push: index = current index + rel (mod chunks)
	Bytes   string `json:"bytes"` // push: right | wrong
	Snap    int    `json:"snap"`  // readv / reconnect: catalog index (-1 = everything the peer ever advertised, -2 = nothing)
	DelayMs int    `json:"delay_ms"`
	Count   int    `json:"count"`
}

type Scenario struct {
	Case       int               `json:"case"`
	Stream     string            `json:"stream"`
	Seed       int64             `json:"verif_seed"`
	SubSeed    int64             `json:"sub_seed"`
	Recipes    []string          `json:"recipes"`
	ChainLen   int64             `json:"chain_len"`
	ChainSeed  int64             `json:"chain_seed"`
	Discovery  string            `json:"discovery"` // gate0 | sleep5
	Fetchers   int32             `json:"fetchers"`
	ReqTimeout int               `json:"chunk_request_timeout_ms"`
	Catalog    []SnapSpec        `json:"catalog"`
	Peers      []PeerSpec        `json:"peers"`
	App        AppSpec           `json:"app"`
	Actions    []Action          `json:"actions"`
	SPFaults   map[string]string `json:"sp_faults"` // "AppHash#k" | "State#k" | "Commit#k" -> err | nowitness
	// race family: size of every genuine / forged chunk body (0 = a few dozen bytes), and whether the first
	// request for a chunk stays unanswered so that the re-sent request is answered by two peers at once
	ChunkBody int  `json:"chunk_body_bytes,omitempty"`
	RaceRereq bool `json:"race_on_rerequest,omitempty"`
	// refetch family: the scenario must end in a verified restore (liveness oracles apply); Canary: nobody
	// answers requests for the last chunk index until every refetched index has been requested again, so
	// that the fetcher waiting for it keeps re-requesting it every ChunkRequestTimeout: a logical clock
	Liveness bool `json:"liveness,omitempty"`
	Canary   bool `json:"canary,omitempty"`
	// formats family: nobody serves chunks of these catalog entries (the syncer's two-minute chunk timeout
	// then rejects the snapshot); LongTimeout stretches the child's watchdogs accordingly
	SilentFor   []int `json:"silent_for,omitempty"`
	LongTimeout bool  `json:"long_timeout,omitempty"`
}

// content is the true content of chunk i of the (only) genuine snapshot at
// (height, format) of a scenario.
func content(sub int64, size int, h uint64, f uint32, i uint32) []byte {
	var b [32]byte
	binary.LittleEndian.PutUint64(b[0:], uint64(sub))
	binary.LittleEndian.PutUint64(b[8:], h)
	binary.LittleEndian.PutUint32(b[16:], f)
	binary.LittleEndian.PutUint32(b[20:], i)
	copy(b[24:], "c14true")
	d := sha256.Sum256(b[:])
	n := 6 + int(d[31])%24
	out := append([]byte(fmt.Sprintf("T%d/%d/%d:", h, f, i)), d[:n]...)
	if size > len(out) {
		// large bodies (race family): filled up with a byte that no forged chunk uses
		body := make([]byte, size)
		copy(body, out)
		for k := len(out); k < size; k++ {
			body[k] = 0xA0 + byte(i%16)
		}
		return body
	}
	return out
}

func contentHash(sub int64, size int, h uint64, f uint32, n uint32) []byte {
	hh := sha256.New()
	for i := uint32(0); i < n; i++ {
		hh.Write(content(sub, size, h, f, i))
	}
	return hh.Sum(nil)
}

func has(ss []string, s string) bool {
	for _, x := range ss {
		if x == s {
			return true
		}
	}
	return false
}

var recipeNames = []string{"plain", "s18", "dup", "blacklist", "infolie", "retrysnap", "vanish", "spfault", "many", "noise", "fooled", "comeback", "orphan", "race", "refetch", "formats", "ghost"}

// genScenario draws scenario number idx.
func genScenario(r *rand.Rand, verifSeed, sub int64, stream string, idx int) *Scenario {
	s := &Scenario{Case: idx, Stream: stream, Seed: verifSeed, SubSeed: sub,
		ChainLen: 14, ChainSeed: 1 + int64(r.Intn(4)),
		Discovery: "gate0", Fetchers: int32(1 + r.Intn(4)), ReqTimeout: 300 + 100*r.Intn(5),
		SPFaults: map[string]string{}}
	s.App = AppSpec{Version: 3 + uint64(r.Intn(5)), OfferScript: map[int]string{}, ApplyScript: map[int]ApplyOverride{},
		SmartReject: r.Intn(2) == 0, BadLimit: 3 + r.Intn(3)}
	if r.Intn(8) == 0 {
		s.Discovery = "sleep5"
	}
	// recipes: the first few cases walk through the list so that every tier sees each one
	nrec := 1 + r.Intn(3)
	if p := recipeNames[idx%len(recipeNames)]; p == "orphan" || p == "refetch" || p == "formats" || p == "ghost" {
		nrec = 1 // a fixed cast of peers: kept free of other recipes when it is the primary one
	}
	if recipeNames[idx%len(recipeNames)] == "race" {
		s.ChunkBody = []int{256 << 10, 1 << 20, 1 << 20, 2 << 20, 4 << 20}[r.Intn(5)]
	}
	s.Recipes = append(s.Recipes, recipeNames[idx%len(recipeNames)])
	for len(s.Recipes) < nrec {
		x := recipeNames[r.Intn(len(recipeNames))]
		if !has(s.Recipes, x) {
			s.Recipes = append(s.Recipes, x)
		}
	}
	rc := func(n string) bool { return has(s.Recipes, n) }

	// genuine snapshots
	tip := uint64(s.ChainLen)
	s1 := 6 + uint64(r.Intn(int(tip)-2-6+1)) // 6 .. tip-2
	n1 := uint32(2 + r.Intn(5))
	if recipeNames[idx%len(recipeNames)] == "refetch" {
		n1 = uint32(1 + (idx/len(recipeNames))%8) // 1 .. 8 chunks
	}
	if recipeNames[idx%len(recipeNames)] == "ghost" {
		n1 = uint32(2 + r.Intn(3))
	}
	addTrue := func(h uint64, f uint32, n uint32) int {
		s.Catalog = append(s.Catalog, SnapSpec{Height: h, Format: f, Chunks: n, Kind: "true",
			Hash: hexs(contentHash(sub, s.ChunkBody, h, f, n)), Meta: hexs([]byte(fmt.Sprintf("m%d", r.Intn(100))))})
		return len(s.Catalog) - 1
	}
	main := addTrue(s1, 1, n1)
	second := -1
	if r.Intn(2) == 0 {
		second = addTrue(3+uint64(r.Intn(int(s1)-3)), uint32(1+r.Intn(2)), uint32(1+r.Intn(4)))
	}
	npeers := 1 + r.Intn(4)
	if rc("s18") || rc("dup") || rc("vanish") || rc("comeback") || rc("race") {
		if npeers < 2 {
			npeers = 2
		}
	}
	if rc("race") && npeers < 3 {
		npeers = 3 + r.Intn(2)
	}
	for p := 0; p < npeers; p++ {
		ps := PeerSpec{Default: "honest"}
		adv := []int{main}
		if second >= 0 && r.Intn(2) == 0 {
			adv = append(adv, second)
		}
		ps.Adverts = [][]int{adv}
		s.Peers = append(s.Peers, ps)
	}
	// a peer that never advertises anything but pushes chunks
	if r.Intn(4) == 0 && len(s.Peers) < 4 {
		s.Peers = append(s.Peers, PeerSpec{Default: "garbage", Adverts: [][]int{{}}})
	}
	np := len(s.Peers)
	randPeer := func() int { return r.Intn(np) }
	replyKinds := []string{"right", "wrong", "missing", "silent", "dup-rw", "dup-wr", "late"}

	if rc("plain") {
		// nothing hostile besides arrival-order permutation
	}
	if rc("noise") || rc("dup") {
		for p := range s.Peers {
			if p == 0 && !rc("noise") {
				continue
			}
			k := r.Intn(5)
			for i := 0; i < k; i++ {
				s.Peers[p].Script = append(s.Peers[p].Script, replyKinds[r.Intn(len(replyKinds))])
			}
		}
		if np > 1 && r.Intn(2) == 0 {
			s.Peers[np-1].Default = []string{"garbage", "silent", "missing"}[r.Intn(3)]
		}
	}
	if rc("dup") {
		// unsolicited duplicates (other bytes, other sender) for chunks that are present, then a RETRY
		for k := 0; k < 2+r.Intn(3); k++ {
			call := r.Intn(int(n1) + 1)
			s.Actions = append(s.Actions, Action{At: "apply", Call: call, Kind: "push", Peer: randPeer(), Rel: r.Intn(2), Bytes: []string{"right", "wrong"}[r.Intn(2)], Count: 1})
			if r.Intn(2) == 0 {
				s.App.ApplyScript[call] = ApplyOverride{Result: "RETRY"}
			}
		}
	}
	if rc("s18") {
		// the app rejects the sender of some chunk and asks for a refetch; that sender pushes again
		call := r.Intn(int(n1))
		ov := ApplyOverride{Result: []string{"RETRY", "ACCEPT"}[r.Intn(2)], Refetch: []int{0}, RejectSelf: true}
		if r.Intn(3) == 0 {
			ov.Refetch = []int{0, 1}
		}
		s.App.ApplyScript[call] = ov
		// -1 = "the sender of that call"
		s.Actions = append(s.Actions, Action{At: "after-apply", Call: call, Kind: "push", Peer: -1, Rel: 0,
			Bytes: []string{"right", "wrong"}[r.Intn(2)], DelayMs: []int{0, 1, 5, 30, 80}[r.Intn(5)], Count: 1 + r.Intn(3)})
		if r.Intn(2) == 0 {
			s.Actions = append(s.Actions, Action{At: "after-apply", Call: call, Kind: "push", Peer: -1, Rel: 1, Bytes: "wrong", DelayMs: 10, Count: 1})
		}
		if r.Intn(2) == 0 {
			// a chunk of the same sender is in flight while the rejecting response is handled
			s.Actions = append(s.Actions, Action{At: "apply", Call: call, Kind: "push-async", Peer: -1, Rel: r.Intn(2), Bytes: "right", Count: 1})
		}
	}
	if rc("blacklist") {
		variant := r.Intn(5)
		if s.Recipes[0] == "blacklist" {
			variant = (idx / len(recipeNames)) % 5
		}
		switch variant {
		case 0: // bogus hash at the best height, re-advertised after rejection
			s.Catalog = append(s.Catalog, SnapSpec{Height: s1, Format: 2, Chunks: n1, Kind: "bogus-hash", Hash: hexs(randBytes(r, 32)), Meta: "01"})
		case 1: // wrong format, two of them
			s.Catalog = append(s.Catalog, SnapSpec{Height: s1, Format: 9, Chunks: 2, Kind: "wrong-format", Hash: hexs(randBytes(r, 32))})
			s.Catalog = append(s.Catalog, SnapSpec{Height: s1 - 1, Format: 9, Chunks: 3, Kind: "wrong-format", Hash: hexs(randBytes(r, 32))})
		case 2: // unverifiable height
			s.Catalog = append(s.Catalog, SnapSpec{Height: tip + uint64(r.Intn(5)), Format: 1, Chunks: 2, Kind: "bogus-height", Hash: hexs(randBytes(r, 32))})
			s.Catalog = append(s.Catalog, SnapSpec{Height: tip - 1, Format: 1, Chunks: 2, Kind: "bogus-height", Hash: hexs(randBytes(r, 32))})
		case 3: // the app rejects the genuine snapshot (or its senders) at the first offer
			s.App.OfferScript[0] = []string{"REJECT", "REJECT_SENDER", "REJECT_FORMAT"}[r.Intn(3)]
		case 4: // all senders of the best snapshot are rejected; one of them advertises again while a lesser snapshot is tried
			if second < 0 {
				second = addTrue(3+uint64(r.Intn(int(s1)-3)), 1, uint32(1+r.Intn(3)))
			}
			if len(s.Peers) > 3 {
				s.Peers = s.Peers[:3]
			}
			for p := range s.Peers {
				s.Peers[p].Adverts = [][]int{{main}}
			}
			s.Peers = append(s.Peers, PeerSpec{Default: "honest", Adverts: [][]int{{second}}})
			np = len(s.Peers)
			s.App.OfferScript[0] = "REJECT_SENDER"
			s.App.OfferScript[1] = "REJECT"
			s.Actions = append(s.Actions, Action{At: "apphash", Call: 1, Kind: "readv", Peer: 0, Snap: -1})
		}
		extra := []int{}
		for i := range s.Catalog {
			if s.Catalog[i].Kind != "true" {
				extra = append(extra, i)
			}
		}
		who := randPeer()
		s.Peers[who].Adverts[0] = append(s.Peers[who].Adverts[0], extra...)
		if r.Intn(2) == 0 {
			w2 := randPeer()
			if w2 != who {
				s.Peers[w2].Adverts[0] = append(s.Peers[w2].Adverts[0], extra...)
			}
		}
		// re-advertise everything again and again while later snapshots are being restored
		for k := 0; k < 3; k++ {
			s.Actions = append(s.Actions, Action{At: []string{"apphash", "offer", "apply"}[r.Intn(3)], Call: 1 + r.Intn(3), Kind: "readv", Peer: who, Snap: -1})
		}
		s.Actions = append(s.Actions, Action{At: "apphash", Call: 1, Kind: "readv", Peer: who, Snap: -1})
		if r.Intn(2) == 0 {
			s.App.AcceptAny = true // the app accepts bogus snapshots and finds out at the chunks
		}
	}
	if rc("infolie") {
		s.App.InfoLie = []string{"height", "hash", "version"}[r.Intn(3)]
	}
	if rc("fooled") {
		// the app accepts a wrong chunk without noticing; its Info then reports another hash
		s.Peers[0].Script = append([]string{"wrong"}, s.Peers[0].Script...)
		for k := 0; k < int(n1); k++ {
			s.App.ApplyScript[k] = ApplyOverride{Result: "ACCEPT"}
		}
	}
	if rc("retrysnap") {
		call := 1 + r.Intn(int(n1))
		ov := ApplyOverride{Result: "RETRY_SNAPSHOT"}
		if r.Intn(2) == 0 {
			ov.Refetch = []int{-r.Intn(2)}
		}
		if r.Intn(3) == 0 {
			ov.RejectSelf = true
		}
		s.App.ApplyScript[call] = ov
		if r.Intn(2) == 0 {
			s.Actions = append(s.Actions, Action{At: "after-apply", Call: call, Kind: "push", Peer: randPeer(), Rel: 0, Bytes: "wrong", DelayMs: r.Intn(3), Count: 2})
		}
		if r.Intn(3) == 0 {
			s.App.ApplyScript[call+int(n1)+1] = ApplyOverride{Result: []string{"REJECT_SNAPSHOT", "ABORT", "RETRY_SNAPSHOT"}[r.Intn(3)]}
		}
	}
	if rc("vanish") {
		s.Actions = append(s.Actions, Action{At: []string{"offer", "apply", "apply"}[r.Intn(3)], Call: r.Intn(int(n1)), Kind: "stop", Peer: randPeer()})
		if r.Intn(2) == 0 {
			s.Actions = append(s.Actions, Action{At: "apply", Call: r.Intn(int(n1) + 2), Kind: "stop", Peer: randPeer()})
		}
		if r.Intn(2) == 0 {
			// ... and comes back under the same node key
			last := s.Actions[len(s.Actions)-1]
			s.Actions = append(s.Actions, Action{At: "apply", Call: last.Call + 1 + r.Intn(2), Kind: "reconnect", Peer: last.Peer, Snap: -1 - r.Intn(2)})
		}
	}
	if rc("comeback") {
		// a sender the app rejected leaves and comes back under the same ID
		variant := r.Intn(4)
		if s.Recipes[0] == "comeback" {
			variant = (idx / len(recipeNames)) % 4
		}
		third := -1
		if variant == 1 || variant == 3 {
			third = addTrue(s1, 2, uint32(1+r.Intn(3))) // same height, higher format: the best snapshot once it is pooled
		}
		switch variant {
		case 0, 1: // rejected mid-restore through RejectSenders
			k := r.Intn(int(n1))
			s.App.ApplyScript[k] = ApplyOverride{Result: "RETRY", Refetch: []int{0}, RejectSelf: true}
			s.Actions = append(s.Actions, Action{At: "after-apply", Call: k, Kind: "push", Peer: -3, Rel: 0, Bytes: "right", DelayMs: 20, Count: 1})
			adv := -1
			if variant == 1 {
				adv = third
			}
			s.Actions = append(s.Actions, Action{At: "apply", Call: k + 1, Kind: "reconnect", Peer: -2, Snap: adv})
			if variant == 0 {
				// the returning peer pushes the chunk that is being refetched
				s.App.ApplyScript[k+1] = ApplyOverride{Result: "RETRY", Refetch: []int{0}}
				s.Actions = append(s.Actions,
					Action{At: "after-apply", Call: k + 1, Kind: "push", Peer: -2, Rel: 0, Bytes: []string{"right", "wrong"}[r.Intn(2)], DelayMs: 10, Count: 1},
					Action{At: "after-apply", Call: k + 1, Kind: "push", Peer: -2, Rel: 0, Bytes: "right", DelayMs: 70, Count: 1})
				if r.Intn(2) == 0 {
					s.App.ApplyScript[k+3] = ApplyOverride{Result: "RETRY", Refetch: []int{0}} // a refetch that may be requested from the returned peer
				}
			} else {
				// the snapshot in progress is rejected afterwards; only the returned peer has the other one
				s.App.ApplyScript[k+2] = ApplyOverride{Result: "REJECT_SNAPSHOT"}
			}
		case 2, 3: // rejected through REJECT_SENDER at the offer
			if second < 0 {
				second = addTrue(3+uint64(r.Intn(int(s1)-3)), 1, uint32(1+r.Intn(3)))
			}
			if len(s.Peers) > 3 {
				s.Peers = s.Peers[:3]
			}
			for p := range s.Peers {
				s.Peers[p].Adverts = [][]int{{main}}
				s.Peers[p].Default = "honest"
			}
			s.Peers = append(s.Peers, PeerSpec{Default: "honest", Adverts: [][]int{{second}}})
			np = len(s.Peers)
			s.App.OfferScript[0] = "REJECT_SENDER"
			s.App.OfferScript[1] = "REJECT"
			adv := -1
			if variant == 3 {
				adv = third
			}
			s.Actions = append(s.Actions, Action{At: "apphash", Call: 1, Kind: "reconnect", Peer: 0, Snap: adv})
		}
	}
	if rc("orphan") {
		// a snapshot / format / sender is rejected by the app at a moment when the pool no longer holds
		// the snapshot (its last advertiser has just been rejected or has left); afterwards the same
		// snapshot is advertised again while a lesser snapshot is tried and refused
		variant := r.Intn(5)
		if s.Recipes[0] == "orphan" {
			variant = (idx / len(recipeNames)) % 5
		}
		secondFormat := uint32(2) // never the format of the main snapshot, so that a rejected format does not end the sync
		secondSnap := addTrue(3+uint64(r.Intn(int(s1)-3)), secondFormat, uint32(1+r.Intn(3)))
		nadv := 1
		if variant == 0 || variant == 4 {
			nadv = 1 + r.Intn(2)
		}
		s.Peers = nil
		for p := 0; p < nadv; p++ {
			s.Peers = append(s.Peers, PeerSpec{Default: "honest", Adverts: [][]int{{main}}})
		}
		fresh := len(s.Peers)
		s.Peers = append(s.Peers, PeerSpec{Default: "honest", Adverts: [][]int{{}}})           // has advertised nothing so far
		s.Peers = append(s.Peers, PeerSpec{Default: "honest", Adverts: [][]int{{secondSnap}}}) // only has the lesser snapshot
		np = len(s.Peers)
		if s.App.OfferBySnap == nil {
			s.App.OfferBySnap = map[int]string{}
		}
		s.App.OfferBySnap[secondSnap] = "REJECT"
		switch variant {
		case 0, 4: // ApplySnapshotChunk: RejectSenders = all advertisers and REJECT_SNAPSHOT in one response
			k := r.Intn(int(n1))
			s.App.ApplyScript[k] = ApplyOverride{Result: "REJECT_SNAPSHOT", RejectAdvertisers: true}
			s.Actions = append(s.Actions, Action{At: "apphash", Call: -1, Kind: "readv", Peer: fresh, Snap: main})
			if variant == 4 {
				// ... and one of the rejected senders comes back and advertises it as well
				s.Actions = append(s.Actions, Action{At: "apphash", Call: -1, Kind: "reconnect", Peer: 0, Snap: main})
			}
		case 1, 2, 3: // the only advertiser leaves while OfferSnapshot is in flight; the app refuses
			s.App.OfferScript[0] = []string{"", "REJECT", "REJECT_FORMAT", "REJECT_SENDER"}[variant]
			s.Actions = append(s.Actions, Action{At: "offer", Call: 0, Kind: "stop", Peer: 0})
			s.Actions = append(s.Actions, Action{At: "apphash", Call: -1, Kind: "reconnect", Peer: 0, Snap: main})
			if variant == 2 {
				// another snapshot of the rejected format, from a peer that was never involved
				other := addTrue(s1-1, 1, uint32(1+r.Intn(2)))
				s.Actions = append(s.Actions, Action{At: "apphash", Call: -1, Kind: "readv", Peer: fresh, Snap: other})
			} else if r.Intn(2) == 0 {
				s.Actions = append(s.Actions, Action{At: "apphash", Call: -1, Kind: "readv", Peer: fresh, Snap: main})
			}
		}
	}
	if rc("race") {
		// the same chunk index is delivered by several peers at the same moment (one goroutine per
		// peer, released together), each with its own bytes: one honest, the others forged
		s.App.SmartReject = r.Intn(2) == 0 // else forged chunks are only refetched, and the races go on
		s.App.BadLimit = 30
		variant := r.Intn(3)
		if s.Recipes[0] == "race" {
			variant = (idx / len(recipeNames)) % 3
		}
		k := 2 + r.Intn(2)
		switch variant {
		case 0: // unsolicited, before anything was fetched: one batch per index while the offer is held
			s.Actions = append(s.Actions, Action{At: "offer", Call: 0, Kind: "race", Rel: 99, Count: k})
		case 1: // the first request for a chunk stays unanswered; the re-sent request is answered by two peers at once
			s.RaceRereq = true
			if s.ReqTimeout > 400 {
				s.ReqTimeout = 400
			}
		case 2: // half of the indexes as in 0; every later refetch goes through the re-request race
			s.Actions = append(s.Actions, Action{At: "offer", Call: 0, Kind: "race", Rel: 98, Count: k})
			s.RaceRereq = true
			if s.ReqTimeout > 400 {
				s.ReqTimeout = 400
			}
		}
		// an applied chunk is retried while other peers deliver other bytes for it at the same moment
		for t := 0; t < 1+r.Intn(2); t++ {
			call := r.Intn(int(n1) + 2)
			if _, ok := s.App.ApplyScript[call]; !ok {
				s.App.ApplyScript[call] = ApplyOverride{Result: "RETRY"}
				s.Actions = append(s.Actions, Action{At: "apply", Call: call, Kind: "race", Rel: 0, Count: k})
			}
		}
		// ... and a chunk that is present but not yet applied
		s.Actions = append(s.Actions, Action{At: "apply", Call: r.Intn(int(n1)), Kind: "race", Rel: 1, Count: k})
	}
	if rc("refetch") && s.Recipes[0] == "refetch" {
		// the app asks for a refetch (and / or rejects a sender) with ACCEPT or RETRY at a moment when every
		// chunk index has been allocated and requested once; honest peers stay connected: the refetched
		// chunks must be requested again, delivered, applied, and the restore must complete
		s.Liveness = true
		s.Discovery = "gate0"
		s.ReqTimeout = 250
		s.App.SmartReject = false
		s.App.BadLimit = 30
		s.Peers = nil
		for p := 0; p < 2+r.Intn(2); p++ {
			s.Peers = append(s.Peers, PeerSpec{Default: "honest", Adverts: [][]int{{main}}})
		}
		np = len(s.Peers)
		s.Catalog = s.Catalog[:1] // only the one snapshot: nothing else to fall back to
		n := int(n1)
		s.Canary = s.Fetchers >= 2 && n >= 2 && r.Intn(3) != 0
		var k int // the call that carries the verdict
		switch {
		case s.Canary:
			k = []int{n - 2, n - 2, 0, r.Intn(n - 1)}[r.Intn(4)] // second-to-last, first, any applied one
		default:
			k = []int{n - 1, n - 1, n - 2, 0, r.Intn(n)}[r.Intn(5)] // last, second-to-last, first, any
			if k < 0 {
				k = 0
			}
		}
		ov := ApplyOverride{Result: []string{"ACCEPT", "RETRY"}[r.Intn(2)]}
		switch r.Intn(5) {
		case 0:
			ov.Refetch = []int{0}
		case 1:
			ov.Refetch = []int{-1}
		case 2:
			ov.Refetch = []int{0, -1}
		case 3:
			ov.Refetch = []int{-r.Intn(n)}
			ov.RejectSelf = true
		case 4:
			ov.RejectSelf = true // unapplied chunks of that sender are discarded and must be fetched again
		}
		if k == 0 {
			for i := range ov.Refetch {
				if ov.Refetch[i] < 0 {
					ov.Refetch[i] = 0
				}
			}
		}
		s.App.ApplyScript[k] = ov
		s.Actions = append(s.Actions, Action{At: "apply", Call: k, Kind: "await-fetched"})
	}
	if rc("formats") && s.Recipes[0] == "formats" {
		// the pool holds three snapshots of format 1 at different heights and a lower-ranked one of format 2;
		// one of the format-1 snapshots leaves the pool in an ordinary way, LATER the app answers
		// REJECT_FORMAT for another one: no format-1 snapshot may be offered from then on
		variant := (idx / len(recipeNames)) % 6
		if variant == 5 && idx < 128 {
			variant = 3 // the two-minute chunk timeout only in the thorough tier
		}
		s.Discovery = "gate0"
		s.Catalog = nil
		hA := 9 + uint64(r.Intn(4))
		hB := hA - 1 - uint64(r.Intn(2))
		hC := hB - 1 - uint64(r.Intn(2))
		hD := hC - 1 - uint64(r.Intn(2))
		A := addTrue(hA, 1, uint32(1+r.Intn(2)))
		B := addTrue(hB, 1, uint32(1+r.Intn(2)))
		C := addTrue(hC, 1, uint32(1+r.Intn(2)))
		D := addTrue(hD, 2, uint32(1+r.Intn(3)))
		s.Peers = []PeerSpec{
			{Default: "honest", Adverts: [][]int{{A}}},
			{Default: "honest", Adverts: [][]int{{B, C}}},
			{Default: "honest", Adverts: [][]int{{D}}},
		}
		s.App.OfferBySnap = map[int]string{B: "REJECT_FORMAT"}
		switch variant {
		case 0: // the app refuses A
			s.App.OfferBySnap[A] = "REJECT"
			if r.Intn(2) == 0 {
				s.Peers[1].Adverts[0] = []int{A, B, C}
			}
		case 1: // A's only peer disconnects before the pool is consulted
			s.Actions = append(s.Actions, Action{At: "gate", Call: 0, Kind: "stop", Peer: 0})
			s.Actions = append(s.Actions, Action{At: "apphash", Call: -1, Kind: "reconnect", Peer: 0, Snap: -1})
		case 2: // C's only peer disconnects; the format is then rejected at the very first offer (A)
			s.Peers[1].Adverts[0] = []int{B}
			s.Peers = append(s.Peers, PeerSpec{Default: "honest", Adverts: [][]int{{C}}})
			s.App.OfferBySnap = map[int]string{A: "REJECT_FORMAT"}
			s.Actions = append(s.Actions, Action{At: "gate", Call: 0, Kind: "stop", Peer: 3})
			s.Actions = append(s.Actions, Action{At: "apphash", Call: -1, Kind: "reconnect", Peer: 3, Snap: -1})
		case 3: // A is rejected because the state provider cannot produce its state (same pool.Reject as a chunk timeout)
			s.SPFaults[[]string{"State#0", "Commit#0"}[r.Intn(2)]] = "err"
		case 4: // A's last (only) peer is rejected as sender
			s.App.OfferBySnap[A] = "REJECT_SENDER"
		case 5: // A's chunks never come: the syncer's chunk timeout rejects it
			s.SilentFor = []int{A}
			s.LongTimeout = true
		}
		np = len(s.Peers)
		// everything of format 1 is advertised again and again afterwards
		s.Actions = append(s.Actions, Action{At: "apphash", Call: -1, Kind: "readv", Peer: 1, Snap: -1})
		if r.Intn(2) == 0 {
			s.Actions = append(s.Actions, Action{At: "offer", Call: -1, Kind: "readv", Peer: 1, Snap: -1})
		}
	}
	if rc("ghost") && s.Recipes[0] == "ghost" {
		// peer 0 advertises the snapshot and delivers a chunk that waits in the queue, then disconnects;
		// afterwards the app names it in reject_senders; it reconnects under the same ID, advertises a new
		// snapshot and is willing to serve it: nothing of it may reach the app any more
		variant := (idx / len(recipeNames)) % 3
		s.Discovery = "gate0"
		s.Catalog = s.Catalog[:1]
		lesser := addTrue(3+uint64(r.Intn(int(s1)-3)), 1, uint32(1+r.Intn(2)))
		fresh := addTrue(s1, 2, uint32(1+r.Intn(3))) // only the returning peer will have it
		s.Peers = []PeerSpec{
			{Default: "honest", Adverts: [][]int{{main}}},
			{Default: "honest", Adverts: [][]int{{main, lesser}}},
		}
		if r.Intn(2) == 0 {
			s.Peers = append(s.Peers, PeerSpec{Default: "honest", Adverts: [][]int{{main}}})
		}
		np = len(s.Peers)
		s.App.SmartReject = false
		s.App.OfferBySnap = map[int]string{lesser: "REJECT"}
		s.Actions = append(s.Actions,
			Action{At: "offer", Call: 0, Kind: "push", Peer: 0, Rel: 1, Bytes: []string{"right", "wrong"}[r.Intn(2)], Count: 1},
			Action{At: "offer", Call: 0, Kind: "stop", Peer: 0})
		verdict := []string{"REJECT_SNAPSHOT", "ACCEPT", "RETRY"}[variant]
		s.App.ApplyScript[0] = ApplyOverride{Result: verdict, RejectPeers: []int{0}}
		if verdict == "REJECT_SNAPSHOT" {
			s.Actions = append(s.Actions, Action{At: "apphash", Call: -1, Kind: "reconnect", Peer: 0, Snap: fresh})
		} else {
			s.Actions = append(s.Actions, Action{At: "apply", Call: 1, Kind: "reconnect", Peer: 0, Snap: fresh})
			s.App.ApplyScript[2] = ApplyOverride{Result: "REJECT_SNAPSHOT"}
			s.Actions = append(s.Actions, Action{At: "apphash", Call: -1, Kind: "readv", Peer: 0, Snap: fresh})
		}
	}
	if rc("spfault") {
		m := []string{"AppHash", "State", "Commit"}[r.Intn(3)]
		kind := "err"
		if r.Intn(4) == 0 {
			kind = "nowitness"
		}
		s.SPFaults[fmt.Sprintf("%s#%d", m, r.Intn(2))] = kind
		// the same snapshot is advertised again afterwards
		s.Actions = append(s.Actions, Action{At: "apphash", Call: 1, Kind: "readv", Peer: 0, Snap: -1})
	}
	if rc("many") {
		// one peer advertises more than ten snapshots
		who := randPeer()
		var fill []int
		for k := 0; k < 11+r.Intn(3); k++ {
			h := 1 + uint64(r.Intn(4))
			s.Catalog = append(s.Catalog, SnapSpec{Height: h, Format: uint32(20 + k), Chunks: 1, Kind: "filler", Hash: hexs(randBytes(r, 8))})
			fill = append(fill, len(s.Catalog)-1)
		}
		if r.Intn(2) == 0 {
			s.Peers[who].Adverts[0] = append(fill, s.Peers[who].Adverts[0]...)
		} else {
			s.Peers[who].Adverts[0] = append(s.Peers[who].Adverts[0], fill...)
		}
	}
	if rc("noise") {
		// random verdict overrides and unsolicited pushes
		for k := 0; k < 1+r.Intn(4); k++ {
			call := r.Intn(int(n1) + 3)
			if _, ok := s.App.ApplyScript[call]; ok {
				continue
			}
			ov := ApplyOverride{Result: []string{"", "", "RETRY", "ACCEPT", "RETRY", "RETRY_SNAPSHOT", "REJECT_SNAPSHOT", "ABORT"}[r.Intn(8)]}
			if r.Intn(2) == 0 {
				ov.Refetch = append(ov.Refetch, r.Intn(4)-2)
			}
			if r.Intn(3) == 0 {
				ov.RejectSelf = true
			}
			if r.Intn(4) == 0 {
				ov.RejectPeers = append(ov.RejectPeers, randPeer())
			}
			s.App.ApplyScript[call] = ov
		}
		for k := 0; k < r.Intn(5); k++ {
			s.Actions = append(s.Actions, Action{At: []string{"apphash", "offer", "apply", "after-apply"}[r.Intn(4)], Call: r.Intn(int(n1) + 2),
				Kind: "push", Peer: randPeer(), Rel: r.Intn(3), Bytes: []string{"right", "wrong"}[r.Intn(2)], DelayMs: r.Intn(20), Count: 1 + r.Intn(2)})
		}
		if r.Intn(3) == 0 {
			s.Actions = append(s.Actions, Action{At: "apply", Call: r.Intn(int(n1)), Kind: "flush"})
		}
	}
	// second discovery round (only reached with sleep5): everything again plus one more genuine snapshot
	if s.Discovery == "sleep5" {
		extra := addTrue(2+uint64(r.Intn(3)), 1, 1)
		for p := range s.Peers {
			first := s.Peers[p].Adverts[0]
			s.Peers[p].Adverts = append(s.Peers[p].Adverts, append(append([]int{}, first...), extra))
		}
	}
	return s
}

func randBytes(r *rand.Rand, n int) []byte {
	b := make([]byte, n)
	r.Read(b)
	return b
}

// ---- verify family: a fixed enumeration (stream "verify"), one cheap one-chunk restore per combination
// of light-verified app version V x app version reported by Info x app hash x last block height.

var verifyVs = []uint64{0, 1, 9, 1<<40 + 7}
var verifyHash = []string{"equal", "flip", "empty", "longer"}
var verifyHeight = []string{"equal", "+1", "-1", "0"}

func verifyReported(v uint64) []uint64 { return []uint64{0, 1, 9, v, v + 1, v - 1} }

type verifyCombo struct {
	v, rep       uint64
	hash, height string
}

// verifyCombos: all 4 x 6 x 4 x 4 combinations; the single-mismatch ones (and the all-equal ones) first,
// so that a short prefix already holds every version pair, every hash mode and every height mode per V.
func verifyCombos() []verifyCombo {
	var first, rest []verifyCombo
	for _, v := range verifyVs {
		for _, rep := range verifyReported(v) {
			for _, hm := range verifyHash {
				for _, gm := range verifyHeight {
					c := verifyCombo{v, rep, hm, gm}
					mism := 0
					if rep != v {
						mism++
					}
					if hm != "equal" {
						mism++
					}
					if gm != "equal" {
						mism++
					}
					if mism <= 1 {
						first = append(first, c)
					} else {
						rest = append(rest, c)
					}
				}
			}
		}
	}
	// spread the multi-mismatch ones deterministically
	r := rand.New(rand.NewSource(14))
	r.Shuffle(len(rest), func(i, j int) { rest[i], rest[j] = rest[j], rest[i] })
	return append(first, rest...)
}

func genVerifyScenario(verifSeed, sub int64, idx int) *Scenario {
	all := verifyCombos()
	cb := all[idx%len(all)]
	r := rand.New(rand.NewSource(sub))
	s := &Scenario{Case: idx, Stream: "verify", Seed: verifSeed, SubSeed: sub, Recipes: []string{"verify"},
		ChainLen: 14, ChainSeed: 1 + int64(idx%4), Discovery: "gate0", Fetchers: int32(1 + r.Intn(4)), ReqTimeout: 400,
		SPFaults: map[string]string{}}
	s.App = AppSpec{Version: cb.v, OfferScript: map[int]string{}, ApplyScript: map[int]ApplyOverride{}, BadLimit: 5,
		Info: &InfoSpec{Version: cb.rep, Hash: cb.hash, Height: cb.height}}
	h := 6 + uint64(r.Intn(int(s.ChainLen)-2-6+1))
	s.Catalog = []SnapSpec{{Height: h, Format: 1, Chunks: 1, Kind: "true", Hash: hexs(contentHash(sub, 0, h, 1, 1)), Meta: "76"}}
	for p := 0; p < 1+r.Intn(2); p++ {
		s.Peers = append(s.Peers, PeerSpec{Default: "honest", Adverts: [][]int{{0}}})
	}
	return s
}
