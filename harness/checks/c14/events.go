package c14

import (
	"bufio"
	"crypto/sha256"
	"encoding/hex"
	"encoding/json"
	"os"
	"strconv"
	"sync"
)

func hexs(b []byte) string { return hex.EncodeToString(b) }

// encB writes chunk bytes into the log: hex if short, else hex of the first 16 bytes, "~", SHA-256, "~", length.
func encB(b []byte) string {
	if len(b) <= 128 {
		return hex.EncodeToString(b)
	}
	d := sha256.Sum256(b)
	return hex.EncodeToString(b[:16]) + "~" + hex.EncodeToString(d[:]) + "~" + strconv.Itoa(len(b))
}

// unhex decodes as far as the string is hex (for encB values: the first bytes of the chunk).
func unhex(s string) []byte {
	b, _ := hex.DecodeString(s)
	return b
}

// Ev is one line of the global event log of a scenario.  All events of one
// child process go through one mutex, so N is a total order that is consistent
// with real time: an event logged before a call started precedes everything the
// call caused.
type Ev struct {
	N int    `json:"n"`
	K string `json:"k"`
	// K:
	//  sync-call sync-ret
	//  adv-start adv-done adv-ack            advert (SnapshotsResponse) sent by liar P
	//  chunk-start chunk-done chunk-ack      ChunkResponse sent by liar P (ack = barrier: everything P sent before on that channel has been processed by Receive)
	//  req-snap req-chunk                    request received by liar P
	//  sp-call sp-ret                        state provider
	//  offer-call offer-ret apply-call apply-ret info-call info-ret
	//  peer-stop peer-reconnect cut bootstrap note
	//  batch-start batch-end                 a set of chunk deliveries of one index released at the same moment (X = arrival ids)
	//  added                                 the node logged "Added chunk to queue" (AddChunk returned true) for index I
	P       int      `json:"p"`           // liar index, -1 if none
	C       int      `json:"c"`           // call number of its kind (app / provider), -1 if none
	A       int      `json:"a,omitempty"` // arrival / advert id (1-based)
	G       int      `json:"g,omitempty"` // connection generation of liar P (1 = first connection, 2 = after the first reconnect ...)
	H       uint64   `json:"h,omitempty"`
	F       uint32   `json:"f,omitempty"`
	I       uint32   `json:"i,omitempty"`
	NCh     uint32   `json:"nch,omitempty"`
	B       string   `json:"b,omitempty"`    // chunk bytes / app hash (hex)
	Hash    string   `json:"hash,omitempty"` // snapshot hash (hex)
	Meta    string   `json:"meta,omitempty"`
	Miss    bool     `json:"miss,omitempty"`
	Sol     bool     `json:"sol,omitempty"` // solicited
	OK      bool     `json:"ok,omitempty"`
	M       string   `json:"m,omitempty"` // method / verdict / error
	Refetch []uint32 `json:"refetch,omitempty"`
	Reject  []string `json:"reject,omitempty"`
	Sender  string   `json:"sender,omitempty"`
	Ver     uint64   `json:"ver,omitempty"`
	X       string   `json:"x,omitempty"`
	X2      string   `json:"x2,omitempty"`
}

type evLog struct {
	mu  sync.Mutex
	n   int
	f   *os.File
	w   *bufio.Writer
	all []Ev
	// activity marks for the stall watchdog
	lastProgress int
}

func newEvLog(path string) *evLog {
	l := &evLog{}
	if path != "" {
		f, err := os.Create(path)
		if err == nil {
			l.f = f
			l.w = bufio.NewWriter(f)
		}
	}
	return l
}

// add appends an event and returns its sequence number.
func (l *evLog) add(e Ev) int {
	l.mu.Lock()
	defer l.mu.Unlock()
	l.n++
	e.N = l.n
	l.all = append(l.all, e)
	if l.w != nil {
		b, _ := json.Marshal(e)
		l.w.Write(b)
		l.w.WriteByte('\n')
		l.w.Flush() // the log must survive a crash of the code under test
	}
	switch e.K {
	case "offer-call", "apply-call", "info-call", "sp-call", "sync-ret":
		l.lastProgress = l.n
	}
	return e.N
}

func (l *evLog) progressMark() int {
	l.mu.Lock()
	defer l.mu.Unlock()
	return l.lastProgress
}

func (l *evLog) close() {
	l.mu.Lock()
	defer l.mu.Unlock()
	if l.w != nil {
		l.w.Flush()
		l.f.Close()
		l.w = nil
	}
}

// Header is the first line of a child's output file.
type Header struct {
	Scenario *Scenario        `json:"scenario"`
	PeerIDs  []string         `json:"peer_ids"`
	Truth    map[uint64]Truth `json:"truth"`
	Tip      uint64           `json:"tip"`
}

// Truth is what chaingen says about a snapshot height S.
type Truth struct {
	State     string `json:"state"`  // proto of the canonical state after S (LastHeight*Changed as the provider sets them)
	Commit    string `json:"commit"` // proto of the commit for S
	AppHash   string `json:"app_hash"`
	AppVer    uint64 `json:"app_version"`
	Vals      string `json:"vals_hash"` // validators of S
	ValsNext  string `json:"vals1_hash"`
	ValsNext2 string `json:"vals2_hash"`
	Params    string `json:"params_hash"`
}
