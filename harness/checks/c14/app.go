package c14

import (
	"bytes"
	"context"
	"crypto/sha256"
	"errors"
	"fmt"
	"sync"

	abci "github.com/tendermint/tendermint/abci/types"
	"github.com/tendermint/tendermint/light"
	sm "github.com/tendermint/tendermint/state"
	"github.com/tendermint/tendermint/types"

	"verif/recapp"
)

// holdCtx is what a hold point knows about the restore in progress.
type holdCtx struct {
	h      uint64
	f      uint32
	n      uint32
	cur    uint32
	sender int // liar index of the sender of the chunk of this call, -1 unknown
}

// app is the application under the node being restored: a recapp.App whose
// Info and snapshot methods are overridden by a scripted restore model that
// records every call with its arguments.
type app struct {
	*recapp.App
	w *world

	mu       sync.Mutex
	offerNo  int
	applyNo  int
	infoNo   int
	cur      *abci.Snapshot
	accepted map[uint32][]byte
	bad      int

	hashCache map[string][]byte
}

func newApp(w *world) *app {
	return &app{App: recapp.New(recapp.Options{AppVersion: w.scn.App.Version}), w: w}
}

func (a *app) genuine(s *abci.Snapshot) bool {
	if s == nil || (s.Format != 1 && s.Format != 2) {
		return false
	}
	k := fmt.Sprintf("%d/%d/%d", s.Height, s.Format, s.Chunks)
	a.mu.Lock()
	want, ok := a.hashCache[k]
	a.mu.Unlock()
	if !ok {
		want = contentHash(a.w.scn.SubSeed, a.w.scn.ChunkBody, s.Height, s.Format, s.Chunks)
		a.mu.Lock()
		if a.hashCache == nil {
			a.hashCache = map[string][]byte{}
		}
		a.hashCache[k] = want
		a.mu.Unlock()
	}
	return bytes.Equal(s.Hash, want)
}

func (a *app) OfferSnapshot(req abci.RequestOfferSnapshot) abci.ResponseOfferSnapshot {
	a.mu.Lock()
	n := a.offerNo
	a.offerNo++
	a.mu.Unlock()
	s := req.Snapshot
	if s == nil {
		s = &abci.Snapshot{}
	}
	if n == 150 {
		select {
		case a.w.cutCh <- "offer-loop": // the syncer keeps offering: enough seen
		default:
		}
	}
	a.w.log.add(Ev{K: "offer-call", P: -1, C: n, H: s.Height, F: s.Format, NCh: s.Chunks, Hash: hexs(s.Hash), Meta: hexs(s.Metadata), B: hexs(req.AppHash)})
	a.w.sched.hold("offer", n, holdCtx{h: s.Height, f: s.Format, n: s.Chunks, sender: -1})
	verdict := "REJECT"
	switch {
	case s.Format >= 9 && s.Format < 20:
		verdict = "REJECT_FORMAT"
	case a.genuine(s) || a.w.scn.App.AcceptAny:
		verdict = "ACCEPT"
	}
	for ci, v := range a.w.scn.App.OfferBySnap {
		if ci >= 0 && ci < len(a.w.scn.Catalog) {
			c := a.w.scn.Catalog[ci]
			if c.Height == s.Height && c.Format == s.Format && c.Chunks == s.Chunks && c.Hash == hexs(s.Hash) && c.Meta == hexs(s.Metadata) {
				verdict = v
			}
		}
	}
	if v, ok := a.w.scn.App.OfferScript[n]; ok && v != "" {
		verdict = v
	}
	a.mu.Lock()
	if verdict == "ACCEPT" {
		a.cur = s
		a.accepted = map[uint32][]byte{}
		a.bad = 0
	}
	a.mu.Unlock()
	a.w.log.add(Ev{K: "offer-ret", P: -1, C: n, M: verdict})
	return abci.ResponseOfferSnapshot{Result: abci.ResponseOfferSnapshot_Result(abci.ResponseOfferSnapshot_Result_value[verdict])}
}

func (a *app) ApplySnapshotChunk(req abci.RequestApplySnapshotChunk) abci.ResponseApplySnapshotChunk {
	a.mu.Lock()
	n := a.applyNo
	a.applyNo++
	cur := a.cur
	a.mu.Unlock()
	if cur == nil {
		cur = &abci.Snapshot{}
	}
	sender := a.w.peerIndex(req.Sender)
	a.w.log.add(Ev{K: "apply-call", P: sender, C: n, I: req.Index, B: encB(req.Chunk), Sender: req.Sender, H: cur.Height, F: cur.Format, NCh: cur.Chunks})
	ctx := holdCtx{h: cur.Height, f: cur.Format, n: cur.Chunks, cur: req.Index, sender: sender}
	a.w.sched.hold("apply", n, ctx)

	// smart verdict: the app knows what the genuine content looks like
	good := a.genuine(cur) && bytes.Equal(req.Chunk, content(a.w.scn.SubSeed, a.w.scn.ChunkBody, cur.Height, cur.Format, req.Index))
	res := abci.ResponseApplySnapshotChunk{Result: abci.ResponseApplySnapshotChunk_ACCEPT}
	a.mu.Lock()
	if !good {
		a.bad++
		res.Result = abci.ResponseApplySnapshotChunk_RETRY
		res.RefetchChunks = []uint32{req.Index}
		if a.w.scn.App.SmartReject && req.Sender != "" {
			res.RejectSenders = []string{req.Sender}
		}
		if a.bad > a.w.scn.App.BadLimit {
			res.Result = abci.ResponseApplySnapshotChunk_REJECT_SNAPSHOT
		}
	}
	a.mu.Unlock()
	if ov, ok := a.w.scn.App.ApplyScript[n]; ok {
		if ov.Result != "" {
			res = abci.ResponseApplySnapshotChunk{Result: abci.ResponseApplySnapshotChunk_Result(abci.ResponseApplySnapshotChunk_Result_value[ov.Result])}
		}
		for _, rel := range ov.Refetch {
			if cur.Chunks > 0 {
				res.RefetchChunks = append(res.RefetchChunks, uint32((int(req.Index)+rel+int(cur.Chunks)*4)%int(cur.Chunks)))
			}
		}
		if ov.RejectSelf && req.Sender != "" {
			res.RejectSenders = append(res.RejectSenders, req.Sender)
		}
		if ov.RejectAdvertisers {
			for _, p := range a.w.advertisersOf(cur) {
				res.RejectSenders = append(res.RejectSenders, string(a.w.liars[p].id))
			}
		}
		for _, p := range ov.RejectPeers {
			if p >= 0 && p < len(a.w.liars) {
				res.RejectSenders = append(res.RejectSenders, string(a.w.liars[p].id))
			}
		}
	}
	for _, sid := range res.RejectSenders {
		if p := a.w.peerIndex(sid); p >= 0 {
			a.w.mu.Lock()
			a.w.lastRejected = p
			a.w.mu.Unlock()
		}
	}
	a.mu.Lock()
	if res.Result == abci.ResponseApplySnapshotChunk_ACCEPT && a.accepted != nil {
		a.accepted[req.Index] = append([]byte{}, req.Chunk...)
	}
	a.mu.Unlock()
	if len(res.RefetchChunks) > 0 || len(res.RejectSenders) > 0 {
		var rp []int
		for _, sid := range res.RejectSenders {
			if p := a.w.peerIndex(sid); p >= 0 {
				rp = append(rp, p)
			}
		}
		a.w.sched.noteVerdict(res.RefetchChunks, rp, req.Index)
	}
	a.w.log.add(Ev{K: "apply-ret", P: sender, C: n, M: res.Result.String(), Refetch: res.RefetchChunks, Reject: res.RejectSenders, I: req.Index})
	a.w.sched.after("after-apply", n, ctx)
	return res
}

// Info reports what the app restored: the genuine app hash only if every chunk
// it accepted was the genuine content of a genuine snapshot.
func (a *app) Info(req abci.RequestInfo) abci.ResponseInfo {
	a.mu.Lock()
	n := a.infoNo
	a.infoNo++
	cur := a.cur
	acc := a.accepted
	a.mu.Unlock()
	a.w.log.add(Ev{K: "info-call", P: -1, C: n})
	res := abci.ResponseInfo{Data: "c14", Version: "1", AppVersion: a.w.scn.App.Version}
	if cur != nil {
		res.LastBlockHeight = int64(cur.Height)
		all := a.genuine(cur)
		hh := sha256.New()
		for i := uint32(0); i < cur.Chunks; i++ {
			hh.Write(acc[i])
			if !bytes.Equal(acc[i], content(a.w.scn.SubSeed, a.w.scn.ChunkBody, cur.Height, cur.Format, i)) {
				all = false
			}
		}
		if t, ok := a.w.truth[cur.Height]; ok && all {
			res.LastBlockAppHash = append([]byte{}, t.appHash...)
		} else {
			res.LastBlockAppHash = hh.Sum(nil)
		}
	}
	if is := a.w.scn.App.Info; is != nil {
		res.AppVersion = is.Version
		switch is.Hash {
		case "flip":
			if len(res.LastBlockAppHash) > 0 {
				res.LastBlockAppHash[len(res.LastBlockAppHash)/2] ^= 0x10
			}
		case "empty":
			res.LastBlockAppHash = nil
		case "longer":
			res.LastBlockAppHash = append(res.LastBlockAppHash, 0)
		}
		switch is.Height {
		case "+1":
			res.LastBlockHeight++
		case "-1":
			res.LastBlockHeight--
		case "0":
			res.LastBlockHeight = 0
		}
	}
	switch a.w.scn.App.InfoLie {
	case "height":
		res.LastBlockHeight++
	case "hash":
		if len(res.LastBlockAppHash) > 0 {
			res.LastBlockAppHash[0] ^= 1
		} else {
			res.LastBlockAppHash = []byte{1}
		}
	case "version":
		res.AppVersion++
	}
	a.w.log.add(Ev{K: "info-ret", P: -1, C: n, H: uint64(res.LastBlockHeight), B: hexs(res.LastBlockAppHash), Ver: res.AppVersion})
	return res
}

// ---- app connections: like the gRPC ABCI server, calls are not serialised by
// a global mutex, so barrier requests are answered while a restore call is held.

type snapConn struct{ a *app }

func (c snapConn) Error() error { return nil }
func (c snapConn) ListSnapshotsSync(abci.RequestListSnapshots) (*abci.ResponseListSnapshots, error) {
	c.a.w.sched.ackAdvert()
	return &abci.ResponseListSnapshots{}, nil
}
func (c snapConn) OfferSnapshotSync(req abci.RequestOfferSnapshot) (*abci.ResponseOfferSnapshot, error) {
	r := c.a.OfferSnapshot(req)
	return &r, nil
}
func (c snapConn) LoadSnapshotChunkSync(req abci.RequestLoadSnapshotChunk) (*abci.ResponseLoadSnapshotChunk, error) {
	if req.Height >= nonceBase {
		c.a.w.sched.ackChunk(req.Height)
	}
	return &abci.ResponseLoadSnapshotChunk{}, nil
}
func (c snapConn) ApplySnapshotChunkSync(req abci.RequestApplySnapshotChunk) (*abci.ResponseApplySnapshotChunk, error) {
	r := c.a.ApplySnapshotChunk(req)
	return &r, nil
}

type queryConn struct{ a *app }

func (c queryConn) Error() error { return nil }
func (c queryConn) EchoSync(s string) (*abci.ResponseEcho, error) {
	return &abci.ResponseEcho{Message: s}, nil
}
func (c queryConn) InfoSync(req abci.RequestInfo) (*abci.ResponseInfo, error) {
	r := c.a.Info(req)
	return &r, nil
}
func (c queryConn) QuerySync(req abci.RequestQuery) (*abci.ResponseQuery, error) {
	r := c.a.App.Query(req)
	return &r, nil
}

// ---- tier A state provider: chaingen truth, logged, with scripted faults

type truthRec struct {
	state   sm.State
	commit  *types.Commit
	appHash []byte
}

type stubProvider struct {
	w  *world
	mu sync.Mutex
	n  map[string]int
}

func (p *stubProvider) call(method string, height uint64) (int, error) {
	p.mu.Lock()
	if p.n == nil {
		p.n = map[string]int{}
	}
	n := p.n[method]
	p.n[method]++
	p.mu.Unlock()
	p.w.log.add(Ev{K: "sp-call", P: -1, C: n, M: method, H: height})
	if method == "AppHash" {
		p.w.sched.hold("apphash", n, holdCtx{h: height, sender: -1})
	}
	var err error
	switch p.w.scn.SPFaults[fmt.Sprintf("%s#%d", method, n)] {
	case "err":
		err = errors.New("c14: scripted provider failure")
	case "nowitness":
		err = light.ErrNoWitnesses
	}
	if _, ok := p.w.truth[height]; !ok && err == nil {
		err = fmt.Errorf("c14: height %d cannot be verified", height)
	}
	return n, err
}

func (p *stubProvider) ret(method string, n int, height uint64, err error) {
	e := Ev{K: "sp-ret", P: -1, C: n, M: method, H: height, OK: err == nil}
	if err != nil {
		e.X = err.Error()
		if err == light.ErrNoWitnesses {
			e.X2 = "nowitness"
		}
	}
	p.w.log.add(e)
}

func (p *stubProvider) AppHash(ctx context.Context, height uint64) ([]byte, error) {
	n, err := p.call("AppHash", height)
	p.ret("AppHash", n, height, err)
	if err != nil {
		return nil, err
	}
	return append([]byte{}, p.w.truth[height].appHash...), nil
}

func (p *stubProvider) Commit(ctx context.Context, height uint64) (*types.Commit, error) {
	n, err := p.call("Commit", height)
	p.ret("Commit", n, height, err)
	if err != nil {
		return nil, err
	}
	return copyCommit(p.w.truth[height].commit), nil
}

func (p *stubProvider) State(ctx context.Context, height uint64) (sm.State, error) {
	n, err := p.call("State", height)
	p.ret("State", n, height, err)
	if err != nil {
		return sm.State{}, err
	}
	return p.w.truth[height].state.Copy(), nil
}
