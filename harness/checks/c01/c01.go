// Package c01: agreement and validity of decisions (DESIGN.md C01), engine sim.
package c01

import (
	"fmt"
	"os"
	"os/exec"
	"path/filepath"
	"runtime"
	"strings"
	"sync"

	"verif/ref"
	"verif/sim"
	"verif/verdict"
)

type witness struct {
	Stream string         `json:"stream"`
	Case   int            `json:"case"`
	Config sim.Config     `json:"config"`
	Trace  []string       `json:"trace_tail"`
	Stats  map[string]int `json:"stats"`
}

func tail(t []string, k int) []string {
	if len(t) > k {
		return t[len(t)-k:]
	}
	return t
}

// runOne executes case idx of a stream; control = faulty power >= 1/3.
func runOne(c *verdict.Ctx, stream string, idx int, control bool, cov *covAgg) (forked bool) {
	r := c.Rand(stream, idx)
	cfg := sim.DrawConfig(r, control)
	net := sim.NewNet(r, sim.NetOpt{Seed: c.SubSeed(stream+"-keys", idx), Powers: cfg.Powers, Faulty: cfg.Faulty,
		SkipTimeoutCommit: cfg.Skip, InitialHeight: cfg.InitialH, PowerBumps: cfg.Bumps})
	defer net.Close()
	net.TraceOn = c.Replay() != ""
	cache := ref.NewSigCache()
	report := func(f sim.Finding) {
		if control {
			if f.Key == "disagreement" {
				forked = true
			}
			return
		}
		c.Violation(f.Key, f.What, witness{stream, idx, cfg, tail(net.Trace, 120), net.Stats})
	}
	net.OnDecide = func(nd *sim.Node, h int64) {
		for _, f := range net.AuditDecision(nd, h, cache) {
			report(f)
		}
		if f := net.Agreement(h); f != nil {
			report(*f)
		}
	}
	var lc sim.Coverage
	net.Start()
	net.Pump()
	if control {
		label := net.RecipeFork()
		c.Count("control.recipe."+label, 1)
		net.PartOn = false
		c.Eval()
		cov.add(net, &lc, sim.SyncResult{}, true)
		return forked
	}
	steps := cfg.Steps
	chunk := 10
	recipeAt := -1
	if r.Intn(3) > 0 {
		recipeAt = r.Intn(steps/2+1) / chunk * chunk
	}
	for s := 0; s < steps; s += chunk {
		if s == recipeAt {
			// drain to a common height first, then run a scripted strategy
			_, hi0 := net.MinMaxHeight()
			net.RunSync(hi0, 60, 400, nil)
			var label string
			switch r.Intn(7) {
			case 0:
				label = "commit-without-block:" + net.RecipeCommitWithoutBlock()
			case 1, 2:
				label = "lock-attack:" + net.RecipeLockAttack()
			case 3, 4:
				label = "relock-attack:" + net.RecipeRelockAttack()
			default:
				label = "split-lock:" + net.RecipeSplitLock()
			}
			c.Count("recipe."+label, 1)
			net.Synchronous = false
			net.Observe(&lc)
		}
		net.AsyncRun(chunk)
		net.Observe(&lc)
	}
	_, hi := net.MinMaxHeight()
	res := net.RunSync(hi, 60, 3000, func() {
		if len(net.Faulty) > 0 && net.R.Intn(2) == 0 {
			net.ByzStep()
		}
	})
	net.Observe(&lc)
	c.Eval()
	if h := net.HaltedNodes(); len(h) > 0 {
		// halting is a termination (C03) matter; agreement is still audited on what was decided
		c.Count("correct_node_consensus_panics", int64(len(h)))
		c.Inconclusive("a correct node halted on a consensus panic (reported by C03)")
	}
	dec := net.Stats["decisions"]
	byz := net.Stats["byz_votes"] + net.Stats["byz_proposals"] + net.Stats["partitions"]
	if !control && dec > 0 && byz > 0 {
		c.Distinct(stream, idx, fmt.Sprint(cfg), net.Stats["delivered"], net.Stats["timeouts"])
	}
	cov.add(net, &lc, res, control)
	if !control && c.WantSample() {
		c.Sample(map[string]interface{}{"stream": stream, "case": idx, "config": cfg, "stats": net.Stats, "trace_head": head(net.Trace, 25),
			"max_round": lc.MaxRound, "sync": res})
	}
	return forked
}

func head(t []string, k int) []string {
	if len(t) > k {
		return t[:k]
	}
	return t
}

type covAgg struct {
	mu     sync.Mutex
	c      *verdict.Ctx
	tuples map[string]bool
}

func (a *covAgg) add(net *sim.Net, lc *sim.Coverage, res sim.SyncResult, control bool) {
	pfx := ""
	if control {
		pfx = "control."
	}
	c := a.c
	c.Count(pfx+"executions", 1)
	c.Count(pfx+"steps", int64(net.Step))
	c.Count(pfx+"decisions", int64(net.Stats["decisions"]))
	for _, k := range []string{"delivered", "dropped", "duplicated", "timeouts", "partitions", "byz_votes", "byz_proposals", "byz_invalid_blocks", "byz_forged_votes", "byz_maj23_claims", "byz_withheld_part", "dropped_by_validate_basic"} {
		c.Count(pfx+k, int64(net.Stats[k]))
	}
	if control {
		return
	}
	c.Max("max_round", int64(lc.MaxRound))
	c.Count("recipe_or_random.split_lock_observations", int64(lc.SplitLocks))
	if lc.SplitLocks > 0 {
		c.Count("executions_with_split_locks", 1)
	}
	if lc.Unlocks > 0 {
		c.Count("executions_with_unlock", 1)
	}
	if lc.Relocks > 0 {
		c.Count("executions_with_relock", 1)
	}
	c.Count("locks", int64(lc.Locks))
	if !res.Decided {
		c.Count("sync_suffix_undecided", 1)
	}
	a.mu.Lock()
	for t := range lc.Tuples {
		a.tuples[t] = true
	}
	a.mu.Unlock()
}

func Run(c *verdict.Ctx) int {
	c.Level = "exploration"
	if os.Getenv("VERIF_C01_STAGE") == "net4" {
		runNet4Stage(c)
		return c.Finish(0)
	}
	c.Rule = "one case = one seeded execution of 4-7 real consensus.State machines under the asynchronous adversary (reorder, duplicate, drop, partition, early timeouts, faulty validators with < 1/3 power equivocating / withholding / proposing invalid blocks / forging) followed by a synchronous suffix; non-trivial = at least one height decided AND the adversary used a partition or a faulty validator's message; distinct by (config, delivered, timeouts)"
	c.Assume("message transport and timers are replaced by the scheduler; the transition function is the real consensus/state.go, vote sets, executor, stores, evidence pool",
		"reference commit tally ref/tally.go; ed25519; ValidateBlock re-run on a pristine pre-state copy decides validity (its exactness is C06)")
	cov := &covAgg{c: c, tuples: map[string]bool{}}
	n := c.N(400, 20000)
	nControl := c.N(60, 600)
	workers := runtime.NumCPU()
	var wg sync.WaitGroup
	jobs := make(chan [2]int, 64)
	var forks int64
	var fmu sync.Mutex
	for w := 0; w < workers; w++ {
		wg.Add(1)
		go func() {
			defer wg.Done()
			for j := range jobs {
				if j[0] == 0 {
					runOne(c, "exec", j[1], false, cov)
				} else if runOne(c, "control", j[1], true, cov) {
					fmu.Lock()
					forks++
					fmu.Unlock()
				}
			}
		}()
	}
	for i := 0; i < n; i++ {
		jobs <- [2]int{0, i}
	}
	for i := 0; i < nControl; i++ {
		jobs <- [2]int{1, i}
	}
	close(jobs)
	wg.Wait()
	// net4: real reactors, real timers (race-built child when available)
	runNet4Stage(c)
	c.Count("control.forks_seen", forks)
	c.Set("distinct_step_lock_valid_proposal_pol_tuples", len(cov.tuples))
	if forks == 0 {
		c.HarnessError("control group (faulty power >= 1/3) produced no disagreement: the agreement monitor was not shown to be able to see a fork")
	}
	return c.Finish(n / 4)
}

func runNet4Stage(c *verdict.Ctx) {
	if os.Getenv("VERIF_C01_STAGE") == "" && os.Getenv("VERIF_RACE_BIN") != "" {
		tmp := verdict.TmpDir("c01-net4-")
		defer os.RemoveAll(tmp)
		evp := filepath.Join(tmp, "evidence.json")
		cmd := exec.Command(os.Getenv("VERIF_RACE_BIN"), "--tier", c.Tier, "C01")
		cmd.Env = append(os.Environ(), "VERIF_C01_STAGE=net4", "VERIF_EVIDENCE_PATH="+evp, "GORACE=halt_on_error=0 log_path="+filepath.Join(tmp, "race"))
		ef, _ := os.Create(filepath.Join(tmp, "stderr"))
		cmd.Stdout, cmd.Stderr = os.Stdout, ef
		_ = cmd.Run()
		ef.Close()
		if err := c.MergeChild(evp, ""); err != nil {
			// a crash of the child is not an agreement violation: count it, keep the verdict of the simulator stages
			c.Count("net4.child_crashed", 1)
			c.Inconclusive("net4 child stage produced no evidence")
			return
		}
		logs, _ := filepath.Glob(filepath.Join(tmp, "race.*"))
		n := 0
		for _, l := range logs {
			b, _ := os.ReadFile(l)
			n += strings.Count(string(b), "WARNING: DATA RACE")
		}
		c.Count("net4.race_reports(diagnostic)", int64(n))
		return
	}
	for i := 0; i < c.N(3, 60); i++ {
		runNet4(c, i)
	}
}
