package c01

// net4 stage: four real nodes with real consensus reactors over in-memory p2p
// connections (MakeConnectedSwitches), real timers, started for real.  It
// exercises what the simulator replaces: reactor gossip, peer state, catch-up of
// a node that was cut off.  Only the safety monitors decide (agreement, validity,
// quorum of the stored commit); progress is watched by a generous wall-clock
// watchdog whose firing is inconclusive.

import (
	"fmt"
	"math/rand"
	"os"
	"path/filepath"
	"sync"
	"time"

	cfg "github.com/tendermint/tendermint/config"
	cs "github.com/tendermint/tendermint/consensus"
	"github.com/tendermint/tendermint/crypto"
	"github.com/tendermint/tendermint/libs/log"
	"github.com/tendermint/tendermint/p2p"
	"github.com/tendermint/tendermint/types"

	"verif/chaingen"
	"verif/ref"
	"verif/sim"
	"verif/verdict"
)

var net4Mu sync.Mutex // one network at a time in a process (p2p test helpers use global port counters)

func runNet4(c *verdict.Ctx, idx int) {
	net4Mu.Lock()
	defer net4Mu.Unlock()
	r := c.Rand("net4", idx)
	const nVals = 4
	seed := c.SubSeed("net4-keys", idx)
	keys := make([]crypto.PrivKey, nVals)
	gvals := make([]types.GenesisValidator, nVals)
	for i := range keys {
		k := chaingen.Key(seed, i)
		keys[i] = k
		gvals[i] = types.GenesisValidator{Address: k.PubKey().Address(), PubKey: k.PubKey(), Power: int64(5 + r.Intn(6)), Name: fmt.Sprint("v", i)}
	}
	params := types.DefaultConsensusParams()
	params.Block.TimeIotaMs = 1
	gen := &types.GenesisDoc{GenesisTime: time.Now().Add(-time.Hour).UTC(), ChainID: "net4-chain", ConsensusParams: params, Validators: gvals}
	if err := gen.ValidateAndComplete(); err != nil {
		panic(err)
	}
	conf := cfg.TestConsensusConfig()
	conf.TimeoutPropose = 60 * time.Millisecond
	conf.TimeoutPrevote = 20 * time.Millisecond
	conf.TimeoutPrecommit = 20 * time.Millisecond
	conf.TimeoutCommit = 10 * time.Millisecond
	conf.SkipTimeoutCommit = r.Intn(2) == 0
	conf.PeerGossipSleepDuration = 5 * time.Millisecond
	nodes := make([]*sim.Node, nVals)
	reactors := make([]*cs.Reactor, nVals)
	walDir := verdict.TmpDir("c01-net4-wal-")
	defer os.RemoveAll(walDir)
	for i := 0; i < nVals; i++ {
		cc := *conf
		cc.SetWalFile(filepath.Join(walDir, fmt.Sprintf("n%d", i), "wal")) // a started node opens its WAL file
		nodes[i] = sim.NewNode(i, gen, keys[i], sim.NodeOpt{Config: &cc, RealTicker: true})
		reactors[i] = cs.NewReactor(nodes[i].CS, true) // started below through SwitchToConsensus
		reactors[i].SetLogger(log.NewNopLogger())
		if os.Getenv("VERIF_NET4_DEBUG") == "2" && i == 0 {
			lg := log.NewTMLogger(log.NewSyncWriter(os.Stdout))
			nodes[i].CS.SetLogger(lg)
			reactors[i].SetLogger(lg)
		}
		reactors[i].SetEventBus(nodes[i].Bus)
	}
	pcfg := cfg.DefaultP2PConfig()
	pcfg.AllowDuplicateIP = true
	pcfg.FlushThrottleTimeout = 2 * time.Millisecond // the default 100ms exceeds the test timeouts
	switches := p2p.MakeConnectedSwitches(pcfg, nVals, func(i int, s *p2p.Switch) *p2p.Switch {
		s.AddReactor("CONSENSUS", reactors[i])
		s.SetLogger(log.NewNopLogger())
		return s
	}, p2p.Connect2Switches)
	defer func() {
		for i := range switches {
			_ = switches[i].Stop()
		}
		for _, nd := range nodes {
			if nd.CS.IsRunning() {
				_ = nd.CS.Stop()
			}
			nd.Close()
		}
	}()
	for i := 0; i < nVals; i++ {
		reactors[i].SwitchToConsensus(nodes[i].CS.GetState(), false)
	}
	target := int64(5 + r.Intn(6))
	cache := ref.NewSigCache()
	audited := make([]int64, nVals)
	audit := func() {
		for i, nd := range nodes {
			for nd.Blocks.Height() > audited[i] {
				h := audited[i] + 1
				audited[i] = h
				// validity + quorum (monitors of the simulator, on a real node's stores)
				pre := nd.PreState
				_ = pre
				meta := nd.Blocks.LoadBlockMeta(h)
				seen := nd.Blocks.LoadSeenCommit(h)
				vals, err := nd.States.LoadValidators(h)
				if meta == nil || seen == nil || err != nil {
					continue // written concurrently; picked up on the next pass (audited is only advanced when loadable)
				}
				tr := ref.TallyCommitCached(cache, "net4-chain", vals, meta.BlockID, h, seen)
				if tr.Structural != nil || !ref.TwoThirds(tr) {
					c.Violation("net4-decided-without-quorum", fmt.Sprintf("node %d height %d: stored seen commit has %v of %v for the decided block (%v)", i, h, tr.ForBlock, tr.Total, tr.Structural),
						map[string]interface{}{"stream": "net4", "case": idx})
				}
				c.Count("net4.decisions_audited", 1)
			}
		}
		// agreement
		minH := int64(1 << 62)
		for _, nd := range nodes {
			if hh := nd.Blocks.Height(); hh < minH {
				minH = hh
			}
		}
		for h := int64(1); h <= minH; h++ {
			var first []byte
			for i, nd := range nodes {
				m := nd.Blocks.LoadBlockMeta(h)
				if m == nil {
					continue
				}
				if first == nil {
					first = m.BlockID.Hash
				} else if string(first) != string(m.BlockID.Hash) {
					c.Violation("net4-disagreement", fmt.Sprintf("height %d: node %d stored %X, another node %X", h, i, m.BlockID.Hash, first), map[string]interface{}{"stream": "net4", "case": idx})
				}
			}
		}
	}
	// run; once, cut one node off from everybody for a while and let it catch up afterwards
	cut := r.Intn(nVals)
	cutAt := int64(2 + r.Intn(2))
	cutDone, healed := false, false
	var cutTime time.Time
	healAfter := time.Duration(100+r.Intn(600)) * time.Millisecond
	deadline := time.Now().Add(25 * time.Second)
	lastDbg := time.Now()
	for time.Now().Before(deadline) {
		time.Sleep(15 * time.Millisecond)
		audit()
		if os.Getenv("VERIF_NET4_DEBUG") != "" && time.Since(lastDbg) > time.Second {
			lastDbg = time.Now()
			line := ""
			for i, nd := range nodes {
				rs := nd.CS.GetRoundState()
				line += fmt.Sprintf(" n%d:%d/%d/%v peers=%d", i, rs.Height, rs.Round, rs.Step, switches[i].Peers().Size())
			}
			fmt.Println("NET4", line)
		}
		minH, maxH := int64(1<<62), int64(0)
		for _, nd := range nodes {
			hh := nd.Blocks.Height()
			if hh < minH {
				minH = hh
			}
			if hh > maxH {
				maxH = hh
			}
		}
		if !cutDone && maxH >= cutAt {
			for _, p := range switches[cut].Peers().List() {
				switches[cut].StopPeerGracefully(p)
			}
			cutDone = true
			cutTime = time.Now()
			c.Count("net4.partitions", 1)
		}
		if cutDone && !healed && time.Since(cutTime) > healAfter {
			for j := 0; j < nVals; j++ {
				if j != cut {
					p2p.Connect2Switches(switches, cut, j)
				}
			}
			healed = true
			c.Count("net4.heals", 1)
		}
		if minH >= target {
			break
		}
	}
	audit()
	c.Eval()
	c.Count("net4.runs", 1)
	hs := []int64{}
	for _, nd := range nodes {
		hs = append(hs, nd.Blocks.Height())
	}
	c.Set(fmt.Sprintf("net4_run_%d", idx), map[string]interface{}{"target": target, "heights": hs, "cut_node": cut, "healed": healed})
	minH := int64(1 << 62)
	for _, nd := range nodes {
		if hh := nd.Blocks.Height(); hh < minH {
			minH = hh
		}
	}
	if minH >= target {
		c.Count("net4.runs_all_nodes_reached_target", 1)
		if healed {
			c.Count("net4.runs_with_catch_up_after_heal", 1)
		}
		c.Distinct("net4", idx, target, cut, cutAt)
	} else {
		c.Inconclusive("net4: not every node reached the target height before the wall-clock watchdog")
	}
}

var _ = rand.Int
