// Package c09: the light client trusts only headers reachable by valid
// verification steps, and only when a witness really confirmed them
// (DESIGN.md section 3 "C09", oracles A-E; section 4 row S3).
//
// The real light.Client (NewClient / NewClientFromTrustedStore,
// VerifyLightBlockAtHeight, Update, VerifyHeader; sequential, skipping and
// backwards verification; primary replacement; the detector) is driven against
// scripted providers backed by chaingen chains.  Every provider reply passes a
// release gate, so the order in which witness replies return is chosen by the
// scenario; every reply and every evidence report is logged with a sequence
// number at the provider boundary.  After every client call the trusted store
// is diffed and the oracles in oracle.go / exec.go decide.
package c09

import (
	"bufio"
	"encoding/json"
	"fmt"
	"os"
	"os/exec"
	"path/filepath"
	"runtime"
	"runtime/pprof"
	"sort"
	"strconv"
	"strings"
	"sync"
	"sync/atomic"
	"time"

	"verif/verdict"
)

// pool of canonical chains, generated lazily (chain i is a pure function of the seed and i).
type chainPool struct {
	c     *verdict.Ctx
	once  []sync.Once
	chain []*chainInfo
}

func newPool(c *verdict.Ctx, n int) *chainPool {
	return &chainPool{c: c, once: make([]sync.Once, n), chain: make([]*chainInfo, n)}
}

func (p *chainPool) get(i int) *chainInfo {
	p.once[i].Do(func() { p.chain[i] = genChain(p.c.Rand("chain", i), i, p.c.Thorough()) })
	return p.chain[i]
}

func (p *chainPool) all() []*chainInfo {
	var wg sync.WaitGroup
	for i := range p.chain {
		wg.Add(1)
		go func(i int) { defer wg.Done(); p.get(i) }(i)
	}
	wg.Wait()
	return p.chain
}

type job struct {
	stream string // scn | recipe | recipe-time | recipe-fwd | recipe-pad | recipe-nil | recipe-mid
	idx    int
}

func runJob(c *verdict.Ctx, k sink, pool []*chainInfo, j job) {
	var sc *scenario
	switch j.stream {
	case "recipe":
		sc = genRecipe(c.Rand("recipe", j.idx), j.idx, pool)
	case "recipe-time":
		sc = genTimeRecipe(c.Rand("recipe-time", j.idx), j.idx, pool)
	case "recipe-fwd":
		sc = genFwdRecipe(c.Rand("recipe-fwd", j.idx), j.idx, pool)
	case "recipe-pad":
		sc = genPadRecipe(c.Rand("recipe-pad", j.idx), j.idx, pool)
	case "recipe-nil":
		sc = genNilRecipe(c.Rand("recipe-nil", j.idx), j.idx, pool)
	case "recipe-mid":
		sc = genMidRecipe(c.Rand("recipe-mid", j.idx), j.idx, pool)
	default:
		sc = genScenario(c.Rand("scn", j.idx), j.idx, pool)
	}
	x := &runner{k: k, sc: sc}
	t0 := time.Now()
	x.run()
	if os.Getenv("C09_DEBUG") == "3" {
		n := 0
		if x.s != nil {
			n = x.s.seq
		}
		fmt.Fprintf(os.Stderr, "TIMING %s %d mode=%s calls=%d log=%d ms=%d\n", j.stream, j.idx, sc.desc.Mode, len(sc.desc.Calls), n, time.Since(t0).Milliseconds())
	}
}

func runJobs(c *verdict.Ctx, k sink, pool []*chainInfo, jobs []job, workers int) {
	var next int64 = -1
	var wg sync.WaitGroup
	for w := 0; w < workers; w++ {
		wg.Add(1)
		go func() {
			defer wg.Done()
			for {
				i := int(atomic.AddInt64(&next, 1))
				if i >= len(jobs) {
					return
				}
				func() {
					defer func() {
						if rec := recover(); rec != nil {
							buf := make([]byte, 4096)
							buf = buf[:runtime.Stack(buf, false)]
							k.HarnessError("scenario %+v panicked in the harness: %v\n%s", jobs[i], rec, buf)
						}
					}()
					runJob(c, k, pool, jobs[i])
				}()
			}
		}()
	}
	wg.Wait()
}

// ---------------------------------------------------------------- -race child

type childViolation struct {
	Key     string      `json:"key"`
	What    string      `json:"what"`
	Witness interface{} `json:"witness"`
}

type childResult struct {
	Evals        int64            `json:"evals"`
	Counts       map[string]int64 `json:"counts"`
	Violations   []childViolation `json:"violations"`
	Inconclusive []string         `json:"inconclusive"`
	HarnessErr   []string         `json:"harness_errors"`
}

type collect struct {
	mu  sync.Mutex
	res childResult
}

func (s *collect) Violation(key, what string, w interface{}) bool {
	s.mu.Lock()
	defer s.mu.Unlock()
	n := 0
	for _, v := range s.res.Violations {
		if v.Key == key {
			n++
		}
	}
	if n < 3 {
		s.res.Violations = append(s.res.Violations, childViolation{key, what, w})
	}
	s.res.Counts["violation."+key]++
	return true
}
func (s *collect) Count(name string, n int64) {
	s.mu.Lock()
	s.res.Counts[name] += n
	s.mu.Unlock()
}
func (s *collect) Distinct(...interface{}) bool { return true }
func (s *collect) Inconclusive(why string) {
	s.mu.Lock()
	s.res.Inconclusive = append(s.res.Inconclusive, why)
	s.mu.Unlock()
}
func (s *collect) HarnessError(f string, a ...interface{}) {
	s.mu.Lock()
	s.res.HarnessErr = append(s.res.HarnessErr, fmt.Sprintf(f, a...))
	s.mu.Unlock()
}
func (s *collect) Sample(interface{}) {}
func (s *collect) WantSample() bool   { return false }
func (s *collect) Eval() {
	s.mu.Lock()
	s.res.Evals++
	s.mu.Unlock()
}

func jobList(c *verdict.Ctx, race bool) []job {
	var jobs []job
	nrec, nrand := c.N(32, 320), c.N(1500, 60000)
	if race {
		nrec, nrand = c.N(16, 64), c.N(220, 3000)
	}
	for i := 0; i < nrec; i++ {
		jobs = append(jobs, job{"recipe", i})
	}
	for i := 0; i < nrec/2; i++ {
		jobs = append(jobs, job{"recipe-time", i})
	}
	nfwd := c.N(120, 2400)
	if race {
		nfwd = c.N(40, 240)
	}
	for i := 0; i < nfwd; i++ {
		jobs = append(jobs, job{"recipe-fwd", i})
	}
	npad := c.N(216, 4320)
	if race {
		npad = c.N(48, 432)
	}
	for i := 0; i < npad; i++ {
		jobs = append(jobs, job{"recipe-pad", i})
	}
	nnil := c.N(144, 2880)
	if race {
		nnil = c.N(48, 288)
	}
	for i := 0; i < nnil; i++ {
		jobs = append(jobs, job{"recipe-nil", i})
	}
	nmid := c.N(192, 3840)
	if race {
		nmid = c.N(48, 384)
	}
	for i := 0; i < nmid; i++ {
		jobs = append(jobs, job{"recipe-mid", i})
	}
	for i := 0; i < nrand; i++ {
		jobs = append(jobs, job{"scn", i})
	}
	return jobs
}

const poolSize = 14

// scenarios spend most of their time in settle delays of the release gates, so many more workers than cores
func workers() int {
	if s := os.Getenv("C09_WORKERS"); s != "" {
		if n, err := strconv.Atoi(s); err == nil && n > 0 {
			return n
		}
	}
	return 3 * runtime.NumCPU()
}

// runRaceChild is what the -race build of this binary does when started by the parent.
func runRaceChild(c *verdict.Ctx) int {
	out := os.Getenv("C09_RACE_OUT")
	k := &collect{res: childResult{Counts: map[string]int64{}}}
	pool := newPool(c, poolSize).all()
	runJobs(c, k, pool, jobList(c, true), workers()/2)
	b, _ := json.Marshal(k.res)
	if err := os.WriteFile(out, b, 0o644); err != nil {
		fmt.Fprintln(os.Stderr, "c09 race child: cannot write result:", err)
		return 2
	}
	return 0
}

// raceReports parses the race detector's log files: returns the number of reports and the
// deduplicated pairs of top frames.
func raceReports(dir string) (int, []string) {
	files, _ := filepath.Glob(filepath.Join(dir, "race.*"))
	total := 0
	pairs := map[string]int{}
	for _, fn := range files {
		f, err := os.Open(fn)
		if err != nil {
			continue
		}
		sc := bufio.NewScanner(f)
		sc.Buffer(make([]byte, 1<<20), 1<<20)
		var tops []string
		wantTop := false
		flush := func() {
			if len(tops) > 0 {
				sort.Strings(tops)
				pairs[strings.Join(tops, " <-> ")]++
			}
			tops = nil
		}
		for sc.Scan() {
			line := sc.Text()
			switch {
			case strings.HasPrefix(line, "WARNING: DATA RACE"):
				flush()
				total++
			case strings.HasPrefix(line, "Read at ") || strings.HasPrefix(line, "Write at ") ||
				strings.HasPrefix(line, "Previous read at ") || strings.HasPrefix(line, "Previous write at "):
				wantTop = true
			case wantTop && strings.HasPrefix(line, "  ") && !strings.HasPrefix(line, "      "):
				fn := strings.TrimSpace(line)
				if i := strings.Index(fn, "("); i > 0 {
					fn = fn[:i]
				}
				if len(tops) < 2 {
					tops = append(tops, fn)
				}
				wantTop = false
			}
		}
		flush()
		f.Close()
	}
	var out []string
	for p, n := range pairs {
		out = append(out, fmt.Sprintf("%dx %s", n, p))
	}
	sort.Strings(out)
	return total, out
}

func Run(c *verdict.Ctx) int {
	if os.Getenv("C09_STAGE") == "race" {
		return runRaceChild(c)
	}
	c.Level = "exploration"
	c.Rule = "a scenario = (chain, trust root, mode, trust level, trusting period, provider scripts, forgeries, client calls with explicit now and release priority of gated replies), all drawn from the seeded PRNG of its index; distinct by the hash of that descriptor; non-trivial if at least one client call reached the providers and in it a provider misbehaved, or two or more providers answered, or a header was stored - and the store diff of every call was judged by oracles A-E"
	c.Assume(
		"reference step relation, signature tally by public key, validator-set hash and hash-chain check in checks/c09/oracle.go (permissive readings of the statement wherever it leaves room)",
		"SHA-256, ed25519, protobuf encoding of headers / validators / canonical votes, Header.Hash",
		"chaingen chains produced by the real executor are the ground truth for clause B",
		"the provider-boundary log orders replies by the moment they are handed back to the client",
		"clause C is checked as 'two different providers returned the stored header for its height during the call' (DESIGN: misses the corner where a replaced primary and its replacement are the only two that agree)",
		"clause D is asserted only when primary and witness can each back their header by valid ADJACENT steps from the common block and never fail a request; conflicts that are verifiable only by skipping are exercised but not asserted",
		"reply order is steered by release gates plus a short settle delay; the achieved order is whatever the provider log shows, and only the log is used by the oracles",
	)
	pool := newPool(c, poolSize)

	if rp := c.Replay(); rp != "" {
		var w struct {
			Stream string `json:"stream"`
			Case   int    `json:"case"`
		}
		if err := verdict.LoadReplay(rp, &w); err != nil {
			c.HarnessError("cannot load replay file: %v", err)
			return c.Finish(0)
		}
		runJob(c, c, pool.all(), job{w.Stream, w.Case})
		return c.Finish(0)
	}

	// the -race stage runs concurrently in a child process
	var child *exec.Cmd
	var raceDir, raceOut string
	if rb := os.Getenv("VERIF_RACE_BIN"); rb != "" {
		if _, err := os.Stat(rb); err == nil {
			raceDir = verdict.TmpDir("c09-race-")
			raceOut = filepath.Join(raceDir, "result.json")
			child = exec.Command(rb, "--tier", c.Tier, c.ID)
			child.Env = append(os.Environ(), "C09_STAGE=race", "C09_RACE_OUT="+raceOut,
				"GORACE=halt_on_error=0 log_path="+filepath.Join(raceDir, "race"))
			child.Stdout, child.Stderr = os.Stderr, os.Stderr
			if err := child.Start(); err != nil {
				c.HarnessError("cannot start the -race stage: %v", err)
				child = nil
			}
		}
	}
	if child == nil {
		c.Set("race_stage", "not run (no $VERIF_RACE_BIN)")
	}

	t0 := time.Now()
	chains := pool.all()
	c.Set("wall_chain_pool_s", time.Since(t0).Seconds())
	var cdesc []string
	for _, ci := range chains {
		cdesc = append(cdesc, fmt.Sprintf("chain %d: %d heights, churn %d%%/height, %d genesis validators, %d keys", ci.idx, ci.n, ci.churn, ci.nvals, len(ci.ch.KeyList)))
	}
	c.Set("chains", cdesc)
	jobs := jobList(c, false)
	t0 = time.Now()
	if pf := os.Getenv("C09_CPUPROF"); pf != "" {
		if f, err := os.Create(pf); err == nil {
			pprof.StartCPUProfile(f)
			defer pprof.StopCPUProfile()
		}
	}
	runJobs(c, c, chains, jobs, workers())
	c.Set("wall_scenarios_s", time.Since(t0).Seconds())

	if child != nil {
		err := child.Wait()
		var res childResult
		b, rerr := os.ReadFile(raceOut)
		if err != nil || rerr != nil || json.Unmarshal(b, &res) != nil {
			c.HarnessError("-race stage failed: wait=%v read=%v", err, rerr)
		} else {
			for name, n := range res.Counts {
				if !strings.Contains(name, "distinct") {
					c.Count("race."+name, n)
				}
			}
			c.Count("race.scenarios", res.Evals)
			for _, v := range res.Violations {
				c.Violation(v.Key, v.What+" [seen in the -race stage]", v.Witness)
			}
			for _, s := range res.Inconclusive {
				c.Inconclusive("race stage: " + s)
			}
			for _, s := range res.HarnessErr {
				c.HarnessError("race stage: %s", s)
			}
			n, pairs := raceReports(raceDir)
			c.Count("race_reports_total", int64(n))
			c.Count("race_reports_dedup", int64(len(pairs)))
			if len(pairs) > 12 {
				pairs = pairs[:12]
			}
			c.Set("race_reports (diagnostic only)", pairs)
		}
		os.RemoveAll(raceDir)
	}
	if c.Counter("stored_headers") == 0 || c.Counter("oracleC.evaluated") == 0 {
		c.HarnessError("no header was ever stored by a client call: the oracles observed nothing")
	}
	return c.Finish(len(jobs) / 3)
}
