package c09

import (
	"context"
	"errors"
	"fmt"
	"math/big"
	"os"
	"runtime"
	"sort"
	"strings"
	"sync"
	"time"

	dbm "github.com/tendermint/tm-db"

	"github.com/tendermint/tendermint/libs/log"
	tmmath "github.com/tendermint/tendermint/libs/math"
	"github.com/tendermint/tendermint/light"
	"github.com/tendermint/tendermint/light/provider"
	"github.com/tendermint/tendermint/light/store"
	dbs "github.com/tendermint/tendermint/light/store/db"
	"github.com/tendermint/tendermint/types"
)

// sink is where a scenario reports to (the verdict.Ctx in the main process, a
// collecting buffer in the -race child).
type sink interface {
	Violation(key, what string, witness interface{}) bool
	Count(name string, n int64)
	Distinct(descriptor ...interface{}) bool
	Inconclusive(why string)
	HarnessError(format string, a ...interface{})
	Sample(v interface{})
	WantSample() bool
	Eval()
}

// recStore logs what the client writes to its trusted store.
type recStore struct {
	store.Store
	s     *sched
	mu    sync.Mutex
	saved map[int64]*types.LightBlock
}

func (r *recStore) SaveLightBlock(lb *types.LightBlock) error {
	cp := cloneLB(lb)
	ent := logEnt{Kind: "save", lb: cp}
	if lb != nil && lb.SignedHeader != nil && lb.Header != nil {
		ent.Height, ent.Hash = lb.Height, string(lb.Hash())
	}
	r.s.add(ent)
	r.mu.Lock()
	r.saved[ent.Height] = cp
	r.mu.Unlock()
	return r.Store.SaveLightBlock(lb)
}

func (r *recStore) DeleteLightBlock(h int64) error {
	r.s.add(logEnt{Kind: "delete", Height: h})
	return r.Store.DeleteLightBlock(h)
}

// snapshot reads the whole trusted store (the fact the oracles are about).
func (r *recStore) snapshot() (map[int64]*types.LightBlock, error) {
	out := map[int64]*types.LightBlock{}
	last, err := r.Store.LastLightBlockHeight()
	if err != nil {
		return nil, err
	}
	if last <= 0 {
		return out, nil
	}
	var rerr error
	func() {
		defer func() {
			if rec := recover(); rec != nil {
				rerr = fmt.Errorf("store read panicked: %v", rec)
			}
		}()
		lb, err := r.Store.LightBlock(last)
		for err == nil && lb != nil {
			out[lb.Height] = lb
			if lb.Height <= 1 {
				break
			}
			lb, err = r.Store.LightBlockBefore(lb.Height)
		}
		if err != nil && err != store.ErrLightBlockNotFound {
			rerr = err
		}
	}()
	return out, rerr
}

type runner struct {
	k     sink
	sc    *scenario
	s     *sched
	o     *oracle
	st    *recStore
	cl    *light.Client
	bad   bool // a watchdog fired: stop the scenario
	roles string
}

const callTimeout = 150 * time.Second

// guard runs fn with a generous watchdog.
func (x *runner) guard(what string, fn func()) bool {
	done := make(chan interface{}, 1)
	go func() {
		defer func() { done <- recover() }()
		fn()
	}()
	select {
	case rec := <-done:
		if rec != nil {
			x.k.Inconclusive("client panicked in " + what)
			x.k.Count("client_panics", 1)
			x.bad = true
			return false
		}
		return true
	case <-time.After(callTimeout):
		x.k.Inconclusive("watchdog: " + what + " did not return")
		x.bad = true
		if os.Getenv("C09_DEBUG") != "" {
			x.s.mu.Lock()
			fmt.Fprintf(os.Stderr, "DEBUG watchdog: %s case %d %s: pending=%d inflight=%d draining=%v holds=%v reqs=%v\n", x.sc.desc.Stream, x.sc.desc.Case, what, len(x.s.pending), x.s.inflight, x.s.draining, x.s.holds, x.s.reqs)
			n := len(x.s.log)
			for i := n - 12; i < n; i++ {
				if i >= 0 {
					fmt.Fprintln(os.Stderr, "   ", x.s.log[i].String())
				}
			}
			x.s.mu.Unlock()
			if os.Getenv("C09_DEBUG") == "2" {
				buf := make([]byte, 1<<22)
				buf = buf[:runtime.Stack(buf, true)]
				os.WriteFile(fmt.Sprintf("/var/tmp/verif/c09-stacks-%d.txt", x.sc.desc.Case), buf, 0o644)
			}
		}
		return false
	}
}

func (x *runner) provOf(p provider.Provider) *prov {
	q, _ := p.(*prov)
	return q
}

func (x *runner) rolesNow() string {
	if x.cl == nil {
		return ""
	}
	var ws []string
	for _, w := range x.cl.Witnesses() {
		ws = append(ws, fmt.Sprint(w))
	}
	return fmt.Sprintf("primary %v, witnesses %v", x.cl.Primary(), ws)
}

func (x *runner) window(s0, s1 int) []logEnt {
	x.s.mu.Lock()
	defer x.s.mu.Unlock()
	var out []logEnt
	for _, e := range x.s.log {
		if e.Seq > s0 && e.Seq < s1 {
			out = append(out, e)
		}
	}
	return out
}

func (x *runner) witness(call int, extra map[string]interface{}, s0 int) map[string]interface{} {
	x.s.mu.Lock()
	var lines, earlier []string
	for _, e := range x.s.log {
		if e.Seq >= s0 {
			lines = append(lines, e.String())
		} else {
			earlier = append(earlier, e.String())
		}
	}
	x.s.mu.Unlock()
	if len(earlier) > 80 {
		earlier = append([]string{fmt.Sprintf("… %d entries omitted …", len(earlier)-80)}, earlier[len(earlier)-80:]...)
	}
	if len(lines) > 160 {
		lines = append(append(lines[:60:60], fmt.Sprintf("… %d entries omitted …", len(lines)-120)), lines[len(lines)-60:]...)
	}
	w := map[string]interface{}{"stream": x.sc.desc.Stream, "case": x.sc.desc.Case, "scenario": x.sc.desc, "call_index": call,
		"provider_log_of_the_call": lines, "provider_log_before_the_call": earlier, "roles_before_the_call": x.roles}
	for k, v := range extra {
		w[k] = v
	}
	return w
}

func errClass(err error) string {
	var vf light.ErrVerificationFailed
	switch {
	case err == nil:
		return "ok"
	case errors.Is(err, light.ErrLightClientAttack):
		return "attack"
	case errors.Is(err, light.ErrFailedHeaderCrossReferencing):
		return "no-cross-reference"
	case errors.Is(err, light.ErrNoWitnesses):
		return "no-witnesses"
	case errors.Is(err, provider.ErrNoResponse), errors.Is(err, provider.ErrLightBlockNotFound), errors.Is(err, provider.ErrHeightTooHigh):
		return "provider-benign-error"
	case errors.As(err, &vf):
		switch vf.Reason.(type) {
		case light.ErrInvalidHeader:
			return "verification-failed:invalid-header"
		case light.ErrOldHeaderExpired:
			return "verification-failed:expired"
		case light.ErrNewValSetCantBeTrusted:
			return "verification-failed:cant-be-trusted"
		}
		return "verification-failed:other"
	}
	var exp light.ErrOldHeaderExpired
	var inv light.ErrInvalidHeader
	var cbt light.ErrNewValSetCantBeTrusted
	switch {
	case errors.As(err, &exp):
		return "expired"
	case errors.As(err, &inv):
		return "invalid-header"
	case errors.As(err, &cbt):
		return "cant-be-trusted"
	case strings.Contains(err.Error(), "does not match newHeader"):
		return "header-mismatch"
	case strings.Contains(err.Error(), "nil or single block primary trace"):
		return "empty-trace"
	}
	return "other"
}

// bApplies: can the coalition forge anything that a reference step would accept from a canonical,
// unexpired header?  (clause B's precondition)
func (x *runner) bApplies(now time.Time, before map[int64]*types.LightBlock) bool {
	ci := x.sc.ci
	for h, b := range before {
		if string(b.Hash()) != ci.hash[h] {
			return false
		}
	}
	if len(x.sc.coalition) == 0 {
		return true
	}
	p := x.sc.par
	for h := int64(1); h <= ci.n; h++ {
		if ci.time(h).Add(p.period).Before(now) {
			continue // expired: no step can start here
		}
		for _, s := range []*types.ValidatorSet{ci.sets[h], ci.sets[h+1]} {
			cp, tot := powerOf(s, x.sc.coalition)
			if atLeast(cp, tot, p.num, p.den) { // coalition reaches the trust level
				return false
			}
			if new(big.Int).Mul(cp, big.NewInt(3)).Cmp(new(big.Int).Mul(tot, big.NewInt(2))) > 0 { // more than two thirds
				return false
			}
		}
	}
	return true
}

type dCheck struct {
	applies bool
	th      int64
	t0      int64
	primary *prov
	ws      []*prov
	between bool // the target lies below the latest trusted header
}

// dPrecondition (clause D): the current primary and at least one current witness are both reliable,
// agree with the client on the common block, can both back their (different) headers at the target
// by a chain of valid adjacent steps.
func (x *runner) dPrecondition(cd callDesc, before map[int64]*types.LightBlock) dCheck {
	var d dCheck
	if x.cl == nil || len(before) == 0 {
		return d
	}
	P := x.provOf(x.cl.Primary())
	if P == nil || !P.reliable {
		return d
	}
	th := cd.Height
	if cd.Op == "update" {
		th = P.desc.Tip
	}
	if th < 1 || th > P.desc.Tip {
		return d
	}
	if _, ok := before[th]; ok {
		return d
	}
	var t0 int64
	for h := range before {
		if h < th && h > t0 {
			t0 = h
		}
	}
	if t0 == 0 {
		return d // backwards
	}
	if cd.Op == "update" {
		var last int64
		for h := range before {
			if h > last {
				last = h
			}
		}
		if th <= last {
			return d
		}
	}
	L0 := before[t0]
	pb, p0 := P.view(th), P.view(t0)
	if pb == nil || p0 == nil || string(p0.Hash()) != string(L0.Hash()) {
		return d
	}
	if cd.Op == "verify_header" && string(cd.hdr.Hash()) != string(pb.Hash()) {
		return d
	}
	// how can the primary back its header: by adjacent steps all the way, or (skipping mode) in one
	// non-adjacent step from the common block
	adjP := x.o.adjacentValid(P.view, t0, th, cd.now)
	dirP := x.sc.desc.Mode == "skipping" && x.o.stepStrict(L0, pb, cd.now)
	if !adjP && !dirP {
		return d
	}
	for _, wp := range x.cl.Witnesses() {
		W := x.provOf(wp)
		if W == nil || !W.reliable || th > W.desc.Tip {
			continue
		}
		wb, w0 := W.view(th), W.view(t0)
		if wb == nil || w0 == nil || string(w0.Hash()) != string(L0.Hash()) || string(wb.Hash()) == string(pb.Hash()) {
			continue
		}
		// both sides by adjacent steps (any bisection succeeds), or both in one direct step (no pivots at all)
		if (adjP && x.o.adjacentValid(W.view, t0, th, cd.now)) || (dirP && x.o.stepStrict(L0, wb, cd.now)) {
			d.ws = append(d.ws, W)
		}
	}
	d.applies, d.th, d.t0, d.primary = len(d.ws) > 0, th, t0, P
	for h := range before {
		if h > th {
			d.between = true
		}
	}
	return d
}

func (x *runner) run() {
	sc, d := x.sc, &x.sc.desc
	k := x.k
	k.Eval()
	x.s = newSched(len(sc.provs), time.Duration(d.DeltaUs)*time.Microsecond)
	defer x.s.close()
	for _, p := range sc.provs {
		p.s = x.s
	}
	x.o = newOracle(sc.par, sc.ci)
	for _, f := range sc.forks {
		for _, s := range f.sets {
			x.o.learnSet(s)
		}
	}
	inner := dbs.New(dbm.NewMemDB(), d.Mode)
	x.st = &recStore{Store: inner, s: x.s, saved: map[int64]*types.LightBlock{}}
	opts := []light.Option{light.Logger(log.NewNopLogger()), light.MaxClockDrift(sc.par.drift), light.MaxBlockLag(time.Millisecond)}
	if d.Mode == "sequential" {
		opts = append(opts, light.SequentialVerification())
	} else {
		opts = append(opts, light.SkippingVerification(tmmath.Fraction{Numerator: uint64(d.TrustNum), Denominator: uint64(d.TrustDen)}))
	}
	ws := make([]provider.Provider, 0, len(sc.provs)-1)
	for _, w := range sc.provs[1:] {
		ws = append(ws, w)
	}
	root := sc.ci.lbs[d.Root]
	ctx := context.Background()
	x.s.setRank(d.InitPerm)
	s0 := x.s.mark("init")
	var err error
	if d.FromStore {
		for _, h := range append([]int64{d.Root}, d.Preload...) {
			if e := inner.SaveLightBlock(cloneLB(sc.ci.lbs[h])); e != nil {
				k.HarnessError("preload: %v", e)
				return
			}
		}
		x.cl, err = light.NewClientFromTrustedStore(sc.par.chainID, sc.par.period, sc.provs[0], ws, x.st, opts...)
	} else {
		if !x.guard("NewClient", func() {
			x.cl, err = light.NewClient(ctx, sc.par.chainID, light.TrustOptions{Period: sc.par.period, Height: d.Root, Hash: root.Hash()},
				sc.provs[0], ws, x.st, opts...)
		}) {
			return
		}
	}
	x.s.drain(0)
	k.Count("init."+errClass(err), 1)
	if err != nil && errClass(err) == "other" && os.Getenv("C09_DEBUG") != "" {
		fmt.Fprintf(os.Stderr, "DEBUG init other: case %d: %v\n", d.Case, err)
	}
	snap, serr := x.st.snapshot()
	if serr != nil {
		k.HarnessError("cannot read the trusted store after init: %v", serr)
		return
	}
	if !d.FromStore {
		for h, b := range snap {
			if h != d.Root || string(b.Hash()) != string(root.Hash()) {
				k.Violation("init-stores-other-than-trust-root", fmt.Sprintf("after NewClient the store holds height %d hash %X, trust options were height %d hash %X", h, b.Hash(), d.Root, root.Hash()),
					x.witness(-1, nil, s0))
			}
		}
		if err == nil && len(snap) != 1 {
			k.Violation("init-ok-without-root", "NewClient succeeded but the trust root is not in the store", x.witness(-1, nil, s0))
		}
	}
	if err != nil || x.cl == nil {
		k.Count("scenario.init_failed", 1)
		return
	}
	nontrivial := false
	for ci := range d.Calls {
		if x.bad {
			return
		}
		if x.call(ci) {
			nontrivial = true
		}
	}
	if nontrivial {
		desc := *d
		desc.Case = 0
		if k.Distinct(fmt.Sprintf("%+v", desc)) {
			k.Count("scenario.distinct_nontrivial", 1)
		}
	}
}

// call executes client call ci and applies the oracles; returns whether the call was non-trivial.
func (x *runner) call(ci int) bool {
	sc, d, k := x.sc, &x.sc.desc, x.k
	cd := d.Calls[ci]
	before, serr := x.st.snapshot()
	if serr != nil {
		k.HarnessError("cannot read the trusted store: %v", serr)
		x.bad = true
		return false
	}
	var first, last int64
	for h := range before {
		if first == 0 || h < first {
			first = h
		}
		if h > last {
			last = h
		}
	}
	dchk := x.dPrecondition(cd, before)
	primBefore := x.provOf(x.cl.Primary())
	nWitBefore := len(x.cl.Witnesses())
	var witsBefore []*prov
	for _, w := range x.cl.Witnesses() {
		if q := x.provOf(w); q != nil {
			witsBefore = append(witsBefore, q)
		}
	}
	x.roles = x.rolesNow()
	selfWitness := false
	for _, w := range x.cl.Witnesses() {
		if x.provOf(w) == primBefore {
			selfWitness = true
		}
	}
	if selfWitness {
		k.Count("branch.primary_is_also_in_witness_list", 1)
	}
	x.s.resetCall(cd.Perm, cd.Holds)
	s0 := x.s.mark(fmt.Sprintf("call %d: %s height=%d now=+%dms", ci, cd.Op, cd.Height, cd.NowMs))
	var ret *types.LightBlock
	var err error
	ctx := context.Background()
	if !x.guard(cd.Op, func() {
		switch cd.Op {
		case "verify_at":
			ret, err = x.cl.VerifyLightBlockAtHeight(ctx, cd.Height, cd.now)
		case "update":
			ret, err = x.cl.Update(ctx, cd.now)
		case "verify_header":
			err = x.cl.VerifyHeader(ctx, cd.hdr, cd.now)
		}
	}) {
		return false
	}
	s1 := x.s.mark(fmt.Sprintf("call %d returned: %s", ci, errClass(err)))
	x.s.mu.Lock()
	th := x.s.tooHigh
	x.s.mu.Unlock()
	var extra time.Duration
	if th { // a witness goroutine may be sleeping 2*drift+lag before asking again
		extra = 2*sc.par.drift + 3*time.Millisecond
	}
	x.s.drain(extra)
	after, serr := x.st.snapshot()
	if serr != nil {
		// an unreadable entry: fall back to what the client asked the store to save
		k.Count("store.unreadable_after_call", 1)
		after = map[int64]*types.LightBlock{}
		for h, b := range before {
			after[h] = b
		}
		x.st.mu.Lock()
		for h, b := range x.st.saved {
			after[h] = b
		}
		x.st.mu.Unlock()
	}
	win := x.window(s0, s1)
	class := errClass(err)
	k.Count("call."+cd.Op, 1)
	k.Count("result."+class, 1)
	if d.Stream == "recipe-time" {
		k.Count("recipe_time.result."+class, 1)
	}
	if d.Stream == "recipe" {
		variant := "control_silent_first"
		if strings.Contains(d.Recipe, "replies last") {
			variant = "silent_last"
		}
		if err == nil {
			k.Count("recipe."+variant+".call_succeeded", 1)
		} else {
			k.Count("recipe."+variant+".call_failed:"+class, 1)
		}
	}
	allHonest := true
	for _, p := range sc.provs {
		if p.desc.Kind != "honest" {
			allHonest = false
		}
	}
	if allHonest {
		k.Count("allhonest.result."+class, 1)
	}
	if class == "other" && os.Getenv("C09_DEBUG") != "" {
		fmt.Fprintf(os.Stderr, "DEBUG other: case %d call %d %s: %v\n", d.Case, ci, cd.Op, err)
	}
	if pa := x.provOf(x.cl.Primary()); pa != primBefore {
		k.Count("branch.primary_replaced", 1)
	}
	if n := len(x.cl.Witnesses()); n < nWitBefore {
		k.Count("branch.witnesses_removed", int64(nWitBefore-n))
	}

	// what did providers do in this call
	var cands []*types.LightBlock
	nErr, nGarb, nReplies := 0, 0, 0
	provsSeen := map[int]bool{}
	for _, e := range win {
		switch e.Kind {
		case "reply":
			nReplies++
			provsSeen[e.Prov] = true
			if e.lb != nil {
				cands = append(cands, e.lb)
				if strings.HasPrefix(e.Note, "garbage") {
					nGarb++
				}
			} else {
				nErr++
			}
		}
	}
	var trusted []*types.LightBlock
	for _, b := range before {
		trusted = append(trusted, b)
	}
	sort.Slice(trusted, func(i, j int) bool { return trusted[i].Height < trusted[j].Height })

	// newly stored headers
	var fresh []*types.LightBlock
	for h, b := range after {
		if ob, ok := before[h]; !ok || string(ob.Hash()) != string(b.Hash()) {
			fresh = append(fresh, b)
		}
	}
	sort.Slice(fresh, func(i, j int) bool { return fresh[i].Height < fresh[j].Height })
	k.Count("stored_headers", int64(len(fresh)))
	bOK := x.bApplies(cd.now, before)
	if bOK && len(sc.coalition) > 0 {
		k.Count("oracleB.applicable_calls_with_forger", 1)
	}

	// A provider that was primary at some point of the call (and as such supplied the header) was demoted
	// to witness and is, at the end of the call, a witness and not the primary - while being the only
	// provider that ever returned the stored header, and having returned it at least twice (once as the
	// supplier, once as the "confirming" witness).
	demotedConfirms := func(who map[int]bool, times map[int]int) bool {
		if len(who) != 1 {
			return false
		}
		var id int
		for i := range who {
			id = i
		}
		if times[id] < 2 {
			return false
		}
		if pa := x.provOf(x.cl.Primary()); pa == nil || pa.desc.ID == id {
			return false
		}
		for _, w := range x.cl.Witnesses() {
			if q := x.provOf(w); q != nil && q.desc.ID == id {
				return true
			}
		}
		return false
	}
	for _, L := range fresh {
		h := L.Height
		hash := string(L.Hash())
		backward := first > 0 && h < first
		// (A) justification
		just := false
		if backward {
			just = x.o.backChain(trusted, cands, L) || x.o.reachable(trusted, cands, L, cd.now)
			k.Count("oracleA.backward_evaluated", 1)
		} else {
			just = x.o.reachable(trusted, cands, L, cd.now) || x.o.backChain(trusted, cands, L)
			k.Count("oracleA.forward_evaluated", 1)
		}
		canon := hash == sc.ci.hash[h]
		if !just {
			key := "stored-header-not-justified-by-any-verification-step"
			what := fmt.Sprintf("%s stored height %d hash %X (canonical: %v) but no chain of reference steps leads to it from the headers trusted before the call through the light blocks providers returned during the call (trust level %d/%d, mode %s)",
				cd.Op, h, L.Hash(), canon, d.TrustNum, d.TrustDen, d.Mode)
			if backward {
				key = "backwards-stores-header-outside-hash-chain"
				what = fmt.Sprintf("%s stored height %d hash %X (canonical: %v) below the first trusted height %d, but the header is not linked by LastBlockID hashes to any trusted header through the headers providers returned during the call",
					cd.Op, h, L.Hash(), canon, first)
			}
			if !backward && nilPadded(L) {
				// the stored block's commit carries precommits for nil; only signatures for the block count
				key = "stored-header-backed-by-nil-precommits"
				what += "; its commit carries precommits FOR NIL, and the signatures for the block alone do not give it more than two thirds of its own set or the trust level of a trusted set"
			} else if !backward && paddedCommit(L) {
				// the stored block's commit names the same validator in several for-the-block slots
				key = "stored-header-below-trust-level-padded-commit"
				what += "; its commit carries the same validator address or the same signature in several for-the-block slots, and counting every distinct validator once the reference tally stays below what a step needs"
			}
			k.Violation(key, what, x.witness(ci, map[string]interface{}{"stored_height": h, "stored_hash": fmt.Sprintf("%X", L.Hash()), "is_canonical": canon, "error_returned": fmt.Sprint(err)}, s0))
		} else if bOK {
			// (B) ground truth
			k.Count("oracleB.evaluated", 1)
			if !canon {
				k.Violation("forged-header-trusted-although-coalition-below-trust-level",
					fmt.Sprintf("%s stored height %d hash %X which is not the canonical header, although the colluding keys hold less than the trust level (and at most 2/3) of every validator set an unexpired header could vouch with", cd.Op, h, L.Hash()),
					x.witness(ci, map[string]interface{}{"stored_height": h, "stored_hash": fmt.Sprintf("%X", L.Hash())}, s0))
			}
		}
		// (C) witness clause, forward-verified headers only
		if !backward {
			k.Count("oracleC.evaluated", 1)
			who := map[int]bool{}
			times := map[int]int{}
			conflict := false
			var order []string
			for _, e := range win {
				if e.Kind != "reply" {
					continue
				}
				if e.lb != nil && e.Height == h && e.Hash == hash {
					who[e.Prov] = true
					times[e.Prov]++
				} else if e.lb != nil && (e.Height == h || e.Asked == h) {
					conflict = true // some provider answered a request about this height with a different block
				}
				if e.Asked == h || e.Height == h {
					order = append(order, e.String())
				}
			}
			if len(who) < 2 {
				// Narrow keys for the two role mix-ups that are known; anything else stays generic.
				key := "stored-without-witness-confirmation"
				only := primBefore != nil && len(who) == 1 && who[primBefore.desc.ID] && times[primBefore.desc.ID] >= 2
				switch {
				case selfWitness && only:
					// the provider that was primary when the call began was at the same time in the witness list,
					// and it alone returned the header (once as primary, once as witness)
					key = "promoted-primary-remains-its-own-witness"
				case demotedConfirms(who, times):
					// the primary that supplied the header was demoted to witness during the call and then
					// "confirmed" it; nobody else returned it
					key = "demoted-primary-confirms-its-own-header"
				case conflict:
					// some provider answered the question about this height with a different block and the header was stored anyway
					key = "detector-conflict-falls-through-as-match"
				}
				k.Violation(key, fmt.Sprintf("%s stored height %d hash %X (error returned: %v) although during the call only %d provider(s) returned that header for that height; no second, different provider confirmed it (a provider returned a different header for that height: %v; roles before the call: %s)",
					cd.Op, h, L.Hash(), err, len(who), conflict, x.roles),
					x.witness(ci, map[string]interface{}{"stored_height": h, "stored_hash": fmt.Sprintf("%X", L.Hash()), "replies_for_that_height_in_order": order, "is_canonical": canon}, s0))
			} else {
				k.Count("oracleC.confirmed_by_second_provider", 1)
			}
		}
	}

	// the block handed back to the caller is trusted too
	if err == nil && ret != nil && ret.SignedHeader != nil && ret.Header != nil {
		if b, ok := after[ret.Height]; !ok || string(b.Hash()) != string(ret.Hash()) {
			k.Violation("returned-header-not-in-trusted-store", fmt.Sprintf("%s returned height %d hash %X with err == nil but the trusted store does not hold that header", cd.Op, ret.Height, ret.Hash()),
				x.witness(ci, nil, s0))
		}
	}
	if err == nil && cd.Op == "verify_header" {
		if b, ok := after[cd.hdr.Height]; !ok || string(b.Hash()) != string(cd.hdr.Hash()) {
			k.Violation("returned-header-not-in-trusted-store", fmt.Sprintf("VerifyHeader returned nil for height %d hash %X but the trusted store does not hold that header", cd.hdr.Height, cd.hdr.Hash()),
				x.witness(ci, nil, s0))
		}
	}

	// (D) attack handling
	if dchk.applies {
		k.Count("oracleD.evaluated", 1)
		isW := map[int]bool{}
		for _, w := range dchk.ws {
			isW[w.desc.ID] = true
		}
		pid := dchk.primary.desc.ID
		// replies per provider, evidence per provider
		returned := map[int]map[string]bool{}
		otherConflict := false
		pHash := string(dchk.primary.view(dchk.th).Hash())
		for _, e := range win {
			if e.Kind == "reply" && e.lb != nil {
				if returned[e.Prov] == nil {
					returned[e.Prov] = map[string]bool{}
				}
				returned[e.Prov][fmt.Sprintf("%d/%s", e.Height, e.Hash)] = true
				if e.Prov != pid && !isW[e.Prov] && (e.Height == dchk.th || e.Asked == dchk.th) && e.Hash != pHash {
					otherConflict = true
				}
			}
		}
		bothSides := false
		for _, e := range win {
			if e.Kind != "evidence" || e.Prov == pid || e.ev == nil {
				continue
			}
			// evidence sent to witness e.Prov: its conflicting block must be one the primary returned
			if !returned[pid][fmt.Sprintf("%d/%s", e.Height, e.Hash)] {
				continue
			}
			for _, e2 := range win {
				if e2.Kind == "evidence" && e2.Prov == pid && e2.ev != nil && returned[e.Prov][fmt.Sprintf("%d/%s", e2.Height, e2.Hash)] {
					bothSides = true
				}
			}
		}
		// Which witness did the detector act on?  It stops at the first conflict it can confirm and hands that
		// witness the evidence.  The both-sides claim is made only when that witness is one whose backing the
		// precondition has established (it may be another conflicting witness - e.g. one whose trace has pivots
		// from which the primary cannot back its header - and the witnesses of the precondition may have
		// answered only after the call returned).  If no witness was handed evidence at all, the claim is made
		// only if a witness of the precondition had delivered its conflicting header before the call returned
		// and no other provider had delivered a conflicting one.
		actedOnW, actedOnOther, deliveredW := false, false, false
		for _, e := range win {
			if e.Kind == "evidence" && e.Prov != pid {
				if isW[e.Prov] {
					actedOnW = true
				} else {
					actedOnOther = true
				}
			}
			if e.Kind == "reply" && e.lb != nil && isW[e.Prov] && e.Height == dchk.th && e.Hash != pHash {
				deliveredW = true
			}
		}
		claimEvidence := actedOnW || (!actedOnOther && deliveredW && !otherConflict)
		if actedOnW && !actedOnOther {
			// restrict the pairing to the witnesses of the precondition
			bothSides = false
			for _, e := range win {
				if e.Kind != "evidence" || !isW[e.Prov] || e.ev == nil || !returned[pid][fmt.Sprintf("%d/%s", e.Height, e.Hash)] {
					continue
				}
				for _, e2 := range win {
					if e2.Kind == "evidence" && e2.Prov == pid && e2.ev != nil && returned[e.Prov][fmt.Sprintf("%d/%s", e2.Height, e2.Hash)] {
						bothSides = true
					}
				}
			}
		}
		if !claimEvidence {
			k.Count("oracleD.evidence_claim_not_made_other_witness_acted_on_or_reply_after_return", 1)
			bothSides = true
		}
		var problems []string
		if !errors.Is(err, light.ErrLightClientAttack) {
			problems = append(problems, fmt.Sprintf("the call returned %q instead of the attack error", fmt.Sprint(err)))
		}
		if len(fresh) > 0 {
			problems = append(problems, fmt.Sprintf("%d header(s) were stored", len(fresh)))
		}
		if errors.Is(err, light.ErrLightClientAttack) && !bothSides {
			problems = append(problems, "evidence naming the other side's block was not sent to both the primary and the conflicting witness")
		}
		// a witness that can back its header must still be a witness afterwards
		dropped := false
		still := map[int]bool{}
		for _, w := range x.cl.Witnesses() {
			if q := x.provOf(w); q != nil {
				still[q.desc.ID] = true
			}
		}
		for _, w := range dchk.ws {
			if !still[w.desc.ID] {
				dropped = true
				problems = append(problems, fmt.Sprintf("witness p%d, which can back its header, is no longer in the witness list", w.desc.ID))
			}
		}
		if dchk.between {
			k.Count("oracleD.evaluated_target_below_latest_trusted", 1)
		}
		if len(problems) > 0 {
			key := "verifiable-conflicting-witness-not-handled-as-attack"
			if errors.Is(err, light.ErrLightClientAttack) && len(fresh) == 0 && !bothSides {
				key = "attack-evidence-not-sent-to-both-sides"
			} else if errors.Is(err, light.ErrLightClientAttack) && len(fresh) == 0 && dropped {
				key = "honest-witness-dropped-after-backable-conflict"
			} else if otherConflict {
				key = "detector-conflict-falls-through-as-match"
			} else if dchk.between {
				key = "conflict-below-latest-trusted-not-reported"
			}
			var wids []int
			for _, w := range dchk.ws {
				wids = append(wids, w.desc.ID)
			}
			k.Violation(key, fmt.Sprintf("%s height %d: primary p%d and witness(es) %v serve different headers and each can back its header by valid adjacent steps from the common trusted height %d, yet %s",
				cd.Op, dchk.th, pid, wids, dchk.t0, strings.Join(problems, "; ")), x.witness(ci, map[string]interface{}{"error_returned": fmt.Sprint(err)}, s0))
		} else {
			k.Count("oracleD.attack_reported_with_evidence_both_sides", 1)
		}
	}

	// (D'') evidence is built from traces the client has verified: every block a report names as
	// conflicting must itself be reachable by reference steps (a lying witness whose header cannot be
	// backed must not end up as the subject or the basis of an attack report)
	for _, e := range win {
		if e.Kind != "evidence" || e.lb == nil {
			continue
		}
		k.Count("oracleDev.evidence_blocks_evaluated", 1)
		if !x.o.reachable(trusted, cands, e.lb, cd.now) {
			key := "evidence-names-unverifiable-conflicting-block"
			if nilPadded(e.lb) {
				key = "attack-reported-on-nil-padded-header"
			} else if paddedCommit(e.lb) {
				key = "attack-reported-on-padded-commit-header"
			}
			k.Violation(key, fmt.Sprintf("%s: evidence handed to p%d names height %d hash %X as the conflicting block, but no chain of reference steps leads to that block from the headers trusted before the call through the light blocks providers returned during the call (the call returned %q)",
				cd.Op, e.Prov, e.Height, []byte(e.Hash), fmt.Sprint(err)), x.witness(ci, map[string]interface{}{"error_returned": fmt.Sprint(err)}, s0))
			break
		}
	}
	if d.Stream == "recipe-mid" {
		last := ci == len(d.Calls)-1
		if last {
			k.Count("recipe_mid."+strings.SplitN(d.Recipe, ":", 2)[0]+"."+class, 1)
			k.Count("recipe_mid.stored_at_target", int64(len(fresh)))
		} else {
			k.Count("recipe_mid.setup_call."+class, 1)
		}
	}
	if d.Stream == "recipe-nil" {
		k.Count(fmt.Sprintf("recipe_nil.delivery%d.%s", d.Case%4, class), 1)
		if len(sc.forks) > 0 && strings.Contains(sc.forks[0].desc.Kind, "adversary-made") {
			k.Count("recipe_nil.own_set_adversary_made", 1)
		} else {
			k.Count("recipe_nil.own_set_genuine", 1)
		}
		k.Count("recipe_nil.stored_headers", int64(len(fresh)))
		for _, e := range win {
			if e.Kind == "reply" && e.lb != nil && nilPadded(e.lb) {
				k.Count("recipe_nil.nil_padded_blocks_served", 1)
			}
		}
	}
	if d.Stream == "recipe-pad" {
		k.Count(fmt.Sprintf("recipe_pad.delivery%d.%s", d.Case%4, class), 1)
		k.Count("recipe_pad.stored_headers", int64(len(fresh)))
		for _, e := range win {
			if e.Kind == "reply" && e.lb != nil && paddedCommit(e.lb) {
				k.Count("recipe_pad.padded_blocks_served", 1)
			}
		}
	}

	// (D') forward lunatic: an honest witness that is BEHIND the primary's header presented, during the
	// call, a block at a lower height whose time is not before the time of the primary's header, and can
	// back that block from the common trusted block.  Block time strictly increases with height, so this
	// contradicts the primary's header: attack error, nothing stored, evidence naming the primary's block
	// handed to a witness.  (The primary cannot be shown a conflicting block of its own height here, so
	// evidence to the primary is not demanded.)  The precondition is read off the provider log.
	x.fwdLunatic(ci, cd, before, win, fresh, err, primBefore, witsBefore, s0)

	// (E) bookkeeping: misbehaving witnesses and nothing stored
	misbehaved := nErr > 0 || nGarb > 0
	if misbehaved && len(fresh) == 0 {
		k.Count("oracleE.faulty_replies_and_nothing_stored", 1)
	}
	if misbehaved && len(fresh) > 0 {
		k.Count("oracleE.faulty_replies_and_header_stored_with_confirmation", 1)
	}
	if len(provsSeen) >= 3 {
		var ord []int
		seen := map[int]bool{}
		for _, e := range win {
			if e.Kind == "reply" && e.Prov != 0 && !seen[e.Prov] && (e.Asked == cd.Height || cd.Op == "update") {
				seen[e.Prov] = true
				ord = append(ord, e.Prov)
			}
		}
		if len(ord) >= 2 && k.Distinct("order", len(sc.provs), fmt.Sprint(ord)) {
			k.Count("witness_reply_orders_distinct", 1)
		}
	}
	if k.WantSample() && (len(fresh) > 0 || class == "attack") && nReplies > 2 && d.Case%37 == 0 {
		k.Sample(x.witness(ci, map[string]interface{}{"result": class, "stored": len(fresh)}, s0))
	}
	return nReplies > 0 && (misbehaved || len(provsSeen) >= 2 || len(fresh) > 0)
}

func (x *runner) fwdLunatic(ci int, cd callDesc, before map[int64]*types.LightBlock, win []logEnt, fresh []*types.LightBlock,
	err error, P *prov, wits []*prov, s0 int) {
	k, sc := x.k, x.sc
	if P == nil || !P.reliable || x.provOf(x.cl.Primary()) != P {
		return
	}
	th := cd.Height
	if cd.Op == "update" {
		th = P.desc.Tip
	}
	if th < 1 || th > P.desc.Tip {
		return
	}
	if _, ok := before[th]; ok {
		return
	}
	var t0 int64
	for h := range before {
		if h < th && h > t0 {
			t0 = h
		}
	}
	pb := P.view(th)
	if t0 == 0 || pb == nil {
		return
	}
	L0 := before[t0]
	tf := pb.Time
	for _, W := range wits {
		if W.desc.Kind != "lagging" || len(W.desc.Rules) > 0 || W.desc.Low > 1 {
			continue
		}
		w0 := W.view(t0)
		if w0 == nil || string(w0.Hash()) != string(L0.Hash()) {
			continue
		}
		// what the witness did in this call: "too high" for the target, then its latest block(s)
		sawTooHigh := false
		var heads []logEnt
		for _, e := range win {
			if e.Kind != "reply" || e.Prov != W.desc.ID {
				continue
			}
			if e.Asked == th && e.lb == nil && e.Err == provider.ErrHeightTooHigh.Error() {
				sawTooHigh = true
			}
			if sawTooHigh && e.Asked == 0 && e.lb != nil {
				heads = append(heads, e)
			}
		}
		if len(heads) == 0 {
			continue
		}
		var proof *logEnt
		switch {
		case heads[0].Height >= th:
		case !heads[0].lb.Time.Before(tf):
			proof = &heads[0]
		case len(heads) > 1 && heads[1].Height < th && !heads[1].lb.Time.Before(tf):
			proof = &heads[1]
		}
		rel := "behind(head time before the forged time)"
		if proof != nil {
			rel = "contradicts(head time after the forged time)"
			if proof.lb.Time.Equal(tf) {
				rel = "contradicts(head time equal to the forged time)"
			}
		}
		k.Count("fwdlunatic."+rel+"."+errClass(err), 1)
		if proof == nil || proof.Height <= t0 || !x.o.adjacentValid(W.view, t0, proof.Height, cd.now) {
			continue
		}
		k.Count("oracleDfwd.evaluated", 1)
		returnedByP := map[string]bool{}
		for _, e := range win {
			if e.Kind == "reply" && e.Prov == P.desc.ID && e.lb != nil && e.Height > proof.Height {
				returnedByP[fmt.Sprintf("%d/%s", e.Height, e.Hash)] = true
			}
		}
		evOK := false
		for _, e := range win {
			if e.Kind == "evidence" && e.Prov != P.desc.ID && e.ev != nil && returnedByP[fmt.Sprintf("%d/%s", e.Height, e.Hash)] {
				evOK = true
			}
		}
		var problems []string
		if !errors.Is(err, light.ErrLightClientAttack) {
			problems = append(problems, fmt.Sprintf("the call returned %q instead of the attack error", fmt.Sprint(err)))
		}
		if len(fresh) > 0 {
			problems = append(problems, fmt.Sprintf("%d header(s) were stored", len(fresh)))
		}
		if !evOK {
			problems = append(problems, "no witness was handed evidence naming the primary's block")
		}
		if len(problems) == 0 {
			k.Count("oracleDfwd.attack_reported_with_evidence", 1)
			continue
		}
		k.Violation("forward-lunatic-contradicting-witness-not-handled-as-attack",
			fmt.Sprintf("%s: primary p%d's header at height %d has time %s; honest witness p%d, whose chain ends below that height, returned its block at height %d with time %s (not before it) and can back that block by valid adjacent steps from the common trusted height %d - a lower block that is not older contradicts the primary's header - yet %s",
				cd.Op, P.desc.ID, th, tf.Format(time.RFC3339Nano), W.desc.ID, proof.Height, proof.lb.Time.Format(time.RFC3339Nano), t0, strings.Join(problems, "; ")),
			x.witness(ci, map[string]interface{}{"error_returned": fmt.Sprint(err), "stored": len(fresh), "trust_level": fmt.Sprintf("%d/%d", sc.desc.TrustNum, sc.desc.TrustDen)}, s0))
		return
	}
}

// paddedCommit: does the block's commit carry the same validator address, or the same signature bytes,
// in more than one for-the-block slot?
func paddedCommit(lb *types.LightBlock) bool {
	if lb == nil || lb.SignedHeader == nil || lb.Commit == nil {
		return false
	}
	addr, sig := map[string]bool{}, map[string]bool{}
	for _, s := range lb.Commit.Signatures {
		if s.BlockIDFlag != types.BlockIDFlagCommit {
			continue
		}
		if addr[string(s.ValidatorAddress)] || sig[string(s.Signature)] {
			return true
		}
		addr[string(s.ValidatorAddress)], sig[string(s.Signature)] = true, true
	}
	return false
}

// nilPadded: does the block's commit carry at least one precommit flagged "for nil"?
func nilPadded(lb *types.LightBlock) bool {
	if lb == nil || lb.SignedHeader == nil || lb.Commit == nil {
		return false
	}
	for _, s := range lb.Commit.Signatures {
		if s.BlockIDFlag == types.BlockIDFlagNil {
			return true
		}
	}
	return false
}
