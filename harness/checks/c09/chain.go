package c09

import (
	"fmt"
	"math/big"
	"math/rand"
	"sort"
	"sync"
	"time"

	"github.com/tendermint/tendermint/crypto/ed25519"
	tmproto "github.com/tendermint/tendermint/proto/tendermint/types"
	"github.com/tendermint/tendermint/types"

	"verif/chaingen"
	"verif/ref"
)

// chainInfo is one canonical chain of the pool.  Everything in it is read-only
// after construction; light blocks handed to the client are always deep copies.
type chainInfo struct {
	idx      int
	ch       *chaingen.Chain
	n        int64 // heights 1..n
	churn    int   // percent of the set replaced per height
	nvals    int
	interval time.Duration
	lbs      map[int64]*types.LightBlock   // pristine canonical light blocks
	hash     map[int64]string              // canonical header hash per height
	sets     map[int64]*types.ValidatorSet // Validators(h), h = 1..n+1
	cache    *ref.SigCache                 // signatures of canonical commits only
	canon    map[string]bool               // hashes of canonical commits' block ids (for cache routing)
}

func (ci *chainInfo) time(h int64) time.Time { return ci.lbs[h].Time }

// genChain builds chain i of the pool from its own PRNG.
func genChain(r *rand.Rand, idx int, thorough bool) *chainInfo {
	lens := []int64{20, 30, 45, 60, 90, 130, 200}
	churns := []int{0, 0, 5, 10, 25, 50, 100}
	n := lens[idx%len(lens)]
	churn := churns[(idx/2+idx)%len(churns)]
	if idx < len(churns) {
		churn = churns[idx]
	}
	nv := 4 + r.Intn(7)
	powers := make([]int64, nv)
	equal := r.Intn(3) == 0
	for i := range powers {
		powers[i] = 1 + r.Int63n(100)
		if equal {
			powers[i] = 10
		}
	}
	interval := time.Second
	ch := chaingen.New(chaingen.Options{ChainID: fmt.Sprintf("c09-chain-%d", idx), Seed: r.Int63(), Powers: powers,
		BlockInterval: interval, NoBlockStore: true})
	ci := &chainInfo{idx: idx, ch: ch, n: n, churn: churn, nvals: nv, interval: interval,
		lbs: map[int64]*types.LightBlock{}, hash: map[int64]string{}, sets: map[int64]*types.ValidatorSet{},
		cache: ref.NewSigCache(), canon: map[string]bool{}}
	for h := int64(1); h <= n; h++ {
		var txs []types.Tx
		txs = append(txs, types.Tx(fmt.Sprintf("k%d=v%d", h, r.Intn(1000))))
		// churn: act on the set that will be in force at h+2 (State.NextValidators after h-1)
		cur := ch.State.NextValidators
		if churn > 0 {
			k := cur.Size() * churn / 100
			if k == 0 && r.Intn(100) < churn*cur.Size() {
				k = 1
			}
			perm := r.Perm(cur.Size())
			for j := 0; j < k; j++ {
				v := cur.Validators[perm[j]]
				pv := ch.Keys[string(v.Address)]
				txs = append(txs, chaingen.ValTx(pv.PrivKey.(ed25519.PrivKey), 0))
				nk := ch.NewKey()
				p := 1 + r.Int63n(100)
				if equal {
					p = 10
				}
				txs = append(txs, chaingen.ValTx(nk, p))
			}
			if r.Intn(4) == 0 && k < cur.Size() && !equal { // a power change on a survivor
				v := cur.Validators[perm[cur.Size()-1]]
				pv := ch.Keys[string(v.Address)]
				txs = append(txs, chaingen.ValTx(pv.PrivKey.(ed25519.PrivKey), 1+r.Int63n(100)))
			}
		}
		plan := chaingen.StepPlan{Txs: txs}
		// some validators miss the commit (always keeping > 2/3)
		if r.Intn(3) == 0 {
			vals := ch.State.Validators
			tot := vals.TotalVotingPower()
			absent := map[int]bool{}
			var ap int64
			for _, i := range r.Perm(vals.Size()) {
				p := vals.Validators[i].VotingPower
				if (ap+p)*3 < tot && r.Intn(2) == 0 {
					absent[i] = true
					ap += p
				}
			}
			plan.Flag = func(i int, _ *types.Validator) types.BlockIDFlag {
				if absent[i] {
					return types.BlockIDFlagAbsent
				}
				return types.BlockIDFlagCommit
			}
		}
		ch.MustStep(plan)
	}
	for h := int64(1); h <= n; h++ {
		lb := ch.LightBlock(h)
		lb.ValidatorSet.TotalVotingPower()
		ci.lbs[h] = lb
		ci.hash[h] = string(lb.Hash())
		ci.sets[h] = lb.ValidatorSet
		ci.canon[string(lb.Commit.BlockID.Hash)] = true
	}
	last := ch.Hist[n].StateAfter.Validators.Copy()
	last.TotalVotingPower()
	ci.sets[n+1] = last
	ch.Close()
	return ci
}

// ---------------------------------------------------------------- deep copies

func cloneVals(vs *types.ValidatorSet) *types.ValidatorSet {
	if vs == nil {
		return nil
	}
	return vs.Copy()
}

func cloneCommit(c *types.Commit) *types.Commit {
	if c == nil {
		return nil
	}
	sigs := make([]types.CommitSig, len(c.Signatures))
	copy(sigs, c.Signatures)
	return types.NewCommit(c.Height, c.Round, c.BlockID, sigs)
}

// cloneLB: a structurally independent copy (byte slices inside are shared and never written).
func cloneLB(lb *types.LightBlock) *types.LightBlock {
	if lb == nil {
		return nil
	}
	out := &types.LightBlock{ValidatorSet: cloneVals(lb.ValidatorSet)}
	if lb.SignedHeader != nil {
		sh := &types.SignedHeader{Commit: cloneCommit(lb.Commit)}
		if lb.Header != nil {
			h := *lb.Header
			sh.Header = &h
		}
		out.SignedHeader = sh
	}
	return out
}

// ---------------------------------------------------------------- forks

type forkDesc struct {
	Kind      string  `json:"kind"` // equivocation | lunatic | lunatic-next | amnesia
	From      int64   `json:"from"`
	To        int64   `json:"to"`
	Class     string  `json:"coalition_class"`
	Coalition int     `json:"coalition_keys"`
	PhiFrom   string  `json:"coalition_power_at_from"`
	Heights   []int64 `json:"forged_heights,omitempty"`
}

type fork struct {
	early  *time.Time // if set, every forged header carries a time at or before this instant (time must not run backwards)
	desc   forkDesc
	mu     sync.Mutex
	blocks map[int64]*types.LightBlock        // signed on first use
	plan   map[int64]func() *types.LightBlock // how to sign the forged block of a height
	hdrs   map[int64]*types.Header            // forged headers (fixed at construction)
	sets   []*types.ValidatorSet              // invented sets
}

func powerOf(vals *types.ValidatorSet, coalition map[string]bool) (cp, tot *big.Int) {
	cp, tot = new(big.Int), new(big.Int)
	for _, v := range vals.Validators {
		tot.Add(tot, big.NewInt(v.VotingPower))
		if coalition[string(v.Address)] {
			cp.Add(cp, big.NewInt(v.VotingPower))
		}
	}
	return
}

// pickCoalition chooses colluding keys by class relative to the sets in [lo,hi]:
// low: < 1/3 of set(lo); mid: >= 1/3 and <= 2/3 of set(lo) where possible; high: > 2/3 of every set in [lo,hi+1].
func pickCoalition(r *rand.Rand, ci *chainInfo, class string, lo, hi int64) map[string]bool {
	co := map[string]bool{}
	base := ci.sets[lo]
	tot := base.TotalVotingPower()
	var acc int64
	switch class {
	case "none":
	case "low":
		for _, i := range r.Perm(base.Size()) {
			v := base.Validators[i]
			if (acc+v.VotingPower)*3 < tot {
				co[string(v.Address)] = true
				acc += v.VotingPower
			}
		}
	case "mid":
		for _, i := range r.Perm(base.Size()) {
			v := base.Validators[i]
			if (acc+v.VotingPower)*3 <= 2*tot {
				co[string(v.Address)] = true
				acc += v.VotingPower
				if acc*3 >= tot && r.Intn(2) == 0 {
					break
				}
			}
		}
	case "high":
		for h := lo; h <= hi+1 && h <= ci.n+1; h++ {
			s := ci.sets[h]
			t := s.TotalVotingPower()
			var a int64
			for _, v := range s.Validators {
				if co[string(v.Address)] {
					a += v.VotingPower
				}
			}
			for _, i := range r.Perm(s.Size()) {
				if a*3 > 2*t && r.Intn(3) != 0 {
					break
				}
				v := s.Validators[i]
				if !co[string(v.Address)] {
					co[string(v.Address)] = true
					a += v.VotingPower
				}
			}
			if a*3 <= 2*t { // make sure
				for _, v := range s.Validators {
					co[string(v.Address)] = true
				}
			}
		}
	}
	return co
}

func randHash(r *rand.Rand) []byte {
	b := make([]byte, 32)
	r.Read(b)
	return b
}

// buildFork forges light blocks for heights from..to (or only `only` heights if given),
// signed by the coalition.  Later forged headers chain to earlier ones through LastBlockID.
func buildFork(r *rand.Rand, ci *chainInfo, kind string, from, to int64, coalition map[string]bool, class string, only map[int64]bool) *fork {
	return buildForkT(r, ci, kind, from, to, coalition, class, only, nil)
}

func buildForkT(r *rand.Rand, ci *chainInfo, kind string, from, to int64, coalition map[string]bool, class string, only map[int64]bool, early *time.Time) *fork {
	f := &fork{blocks: map[int64]*types.LightBlock{}, plan: map[int64]func() *types.LightBlock{}, hdrs: map[int64]*types.Header{}, early: early}
	cp, tot := powerOf(ci.sets[from], coalition)
	f.desc = forkDesc{Kind: kind, From: from, To: to, Class: class, Coalition: len(coalition), PhiFrom: cp.String() + "/" + tot.String()}
	if early != nil {
		f.desc.Kind += " with header times not after the trust root's"
	}
	ch := ci.ch
	// invented set for lunatic forks: the coalition's keys with fresh powers
	var invented *types.ValidatorSet
	if kind == "lunatic" || kind == "lunatic-next" {
		var vs []*types.Validator
		addrs := make([]string, 0, len(coalition))
		for a := range coalition {
			addrs = append(addrs, a)
		}
		sort.Strings(addrs)
		for _, a := range addrs {
			pv := ch.Keys[a]
			vs = append(vs, types.NewValidator(pv.PrivKey.PubKey(), 1+r.Int63n(50)))
		}
		var extra map[string]types.MockPV
		if len(vs) == 0 { // nobody colludes: invent a set from a fresh, never-bonded key
			k := chaingen.Key(int64(ci.idx)*7919+from, 900000+int(from))
			vs = append(vs, types.NewValidator(k.PubKey(), 10))
			extra = map[string]types.MockPV{string(k.PubKey().Address()): types.NewMockPVWithParams(k, false, false)}
		}
		invented = types.NewValidatorSet(vs)
		invented.TotalVotingPower()
		f.sets = append(f.sets, invented)
		return buildForkWith(r, ci, f, kind, from, to, coalition, only, invented, extra)
	}
	return buildForkWith(r, ci, f, kind, from, to, coalition, only, nil, nil)
}

func buildForkWith(r *rand.Rand, ci *chainInfo, f *fork, kind string, from, to int64, coalition map[string]bool,
	only map[int64]bool, invented *types.ValidatorSet, extraKeys map[string]types.MockPV) *fork {
	ch := ci.ch
	var prevID *types.BlockID
	for h := from; h <= to; h++ {
		if only != nil && !only[h] {
			prevID = nil
			continue
		}
		canon := ci.lbs[h]
		hdr := *canon.Header
		vals := ci.sets[h]
		round := canon.Commit.Round
		if prevID != nil {
			hdr.LastBlockID = *prevID
		}
		switch kind {
		case "equivocation":
			hdr.DataHash = randHash(r)
			if r.Intn(2) == 0 {
				hdr.Time = hdr.Time.Add(time.Duration(1+r.Intn(400)) * time.Millisecond)
			}
		case "amnesia":
			hdr.DataHash = randHash(r)
			round = canon.Commit.Round + 1 + int32(r.Intn(3))
		case "lunatic":
			hdr.AppHash = randHash(r)
			hdr.ValidatorsHash = invented.Hash()
			hdr.NextValidatorsHash = invented.Hash()
			vals = invented
		case "lunatic-next":
			hdr.AppHash = randHash(r)
			hdr.NextValidatorsHash = invented.Hash()
			if h > from {
				hdr.ValidatorsHash = invented.Hash()
				vals = invented
			}
		default:
			panic("unknown fork kind " + kind)
		}
		if f.early != nil {
			// forged times increase with height among themselves but never pass the given instant
			hdr.Time = f.early.Add(-time.Duration(to-h) * time.Millisecond)
		}
		bid := types.BlockID{Hash: hdr.Hash(), PartSetHeader: types.PartSetHeader{Total: 1, Hash: randHash(r)}}
		// the header (and so the whole hash chain of the forgery) is fixed now; the commit is signed on first use
		hc := hdr
		hh, rnd, vs, id := h, round, vals, bid
		isInvented := vals == invented
		f.plan[h] = func() *types.LightBlock {
			sigs := make([]types.CommitSig, vs.Size())
			for i, v := range vs.Validators {
				pv, ok := extraKeys[string(v.Address)]
				if !ok && (isInvented || coalition[string(v.Address)]) {
					pv, ok = ch.Keys[string(v.Address)]
				}
				if !ok {
					sigs[i] = types.NewCommitSigAbsent()
					continue
				}
				vote := &types.Vote{Type: tmproto.PrecommitType, Height: hh, Round: rnd, BlockID: id,
					Timestamp: hc.Time.Add(time.Duration(500+i) * time.Millisecond), ValidatorAddress: v.Address, ValidatorIndex: int32(i)}
				pb := vote.ToProto()
				if err := pv.SignVote(ci.ch.ChainID, pb); err != nil {
					panic(err)
				}
				vote.Signature = pb.Signature
				sigs[i] = vote.CommitSig()
			}
			hdrCopy := hc
			lb := &types.LightBlock{SignedHeader: &types.SignedHeader{Header: &hdrCopy, Commit: types.NewCommit(hh, rnd, id, sigs)}, ValidatorSet: vs.Copy()}
			lb.ValidatorSet.TotalVotingPower()
			return lb
		}
		f.hdrs[h] = &hc
		f.desc.Heights = append(f.desc.Heights, h)
		b := bid
		prevID = &b
	}
	if len(f.desc.Heights) > 12 {
		f.desc.Heights = append(f.desc.Heights[:6:6], f.desc.Heights[len(f.desc.Heights)-3:]...)
	}
	return f
}

// get returns the forged light block of height h (nil if the fork has none), signing it on first use.
func (f *fork) get(h int64) *types.LightBlock {
	f.mu.Lock()
	defer f.mu.Unlock()
	if b, ok := f.blocks[h]; ok {
		return b
	}
	mk, ok := f.plan[h]
	if !ok {
		return nil
	}
	b := mk()
	f.blocks[h] = b
	return b
}

// view functions -------------------------------------------------------------

type viewFn func(h int64) *types.LightBlock

func (ci *chainInfo) canonView() viewFn { return func(h int64) *types.LightBlock { return ci.lbs[h] } }

func (ci *chainInfo) forkView(f *fork) viewFn {
	return func(h int64) *types.LightBlock {
		if b := f.get(h); b != nil {
			return b
		}
		return ci.lbs[h]
	}
}
