package c09

import (
	"context"
	"encoding/hex"
	"errors"
	"fmt"
	"math/rand"
	"sync"
	"time"

	"github.com/tendermint/tendermint/light/provider"
	"github.com/tendermint/tendermint/types"
)

// ---------------------------------------------------------------- history at the provider boundary

type logEnt struct {
	Seq    int
	Kind   string // reply | evidence | mark | save | delete
	Prov   int
	Asked  int64
	Height int64
	Hash   string // raw bytes
	Err    string
	Note   string
	lb     *types.LightBlock // private copy of what was returned / saved
	ev     *types.LightClientAttackEvidence
}

func (e logEnt) String() string {
	switch e.Kind {
	case "reply":
		if e.Err != "" {
			return fmt.Sprintf("#%d p%d LightBlock(%d) -> error %q", e.Seq, e.Prov, e.Asked, e.Err)
		}
		return fmt.Sprintf("#%d p%d LightBlock(%d) -> h=%d hash=%s %s", e.Seq, e.Prov, e.Asked, e.Height, short(e.Hash), e.Note)
	case "evidence":
		return fmt.Sprintf("#%d p%d ReportEvidence(conflicting h=%d hash=%s %s)", e.Seq, e.Prov, e.Height, short(e.Hash), e.Note)
	case "save":
		return fmt.Sprintf("#%d store.Save(h=%d hash=%s)", e.Seq, e.Height, short(e.Hash))
	case "delete":
		return fmt.Sprintf("#%d store.Delete/Prune(%d)", e.Seq, e.Height)
	default:
		return fmt.Sprintf("#%d -- %s", e.Seq, e.Note)
	}
}

func short(h string) string {
	s := hex.EncodeToString([]byte(h))
	if len(s) > 12 {
		return s[:12]
	}
	return s
}

// ---------------------------------------------------------------- release gates

type gateEnt struct {
	prov     int
	asked    int64
	arr      int
	ch       chan struct{}
	done     chan struct{}
	released bool
}

// sched owns the provider log and the release gates of one scenario.
type sched struct {
	mu       sync.Mutex
	seq      int
	log      []logEnt
	pending  []*gateEnt
	arrivals int
	inflight int
	rank     []int // rank[provider id]; lowest pending rank is released first
	delta    time.Duration
	draining bool
	wake     chan struct{}
	stop     chan struct{}
	stopped  chan struct{}
	tooHigh  bool         // some provider answered ErrHeightTooHigh in the current call
	reqs     []int        // requests received per provider since the last resetCall
	holds    map[int]hold // provider id -> hold condition for its gated replies
	lastAct  time.Time    // last arrival or finished reply (wall clock; steers the schedule only, never an oracle)
}

// hold: replies of a provider stay gated until provider Other has received at least N requests in
// this call, or nothing has happened at the provider boundary for Quiet.
type hold struct {
	Other int           `json:"until_provider"`
	N     int           `json:"has_received_requests"`
	Quiet time.Duration `json:"or_quiet_for_ns"`
}

func newSched(nprov int, delta time.Duration) *sched {
	s := &sched{rank: make([]int, nprov), reqs: make([]int, nprov), holds: map[int]hold{}, lastAct: time.Now(), delta: delta, wake: make(chan struct{}, 1), stop: make(chan struct{}), stopped: make(chan struct{})}
	go s.loop()
	return s
}

func (s *sched) add(e logEnt) int {
	s.mu.Lock()
	s.seq++
	e.Seq = s.seq
	s.log = append(s.log, e)
	n := s.seq
	s.mu.Unlock()
	return n
}

func (s *sched) mark(note string) int { return s.add(logEnt{Kind: "mark", Note: note}) }

func (s *sched) setRank(perm []int) {
	s.mu.Lock()
	for i := range s.rank {
		s.rank[i] = len(perm) + i
	}
	for pos, id := range perm {
		if id < len(s.rank) {
			s.rank[id] = pos
		}
	}
	s.mu.Unlock()
}

// resetCall starts a new client call: priorities, hold conditions, request counters.
func (s *sched) resetCall(perm []int, holds map[int]hold) {
	s.setRank(perm)
	s.mu.Lock()
	for i := range s.reqs {
		s.reqs[i] = 0
	}
	s.holds = holds
	if s.holds == nil {
		s.holds = map[int]hold{}
	}
	s.tooHigh = false
	s.mu.Unlock()
}

func (s *sched) kick() {
	select {
	case s.wake <- struct{}{}:
	default:
	}
}

// arrive registers a request and blocks until the scheduler releases it or ctx ends.
func (s *sched) arrive(ctx context.Context, prov int, asked int64) (*gateEnt, error) {
	e := &gateEnt{prov: prov, asked: asked, ch: make(chan struct{}), done: make(chan struct{})}
	s.mu.Lock()
	s.arrivals++
	e.arr = s.arrivals
	s.pending = append(s.pending, e)
	if prov < len(s.reqs) {
		s.reqs[prov]++
	}
	s.lastAct = time.Now()
	s.mu.Unlock()
	s.kick()
	select {
	case <-e.ch:
		return e, nil
	case <-ctx.Done():
		s.mu.Lock()
		for i, p := range s.pending {
			if p == e {
				s.pending = append(s.pending[:i], s.pending[i+1:]...)
				break
			}
		}
		s.mu.Unlock()
		return e, ctx.Err()
	}
}

func (s *sched) finish(e *gateEnt) {
	s.mu.Lock()
	if e.released {
		s.inflight--
	}
	s.lastAct = time.Now()
	s.mu.Unlock()
	close(e.done)
}

func (s *sched) settle() {
	for {
		s.mu.Lock()
		a := s.arrivals
		s.mu.Unlock()
		time.Sleep(s.delta)
		s.mu.Lock()
		b, dr := s.arrivals, s.draining
		s.mu.Unlock()
		if a == b || dr {
			return
		}
	}
}

func (s *sched) loop() {
	defer close(s.stopped)
	for {
		select {
		case <-s.stop:
			return
		case <-s.wake:
		}
		for {
			s.mu.Lock()
			n, dr := len(s.pending), s.draining
			s.mu.Unlock()
			if n == 0 {
				break
			}
			if !dr {
				s.settle()
			}
			s.mu.Lock()
			if len(s.pending) == 0 {
				s.mu.Unlock()
				continue
			}
			best := -1
			var wait time.Duration
			for i, p := range s.pending {
				if h, ok := s.holds[p.prov]; ok && !s.draining && h.Other < len(s.reqs) && s.reqs[h.Other] < h.N {
					if q := h.Quiet - time.Since(s.lastAct); q > 0 { // still held
						if wait == 0 || q < wait {
							wait = q
						}
						continue
					}
				}
				if best < 0 {
					best = i
					continue
				}
				b := s.pending[best]
				if s.rank[p.prov] < s.rank[b.prov] || (s.rank[p.prov] == s.rank[b.prov] && p.arr < b.arr) {
					best = i
				}
			}
			if best < 0 { // everything pending is held: wait for an arrival or for the quiet period to pass
				s.mu.Unlock()
				if wait > 2*time.Millisecond {
					wait = 2 * time.Millisecond
				}
				time.Sleep(wait)
				continue
			}
			e := s.pending[best]
			s.pending = append(s.pending[:best], s.pending[best+1:]...)
			e.released = true
			s.inflight++
			s.mu.Unlock()
			close(e.ch)
			select {
			case <-e.done:
			case <-s.stop:
				return
			}
		}
	}
}

// drain releases everything still gated (used after a client call returned) and waits for quiescence.
func (s *sched) drain(extra time.Duration) {
	s.mu.Lock()
	s.draining = true
	s.mu.Unlock()
	deadline := time.Now().Add(5 * time.Second)
	quiet := 0
	for quiet < 2 && time.Now().Before(deadline) {
		s.kick()
		time.Sleep(s.delta)
		s.mu.Lock()
		idle := len(s.pending) == 0 && s.inflight == 0
		s.mu.Unlock()
		if idle {
			quiet++
			if quiet == 1 && extra > 0 {
				time.Sleep(extra)
			}
		} else {
			quiet = 0
		}
	}
	s.mu.Lock()
	s.draining = false
	s.mu.Unlock()
}

func (s *sched) close() {
	s.mu.Lock()
	s.draining = true
	s.mu.Unlock()
	close(s.stop)
	<-s.stopped
	// anything still pending belongs to abandoned goroutines: let them go
	s.mu.Lock()
	for _, e := range s.pending {
		close(e.ch)
	}
	s.pending = nil
	s.mu.Unlock()
}

// ---------------------------------------------------------------- scripted provider

type rule struct {
	Act      string  `json:"act"`                        // noresp | notfound | toohigh | bad | garbage | alt
	FromReq  int     `json:"from_req,omitempty"`         // applies to requests number >= FromReq (1-based)
	ToReq    int     `json:"to_req,omitempty"`           // and <= ToReq (0 = unbounded)
	HLo      int64   `json:"h_lo,omitempty"`             // heights >= HLo
	HHi      int64   `json:"h_hi,omitempty"`             // heights <= HHi (0 = unbounded)
	Prob     float64 `json:"prob,omitempty"`             // 0 = always
	Garble   int     `json:"garble,omitempty"`           // garbage sub-kind
	FirstPer bool    `json:"first_per_height,omitempty"` // only the first request for each height
	alt      viewFn
}

type provDesc struct {
	ID      int    `json:"id"`
	Role    string `json:"role"`
	Kind    string `json:"kind"`
	Tip     int64  `json:"tip"`
	TipLate int64  `json:"tip_after_catchup,omitempty"`
	CatchUp int    `json:"catchup_after_requests,omitempty"`
	Low     int64  `json:"pruned_below,omitempty"`
	Rules   []rule `json:"rules,omitempty"`
	EvErr   bool   `json:"report_evidence_fails,omitempty"`
}

type prov struct {
	desc    provDesc
	chainID string
	s       *sched
	view    viewFn
	mu      sync.Mutex
	nreq    int
	seen    map[int64]int
	r       *rand.Rand
	// reliable: consistent view, never an error for heights in [1, tip]
	reliable bool
}

var _ provider.Provider = (*prov)(nil)

func (p *prov) ChainID() string { return p.chainID }
func (p *prov) String() string  { return fmt.Sprintf("p%d(%s)", p.desc.ID, p.desc.Kind) }

var errBad = provider.ErrBadLightBlock{Reason: errors.New("scripted bad light block")}

// script decides the answer to request number n for height h (already resolved from 0).
func (p *prov) script(h int64) (lb *types.LightBlock, err error, note string) {
	p.mu.Lock()
	defer p.mu.Unlock()
	p.nreq++
	tip := p.desc.Tip
	if p.desc.CatchUp > 0 && p.nreq > p.desc.CatchUp {
		tip = p.desc.TipLate
	}
	if h == 0 {
		h = tip
	}
	p.seen[h]++
	for i := range p.desc.Rules {
		ru := &p.desc.Rules[i]
		if p.nreq < ru.FromReq || (ru.ToReq > 0 && p.nreq > ru.ToReq) || h < ru.HLo || (ru.HHi > 0 && h > ru.HHi) {
			continue
		}
		if ru.FirstPer && p.seen[h] > 1 {
			continue
		}
		if ru.Prob > 0 && p.r.Float64() >= ru.Prob {
			continue
		}
		switch ru.Act {
		case "noresp":
			return nil, provider.ErrNoResponse, ""
		case "notfound":
			return nil, provider.ErrLightBlockNotFound, ""
		case "toohigh":
			return nil, provider.ErrHeightTooHigh, ""
		case "bad":
			return nil, errBad, ""
		case "garbage":
			if b := p.view(h); b != nil {
				return garble(p.r, b, ru.Garble), nil, fmt.Sprintf("garbage#%d", ru.Garble)
			}
		case "alt":
			if b := ru.alt(h); b != nil {
				return cloneLB(b), nil, "alt"
			}
		}
	}
	if h > tip {
		return nil, provider.ErrHeightTooHigh, ""
	}
	if h < p.desc.Low {
		return nil, provider.ErrLightBlockNotFound, ""
	}
	b := p.view(h)
	if b == nil {
		return nil, provider.ErrLightBlockNotFound, ""
	}
	return cloneLB(b), nil, ""
}

func (p *prov) LightBlock(ctx context.Context, height int64) (*types.LightBlock, error) {
	e, err := p.s.arrive(ctx, p.desc.ID, height)
	defer p.s.finish(e)
	if err != nil {
		p.s.add(logEnt{Kind: "reply", Prov: p.desc.ID, Asked: height, Err: err.Error(), Note: "context ended while gated"})
		return nil, err
	}
	lb, err, note := p.script(height)
	if err != nil {
		if err == provider.ErrHeightTooHigh {
			p.s.mu.Lock()
			p.s.tooHigh = true
			p.s.mu.Unlock()
		}
		p.s.add(logEnt{Kind: "reply", Prov: p.desc.ID, Asked: height, Err: err.Error()})
		return nil, err
	}
	ent := logEnt{Kind: "reply", Prov: p.desc.ID, Asked: height, Note: note, lb: cloneLB(lb)}
	if lb.SignedHeader != nil && lb.Header != nil {
		ent.Height = lb.Height
		ent.Hash = string(lb.Hash())
	}
	p.s.add(ent)
	return lb, nil
}

func (p *prov) ReportEvidence(ctx context.Context, ev types.Evidence) error {
	ent := logEnt{Kind: "evidence", Prov: p.desc.ID}
	if lca, ok := ev.(*types.LightClientAttackEvidence); ok && lca != nil {
		ent.ev = lca
		if lca.ConflictingBlock != nil && lca.ConflictingBlock.SignedHeader != nil && lca.ConflictingBlock.Header != nil {
			ent.Height = lca.ConflictingBlock.Height
			ent.Hash = string(lca.ConflictingBlock.Hash())
			ent.lb = cloneLB(lca.ConflictingBlock)
		}
		ent.Note = fmt.Sprintf("common_height=%d byzantine=%d", lca.CommonHeight, len(lca.ByzantineValidators))
	} else {
		ent.Note = fmt.Sprintf("evidence of type %T", ev)
	}
	p.s.add(ent)
	if p.desc.EvErr {
		return errors.New("scripted: evidence rejected")
	}
	return nil
}

// garble returns a structurally complete but malformed copy of b.
func garble(r *rand.Rand, b *types.LightBlock, kind int) *types.LightBlock {
	g := cloneLB(b)
	switch kind % 9 {
	case 0:
		g.Header.ChainID = g.Header.ChainID + "-x"
	case 1:
		g.Commit = types.NewCommit(g.Commit.Height+1, g.Commit.Round, g.Commit.BlockID, g.Commit.Signatures)
	case 2:
		bid := g.Commit.BlockID
		bid.Hash = randHash(r)
		g.Commit = types.NewCommit(g.Commit.Height, g.Commit.Round, bid, g.Commit.Signatures)
	case 3: // validator set that does not hash to the header's validators hash
		vs := g.ValidatorSet.Copy()
		vs.Validators[0].VotingPower += 1 + r.Int63n(5)
		g.ValidatorSet = types.NewValidatorSet(vs.Validators)
	case 4: // signatures overwritten
		sigs := append([]types.CommitSig{}, g.Commit.Signatures...)
		for i := range sigs {
			if len(sigs[i].Signature) > 0 {
				x := make([]byte, len(sigs[i].Signature))
				r.Read(x)
				sigs[i].Signature = x
			}
		}
		g.Commit = types.NewCommit(g.Commit.Height, g.Commit.Round, g.Commit.BlockID, sigs)
	case 5: // header changed, commit still for the genuine block
		g.Header.AppHash = randHash(r)
	case 6: // too few signatures
		sigs := append([]types.CommitSig{}, g.Commit.Signatures...)
		for i := range sigs {
			if i > 0 {
				sigs[i] = types.NewCommitSigAbsent()
			}
		}
		g.Commit = types.NewCommit(g.Commit.Height, g.Commit.Round, g.Commit.BlockID, sigs)
	case 7: // header for another height
		g.Header.Height++
	case 8: // header changed and commit re-targeted (unsigned for the new hash)
		g.Header.DataHash = randHash(r)
		bid := g.Commit.BlockID
		bid.Hash = g.Header.Hash()
		g.Commit = types.NewCommit(g.Commit.Height, g.Commit.Round, bid, g.Commit.Signatures)
	}
	return g
}
