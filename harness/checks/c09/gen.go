package c09

import (
	"fmt"
	"math/rand"
	"time"

	tmproto "github.com/tendermint/tendermint/proto/tendermint/types"
	"github.com/tendermint/tendermint/types"

	"verif/chaingen"
)

// ---------------------------------------------------------------- scenario description (also the violation witness)

type callDesc struct {
	Op      string       `json:"op"` // verify_at | update | verify_header
	Height  int64        `json:"height,omitempty"`
	HdrFrom string       `json:"header_from,omitempty"`
	NowMs   int64        `json:"now_ms_after_genesis"`
	Perm    []int        `json:"release_priority"` // provider ids, first = released first when several replies are gated
	Holds   map[int]hold `json:"holds,omitempty"`
	hdr     *types.Header
	now     time.Time
}

type scnDesc struct {
	Stream    string     `json:"stream"`
	Case      int        `json:"case"`
	Recipe    string     `json:"recipe,omitempty"`
	Chain     int        `json:"chain"`
	ChainLen  int64      `json:"chain_len"`
	Churn     int        `json:"churn_percent"`
	Vals      int        `json:"genesis_validators"`
	Mode      string     `json:"mode"`
	TrustNum  int64      `json:"trust_num"`
	TrustDen  int64      `json:"trust_den"`
	PeriodMs  int64      `json:"trusting_period_ms"`
	DriftMs   int64      `json:"max_clock_drift_ms"`
	Root      int64      `json:"root_height"`
	FromStore bool       `json:"from_trusted_store,omitempty"`
	Preload   []int64    `json:"preloaded_heights,omitempty"`
	InitPerm  []int      `json:"init_release_priority"`
	Providers []provDesc `json:"providers"` // [0] = initial primary, rest = witnesses
	Forks     []forkDesc `json:"forks,omitempty"`
	Calls     []callDesc `json:"calls"`
	DeltaUs   int64      `json:"settle_us"`
}

type scenario struct {
	desc      scnDesc
	ci        *chainInfo
	provs     []*prov
	forks     []*fork
	coalition map[string]bool
	par       params
}

func pick(r *rand.Rand, weights ...int) int {
	t := 0
	for _, w := range weights {
		t += w
	}
	x := r.Intn(t)
	for i, w := range weights {
		if x < w {
			return i
		}
		x -= w
	}
	return len(weights) - 1
}

func between(r *rand.Rand, lo, hi int64) int64 { // inclusive; lo if hi < lo
	if hi <= lo {
		return lo
	}
	return lo + r.Int63n(hi-lo+1)
}

// nthPerm returns the k-th permutation (lexicographic by Lehmer code) of ids.
func nthPerm(ids []int, k int) []int {
	rest := append([]int{}, ids...)
	out := make([]int, 0, len(ids))
	for n := len(rest); n > 0; n-- {
		f := fact(n - 1)
		i := (k / f) % n
		k %= f
		out = append(out, rest[i])
		rest = append(rest[:i], rest[i+1:]...)
	}
	return out
}

func fact(n int) int {
	f := 1
	for i := 2; i <= n; i++ {
		f *= i
	}
	return f
}

func (sc *scenario) newProv(r *rand.Rand, id int, role, kind string, view viewFn) *prov {
	p := &prov{desc: provDesc{ID: id, Role: role, Kind: kind, Tip: sc.ci.n}, chainID: sc.ci.ch.ChainID, view: view,
		seen: map[int64]int{}, r: rand.New(rand.NewSource(r.Int63()))}
	return p
}

var trustLevels = [][2]int64{{1, 3}, {1, 3}, {1, 2}, {2, 3}, {1, 1}, {2, 5}, {3, 4}}
var forkKinds = []string{"equivocation", "lunatic", "lunatic-next", "amnesia"}
var benign = []string{"noresp", "notfound", "toohigh"}

// genScenario draws scenario idx.
func genScenario(r *rand.Rand, idx int, pool []*chainInfo) *scenario {
	ci := pool[r.Intn(len(pool))]
	sc := &scenario{ci: ci}
	d := &sc.desc
	d.Stream, d.Case = "scn", idx
	d.Chain, d.ChainLen, d.Churn, d.Vals = ci.idx, ci.n, ci.churn, ci.nvals
	n := ci.n
	d.Mode = "skipping"
	if r.Intn(100) < 35 {
		d.Mode = "sequential"
	}
	tl := trustLevels[r.Intn(len(trustLevels))]
	if d.Mode == "sequential" {
		tl = [2]int64{1, 3}
	}
	d.TrustNum, d.TrustDen = tl[0], tl[1]
	period := time.Duration(n+50) * ci.interval * 2
	if r.Intn(100) < 30 {
		period = time.Duration(3+r.Int63n(n)) * ci.interval
	}
	d.PeriodMs = period.Milliseconds()
	drift := []time.Duration{0, time.Millisecond, 5 * time.Millisecond, 10 * time.Millisecond}[r.Intn(4)]
	d.DriftMs = drift.Milliseconds()
	sc.par = params{chainID: ci.ch.ChainID, period: period, drift: drift, num: tl[0], den: tl[1]}
	switch pick(r, 55, 20, 10, 15) {
	case 0:
		d.Root = between(r, 1, n/3)
	case 1:
		d.Root = between(r, n/3, 2*n/3)
	case 2:
		d.Root = 1
	default:
		d.Root = between(r, 2*n/3, n-1)
	}
	if d.Mode == "sequential" && n > 80 && d.Root < n-80 && r.Intn(3) != 0 {
		d.Root = between(r, n-80, n-2) // keep most sequential walks short
	}
	if r.Intn(5) == 0 {
		d.FromStore = true
		for _, h := range []int64{between(r, 1, d.Root), between(r, d.Root, n)} {
			if h != d.Root && r.Intn(2) == 0 {
				d.Preload = append(d.Preload, h)
			}
		}
	}
	nw := 1 + pick(r, 20, 35, 30, 15)
	d.DeltaUs = 300

	// the coalition and its forks
	class := []string{"none", "low", "mid", "high"}[pick(r, 15, 30, 30, 25)]
	from := between(r, d.Root+1, n)
	to := from + 60
	if to > n {
		to = n
	}
	sc.coalition = pickCoalition(r, ci, class, max64(from-1, 1), to)
	kind := forkKinds[r.Intn(len(forkKinds))]
	mainFork := buildFork(r, ci, kind, from, to, sc.coalition, class, nil)
	sc.forks = append(sc.forks, mainFork)

	// calls first (targets are needed by some provider scripts)
	tipTime := ci.time(n)
	ncalls := 1 + pick(r, 45, 35, 20)
	allIDs := make([]int, nw+1)
	for i := range allIDs {
		allIDs[i] = i
	}
	wIDs := allIDs[1:]
	var targets []int64
	for k := 0; k < ncalls; k++ {
		var cd callDesc
		var h int64
		switch pick(r, 55, 12, 18, 5, 5, 5) {
		case 0:
			h = between(r, d.Root+1, n)
		case 1:
			h = between(r, from, to) // inside the forged range
		case 2:
			h = between(r, 1, d.Root-1)
		case 3:
			h = d.Root
		case 4:
			h = n
		default:
			h = n + between(r, 1, 3)
		}
		switch pick(r, 70, 15, 15) {
		case 0:
			cd.Op, cd.Height = "verify_at", h
		case 1:
			cd.Op = "update"
			h = n
		default:
			cd.Op, cd.Height = "verify_header", h
			if h > n {
				h = n
				cd.Height = n
			}
			cd.HdrFrom = "canonical"
			src := ci.lbs[h]
			srcHdr := src.Header
			if fh, ok := mainFork.hdrs[h]; ok && r.Intn(2) == 0 {
				cd.HdrFrom, srcHdr = "fork", fh
			}
			hc := *srcHdr
			cd.hdr = &hc
		}
		targets = append(targets, h)
		switch pick(r, 72, 10, 18) {
		case 0:
			cd.now = tipTime.Add(time.Second + time.Duration(r.Intn(2000))*time.Millisecond)
		case 1: // the target's time is (about) in the future
			th := h
			if th > n {
				th = n
			}
			if th < 1 {
				th = 1
			}
			cd.now = ci.time(th).Add(-drift).Add(time.Duration(r.Intn(5)-2) * time.Millisecond)
		default:
			span := tipTime.Sub(ci.time(d.Root)) + period + period/4
			cd.now = ci.time(d.Root).Add(time.Duration(r.Int63n(int64(span) + 1)))
		}
		cd.NowMs = cd.now.Sub(ci.ch.Opt.GenesisTime).Milliseconds()
		// release priority: systematic over all witness orders for <= 3 witnesses on the last call
		wp := append([]int{}, wIDs...)
		r.Shuffle(len(wp), func(i, j int) { wp[i], wp[j] = wp[j], wp[i] })
		if nw <= 3 && k == ncalls-1 {
			wp = nthPerm(wIDs, idx%fact(nw))
		}
		cd.Perm = append([]int{0}, wp...)
		if nw >= 2 && r.Intn(2) == 0 {
			// the lowest-priority witness really replies last: its reply waits until the first-ranked
			// witness has been asked a follow-up question, or until the provider boundary has been quiet
			cd.Holds = map[int]hold{wp[nw-1]: {Other: wp[0], N: 2, Quiet: 20 * time.Millisecond}}
		}
		d.Calls = append(d.Calls, cd)
	}
	ip := append([]int{}, wIDs...)
	r.Shuffle(len(ip), func(i, j int) { ip[i], ip[j] = ip[j], ip[i] })
	d.InitPerm = append([]int{0}, ip...)
	tgt := targets[r.Intn(len(targets))]
	if tgt > n {
		tgt = n
	}

	// a second, target-only forgery (for "unverifiable conflict" witnesses and target-only primaries)
	only := map[int64]bool{}
	for _, t := range targets {
		if t >= 1 && t <= n {
			only[t] = true
		}
	}
	var pointFork *fork
	mkPoint := func() *fork {
		if pointFork == nil {
			lo, hi := n, int64(1)
			for t := range only {
				if t < lo {
					lo = t
				}
				if t > hi {
					hi = t
				}
			}
			pointFork = buildFork(r, ci, forkKinds[r.Intn(len(forkKinds))], lo, hi, sc.coalition, class, only)
			pointFork.desc.Kind += " (targets only)"
			sc.forks = append(sc.forks, pointFork)
		}
		return pointFork
	}

	// primary
	var p *prov
	switch pick(r, 33, 25, 8, 8, 12, 9, 5) {
	case 0:
		p = sc.newProv(r, 0, "primary", "honest", ci.canonView())
		p.reliable = true
	case 1:
		p = sc.newProv(r, 0, "primary", "fork", ci.forkView(mainFork))
		p.reliable = true
	case 2:
		p = sc.newProv(r, 0, "primary", "fork-targets-only", ci.forkView(mkPoint()))
		p.reliable = true
	case 3: // a bad header somewhere between root and target
		p = sc.newProv(r, 0, "primary", "bad-intermediate", ci.canonView())
		lo := between(r, d.Root+1, max64(tgt-1, d.Root+1))
		p.desc.Rules = []rule{{Act: "garbage", HLo: lo, HHi: between(r, lo, max64(tgt-1, lo)), Garble: r.Intn(9)}}
	case 4: // errors on some requests
		p = sc.newProv(r, 0, "primary", "flaky", ci.canonView())
		if r.Intn(3) == 0 {
			p.view = ci.forkView(mainFork)
			p.desc.Kind = "flaky-fork"
		}
		act := append(benign, "bad")[r.Intn(4)]
		ru := rule{Act: act}
		switch r.Intn(3) {
		case 0:
			ru.FromReq = 1 + r.Intn(4)
			ru.ToReq = ru.FromReq + r.Intn(3)
		case 1:
			ru.Prob = 0.15 + 0.5*r.Float64()
		default:
			ru.HLo, ru.HHi = tgt, tgt
		}
		p.desc.Rules = []rule{ru}
	case 5: // different answers for the same height
		p = sc.newProv(r, 0, "primary", "flipflop", ci.canonView())
		alt := ci.forkView(mainFork)
		if r.Intn(2) == 0 {
			alt = ci.forkView(mkPoint())
		}
		ru := rule{Act: "alt", FirstPer: true, alt: alt}
		if r.Intn(3) == 0 { // forged later instead of first
			ru = rule{Act: "alt", FromReq: 2 + r.Intn(3), alt: alt}
		}
		if r.Intn(4) == 0 {
			ru = rule{Act: "garbage", FirstPer: true, Garble: r.Intn(9)}
		}
		p.desc.Rules = []rule{ru}
	default:
		p = sc.newProv(r, 0, "primary", "lagging", ci.canonView())
		p.desc.Tip = between(r, d.Root, n-1)
		if r.Intn(2) == 0 {
			p.desc.CatchUp, p.desc.TipLate = 1+r.Intn(4), n
		}
	}
	sc.provs = append(sc.provs, p)

	// witnesses
	for i := 1; i <= nw; i++ {
		var w *prov
		switch pick(r, 34, 10, 6, 8, 6, 8, 10, 11, 7) {
		case 0:
			w = sc.newProv(r, i, "witness", "honest", ci.canonView())
			w.reliable = true
		case 1:
			w = sc.newProv(r, i, "witness", "silent", ci.canonView())
			w.desc.Rules = []rule{{Act: "noresp"}}
			if r.Intn(3) == 0 {
				w.desc.Rules[0].FromReq = 2 // answers the initial cross-check, silent afterwards
			}
		case 2:
			w = sc.newProv(r, i, "witness", "not-found", ci.canonView())
			w.desc.Rules = []rule{{Act: "notfound", HLo: d.Root + 1}}
		case 3:
			w = sc.newProv(r, i, "witness", "lagging", ci.canonView())
			w.desc.Tip = between(r, d.Root, n-1)
			if r.Intn(2) == 0 {
				w.desc.CatchUp, w.desc.TipLate = 1+r.Intn(4), n
			}
		case 4:
			w = sc.newProv(r, i, "witness", "bad-light-block", ci.canonView())
			w.desc.Rules = []rule{{Act: "bad", HLo: d.Root + 1}}
		case 5:
			w = sc.newProv(r, i, "witness", "garbage", ci.canonView())
			w.desc.Rules = []rule{{Act: "garbage", HLo: d.Root + 1, Garble: r.Intn(9)}}
		case 6: // a full fork (colluding with a forking primary, or backing a different header)
			w = sc.newProv(r, i, "witness", "fork", ci.forkView(mainFork))
			w.reliable = true
		case 7: // a different header at the targets only: cannot be backed from the common block
			w = sc.newProv(r, i, "witness", "conflict-targets-only", ci.forkView(mkPoint()))
			w.reliable = true
		default:
			w = sc.newProv(r, i, "witness", "flaky", ci.canonView())
			w.desc.Rules = []rule{{Act: append(benign, "bad")[r.Intn(4)], Prob: 0.2 + 0.6*r.Float64()}}
		}
		w.desc.EvErr = r.Intn(8) == 0
		sc.provs = append(sc.provs, w)
	}
	for _, f := range sc.forks {
		d.Forks = append(d.Forks, f.desc)
	}
	for _, q := range sc.provs {
		d.Providers = append(d.Providers, q.desc)
	}
	return sc
}

func max64(a, b int64) int64 {
	if a > b {
		return a
	}
	return b
}

// genRecipe builds the explicit S3 recipe (DESIGN.md section 4, row S3) number k:
// a witness that serves a different header it cannot back, plus a witness that
// only ever answers "no response"; the release priority decides who replies last.
func genRecipe(r *rand.Rand, k int, pool []*chainInfo) *scenario {
	ci := pool[k%len(pool)]
	sc := &scenario{ci: ci}
	d := &sc.desc
	d.Stream, d.Case = "recipe", k
	d.Chain, d.ChainLen, d.Churn, d.Vals = ci.idx, ci.n, ci.churn, ci.nvals
	n := ci.n
	d.Mode = []string{"skipping", "sequential"}[(k/2)%2]
	d.TrustNum, d.TrustDen = 1, 3
	period := time.Duration(n+50) * ci.interval * 2
	d.PeriodMs = period.Milliseconds()
	drift := 5 * time.Millisecond
	d.DriftMs = 5
	sc.par = params{chainID: ci.ch.ChainID, period: period, drift: drift, num: 1, den: 3}
	d.Root = between(r, 1, n/2)
	target := between(r, d.Root+1, min64(n, d.Root+25))
	d.DeltaUs = 2000
	silentLast := k%2 == 0
	forgingPrimary := (k/4)%2 == 1
	third := (k/8)%2 == 1
	d.Recipe = "S3: witness 1 serves a header it cannot back, witness 2 never answers"
	if silentLast {
		d.Recipe += "; the silent witness replies last"
	} else {
		d.Recipe += "; the silent witness replies first (control)"
	}
	// witness 1: forged block at the target only, signed by < 1/3
	low := pickCoalition(r, ci, "low", target, target)
	sc.coalition = low
	pf := buildFork(r, ci, "equivocation", target, target, low, "low", map[int64]bool{target: true})
	pf.desc.Kind += " (target only)"
	sc.forks = append(sc.forks, pf)
	prim := sc.newProv(r, 0, "primary", "honest", ci.canonView())
	prim.reliable = true
	if forgingPrimary {
		// the primary serves a lunatic block signed by a coalition holding >= 1/3 (and <= 2/3) of the root's set
		mid := pickCoalition(r, ci, "mid", d.Root, d.Root)
		for a := range low {
			mid[a] = true
		}
		sc.coalition = mid
		lf := buildFork(r, ci, "lunatic", target, target, mid, "mid", nil)
		sc.forks = append(sc.forks, lf)
		prim = sc.newProv(r, 0, "primary", "fork", ci.forkView(lf))
		prim.reliable = true
		d.Recipe += "; the primary serves a lunatic header"
	}
	w1 := sc.newProv(r, 1, "witness", "conflict-targets-only", ci.forkView(pf))
	w1.reliable = true
	w2 := sc.newProv(r, 2, "witness", "silent", ci.canonView())
	w2.desc.Rules = []rule{{Act: []string{"noresp", "notfound"}[(k/16)%2], HLo: d.Root + 1}}
	sc.provs = []*prov{prim, w1, w2}
	perm := []int{0, 1, 2}
	if !silentLast {
		perm = []int{0, 2, 1}
	}
	if third {
		w3 := sc.newProv(r, 3, "witness", "silent", ci.canonView())
		w3.desc.Rules = []rule{{Act: "noresp", HLo: d.Root + 1}}
		sc.provs = append(sc.provs, w3)
		if silentLast {
			perm = []int{0, 1, 2, 3}
		} else {
			perm = []int{0, 2, 3, 1}
		}
	}
	now := ci.time(n).Add(2 * time.Second)
	d.Calls = []callDesc{{Op: "verify_at", Height: target, now: now, NowMs: now.Sub(ci.ch.Opt.GenesisTime).Milliseconds(), Perm: perm}}
	if silentLast {
		// every silent witness waits until witness 1 has been asked a follow-up question (its conflicting
		// reply has been taken up), or until nothing has happened for a long while
		hs := map[int]hold{}
		for _, q := range sc.provs[2:] {
			hs[q.desc.ID] = hold{Other: 1, N: 2, Quiet: 300 * time.Millisecond}
		}
		d.Calls[0].Holds = hs
	}
	d.InitPerm = []int{0, 1, 2, 3}[:len(sc.provs)]
	for _, f := range sc.forks {
		d.Forks = append(d.Forks, f.desc)
	}
	for _, q := range sc.provs {
		d.Providers = append(d.Providers, q.desc)
	}
	return sc
}

func min64(a, b int64) int64 {
	if a < b {
		return a
	}
	return b
}

// genTimeRecipe: everything about the forged headers is valid (signed by more than 2/3 of the
// genuine validator sets, all witnesses serve the same forgery) except that their time is not
// after the trusted header's time.  Only the "later in time" rule stands in the way.
func genTimeRecipe(r *rand.Rand, k int, pool []*chainInfo) *scenario {
	ci := pool[(k*5+1)%len(pool)]
	sc := &scenario{ci: ci}
	d := &sc.desc
	d.Stream, d.Case = "recipe-time", k
	d.Chain, d.ChainLen, d.Churn, d.Vals = ci.idx, ci.n, ci.churn, ci.nvals
	n := ci.n
	d.Mode = []string{"skipping", "sequential"}[k%2]
	tl := trustLevels[(k/2)%len(trustLevels)]
	if d.Mode == "sequential" {
		tl = [2]int64{1, 3}
	}
	d.TrustNum, d.TrustDen = tl[0], tl[1]
	period := time.Duration(n+50) * ci.interval * 2
	d.PeriodMs = period.Milliseconds()
	drift := 5 * time.Millisecond
	d.DriftMs = 5
	sc.par = params{chainID: ci.ch.ChainID, period: period, drift: drift, num: tl[0], den: tl[1]}
	d.Root = between(r, 1, n-2)
	from := d.Root + 1
	to := min64(n, from+between(r, 0, 12))
	target := between(r, from, to)
	d.DeltaUs = 300
	d.Recipe = "forged headers valid in every respect except that their time is not after the trust root's time; all witnesses collude"
	sc.coalition = pickCoalition(r, ci, "high", d.Root, to)
	early := ci.time(d.Root)
	if k%3 != 0 {
		early = early.Add(-time.Duration(1+r.Intn(5000)) * time.Millisecond)
	}
	f := buildForkT(r, ci, []string{"equivocation", "amnesia", "lunatic-next"}[(k/2)%3], from, to, sc.coalition, "high", nil, &early)
	sc.forks = append(sc.forks, f)
	p := sc.newProv(r, 0, "primary", "fork", ci.forkView(f))
	p.reliable = true
	sc.provs = []*prov{p}
	nw := 1 + k%2
	perm := []int{0}
	for i := 1; i <= nw; i++ {
		w := sc.newProv(r, i, "witness", "fork", ci.forkView(f))
		w.reliable = true
		sc.provs = append(sc.provs, w)
		perm = append(perm, i)
	}
	now := ci.time(n).Add(2 * time.Second)
	op := []string{"verify_at", "verify_header", "verify_at"}[k%3]
	cd := callDesc{Op: op, Height: target, now: now, NowMs: now.Sub(ci.ch.Opt.GenesisTime).Milliseconds(), Perm: perm}
	if op == "verify_header" {
		hc := *f.hdrs[target]
		cd.hdr, cd.HdrFrom = &hc, "fork"
	}
	d.Calls = []callDesc{cd}
	d.InitPerm = perm
	for _, f := range sc.forks {
		d.Forks = append(d.Forks, f.desc)
	}
	for _, q := range sc.provs {
		d.Providers = append(d.Providers, q.desc)
	}
	return sc
}

// genFwdRecipe: the "forward lunatic" family.  The primary serves a forged (lunatic) header at a
// height ABOVE the head of an honest but lagging witness, signed by a coalition holding more than the
// trust level of the trust root's validator set, so skipping verification accepts it in one step.  The
// forged header's time T is placed relative to the time of the honest witness' head block H:
// T = time(H) + {-far, -1ns, 0, +1ns, +far}.  Block time strictly increases with height, so a block
// at a LOWER height whose time is NOT BEFORE T contradicts the forged header: for T <= time(H) the
// client must report an attack, hand evidence naming the primary's block to that witness and store
// nothing - whether or not another witness colludes and returns the identical forged header.  For
// T > time(H) the witness is merely behind and proves nothing.  Variants: the contradicting block is
// the witness' head at the first query, or it only appears while the client waits (2*drift+lag).
func genFwdRecipe(r *rand.Rand, k int, pool []*chainInfo) *scenario {
	ci := pool[(k*3+2)%len(pool)]
	sc := &scenario{ci: ci}
	d := &sc.desc
	d.Stream, d.Case = "recipe-fwd", k
	d.Chain, d.ChainLen, d.Churn, d.Vals = ci.idx, ci.n, ci.churn, ci.nvals
	n := ci.n
	d.Mode = "skipping"
	tl := [][2]int64{{1, 3}, {1, 2}, {2, 3}}[(k/40)%3]
	d.TrustNum, d.TrustDen = tl[0], tl[1]
	period := time.Duration(n+50) * ci.interval * 2
	d.PeriodMs = period.Milliseconds()
	drift := []time.Duration{time.Millisecond, 5 * time.Millisecond}[k%2]
	d.DriftMs = drift.Milliseconds()
	sc.par = params{chainID: ci.ch.ChainID, period: period, drift: drift, num: tl[0], den: tl[1]}
	deltaClass := k % 5
	collude := (k/5)%2 == 1
	lateProof := (k/10)%2 == 1
	extraSilent := (k/20)%2 == 1
	d.Root = between(r, 1, n-8)
	head := between(r, d.Root+4, n-1) // the honest witness' (final) head
	target := between(r, head+1, n)
	d.DeltaUs = 300
	var delta time.Duration
	switch deltaClass {
	case 0:
		delta = -time.Duration(2+r.Intn(1500)) * time.Millisecond
	case 1:
		delta = -time.Nanosecond
	case 2:
		delta = 0
	case 3:
		delta = time.Nanosecond
	default:
		delta = time.Duration(2+r.Intn(1500)) * time.Millisecond
	}
	tf := ci.time(head).Add(delta)
	d.Recipe = fmt.Sprintf("forward lunatic: forged header at height %d with time = time(honest witness head %d) %+dns; colluding witness: %v; contradicting block appears during the wait: %v",
		target, head, delta.Nanoseconds(), collude, lateProof)
	sc.coalition = pickCoalition(r, ci, "high", d.Root, d.Root)
	f := buildForkT(r, ci, "lunatic", target, target, sc.coalition, "high", nil, &tf)
	f.desc.Kind = "lunatic (forward: above the honest witness' head)"
	sc.forks = append(sc.forks, f)
	p := sc.newProv(r, 0, "primary", "fork", ci.forkView(f))
	p.reliable = true
	sc.provs = []*prov{p}
	w := sc.newProv(r, 1, "witness", "lagging", ci.canonView())
	w.desc.Tip = head
	if lateProof {
		// request 1 = initial cross-check, 2 = target (too high), 3 = latest (old head), 4 = latest after the wait
		w.desc.Tip = between(r, d.Root+1, head-2)
		w.desc.CatchUp, w.desc.TipLate = 3, head
	}
	sc.provs = append(sc.provs, w)
	if collude {
		a := sc.newProv(r, len(sc.provs), "witness", "fork", ci.forkView(f))
		a.reliable = true
		sc.provs = append(sc.provs, a)
	}
	if extraSilent {
		q := sc.newProv(r, len(sc.provs), "witness", "silent", ci.canonView())
		q.desc.Rules = []rule{{Act: "noresp", HLo: d.Root + 1}}
		sc.provs = append(sc.provs, q)
	}
	ids := make([]int, 0, len(sc.provs)-1)
	for i := 1; i < len(sc.provs); i++ {
		ids = append(ids, i)
	}
	perm := append([]int{0}, nthPerm(ids, k/3)...)
	now := ci.time(n).Add(2 * time.Second)
	op := []string{"verify_at", "update", "verify_header"}[(k/7)%3]
	cd := callDesc{Op: op, Height: target, now: now, NowMs: now.Sub(ci.ch.Opt.GenesisTime).Milliseconds(), Perm: perm}
	if op == "update" {
		// Update asks the primary for its latest block: make the forged height the primary's head
		p.desc.Tip = target
		cd.Height = 0
	}
	if op == "verify_header" {
		hc := *f.hdrs[target]
		cd.hdr, cd.HdrFrom = &hc, "fork"
	}
	d.Calls = []callDesc{cd}
	d.InitPerm = append([]int{0}, ids...)
	for _, f := range sc.forks {
		d.Forks = append(d.Forks, f.desc)
	}
	for _, q := range sc.provs {
		d.Providers = append(d.Providers, q.desc)
	}
	return sc
}

// ---------------------------------------------------------------- padded commits

// padSig signs one precommit slot with pv for (height, round, bid) at ts, labelled with addr.
func padSig(chainID string, pv types.MockPV, addr []byte, h int64, round int32, bid types.BlockID, ts time.Time) types.CommitSig {
	vote := &types.Vote{Type: tmproto.PrecommitType, Height: h, Round: round, BlockID: bid, Timestamp: ts, ValidatorAddress: addr}
	pb := vote.ToProto()
	if err := pv.SignVote(chainID, pb); err != nil {
		panic(err)
	}
	vote.Signature = pb.Signature
	return vote.CommitSig()
}

// buildPadded forges ONE light block at height th whose commit is "padded": the single colluding
// validator K (less than 1/3 of the trusted set) appears in several for-the-block slots.
//
//	own = "fresh":     the header's own validator set is adversary-made: one heavy never-bonded key in slot 0
//	                   (which alone gives it > 2/3 of that set) plus light fillers; K's signature sits in other slots
//	own = "dupK":      the own set is K repeated (a hand-made set), every slot signed by K
//	own = "canonical": the header keeps the genuine validator set of th (passes the adjacent hash link);
//	                   K's signature is copied into the slots
//	layout:            before | after | permuted (where K's slots sit relative to K's index in the trusted set)
//	extra:             how many slots the commit has beyond the trusted set's size (fresh / dupK only)
//	sameSig:           one signature copied, or a fresh signature (own timestamp) per slot
func buildPadded(r *rand.Rand, ci *chainInfo, t0, th int64, K *types.Validator, num, den int64, own, layout string, extra int, sameSig bool, labelSlotOwner bool) *fork {
	f := &fork{blocks: map[int64]*types.LightBlock{}, plan: map[int64]func() *types.LightBlock{}, hdrs: map[int64]*types.Header{}}
	chainID := ci.ch.ChainID
	trusted := ci.sets[t0]
	pvK := ci.ch.Keys[string(K.Address)]
	natural := 0
	for i, v := range trusted.Validators {
		if string(v.Address) == string(K.Address) {
			natural = i
		}
	}
	// copies of K needed so that copies*power(K) exceeds the trust level of the trusted set, plus one
	need := int(trusted.TotalVotingPower()*num/(den*K.VotingPower)) + 2
	canon := ci.lbs[th]
	hdr := *canon.Header
	hdr.AppHash = randHash(r)
	var vals *types.ValidatorSet
	size := trusted.Size() + extra
	if size < need+natural+2 && layout == "after" {
		size = need + natural + 2
	}
	if size < need+1 {
		size = need + 1
	}
	var heavy types.MockPV
	switch own {
	case "fresh":
		vs := make([]*types.Validator, 0, size)
		hk := chaingen.Key(int64(ci.idx)*104729+th, 700000)
		heavy = types.NewMockPVWithParams(hk, false, false)
		vs = append(vs, types.NewValidator(hk.PubKey(), 1000000))
		for j := 1; j < size; j++ {
			vs = append(vs, types.NewValidator(chaingen.Key(int64(ci.idx)*104729+th, 700000+j).PubKey(), 1))
		}
		vals = types.NewValidatorSet(vs)
	case "dupK":
		vs := make([]*types.Validator, size)
		for j := range vs {
			vs[j] = &types.Validator{Address: K.Address, PubKey: K.PubKey, VotingPower: 10}
		}
		vals = &types.ValidatorSet{Validators: vs, Proposer: vs[0].Copy()}
	default: // canonical
		vals = ci.sets[th].Copy()
		size = vals.Size()
		hdr.DataHash = randHash(r)
	}
	vals.TotalVotingPower()
	if own != "canonical" {
		hdr.ValidatorsHash = vals.Hash()
		hdr.NextValidatorsHash = vals.Hash()
	}
	bid := types.BlockID{Hash: hdr.Hash(), PartSetHeader: types.PartSetHeader{Total: 1, Hash: randHash(r)}}
	round := canon.Commit.Round
	base := hdr.Time.Add(500 * time.Millisecond)
	one := padSig(chainID, pvK, K.Address, th, round, bid, base)
	kSlot := func(j int) types.CommitSig {
		cs := one
		if !sameSig {
			cs = padSig(chainID, pvK, K.Address, th, round, bid, base.Add(time.Duration(j)*time.Millisecond))
		}
		if labelSlotOwner && j < len(vals.Validators) {
			cs.ValidatorAddress = vals.Validators[j].Address
		}
		return cs
	}
	sigs := make([]types.CommitSig, size)
	for j := range sigs {
		sigs[j] = types.NewCommitSigAbsent()
	}
	firstFree := 0
	if own == "fresh" { // slot 0 belongs to the heavy invented key (own-set index 0 after sorting by power)
		sigs[0] = padSig(chainID, heavy, vals.Validators[0].Address, th, round, bid, base)
		firstFree = 1
	}
	var pos []int
	switch {
	case own == "dupK" || own == "canonical":
		for j := 0; j < size; j++ {
			pos = append(pos, j)
		}
	case layout == "before":
		for j := firstFree; j < size && len(pos) < need; j++ {
			pos = append(pos, j)
		}
	case layout == "after":
		for j := int(max64(int64(natural+1), int64(firstFree))); j < size && len(pos) < need; j++ {
			pos = append(pos, j)
		}
	default: // permuted
		cand := r.Perm(size - firstFree)
		for _, c := range cand {
			if len(pos) < need {
				pos = append(pos, c+firstFree)
			}
		}
	}
	for _, j := range pos {
		sigs[j] = kSlot(j)
	}
	hc := hdr
	f.blocks[th] = &types.LightBlock{SignedHeader: &types.SignedHeader{Header: &hc, Commit: types.NewCommit(th, round, bid, sigs)}, ValidatorSet: vals}
	f.hdrs[th] = &hc
	cp, tot := powerOf(trusted, map[string]bool{string(K.Address): true})
	f.desc = forkDesc{Kind: fmt.Sprintf("padded commit (own set %s, K slots %s, %d slots for a trusted set of %d, K at trusted index %d in %d slots, same signature copied: %v, slots labelled with slot owner: %v)",
		own, layout, size, trusted.Size(), natural, len(pos), sameSig, labelSlotOwner),
		From: th, To: th, Class: "one validator below 1/3", Coalition: 1, PhiFrom: cp.String() + "/" + tot.String(), Heights: []int64{th}}
	return f
}

// genPadRecipe: recipe family "padded commit" (see buildPadded).  Delivery:
//
//	0 primary + colluding witness serve it at a non-adjacent height (skipping mode)
//	1 same, at an adjacent height with the genuine validator set (sequential mode, or skipping with target = root+1)
//	2 the primary fails the target request; a witness is promoted and supplies it, another witness colludes
//	3 honest primary; a witness serves it as the conflicting header (detector path), another witness is honest
func genPadRecipe(r *rand.Rand, k int, pool []*chainInfo) *scenario {
	ci := pool[(k*7+3)%len(pool)]
	sc := &scenario{ci: ci}
	d := &sc.desc
	d.Stream, d.Case = "recipe-pad", k
	d.Chain, d.ChainLen, d.Churn, d.Vals = ci.idx, ci.n, ci.churn, ci.nvals
	n := ci.n
	delivery := k % 4
	tl := [][2]int64{{1, 3}, {1, 2}, {2, 3}}[(k/4)%3]
	layout := []string{"before", "after", "permuted"}[(k/12)%3]
	own := []string{"fresh", "dupK"}[(k/36)%2]
	extra := []int{0, 1, 5}[(k/72)%3]
	sameSig := (k/3)%2 == 0
	d.Mode = "skipping"
	d.Root = between(r, 1, n-6)
	target := between(r, d.Root+2, min64(n, d.Root+40))
	label := false
	if delivery == 1 {
		own = "canonical"
		label = (k/8)%2 == 1
		if (k/4)%2 == 0 {
			d.Mode = "sequential"
			target = between(r, d.Root+1, min64(n, d.Root+8))
		} else {
			target = d.Root + 1
		}
	}
	if d.Mode == "sequential" {
		tl = [2]int64{1, 3}
	}
	d.TrustNum, d.TrustDen = tl[0], tl[1]
	period := time.Duration(n+50) * ci.interval * 2
	d.PeriodMs = period.Milliseconds()
	drift := 5 * time.Millisecond
	d.DriftMs = 5
	sc.par = params{chainID: ci.ch.ChainID, period: period, drift: drift, num: tl[0], den: tl[1]}
	d.DeltaUs = 300
	// K: a validator of the trusted set holding strictly less than 1/3
	// (for the canonical-set variant: of the target's set, holding less than 1/3 there too if possible)
	base := ci.sets[d.Root]
	if own == "canonical" {
		base = ci.sets[target]
	}
	var K *types.Validator
	tot := base.TotalVotingPower()
	for _, i := range r.Perm(base.Size()) {
		v := base.Validators[i]
		if v.VotingPower*3 < tot && (K == nil || r.Intn(2) == 0) {
			K = v
		}
	}
	if K == nil {
		K = base.Validators[base.Size()-1]
	}
	sc.coalition = map[string]bool{string(K.Address): true}
	f := buildPadded(r, ci, d.Root, target, K, tl[0], tl[1], own, layout, extra, sameSig, label)
	sc.forks = append(sc.forks, f)
	d.Recipe = fmt.Sprintf("padded commit, delivery %d: %s", delivery, f.desc.Kind)
	now := ci.time(n).Add(2 * time.Second)
	cd := callDesc{Op: []string{"verify_at", "verify_header"}[(k/5)%2], Height: target, now: now, NowMs: now.Sub(ci.ch.Opt.GenesisTime).Milliseconds()}
	switch delivery {
	case 0, 1:
		p := sc.newProv(r, 0, "primary", "fork", ci.forkView(f))
		p.reliable = true
		w := sc.newProv(r, 1, "witness", "fork", ci.forkView(f))
		w.reliable = true
		sc.provs = []*prov{p, w}
		if (k/16)%2 == 1 {
			q := sc.newProv(r, 2, "witness", "silent", ci.canonView())
			q.desc.Rules = []rule{{Act: "noresp", HLo: d.Root + 1}}
			sc.provs = append(sc.provs, q)
		}
		hc := *f.hdrs[target]
		cd.hdr, cd.HdrFrom = &hc, "fork"
	case 2:
		p := sc.newProv(r, 0, "primary", "flaky", ci.canonView())
		p.desc.Rules = []rule{{Act: []string{"noresp", "notfound"}[(k/16)%2], HLo: target, HHi: target}}
		w1 := sc.newProv(r, 1, "witness", "fork", ci.forkView(f))
		w1.reliable = true
		w2 := sc.newProv(r, 2, "witness", "fork", ci.forkView(f))
		w2.reliable = true
		sc.provs = []*prov{p, w1, w2}
		hc := *f.hdrs[target]
		cd.hdr, cd.HdrFrom = &hc, "fork"
	default:
		p := sc.newProv(r, 0, "primary", "honest", ci.canonView())
		p.reliable = true
		w1 := sc.newProv(r, 1, "witness", "fork", ci.forkView(f))
		w1.reliable = true
		w2 := sc.newProv(r, 2, "witness", "honest", ci.canonView())
		w2.reliable = true
		sc.provs = []*prov{p, w1, w2}
		hc := *ci.lbs[target].Header
		cd.hdr, cd.HdrFrom = &hc, "canonical"
	}
	ids := make([]int, 0, len(sc.provs)-1)
	for i := 1; i < len(sc.provs); i++ {
		ids = append(ids, i)
	}
	cd.Perm = append([]int{0}, nthPerm(ids, k/2)...)
	d.Calls = []callDesc{cd}
	d.InitPerm = append([]int{0}, ids...)
	for _, f := range sc.forks {
		d.Forks = append(d.Forks, f.desc)
	}
	for _, q := range sc.provs {
		d.Providers = append(d.Providers, q.desc)
	}
	return sc
}

// ---------------------------------------------------------------- commits padded with genuine nil precommits

// buildNilPadded forges ONE light block at height th that keeps the genuine validator set of th.  The
// coalition signs FOR the forged block; every other validator's slot carries a genuine precommit FOR NIL
// of the same (chain id, height, round) - the kind honest validators broadcast in a failed round; nothing
// in a nil vote binds it to a block.  For-block power is at most 2/3 of the set; for-block plus for-nil
// power exceeds 2/3.  someAbsent leaves a few of the non-coalition slots absent (keeping for+nil > 2/3).
//
// invented = true: the header's OWN validator set is adversary-made instead (one heavy never-bonded key in
// slot 0 gives it > 2/3 of that set); the coalition's for-block signature and the honest validators' nil
// precommits sit in the other slots, where only the trust-level tally over the TRUSTED set looks at them.
func buildNilPadded(r *rand.Rand, ci *chainInfo, t0, th int64, coalition map[string]bool, class string, round int32, someAbsent, invented bool) *fork {
	f := &fork{blocks: map[int64]*types.LightBlock{}, plan: map[int64]func() *types.LightBlock{}, hdrs: map[int64]*types.Header{}}
	if invented {
		return buildNilPaddedInvented(r, ci, f, t0, th, coalition, class, round)
	}
	canon := ci.lbs[th]
	vals := ci.sets[th]
	hdr := *canon.Header
	hdr.DataHash = randHash(r)
	if r.Intn(2) == 0 {
		hdr.Time = hdr.Time.Add(time.Duration(1+r.Intn(300)) * time.Millisecond)
	}
	bid := types.BlockID{Hash: hdr.Hash(), PartSetHeader: types.PartSetHeader{Total: 1, Hash: randHash(r)}}
	tot := vals.TotalVotingPower()
	absent := map[int]bool{}
	if someAbsent {
		var ap int64
		for _, i := range r.Perm(vals.Size()) {
			v := vals.Validators[i]
			if !coalition[string(v.Address)] && (ap+v.VotingPower)*3 < tot && r.Intn(2) == 0 {
				absent[i] = true
				ap += v.VotingPower
			}
		}
	}
	nNil := 0
	commit := ci.ch.SignCommit(vals, th, round, bid, func(i int, v *types.Validator) types.BlockIDFlag {
		switch {
		case coalition[string(v.Address)]:
			return types.BlockIDFlagCommit
		case absent[i]:
			return types.BlockIDFlagAbsent
		}
		nNil++
		return types.BlockIDFlagNil
	}, func(i int) time.Time { return hdr.Time.Add(time.Duration(500+i) * time.Millisecond) })
	hc := hdr
	lb := &types.LightBlock{SignedHeader: &types.SignedHeader{Header: &hc, Commit: commit}, ValidatorSet: vals.Copy()}
	lb.ValidatorSet.TotalVotingPower()
	f.blocks[th] = lb
	f.hdrs[th] = &hc
	cp, t := powerOf(vals, coalition)
	cp0, t00 := powerOf(ci.sets[t0], coalition)
	f.desc = forkDesc{Kind: fmt.Sprintf("commit padded with genuine nil precommits (round %d, %d nil slots, %d absent; for-block power %s/%s of the own set, %s/%s of the trusted set)",
		round, nNil, len(absent), cp, t, cp0, t00), From: th, To: th, Class: class, Coalition: len(coalition), PhiFrom: cp.String() + "/" + t.String(), Heights: []int64{th}}
	return f
}

func buildNilPaddedInvented(r *rand.Rand, ci *chainInfo, f *fork, t0, th int64, coalition map[string]bool, class string, round int32) *fork {
	chainID := ci.ch.ChainID
	trusted := ci.sets[t0]
	hdr := *ci.lbs[th].Header
	hdr.AppHash = randHash(r)
	// honest signers of nil: validators of the trusted set outside the coalition (preferring those still bonded at th)
	atTh := map[string]bool{}
	for _, v := range ci.sets[th].Validators {
		atTh[string(v.Address)] = true
	}
	var honest []*types.Validator
	for pass := 0; pass < 2; pass++ {
		for _, v := range trusted.Validators {
			if !coalition[string(v.Address)] && atTh[string(v.Address)] == (pass == 0) {
				honest = append(honest, v)
			}
		}
	}
	var kvals []*types.Validator
	for _, v := range trusted.Validators {
		if coalition[string(v.Address)] {
			kvals = append(kvals, v)
		}
	}
	size := 1 + len(kvals) + len(honest)
	hk := chaingen.Key(int64(ci.idx)*15485863+th, 800000)
	vs := []*types.Validator{types.NewValidator(hk.PubKey(), 1000000)}
	for j := 1; j < size; j++ {
		vs = append(vs, types.NewValidator(chaingen.Key(int64(ci.idx)*15485863+th, 800000+j).PubKey(), 1))
	}
	vals := types.NewValidatorSet(vs)
	vals.TotalVotingPower()
	hdr.ValidatorsHash, hdr.NextValidatorsHash = vals.Hash(), vals.Hash()
	bid := types.BlockID{Hash: hdr.Hash(), PartSetHeader: types.PartSetHeader{Total: 1, Hash: randHash(r)}}
	base := hdr.Time.Add(500 * time.Millisecond)
	sigs := make([]types.CommitSig, 0, size)
	sigs = append(sigs, padSig(chainID, types.NewMockPVWithParams(hk, false, false), vals.Validators[0].Address, th, round, bid, base))
	var rest []types.CommitSig
	for i, v := range kvals {
		rest = append(rest, padSig(chainID, ci.ch.Keys[string(v.Address)], v.Address, th, round, bid, base.Add(time.Duration(i+1)*time.Millisecond)))
	}
	for i, v := range honest { // genuine precommits for nil: empty block id
		rest = append(rest, padSig(chainID, ci.ch.Keys[string(v.Address)], v.Address, th, round, types.BlockID{}, base.Add(time.Duration(100+i)*time.Millisecond)))
	}
	r.Shuffle(len(rest), func(i, j int) { rest[i], rest[j] = rest[j], rest[i] })
	sigs = append(sigs, rest...)
	hc := hdr
	f.blocks[th] = &types.LightBlock{SignedHeader: &types.SignedHeader{Header: &hc, Commit: types.NewCommit(th, round, bid, sigs)}, ValidatorSet: vals}
	f.hdrs[th] = &hc
	cp0, t00 := powerOf(trusted, coalition)
	f.desc = forkDesc{Kind: fmt.Sprintf("commit padded with genuine nil precommits, own validator set adversary-made (round %d, %d nil slots of trusted validators; for-block power %s/%s of the trusted set)",
		round, len(honest), cp0, t00), From: th, To: th, Class: class, Coalition: len(coalition), PhiFrom: cp0.String() + "/" + t00.String(), Heights: []int64{th}}
	return f
}

// genNilRecipe: recipe family "nil-padded commit" (see buildNilPadded); deliveries as in genPadRecipe:
//
//	0 primary + colluding witness, non-adjacent target, skipping mode (direct jump and, when that cannot
//	  be trusted, bisection whose last step is the adjacent one onto the forged header)
//	1 adjacent step: sequential mode, or skipping mode with target = root+1
//	2 the primary fails the target request; a promoted witness supplies it, another witness colludes
//	3 honest primary; a witness serves it as its conflicting header (detector path); another witness is honest
func genNilRecipe(r *rand.Rand, k int, pool []*chainInfo) *scenario {
	ci := pool[(k*5+4)%len(pool)]
	sc := &scenario{ci: ci}
	d := &sc.desc
	d.Stream, d.Case = "recipe-nil", k
	d.Chain, d.ChainLen, d.Churn, d.Vals = ci.idx, ci.n, ci.churn, ci.nvals
	n := ci.n
	delivery := k % 4
	tl := [][2]int64{{1, 3}, {1, 2}, {2, 3}}[(k/4)%3]
	class := []string{"one validator below 1/3", "between 1/3 and 2/3"}[(k/12)%2]
	round := int32((k / 24) % 3)
	someAbsent := (k/72)%2 == 1
	d.Mode = "skipping"
	d.Root = between(r, 1, n-6)
	target := between(r, d.Root+2, min64(n, d.Root+40))
	if delivery == 1 {
		if (k/4)%2 == 0 {
			d.Mode = "sequential"
			target = between(r, d.Root+1, min64(n, d.Root+8))
		} else {
			target = d.Root + 1
		}
	}
	if d.Mode == "sequential" {
		tl = [2]int64{1, 3}
	}
	d.TrustNum, d.TrustDen = tl[0], tl[1]
	period := time.Duration(n+50) * ci.interval * 2
	d.PeriodMs = period.Milliseconds()
	drift := 5 * time.Millisecond
	d.DriftMs = 5
	sc.par = params{chainID: ci.ch.ChainID, period: period, drift: drift, num: tl[0], den: tl[1]}
	d.DeltaUs = 300
	invented := delivery != 1 && (k/4)%2 == 1
	own := ci.sets[target]
	if invented { // the coalition is one validator holding less than 1/3 of the TRUSTED set
		class = "one validator below 1/3"
		own = ci.sets[d.Root]
	}
	if class == "between 1/3 and 2/3" {
		sc.coalition = pickCoalition(r, ci, "mid", target, target)
	} else {
		sc.coalition = map[string]bool{}
		tot := own.TotalVotingPower()
		var K *types.Validator
		for _, i := range r.Perm(own.Size()) {
			v := own.Validators[i]
			if v.VotingPower*3 < tot && (K == nil || r.Intn(2) == 0) {
				K = v
			}
		}
		if K != nil {
			sc.coalition[string(K.Address)] = true
		}
	}
	f := buildNilPadded(r, ci, d.Root, target, sc.coalition, class, round, someAbsent, invented)
	sc.forks = append(sc.forks, f)
	d.Recipe = fmt.Sprintf("nil-padded commit, delivery %d: %s", delivery, f.desc.Kind)
	now := ci.time(n).Add(2 * time.Second)
	cd := callDesc{Op: []string{"verify_at", "verify_header"}[(k/5)%2], Height: target, now: now, NowMs: now.Sub(ci.ch.Opt.GenesisTime).Milliseconds()}
	forged := *f.hdrs[target]
	switch delivery {
	case 0, 1:
		p := sc.newProv(r, 0, "primary", "fork", ci.forkView(f))
		p.reliable = true
		w := sc.newProv(r, 1, "witness", "fork", ci.forkView(f))
		w.reliable = true
		sc.provs = []*prov{p, w}
		if (k/16)%2 == 1 {
			q := sc.newProv(r, 2, "witness", "silent", ci.canonView())
			q.desc.Rules = []rule{{Act: "noresp", HLo: d.Root + 1}}
			sc.provs = append(sc.provs, q)
		}
		cd.hdr, cd.HdrFrom = &forged, "fork"
	case 2:
		p := sc.newProv(r, 0, "primary", "flaky", ci.canonView())
		p.desc.Rules = []rule{{Act: []string{"noresp", "notfound"}[(k/16)%2], HLo: target, HHi: target}}
		w1 := sc.newProv(r, 1, "witness", "fork", ci.forkView(f))
		w1.reliable = true
		w2 := sc.newProv(r, 2, "witness", "fork", ci.forkView(f))
		w2.reliable = true
		sc.provs = []*prov{p, w1, w2}
		cd.hdr, cd.HdrFrom = &forged, "fork"
	default:
		p := sc.newProv(r, 0, "primary", "honest", ci.canonView())
		p.reliable = true
		w1 := sc.newProv(r, 1, "witness", "fork", ci.forkView(f))
		w1.reliable = true
		w2 := sc.newProv(r, 2, "witness", "honest", ci.canonView())
		w2.reliable = true
		sc.provs = []*prov{p, w1, w2}
		hc := *ci.lbs[target].Header
		cd.hdr, cd.HdrFrom = &hc, "canonical"
	}
	ids := make([]int, 0, len(sc.provs)-1)
	for i := 1; i < len(sc.provs); i++ {
		ids = append(ids, i)
	}
	cd.Perm = append([]int{0}, nthPerm(ids, k/2)...)
	d.Calls = []callDesc{cd}
	d.InitPerm = append([]int{0}, ids...)
	for _, f := range sc.forks {
		d.Forks = append(d.Forks, f.desc)
	}
	for _, q := range sc.provs {
		d.Providers = append(d.Providers, q.desc)
	}
	return sc
}

// ---------------------------------------------------------------- targets between / below trusted headers

// genMidRecipe: the client has already advanced; then it is asked for a height h that lies BETWEEN headers
// it trusts (the trace starts at the trusted block just below h, not at the latest one), or BELOW the first
// trusted header (backwards verification).  The primary serves a forged header for h that it can back
// (equivocation / amnesia / lunatic-next signed by > 2/3 of the genuine sets, or - skipping mode - a lunatic
// header signed by > 2/3 of the trusted set just below h).  Witnesses: (a) honest, (b) honest + accomplice
// repeating the forgery, (c) accomplice only; every release order over the recipe index.
// (a), (b): attack error, evidence to both sides, nothing stored for h, the honest witness stays (clause D).
// (c): decided by clauses A-C.  Backwards: no witness is consulted by design; a forged header is outside
// the hash chain and must not be stored (clause A, backwards), a genuine one may be.
func genMidRecipe(r *rand.Rand, k int, pool []*chainInfo) *scenario {
	ci := pool[(k*3+1)%len(pool)]
	sc := &scenario{ci: ci}
	d := &sc.desc
	d.Stream, d.Case = "recipe-mid", k
	d.Chain, d.ChainLen, d.Churn, d.Vals = ci.idx, ci.n, ci.churn, ci.nvals
	n := ci.n
	wcfg := k % 3 // a | b | c
	place := []string{"between", "between", "between", "backwards"}[(k/3)%4]
	kind := []string{"equivocation", "lunatic", "amnesia", "lunatic-next"}[(k/12)%4]
	d.Mode = []string{"skipping", "sequential"}[(k/48)%2]
	if kind == "lunatic" {
		d.Mode = "skipping"
	}
	tl := [][2]int64{{1, 3}, {1, 2}, {2, 3}}[(k/6)%3]
	if d.Mode == "sequential" {
		tl = [2]int64{1, 3}
	}
	d.TrustNum, d.TrustDen = tl[0], tl[1]
	period := time.Duration(n+50) * ci.interval * 2
	d.PeriodMs = period.Milliseconds()
	drift := 5 * time.Millisecond
	d.DriftMs = 5
	sc.par = params{chainID: ci.ch.ChainID, period: period, drift: drift, num: tl[0], den: tl[1]}
	d.DeltaUs = 300
	// heights: root < (mid) < h < hi   or   h < root
	var root, mid, h, hi int64
	withMid := (k/5)%2 == 1
	if place == "between" {
		root = between(r, 1, n/3)
		hi = between(r, root+6, min64(n, root+45))
		h = between(r, root+3, hi-1)
		if withMid {
			mid = between(r, root+1, h-1)
		}
	} else {
		root = between(r, 4, n-3)
		hi = between(r, root+1, min64(n, root+20))
		h = between(r, 1, root-1)
	}
	d.Root = root
	base := root // the trusted block just below h
	if mid > 0 {
		base = mid
	}
	names := []string{"a honest witness", "b honest witness and accomplice", "c accomplice only"}
	d.Recipe = fmt.Sprintf("%s, %s: %s forgery at height %d, trusted heights before the last call: %d %d %d", place, names[wcfg], kind, h, root, mid, hi)
	if place == "backwards" {
		sc.coalition = pickCoalition(r, ci, "high", h, h)
	} else if kind == "lunatic" {
		sc.coalition = pickCoalition(r, ci, "high", base, base)
	} else {
		sc.coalition = pickCoalition(r, ci, "high", base, h)
	}
	f := buildFork(r, ci, kind, h, h, sc.coalition, "high", map[int64]bool{h: true})
	f.desc.Kind += " (at the old height only)"
	sc.forks = append(sc.forks, f)
	honestPrimaryBackwards := place == "backwards" && (k/24)%2 == 1
	p := sc.newProv(r, 0, "primary", "fork", ci.forkView(f))
	if honestPrimaryBackwards {
		p = sc.newProv(r, 0, "primary", "honest", ci.canonView())
	}
	p.reliable = true
	sc.provs = []*prov{p}
	add := func(kind string, view viewFn) {
		w := sc.newProv(r, len(sc.provs), "witness", kind, view)
		w.reliable = true
		sc.provs = append(sc.provs, w)
	}
	switch wcfg {
	case 0:
		add("honest", ci.canonView())
		if honestPrimaryBackwards {
			sc.provs[1].view, sc.provs[1].desc.Kind = ci.forkView(f), "fork"
		}
	case 1:
		add("honest", ci.canonView())
		add("fork", ci.forkView(f))
	default:
		add("fork", ci.forkView(f))
	}
	if (k/7)%3 == 2 {
		q := sc.newProv(r, len(sc.provs), "witness", "silent", ci.canonView())
		q.desc.Rules = []rule{{Act: "noresp", HLo: 1, FromReq: 2}}
		sc.provs = append(sc.provs, q)
	}
	ids := make([]int, 0, len(sc.provs)-1)
	for i := 1; i < len(sc.provs); i++ {
		ids = append(ids, i)
	}
	now := ci.time(n).Add(2 * time.Second)
	mk := func(op string, height int64, perm []int) callDesc {
		cd := callDesc{Op: op, Height: height, now: now, NowMs: now.Sub(ci.ch.Opt.GenesisTime).Milliseconds(), Perm: append([]int{0}, perm...)}
		if op == "verify_header" {
			src := ci.lbs[height].Header
			if fh, ok := f.hdrs[height]; ok && !honestPrimaryBackwards {
				src = fh
			}
			hc := *src
			cd.hdr, cd.HdrFrom = &hc, "as served by the primary"
		}
		return cd
	}
	// how the client got ahead: by real calls, or (always for the lunatic kinds, whose forged block would
	// break the walk over h) restored from a trusted store that already holds the later headers
	if place == "between" && (kind == "lunatic" || kind == "lunatic-next" || (k/2)%2 == 1) {
		d.FromStore = true
		d.Preload = []int64{hi}
		if mid > 0 {
			d.Preload = append(d.Preload, mid)
		}
	} else {
		d.Calls = append(d.Calls, mk("verify_at", hi, ids))
		if mid > 0 {
			d.Calls = append(d.Calls, mk("verify_at", mid, ids))
		}
	}
	last := mk([]string{"verify_at", "verify_header"}[(k/4)%2], h, nthPerm(ids, k/3))
	if len(ids) >= 2 && (k/9)%2 == 1 {
		// the lowest-priority witness really replies last
		last.Holds = map[int]hold{last.Perm[len(last.Perm)-1]: {Other: last.Perm[1], N: 2, Quiet: 20 * time.Millisecond}}
	}
	d.Calls = append(d.Calls, last)
	d.InitPerm = append([]int{0}, ids...)
	for _, f := range sc.forks {
		d.Forks = append(d.Forks, f.desc)
	}
	for _, q := range sc.provs {
		d.Providers = append(d.Providers, q.desc)
	}
	return sc
}
