package c09

import (
	"bytes"
	"math/big"
	"sort"
	"time"

	"github.com/tendermint/tendermint/types"

	"verif/ref"
)

// The reference side of C09, written from the property statement:
//
//   a stored header must be reachable from what was trusted before by steps in
//   which the new header is well formed, later in height and time, not from
//   the future, signed by more than two thirds of its own validator set, and
//   either adjacent with matching next-validators hash or signed by at least
//   the trust level of the previous trusted set, the previous header being
//   inside the trusting period.
//
// Nothing here calls light.Verify*, ValidatorSet.VerifyCommit*, ValidateBasic
// or Commit.VoteSignBytes.  Shared with the implementation: Header.Hash and
// Validator.Bytes (protobuf encoding + Merkle of plain data), ed25519, and
// ref.PrecommitSignBytes / ref.MerkleRoot from the harness' own reference code.
//
// Every comparison takes the reading that is MORE permissive wherever the
// statement leaves room ("at least the trust level" is >=, equality at the
// expiry and clock-drift boundaries is accepted, a signer is identified by its
// public key rather than by commit slot or address), so that the oracle can
// only flag headers that no reading justifies.

type params struct {
	chainID string
	period  time.Duration
	drift   time.Duration
	num     int64
	den     int64
}

type oracle struct {
	p      params
	ci     *chainInfo
	cache  *ref.SigCache                    // per scenario: forged commits
	sets   map[string][]*types.ValidatorSet // validator sets known to the oracle, by hash
	ownMem map[*types.LightBlock]int        // 0 unknown, 1 ok, 2 not ok
	wfMem  map[*types.LightBlock]int
}

func newOracle(p params, ci *chainInfo) *oracle {
	o := &oracle{p: p, ci: ci, cache: ref.NewSigCache(), sets: map[string][]*types.ValidatorSet{},
		ownMem: map[*types.LightBlock]int{}, wfMem: map[*types.LightBlock]int{}}
	return o
}

func valsHash(vs *types.ValidatorSet) []byte {
	if vs == nil {
		return nil
	}
	leaves := make([][]byte, len(vs.Validators))
	for i, v := range vs.Validators {
		if v == nil || v.PubKey == nil {
			return nil
		}
		leaves[i] = v.Bytes()
	}
	return ref.MerkleRoot(leaves)
}

func (o *oracle) learnSet(vs *types.ValidatorSet) {
	h := valsHash(vs)
	if h == nil {
		return
	}
	for _, k := range o.sets[string(h)] {
		if k == vs {
			return
		}
	}
	if len(o.sets[string(h)]) < 4 {
		o.sets[string(h)] = append(o.sets[string(h)], vs)
	}
}

func (o *oracle) setsFor(hash []byte) []*types.ValidatorSet {
	out := o.sets[string(hash)]
	return out
}

// wellFormed: the checks the statement calls "well formed", done on plain data.
func (o *oracle) wellFormed(lb *types.LightBlock) bool {
	if m := o.wfMem[lb]; m != 0 {
		return m == 1
	}
	ok := func() bool {
		if lb == nil || lb.SignedHeader == nil || lb.Header == nil || lb.Commit == nil || lb.ValidatorSet == nil {
			return false
		}
		if len(lb.ValidatorSet.Validators) == 0 {
			return false
		}
		for _, v := range lb.ValidatorSet.Validators {
			if v == nil || v.PubKey == nil || v.VotingPower < 0 {
				return false
			}
		}
		if lb.Header.ChainID != o.p.chainID {
			return false
		}
		if lb.Header.Height <= 0 || lb.Commit.Height != lb.Header.Height {
			return false
		}
		hh := lb.Header.Hash()
		if len(hh) == 0 || !bytes.Equal(lb.Commit.BlockID.Hash, hh) {
			return false
		}
		if !bytes.Equal(valsHash(lb.ValidatorSet), lb.Header.ValidatorsHash) {
			return false
		}
		return true
	}()
	if ok {
		o.wfMem[lb] = 1
	} else {
		o.wfMem[lb] = 2
	}
	return ok
}

// signedPower: total power of the distinct members of vals (by position in vals)
// for which SOME for-the-block slot of the commit carries a signature valid
// under that member's public key over (chain id, commit height, commit round,
// commit block id, slot timestamp).
func (o *oracle) signedPower(vals *types.ValidatorSet, commit *types.Commit) (signed, total *big.Int) {
	signed, total = new(big.Int), new(big.Int)
	cache := o.cache
	if o.ci.canon[string(commit.BlockID.Hash)] {
		cache = o.ci.cache
	}
	byAddr := map[string][]int{}
	for i, v := range vals.Validators {
		total.Add(total, big.NewInt(v.VotingPower))
		byAddr[string(v.Address)] = append(byAddr[string(v.Address)], i)
	}
	counted := make([]bool, len(vals.Validators))
	var leftover []int
	for si, s := range commit.Signatures {
		if s.BlockIDFlag != types.BlockIDFlagCommit {
			continue
		}
		msg := ref.PrecommitSignBytes(o.p.chainID, commit.Height, commit.Round, commit.BlockID, s.Timestamp)
		hit := false
		try := func(i int) bool {
			if i < 0 || i >= len(counted) || counted[i] {
				return false
			}
			if cache.Verify(vals.Validators[i].PubKey, msg, s.Signature) {
				counted[i] = true
				signed.Add(signed, big.NewInt(vals.Validators[i].VotingPower))
				return true
			}
			return false
		}
		if try(si) { // same slot
			continue
		}
		for _, i := range byAddr[string(s.ValidatorAddress)] {
			if try(i) {
				hit = true
				break
			}
		}
		if !hit {
			leftover = append(leftover, si)
		}
	}
	// most permissive reading: a signature counts for whichever member's key it verifies under.
	// Only tried for small sets (the harness never builds commits that need it for large ones).
	if len(leftover) > 0 && len(vals.Validators) <= 16 {
		for _, si := range leftover {
			s := commit.Signatures[si]
			msg := ref.PrecommitSignBytes(o.p.chainID, commit.Height, commit.Round, commit.BlockID, s.Timestamp)
			for i := range vals.Validators {
				if !counted[i] && cache.Verify(vals.Validators[i].PubKey, msg, s.Signature) {
					counted[i] = true
					signed.Add(signed, big.NewInt(vals.Validators[i].VotingPower))
					break
				}
			}
		}
	}
	return
}

// ownTwoThirds: more than two thirds of the block's own validator set signed it.
func (o *oracle) ownTwoThirds(lb *types.LightBlock) bool {
	if m := o.ownMem[lb]; m != 0 {
		return m == 1
	}
	s, t := o.signedPower(lb.ValidatorSet, lb.Commit)
	ok := ref.FractionExceeded(s, t, 2, 3)
	if ok {
		o.ownMem[lb] = 1
	} else {
		o.ownMem[lb] = 2
	}
	return ok
}

// atLeast: den*sum >= num*total.
func atLeast(sum, total *big.Int, num, den int64) bool {
	l := new(big.Int).Mul(big.NewInt(den), sum)
	r := new(big.Int).Mul(big.NewInt(num), total)
	return l.Cmp(r) >= 0
}

// refLightStep: may `next` be trusted given that `prev` is?
func (o *oracle) refLightStep(prev, next *types.LightBlock, now time.Time) bool {
	if prev == nil || prev.SignedHeader == nil || prev.Header == nil {
		return false
	}
	if !o.wellFormed(next) {
		return false
	}
	if next.Height <= prev.Height || !next.Time.After(prev.Time) {
		return false
	}
	if next.Time.After(now.Add(o.p.drift)) { // from the future
		return false
	}
	if prev.Time.Add(o.p.period).Before(now) { // previous header outside the trusting period
		return false
	}
	if !o.ownTwoThirds(next) {
		return false
	}
	if next.Height == prev.Height+1 && bytes.Equal(next.ValidatorsHash, prev.NextValidatorsHash) {
		return true
	}
	// at least the trust level of the previous trusted set (the set of prev's height or its successor)
	cands := append([]*types.ValidatorSet{}, o.setsFor(prev.ValidatorsHash)...)
	cands = append(cands, o.setsFor(prev.NextValidatorsHash)...)
	if prev.ValidatorSet != nil {
		if h := valsHash(prev.ValidatorSet); h != nil && (bytes.Equal(h, prev.ValidatorsHash) || bytes.Equal(h, prev.NextValidatorsHash)) {
			cands = append(cands, prev.ValidatorSet)
		}
	}
	for _, vs := range cands {
		s, t := o.signedPower(vs, next.Commit)
		if t.Sign() > 0 && atLeast(s, t, o.p.num, o.p.den) {
			return true
		}
	}
	return false
}

// reachable: is target reachable from `trusted` by reference steps through the candidate blocks?
func (o *oracle) reachable(trusted []*types.LightBlock, cands []*types.LightBlock, target *types.LightBlock, now time.Time) bool {
	nodes := append([]*types.LightBlock{}, cands...)
	nodes = append(nodes, target)
	var ok []*types.LightBlock
	for _, n := range nodes {
		if n != nil && n.SignedHeader != nil && n.Header != nil && n.Commit != nil && n.ValidatorSet != nil {
			ok = append(ok, n)
			o.learnSet(n.ValidatorSet)
		}
	}
	nodes = ok
	sort.SliceStable(nodes, func(i, j int) bool { return nodes[i].Height < nodes[j].Height })
	reached := append([]*types.LightBlock{}, trusted...)
	for _, t := range trusted {
		if t != nil && t.ValidatorSet != nil {
			o.learnSet(t.ValidatorSet)
		}
	}
	seenHash := map[string]bool{}
	tHash := string(target.Hash())
	for _, b := range nodes {
		k := string(b.Hash()) + "/" + string(b.Commit.Hash())
		isTarget := b == target
		if seenHash[k] && !isTarget {
			continue
		}
		// nearest first
		for i := len(reached) - 1; i >= 0; i-- {
			a := reached[i]
			if a.Height >= b.Height {
				continue
			}
			if o.refLightStep(a, b, now) {
				if isTarget || string(b.Hash()) == tHash && b.Height == target.Height {
					// the stored header is what the statement is about; any justified light block carrying it suffices
					return true
				}
				seenHash[k] = true
				reached = append(reached, b)
				sort.SliceStable(reached, func(i, j int) bool { return reached[i].Height < reached[j].Height })
				break
			}
		}
	}
	return false
}

// backChain: is target's header bound by hashes to a header trusted before?  Links are
// LastBlockID.Hash of the later header == hash of the earlier one.
func (o *oracle) backChain(trusted []*types.LightBlock, cands []*types.LightBlock, target *types.LightBlock) bool {
	if target == nil || target.SignedHeader == nil || target.Header == nil || target.Header.ChainID != o.p.chainID {
		return false
	}
	// parent pointers: hash -> LastBlockID.Hash, for every header seen
	byHash := map[string]*types.Header{}
	add := func(lb *types.LightBlock) {
		if lb != nil && lb.SignedHeader != nil && lb.Header != nil {
			byHash[string(lb.Header.Hash())] = lb.Header
		}
	}
	for _, c := range cands {
		add(c)
	}
	add(target)
	want := string(target.Header.Hash())
	for _, t := range trusted {
		if t == nil || t.SignedHeader == nil || t.Header == nil || t.Height <= target.Height {
			continue
		}
		cur := t.Header
		for steps := 0; steps < 100000 && cur != nil && cur.Height > target.Height; steps++ {
			ph := string(cur.LastBlockID.Hash)
			if ph == want && cur.Height == target.Height+1 {
				return true
			}
			nxt := byHash[ph]
			if nxt == nil || nxt.Height != cur.Height-1 {
				break
			}
			cur = nxt
		}
	}
	return false
}

// adjacentValid: is view(lo..hi) a chain in which every consecutive pair passes the reference step
// as an ADJACENT step (used to decide whether a provider "can back" its header, clause D)?
func (o *oracle) adjacentValid(view viewFn, lo, hi int64, now time.Time) bool {
	prev := view(lo)
	if prev == nil {
		return false
	}
	for h := lo + 1; h <= hi; h++ {
		b := view(h)
		if b == nil || !o.wellFormed(b) {
			return false
		}
		if !bytes.Equal(b.ValidatorsHash, prev.NextValidatorsHash) || !b.Time.After(prev.Time) ||
			b.Time.After(now.Add(o.p.drift-time.Nanosecond)) || !prev.Time.Add(o.p.period).After(now) || !o.ownTwoThirds(b) {
			return false
		}
		prev = b
	}
	return true
}

// stepStrict: is next acceptable from prev in ONE non-adjacent step under the STRICT reading of every
// comparison (strictly more than the trust level of prev's own validator set, strictly inside the
// clock-drift and trusting-period bounds)?  Used only to decide whether a provider "can back" its header
// (clause D); a header that passes this passes every reading.
func (o *oracle) stepStrict(prev, next *types.LightBlock, now time.Time) bool {
	if prev == nil || next == nil || prev.ValidatorSet == nil || !o.wellFormed(next) || next.Height <= prev.Height+1 {
		return false
	}
	if !next.Time.After(prev.Time) || !next.Time.Before(now.Add(o.p.drift)) || !prev.Time.Add(o.p.period).After(now) {
		return false
	}
	if !bytes.Equal(valsHash(prev.ValidatorSet), prev.ValidatorsHash) || !o.ownTwoThirds(next) {
		return false
	}
	s, t := o.signedPower(prev.ValidatorSet, next.Commit)
	return t.Sign() > 0 && ref.FractionExceeded(s, t, uint64(o.p.num), uint64(o.p.den))
}
