package c13

// Scripted peers (honest and lying) on channel 0x40, the block / commit forger
// they use, and the scheduler that permutes the order in which their responses
// are released.

import (
	"bytes"
	"fmt"
	"math/rand"
	"strings"
	"sync"
	"sync/atomic"
	"time"

	"github.com/gogo/protobuf/proto"

	bc "github.com/tendermint/tendermint/blockchain"
	bcv0 "github.com/tendermint/tendermint/blockchain/v0"
	"github.com/tendermint/tendermint/p2p"
	bcproto "github.com/tendermint/tendermint/proto/tendermint/blockchain"
	tmproto "github.com/tendermint/tendermint/proto/tendermint/types"
	"github.com/tendermint/tendermint/types"
)

// ---- forging

func cloneBlock(b *types.Block) *types.Block {
	pb, err := b.ToProto()
	if err != nil {
		panic(err)
	}
	nb, err := types.BlockFromProto(pb)
	if err != nil {
		panic(err)
	}
	return nb
}

func cloneCommit(c *types.Commit) *types.Commit {
	sigs := make([]types.CommitSig, len(c.Signatures))
	for i, s := range c.Signatures {
		sigs[i] = types.CommitSig{BlockIDFlag: s.BlockIDFlag, ValidatorAddress: append([]byte(nil), s.ValidatorAddress...),
			Timestamp: s.Timestamp, Signature: append([]byte(nil), s.Signature...)}
		if s.BlockIDFlag == types.BlockIDFlagAbsent {
			sigs[i] = types.NewCommitSigAbsent()
		}
	}
	return types.NewCommit(c.Height, c.Round, c.BlockID, sigs)
}

func garbage(seed int64, n int) []byte {
	b := make([]byte, n)
	rand.New(rand.NewSource(seed)).Read(b)
	return b
}

func otherBlockID(id types.BlockID) types.BlockID {
	h := append([]byte(nil), id.Hash...)
	h[0] ^= 0xff
	return types.BlockID{Hash: h, PartSetHeader: id.PartSetHeader}
}

// alteredCommit applies one alteration to the canonical commit of height g.  Signatures of validators
// outside F are only ever copied from the canonical chain or made up; F's keys sign whatever is asked.
func (w *world) alteredCommit(g int64, op string, slot int) *types.Commit {
	rec := w.rec(g)
	vals := rec.StateBefore.Validators
	cm := cloneCommit(rec.Commit)
	s := &cm.Signatures[slot]
	val := vals.Validators[slot]
	ts := w.c.VoteTime(g, slot)
	seed := g*1000 + int64(slot)
	mustF := func() {
		if !w.F[string(val.Address)] {
			panic("c13: alteration needs a liar-controlled validator")
		}
	}
	switch op {
	case "forge", "nilGarbage":
		s.Signature = garbage(seed, 64)
	case "tsShift":
		s.Timestamp = s.Timestamp.Add(time.Millisecond)
	case "addrSwap", "nilAddrSwap":
		s.ValidatorAddress = append([]byte(nil), vals.Validators[(slot+1)%vals.Size()].Address...)
	case "dup":
		for k := range cm.Signatures {
			if k != slot && cm.Signatures[k].BlockIDFlag == types.BlockIDFlagCommit {
				s.Signature = append([]byte(nil), cm.Signatures[k].Signature...)
				s.Timestamp = cm.Signatures[k].Timestamp
				break
			}
		}
	case "flagNil":
		s.BlockIDFlag = types.BlockIDFlagNil
	case "nilAsCommit":
		s.BlockIDFlag = types.BlockIDFlagCommit
	case "fRound":
		mustF()
		v := w.c.SignVote(vals, slot, tmproto.PrecommitType, g, cm.Round+1, rec.BlockID, ts)
		*s = v.CommitSig()
	case "fOtherBlock":
		mustF()
		v := w.c.SignVote(vals, slot, tmproto.PrecommitType, g, cm.Round, otherBlockID(rec.BlockID), ts)
		*s = v.CommitSig() // flagged commit, but signed for another block
	case "absentForgedCommit":
		*s = types.CommitSig{BlockIDFlag: types.BlockIDFlagCommit, ValidatorAddress: append([]byte(nil), val.Address...), Timestamp: ts, Signature: garbage(seed, 64)}
	case "absentForgedNil":
		*s = types.CommitSig{BlockIDFlag: types.BlockIDFlagNil, ValidatorAddress: append([]byte(nil), val.Address...), Timestamp: ts, Signature: garbage(seed, 64)}
	case "fExtraValid":
		mustF()
		v := w.c.SignVote(vals, slot, tmproto.PrecommitType, g, cm.Round, rec.BlockID, ts)
		*s = v.CommitSig()
	case "fNilValid":
		mustF()
		v := w.c.SignVote(vals, slot, tmproto.PrecommitType, g, cm.Round, types.BlockID{}, ts)
		*s = v.CommitSig()
	default:
		panic("c13: unknown alteration " + op)
	}
	return types.NewCommit(cm.Height, cm.Round, cm.BlockID, cm.Signatures)
}

// liarCommit: a commit for (g, id) in which only F's slots carry genuine signatures.
func (w *world) liarCommit(vals *types.ValidatorSet, g int64, id types.BlockID, copyFrom *types.Commit) *types.Commit {
	sigs := make([]types.CommitSig, vals.Size())
	for i, v := range vals.Validators {
		ts := w.c.VoteTime(g, i)
		switch {
		case w.F[string(v.Address)]:
			sigs[i] = w.c.SignVote(vals, i, tmproto.PrecommitType, g, 0, id, ts).CommitSig()
		case copyFrom != nil && i < len(copyFrom.Signatures) && copyFrom.Signatures[i].BlockIDFlag == types.BlockIDFlagCommit:
			c := copyFrom.Signatures[i] // a genuine signature, but for the canonical block
			sigs[i] = types.CommitSig{BlockIDFlag: types.BlockIDFlagCommit, ValidatorAddress: append([]byte(nil), v.Address...), Timestamp: c.Timestamp, Signature: append([]byte(nil), c.Signature...)}
		default:
			sigs[i] = types.CommitSig{BlockIDFlag: types.BlockIDFlagCommit, ValidatorAddress: append([]byte(nil), v.Address...), Timestamp: ts, Signature: garbage(g*977+int64(i), 64)}
		}
	}
	return types.NewCommit(g, 0, id, sigs)
}

// round0Commit assembles, from genuine signatures only, a round-0 "commit" of height g for block id:
// F's validators precommit id (they sign whatever is asked); an honest validator contributes the one
// precommit it really cast in the failed round 0 — for the canonical block (usable only if id is that
// block) or for nil.  Some nil slots are left out (absent) as long as the signed power stays above 2/3.
func (w *world) round0Commit(g int64, id types.BlockID, seed int64) *types.Commit {
	rec := w.rec(g)
	vals := rec.StateBefore.Validators
	voters, ok := w.failed[g]
	if !ok {
		panic("c13: round0Commit for a height whose round 0 did not fail")
	}
	r := rand.New(rand.NewSource(seed))
	sigs := make([]types.CommitSig, vals.Size())
	var total, signed int64
	for i, v := range vals.Validators {
		total += v.VotingPower
		ts := w.c.VoteTime(g, i)
		switch {
		case w.F[string(v.Address)]:
			sigs[i] = w.c.SignVote(vals, i, tmproto.PrecommitType, g, 0, id, ts).CommitSig()
		case voters[i]:
			if !id.Equals(rec.BlockID) {
				sigs[i] = types.NewCommitSigAbsent() // this validator's round-0 precommit is for the canonical block
				continue
			}
			sigs[i] = w.c.SignVote(vals, i, tmproto.PrecommitType, g, 0, id, ts).CommitSig()
		default:
			sigs[i] = w.c.SignVote(vals, i, tmproto.PrecommitType, g, 0, types.BlockID{}, ts).CommitSig()
		}
		signed += v.VotingPower
	}
	for _, i := range r.Perm(vals.Size()) {
		pw := vals.Validators[i].VotingPower
		if sigs[i].BlockIDFlag == types.BlockIDFlagNil && 3*(signed-pw) > 2*total && r.Intn(3) == 0 {
			sigs[i] = types.NewCommitSigAbsent()
			signed -= pw
		}
	}
	return types.NewCommit(g, 0, id, sigs)
}

// quorumCommit: a commit of height g whose for-block power sits at the quorum boundary but is never
// above two thirds.  forX: for the minority block X, signed by a coalition of exactly that power (its
// members equivocate; nobody else ever signs X) — the other slots are absent, or carry the honest
// validators' genuine round-0 precommits for nil where round 0 of g failed.  Otherwise: for the
// canonical block, the canonical commit with for-block slots blanked out down to that power.
func (w *world) quorumCommit(g int64, forX bool, variant int64, seed int64) *types.Commit {
	rec := w.rec(g)
	vals := rec.StateBefore.Validators
	r := rand.New(rand.NewSource(seed))
	var total int64
	for _, v := range vals.Validators {
		total += v.VotingPower
	}
	target := quorumTarget(total, variant)
	if !forX {
		var cand []int
		for i, sg := range rec.Commit.Signatures {
			if sg.BlockIDFlag == types.BlockIDFlagCommit {
				cand = append(cand, i)
			}
		}
		keep, _ := subsetWithPower(r, vals, cand, target, false)
		cm := cloneCommit(rec.Commit)
		for _, i := range cand {
			if !keep[i] {
				cm.Signatures[i] = types.NewCommitSigAbsent()
			}
		}
		return types.NewCommit(cm.Height, cm.Round, cm.BlockID, cm.Signatures)
	}
	all := make([]int, vals.Size())
	for i := range all {
		all[i] = i
	}
	q, _ := subsetWithPower(r, vals, all, target, false)
	id := blockIDOf(w.wrongTxsBlock(g))
	round := rec.Commit.Round
	voters, failed := w.failed[g]
	useNil := failed && r.Intn(2) == 0
	if useNil {
		round = 0
	}
	sigs := make([]types.CommitSig, vals.Size())
	for i, v := range vals.Validators {
		ts := w.c.VoteTime(g, i)
		switch {
		case q[i]:
			sigs[i] = w.c.SignVote(vals, i, tmproto.PrecommitType, g, round, id, ts).CommitSig()
		case useNil && !voters[i] && !w.F[string(v.Address)]:
			sigs[i] = w.c.SignVote(vals, i, tmproto.PrecommitType, g, 0, types.BlockID{}, ts).CommitSig()
		default:
			sigs[i] = types.NewCommitSigAbsent()
		}
	}
	return types.NewCommit(g, round, id, sigs)
}

// replicatedCommit: right size, height, round and block id, but every filled slot carries the same
// byzantine validator's single valid precommit for the block (X, or the canonical one): signature and
// timestamp copied, the address either the byzantine validator's or the slot owner's.  The byzantine
// validator holds less than 1/3.  Unfilled slots are absent, or carry the honest validators' genuine
// round-0 nil precommits where round 0 of g failed.
func (w *world) replicatedCommit(g int64, forX bool, op string, seed int64) *types.Commit {
	rec := w.rec(g)
	vals := rec.StateBefore.Validators
	r := rand.New(rand.NewSource(seed))
	var total int64
	var fIdx []int
	small := -1
	for i, v := range vals.Validators {
		total += v.VotingPower
		if w.F[string(v.Address)] {
			fIdx = append(fIdx, i)
		}
		if small < 0 || v.VotingPower < vals.Validators[small].VotingPower {
			small = i
		}
	}
	byz := small
	if len(fIdx) > 0 {
		byz = fIdx[r.Intn(len(fIdx))]
	}
	pb := vals.Validators[byz].VotingPower
	id := rec.BlockID
	if forX {
		id = blockIDOf(w.wrongTxsBlock(g))
	}
	if 3*pb >= total { // no validator below 1/3 in this set: fall back to a plain minority commit
		return w.liarCommit(vals, g, id, nil)
	}
	round := rec.Commit.Round
	voters, failed := w.failed[g]
	useNil := failed && r.Intn(2) == 0
	if useNil {
		round = 0
	}
	base := w.c.SignVote(vals, byz, tmproto.PrecommitType, g, round, id, w.c.VoteTime(g, byz)).CommitSig()
	fill := map[int]bool{byz: true}
	if strings.HasPrefix(op, "all") {
		for i := range vals.Validators {
			fill[i] = true
		}
	} else {
		// just enough to exceed 2/3 whether a naive tally adds the byzantine validator's power per copy
		// or the power of each slot's owner
		copies, owners := int64(1), pb
		for _, i := range r.Perm(vals.Size()) {
			if 3*copies*pb > 2*total && 3*owners > 2*total {
				break
			}
			if !fill[i] {
				fill[i] = true
				copies++
				owners += vals.Validators[i].VotingPower
			}
		}
	}
	sigs := make([]types.CommitSig, vals.Size())
	for i, v := range vals.Validators {
		switch {
		case fill[i]:
			cs := types.CommitSig{BlockIDFlag: types.BlockIDFlagCommit, ValidatorAddress: append([]byte(nil), base.ValidatorAddress...),
				Timestamp: base.Timestamp, Signature: append([]byte(nil), base.Signature...)}
			if strings.HasSuffix(op, "ownerAddr") {
				cs.ValidatorAddress = append([]byte(nil), v.Address...)
			}
			sigs[i] = cs
		case useNil && !voters[i] && !w.F[string(v.Address)]:
			sigs[i] = w.c.SignVote(vals, i, tmproto.PrecommitType, g, 0, types.BlockID{}, w.c.VoteTime(g, i)).CommitSig()
		default:
			sigs[i] = types.NewCommitSigAbsent()
		}
	}
	return types.NewCommit(g, round, id, sigs)
}

// signedInvalid: the canonical block of height g with one header field changed to something the
// node's state does not prescribe (optionally also carrying a well-formed piece of evidence), and a
// genuine commit for it by the validators of g — all of them, or exactly a quorum.  The liars of this
// class hold the validators' keys.
func (w *world) signedInvalid(g int64, op string, withEvidence, quorumOnly bool) (*types.Block, *types.Commit) {
	rec := w.rec(g)
	vals := rec.StateBefore.Validators
	nb := cloneBlock(rec.Block)
	switch op {
	case "apphash":
		nb.AppHash = garbage(g+11, 32)
	case "resultshash":
		nb.LastResultsHash = garbage(g+12, 32)
	case "consensushash":
		nb.ConsensusHash = garbage(g+13, 32)
	case "time":
		nb.Time = nb.Time.Add(time.Second)
	case "valhash":
		nb.ValidatorsHash = garbage(g+14, 32)
	case "nextvalhash":
		nb.NextValidatorsHash = garbage(g+15, 32)
	case "proposer":
		nb.ProposerAddress = garbage(g+16, 20)
	case "lastblockid":
		nb.LastBlockID = otherBlockID(nb.LastBlockID)
	default:
		nb.Version.App++
	}
	if withEvidence {
		a := w.c.SignVote(vals, 0, tmproto.PrecommitType, g-1, 0, rec.BlockID, w.c.VoteTime(g-1, 0))
		b := w.c.SignVote(vals, 0, tmproto.PrecommitType, g-1, 0, otherBlockID(rec.BlockID), w.c.VoteTime(g-1, 0))
		ev := types.NewDuplicateVoteEvidence(a, b, rec.Block.Time, vals)
		if ev != nil {
			nb.Evidence.Evidence = types.EvidenceList{ev}
			nb.EvidenceHash = nb.Evidence.Evidence.Hash()
		}
	}
	id := blockIDOf(nb)
	var total int64
	all := make([]int, vals.Size())
	for i, v := range vals.Validators {
		total += v.VotingPower
		all[i] = i
	}
	signers := map[int]bool{}
	if quorumOnly {
		signers, _ = subsetWithPower(rand.New(rand.NewSource(g)), vals, all, 2*total/3+1, true)
	}
	cm := w.c.SignCommit(vals, g, 0, id, func(i int, _ *types.Validator) types.BlockIDFlag {
		if quorumOnly && !signers[i] {
			return types.BlockIDFlagAbsent
		}
		return types.BlockIDFlagCommit
	}, func(i int) time.Time { return w.c.VoteTime(g, i) })
	return nb, cm
}

func blockIDOf(b *types.Block) types.BlockID {
	return types.BlockID{Hash: b.Hash(), PartSetHeader: b.MakePartSet(types.BlockPartSizeBytes).Header()}
}

func withLastCommit(b *types.Block, cm *types.Commit) *types.Block {
	nb := cloneBlock(b)
	nb.LastCommit = cm
	nb.LastCommitHash = cm.Hash()
	return nb
}

// wrongTxsBlock: an internally consistent block for height h (same parent, same LastCommit) with other txs.
func (w *world) wrongTxsBlock(h int64) *types.Block {
	rec := w.rec(h)
	txs := append(types.Txs{types.Tx(fmt.Sprintf("liar-%d=1", h))}, rec.Block.Data.Txs...)
	b, _ := rec.StateBefore.MakeBlock(h, txs, rec.Block.LastCommit, nil, rec.Block.ProposerAddress)
	return b
}

// build returns what the peer sends for a request of height h: a block, or nil (+noBlock / silent).
func (w *world) build(p *PeerSpec, h int64) (blk *types.Block, noBlock, silent bool) {
	b := p.beh(h)
	if b.Kind != "fab" && (h < w.first || h > w.last) {
		return nil, true, false
	}
	switch b.Kind {
	case "honest":
		if h < p.Base || (p.Honest && h > p.Height) {
			return nil, true, false
		}
		return w.rec(h).Block, false, false
	case "altered":
		return withLastCommit(w.rec(h).Block, w.alteredCommit(h-1, b.Op, b.Slot)), false, false
	case "minority":
		prev := w.rec(h - 1)
		return withLastCommit(w.rec(h).Block, w.liarCommit(prev.StateBefore.Validators, h-1, prev.BlockID, nil)), false, false
	case "otherBlockCommit":
		prev := w.rec(h - 1)
		other := w.wrongTxsBlock(h - 1)
		oid := types.BlockID{Hash: other.Hash(), PartSetHeader: other.MakePartSet(types.BlockPartSizeBytes).Header()}
		return withLastCommit(w.rec(h).Block, w.liarCommit(prev.StateBefore.Validators, h-1, oid, prev.Commit)), false, false
	case "wrongTxs", "forkBlock":
		return w.wrongTxsBlock(h), false, false
	case "nilBackedFork":
		return withLastCommit(w.rec(h).Block, w.round0Commit(h-1, blockIDOf(w.wrongTxsBlock(h-1)), b.Arg)), false, false
	case "signedInvalid":
		nb, _ := w.signedInvalid(h, b.Op, b.Arg == 1, b.Slot == 1)
		return nb, false, false
	case "signedCarrier":
		_, cm := w.signedInvalid(h-1, b.Op, b.Arg == 1, b.Slot == 1)
		return withLastCommit(w.rec(h).Block, cm), false, false
	case "replicatedFork":
		return withLastCommit(w.rec(h).Block, w.replicatedCommit(h-1, true, b.Op, b.Arg)), false, false
	case "replicatedWeak":
		return withLastCommit(w.rec(h).Block, w.replicatedCommit(h-1, false, b.Op, b.Arg)), false, false
	case "quorumFork":
		return withLastCommit(w.rec(h).Block, w.quorumCommit(h-1, true, b.Arg, int64(b.Slot))), false, false
	case "quorumWeak":
		return withLastCommit(w.rec(h).Block, w.quorumCommit(h-1, false, b.Arg, int64(b.Slot))), false, false
	case "weakCommit":
		return withLastCommit(w.rec(h).Block, w.round0Commit(h-1, w.rec(h-1).BlockID, b.Arg)), false, false
	case "wrongHeader":
		nb := cloneBlock(w.rec(h).Block)
		switch b.Op {
		case "time":
			nb.Time = nb.Time.Add(time.Millisecond)
		case "proposer":
			vs := w.rec(h).StateBefore.Validators.Validators
			for _, v := range vs {
				if !bytes.Equal(v.Address, nb.ProposerAddress) {
					nb.ProposerAddress = append([]byte(nil), v.Address...)
					break
				}
			}
		case "apphash":
			nb.AppHash = garbage(h, 32)
		default:
			nb.ValidatorsHash = garbage(h+1, 32)
		}
		return nb, false, false
	case "wrongHeight":
		return w.rec(b.Arg).Block, false, false
	case "malformed":
		nb := cloneBlock(w.rec(h).Block)
		nb.DataHash = garbage(h+2, 32) // fails ValidateBasic
		return nb, false, false
	case "noblock":
		return nil, true, false
	case "silent":
		return nil, false, true
	case "fab":
		return w.fabricated(b), false, false
	}
	panic("c13: unknown behaviour " + b.Kind)
}

// fabricated blocks above the canonical tip.  The one at last+1 may carry the genuine commit of the
// tip (which lets the node sync the tip itself, legitimately); everything else is signed by F alone.
func (w *world) fabricated(b BehAt) *types.Block {
	st := w.c.State
	prop := st.Validators.GetProposer().Address
	txs := []types.Tx{types.Tx(fmt.Sprintf("fab-%d=1", b.H))}
	if b.H == w.last+1 {
		cm := w.rec(w.last).Commit
		if b.Op != "genuineLC" {
			cm = w.alteredCommit(w.last, b.Op, b.Slot)
		}
		blk, _ := st.MakeBlock(b.H, txs, cm, nil, prop)
		return blk
	}
	prev := w.fabricated(BehAt{H: b.H - 1, Kind: "fab", Op: "genuineLC"})
	pid := types.BlockID{Hash: prev.Hash(), PartSetHeader: prev.MakePartSet(types.BlockPartSizeBytes).Header()}
	cm := w.liarCommit(st.Validators, b.H-1, pid, nil)
	blk, _ := st.MakeBlock(b.H, txs, cm, nil, prop)
	return blk
}

// ---- scheduler

type schedItem struct {
	desc  string
	send  func()
	holds int
}

type scheduler struct {
	mu     sync.Mutex
	q      []*schedItem
	wake   chan struct{}
	stopCh chan struct{}
	done   chan struct{}
	r      *rand.Rand
	window time.Duration
	hold   float64
	maxPer int // > 0: at most that many releases per window (a slow network: the sync spans several hand-over checks)
	log    *evlog
}

func newScheduler(seed int64, windowMs int, hold float64, maxPer int, log *evlog) *scheduler {
	s := &scheduler{wake: make(chan struct{}, 1), stopCh: make(chan struct{}), done: make(chan struct{}),
		r: rand.New(rand.NewSource(seed)), window: time.Duration(windowMs) * time.Millisecond, hold: hold, maxPer: maxPer, log: log}
	go s.loop()
	return s
}

func (s *scheduler) enqueue(desc string, send func()) {
	s.mu.Lock()
	s.q = append(s.q, &schedItem{desc: desc, send: send})
	s.mu.Unlock()
	select {
	case s.wake <- struct{}{}:
	default:
	}
}

func (s *scheduler) loop() {
	defer close(s.done)
	for {
		select {
		case <-s.stopCh:
			return
		case <-s.wake:
		}
		time.Sleep(s.window)
		s.mu.Lock()
		batch := s.q
		s.q = nil
		s.mu.Unlock()
		s.r.Shuffle(len(batch), func(i, j int) { batch[i], batch[j] = batch[j], batch[i] })
		var held []*schedItem
		released := 0
		for _, it := range batch {
			if s.maxPer > 0 && released >= s.maxPer {
				held = append(held, it)
				continue
			}
			if it.holds < 2 && s.r.Float64() < s.hold {
				it.holds++
				held = append(held, it)
				continue
			}
			select {
			case <-s.stopCh:
				return
			default:
			}
			s.log.add("release", it.desc, 0, "")
			it.send()
			released++
		}
		if len(held) > 0 {
			s.mu.Lock()
			s.q = append(held, s.q...)
			s.mu.Unlock()
			select {
			case s.wake <- struct{}{}:
			default:
			}
		}
	}
}

func (s *scheduler) stop() {
	close(s.stopCh)
	<-s.done
}

// ---- peer reactor

type peerReactor struct {
	p2p.BaseReactor
	h    *harness
	idx  int
	spec *PeerSpec

	// class "leftover": answers that wait until the ahead blocks have been delivered
	mu       sync.Mutex
	held     []func()
	released bool
	nodePeer p2p.Peer
}

// release lets the held answers go (in the order the requests came, lowest heights were asked first).
func (pr *peerReactor) release() {
	pr.mu.Lock()
	held := pr.held
	pr.held, pr.released = nil, true
	pr.mu.Unlock()
	for _, f := range held {
		f()
	}
}

func newPeerReactor(h *harness, idx int) *peerReactor {
	pr := &peerReactor{h: h, idx: idx, spec: &h.sc.Peers[idx]}
	pr.BaseReactor = *p2p.NewBaseReactor("C13Peer", pr)
	return pr
}

func (pr *peerReactor) GetChannels() []*p2p.ChannelDescriptor {
	return []*p2p.ChannelDescriptor{{ID: bcv0.BlockchainChannel, Priority: 5, SendQueueCapacity: 1000,
		RecvBufferCapacity: 50 * 4096, RecvMessageCapacity: bc.MaxMsgSize, MessageType: &bcproto.Message{}}}
}

func (pr *peerReactor) sendLater(desc string, peer p2p.Peer, msg proto.Message) {
	bz, err := bc.EncodeMsg(msg)
	if err != nil {
		panic(err)
	}
	pr.h.sched.enqueue(pr.spec.Name+":"+desc, func() {
		if peer.IsRunning() {
			peer.Send(bcv0.BlockchainChannel, bz)
		}
	})
}

func (pr *peerReactor) status(peer p2p.Peer) {
	pr.sendLater("status", peer, &bcproto.StatusResponse{Base: pr.spec.Base, Height: pr.spec.Height})
}

func (pr *peerReactor) AddPeer(peer p2p.Peer) {
	pr.mu.Lock()
	pr.nodePeer = peer
	pr.mu.Unlock()
	if !pr.spec.NoStatus {
		pr.status(peer)
	}
}

// push sends the pusher's unsolicited blocks straight away (not through the scheduler).
func (pr *peerReactor) push() {
	pr.mu.Lock()
	peer := pr.nodePeer
	pr.mu.Unlock()
	if peer == nil {
		return
	}
	for _, ht := range pr.spec.Push {
		blk, _, _ := pr.h.w.build(&PeerSpec{Name: pr.spec.Name, Base: pr.h.w.first, Height: pr.h.w.last, Beh: []BehAt{{H: ht, Kind: pr.spec.PushKind}}}, ht)
		if blk == nil {
			continue
		}
		pb, err := blk.ToProto()
		if err != nil {
			panic(err)
		}
		bz, err := bc.EncodeMsg(&bcproto.BlockResponse{Block: pb})
		if err != nil {
			panic(err)
		}
		pr.h.log.add("pushed", pr.spec.Name, ht, pr.spec.PushKind)
		if peer.IsRunning() {
			peer.Send(bcv0.BlockchainChannel, bz)
		}
	}
}

func (pr *peerReactor) RemovePeer(peer p2p.Peer, reason interface{}) {}

func (pr *peerReactor) Receive(chID byte, peer p2p.Peer, msgBytes []byte) {
	msg, err := bc.DecodeMsg(msgBytes)
	if err != nil {
		return
	}
	pr.ReceiveEnvelope(p2p.Envelope{ChannelID: chID, Src: peer, Message: msg})
}

func (pr *peerReactor) ReceiveEnvelope(e p2p.Envelope) {
	switch msg := e.Message.(type) {
	case *bcproto.StatusRequest:
		if !pr.spec.NoStatus {
			pr.status(e.Src)
		}
		pr.h.tick(pr.idx)
	case *bcproto.BlockRequest:
		h := msg.Height
		pr.h.log.add("req_received", pr.spec.Name, h, "")
		atomic.AddInt32(&pr.h.reqs[pr.idx], 1)
		blk, noBlock, silent := pr.h.w.build(pr.spec, h)
		if len(pr.spec.Ahead) > 0 && pr.spec.beh(h).Kind == "honest" || (pr.spec.CatchAt != 0 && h == pr.spec.CatchAt) {
			// not one of the ahead heights: answered only after those have been delivered, and only up
			// to the height after the forged block that gets this peer caught
			if pr.spec.LeaveAfterAhead || h > pr.spec.CatchAt+1 {
				pr.h.log.add("silent", pr.spec.Name, h, "")
				return
			}
			pb, err := blk.ToProto()
			if err != nil {
				panic(err)
			}
			send := func() { pr.sendLater(fmt.Sprintf("block@%d", h), e.Src, &bcproto.BlockResponse{Block: pb}) }
			pr.mu.Lock()
			if !pr.released {
				pr.held = append(pr.held, send)
				pr.mu.Unlock()
				return
			}
			pr.mu.Unlock()
			send()
			return
		}
		switch {
		case silent:
			pr.h.log.add("silent", pr.spec.Name, h, "")
		case noBlock:
			pr.sendLater(fmt.Sprintf("noblock@%d", h), e.Src, &bcproto.NoBlockResponse{Height: h})
		default:
			pb, err := blk.ToProto()
			if err != nil {
				panic(err)
			}
			pr.sendLater(fmt.Sprintf("block@%d", h), e.Src, &bcproto.BlockResponse{Block: pb})
		}
	}
}
