package c13

// Scenario generation: a canonical chain (chaingen), the set F of validators the
// liars control (< 1/3 of the power at every height, so that "the canonical
// chain" is well defined), and scripted peers.

import (
	"fmt"
	"math/rand"
	"sort"

	"github.com/tendermint/tendermint/crypto/ed25519"
	"github.com/tendermint/tendermint/types"

	"verif/chaingen"
	"verif/verdict"
)

const chainID = "c13-chain"

type ChainSpec struct {
	Seed       int64   `json:"seed"`
	Powers     []int64 `json:"powers"`
	Len        int     `json:"len"`
	Initial    int64   `json:"initial_height"`
	ValChanges bool    `json:"val_changes"`
	NonCommit  float64 `json:"p_non_commit_slot"`
	FailedProb float64 `json:"p_failed_round0"` // heights decided in round 1 after a round 0 in which honest validators precommitted nil
	ForceFail  []int   `json:"force_failed_round0_steps,omitempty"`
	Empty      bool    `json:"empty_blocks,omitempty"`
	MinQuorum  bool    `json:"minimal_quorum_commits,omitempty"` // canonical commits carry exactly floor(2*total/3)+1 for-block power where a subset of the set sums to it
}

// BehAt is what a liar does when asked for height H.
type BehAt struct {
	H    int64  `json:"h"`
	Kind string `json:"kind"`
	Op   string `json:"op,omitempty"`
	Slot int    `json:"slot,omitempty"`
	Tail bool   `json:"slot_after_two_thirds_prefix,omitempty"`
	Arg  int64  `json:"arg,omitempty"`
}

type PeerSpec struct {
	Name   string `json:"name"`
	Honest bool   `json:"honest"`
	Late   bool   `json:"connects_after_first_drop,omitempty"`
	// long-chain stage
	HookAt int64 `json:"connected_by_the_gap_hook_at,omitempty"` // class "gap": connected by the harness inside the verify/apply window of that height
	// class "pusher": sends blocks nobody asked it for; NoStatus: never reports a status (so it is never picked)
	Pusher   bool    `json:"pusher,omitempty"`
	NoStatus bool    `json:"no_status,omitempty"`
	Push     []int64 `json:"pushes_heights,omitempty"`
	PushKind string  `json:"push_kind,omitempty"`
	// class "leftover": answers the heights in Ahead first (with AheadKind blocks), everything else only
	// once those have been delivered: then it leaves, or answers up to CatchAt+1 with a forged block at CatchAt
	Ahead           []int64 `json:"ahead,omitempty"`
	AheadKind       string  `json:"ahead_kind,omitempty"`
	CatchAt         int64   `json:"caught_at,omitempty"`
	LeaveAfterAhead bool    `json:"leaves_after_ahead,omitempty"`
	LateAfter       int     `json:"connects_after_n_error_drops,omitempty"` // with Late: how many peers the node must have dropped for an error first (default 1)
	Silent          bool    `json:"never_answers,omitempty"`
	Wave            int     `json:"wave,omitempty"`     // > 0: connects with that wave ...
	Leaves          bool    `json:"leaves,omitempty"`   // ... and disconnects once it has been given requests
	BadFrom         int64   `json:"bad_from,omitempty"` // answers heights in [BadFrom, BadTo] with BadKind
	BadTo           int64   `json:"bad_to,omitempty"`
	BadKind         string  `json:"bad_kind,omitempty"`
	Base            int64   `json:"base"`
	Height          int64   `json:"height"` // claimed in StatusResponse
	Beh             []BehAt `json:"beh,omitempty"`
}

type Scenario struct {
	Index        int        `json:"index"`
	Tier         string     `json:"tier"`
	Class        string     `json:"class"`
	Variant      string     `json:"variant,omitempty"`
	GapHeights   []int64    `json:"gap_heights,omitempty"` // class "gap": heights whose deliverer is removed between verification and application
	Version      string     `json:"reactor_version"`
	Chain        ChainSpec  `json:"chain"`
	First        int64      `json:"first_height"`
	Last         int64      `json:"last_height"` // last generated canonical height
	NodeStart    int64      `json:"node_start"`  // node has applied the canonical blocks up to here itself (0: genesis)
	Peers        []PeerSpec `json:"peers"`
	SchedSeed    int64      `json:"sched_seed"`
	WindowMs     int        `json:"window_ms"`
	HoldProb     float64    `json:"hold_prob"`
	MaxPerWindow int        `json:"max_releases_per_window,omitempty"`
	Timeouts     bool       `json:"needs_peer_timeout"`
	LiarVals     []string   `json:"liar_validators"`
}

func (p *PeerSpec) beh(h int64) BehAt {
	if p.Silent {
		return BehAt{H: h, Kind: "silent"}
	}
	for _, a := range p.Ahead {
		if a == h {
			return BehAt{H: h, Kind: p.AheadKind}
		}
	}
	if p.CatchAt != 0 && h == p.CatchAt {
		return BehAt{H: h, Kind: "wrongTxs"}
	}
	if p.BadKind != "" && h >= p.BadFrom && h <= p.BadTo {
		return BehAt{H: h, Kind: p.BadKind}
	}
	for _, b := range p.Beh {
		if b.H == h {
			return b
		}
	}
	return BehAt{H: h, Kind: "honest"}
}

// classOf fixes the class of every case index (fixed-length lists per tier).
var classPattern = []string{"control", "tip", "quorum", "signed", "nilfork", "replica", "inflated", "leftover", "tip", "gap",
	"attip", "quorum", "replica", "pusher", "nilfork", "second", "gap", "mixed", "leftover", "pusher"}

// the quick tier's v1 / v2 cases
var otherVersionsPattern = []string{"pusher", "second", "replica", "gap", "signed", "nilfork", "tip", "replica", "attip", "leftover"}

// The deciding target is v0.  The same peers also drive v1 and v2: a few cases of the boundary /
// second-block / fork classes in the quick tier, the whole pattern in the thorough tier.
const (
	nV0Quick    = 120
	nV1Quick    = 30
	nV2Quick    = 20
	nV0Thorough = 2000
	nV1Thorough = 300
	nV2Thorough = 300
)

// The long-chain stage ("long": 900-2500 empty blocks, many retried requests) comes after the others.
const (
	nLongQuick    = 4
	nLongThorough = 40
)

func longBase(tier string) int {
	if tier == "thorough" {
		return nV0Thorough + nV1Thorough + nV2Thorough
	}
	return nV0Quick + nV1Quick + nV2Quick
}

func nCases(tier string) int {
	if tier == "thorough" {
		return longBase(tier) + nLongThorough
	}
	return longBase(tier) + nLongQuick
}

var longVariants = []string{"sybil-then", "waves", "redo", "sybil-meanwhile"}

func versionOf(tier string, idx int) string {
	a, b := nV0Quick, nV0Quick+nV1Quick
	if tier == "thorough" {
		a, b = nV0Thorough, nV0Thorough+nV1Thorough
	}
	if k := idx - longBase(tier); k >= 0 {
		// thorough: every eighth case drives v1, every sixteenth v2
		if tier == "thorough" && k%8 == 6 {
			return "v1"
		}
		if tier == "thorough" && k%16 == 15 {
			return "v2"
		}
		return "v0"
	}
	switch {
	case idx < a:
		return "v0"
	case idx < b:
		return "v1"
	}
	return "v2"
}

func classOf(tier string, idx int) string {
	if idx >= longBase(tier) {
		return "long"
	}
	if tier == "thorough" {
		if idx%10 == 9 {
			return "timeout"
		}
		return classPattern[idx%len(classPattern)]
	}
	if idx >= nV0Quick {
		return otherVersionsPattern[idx%len(otherVersionsPattern)]
	}
	return classPattern[idx%len(classPattern)]
}

func tipOrdinal(tier string, idx int) int {
	n := 0
	for i := 0; i < idx; i++ {
		if classOf(tier, i) == "tip" {
			n++
		}
	}
	return n
}

// world = the generated chain plus what the liars own.
type world struct {
	c     *chaingen.Chain
	F     map[string]bool // liar-controlled validators by address
	first int64
	last  int64
	// failed[h]: round 0 of height h failed and the block was decided in round 1.  In round 0 every
	// honest validator precommitted exactly once: the listed indexes (less than 1/3 of the power, and
	// together with F at most 2/3) for the block that was later decided, all others for nil.  Those
	// genuine round-0 signatures exist in the world and the liars may use them.
	failed map[int64]map[int]bool
}

func (w *world) rec(h int64) *chaingen.HeightRec { return w.c.Hist[h] }

func buildChain(sp ChainSpec) *world {
	r := rand.New(rand.NewSource(sp.Seed))
	c := chaingen.New(chaingen.Options{ChainID: chainID, Seed: sp.Seed, Powers: sp.Powers, InitialHeight: sp.Initial, NoBlockStore: true})
	// the harness's model of the application's validator table (address -> power)
	model := map[string]int64{}
	keyOf := map[string]ed25519.PrivKey{}
	for i, k := range c.KeyList {
		a := string(k.PubKey().Address())
		model[a] = sp.Powers[i]
		keyOf[a] = k
	}
	var failedSteps []int64
	for i := 0; i < sp.Len; i++ {
		vals := c.State.Validators
		var txs []types.Tx
		for j, n := 0, r.Intn(4); j < n && !sp.Empty; j++ {
			txs = append(txs, types.Tx(fmt.Sprintf("k%d_%d=%x", i, j, r.Int63())))
		}
		if sp.ValChanges && i < sp.Len-3 && r.Intn(3) == 0 {
			addrs := make([]string, 0, len(model))
			for a := range model {
				addrs = append(addrs, a)
			}
			sort.Strings(addrs)
			switch op := r.Intn(3); {
			case op == 0 && len(model) < 8:
				k := c.NewKey()
				a := string(k.PubKey().Address())
				p := int64(5 + r.Intn(10))
				model[a], keyOf[a] = p, k
				txs = append(txs, chaingen.ValTx(k, p))
			case op == 1 && len(model) > 4:
				a := addrs[r.Intn(len(addrs))]
				delete(model, a)
				txs = append(txs, chaingen.ValTx(keyOf[a], 0))
			default:
				a := addrs[r.Intn(len(addrs))]
				p := int64(5 + r.Intn(10))
				model[a] = p
				txs = append(txs, chaingen.ValTx(keyOf[a], p))
			}
		}
		flags := pickFlags(r, vals, sp.NonCommit)
		if sp.MinQuorum {
			flags = minimalQuorumFlags(r, vals)
		}
		round := int32(0)
		if r.Float64() < sp.FailedProb {
			round = 1
		}
		for _, k := range sp.ForceFail {
			if k == i {
				round = 1
			}
		}
		if round == 1 {
			failedSteps = append(failedSteps, sp.Initial+int64(i))
		}
		c.MustStep(chaingen.StepPlan{Txs: txs, Round: round, Flag: func(idx int, _ *types.Validator) types.BlockIDFlag { return flags[idx] }})
	}
	w := &world{c: c, F: map[string]bool{}, first: sp.Initial, last: sp.Initial + int64(sp.Len) - 1, failed: map[int64]map[int]bool{}}
	// liar coalition: greedily up to two validators, strictly below 1/3 at every height
	var cands []string
	seen := map[string]bool{}
	for h := w.first; h <= w.last; h++ {
		for _, v := range c.Hist[h].StateBefore.Validators.Validators {
			if !seen[string(v.Address)] {
				seen[string(v.Address)] = true
				cands = append(cands, string(v.Address))
			}
		}
	}
	r.Shuffle(len(cands), func(i, j int) { cands[i], cands[j] = cands[j], cands[i] })
	for _, a := range cands {
		if len(w.F) >= 2 {
			break
		}
		w.F[a] = true
		if !w.minority() {
			delete(w.F, a)
		}
	}
	// who precommitted what in the failed rounds
	for _, h := range failedSteps {
		vals := c.Hist[h].StateBefore.Validators
		var total, pF, pS int64
		for _, v := range vals.Validators {
			total += v.VotingPower
			if w.F[string(v.Address)] {
				pF += v.VotingPower
			}
		}
		voters := map[int]bool{}
		if r.Intn(2) == 0 {
			for _, i := range r.Perm(vals.Size()) {
				v := vals.Validators[i]
				if w.F[string(v.Address)] {
					continue
				}
				if 3*(pS+v.VotingPower) < total && 3*(pS+v.VotingPower+pF) <= 2*total && r.Intn(2) == 0 {
					voters[i] = true
					pS += v.VotingPower
				}
			}
		}
		w.failed[h] = voters
	}
	return w
}

// minority: the power of F is strictly below one third of every validator set of the chain
// (including the set after the last block, which signs fabricated extensions).
func (w *world) minority() bool {
	check := func(vs *types.ValidatorSet) bool {
		var f, t int64
		for _, v := range vs.Validators {
			t += v.VotingPower
			if w.F[string(v.Address)] {
				f += v.VotingPower
			}
		}
		return 3*f < t
	}
	for h := w.first; h <= w.last; h++ {
		if !check(w.c.Hist[h].StateBefore.Validators) {
			return false
		}
	}
	return check(w.c.State.Validators) && check(w.c.State.NextValidators)
}

// pickFlags: every slot commits unless taking it out keeps strictly more than 2/3 committing.
func pickFlags(r *rand.Rand, vals *types.ValidatorSet, p float64) []types.BlockIDFlag {
	n := vals.Size()
	flags := make([]types.BlockIDFlag, n)
	var total, commit int64
	for i, v := range vals.Validators {
		flags[i] = types.BlockIDFlagCommit
		total += v.VotingPower
	}
	commit = total
	for _, i := range r.Perm(n) {
		if r.Float64() >= p {
			continue
		}
		pw := vals.Validators[i].VotingPower
		if 3*(commit-pw) > 2*total {
			commit -= pw
			if r.Intn(2) == 0 {
				flags[i] = types.BlockIDFlagAbsent
			} else {
				flags[i] = types.BlockIDFlagNil
			}
		}
	}
	return flags
}

// subsetWithPower picks, among the candidate indexes, a subset whose powers sum to exactly target
// (a random one of the solutions); if there is none, the subset with the largest sum below target
// (atLeast=false) or the smallest sum above it (atLeast=true).
func subsetWithPower(r *rand.Rand, vals *types.ValidatorSet, cand []int, target int64, atLeast bool) (set map[int]bool, sum int64) {
	n := len(cand)
	if n > 16 {
		cand, n = cand[:16], 16
	}
	var exact []int
	best, bestSum := -1, int64(-1)
	for m := 0; m < 1<<uint(n); m++ {
		var sm int64
		for j := 0; j < n; j++ {
			if m>>uint(j)&1 == 1 {
				sm += vals.Validators[cand[j]].VotingPower
			}
		}
		switch {
		case sm == target:
			exact = append(exact, m)
		case atLeast && sm > target && (best < 0 || sm < bestSum):
			best, bestSum = m, sm
		case !atLeast && sm < target && sm > bestSum:
			best, bestSum = m, sm
		}
	}
	if len(exact) > 0 {
		best, bestSum = exact[r.Intn(len(exact))], target
	}
	set = map[int]bool{}
	for j := 0; j < n; j++ {
		if best >= 0 && best>>uint(j)&1 == 1 {
			set[cand[j]] = true
		}
	}
	if best < 0 {
		bestSum = 0
	}
	return set, bestSum
}

// minimalQuorumFlags: the commit carries exactly floor(2*total/3)+1 for-block power if some subset
// of the set sums to it (the smallest power above it otherwise).
func minimalQuorumFlags(r *rand.Rand, vals *types.ValidatorSet) []types.BlockIDFlag {
	var total int64
	all := make([]int, vals.Size())
	for i, v := range vals.Validators {
		total += v.VotingPower
		all[i] = i
	}
	set, _ := subsetWithPower(r, vals, all, 2*total/3+1, true)
	flags := make([]types.BlockIDFlag, vals.Size())
	for i := range flags {
		switch {
		case set[i]:
			flags[i] = types.BlockIDFlagCommit
		case r.Intn(2) == 0:
			flags[i] = types.BlockIDFlagAbsent
		default:
			flags[i] = types.BlockIDFlagNil
		}
	}
	return flags
}

// quorumTarget: the for-block power of a boundary commit (never more than two thirds of the total).
func quorumTarget(total, variant int64) int64 {
	fl := 2 * total / 3
	t := fl
	switch variant {
	case 1:
		t = fl - 1
	case 2:
		t = total / 3 * 2
	case 3:
		t = total/3*2 + 1
	}
	if t > fl || t < 1 {
		t = fl
	}
	return t
}

// replicated-signature commits: the byzantine validator's one precommit in all slots / in just enough
// slots, each copy naming the byzantine validator / the slot's owner
var replicaOps = []string{"all-byzAddr", "enough-byzAddr", "all-ownerAddr", "enough-ownerAddr"}

// invalidating alterations: every one of them leaves a non-absent slot whose signature does not
// verify for what the slot claims
var invalidatingOps = map[string]bool{"forge": true, "tsShift": true, "dup": true, "flagNil": true, "fRound": true, "fOtherBlock": true,
	"nilAsCommit": true, "nilGarbage": true, "absentForgedCommit": true, "absentForgedNil": true}

func (w *world) pickInvalidating(r *rand.Rand, g int64) (op string, slot int, tail bool) {
	for i := 0; i < 40; i++ {
		op, slot, tail = w.pickAlteration(r, g, allOps[r.Intn(len(allOps))], r.Intn(3)-1)
		if invalidatingOps[op] && !(op == "dup" && w.rec(g).StateBefore.Validators.Size() < 2) {
			return
		}
	}
	for i, sg := range w.rec(g).Commit.Signatures {
		if sg.BlockIDFlag == types.BlockIDFlagCommit {
			return "forge", i, false
		}
	}
	return "forge", 0, false
}

// lightPrefixEnd: index of the slot at which a tally that walks the commit-flagged slots in index
// order first exceeds 2/3 of the total power (-1 if never).
func lightPrefixEnd(vals *types.ValidatorSet, commit *types.Commit) int {
	var total, sum int64
	for _, v := range vals.Validators {
		total += v.VotingPower
	}
	for i, s := range commit.Signatures {
		if s.BlockIDFlag != types.BlockIDFlagCommit || i >= len(vals.Validators) {
			continue
		}
		sum += vals.Validators[i].VotingPower
		if 3*sum > 2*total {
			return i
		}
	}
	return -1
}

var allOps = []string{"forge", "tsShift", "addrSwap", "dup", "flagNil", "fRound", "fOtherBlock",
	"nilAsCommit", "nilGarbage", "nilAddrSwap", "absentForgedCommit", "absentForgedNil", "fExtraValid", "fNilValid"}

func opsFor(flag types.BlockIDFlag, inF bool) []string {
	switch flag {
	case types.BlockIDFlagCommit:
		ops := []string{"forge", "tsShift", "addrSwap", "dup", "flagNil"}
		if inF {
			ops = append(ops, "fRound", "fOtherBlock")
		}
		return ops
	case types.BlockIDFlagNil:
		return []string{"nilAsCommit", "nilGarbage", "nilAddrSwap"}
	default:
		ops := []string{"absentForgedCommit", "absentForgedNil"}
		if inF {
			ops = append(ops, "fExtraValid", "fNilValid")
		}
		return ops
	}
}

// pickAlteration chooses (slot, op) for the commit of height g.  wantOp / wantTail are preferences.
func (w *world) pickAlteration(r *rand.Rand, g int64, wantOp string, wantTail int) (op string, slot int, tail bool) {
	rec := w.rec(g)
	vals := rec.StateBefore.Validators
	pe := lightPrefixEnd(vals, rec.Commit)
	type cand struct {
		op   string
		slot int
		tail bool
	}
	var all []cand
	for i, s := range rec.Commit.Signatures {
		inF := w.F[string(vals.Validators[i].Address)]
		for _, o := range opsFor(s.BlockIDFlag, inF) {
			all = append(all, cand{o, i, i > pe})
		}
	}
	filter := func(f func(cand) bool) []cand {
		var out []cand
		for _, c := range all {
			if f(c) {
				out = append(out, c)
			}
		}
		return out
	}
	tailOK := func(c cand) bool { return wantTail < 0 || c.tail == (wantTail == 1) }
	for _, set := range [][]cand{
		filter(func(c cand) bool { return c.op == wantOp && tailOK(c) }),
		filter(func(c cand) bool { return c.op == wantOp }),
		filter(tailOK),
		all,
	} {
		if len(set) > 0 {
			c := set[r.Intn(len(set))]
			return c.op, c.slot, c.tail
		}
	}
	return "forge", 0, false
}

// "wrongHeight" leaves the request unanswered, so the node only gets rid of that peer through the
// pool's 15 s peer timeout: like silence, it is used in the thorough-only "timeout" class.
var badKinds = []string{"altered", "altered", "altered", "wrongTxs", "wrongTxs", "wrongHeader", "minority", "otherBlockCommit", "malformed", "wrongHeight"}

func (w *world) randomBad(r *rand.Rand, h int64, slow bool) BehAt {
	kinds := badKinds
	if !slow {
		kinds = badKinds[:len(badKinds)-1]
	}
	b := BehAt{H: h, Kind: kinds[r.Intn(len(kinds))]}
	if h == w.first && (b.Kind == "altered" || b.Kind == "minority" || b.Kind == "otherBlockCommit") {
		b.Kind = "wrongTxs" // the first block carries an empty commit
	}
	if _, ok := w.failed[h-1]; ok && h > w.first && r.Intn(2) == 0 {
		b.Kind = "weakCommit"
	}
	switch b.Kind {
	case "weakCommit":
		b.Arg = r.Int63n(1 << 30)
	case "altered":
		b.Op, b.Slot, b.Tail = w.pickAlteration(r, h-1, allOps[r.Intn(len(allOps))], r.Intn(3)-1)
	case "wrongHeader":
		b.Op = []string{"time", "proposer", "apphash", "valhash"}[r.Intn(4)]
	case "wrongHeight":
		b.Arg = w.first + r.Int63n(w.last-w.first+1)
		if b.Arg == h {
			b.Kind = "wrongTxs"
		}
	}
	return b
}

func setBeh(beh []BehAt, b BehAt) []BehAt {
	for i := range beh {
		if beh[i].H == b.H {
			beh[i] = b
			return beh
		}
	}
	return append(beh, b)
}

// genLong: a long chain of empty blocks and many requests that are never answered and have to be
// retried elsewhere, far beyond the pool's initial window of requesters (600 in v0):
//
//	sybil-then / sybil-meanwhile: 30-40 silent peers advertise a high tip, take their full share of
//	    requests and never answer (peer timeout -> removal -> retry); one honest peer with the whole
//	    chain connects after the last of them is gone / is there from the start;
//	waves: the honest peer is connected throughout while 8-12 waves of 4-6 peers each connect, are
//	    given requests and disconnect;
//	redo: 6-10 liars, each answering a stretch of heights with wrong blocks at a different place along
//	    the chain, are removed one after the other by failed verifications.
func genLong(c *verdict.Ctx, idx int, r *rand.Rand, sc *Scenario) (*Scenario, *world) {
	k := idx - longBase(c.Tier)
	sc.Variant = longVariants[(k+k/8)%len(longVariants)]
	n := 900 + r.Intn(500)
	if c.Tier == "thorough" {
		n = 900 + r.Intn(1601)
	}
	sc.Chain = ChainSpec{Seed: r.Int63(), Powers: []int64{10, 10, 10, 10}, Len: n, Initial: 1, Empty: true}
	w := buildChain(sc.Chain)
	sc.First, sc.Last = w.first, w.last
	for a := range w.F {
		sc.LiarVals = append(sc.LiarVals, fmt.Sprintf("%X", a))
	}
	sort.Strings(sc.LiarVals)
	sc.SchedSeed = r.Int63()
	sc.WindowMs, sc.HoldProb = 1, 0
	T := w.last
	full := func(name string) PeerSpec { return PeerSpec{Name: name, Honest: true, Base: w.first, Height: T} }
	switch sc.Variant {
	case "sybil-then", "sybil-meanwhile":
		ns := 30 + r.Intn(11)
		tip := T
		if r.Intn(2) == 0 {
			tip = T + int64(1+r.Intn(300))
		}
		for i := 0; i < ns; i++ {
			sc.Peers = append(sc.Peers, PeerSpec{Name: fmt.Sprintf("sybil%d", i), Base: w.first, Height: tip, Silent: true})
		}
		h := full("h0")
		if sc.Variant == "sybil-then" {
			h.Late, h.LateAfter = true, ns
		}
		sc.Peers = append(sc.Peers, h)
		sc.Timeouts = true
	case "waves":
		sc.Peers = append(sc.Peers, full("h0"))
		for wv, nw := 1, 8+r.Intn(5); wv <= nw; wv++ {
			for i, m := 0, 4+r.Intn(3); i < m; i++ {
				sc.Peers = append(sc.Peers, PeerSpec{Name: fmt.Sprintf("w%d_%d", wv, i), Base: w.first, Height: T, Wave: wv, Leaves: true, Silent: r.Intn(3) != 0})
			}
		}
	case "redo":
		sc.Peers = append(sc.Peers, full("h0"), full("h1"))
		nl := 6 + r.Intn(5)
		for i := 0; i < nl; i++ {
			from := w.first + int64(i+1)*int64(n)/int64(nl+1)
			sc.Peers = append(sc.Peers, PeerSpec{Name: fmt.Sprintf("liar%d", i), Base: w.first, Height: T,
				BadFrom: from, BadTo: from + 40, BadKind: []string{"wrongTxs", "wrongHeader", "minority"}[r.Intn(3)]})
		}
	}
	return sc, w
}

func genScenario(c *verdict.Ctx, idx int) (*Scenario, *world) {
	r := c.Rand("scenario", idx)
	sc := &Scenario{Index: idx, Tier: c.Tier, Class: classOf(c.Tier, idx), Version: versionOf(c.Tier, idx)}
	if sc.Class == "long" {
		return genLong(c, idx, r, sc)
	}
	n := 4 + r.Intn(4)
	if sc.Class == "tip" {
		n = []int{4, 4, 6, 7}[r.Intn(4)]
	}
	powers := make([]int64, n)
	equal := r.Intn(2) == 0 || sc.Class == "tip"
	for i := range powers {
		powers[i] = 10
		if !equal {
			powers[i] = int64(5 + r.Intn(16))
		}
	}
	chainLen := 8 + r.Intn(13)
	if sc.Class == "leftover" {
		chainLen = 30 + r.Intn(15)
	}
	if sc.Class == "pusher" {
		chainLen = 45 + r.Intn(16)
	}
	sc.Chain = ChainSpec{Seed: r.Int63(), Powers: powers, Len: chainLen, Initial: 1,
		ValChanges: r.Intn(10) < 7, NonCommit: []float64{0, 0.3, 0.6}[r.Intn(3)], FailedProb: []float64{0, 0.15, 0.3}[r.Intn(3)]}
	nilforkStep, nilforkWeak := 0, false
	if sc.Class == "nilfork" {
		// the height whose round 0 failed: anywhere (the liar goes on serving blocks above it), or
		// directly below the liar's tip
		nilforkStep = 1 + r.Intn(sc.Chain.Len-2)
		if r.Intn(2) == 0 {
			nilforkStep = sc.Chain.Len - 2
		}
		nilforkWeak = r.Intn(3) == 0
		sc.Chain.ForceFail = []int{nilforkStep}
	}
	if sc.Class == "tip" {
		sc.Chain.NonCommit = []float64{0, 0.5, 0.9}[r.Intn(3)]
	}
	replicaStep := 0
	if sc.Class == "replica" {
		replicaStep = 1 + r.Intn(sc.Chain.Len-2)
		if r.Intn(2) == 0 {
			replicaStep = sc.Chain.Len - 2
		}
		if r.Intn(2) == 0 {
			sc.Chain.ForceFail = []int{replicaStep}
		}
		if r.Intn(2) == 0 { // e.g. 1 byzantine validator of 4 equal ones
			sc.Chain.Powers = []int64{10, 10, 10, 10}
		}
	}
	quorumStep := 0
	if sc.Class == "quorum" {
		// Validator sets at the quorum boundary: total power = 2 (mod 3) in three of five cases (5, 8,
		// 11 equal validators of power 1, or small weights), = 0 and = 1 for contrast.
		fam := r.Intn(5)
		var pw []int64
		if fam < 2 {
			pw = make([]int64, []int{5, 8, 11}[r.Intn(3)])
			for i := range pw {
				pw[i] = 1
			}
		} else {
			pw = make([]int64, 4+r.Intn(6))
			var sum int64
			for i := range pw {
				pw[i] = int64(1 + r.Intn(4))
				sum += pw[i]
			}
			want := int64(2)
			if fam == 3 {
				want = 0
			} else if fam == 4 {
				want = 1
			}
			for sum%3 != want {
				pw[len(pw)-1]++
				sum++
			}
		}
		sc.Chain.Powers = pw
		sc.Chain.ValChanges = false
		sc.Chain.MinQuorum = r.Intn(3) != 0
		quorumStep = 1 + r.Intn(sc.Chain.Len-2)
		if r.Intn(2) == 0 {
			quorumStep = sc.Chain.Len - 2
		}
		if r.Intn(2) == 0 {
			sc.Chain.ForceFail = []int{quorumStep}
		}
	}
	if r.Intn(6) == 0 {
		sc.Chain.Initial = 2 + r.Int63n(30)
	}
	if sc.Version == "v2" && sc.Tier != "thorough" {
		sc.Chain.Initial = 1 // v2 never syncs a chain whose initial height is above 1 (gives up after ~16 s); thorough tier only
	}
	w := buildChain(sc.Chain)
	sc.First, sc.Last = w.first, w.last
	for a := range w.F {
		sc.LiarVals = append(sc.LiarVals, fmt.Sprintf("%X", a))
	}
	sort.Strings(sc.LiarVals)
	if r.Intn(4) == 0 {
		sc.NodeStart = w.first + r.Int63n(int64(sc.Chain.Len)/2)
	}
	sc.SchedSeed = r.Int63()
	sc.WindowMs = 1 + r.Intn(6)
	sc.HoldProb = []float64{0, 0.2, 0.5}[r.Intn(3)]
	if r.Intn(5) == 0 && sc.Class != "timeout" {
		// slow network: the 1 s hand-over check fires while the sync is still going on
		sc.WindowMs = 80 + r.Intn(80)
		sc.MaxPerWindow = 1 + r.Intn(3)
	}
	T := w.last
	lowBase := func() int64 { return w.first }
	honest := func(name string, height int64) PeerSpec {
		p := PeerSpec{Name: name, Honest: true, Base: lowBase(), Height: height}
		return p
	}
	switch sc.Class {
	case "control":
		sc.Peers = append(sc.Peers, honest("h0", T))
		for i, k := 1, r.Intn(4); i <= k; i++ {
			p := honest(fmt.Sprintf("h%d", i), T-r.Int63n(5))
			if r.Intn(3) == 0 { // pruned peer
				p.Base = w.first + r.Int63n(p.Height-w.first+1)
			}
			sc.Peers = append(sc.Peers, p)
		}
	case "tip":
		// honest peers lag one block, so the block at T can only come from the liar, whose
		// block at T is used for its LastCommit alone
		sc.Peers = append(sc.Peers, honest("h0", T-1))
		if r.Intn(3) == 0 {
			sc.Peers = append(sc.Peers, honest("h1", T-1-r.Int63n(3)))
		}
		ord := tipOrdinal(c.Tier, idx)
		want := allOps[ord%len(allOps)]
		wantTail := 1
		if (ord/len(allOps))%3 == 2 {
			wantTail = 0
		}
		b := BehAt{H: T, Kind: "altered"}
		b.Op, b.Slot, b.Tail = w.pickAlteration(r, T-1, want, wantTail)
		sc.Peers = append(sc.Peers, PeerSpec{Name: "liar0", Base: w.first, Height: T, Beh: []BehAt{b}})
	case "nilfork":
		// Honest peers end just below the height g whose round 0 failed, so g and g+1 come from the
		// liar: a minority block X at g and a next block whose LastCommit backs X with the liars' own
		// round-0 precommits plus the honest validators' genuine round-0 precommits for NIL (fork); or
		// the canonical block at g backed by a round-0 "commit" whose for-block power is at most 2/3
		// while for-block + nil is above 2/3 (weak).
		g := w.first + int64(nilforkStep)
		sc.Peers = append(sc.Peers, honest("h0", g-1))
		if r.Intn(3) == 0 {
			sc.Peers = append(sc.Peers, honest("h1", g-1))
		}
		p := PeerSpec{Name: "liar0", Base: w.first, Height: T}
		if r.Intn(3) == 0 && g+1 < T {
			p.Height = g + 1 + r.Int63n(T-g)
		}
		if nilforkWeak {
			p.Beh = []BehAt{{H: g + 1, Kind: "weakCommit", Arg: r.Int63n(1 << 30)}}
		} else {
			p.Beh = []BehAt{{H: g, Kind: "forkBlock"}, {H: g + 1, Kind: "nilBackedFork", Arg: r.Int63n(1 << 30)}}
		}
		sc.Peers = append(sc.Peers, p)
		if sc.NodeStart >= g-1 {
			sc.NodeStart = 0
		}
	case "quorum":
		// As in "nilfork", the blocks at g and g+1 can only come from the liar.  The LastCommit of its
		// block g+1 carries for-block power at the quorum boundary but never above two thirds: for a
		// minority block X at g, signed by a coalition of exactly that power (fork), or for the
		// canonical block at g, the canonical commit thinned down to that power (weak).
		g := w.first + int64(quorumStep)
		sc.Peers = append(sc.Peers, honest("h0", g-1))
		if r.Intn(3) == 0 {
			sc.Peers = append(sc.Peers, honest("h1", g-1))
		}
		p := PeerSpec{Name: "liar0", Base: w.first, Height: T}
		if r.Intn(3) == 0 && g+1 < T {
			p.Height = g + 1 + r.Int63n(T-g)
		}
		variant := int64(r.Intn(4))
		if r.Intn(2) == 0 {
			variant = 0
		}
		if r.Intn(3) == 0 {
			p.Beh = []BehAt{{H: g + 1, Kind: "quorumWeak", Arg: variant, Slot: r.Intn(1 << 20)}}
		} else {
			p.Beh = []BehAt{{H: g, Kind: "forkBlock"}, {H: g + 1, Kind: "quorumFork", Arg: variant, Slot: r.Intn(1 << 20)}}
		}
		sc.Peers = append(sc.Peers, p)
		if sc.NodeStart >= g-1 {
			sc.NodeStart = 0
		}
	case "replica":
		// As in "nilfork", g and g+1 can only come from the liar: a forged block X at g (or the canonical
		// one), and a block g+1 whose LastCommit has the right size, height, round and block id but
		// carries ONE byzantine validator's single valid precommit copied into all slots, or into just
		// enough of them to pass a tally that does not bind a signature to its slot's validator.
		g := w.first + int64(replicaStep)
		sc.Peers = append(sc.Peers, honest("h0", g-1))
		if r.Intn(3) == 0 {
			sc.Peers = append(sc.Peers, honest("h1", g-1))
		}
		p := PeerSpec{Name: "liar0", Base: w.first, Height: T}
		if r.Intn(3) == 0 && g+1 < T {
			p.Height = g + 1 + r.Int63n(T-g)
		}
		op := replicaOps[r.Intn(len(replicaOps))]
		if r.Intn(4) == 0 {
			p.Beh = []BehAt{{H: g + 1, Kind: "replicatedWeak", Op: op, Arg: r.Int63n(1 << 30)}}
		} else {
			p.Beh = []BehAt{{H: g, Kind: "forkBlock"}, {H: g + 1, Kind: "replicatedFork", Op: op, Arg: r.Int63n(1 << 30)}}
		}
		sc.Peers = append(sc.Peers, p)
		if sc.NodeStart >= g-1 {
			sc.NodeStart = 0
		}
	case "pusher":
		// One honest peer serves everything, slowly, so the requests beyond its 20 outstanding ones wait
		// for a peer.  A pusher — connected, but never reporting a status (so it is never picked), or
		// reporting one that makes it ineligible — sends well-formed blocks nobody asked it for, for the
		// heights just ahead of what has been requested.  Nothing it pushes may be kept; the honest peer
		// must not pay for it.
		sc.NodeStart = 0
		sc.WindowMs, sc.MaxPerWindow, sc.HoldProb = 40+r.Intn(40), 2, 0
		sc.Peers = append(sc.Peers, honest("h0", T))
		pz := PeerSpec{Name: "push0", Base: w.first, Height: w.first, Pusher: true, NoStatus: r.Intn(3) != 0, PushKind: []string{"honest", "wrongTxs"}[r.Intn(2)]}
		for a, k := w.first+20, 8+r.Intn(5); len(pz.Push) < k && a <= T-2; a++ {
			pz.Push = append(pz.Push, a)
		}
		sc.Peers = append(sc.Peers, pz)
	case "attip":
		// The node is already AT the tip of its peers (or one block short, which block sync cannot
		// close): nothing to sync.  The hand-over must then ask consensus to catch up from its WAL.
		sc.NodeStart = T - int64(r.Intn(2))
		for i, nh := 0, 1+r.Intn(3); i < nh; i++ {
			sc.Peers = append(sc.Peers, honest(fmt.Sprintf("h%d", i), T))
		}
	case "signed":
		// Liars that hold the validators' keys: for a height g they serve a block that differs from the
		// canonical one in a header field the node's state prescribes (so it is INVALID for that state),
		// with or without evidence in it, and a block g+1 whose LastCommit is a genuine commit for it,
		// signed by the full set or by exactly a quorum.  The commit verifies; full validation must
		// still keep the block out of the store, the sender is dropped, the height fetched again.
		lo := w.first
		if sc.NodeStart > 0 {
			lo = sc.NodeStart + 1
		}
		g := lo + 1 + r.Int63n(T-2-lo)
		sc.Peers = append(sc.Peers, honest("hA", g-1))
		ops := []string{"apphash", "resultshash", "consensushash", "time", "valhash", "nextvalhash", "proposer", "lastblockid", "appversion"}
		b := BehAt{H: g, Kind: "signedInvalid", Op: ops[r.Intn(len(ops))], Arg: int64(boolInt(r.Intn(3) == 0)), Slot: r.Intn(2)} // Arg: 1 = with evidence; Slot: 1 = exactly a quorum signs
		sc.Peers = append(sc.Peers, PeerSpec{Name: "liarK", Base: w.first, Height: g + 1 + r.Int63n(T-g), Beh: []BehAt{b, {H: g + 1, Kind: "signedCarrier", Op: b.Op, Arg: b.Arg, Slot: b.Slot}}})
		full := honest("hB", T)
		full.Late, full.LateAfter = true, 1
		if sc.Version != "v0" {
			full.Late = false // v1 / v2 finish when a failed pair leaves them without taller peers
		}
		sc.Peers = append(sc.Peers, full)
	case "leftover":
		// A liar, at first the only peer, delivers non-canonical blocks for heights well AHEAD of the pool
		// height (out of order: those answers come first), and is then removed for another reason before
		// the pool gets there: caught on a forged block at a low height, or it disconnects.  Only after it
		// is gone do one or two honest peers connect and serve the rest; they do not come back if dropped.
		// Whatever the removed peer had delivered must not be used any more: the node reaches the tip.
		s0 := w.first - 1
		if sc.NodeStart > 0 {
			if sc.NodeStart > w.first+3 {
				sc.NodeStart = w.first + r.Int63n(4)
			}
			s0 = sc.NodeStart
		}
		z := PeerSpec{Name: "liarZ", Base: w.first, Height: T, AheadKind: []string{"wrongTxs", "wrongHeader", "minority"}[r.Intn(3)]}
		catch := s0 + 1 + r.Int63n(4)
		// (v1 and v2 declare themselves finished when a failed pair leaves them without peers, so for
		// them the liar mostly just leaves)
		if r.Intn(3) == 0 || (sc.Version != "v0" && r.Intn(3) != 0) {
			z.LeaveAfterAhead = true
		} else {
			z.CatchAt = catch
		}
		used := map[int64]bool{}
		for k := 3 + r.Intn(4); len(z.Ahead) < k; {
			a := catch + 4 + r.Int63n(s0+19-(catch+4)+1)
			if !used[a] {
				used[a] = true
				z.Ahead = append(z.Ahead, a)
			}
		}
		sort.Slice(z.Ahead, func(i, j int) bool { return z.Ahead[i] < z.Ahead[j] })
		sc.Peers = append(sc.Peers, z)
		for i, nh := 0, 1+r.Intn(2); i < nh; i++ {
			hp := honest(fmt.Sprintf("h%d", i), T)
			hp.Late, hp.LateAfter = true, 1
			sc.Peers = append(sc.Peers, hp)
		}
	case "gap":
		// Check-then-use: between the moment the node has verified block H (commit of H+1 verified,
		// ValidateBlock passed) and the moment it saves / applies it, the harness removes the peer that
		// delivered H from the node's switch (as a timeout or an error would) and lets a lying peer answer
		// the re-issued request for H with another well-formed block that is valid against the node's
		// state (other transactions; no signature needed, H's commit lives in H+1).  "nil" variant: nobody
		// answers, the requester's slot is just empty.  The node must save and execute the block whose
		// hash the verified commit covers.
		sc.Peers = append(sc.Peers, honest("hA", T))
		lo := w.first
		if sc.NodeStart > 0 {
			lo = sc.NodeStart + 1
		}
		g1 := lo + 1 + r.Int63n(T-2-lo)
		sc.GapHeights = []int64{g1}
		if g2 := g1 + 3 + r.Int63n(4); g2 <= T-2 && r.Intn(2) == 0 {
			sc.GapHeights = append(sc.GapHeights, g2)
		}
		sc.Variant = "substitute"
		if r.Intn(4) == 0 {
			sc.Variant = "nil"
		}
		for i, g := range sc.GapHeights {
			if sc.Variant == "nil" {
				break
			}
			sc.Peers = append(sc.Peers, PeerSpec{Name: fmt.Sprintf("liarZ%d", i), Base: w.first, Height: T, Late: true, LateAfter: 1 << 30, HookAt: g,
				Beh: []BehAt{{H: g, Kind: "wrongTxs"}}})
		}
	case "second":
		// The bad block is the SECOND of the verified pair and comes from another peer than the first:
		// honest A ends at k, hostile X serves k+1 (its base is k+1, or it is picked by assignment) with
		// a tampered LastCommit whose hash is recomputed; an honest peer B with the whole chain connects
		// after the first drop.
		lo := w.first
		if sc.NodeStart > 0 {
			lo = sc.NodeStart + 1
		}
		k := lo + r.Int63n(T-1-lo)
		a := honest("hA", k)
		sc.Peers = append(sc.Peers, a)
		if r.Intn(3) == 0 {
			sc.Peers = append(sc.Peers, honest("hA2", k))
		}
		x := PeerSpec{Name: "liarX", Base: k + 1, Height: k + 1 + r.Int63n(T-k)}
		if r.Intn(3) == 0 || sc.Version != "v0" {
			x.Base = w.first
		}
		b := BehAt{H: k + 1, Kind: "altered"}
		switch r.Intn(7) {
		case 6:
			b = BehAt{H: k + 1, Kind: "replicatedWeak", Op: replicaOps[r.Intn(len(replicaOps))], Arg: r.Int63n(1 << 30)}
		case 0:
			b.Kind = "minority"
		case 1:
			b.Kind = "otherBlockCommit"
		case 2:
			b = BehAt{H: k + 1, Kind: "quorumWeak", Arg: int64(r.Intn(4)), Slot: r.Intn(1 << 20)}
		default:
			b.Op, b.Slot, b.Tail = w.pickInvalidating(r, k)
		}
		x.Beh = []BehAt{b}
		sc.Peers = append(sc.Peers, x)
		full := honest("hB", T)
		// v1 and v2 declare themselves caught up the moment the peers they have left are no taller than
		// their own height, and v1 also asks a peer for heights below its base: for them B is there from
		// the start and X is picked by assignment
		full.Late = sc.Version == "v0"
		sc.Peers = append(sc.Peers, full)
	case "mixed", "inflated", "timeout":
		sc.Peers = append(sc.Peers, honest("h0", T))
		if r.Intn(2) == 0 {
			sc.Peers = append(sc.Peers, honest("h1", T-r.Int63n(4)))
		}
		nl := 1 + r.Intn(3)
		for i := 0; i < nl; i++ {
			p := PeerSpec{Name: fmt.Sprintf("liar%d", i), Base: w.first, Height: T - r.Int63n(3)}
			pBad := []float64{0.1, 0.25, 0.5}[r.Intn(3)]
			for h := w.first; h <= p.Height; h++ {
				if r.Float64() < pBad {
					p.Beh = append(p.Beh, w.randomBad(r, h, sc.Class == "timeout"))
				}
			}
			for g := w.first; g+1 <= p.Height; g++ {
				if _, ok := w.failed[g]; ok && r.Intn(3) == 0 {
					p.Beh = setBeh(p.Beh, BehAt{H: g, Kind: "forkBlock"})
					p.Beh = setBeh(p.Beh, BehAt{H: g + 1, Kind: "nilBackedFork", Arg: r.Int63n(1 << 30)})
				}
			}
			if r.Intn(3) == 0 && p.Height-1 > w.first {
				g := w.first + 1 + r.Int63n(p.Height-w.first-1)
				p.Beh = setBeh(p.Beh, BehAt{H: g, Kind: "forkBlock"})
				p.Beh = setBeh(p.Beh, BehAt{H: g + 1, Kind: "replicatedFork", Op: replicaOps[r.Intn(len(replicaOps))], Arg: r.Int63n(1 << 30)})
			}
			if sc.Class == "timeout" {
				// silence / NoBlockResponse on a few heights, or a status above what is served
				for k := 0; k < 1+r.Intn(2); k++ {
					h := w.first + r.Int63n(p.Height-w.first+1)
					kind := []string{"silent", "noblock"}[r.Intn(2)]
					replaced := false
					for j := range p.Beh {
						if p.Beh[j].H == h {
							p.Beh[j] = BehAt{H: h, Kind: kind}
							replaced = true
						}
					}
					if !replaced {
						p.Beh = append(p.Beh, BehAt{H: h, Kind: kind})
					}
				}
				if i == 0 && r.Intn(2) == 0 {
					p.Height = T + 1 + r.Int63n(3)
					for h := T + 1; h <= p.Height; h++ {
						p.Beh = append(p.Beh, BehAt{H: h, Kind: []string{"silent", "noblock"}[r.Intn(2)]})
					}
				}
			}
			if sc.Class == "inflated" && i == 0 {
				p.Height = T + 1 + r.Int63n(3)
				for h := T + 1; h <= p.Height; h++ {
					b := BehAt{H: h, Kind: "fab"}
					if h == T+1 {
						// extension whose LastCommit is the genuine commit of T, or an altered one
						b.Op = "genuineLC"
						if r.Intn(2) == 0 {
							b.Op, b.Slot, b.Tail = w.pickAlteration(r, T, allOps[r.Intn(len(allOps))], r.Intn(3)-1)
						}
					}
					p.Beh = append(p.Beh, b)
				}
			}
			sc.Peers = append(sc.Peers, p)
		}
		sc.Timeouts = sc.Class == "timeout"
	}
	// the node never starts above what it can learn from the peers
	if sc.NodeStart > 0 && sc.NodeStart > T-3 && sc.Class != "attip" {
		sc.NodeStart = 0
	}
	// shuffle the connection order
	r.Shuffle(len(sc.Peers), func(i, j int) { sc.Peers[i], sc.Peers[j] = sc.Peers[j], sc.Peers[i] })
	return sc, w
}
