package c13

import (
	"time"
	_ "unsafe" // go:linkname

	_ "github.com/tendermint/tendermint/blockchain/v0"
)

// v0PeerTimeout is blockchain/v0's package variable peerTimeout ("not const so we can override with
// tests"): how long the pool waits for a peer that has requests pending before it removes it (15 s).
// The long-chain stage shortens it so that a burst of silent peers costs seconds instead of 15 s;
// nothing else of the code under test is touched.
//
//go:linkname v0PeerTimeout github.com/tendermint/tendermint/blockchain/v0.peerTimeout
var v0PeerTimeout time.Duration
