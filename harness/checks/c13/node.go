package c13

// The node under test (real blockchain/v0 reactor, executor, stores, recording
// app on a real p2p.Switch), the monitors at its boundaries, and the per-scenario
// oracles.  Runs inside a child process: one scenario per process, so that a
// panic of the code under test cannot take the whole check down.

import (
	"bytes"
	"encoding/hex"
	"encoding/json"
	"errors"
	"fmt"
	"os"
	"runtime/debug"
	"strings"
	"sync"
	"sync/atomic"
	"time"

	dbm "github.com/tendermint/tm-db"

	bcv0 "github.com/tendermint/tendermint/blockchain/v0"
	bcv1 "github.com/tendermint/tendermint/blockchain/v1"
	bcv2 "github.com/tendermint/tendermint/blockchain/v2"
	cfg "github.com/tendermint/tendermint/config"
	"github.com/tendermint/tendermint/consensus"
	"github.com/tendermint/tendermint/crypto/ed25519"
	"github.com/tendermint/tendermint/libs/log"
	"github.com/tendermint/tendermint/mempool/mock"
	"github.com/tendermint/tendermint/p2p"
	bcproto "github.com/tendermint/tendermint/proto/tendermint/blockchain"
	tmproto "github.com/tendermint/tendermint/proto/tendermint/types"
	"github.com/tendermint/tendermint/proxy"
	sm "github.com/tendermint/tendermint/state"
	"github.com/tendermint/tendermint/store"
	"github.com/tendermint/tendermint/types"
	"github.com/tendermint/tendermint/version"

	"verif/chaingen"
	"verif/recapp"
	"verif/ref"
)

// ---- event log (monitor state: own mutex, written at component boundaries only)

type Event struct {
	Seq  int    `json:"seq"`
	Kind string `json:"kind"`
	Who  string `json:"who,omitempty"`
	H    int64  `json:"h,omitempty"`
	Info string `json:"info,omitempty"`
}

type evlog struct {
	mu       sync.Mutex
	evs      []Event
	activity int64 // events that mean the sync is getting somewhere (see add)
	maxReq   int64 // highest height any peer has been asked for
}

func (l *evlog) add(kind, who string, h int64, info string) int {
	l.mu.Lock()
	defer l.mu.Unlock()
	l.evs = append(l.evs, Event{Seq: len(l.evs), Kind: kind, Who: who, H: h, Info: info})
	// progress: a block saved, a height requested that was never requested before, a peer added or
	// removed.  Asking again for a height that was already asked for (the pool's 30 s request retry
	// does that even for blocks it holds) and the answers to it are not progress.
	switch kind {
	case "save", "node_add_peer", "node_remove_peer", "handover":
		l.activity++
	case "req_received":
		if h > l.maxReq {
			l.maxReq = h
			l.activity++
		}
	}
	return len(l.evs) - 1
}

func (l *evlog) activityCount() int64 {
	l.mu.Lock()
	defer l.mu.Unlock()
	return l.activity
}

func (l *evlog) snapshot() []Event {
	l.mu.Lock()
	defer l.mu.Unlock()
	return append([]Event(nil), l.evs...)
}

// live prints a finding at once, so that it survives a crash of the process.
var outMu sync.Mutex

type Finding struct {
	Key  string `json:"key"`
	What string `json:"what"`
}

func emit(tag string, v interface{}) {
	b, _ := json.Marshal(v)
	outMu.Lock()
	fmt.Fprintf(os.Stdout, "%s %s\n", tag, b)
	outMu.Unlock()
}

// ---- capturing logger (diagnostics for witnesses only)

type capLogger struct {
	l      *evlog
	prefix string
}

func (c capLogger) Debug(string, ...interface{}) {}
func (c capLogger) Info(string, ...interface{})  {}
func (c capLogger) Error(msg string, kv ...interface{}) {
	s := msg
	for i := 0; i+1 < len(kv); i += 2 {
		v := fmt.Sprintf("%v", kv[i+1])
		if len(v) > 160 {
			v = v[:160] + "…"
		}
		s += fmt.Sprintf(" %v=%s", kv[i], v)
	}
	c.l.add("node_error_log", c.prefix, 0, s)
}
func (c capLogger) With(...interface{}) log.Logger { return c }

// ---- block store monitor

type monDB struct {
	dbm.DB
	onSet func(k, v []byte)
}

func (m *monDB) Set(k, v []byte) error {
	m.onSet(k, v)
	return m.DB.Set(k, v)
}
func (m *monDB) SetSync(k, v []byte) error {
	m.onSet(k, v)
	return m.DB.SetSync(k, v)
}

// ---- the reactor wrapper: sees every message the switch delivers to the reactor under test

type bcWrapper struct {
	p2p.Reactor // the reactor under test (blockchain v0; v1 / v2 in the thorough tier)
	recv        func(p2p.Envelope)
	h           *harness
}

func (w *bcWrapper) ReceiveEnvelope(e p2p.Envelope) {
	name := w.h.nameOf(e.Src.ID())
	switch msg := e.Message.(type) {
	case *bcproto.BlockResponse:
		var height int64
		info := "undecodable"
		if b, err := types.BlockFromProto(msg.Block); err == nil {
			height = b.Height
			info = "noncanonical"
			if rec := w.h.w.rec(height); rec != nil && bytes.Equal(rec.BlockID.Hash, b.Hash()) {
				info = "canonical"
			}
		} else if msg.Block != nil {
			height = msg.Block.Header.Height
		}
		w.recv(e)
		w.h.log.add("block_delivered", name, height, info)
		if i := w.h.indexOf(e.Src.ID()); i >= 0 {
			for _, a := range w.h.sc.Peers[i].Ahead {
				if a == height {
					atomic.AddInt32(&w.h.aheadSeen[i], 1)
				}
			}
			atomic.AddInt32(&w.h.answered[i], 1)
		}
	case *bcproto.StatusResponse:
		w.recv(e)
		w.h.log.add("status_delivered", name, msg.Height, fmt.Sprintf("base=%d", msg.Base))
	case *bcproto.NoBlockResponse:
		w.recv(e)
		w.h.log.add("noblock_delivered", name, msg.Height, "")
	default:
		w.recv(e)
	}
}

func (w *bcWrapper) AddPeer(peer p2p.Peer) {
	if i := w.h.indexOf(peer.ID()); i >= 0 {
		atomic.StoreInt32(&w.h.reqs[i], 0)
		atomic.StoreInt32(&w.h.answered[i], 0)
	}
	w.h.log.add("node_add_peer", w.h.nameOf(peer.ID()), 0, "")
	w.Reactor.AddPeer(peer)
}

func (w *bcWrapper) RemovePeer(peer p2p.Peer, reason interface{}) {
	r := fmt.Sprintf("%v", reason)
	if len(r) > 200 {
		r = r[:200] + "…"
	}
	w.Reactor.RemovePeer(peer, reason)
	name := w.h.nameOf(peer.ID())
	w.h.log.add("node_remove_peer", name, 0, r)
	if reason != nil {
		atomic.AddInt32(&w.h.errDrops, 1)
		if w.h.specOf(name).Honest {
			atomic.AddInt32(&w.h.honestErrDrops, 1)
		}
	}
}

// ---- the consensus side of the hand-over

type consStub struct {
	p2p.BaseReactor
	h *harness
}

func (cs *consStub) SwitchToConsensus(state sm.State, skipWAL bool) {
	h := cs.h
	seq := h.log.add("handover", "", state.LastBlockHeight, fmt.Sprintf("skipWAL=%v", skipWAL))
	h.mu.Lock()
	h.handed = true
	h.handSeq = seq
	h.handState = state.Copy()
	h.handSkipWAL = skipWAL
	h.connectedAtHand = map[string]bool{}
	for i := range h.sc.Peers {
		h.connectedAtHand[h.sc.Peers[i].Name] = h.node.sw.Peers().Has(h.peerIDs[i])
	}
	h.mu.Unlock()
	// what the real consensus reactor does next: rebuild the consensus state from what was stored
	func() {
		defer func() {
			if r := recover(); r != nil {
				h.mu.Lock()
				h.handPanic = fmt.Sprintf("%v", r)
				h.handStack = string(debug.Stack())
				h.mu.Unlock()
			}
		}()
		conS := consensus.NewState(cfg.TestConsensusConfig(), state, h.node.exec, h.node.blockStore, mock.Mempool{}, sm.EmptyEvidencePool{})
		_ = conS
	}()
	close(h.handCh)
}

// ---- the hook between verification and application (class "gap")

// hookEvPool is the evidence pool of the node's executor: empty, but ValidateBlock calls its
// CheckEvidence as the last thing of the reactor's verify step, which is where the harness steps in.
type hookEvPool struct {
	sm.EmptyEvidencePool
	h *harness
}

func (p hookEvPool) CheckEvidence(types.EvidenceList) error {
	h := p.h
	if h.node == nil || h.node.blockStore == nil || h.node.app == nil {
		return nil
	}
	// ApplyBlock validates once more, after the block was saved and before it is executed: then the
	// application is one block behind the store.  In the verify step the two are level.
	if s := h.node.blockStore.Height(); h.node.app.Height() == s {
		h.gapHook("ValidateBlock (evidence pool callback)", s+1)
	}
	return nil
}

func (h *harness) isGapHeight(ht int64) bool {
	for _, g := range h.sc.GapHeights {
		if g == ht {
			return true
		}
	}
	return false
}

// gapHook runs inside the node's own sync routine, after it has verified block ht and before it has
// saved / applied it (v0: ValidateBlock's evidence callback; v1, v2: the block store's first write for ht).
func (h *harness) gapHook(site string, ht int64) {
	if atomic.LoadInt32(&h.gapArmed) == 0 || !h.isGapHeight(ht) {
		return
	}
	h.mu.Lock()
	if h.gapDone[ht] {
		h.mu.Unlock()
		return
	}
	h.gapDone[ht] = true
	h.mu.Unlock()
	seq := h.log.add("gap_hook", "", ht, site)
	done := make(chan struct{})
	go func() {
		defer close(done)
		// who delivered the block that has just been verified
		p1 := -1
		for k := 0; k < 20 && p1 < 0; k++ {
			evs := h.log.snapshot()
			for i := len(evs) - 1; i >= 0; i-- {
				if evs[i].Kind == "block_delivered" && evs[i].H == ht && evs[i].Info == "canonical" {
					for j := range h.sc.Peers {
						if h.sc.Peers[j].Name == evs[i].Who {
							p1 = j
						}
					}
					break
				}
			}
			if p1 < 0 {
				time.Sleep(5 * time.Millisecond)
			}
		}
		if p1 < 0 {
			h.log.add("gap_hook_no_deliverer", "", ht, "")
			return
		}
		// the lying peer is there and known to the pool before the deliverer goes
		z := -1
		for j := range h.sc.Peers {
			if h.sc.Peers[j].HookAt == ht {
				z = j
			}
		}
		if z >= 0 {
			p2p.Connect2Switches([]*p2p.Switch{h.node.sw, h.peerSw[z]}, 0, 1)
			for k := 0; k < 200 && !h.logHas(seq, "status_delivered", h.sc.Peers[z].Name, 0); k++ {
				time.Sleep(5 * time.Millisecond)
			}
		}
		if peer := h.node.sw.Peers().Get(h.peerIDs[p1]); peer != nil {
			h.log.add("gap_remove_deliverer", h.sc.Peers[p1].Name, ht, "")
			h.node.sw.StopPeerForError(peer, errors.New("c13 harness: peer lost between verification and application"))
		}
		if z < 0 {
			time.Sleep(50 * time.Millisecond) // the requester's slot is reset; nobody refills it
			h.log.add("gap_slot_left_empty", "", ht, "")
			return
		}
		for k := 0; k < 400; k++ { // until the node's reactor has taken the substitute (2 s at most)
			if h.logHas(seq, "block_delivered", h.sc.Peers[z].Name, ht) {
				h.log.add("gap_substitute_recorded", h.sc.Peers[z].Name, ht, "")
				return
			}
			time.Sleep(5 * time.Millisecond)
		}
		h.log.add("gap_substitute_not_delivered", h.sc.Peers[z].Name, ht, "")
	}()
	select {
	case <-done:
	case <-time.After(5 * time.Second):
		h.log.add("gap_hook_timed_out", "", ht, "")
	}
}

func (h *harness) logHas(after int, kind, who string, ht int64) bool {
	evs := h.log.snapshot()
	for i := len(evs) - 1; i >= 0 && evs[i].Seq > after; i-- {
		if evs[i].Kind == kind && evs[i].Who == who && (ht == 0 || evs[i].H == ht) {
			return true
		}
	}
	return false
}

// ---- node

type node struct {
	sw         *p2p.Switch
	app        *recapp.App
	conns      proxy.AppConns
	stateStore sm.Store
	blockStore *store.BlockStore
	exec       *sm.BlockExecutor
	state      sm.State
}

type harness struct {
	sc    *Scenario
	w     *world
	log   *evlog
	sched *scheduler
	node  *node

	peerSw  []*p2p.Switch
	peerIDs []p2p.ID
	nodeID  p2p.ID

	mu              sync.Mutex
	handed          bool
	handSeq         int
	handState       sm.State
	handSkipWAL     bool
	handPanic       string
	handStack       string
	connectedAtHand map[string]bool
	handCh          chan struct{}
	live            []Finding
	execNext        int64
	reconnects      map[string]int
	errDrops        int32 // peers the node removed with an error
	honestErrDrops  int32 // honest ones among them

	maxReconnect int
	reqs         []int32 // per peer: block requests received (since its last connect for honest peers)
	answered     []int32 // per peer: its blocks delivered to the node's reactor (same)
	lastAct      map[int]int64
	quiet        map[int]int
	stallCh      chan string
	gapArmed     int32
	gapDone      map[int64]bool
	aheadSeen    []int32 // per peer: its ahead blocks delivered to the node's reactor
	reactors     []*peerReactor
}

func (h *harness) indexOf(id p2p.ID) int {
	for i, p := range h.peerIDs {
		if p == id {
			return i
		}
	}
	return -1
}

// tick is called when honest peer idx receives one of the node's StatusRequests, which the node
// broadcasts from its own 10 s ticker: the node's own clock.  Stall oracle: four consecutive tick
// intervals (40 s by the node's clock, above its 30 s request retry and its peer timeout) without
// progress (no block saved, no height requested that had not been requested before, no peer added or
// removed), while
// this honest peer holds the whole chain, is connected, has answered every request it was given, no
// hostile peer is connected any more, and the node is below the tip and has not handed over.
func (h *harness) tick(idx int) {
	spec := &h.sc.Peers[idx]
	if !spec.Honest || spec.Height < h.w.last {
		return
	}
	act := h.log.activityCount()
	h.mu.Lock()
	if act != h.lastAct[idx] {
		h.lastAct[idx], h.quiet[idx] = act, 0
		h.mu.Unlock()
		return
	}
	h.quiet[idx]++
	q, handed := h.quiet[idx], h.handed
	h.mu.Unlock()
	if q < 4 || handed || !h.node.sw.Peers().Has(h.peerIDs[idx]) || atomic.LoadInt32(&h.reqs[idx]) != atomic.LoadInt32(&h.answered[idx]) {
		return
	}
	for i := range h.sc.Peers {
		if !h.sc.Peers[i].Honest && h.node.sw.Peers().Has(h.peerIDs[i]) {
			return
		}
	}
	s := h.node.blockStore.Height()
	if s >= spec.Height-2 {
		return
	}
	what := fmt.Sprintf("the node sits at height %d of %d with no outstanding request: through %d consecutive 10 s status ticks of its own it saved no block, requested no new height and added or removed no peer, although honest peer %s, which holds the whole chain, is connected, has answered all %d requests it was given and no hostile peer is left", s, spec.Height, q, spec.Name, atomic.LoadInt32(&h.reqs[idx]))
	h.liveFinding("v0-sync-stalled-with-idle-honest-peer", what)
	select {
	case h.stallCh <- what:
	default:
	}
}

func (h *harness) nameOf(id p2p.ID) string {
	for i, p := range h.peerIDs {
		if p == id {
			return h.sc.Peers[i].Name
		}
	}
	if id == h.nodeID {
		return "node"
	}
	return string(id)
}

// vkey names the reactor version in the finding key (the keys are written for v0).
func (h *harness) vkey(key string) string {
	return strings.Replace(key, "v0-", h.sc.Version+"-", 1)
}

func (h *harness) liveFinding(key, what string) {
	key = h.vkey(key)
	h.mu.Lock()
	h.live = append(h.live, Finding{key, what})
	h.mu.Unlock()
	emit("C13LIVE", Finding{key, what})
}

func p2pConfig() *cfg.P2PConfig {
	c := cfg.DefaultP2PConfig()
	c.AllowDuplicateIP = true
	c.FlushThrottleTimeout = 10 * time.Millisecond
	return c
}

func mkSwitch(pc *cfg.P2PConfig, name string, secret string, reactors map[string]p2p.Reactor, logger log.Logger) (*p2p.Switch, p2p.ID) {
	nodeKey := p2p.NodeKey{PrivKey: ed25519.GenPrivKeyFromSecret([]byte(secret))}
	ni := p2p.DefaultNodeInfo{
		ProtocolVersion: p2p.NewProtocolVersion(version.P2PProtocol, version.BlockProtocol, 0),
		DefaultNodeID:   nodeKey.ID(),
		ListenAddr:      "127.0.0.1:26656", // never listened on: connections are in-memory pipes
		Network:         "c13",
		Version:         "0.34.24",
		Channels:        []byte{bcv0.BlockchainChannel},
		Moniker:         name,
		Other:           p2p.DefaultNodeInfoOther{TxIndex: "off", RPCAddress: "127.0.0.1:26657"},
	}
	t := p2p.NewMultiplexTransport(ni, nodeKey, p2p.MConnConfig(pc))
	sw := p2p.NewSwitch(pc, t)
	sw.SetLogger(logger)
	for n, r := range reactors {
		sw.AddReactor(n, r)
	}
	sw.SetNodeKey(&nodeKey)
	sw.SetNodeInfo(ni)
	return sw, nodeKey.ID()
}

func (h *harness) buildNode() {
	w, sc := h.w, h.sc
	n := &node{}
	h.node = n
	n.stateStore = sm.NewStore(dbm.NewMemDB(), sm.StoreOptions{})
	bdb := &monDB{DB: dbm.NewMemDB()}
	bdb.onSet = func(k, v []byte) {
		if bytes.HasPrefix(k, []byte("P:")) {
			var ht int64
			var idx int
			if _, err := fmt.Sscanf(string(k), "P:%d:%d", &ht, &idx); err == nil && idx == 0 {
				h.gapHook("block store's first write", ht)
			}
			return
		}
		if !bytes.HasPrefix(k, []byte("H:")) {
			return
		}
		var height int64
		if _, err := fmt.Sscanf(string(k), "H:%d", &height); err != nil {
			return
		}
		pbm := new(tmproto.BlockMeta)
		if err := pbm.Unmarshal(v); err != nil {
			return
		}
		ok := false
		if rec := w.rec(height); rec != nil && bytes.Equal(rec.BlockID.Hash, pbm.BlockID.Hash) &&
			bytes.Equal(rec.BlockID.PartSetHeader.Hash, pbm.BlockID.PartSetHeader.Hash) && rec.BlockID.PartSetHeader.Total == pbm.BlockID.PartSetHeader.Total {
			ok = true
		}
		h.log.add("save", "", height, fmt.Sprintf("canonical=%v", ok))
		if !ok {
			if sc.Class == "signed" {
				// (own key: the block carries a genuine +2/3 commit, what is missing is the validation against the state)
				h.liveFinding("v0-invalid-block-with-valid-commit-saved", fmt.Sprintf("the syncing node wrote block meta for height %d with block id hash %X: a block whose header contradicts the node's state (its commit by the prescribed validator set verifies) was saved without having passed full validation", height, pbm.BlockID.Hash))
			} else {
				h.liveFinding("v0-noncanonical-block-saved", fmt.Sprintf("the syncing node wrote block meta for height %d with block id hash %X, which is not the canonical block of that height", height, pbm.BlockID.Hash))
			}
		}
	}
	n.blockStore = store.NewBlockStore(bdb)
	h.execNext = w.first
	n.app = recapp.New(recapp.Options{Hook: func(ev recapp.Event) {
		if ev.Method != "BeginBlock" || ev.Phase != "call" {
			return
		}
		h.mu.Lock()
		want := h.execNext
		h.execNext = ev.Height + 1
		h.mu.Unlock()
		// the block store holds a block before the application is asked to execute it (consensus and the
		// sync reactors save first; the handshake relies on app height <= store height)
		if sh := n.blockStore.Height(); sh < ev.Height {
			h.liveFinding("v0-application-ahead-of-block-store", fmt.Sprintf("the application got BeginBlock for height %d while the block store is at height %d: the block is executed before it is saved", ev.Height, sh))
		}
		rec := w.rec(ev.Height)
		okHash := rec != nil && strings.EqualFold(ev.Hash, hex.EncodeToString(rec.BlockID.Hash))
		h.log.add("exec", "", ev.Height, fmt.Sprintf("canonical=%v", okHash))
		if !okHash {
			h.liveFinding("v0-noncanonical-block-executed", fmt.Sprintf("the syncing node's application got BeginBlock for height %d with hash %s, not the canonical block", ev.Height, ev.Hash))
		} else if ev.Height != want {
			h.liveFinding("v0-block-executed-out-of-order", fmt.Sprintf("BeginBlock for height %d while height %d was next", ev.Height, want))
		}
	}})
	n.conns = proxy.NewAppConns(proxy.NewLocalClientCreator(n.app))
	n.conns.SetLogger(log.NewNopLogger())
	if err := n.conns.Start(); err != nil {
		panic(err)
	}
	st, err := sm.MakeGenesisState(w.c.GenDoc)
	if err != nil {
		panic(err)
	}
	if err := n.stateStore.Save(st); err != nil {
		panic(err)
	}
	n.app.InitChain(chaingen.InitChainReq(w.c.GenDoc))
	nodeLog := capLogger{l: h.log, prefix: "node"}
	n.exec = sm.NewBlockExecutor(n.stateStore, log.NewNopLogger(), n.conns.Consensus(), mock.Mempool{}, hookEvPool{h: h})
	// the node's own earlier history: canonical blocks it applied itself before this sync
	for ht := w.first; sc.NodeStart > 0 && ht <= sc.NodeStart; ht++ {
		rec := w.rec(ht)
		n.blockStore.SaveBlock(rec.Block, rec.Parts, rec.Commit)
		st, _, err = n.exec.ApplyBlock(st, rec.BlockID, rec.Block)
		if err != nil {
			panic(err)
		}
	}
	n.state = st
	wrap := &bcWrapper{h: h}
	switch sc.Version {
	case "v1":
		r := bcv1.NewBlockchainReactor(st.Copy(), n.exec, n.blockStore, true)
		r.SetLogger(nodeLog)
		wrap.Reactor, wrap.recv = r, r.ReceiveEnvelope
	case "v2":
		r := bcv2.NewBlockchainReactor(st.Copy(), n.exec, n.blockStore, true)
		r.SetLogger(nodeLog)
		wrap.Reactor, wrap.recv = r, r.ReceiveEnvelope
	default:
		r := bcv0.NewBlockchainReactor(st.Copy(), n.exec, n.blockStore, true)
		r.SetLogger(nodeLog)
		wrap.Reactor, wrap.recv = r, r.ReceiveEnvelope
	}
	stub := &consStub{h: h}
	stub.BaseReactor = *p2p.NewBaseReactor("C13ConsensusStub", stub)
	n.sw, h.nodeID = mkSwitch(p2pConfig(), "node", fmt.Sprintf("c13-node-%d", sc.Index),
		map[string]p2p.Reactor{"BLOCKCHAIN": wrap, "CONSENSUS": stub}, capLogger{l: h.log, prefix: "node-switch"})
}

// ---- result

type PeerResult struct {
	Name             string   `json:"name"`
	Honest           bool     `json:"honest"`
	Requests         int      `json:"requests_received"`
	Delivered        int      `json:"blocks_delivered"`
	BadDelivered     []int64  `json:"noncanonical_blocks_delivered_at,omitempty"`
	Removed          []string `json:"removed_by_node,omitempty"`
	ConnectedAtHand  bool     `json:"connected_at_handover"`
	Reconnects       int      `json:"reconnects"`
	ValidationDrops  int      `json:"validation_drops"`
	AnsweredBadAsked []int64  `json:"answered_request_with_noncanonical_block_at,omitempty"`
}

type CommitCheck struct {
	H         int64  `json:"h"`
	Which     string `json:"which"`
	TwoThirds bool   `json:"two_thirds_for_block"`
	AllValid  bool   `json:"all_non_absent_slots_valid"`
	AddrOK    bool   `json:"slot_addresses_match"`
	Detail    string `json:"detail,omitempty"`
	Commit    string `json:"commit,omitempty"`
}

type Result struct {
	Scenario     *Scenario      `json:"scenario"`
	HandedOver   bool           `json:"handed_over"`
	HandHeight   int64          `json:"handover_height"`
	SkipWAL      bool           `json:"skip_wal"`
	HandPanic    string         `json:"handover_panic,omitempty"`
	HandStack    string         `json:"handover_stack,omitempty"`
	Watchdog     bool           `json:"watchdog_fired"`
	StoreBase    int64          `json:"store_base"`
	StoreHeight  int64          `json:"store_height"`
	Synced       int64          `json:"blocks_synced"`
	LastSeen     *CommitCheck   `json:"last_seen_commit,omitempty"`
	InterInvalid []CommitCheck  `json:"intermediate_seen_commits_with_invalid_slots,omitempty"`
	Peers        []PeerResult   `json:"peers"`
	Findings     []Finding      `json:"findings"`
	Counts       map[string]int `json:"counts"`
	Events       []Event        `json:"events"`
	HonestTip    int64          `json:"honest_tip"`
	ElapsedMs    int64          `json:"elapsed_ms"`
	Inconclusive string         `json:"inconclusive,omitempty"`
	Aborted      string         `json:"gave_up,omitempty"`
	Stalled      bool           `json:"stall_oracle_fired,omitempty"`
	Decided      bool           `json:"decided_without_handover,omitempty"`
}

func (h *harness) checkCommit(ht int64, which string, cm *types.Commit) CommitCheck {
	rec := h.w.rec(ht)
	cc := CommitCheck{H: ht, Which: which}
	if rec == nil || cm == nil {
		cc.Detail = "no canonical block / no commit"
		return cc
	}
	vals := rec.StateBefore.Validators
	t := ref.TallyCommit(chainID, vals, rec.BlockID, ht, cm)
	cc.TwoThirds = t.OK()
	cc.AllValid = t.AllNonAbsentValid
	cc.AddrOK = true
	for i, s := range cm.Signatures {
		if s.BlockIDFlag == types.BlockIDFlagAbsent || i >= vals.Size() {
			continue
		}
		if !bytes.Equal(s.ValidatorAddress, vals.Validators[i].Address) {
			cc.AddrOK = false
			cc.Detail += fmt.Sprintf("slot %d names %X, validator %d is %X; ", i, s.ValidatorAddress, i, vals.Validators[i].Address)
		}
	}
	if t.Structural != nil {
		cc.Detail += t.Structural.Error() + "; "
	}
	if !cc.AllValid {
		cc.Detail += fmt.Sprintf("non-absent slots %d, counted for block %d of %d validators; ", t.NonAbsent, t.Counted, vals.Size())
	}
	if !cc.TwoThirds || !cc.AllValid || !cc.AddrOK {
		cc.Commit = cm.StringIndented("")
	}
	return cc
}

func runScenario(sc *Scenario, w *world) *Result {
	start := time.Now()
	h := &harness{sc: sc, w: w, log: &evlog{}, handCh: make(chan struct{}), reconnects: map[string]int{}, maxReconnect: 6,
		reqs: make([]int32, len(sc.Peers)), answered: make([]int32, len(sc.Peers)), lastAct: map[int]int64{}, quiet: map[int]int{}, stallCh: make(chan string, 1), gapDone: map[int64]bool{}, aheadSeen: make([]int32, len(sc.Peers))}
	dropBound := int32(12)
	if sc.Class == "leftover" {
		h.maxReconnect = 0 // few honest peers, and they do not come back
	}
	if sc.Class == "long" {
		h.maxReconnect, dropBound = 60, 150
		if sc.Version == "v0" {
			v0PeerTimeout = 4 * time.Second // see knobs.go
		}
	}
	h.sched = newScheduler(sc.SchedSeed, sc.WindowMs, sc.HoldProb, sc.MaxPerWindow, h.log)
	h.buildNode()
	pc := p2pConfig()
	for i := range sc.Peers {
		pr := newPeerReactor(h, i)
		h.reactors = append(h.reactors, pr)
		sw, id := mkSwitch(pc, sc.Peers[i].Name, fmt.Sprintf("c13-peer-%d-%d", sc.Index, i), map[string]p2p.Reactor{"BLOCKCHAIN": pr}, log.NewNopLogger())
		h.peerSw = append(h.peerSw, sw)
		h.peerIDs = append(h.peerIDs, id)
	}
	atomic.StoreInt32(&h.gapArmed, 1)
	if err := h.node.sw.Start(); err != nil {
		panic(err)
	}
	for _, sw := range h.peerSw {
		if err := sw.Start(); err != nil {
			panic(err)
		}
	}
	for i := range h.peerSw {
		if !sc.Peers[i].Late && sc.Peers[i].Wave == 0 {
			p2p.Connect2Switches([]*p2p.Switch{h.node.sw, h.peerSw[i]}, 0, 1)
		}
	}
	abortCh := make(chan string, 1)
	// class "pusher": once the honest peer holds its 20 outstanding requests, push
	for i := range sc.Peers {
		if !sc.Peers[i].Pusher {
			continue
		}
		go func(i int) {
			for k := 0; k < 600; k++ {
				full := false
				for j := range sc.Peers {
					if sc.Peers[j].Honest && atomic.LoadInt32(&h.reqs[j]) >= 20 {
						full = true
					}
				}
				if full {
					break
				}
				time.Sleep(5 * time.Millisecond)
			}
			h.reactors[i].push()
		}(i)
	}
	// class "leftover": once its ahead blocks have been delivered the liar leaves, or answers the low heights
	for i := range sc.Peers {
		if len(sc.Peers[i].Ahead) == 0 {
			continue
		}
		go func(i int) {
			// until all ahead blocks are with the node; the pool hands a peer 20 requests at a time in no
			// particular order, so settle for two of them once no further one has arrived for 150 ms
			last, lastChange := int32(0), time.Now()
			for k := 0; k < 800; k++ {
				n := atomic.LoadInt32(&h.aheadSeen[i])
				if n != last {
					last, lastChange = n, time.Now()
				}
				if int(n) >= len(sc.Peers[i].Ahead) || (n >= 2 && time.Since(lastChange) > 150*time.Millisecond) {
					break
				}
				time.Sleep(5 * time.Millisecond)
			}
			h.log.add("ahead_delivered", sc.Peers[i].Name, 0, fmt.Sprintf("%d of %d", atomic.LoadInt32(&h.aheadSeen[i]), len(sc.Peers[i].Ahead)))
			if sc.Peers[i].LeaveAfterAhead {
				h.log.add("liar_leaves", sc.Peers[i].Name, 0, "")
				_ = h.peerSw[i].Stop()
				return
			}
			h.reactors[i].release()
		}(i)
	}
	// waves of peers that connect, are given requests and leave
	stopWaves := make(chan struct{})
	var waveWG sync.WaitGroup
	waveWG.Add(1)
	go func() {
		defer waveWG.Done()
		sleep := func(d time.Duration) bool {
			select {
			case <-stopWaves:
				return false
			case <-time.After(d):
				return true
			}
		}
		for wv := 1; ; wv++ {
			var members []int
			for i := range sc.Peers {
				if sc.Peers[i].Wave == wv {
					members = append(members, i)
				}
			}
			if len(members) == 0 || !sleep(30*time.Millisecond) {
				return
			}
			for _, i := range members {
				h.log.add("wave_connect", sc.Peers[i].Name, 0, "")
				p2p.Connect2Switches([]*p2p.Switch{h.node.sw, h.peerSw[i]}, 0, 1)
			}
			for k := 0; k < 25; k++ { // until every member has been given requests (0.5 s at most)
				all := true
				for _, i := range members {
					if atomic.LoadInt32(&h.reqs[i]) == 0 {
						all = false
					}
				}
				if all || !sleep(20*time.Millisecond) {
					break
				}
			}
			for _, i := range members {
				h.log.add("wave_leave", sc.Peers[i].Name, 0, fmt.Sprintf("requests=%d", atomic.LoadInt32(&h.reqs[i])))
				_ = h.peerSw[i].Stop()
			}
			for k := 0; k < 100; k++ {
				gone := true
				for _, i := range members {
					if h.node.sw.Peers().Has(h.peerIDs[i]) {
						gone = false
					}
				}
				if gone || !sleep(20*time.Millisecond) {
					break
				}
			}
		}
	}()
	// honest peers come back after being dropped (as persistent peers do), a bounded number of times
	stopRe := make(chan struct{})
	var reWG sync.WaitGroup
	reWG.Add(1)
	go func() {
		defer reWG.Done()
		goneSince := map[int]time.Time{}
		lateDone := map[int]bool{}
		var exhaustedSince time.Time
		for {
			select {
			case <-stopRe:
				return
			case <-time.After(20 * time.Millisecond):
			}
			// a late peer connects once the node has dropped somebody for an error (1.5 s at the latest)
			for i := range sc.Peers {
				need := int32(sc.Peers[i].LateAfter)
				if need < 1 {
					need = 1
				}
				// (the 1.5 s fall-back only where no number of drops was asked for)
				if sc.Peers[i].Late && !lateDone[i] && (atomic.LoadInt32(&h.errDrops) >= need || (sc.Peers[i].LateAfter == 0 && time.Since(start) > 1500*time.Millisecond)) {
					lateDone[i] = true
					h.log.add("late_connect", sc.Peers[i].Name, 0, "")
					p2p.Connect2Switches([]*p2p.Switch{h.node.sw, h.peerSw[i]}, 0, 1)
				}
			}
			// give up (logical bound, not a clock): honest peers were dropped 12 times, or all of them are
			// gone with their re-connect budget used up
			allGone := true
			for i := range sc.Peers {
				if !sc.Peers[i].Honest {
					continue
				}
				h.mu.Lock()
				n := h.reconnects[sc.Peers[i].Name]
				h.mu.Unlock()
				if (sc.Peers[i].Late && !lateDone[i]) || n < h.maxReconnect || h.node.sw.Peers().Has(h.peerIDs[i]) {
					allGone = false
				}
			}
			if !allGone {
				exhaustedSince = time.Time{}
			} else if exhaustedSince.IsZero() {
				exhaustedSince = time.Now()
			}
			if atomic.LoadInt32(&h.honestErrDrops) >= dropBound || (allGone && time.Since(exhaustedSince) > 500*time.Millisecond) {
				select {
				case abortCh <- "honest peers were dropped again and again until their re-connect budget was used up":
				default:
				}
			}
			for i := range sc.Peers {
				if !sc.Peers[i].Honest || (sc.Peers[i].Late && !lateDone[i]) {
					continue
				}
				gone := !h.node.sw.Peers().Has(h.peerIDs[i]) && !h.peerSw[i].Peers().Has(h.nodeID)
				if !gone {
					delete(goneSince, i)
					continue
				}
				if _, ok := goneSince[i]; !ok {
					goneSince[i] = time.Now()
					continue
				}
				if time.Since(goneSince[i]) < 100*time.Millisecond {
					continue
				}
				h.mu.Lock()
				n := h.reconnects[sc.Peers[i].Name]
				done := h.handed
				if n < h.maxReconnect && !done {
					h.reconnects[sc.Peers[i].Name] = n + 1
				}
				h.mu.Unlock()
				if n >= h.maxReconnect || done {
					continue
				}
				h.log.add("reconnect", sc.Peers[i].Name, 0, "")
				p2p.Connect2Switches([]*p2p.Switch{h.node.sw, h.peerSw[i]}, 0, 1)
				delete(goneSince, i)
			}
		}
	}()
	// The pool can lose a request when a peer is removed between being picked and being recorded
	// by the requester; only its 30 s request retry recovers that, so the watchdog sits above it.
	wd := 42 * time.Second
	if sc.Version != "v0" {
		wd = 25 * time.Second // v1 / v2 have no 30 s retry; their own timeouts are 10-15 s
	}
	if sc.Timeouts {
		wd = 65 * time.Second
	}
	if sc.Class == "long" {
		wd = 150 * time.Second // above the stall oracle's four 10 s ticks after a sync of a few seconds
	}
	res := &Result{Scenario: sc, Counts: map[string]int{}}
	select {
	case <-h.handCh:
	case why := <-h.stallCh:
		res.Watchdog = true
		res.Aborted = why
		res.Stalled = true
	case why := <-abortCh:
		res.Watchdog = true
		res.Aborted = why
	case <-time.After(wd):
		res.Watchdog = true
	}
	close(stopRe)
	close(stopWaves)
	reWG.Wait()
	waveWG.Wait()
	h.sched.stop()
	_ = h.node.sw.Stop()
	for _, sw := range h.peerSw {
		_ = sw.Stop()
	}
	time.Sleep(20 * time.Millisecond)
	res.ElapsedMs = time.Since(start).Milliseconds()
	h.evaluate(res)
	return res
}

func (h *harness) evaluate(res *Result) {
	sc, w := h.sc, h.w
	v0 := sc.Version == "v0"
	n := h.node
	evs := h.log.snapshot()
	h.mu.Lock()
	handed, handSeq, handState := h.handed, h.handSeq, h.handState
	res.HandedOver, res.SkipWAL, res.HandPanic, res.HandStack = h.handed, h.handSkipWAL, h.handPanic, h.handStack
	res.Findings = append(res.Findings, h.live...)
	connected := h.connectedAtHand
	h.mu.Unlock()
	add := func(key, format string, a ...interface{}) {
		res.Findings = append(res.Findings, Finding{h.vkey(key), fmt.Sprintf(format, a...)})
	}
	if !handed {
		handSeq = len(evs)
	} else {
		res.HandHeight = handState.LastBlockHeight
	}
	res.StoreBase, res.StoreHeight = n.blockStore.Base(), n.blockStore.Height()
	from := w.first
	if sc.NodeStart > 0 {
		from = sc.NodeStart + 1
	}
	if res.StoreHeight >= from {
		res.Synced = res.StoreHeight - from + 1
	}

	// O1: what is stored equals the canonical chain
	for ht := from; ht <= res.StoreHeight; ht++ {
		rec := w.rec(ht)
		meta := n.blockStore.LoadBlockMeta(ht)
		blk := n.blockStore.LoadBlock(ht)
		switch {
		case blk == nil || meta == nil:
			add("v0-stored-block-unreadable", "height %d is within the store's range [%d,%d] but cannot be loaded", ht, res.StoreBase, res.StoreHeight)
		case rec == nil || !bytes.Equal(blk.Hash(), rec.BlockID.Hash) || !meta.BlockID.Equals(rec.BlockID):
			add("v0-noncanonical-block-stored", "stored block at height %d has hash %X, the canonical chain has %v", ht, blk.Hash(), func() string {
				if rec == nil {
					return "no block at that height"
				}
				return fmt.Sprintf("%X", rec.BlockID.Hash)
			}())
		}
		if rec == nil {
			continue
		}
		// O3: every stored commit is a +2/3 commit for exactly the canonical block
		seen := h.checkCommit(ht, "seen", n.blockStore.LoadSeenCommit(ht))
		if !seen.TwoThirds {
			add("v0-stored-seen-commit-below-two-thirds", "seen commit stored for height %d does not carry valid signatures of more than 2/3 for the block: %s", ht, seen.Detail)
		}
		if ht == res.StoreHeight {
			res.LastSeen = &seen
		} else if !seen.AllValid || !seen.AddrOK {
			res.InterInvalid = append(res.InterInvalid, seen)
		}
		if ht < res.StoreHeight {
			bcm := h.checkCommit(ht, "block", n.blockStore.LoadBlockCommit(ht))
			if !bcm.TwoThirds || !bcm.AllValid {
				add("v0-stored-block-commit-invalid", "block commit stored for height %d is not a fully valid +2/3 commit: %s", ht, bcm.Detail)
			}
		}
	}
	res.Counts["intermediate_seen_commit_with_invalid_slot"] = len(res.InterInvalid)

	// O2: the application executed exactly the stored canonical blocks (live monitor) up to the store height
	if got := n.app.Height(); got != res.StoreHeight && !(got == 0 && res.StoreHeight == 0) {
		// ApplyBlock follows SaveBlock; when the run was cut by the watchdog the two may differ by one
		if !(res.Watchdog && got+1 == res.StoreHeight) {
			add("v0-app-height-differs-from-store", "application height %d, block store height %d", got, res.StoreHeight)
		}
	}

	// per-peer bookkeeping from the event log (events after the hand-over do not count)
	byName := map[string]*PeerResult{}
	for i := range sc.Peers {
		p := &sc.Peers[i]
		res.Peers = append(res.Peers, PeerResult{Name: p.Name, Honest: p.Honest, ConnectedAtHand: connected[p.Name], Reconnects: h.reconnects[p.Name]})
	}
	for i := range res.Peers {
		byName[res.Peers[i].Name] = &res.Peers[i]
	}
	asked := map[string]map[int64]bool{}
	for _, e := range evs {
		if e.Seq >= handSeq {
			break
		}
		p := byName[e.Who]
		switch e.Kind {
		case "req_received":
			if p != nil {
				p.Requests++
				if asked[e.Who] == nil {
					asked[e.Who] = map[int64]bool{}
				}
				asked[e.Who][e.H] = true
			}
		case "block_delivered":
			if p != nil {
				p.Delivered++
				if e.Info != "canonical" {
					p.BadDelivered = append(p.BadDelivered, e.H)
					// (not at a gap height: there the harness lets the substitute arrive after the node has
					// already verified another block for that height, and the node never looks at it)
					if asked[e.Who][e.H] && !h.isGapHeight(e.H) {
						p.AnsweredBadAsked = append(p.AnsweredBadAsked, e.H)
					}
				}
			}
		case "node_remove_peer":
			if p != nil {
				p.Removed = append(p.Removed, e.Info)
				if isValidationDrop(sc.Version, e.Info) {
					p.ValidationDrops++
				}
			}
		case "node_error_log":
			if strings.HasPrefix(e.Info, "Error in validation") {
				res.Counts["validation_failures_logged"]++
			}
		}
	}
	var honestTip int64
	nLiars, honestValDrops, blocksFromPeers := 0, 0, 0
	for _, p := range res.Peers {
		blocksFromPeers += p.Delivered
		if !p.Honest {
			nLiars++
		} else {
			honestValDrops += p.ValidationDrops
		}
	}
	for i := range sc.Peers {
		if sc.Peers[i].Honest && sc.Peers[i].Height > honestTip {
			honestTip = sc.Peers[i].Height
		}
	}
	res.HonestTip = honestTip
	res.Counts["blocks_delivered"] = blocksFromPeers
	res.Counts["honest_validation_drops"] = honestValDrops

	// O8: canonical blocks with their canonical commits must not be rejected.  Every failed
	// validation involves at least one block sent by a liar, who is dropped by it and never comes
	// back, and drops at most one other peer; one more evaluation of the same, by then stale, pair can
	// be in flight while the requesters are being re-assigned and drop up to two more.  Hence at most
	// three per liar; the +3 is slack.
	if v0 && honestValDrops > 3*nLiars+3 {
		add("v0-canonical-blocks-rejected", "honest peers were dropped %d times for \"validation error\" although only %d lying peers ever connected: the node rejects canonical blocks carrying their canonical commits", honestValDrops, nLiars)
	}

	// class "pusher": only honest answers to requests and unsolicited pushes are on the wire, nothing
	// the honest peer does can be wrong and no request is ever redone: it must not be dropped
	if sc.Class == "pusher" && sc.Version != "v2" && res.ElapsedMs < 25000 {
		for _, p := range res.Peers {
			for _, why := range p.Removed {
				if p.Honest && why != "<nil>" {
					add("v0-honest-peer-dropped-because-of-unsolicited-blocks", "honest peer %s, which only answered the requests it was given, was dropped (%s) while another peer pushed blocks nobody had asked it for", p.Name, why)
					break
				}
			}
		}
	}
	if sc.Version == "v0" || sc.Version == "v1" {
		before := len(res.Findings)
		mr, md, su := h.pairOracles(evs, handSeq, add)
		res.Counts["honest_peer_dropped_while_removed_peers_block_still_in_pool"] = su
		res.Counts["pair_oracle_findings"] = len(res.Findings) - before
		res.Counts["max.honest_validation_drops_in_a_row_without_liar_removal(limit 4)"] = mr
		res.Counts["max.deliveries_of_next_block_minus_3x_liar_removals(limit 3)"] = md
	}

	// O6 and O7 are argued from the v0 pool's code paths and hold below its 30 s request retry and 15 s peer timeout
	short := v0 && !sc.Timeouts && res.ElapsedMs < 25000
	if handed {
		H := handState.LastBlockHeight
		// O9: WAL catch-up is asked for exactly when the sync stored no block (the node was not state-synced)
		switch {
		case res.Synced == 0 && res.SkipWAL:
			add("v0-handover-skips-wal-with-no-block-synced", "hand-over at height %d with skipWAL=true although block sync stored no block (the node started at %d): consensus will not replay its WAL for the unfinished height", H, sc.NodeStart)
		case res.Synced > 0 && !res.SkipWAL:
			add("v0-handover-replays-wal-after-sync", "hand-over at height %d with skipWAL=false although block sync stored %d blocks", H, res.Synced)
		}
		// O5: the state handed to consensus is the canonical state after H
		if H != res.StoreHeight {
			add("v0-handover-state-height-differs-from-store", "state at height %d handed over, block store at %d", H, res.StoreHeight)
		}
		if rec := w.rec(H); rec != nil {
			ca := rec.StateAfter
			if !bytes.Equal(handState.AppHash, ca.AppHash) || !handState.LastBlockID.Equals(ca.LastBlockID) ||
				!bytes.Equal(handState.Validators.Hash(), ca.Validators.Hash()) || !bytes.Equal(handState.NextValidators.Hash(), ca.NextValidators.Hash()) ||
				!bytes.Equal(handState.LastResultsHash, ca.LastResultsHash) {
				add("v0-handover-state-diverged", "state handed to consensus at height %d differs from the canonical state (app hash %X vs %X, last block id %v vs %v)", H, handState.AppHash, ca.AppHash, handState.LastBlockID, ca.LastBlockID)
			}
		} else if H >= w.first {
			add("v0-handover-state-diverged", "state handed to consensus is at height %d, beyond the canonical chain (%d)", H, w.last)
		}
		// O4: consensus can start from what was stored
		ls := res.LastSeen
		switch {
		case ls != nil && H == res.StoreHeight && ls.TwoThirds && !ls.AllValid:
			add("v0-tip-seen-commit-not-fully-verified", "seen commit stored for the last synced height %d (taken from the LastCommit of the next block, which nothing verifies beyond the first +2/3) contains a non-absent slot whose signature is invalid; hand-over result: %q; %s", H, res.HandPanic, ls.Detail)
		case ls != nil && H == res.StoreHeight && ls.TwoThirds && !ls.AddrOK:
			add("v0-tip-seen-commit-slot-address-unchecked", "seen commit stored for the last synced height %d has a slot whose validator address is not the validator at that index (signatures are checked by index only); hand-over result: %q; %s", H, res.HandPanic, ls.Detail)
		case res.HandPanic != "":
			add("v0-handover-panic", "constructing the consensus state at the hand-over (height %d) panicked: %s", H, res.HandPanic)
		}
		// O6: no hand-over short of the tip while an honest peer that was never dropped offers more
		if short {
			for _, p := range res.Peers {
				spec := h.specOf(p.Name)
				if p.Honest && len(p.Removed) == 0 && p.ConnectedAtHand && p.Requests > 0 && H < spec.Height-2 {
					add("v0-handover-before-tip", "hand-over at height %d although honest peer %s (status height %d) had been serving requests and was never dropped", H, p.Name, spec.Height)
				}
			}
			// O7: a peer whose non-canonical answer occupied a height the node has since passed is gone
			for _, p := range res.Peers {
				if p.Honest || !p.ConnectedAtHand {
					continue
				}
				for _, bh := range p.AnsweredBadAsked {
					if bh <= H {
						add("v0-liar-still-connected", "peer %s answered the request for height %d with a non-canonical block, the node has passed that height (now %d), and the peer is still connected at the hand-over", p.Name, bh, H)
						break
					}
				}
			}
		}
		// v2 is built with a mock behaviour reporter: it never disconnects anybody.  The same oracle as
		// O7 says so (no timing argument is needed: nothing in v2 removes a peer from the switch).
		if sc.Version == "v2" && !sc.Timeouts {
			// ... and, as it removes BOTH senders of a failed pair from its scheduler for good while they
			// stay connected (so they never come back through a re-connect), one bad block from one peer
			// can end the sync far below the tip with an honest peer still connected and serving (O6).
			for _, p := range res.Peers {
				spec := h.specOf(p.Name)
				// (not on the simulated slow network: v2 prunes peers below its minimum receive rate by design)
				if sc.MaxPerWindow == 0 && p.Honest && len(p.Removed) == 0 && p.ConnectedAtHand && p.Requests > 0 && H < spec.Height-2 {
					add("v0-handover-before-tip", "hand-over at height %d although honest peer %s (status height %d) had been serving requests, was never disconnected and is still connected", H, p.Name, spec.Height)
					break
				}
			}
			for _, p := range res.Peers {
				if p.Honest || !p.ConnectedAtHand {
					continue
				}
				for _, bh := range p.AnsweredBadAsked {
					if bh <= H {
						add("v0-liar-still-connected", "peer %s answered the request for height %d with a non-canonical block, the node has passed that height (now %d), and the peer is still connected at the hand-over (nodes removed by this reactor during the whole sync: %d)", p.Name, bh, H, int(atomic.LoadInt32(&h.errDrops)))
						break
					}
				}
			}
		}
		switch {
		case H >= honestTip-1:
			res.Counts["handover_at_or_above_honest_tip_minus_1"]++
		case H == honestTip-2:
			res.Counts["handover_at_honest_tip_minus_2"]++
		default:
			res.Counts["handover_below_honest_tip_minus_2"]++
		}
	} else {
		if sc.Class == "leftover" && (sc.Version == "v0" || sc.Version == "v1") {
			all, any := true, false
			for _, p := range res.Peers {
				if !p.Honest {
					continue
				}
				any = true
				if p.ValidationDrops == 0 {
					all = false
				}
			}
			if any && all && res.StoreHeight < honestTip-2 {
				add("v0-tip-not-reached-honest-peers-dropped-after-liar-gone", "every honest peer — they connected only after the lying peer had been removed and delivered canonical blocks only — was dropped by the node for a failed verification; the node is left without peers at height %d of %d", res.StoreHeight, honestTip)
				res.Decided = true
			}
		}
		res.Inconclusive = "no hand-over before the wall-clock watchdog"
		if res.Aborted != "" {
			res.Inconclusive = "no hand-over: " + res.Aborted
		}
		if res.Stalled || res.Decided {
			res.Inconclusive = "" // decided by an oracle on the events, not by a wall clock
		}
		if res.LastSeen != nil && (!res.LastSeen.AllValid || !res.LastSeen.AddrOK) {
			res.Counts["last_seen_invalid_without_handover"]++
		}
	}
	for _, e := range evs {
		if strings.HasPrefix(e.Kind, "gap_") {
			res.Counts["gap."+strings.TrimPrefix(e.Kind, "gap_")]++
		}
	}
	// keep the witness readable
	if len(evs) > 400 {
		evs = append(evs[:200], evs[len(evs)-200:]...)
	}
	res.Events = evs
}

// isValidationDrop: the reason the node gave for removing a peer is "the pair of blocks did not verify".
func isValidationDrop(version, reason string) bool {
	switch version {
	case "v0":
		return strings.Contains(reason, "blockchainReactor validation error")
	case "v1":
		return strings.Contains(reason, "fast sync block verification failure")
	}
	return false
}

// pairOracles walks the event log in order and judges how the node treated the peers of a pair that
// failed verification (v0 and v1, which both promise to drop the senders of both blocks of the pair).
// s = height of the last block saved; the pair under verification is always (s+1, s+2).
//
//	(a) sender kept: an honest peer is dropped for a failed pair a second time at the same s while a
//	    lying peer whose non-canonical answer sits at s+1 or s+2 since before the first of those drops
//	    has still not been removed (correct code removes both senders in the same step);
//	(b) honest peers dropped in its place: five validation drops of honest peers in a row at the same
//	    s without any lying peer being removed in between (a failed pair removes its liar; one stale
//	    re-evaluation can cost two more honest peers, never four);
//	(c) stuck: honest peers delivered the canonical block s+1 more than 3*r+3 times while the store
//	    stayed at s and only r lying peers were removed meanwhile.
func (h *harness) pairOracles(evs []Event, handSeq int, add func(key, format string, a ...interface{})) (maxRun, maxDeliveries, staleUsed int) {
	sc, w := h.sc, h.w
	s := w.first - 1
	if sc.NodeStart > 0 {
		s = sc.NodeStart
	}
	asked := map[string]map[int64]bool{}
	holding := map[string]map[int64]int{} // liar -> height -> seq of its non-canonical answer, since it connected
	firstHonestDrop, run, liarRemovals, deliveries := -1, 0, 0, 0
	fired, gone := map[string]bool{}, map[string]bool{}
	type deliv struct {
		who  string
		bad  bool
		liar bool
	}
	lastDeliv := map[int64]deliv{} // height -> the most recent block delivered for it
	removedAt := map[string]int{}  // liar -> seq of its removal
	lastSave := -1
	once := func(key, format string, a ...interface{}) {
		if !fired[key] {
			fired[key] = true
			add(key, format, a...)
		}
	}
	for _, e := range evs {
		if e.Seq >= handSeq {
			break
		}
		spec := h.specOf(e.Who)
		switch e.Kind {
		case "save":
			lastSave = e.Seq
			if e.H > s {
				s = e.H
				firstHonestDrop, run, liarRemovals, deliveries = -1, 0, 0, 0
			}
		case "req_received":
			if asked[e.Who] == nil {
				asked[e.Who] = map[int64]bool{}
			}
			asked[e.Who][e.H] = true
		case "block_delivered":
			if spec.Name != "" && e.Info != "undecodable" {
				lastDeliv[e.H] = deliv{who: e.Who, bad: e.Info != "canonical", liar: !spec.Honest}
			}
			switch {
			case spec.Name == "":
			case !spec.Honest && e.Info == "noncanonical" && asked[e.Who][e.H] && !gone[e.Who]:
				// (a block that fails ValidateBasic never enters the pool; liars do not come back)
				if holding[e.Who] == nil {
					holding[e.Who] = map[int64]int{}
				}
				holding[e.Who][e.H] = e.Seq
			case spec.Honest && e.Info == "canonical" && e.H == s+1:
				deliveries++
				if deliveries-3*liarRemovals > maxDeliveries {
					maxDeliveries = deliveries - 3*liarRemovals
				}
				if deliveries > 3*liarRemovals+3 {
					once("v0-sync-stuck-with-honest-peer-available", "honest peers delivered the canonical block %d to the node %d times while its store stayed at height %d and only %d lying peers were removed meanwhile: the sync does not advance although an honest peer serves the next block", s+1, deliveries, s, liarRemovals)
				}
			}
		case "node_remove_peer":
			switch {
			case spec.Name == "":
			case !spec.Honest:
				delete(holding, e.Who)
				gone[e.Who] = true
				removedAt[e.Who] = e.Seq
				if e.Info != "<nil>" {
					liarRemovals++
					run = 0
				}
			case isValidationDrop(sc.Version, e.Info):
				// (d) the failed pair contains a non-canonical block whose sender had been removed earlier
				// (and the node has saved blocks since, so this is not the evaluation that was in flight
				// when that peer went): whatever a removed peer delivered must be fetched again
				for _, bh := range []int64{s + 1, s + 2} {
					d := lastDeliv[bh]
					if rm, ok := removedAt[d.who]; ok && d.liar && d.bad && rm < lastSave && lastSave < e.Seq {
						// Outside class "leftover" an honest peer may be connected while the liar is removed,
						// and the pool can evaluate one more pair with the removed peer's block before the
						// requester has dropped it (pre-existing race, the wrong peer is blamed): counted only.
						staleUsed++
						if sc.Class != "leftover" {
							continue
						}
						once("v0-honest-peer-dropped-for-removed-peers-leftover-block", "honest peer %s was dropped for a failed verification of the pair (%d,%d): the block at %d is the non-canonical one that %s delivered before the node removed it (the node has saved blocks since that removal), nobody has delivered that height since", e.Who, s+1, s+2, bh, d.who)
					}
				}
				run++
				if run > maxRun {
					maxRun = run
				}
				if run >= 5 {
					once("v0-honest-peer-dropped-for-others-bad-block", "%d validation drops of honest peers in a row at store height %d (the last one: %s) without a lying peer being removed in between", run, s, e.Who)
				}
				if firstHonestDrop >= 0 {
					for liar, hs := range holding {
						for _, bh := range []int64{s + 2, s + 1} {
							if seq, ok := hs[bh]; ok && seq < firstHonestDrop {
								which := "second"
								if bh == s+1 {
									which = "first"
								}
								once("v0-hostile-"+which+"-block-sender-kept", "honest peer %s was dropped for a failed verification of the pair (%d,%d) for the second time, while %s, whose non-canonical answer for height %d has been sitting in that pair since before the first of those drops, has still not been removed", e.Who, s+1, s+2, liar, bh)
							}
						}
					}
				} else {
					firstHonestDrop = e.Seq
				}
			}
		}
	}
	return
}

func (h *harness) specOf(name string) *PeerSpec {
	for i := range h.sc.Peers {
		if h.sc.Peers[i].Name == name {
			return &h.sc.Peers[i]
		}
	}
	return &PeerSpec{}
}
