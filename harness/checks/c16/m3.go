package c16

// M3: edits of the sealed A->B stream at frame granularity.
//
// Oracle (from the statement): let pos be the position of the first unit of
// the delivered stream that differs from the genuine one.  B's successful reads
// up to its first error are exactly the plaintext of frames < pos; an error
// follows; and everything B is ever handed -- also if it keeps reading after
// the error -- is a prefix of what A wrote (never altered, never out of order).

import (
	"bytes"
	"fmt"
	"io"
	"math/rand"
	"sync"

	"verif/verdict"
)

type m3Plan struct {
	Kind    string `json:"edit"`
	Writes  []int  `json:"a_write_sizes"`
	Reads   []int  `json:"b_read_buffer_sizes"`
	BWrites []int  `json:"b_write_sizes_before"`
	F       int    `json:"data_frames_a_to_b"`
	K       int    `json:"frame_k"`
	J       int    `json:"frame_j,omitempty"`
	Off     int    `json:"byte_offset,omitempty"`
	Class   string `json:"byte_class,omitempty"`
	Bit     int    `json:"bit,omitempty"`
	Trunc   int    `json:"truncate_after_bytes,omitempty"`
	Pos     int    `json:"first_differing_position"`
}

var m3Kinds = []string{
	"flip-first4", "flip-middle", "flip-padding", "flip-tag",
	"swap", "replay-later", "replay-immediately", "replace-with-earlier",
	"cross-replace", "cross-insert", "cross-auth-frame", "own-auth-frame",
	"drop", "truncate-mid-frame", "cut-at-boundary",
	"insert-random", "replace-random", "replace-zero", "none",
}

func genM3(r *rand.Rand, idx int) (m3Plan, []byte) {
	p := m3Plan{Kind: m3Kinds[idx%len(m3Kinds)]}
	// A's writes
	nw := 1 + r.Intn(5)
	for i := 0; i < nw; i++ {
		var w int
		switch r.Intn(6) {
		case 0:
			w = specialSizes[1+r.Intn(len(specialSizes)-1)]
		case 1:
			w = 1 + r.Intn(3000)
		default:
			w = 1 + r.Intn(200)
		}
		p.Writes = append(p.Writes, w)
	}
	if p.Kind == "swap" || p.Kind == "replace-with-earlier" {
		p.Writes = append(p.Writes, 1+r.Intn(50), 1+r.Intn(50))
	}
	starts, total := frameStarts(p.Writes)
	p.F = len(starts)
	nr := 1 + r.Intn(5)
	for i := 0; i < nr; i++ {
		if r.Intn(3) == 0 {
			p.Reads = append(p.Reads, 1+r.Intn(30))
		} else {
			p.Reads = append(p.Reads, 1+r.Intn(3000))
		}
	}
	for i, n := 0, 1+r.Intn(2); i < n; i++ {
		p.BWrites = append(p.BWrites, 1+r.Intn(1500))
	}
	data := make([]byte, total)
	r.Read(data)

	p.K = r.Intn(p.F)
	p.Pos = p.K
	frameLen := func(k int) int {
		if k+1 < len(starts) {
			return starts[k+1] - starts[k]
		}
		return total - starts[k]
	}
	p.Bit = r.Intn(8)
	switch p.Kind {
	case "flip-first4":
		p.Off, p.Class = r.Intn(4), "sealed length field"
	case "flip-middle":
		p.Off, p.Class = 4+r.Intn(frameLen(p.K)), "sealed payload"
	case "flip-padding":
		fl := frameLen(p.K)
		if fl == frameDataMax {
			p.Off, p.Class = 4+r.Intn(frameDataMax), "sealed payload"
		} else {
			p.Off, p.Class = 4+fl+r.Intn(frameDataMax-fl), "sealed padding"
		}
	case "flip-tag":
		p.Off, p.Class = framePlain+r.Intn(16), "tag"
	case "swap":
		p.K = r.Intn(p.F - 1)
		p.Pos = p.K
	case "replay-later":
		p.J = p.K + r.Intn(p.F-p.K)
		p.Pos = p.J + 1
	case "replay-immediately":
		p.J = p.K
		p.Pos = p.K + 1
	case "replace-with-earlier":
		p.K = 1 + r.Intn(p.F-1)
		p.J = r.Intn(p.K)
		p.Pos = p.K
	case "cross-replace", "cross-insert":
		bf, _ := frameStarts(p.BWrites)
		p.J = r.Intn(len(bf))
	case "truncate-mid-frame":
		p.Trunc = 1 + r.Intn(frameSealed-1)
	case "none":
		p.Pos = p.F
	}
	return p, data
}

func runM3(c *verdict.Ctx, s sink) {
	_, _, _, n, _, _ := sizes(c)
	parallel(n, workers(), func(i int) { m3Case(c, s, i) })
}

func m3Case(c *verdict.Ctx, s sink, idx int) {
	r := c.Rand("m3", idx)
	kA, kB := keyFrom(r), keyFrom(r)
	plan, data := genM3(r, idx)
	randFrame := make([]byte, frameSealed)
	r.Read(randFrame)
	bdata := make([]byte, 0)
	for _, w := range plan.BWrites {
		x := make([]byte, w)
		r.Read(x)
		bdata = append(bdata, x...)
	}
	starts, total := frameStarts(plan.Writes)
	expect := total
	if plan.Pos < len(starts) {
		expect = starts[plan.Pos]
	}

	a, b := NewPipe()
	wd := newWatchdog(a, b)
	defer func() { a.Close(); b.Close() }()
	s.Eval()

	var mu sync.Mutex
	var recBA [][]byte // data frames B->A
	var authBA, authAB []byte
	var recAB [][]byte // genuine data frames A->B
	var held []byte
	applied := false
	b.Interpose(func(u int, f []byte) Action {
		mu.Lock()
		defer mu.Unlock()
		if u == 1 {
			authBA = f
		} else if u >= 2 {
			recBA = append(recBA, f)
		}
		return Pass(f)
	})
	a.Interpose(func(u int, f []byte) Action {
		mu.Lock()
		defer mu.Unlock()
		if u == 0 {
			return Pass(f)
		}
		if u == 1 {
			authAB = f
			return Pass(f)
		}
		d := u - 2
		recAB = append(recAB, f)
		cp := func(x []byte) []byte { return append([]byte{}, x...) }
		switch plan.Kind {
		case "flip-first4", "flip-middle", "flip-padding", "flip-tag":
			if d == plan.K {
				g := cp(f)
				g[plan.Off] ^= 1 << uint(plan.Bit)
				applied = true
				return Action{Out: [][]byte{g}}
			}
		case "swap":
			if d == plan.K {
				held = f
				return Action{}
			}
			if d == plan.K+1 {
				applied = true
				return Action{Out: [][]byte{f, held}}
			}
		case "replay-later", "replay-immediately":
			if d == plan.J {
				applied = true
				return Action{Out: [][]byte{f, cp(recAB[plan.K])}}
			}
		case "replace-with-earlier":
			if d == plan.K {
				applied = true
				return Action{Out: [][]byte{cp(recAB[plan.J])}}
			}
		case "cross-replace":
			if d == plan.K && plan.J < len(recBA) {
				applied = true
				return Action{Out: [][]byte{cp(recBA[plan.J])}}
			}
		case "cross-insert":
			if d == plan.K && plan.J < len(recBA) {
				applied = true
				return Action{Out: [][]byte{cp(recBA[plan.J]), f}}
			}
		case "cross-auth-frame":
			if d == plan.K && authBA != nil {
				applied = true
				return Action{Out: [][]byte{cp(authBA)}}
			}
		case "own-auth-frame":
			if d == plan.K && authAB != nil {
				applied = true
				return Action{Out: [][]byte{cp(authAB), f}}
			}
		case "drop":
			if d == plan.K {
				applied = true
				return Action{}
			}
		case "truncate-mid-frame":
			if d == plan.K {
				applied = true
				return Action{Out: [][]byte{f[:plan.Trunc]}, CloseAfter: true}
			}
		case "cut-at-boundary":
			if d == plan.K {
				applied = true
				return Action{CloseAfter: true}
			}
		case "insert-random":
			if d == plan.K {
				applied = true
				return Action{Out: [][]byte{randFrame, f}}
			}
		case "replace-random":
			if d == plan.K {
				applied = true
				return Action{Out: [][]byte{randFrame}}
			}
		case "replace-zero":
			if d == plan.K {
				applied = true
				return Action{Out: [][]byte{make([]byte, frameSealed)}}
			}
		case "none":
			applied = true
		}
		return Pass(f)
	})

	ha, hb := realHandshake(a, kA), realHandshake(b, kB)
	ra, rb := <-ha, <-hb
	if ra.err != nil || rb.err != nil {
		if wd.stop() {
			s.Inconclusive("m3: watchdog during handshake")
			return
		}
		s.HarnessError("m3 case %d: honest handshake failed: a=%v b=%v", idx, ra.err, rb.err)
		return
	}
	viol := func(key, what string, det map[string]interface{}) {
		if det == nil {
			det = map[string]interface{}{}
		}
		det["plan"] = plan
		det["note"] = what
		s.Violation(key, what, witness{"m3", "m3", idx, det})
	}

	// B -> A traffic first (gives the interposer frames of the other direction)
	off := 0
	for _, w := range plan.BWrites {
		if n, err := rb.sc.Write(bdata[off : off+w]); err != nil || n != w {
			viol("m1/write-result", fmt.Sprintf("Write of %d bytes returned n=%d err=%v", w, n, err), nil)
			return
		}
		off += w
	}
	gotB := make([]byte, len(bdata))
	if _, err := io.ReadFull(ra.sc, gotB); err != nil || !bytes.Equal(gotB, bdata) {
		if wd.stop() {
			s.Inconclusive("m3: watchdog")
			return
		}
		viol("m1/stream-mismatch", fmt.Sprintf("untouched b->a direction: ReadFull err=%v, equal=%v", err, bytes.Equal(gotB, bdata)), nil)
		return
	}
	// A writes everything, then half-closes
	off = 0
	for _, w := range plan.Writes {
		if n, err := ra.sc.Write(data[off : off+w]); err != nil || n != w {
			viol("m1/write-result", fmt.Sprintf("Write of %d bytes returned n=%d err=%v", w, n, err), nil)
			return
		}
		off += w
	}
	a.CloseWrite()
	mu.Lock()
	wasApplied := applied
	mu.Unlock()
	if !wasApplied {
		s.HarnessError("m3 case %d: edit %s was not applied (plan %+v)", idx, plan.Kind, plan)
		return
	}

	// B reads to its first error
	R := 0
	buf := make([]byte, 3001)
	var firstErr error
	zeroReads := 0
	i := 0
	for ; ; i++ {
		bl := plan.Reads[i%len(plan.Reads)]
		n, err := rb.sc.Read(buf[:bl])
		if n > 0 {
			if R+n > len(data) || !bytes.Equal(buf[:n], data[R:R+n]) {
				viol("m3/altered-or-reordered-plaintext", fmt.Sprintf("%s: B was handed %d bytes at stream offset %d that are not what A wrote there", plan.Kind, n, R),
					map[string]interface{}{"offset": R, "got": verdict.Hex(buf[:n]), "expected_prefix_len": expect})
				return
			}
			R += n
		} else if err == nil {
			zeroReads++
		}
		if err != nil {
			firstErr = err
			break
		}
		if i > 100000 {
			s.Inconclusive("m3: reader made 100000 reads without reaching an error")
			return
		}
	}
	if wd.stop() {
		s.Inconclusive("m3: watchdog")
		return
	}
	s.Count("m3_edit_"+plan.Kind, 1)
	if zeroReads > 0 {
		s.Count("m3_zero_byte_successful_reads", int64(zeroReads))
	}
	switch {
	case R > expect:
		viol("m3/edit-not-detected", fmt.Sprintf("%s at position %d: B read %d bytes without error, but only the %d bytes of frames before the edit are authentic in order", plan.Kind, plan.Pos, R, expect),
			map[string]interface{}{"read": R, "expected_prefix_len": expect, "first_error": firstErr.Error()})
		return
	case R < expect:
		viol("m3/untouched-prefix-lost", fmt.Sprintf("%s at position %d: B failed (%v) after %d bytes although %d bytes of untouched frames precede the edit", plan.Kind, plan.Pos, firstErr, R, expect),
			map[string]interface{}{"read": R, "expected_prefix_len": expect, "first_error": firstErr.Error()})
		return
	}
	if firstErr == io.EOF {
		s.Count("m3_first_error_eof", 1)
	} else if firstErr == io.ErrUnexpectedEOF {
		s.Count("m3_first_error_unexpected_eof", 1)
	} else {
		s.Count("m3_first_error_decrypt", 1)
	}
	// keep reading after the error: whatever comes must still be the genuine
	// stream in order
	post := 0
	for j := 0; j < plan.F+6; j++ {
		n, err := rb.sc.Read(buf[:3000])
		if n > 0 {
			if R+n > len(data) || !bytes.Equal(buf[:n], data[R:R+n]) {
				viol("m3/altered-or-reordered-plaintext-after-error", fmt.Sprintf("%s: after its first error B was handed %d bytes at offset %d that are not what A wrote there", plan.Kind, n, R),
					map[string]interface{}{"offset": R, "got": verdict.Hex(buf[:n])})
				return
			}
			R += n
			post += n
		}
		if err == io.EOF || err == io.ErrUnexpectedEOF || err == io.ErrClosedPipe {
			break
		}
	}
	if post > 0 {
		s.Count("m3_cases_resynchronised_after_error", 1)
		s.Count("m3_resync_"+plan.Kind, 1)
	}
	s.Count("m3_prefix_then_error", 1)
	s.Distinct("m3", plan.Kind, plan.F, plan.K, plan.J, plan.Off, plan.Bit, plan.Trunc, fmt.Sprint(plan.Writes), fmt.Sprint(plan.Reads))
	if idx < len(m3Kinds) && idx%7 == 3 && s.WantSample() {
		s.Sample(map[string]interface{}{"monitor": "m3", "case": idx, "plan": plan, "bytes_read_before_error": expect, "first_error": firstErr.Error(), "bytes_after_error": post})
	}
}
