package c16

// In-memory full-duplex pipe with an interposer working at the granularity
// of secret-connection wire units.
//
// Each direction is an unbounded byte queue, so Write never blocks.  A
// direction may carry an interposer that re-frames everything written on it
// into units -- unit 0 is the length-delimited ephemeral-key message, units
// 1.. are sealed frames of exactly 1044 bytes -- and lets a hook decide, per
// unit, what reaches the reader (edit / drop / duplicate / hold back and
// release later / cut the direction).

import (
	"encoding/binary"
	"io"
	"net"
	"runtime"
	"sync"
	"time"
)

const (
	frameDataMax = 1024
	framePlain   = 4 + frameDataMax // length prefix + data
	frameSealed  = framePlain + 16  // + poly1305 tag
)

// half is one direction of the pipe.
type half struct {
	mu      sync.Mutex
	cond    *sync.Cond
	buf     []byte
	wclosed bool // writer closed: reader sees EOF after draining
	rclosed bool // reader closed: writes fail, blocked reads fail
	cut     bool // interposer cut the direction: later writes are swallowed
	ip      *interposer
	total   int64 // bytes ever delivered to the queue
	limit   int   // >0: Write blocks while this many bytes are queued
}

func newHalf() *half {
	h := &half{}
	h.cond = sync.NewCond(&h.mu)
	return h
}

// Action is what the hook wants delivered instead of the unit it was shown.
type Action struct {
	Out        [][]byte // delivered in order; nil/empty = drop
	CloseAfter bool     // after delivering Out: EOF for the reader, later writes swallowed
}

// Pass delivers the unit unchanged.
func Pass(u []byte) Action { return Action{Out: [][]byte{u}} }

// Hook sees unit idx of one direction.  unit is a private copy.
type Hook func(idx int, unit []byte) Action

type interposer struct {
	hook    Hook
	pending []byte
	idx     int
	raw     bool // unit 0 was not parseable: pass everything through
}

// feed cuts written bytes into units and returns what must be delivered.
func (ip *interposer) feed(p []byte) (out [][]byte, closeAfter bool) {
	if ip.raw {
		return [][]byte{append([]byte{}, p...)}, false
	}
	ip.pending = append(ip.pending, p...)
	for {
		var n int
		if ip.idx == 0 {
			l, w := binary.Uvarint(ip.pending)
			if w == 0 {
				return // need more bytes
			}
			if w < 0 || l > 1<<20 {
				ip.raw = true
				out = append(out, ip.pending)
				ip.pending = nil
				return
			}
			n = w + int(l)
		} else {
			n = frameSealed
		}
		if len(ip.pending) < n {
			return
		}
		unit := append([]byte{}, ip.pending[:n]...)
		ip.pending = ip.pending[n:]
		a := ip.hook(ip.idx, unit)
		ip.idx++
		out = append(out, a.Out...)
		if a.CloseAfter {
			return out, true
		}
	}
}

// End is one endpoint; it implements net.Conn (deadlines are no-ops).
type End struct {
	name string
	rd   *half
	wr   *half
}

// NewPipe returns the two endpoints of a fresh pipe.
func NewPipe() (a, b *End) {
	ab, ba := newHalf(), newHalf()
	return &End{"a", ba, ab}, &End{"b", ab, ba}
}

// Interpose installs hook on the direction this end writes to.  Must be
// called before the first Write.
func (e *End) Interpose(h Hook) { e.wr.ip = &interposer{hook: h} }

// SetWriteLimit bounds the queue of the direction this end writes to: Write
// then blocks while limit bytes are waiting to be read.  Call before use.
func (e *End) SetWriteLimit(limit int) { e.wr.limit = limit }

func (e *End) Write(p []byte) (int, error) {
	h := e.wr
	h.mu.Lock()
	defer h.mu.Unlock()
	if h.wclosed && !h.cut {
		return 0, io.ErrClosedPipe
	}
	if h.rclosed {
		return 0, io.ErrClosedPipe
	}
	if h.cut {
		return len(p), nil
	}
	for h.limit > 0 && len(h.buf) >= h.limit && !h.rclosed && !h.wclosed {
		h.cond.Wait() // bounded transport: block until the reader drains
	}
	if h.rclosed || h.wclosed {
		return 0, io.ErrClosedPipe
	}
	if h.ip == nil {
		h.buf = append(h.buf, p...)
		h.total += int64(len(p))
	} else {
		out, closeAfter := h.ip.feed(p)
		for _, o := range out {
			h.buf = append(h.buf, o...)
			h.total += int64(len(o))
		}
		if closeAfter {
			h.cut = true
			h.wclosed = true
		}
	}
	h.cond.Broadcast()
	return len(p), nil
}

// Inject puts bytes directly into the queue of the direction this end writes
// to, bypassing the interposer (used by hooks' owners to release held units).
func (e *End) Inject(p []byte) {
	h := e.wr
	h.mu.Lock()
	if !h.wclosed && !h.rclosed {
		h.buf = append(h.buf, p...)
		h.total += int64(len(p))
	}
	h.cond.Broadcast()
	h.mu.Unlock()
}

func (e *End) Read(p []byte) (int, error) {
	h := e.rd
	h.mu.Lock()
	defer h.mu.Unlock()
	for len(h.buf) == 0 && !h.wclosed && !h.rclosed {
		h.cond.Wait()
	}
	if h.rclosed {
		return 0, io.ErrClosedPipe
	}
	if len(h.buf) == 0 {
		return 0, io.EOF
	}
	n := copy(p, h.buf)
	h.buf = h.buf[n:]
	if len(h.buf) == 0 {
		h.buf = nil
	}
	if h.limit > 0 {
		h.cond.Broadcast()
	}
	return n, nil
}

// CloseWrite half-closes: the peer reads what is queued (an incomplete unit
// still held by the interposer is flushed as it is), then EOF.
func (e *End) CloseWrite() error {
	h := e.wr
	h.mu.Lock()
	if !h.wclosed {
		if h.ip != nil && len(h.ip.pending) > 0 {
			h.buf = append(h.buf, h.ip.pending...)
			h.ip.pending = nil
		}
		h.wclosed = true
	}
	h.cond.Broadcast()
	h.mu.Unlock()
	return nil
}

// Close closes both directions of this end.
func (e *End) Close() error {
	e.CloseWrite()
	h := e.rd
	h.mu.Lock()
	h.rclosed = true
	h.buf = nil
	h.cond.Broadcast()
	h.mu.Unlock()
	return nil
}

type pipeAddr string

func (a pipeAddr) Network() string { return "pipe" }
func (a pipeAddr) String() string  { return string(a) }

func (e *End) LocalAddr() net.Addr                { return pipeAddr(e.name) }
func (e *End) RemoteAddr() net.Addr               { return pipeAddr(e.name + "-peer") }
func (e *End) SetDeadline(t time.Time) error      { return nil }
func (e *End) SetReadDeadline(t time.Time) error  { return nil }
func (e *End) SetWriteDeadline(t time.Time) error { return nil }

var _ net.Conn = (*End)(nil)

// ---------------------------------------------------------------- faults

// FaultMode says what a failing underlying Write did before it failed.
type FaultMode int

const (
	FaultNone    FaultMode = iota // error, nothing forwarded
	FaultWhole                    // the whole buffer was forwarded, then error
	FaultPartial                  // a prefix was forwarded, then error
)

func (m FaultMode) String() string {
	return [...]string{"error-nothing-forwarded", "error-after-whole-frame-forwarded", "error-after-prefix-forwarded"}[m]
}

// Fault is one planned failure of the call-th Write (0-based) on a FaultConn.
type Fault struct {
	Call   int       `json:"underlying_write_call"`
	Mode   FaultMode `json:"mode"`
	Prefix int       `json:"prefix_bytes_forwarded,omitempty"`
}

// HandedWrite is one buffer the code under test handed to the transport.
type HandedWrite struct {
	Buf       []byte
	Forwarded int // bytes that reached the wire
	Failed    bool
}

type errInjected struct{}

func (errInjected) Error() string   { return "injected transport write error" }
func (errInjected) Timeout() bool   { return true }
func (errInjected) Temporary() bool { return true }

// FaultConn wraps an End: selected Write calls fail (transiently) after
// forwarding nothing, everything or a prefix.  It records every buffer handed
// to it.
type FaultConn struct {
	*End
	mu     sync.Mutex
	faults map[int]Fault
	handed []HandedWrite
}

func NewFaultConn(e *End, faults []Fault) *FaultConn {
	f := &FaultConn{End: e, faults: map[int]Fault{}}
	for _, x := range faults {
		f.faults[x.Call] = x
	}
	return f
}

func (f *FaultConn) Write(p []byte) (int, error) {
	f.mu.Lock()
	call := len(f.handed)
	ft, bad := f.faults[call]
	hw := HandedWrite{Buf: append([]byte{}, p...), Failed: bad}
	fwd := len(p)
	if bad {
		switch ft.Mode {
		case FaultNone:
			fwd = 0
		case FaultPartial:
			fwd = ft.Prefix
			if fwd > len(p) {
				fwd = len(p)
			}
		}
	}
	hw.Forwarded = fwd
	f.handed = append(f.handed, hw)
	f.mu.Unlock()
	if fwd > 0 {
		if _, err := f.End.Write(p[:fwd]); err != nil {
			return 0, err
		}
	}
	if bad {
		return fwd, errInjected{}
	}
	return len(p), nil
}

// Handed returns a snapshot of the buffers handed so far.
func (f *FaultConn) Handed() []HandedWrite {
	f.mu.Lock()
	defer f.mu.Unlock()
	return append([]HandedWrite{}, f.handed...)
}

func (f *FaultConn) HandedCount() int {
	f.mu.Lock()
	defer f.mu.Unlock()
	return len(f.handed)
}

// ---------------------------------------------------------------- slow transport

// SlowConn wraps an End whose Write dawdles: it yields the processor on every
// call and sleeps a little on some, so that a writer holding no lock between
// two underlying writes would certainly be overtaken.
type SlowConn struct {
	*End
	mu     sync.Mutex
	calls  int
	every  int           // sleep on every every-th call (0 = never)
	sleep  time.Duration // how long
	yields int           // Gosched calls per write
}

func NewSlowConn(e *End, every int, sleep time.Duration, yields int) *SlowConn {
	return &SlowConn{End: e, every: every, sleep: sleep, yields: yields}
}

func (s *SlowConn) Write(p []byte) (int, error) {
	s.mu.Lock()
	s.calls++
	nap := s.every > 0 && s.calls%s.every == 0
	s.mu.Unlock()
	for i := 0; i < s.yields; i++ {
		runtime.Gosched()
	}
	if nap {
		time.Sleep(s.sleep)
	}
	return s.End.Write(p)
}
