package c16

// In-memory full-duplex pipe with an interposer working at the granularity
// of secret-connection wire units.
//
// Each direction is an unbounded byte queue, so Write never blocks.  A
// direction may carry an interposer that re-frames everything written on it
// into units -- unit 0 is the length-delimited ephemeral-key message, units
// 1.. are sealed frames of exactly 1044 bytes -- and lets a hook decide, per
// unit, what reaches the reader (edit / drop / duplicate / hold back and
// release later / cut the direction).

import (
	"encoding/binary"
	"io"
	"net"
	"sync"
	"time"
)

const (
	frameDataMax = 1024
	framePlain   = 4 + frameDataMax  // length prefix + data
	frameSealed  = framePlain + 16   // + poly1305 tag
)

// half is one direction of the pipe.
type half struct {
	mu      sync.Mutex
	cond    *sync.Cond
	buf     []byte
	wclosed bool // writer closed: reader sees EOF after draining
	rclosed bool // reader closed: writes fail, blocked reads fail
	cut     bool // interposer cut the direction: later writes are swallowed
	ip      *interposer
	total   int64 // bytes ever delivered to the queue
}

func newHalf() *half {
	h := &half{}
	h.cond = sync.NewCond(&h.mu)
	return h
}

// Action is what the hook wants delivered instead of the unit it was shown.
type Action struct {
	Out        [][]byte // delivered in order; nil/empty = drop
	CloseAfter bool     // after delivering Out: EOF for the reader, later writes swallowed
}

// Pass delivers the unit unchanged.
func Pass(u []byte) Action { return Action{Out: [][]byte{u}} }

// Hook sees unit idx of one direction.  unit is a private copy.
type Hook func(idx int, unit []byte) Action

type interposer struct {
	hook    Hook
	pending []byte
	idx     int
	raw     bool // unit 0 was not parseable: pass everything through
}

// feed cuts written bytes into units and returns what must be delivered.
func (ip *interposer) feed(p []byte) (out [][]byte, closeAfter bool) {
	if ip.raw {
		return [][]byte{append([]byte{}, p...)}, false
	}
	ip.pending = append(ip.pending, p...)
	for {
		var n int
		if ip.idx == 0 {
			l, w := binary.Uvarint(ip.pending)
			if w == 0 {
				return // need more bytes
			}
			if w < 0 || l > 1<<20 {
				ip.raw = true
				out = append(out, ip.pending)
				ip.pending = nil
				return
			}
			n = w + int(l)
		} else {
			n = frameSealed
		}
		if len(ip.pending) < n {
			return
		}
		unit := append([]byte{}, ip.pending[:n]...)
		ip.pending = ip.pending[n:]
		a := ip.hook(ip.idx, unit)
		ip.idx++
		out = append(out, a.Out...)
		if a.CloseAfter {
			return out, true
		}
	}
}

// End is one endpoint; it implements net.Conn (deadlines are no-ops).
type End struct {
	name string
	rd   *half
	wr   *half
}

// NewPipe returns the two endpoints of a fresh pipe.
func NewPipe() (a, b *End) {
	ab, ba := newHalf(), newHalf()
	return &End{"a", ba, ab}, &End{"b", ab, ba}
}

// Interpose installs hook on the direction this end writes to.  Must be
// called before the first Write.
func (e *End) Interpose(h Hook) { e.wr.ip = &interposer{hook: h} }

func (e *End) Write(p []byte) (int, error) {
	h := e.wr
	h.mu.Lock()
	defer h.mu.Unlock()
	if h.wclosed && !h.cut {
		return 0, io.ErrClosedPipe
	}
	if h.rclosed {
		return 0, io.ErrClosedPipe
	}
	if h.cut {
		return len(p), nil
	}
	if h.ip == nil {
		h.buf = append(h.buf, p...)
		h.total += int64(len(p))
	} else {
		out, closeAfter := h.ip.feed(p)
		for _, o := range out {
			h.buf = append(h.buf, o...)
			h.total += int64(len(o))
		}
		if closeAfter {
			h.cut = true
			h.wclosed = true
		}
	}
	h.cond.Broadcast()
	return len(p), nil
}

// Inject puts bytes directly into the queue of the direction this end writes
// to, bypassing the interposer (used by hooks' owners to release held units).
func (e *End) Inject(p []byte) {
	h := e.wr
	h.mu.Lock()
	if !h.wclosed && !h.rclosed {
		h.buf = append(h.buf, p...)
		h.total += int64(len(p))
	}
	h.cond.Broadcast()
	h.mu.Unlock()
}

func (e *End) Read(p []byte) (int, error) {
	h := e.rd
	h.mu.Lock()
	defer h.mu.Unlock()
	for len(h.buf) == 0 && !h.wclosed && !h.rclosed {
		h.cond.Wait()
	}
	if h.rclosed {
		return 0, io.ErrClosedPipe
	}
	if len(h.buf) == 0 {
		return 0, io.EOF
	}
	n := copy(p, h.buf)
	h.buf = h.buf[n:]
	if len(h.buf) == 0 {
		h.buf = nil
	}
	return n, nil
}

// CloseWrite half-closes: the peer reads what is queued (an incomplete unit
// still held by the interposer is flushed as it is), then EOF.
func (e *End) CloseWrite() error {
	h := e.wr
	h.mu.Lock()
	if !h.wclosed {
		if h.ip != nil && len(h.ip.pending) > 0 {
			h.buf = append(h.buf, h.ip.pending...)
			h.ip.pending = nil
		}
		h.wclosed = true
	}
	h.cond.Broadcast()
	h.mu.Unlock()
	return nil
}

// Close closes both directions of this end.
func (e *End) Close() error {
	e.CloseWrite()
	h := e.rd
	h.mu.Lock()
	h.rclosed = true
	h.buf = nil
	h.cond.Broadcast()
	h.mu.Unlock()
	return nil
}

type pipeAddr string

func (a pipeAddr) Network() string { return "pipe" }
func (a pipeAddr) String() string  { return string(a) }

func (e *End) LocalAddr() net.Addr                { return pipeAddr(e.name) }
func (e *End) RemoteAddr() net.Addr               { return pipeAddr(e.name + "-peer") }
func (e *End) SetDeadline(t time.Time) error      { return nil }
func (e *End) SetReadDeadline(t time.Time) error  { return nil }
func (e *End) SetWriteDeadline(t time.Time) error { return nil }

var _ net.Conn = (*End)(nil)
