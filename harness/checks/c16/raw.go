package c16

// rawPeer is an independent implementation of the secret-connection protocol
// written from spec/p2p/peer.md (station-to-station: X25519 ephemeral exchange,
// Merlin transcript challenge, HKDF-SHA256 key split, ChaCha20-Poly1305 frames
// of 4+1024 bytes with a 96-bit counter nonce).  It shares only the crypto
// primitives and the protobuf message types with the code under test and is
// used as the hostile / observing party whose key material the harness knows.

import (
	"bytes"
	"crypto/cipher"
	"crypto/sha256"
	"encoding/binary"
	"errors"
	"fmt"
	"io"

	"github.com/gogo/protobuf/proto"
	gogotypes "github.com/gogo/protobuf/types"
	"github.com/gtank/merlin"
	"golang.org/x/crypto/chacha20poly1305"
	"golang.org/x/crypto/curve25519"
	"golang.org/x/crypto/hkdf"

	"github.com/tendermint/tendermint/crypto"
	cryptoenc "github.com/tendermint/tendermint/crypto/encoding"
	tmp2p "github.com/tendermint/tendermint/proto/tendermint/p2p"
)

type rawPeer struct {
	rw io.ReadWriter

	ephPriv [32]byte
	ephPub  [32]byte // what we announce (may be hostile, then ephPriv is meaningless)
	remEph  [32]byte

	challenge [32]byte
	send      cipher.AEAD
	recv      cipher.AEAD
	sendCtr   uint64
	recvCtr   uint64

	rbuf []byte // bytes read from rw, not yet consumed
	sbuf []byte // plaintext taken out of frames, not yet consumed
}

func newRawPeer(rw io.ReadWriter, ephSeed []byte) *rawPeer {
	p := &rawPeer{rw: rw}
	copy(p.ephPriv[:], ephSeed)
	pub, err := curve25519.X25519(p.ephPriv[:], curve25519.Basepoint)
	if err != nil {
		panic(err)
	}
	copy(p.ephPub[:], pub)
	return p
}

// delimited returns uvarint(len(m)) || m.
func delimited(m []byte) []byte {
	var l [binary.MaxVarintLen64]byte
	n := binary.PutUvarint(l[:], uint64(len(m)))
	return append(append([]byte{}, l[:n]...), m...)
}

func ephMessage(key []byte) []byte {
	b, err := proto.Marshal(&gogotypes.BytesValue{Value: key})
	if err != nil {
		panic(err)
	}
	return delimited(b)
}

// sendEph announces an ephemeral key (any byte string).
func (p *rawPeer) sendEph(key []byte) error {
	_, err := p.rw.Write(ephMessage(key))
	return err
}

func (p *rawPeer) fill(n int) error {
	for len(p.rbuf) < n {
		tmp := make([]byte, 2048)
		k, err := p.rw.Read(tmp)
		p.rbuf = append(p.rbuf, tmp[:k]...)
		if err != nil && len(p.rbuf) < n {
			return err
		}
	}
	return nil
}

// readDelimitedRaw reads uvarint-length-prefixed bytes from the clear channel.
func (p *rawPeer) readDelimitedRaw() ([]byte, error) {
	for {
		l, w := binary.Uvarint(p.rbuf)
		if w < 0 || (w > 0 && l > 1<<20) {
			return nil, errors.New("bad length prefix")
		}
		if w > 0 {
			if err := p.fill(w + int(l)); err != nil {
				return nil, err
			}
			m := append([]byte{}, p.rbuf[w:w+int(l)]...)
			p.rbuf = p.rbuf[w+int(l):]
			return m, nil
		}
		if err := p.fill(len(p.rbuf) + 1); err != nil {
			return nil, err
		}
	}
}

// recvEph reads the peer's ephemeral key message.
func (p *rawPeer) recvEph() error {
	m, err := p.readDelimitedRaw()
	if err != nil {
		return err
	}
	var bv gogotypes.BytesValue
	if err := proto.Unmarshal(m, &bv); err != nil {
		return err
	}
	if len(bv.Value) != 32 {
		return fmt.Errorf("peer ephemeral key of %d bytes", len(bv.Value))
	}
	copy(p.remEph[:], bv.Value)
	return nil
}

// derive computes the session from (our announced key as the peer understood
// it, the peer's key, the DH secret).  announced is the 32 bytes the peer
// takes as our ephemeral key.  If dhOverride is non-nil it is used as the DH
// secret (low-order attack: the secret is all zero whatever the scalars are).
func (p *rawPeer) derive(announced [32]byte, dhOverride []byte) error {
	var dh []byte
	if dhOverride != nil {
		dh = dhOverride
	} else {
		var err error
		dh, err = curve25519.X25519(p.ephPriv[:], p.remEph[:])
		if err != nil {
			return err
		}
	}
	lo, hi := announced, p.remEph
	weAreLow := true
	if bytes.Compare(lo[:], hi[:]) >= 0 {
		// the peer's rule: local key is "least" iff it equals the lower of the pair
		lo, hi = hi, lo
		weAreLow = bytes.Equal(announced[:], lo[:])
	}
	t := merlin.NewTranscript("TENDERMINT_SECRET_CONNECTION_TRANSCRIPT_HASH")
	t.AppendMessage([]byte("EPHEMERAL_LOWER_PUBLIC_KEY"), lo[:])
	t.AppendMessage([]byte("EPHEMERAL_UPPER_PUBLIC_KEY"), hi[:])
	t.AppendMessage([]byte("DH_SECRET"), dh)
	kdf := hkdf.New(sha256.New, dh, nil, []byte("TENDERMINT_SECRET_CONNECTION_KEY_AND_CHALLENGE_GEN"))
	var okm [64]byte
	if _, err := io.ReadFull(kdf, okm[:]); err != nil {
		return err
	}
	recvKey, sendKey := okm[:32], okm[32:]
	if !weAreLow {
		recvKey, sendKey = sendKey, recvKey
	}
	copy(p.challenge[:], t.ExtractBytes([]byte("SECRET_CONNECTION_MAC"), 32))
	var err error
	if p.send, err = chacha20poly1305.New(sendKey); err != nil {
		return err
	}
	if p.recv, err = chacha20poly1305.New(recvKey); err != nil {
		return err
	}
	return nil
}

func nonceOf(ctr uint64) []byte {
	var n [12]byte
	binary.LittleEndian.PutUint64(n[4:], ctr)
	return n[:]
}

// sealFrame seals one frame carrying data (0..1024 bytes) with counter ctr.
func sealFrameWith(a cipher.AEAD, ctr uint64, data []byte) []byte {
	if len(data) > frameDataMax {
		panic("frame too large")
	}
	var plain [framePlain]byte
	binary.LittleEndian.PutUint32(plain[:], uint32(len(data)))
	copy(plain[4:], data)
	return a.Seal(nil, nonceOf(ctr), plain[:], nil)
}

// writeFrame sends one frame and advances our counter.
func (p *rawPeer) writeFrame(data []byte) error {
	f := sealFrameWith(p.send, p.sendCtr, data)
	p.sendCtr++
	_, err := p.rw.Write(f)
	return err
}

// writeStream sends data split into full frames.
func (p *rawPeer) writeStream(data []byte) error {
	for len(data) > 0 {
		n := len(data)
		if n > frameDataMax {
			n = frameDataMax
		}
		if err := p.writeFrame(data[:n]); err != nil {
			return err
		}
		data = data[n:]
	}
	return nil
}

var errRawAuth = errors.New("raw peer: frame does not authenticate under the expected counter nonce")

// readFrame reads one sealed frame and opens it under exactly the next counter.
func (p *rawPeer) readFrame() ([]byte, error) {
	if err := p.fill(frameSealed); err != nil {
		return nil, err
	}
	sealed := p.rbuf[:frameSealed]
	plain, err := p.recv.Open(nil, nonceOf(p.recvCtr), sealed, nil)
	if err != nil {
		return nil, errRawAuth
	}
	p.rbuf = p.rbuf[frameSealed:]
	p.recvCtr++
	l := binary.LittleEndian.Uint32(plain)
	if l > frameDataMax {
		return nil, fmt.Errorf("raw peer: frame length field %d", l)
	}
	return plain[4 : 4+l], nil
}

func authMessage(pk crypto.PubKey, sig []byte) ([]byte, error) {
	pb, err := cryptoenc.PubKeyToProto(pk)
	if err != nil {
		return nil, err
	}
	b, err := proto.Marshal(&tmp2p.AuthSigMessage{PubKey: pb, Sig: sig})
	if err != nil {
		return nil, err
	}
	return delimited(b), nil
}

// sendAuthBytes sends an (already delimited) auth message inside frames.
func (p *rawPeer) sendAuthBytes(m []byte) error { return p.writeStream(m) }

// sendAuth signs our challenge with priv and presents pk.
func (p *rawPeer) sendAuth(pk crypto.PubKey, priv crypto.PrivKey) error {
	sig, err := priv.Sign(p.challenge[:])
	if err != nil {
		return err
	}
	m, err := authMessage(pk, sig)
	if err != nil {
		return err
	}
	return p.sendAuthBytes(m)
}

// recvSealedDelimited reads frames until one uvarint-delimited message is
// complete; returns the message and its delimited form.  Surplus bytes of the
// last frame are kept for the next call.
func (p *rawPeer) recvSealedDelimited() (msg, delimitedForm []byte, err error) {
	for {
		l, w := binary.Uvarint(p.sbuf)
		if w < 0 || (w > 0 && l > 1<<20) {
			return nil, nil, errors.New("bad length prefix inside the sealed stream")
		}
		if w > 0 && len(p.sbuf) >= w+int(l) {
			d := append([]byte{}, p.sbuf[:w+int(l)]...)
			p.sbuf = p.sbuf[w+int(l):]
			return d[w:], d, nil
		}
		d, err := p.readFrame()
		if err != nil {
			return nil, nil, err
		}
		p.sbuf = append(p.sbuf, d...)
	}
}

// recvAuth reads the peer's auth message; returns the delimited plaintext too.
func (p *rawPeer) recvAuth() (pk crypto.PubKey, sig []byte, plain []byte, err error) {
	msg, plain, err := p.recvSealedDelimited()
	if err != nil {
		return nil, nil, nil, err
	}
	var m tmp2p.AuthSigMessage
	if err := proto.Unmarshal(msg, &m); err != nil {
		return nil, nil, nil, err
	}
	pk, err = cryptoenc.PubKeyFromProto(m.PubKey)
	if err != nil {
		return nil, nil, nil, err
	}
	return pk, m.Sig, plain, nil
}

// handshake runs the honest protocol with key priv; returns the peer's key.
func (p *rawPeer) handshake(priv crypto.PrivKey) (crypto.PubKey, error) {
	if err := p.sendEph(p.ephPub[:]); err != nil {
		return nil, err
	}
	if err := p.recvEph(); err != nil {
		return nil, err
	}
	if err := p.derive(p.ephPub, nil); err != nil {
		return nil, err
	}
	if err := p.sendAuth(priv.PubKey(), priv); err != nil {
		return nil, err
	}
	pk, sig, _, err := p.recvAuth()
	if err != nil {
		return nil, err
	}
	if !pk.VerifySignature(p.challenge[:], sig) {
		return nil, errors.New("raw peer: challenge signature does not verify")
	}
	return pk, nil
}
