package c16

// M5: the real p2p.MultiplexTransport over loopback TCP.
//
// Oracle: Dial(addr) returns a Peer only if the TCP counterpart proved the key
// whose ID is addr.ID and announced exactly that ID in its NodeInfo; Accept
// returns a Peer with ID X only if the counterpart proved X's key.  The hostile
// counterpart is the independent raw peer, which holds key m only.

import (
	"fmt"
	"net"
	"reflect"
	"strings"
	"time"
	"unsafe"

	"github.com/gogo/protobuf/proto"

	"github.com/tendermint/tendermint/crypto"
	"github.com/tendermint/tendermint/p2p"
	"github.com/tendermint/tendermint/p2p/conn"
	tmp2p "github.com/tendermint/tendermint/proto/tendermint/p2p"
	"github.com/tendermint/tendermint/version"

	"verif/verdict"
)

func nodeInfoFor(id p2p.ID, name string) p2p.DefaultNodeInfo {
	return p2p.DefaultNodeInfo{
		ProtocolVersion: p2p.NewProtocolVersion(version.P2PProtocol, version.BlockProtocol, 0),
		DefaultNodeID:   id,
		ListenAddr:      "127.0.0.1:26656",
		Network:         "c16-net",
		Version:         "0.34.24",
		Channels:        []byte{0x01},
		Moniker:         name,
		Other:           p2p.DefaultNodeInfoOther{TxIndex: "on", RPCAddress: "127.0.0.1:26657"},
	}
}

type transportH struct {
	mt   *p2p.MultiplexTransport
	key  crypto.PrivKey
	id   p2p.ID
	addr *p2p.NetAddress // real listening address (with the right ID)
}

func listenerOf(mt *p2p.MultiplexTransport) (net.Listener, error) {
	f := reflect.ValueOf(mt).Elem().FieldByName("listener")
	if !f.IsValid() {
		return nil, fmt.Errorf("MultiplexTransport has no field listener")
	}
	l, ok := reflect.NewAt(f.Type(), unsafe.Pointer(f.UnsafeAddr())).Elem().Interface().(net.Listener)
	if !ok || l == nil {
		return nil, fmt.Errorf("MultiplexTransport.listener is not set")
	}
	return l, nil
}

// newTransport builds a transport for key k announcing NodeInfo ID niID.
func newTransport(k crypto.PrivKey, niID p2p.ID, name string, listen bool) (*transportH, error) {
	id := p2p.PubKeyToID(k.PubKey())
	mt := p2p.NewMultiplexTransport(nodeInfoFor(niID, name), p2p.NodeKey{PrivKey: k}, conn.DefaultMConnConfig())
	h := &transportH{mt: mt, key: k, id: id}
	if listen {
		la, err := p2p.NewNetAddressString(p2p.IDAddressString(id, "127.0.0.1:0"))
		if err != nil {
			return nil, err
		}
		if err := mt.Listen(*la); err != nil {
			return nil, err
		}
		l, err := listenerOf(mt)
		if err != nil {
			mt.Close()
			return nil, err
		}
		h.addr = p2p.NewNetAddress(id, l.Addr())
	}
	return h, nil
}

type peerOrErr struct {
	peer p2p.Peer
	err  error
}

// callPeerFn calls mt.Dial / mt.Accept with the zero peerConfig (the type is
// unexported; the repository's own transport tests pass peerConfig{} too).
func callPeerFn(mt *p2p.MultiplexTransport, method string, args ...interface{}) peerOrErr {
	m := reflect.ValueOf(mt).MethodByName(method)
	in := make([]reflect.Value, 0, 2)
	for _, a := range args {
		in = append(in, reflect.ValueOf(a))
	}
	in = append(in, reflect.Zero(m.Type().In(m.Type().NumIn()-1)))
	out := m.Call(in)
	var r peerOrErr
	if !out[0].IsNil() {
		r.peer = out[0].Interface().(p2p.Peer)
	}
	if !out[1].IsNil() {
		r.err = out[1].Interface().(error)
	}
	return r
}

func (h *transportH) dial(addr p2p.NetAddress) peerOrErr { return callPeerFn(h.mt, "Dial", addr) }
func (h *transportH) acceptAsync() <-chan peerOrErr {
	ch := make(chan peerOrErr, 1)
	go func() { ch <- callPeerFn(h.mt, "Accept") }()
	return ch
}

// rawNode plays a node over TCP with the raw peer: secret handshake as key k,
// then a NodeInfo announcing niID.  Returns the error of the first step that
// failed (the real side hanging up is an error here).
func rawNode(c net.Conn, k crypto.PrivKey, eph []byte, ni p2p.DefaultNodeInfo) (remote crypto.PubKey, theirs *tmp2p.DefaultNodeInfo, err error) {
	_ = c.SetDeadline(time.Now().Add(10 * time.Second))
	raw := newRawPeer(c, eph)
	remote, err = raw.handshake(k)
	if err != nil {
		return nil, nil, fmt.Errorf("secret handshake: %w", err)
	}
	b, err := proto.Marshal(ni.ToProto())
	if err != nil {
		return remote, nil, err
	}
	if err = raw.writeStream(delimited(b)); err != nil {
		return remote, nil, fmt.Errorf("send NodeInfo: %w", err)
	}
	msg, _, err := raw.recvSealedDelimited()
	if err != nil {
		return remote, nil, fmt.Errorf("read NodeInfo: %w", err)
	}
	var pb tmp2p.DefaultNodeInfo
	if err = proto.Unmarshal(msg, &pb); err != nil {
		return remote, nil, err
	}
	return remote, &pb, nil
}

var m5Scenarios = []string{
	"control-honest-dial",
	"dial-wrong-id",
	"hostile-listener-nodeinfo-id-mismatch",
	"hostile-dialer-nodeinfo-id-mismatch",
	"hostile-listener-claims-victim",
	"control-raw-listener",
	"control-raw-dialer",
	"transport-nodeinfo-id-mismatch",
}

type m5Result struct {
	Scenario   string `json:"scenario"`
	DialedID   string `json:"dialed_id,omitempty"`
	ProvedKey  string `json:"key_proved_by_counterpart"`
	Announced  string `json:"nodeinfo_id_announced_by_counterpart"`
	DialErr    string `json:"dial_error,omitempty"`
	DialPeer   string `json:"dial_peer_id,omitempty"`
	AcceptErr  string `json:"accept_error,omitempty"`
	AcceptPeer string `json:"accept_peer_id,omitempty"`
	RawErr     string `json:"raw_peer_error,omitempty"`
}

func runM5(c *verdict.Ctx, s sink) {
	_, _, _, _, _, n := sizes(c)
	w := workers() / 2
	parallel(n, w, func(i int) { m5Case(c, s, i) })
}

func isTimeout(s string) bool {
	return strings.Contains(s, "timeout") || strings.Contains(s, "deadline")
}

func m5Case(c *verdict.Ctx, s sink, idx int) {
	r := c.Rand("m5", idx)
	k1, k2, kM, kV := keyFrom(r), keyFrom(r), keyFrom(r), keyFrom(r)
	id2, idM, idV := p2p.PubKeyToID(k2.PubKey()), p2p.PubKeyToID(kM.PubKey()), p2p.PubKeyToID(kV.PubKey())
	id1 := p2p.PubKeyToID(k1.PubKey())
	eph := make([]byte, 32)
	r.Read(eph)
	sc := m5Scenarios[idx%len(m5Scenarios)]
	res := m5Result{Scenario: sc}
	s.Eval()
	wit := func() witness { return witness{"m5", "m5", idx, res} }
	harness := func(format string, a ...interface{}) {
		msg := fmt.Sprintf(format, a...)
		if isTimeout(msg) {
			s.Inconclusive("m5 " + sc + ": timeout in a control path")
		} else {
			s.HarnessError("m5 case %d %s: %s", idx, sc, msg)
		}
	}
	// judgeDial: a returned peer must be the proven + announced + dialed identity.
	judgeDial := func(d peerOrErr, dialed, proved, announced p2p.ID, t *transportH) {
		res.DialedID, res.ProvedKey, res.Announced = string(dialed), string(proved), string(announced)
		if d.err != nil {
			res.DialErr = d.err.Error()
			s.Count("m5_dial_rejected/"+sc, 1)
			return
		}
		res.DialPeer = string(d.peer.ID())
		s.Count("m5_dial_accepted/"+sc, 1)
		if dialed != proved {
			s.Violation("m5/dial-id-not-proved", fmt.Sprintf("%s: Dial to ID %s returned a peer although the counterpart proved the key of %s", sc, dialed, proved), wit())
		} else if announced != proved || d.peer.ID() != proved {
			s.Violation("m5/nodeinfo-id-not-bound-to-key", fmt.Sprintf("%s: Dial returned a peer with ID %s (NodeInfo announced %s) although the connection key is %s", sc, d.peer.ID(), announced, proved), wit())
		}
		t.mt.Cleanup(d.peer)
	}
	judgeAccept := func(a peerOrErr, proved, announced p2p.ID, t *transportH) {
		res.ProvedKey, res.Announced = string(proved), string(announced)
		if a.err != nil {
			res.AcceptErr = a.err.Error()
			s.Count("m5_accept_rejected/"+sc, 1)
			return
		}
		res.AcceptPeer = string(a.peer.ID())
		s.Count("m5_accept_accepted/"+sc, 1)
		if announced != proved || a.peer.ID() != proved {
			s.Violation("m5/nodeinfo-id-not-bound-to-key", fmt.Sprintf("%s: Accept returned a peer with ID %s (NodeInfo announced %s) although the connection key is %s", sc, a.peer.ID(), announced, proved), wit())
		}
		t.mt.Cleanup(a.peer)
	}

	switch sc {
	case "control-honest-dial", "dial-wrong-id", "transport-nodeinfo-id-mismatch":
		ni2 := id2
		if sc == "transport-nodeinfo-id-mismatch" {
			ni2 = idV // listener proves k2 but announces the victim's ID
		}
		t2, err := newTransport(k2, ni2, "listener", true)
		if err != nil {
			harness("listen: %v", err)
			return
		}
		defer t2.mt.Close()
		t1, err := newTransport(k1, id1, "dialer", false)
		if err != nil {
			harness("transport: %v", err)
			return
		}
		acc := t2.acceptAsync()
		addr := *t2.addr
		if sc == "dial-wrong-id" {
			addr.ID = idV
		}
		d := t1.dial(addr)
		judgeDial(d, addr.ID, id2, ni2, t1)
		if sc == "control-honest-dial" {
			if d.err != nil {
				harness("honest dial failed: %v", d.err)
				return
			}
			a := <-acc
			judgeAccept(a, id1, id1, t2)
			if a.err != nil {
				harness("honest accept failed: %v", a.err)
				return
			}
		}
	case "hostile-listener-nodeinfo-id-mismatch", "hostile-listener-claims-victim", "control-raw-listener":
		ln, err := net.Listen("tcp", "127.0.0.1:0")
		if err != nil {
			harness("listen: %v", err)
			return
		}
		defer ln.Close()
		announced, dialed := idM, idM
		switch sc {
		case "hostile-listener-nodeinfo-id-mismatch":
			announced = idV
		case "hostile-listener-claims-victim":
			announced, dialed = idV, idV
		}
		rawDone := make(chan error, 1)
		go func() {
			cn, err := ln.Accept()
			if err != nil {
				rawDone <- err
				return
			}
			defer cn.Close()
			_, _, err = rawNode(cn, kM, eph, nodeInfoFor(announced, "raw-listener"))
			rawDone <- err
		}()
		t1, err := newTransport(k1, id1, "dialer", false)
		if err != nil {
			harness("transport: %v", err)
			return
		}
		d := t1.dial(*p2p.NewNetAddress(dialed, ln.Addr()))
		ln.Close()
		if e := <-rawDone; e != nil {
			res.RawErr = e.Error()
		}
		judgeDial(d, dialed, idM, announced, t1)
		if sc == "control-raw-listener" && d.err != nil {
			harness("dial to an honest raw node failed: %v (raw: %s)", d.err, res.RawErr)
			return
		}
	case "hostile-dialer-nodeinfo-id-mismatch", "control-raw-dialer":
		t2, err := newTransport(k2, id2, "listener", true)
		if err != nil {
			harness("listen: %v", err)
			return
		}
		defer t2.mt.Close()
		announced := idM
		if sc == "hostile-dialer-nodeinfo-id-mismatch" {
			announced = idV
		}
		acc := t2.acceptAsync()
		cn, err := net.DialTimeout("tcp", t2.addr.DialString(), 5*time.Second)
		if err != nil {
			harness("tcp dial: %v", err)
			return
		}
		_, _, rerr := rawNode(cn, kM, eph, nodeInfoFor(announced, "raw-dialer"))
		if rerr != nil {
			res.RawErr = rerr.Error()
		}
		var a peerOrErr
		select {
		case a = <-acc:
		case <-time.After(caseTimeout):
			cn.Close()
			s.Inconclusive("m5: Accept did not return")
			return
		}
		cn.Close()
		judgeAccept(a, idM, announced, t2)
		if sc == "control-raw-dialer" && a.err != nil {
			harness("accept of an honest raw node failed: %v (raw: %s)", a.err, res.RawErr)
			return
		}
	}
	s.Distinct("m5", sc)
	if idx == 2 && s.WantSample() {
		s.Sample(wit())
	}
}
