package c16

// M4: hostile handshakes.
//
// Parties: real A (key a) and real B (key b) run conn.MakeSecretConnection;
// the attacker M holds only key m, its own ephemeral scalars, and whatever it
// saw on the wire or in sessions it legitimately took part in.
//
// Oracle: a real party that completes reporting RemotePubKey()==X must have
// received its peer's ephemeral key from the party that holds X's private
// key ("ephOwner", known statically per scenario).  A party that was fed a
// low-order ephemeral point must not complete at all.  A party whose incoming
// auth frame was altered in transit must not complete.

import (
	"encoding/binary"
	"encoding/hex"
	"errors"
	"fmt"
	"io"
	"math/rand"
	"sync"

	"github.com/gogo/protobuf/proto"
	"golang.org/x/crypto/curve25519"

	"github.com/tendermint/tendermint/crypto"
	"github.com/tendermint/tendermint/crypto/secp256k1"
	pc "github.com/tendermint/tendermint/proto/tendermint/crypto"
	tmp2p "github.com/tendermint/tendermint/proto/tendermint/p2p"

	"verif/verdict"
)

// The points of order 1, 2, 4 and 8 on Curve25519 (and their non-canonical
// encodings), from the curve's arithmetic; each is also tried with the top bit
// set, which X25519 masks off.
var lowOrderHex = []string{
	"0000000000000000000000000000000000000000000000000000000000000000", // 0, order 4
	"0100000000000000000000000000000000000000000000000000000000000000", // 1, order 1
	"e0eb7a7c3b41b8ae1656e3faf19fc46ada098deb9c32b1fd866205165f49b800", // order 8
	"5f9c95bca3508c24b1d0b1559c83ef5b04445cc4581c8e86d8224eddd09f1157", // order 8
	"ecffffffffffffffffffffffffffffffffffffffffffffffffffffffffffff7f", // p-1, order 2
	"edffffffffffffffffffffffffffffffffffffffffffffffffffffffffffff7f", // p = 0
	"eeffffffffffffffffffffffffffffffffffffffffffffffffffffffffffff7f", // p+1 = 1
}

func lowOrderPoints() [][32]byte {
	var out [][32]byte
	for _, h := range lowOrderHex {
		b, _ := hex.DecodeString(h)
		var p [32]byte
		copy(p[:], b)
		out = append(out, p)
		p[31] |= 0x80
		out = append(out, p)
	}
	return out
}

// selfTestLowOrder confirms with the unchecked ladder that every table entry
// really forces an all-zero shared secret.
func selfTestLowOrder() error {
	var zero [32]byte
	for i, p := range lowOrderPoints() {
		for _, sc := range [][32]byte{{1}, {0x77, 3, 9, 31: 0x55}, {8: 0xff, 31: 0xff}} {
			var dst [32]byte
			s, pt := sc, p
			curve25519.ScalarMult(&dst, &s, &pt) //nolint:staticcheck // the unchecked ladder is wanted here
			if dst != zero {
				return fmt.Errorf("table entry %d (%x) does not yield the zero secret", i, p)
			}
		}
	}
	return nil
}

type m4Party struct {
	Name      string `json:"party"`
	EphOwner  string `json:"ephemeral_key_received_from"`
	LowOrder  bool   `json:"fed_low_order_point,omitempty"`
	Tampered  bool   `json:"incoming_auth_frame_altered,omitempty"`
	Rewritten bool   `json:"ephemeral_key_value_altered_between_the_ends,omitempty"`
	Done      bool   `json:"completed"`
	Remote    string `json:"remote_pubkey_reported,omitempty"`
	RemoteOf  string `json:"remote_pubkey_held_by,omitempty"`
	Err       string `json:"error,omitempty"`
	ch        <-chan hsResult
}

type m4Env struct {
	c          *verdict.Ctx
	s          sink
	idx        int
	r          *rand.Rand
	kA, kB, kM crypto.PrivKey
	holders    map[string]string
	mu         sync.Mutex
	closers    []io.Closer
	realEnds   map[io.Closer]bool
	parties    []*m4Party
	Scenario   string                 `json:"scenario"`
	Variant    string                 `json:"variant"`
	Notes      map[string]interface{} `json:"notes"`
}

func (e *m4Env) pipe() (*End, *End) {
	x, y := NewPipe()
	e.mu.Lock()
	e.closers = append(e.closers, x, y)
	e.mu.Unlock()
	return x, y
}

func (e *m4Env) start(name string, end io.ReadWriteCloser, k crypto.PrivKey, ephOwner string) *m4Party {
	e.mu.Lock()
	if e.realEnds == nil {
		e.realEnds = map[io.Closer]bool{}
	}
	e.realEnds[end] = true
	e.mu.Unlock()
	p := &m4Party{Name: name, EphOwner: ephOwner, ch: realHandshake(end, k)}
	e.parties = append(e.parties, p)
	return p
}

func (e *m4Env) eph() []byte {
	b := make([]byte, 32)
	e.r.Read(b)
	return b
}

type m4Scenario struct {
	name string
	run  func(e *m4Env)
}

var m4Scenarios []m4Scenario

func init() {
	m4Scenarios = []m4Scenario{
		{"control-transparent-relay", scControl},
		{"mitm-own-identity", scMitmOwn},
		{"mitm-relay-auth-reencrypted", scMitmRelayAuth},
		{"claim-victim-key", scClaimVictim},
		{"replay-auth-from-earlier-session", scReplayAuth},
		{"wire-replay-of-earlier-session", scWireReplay},
		{"eph-substitution-relayed-frames", scEphSubst},
		{"low-order-ephemeral", scLowOrder},
		{"odd-length-ephemeral", scOddLenEph},
		{"malformed-ephemeral-message", scMalformedEph},
		{"non-ed25519-identity", scSecp},
		{"malformed-auth-message", scMalformedAuth},
		{"reflection", scReflect},
		{"auth-frame-tampered-in-transit", scAuthTamper},
		{"low-order-ephemeral", scLowOrder},
		{"ephemeral-key-rewritten-keeping-dh", scEphRewrite},
		{"ephemeral-key-rewritten-keeping-dh", scEphRewrite},
	}
}

func runM4(c *verdict.Ctx, s sink) {
	_, _, _, _, n, _ := sizes(c)
	parallel(n, workers(), func(i int) { m4Case(c, s, i) })
}

func m4Case(c *verdict.Ctx, s sink, idx int) {
	r := c.Rand("m4", idx)
	e := &m4Env{c: c, s: s, idx: idx, r: r, Notes: map[string]interface{}{}}
	e.kA, e.kB, e.kM = keyFrom(r), keyFrom(r), keyFrom(r)
	e.holders = map[string]string{
		string(e.kA.PubKey().Bytes()): "A",
		string(e.kB.PubKey().Bytes()): "B",
		string(e.kM.PubKey().Bytes()): "M",
	}
	sc := m4Scenarios[idx%len(m4Scenarios)]
	e.Scenario = sc.name
	s.Eval()

	done := make(chan struct{})
	var wdFired bool
	wmu := &e.mu
	wd := newWatchdog(closerFunc(func() error {
		wmu.Lock()
		wdFired = true
		cl := append([]io.Closer{}, e.closers...)
		wmu.Unlock()
		for _, c := range cl {
			c.Close()
		}
		return nil
	}))
	go func() {
		defer close(done)
		sc.run(e)
	}()
	<-done
	// the attacker has played its last move: hang up, collect the verdicts
	wmu.Lock()
	cl := append([]io.Closer{}, e.closers...)
	wmu.Unlock()
	for _, p := range e.parties {
		// give a party that can still finish the chance to do so before the
		// link is closed: its result is ready or it is blocked reading
		select {
		case res := <-p.ch:
			e.fill(p, res)
		default:
		}
	}
	for _, x := range cl {
		// only the attacker's ends: a real party must never lose because
		// the harness closed the direction it writes to
		if en, ok := x.(*End); ok && !e.realEnds[x] {
			en.CloseWrite()
		}
	}
	for _, p := range e.parties {
		if p.ch != nil {
			e.fill(p, <-p.ch)
		}
	}
	for _, x := range cl {
		x.Close()
	}
	wd.stop()
	wmu.Lock()
	f := wdFired
	wmu.Unlock()
	if f {
		s.Inconclusive("m4: watchdog in " + sc.name)
		return
	}
	e.judge()
}

type closerFunc func() error

func (f closerFunc) Close() error { return f() }

func (e *m4Env) fill(p *m4Party, res hsResult) {
	p.ch = nil
	if res.err != nil {
		p.Err = res.err.Error()
		return
	}
	p.Done = true
	pk := res.sc.RemotePubKey()
	p.Remote = fmt.Sprintf("%s:%X", pk.Type(), pk.Bytes())
	p.RemoteOf = e.holders[string(pk.Bytes())]
	if p.RemoteOf == "" {
		p.RemoteOf = "nobody"
	}
}

func (e *m4Env) judge() {
	s := e.s
	wit := func() witness {
		return witness{"m4", "m4", e.idx, map[string]interface{}{"scenario": e.Scenario, "variant": e.Variant, "parties": e.parties, "notes": e.Notes}}
	}
	for _, p := range e.parties {
		if !p.Done {
			s.Count("m4_refused/"+e.Scenario, 1)
			continue
		}
		s.Count("m4_completed/"+e.Scenario, 1)
		switch {
		case p.LowOrder:
			s.Violation("m4/low-order-ephemeral-accepted", fmt.Sprintf("%s: party %s completed the handshake although the ephemeral key it received (%s) is a low-order point: the shared secret is the constant zero", e.Scenario, p.Name, e.Variant), wit())
		case p.Tampered:
			s.Violation("m4/tampered-auth-frame-accepted", fmt.Sprintf("%s: party %s completed although the sealed auth frame it received was altered in transit (%s)", e.Scenario, p.Name, e.Variant), wit())
		case p.Rewritten:
			s.Violation("m4/rewritten-ephemeral-key-accepted", fmt.Sprintf("%s: party %s reports an established link although a man in the middle changed the ephemeral key value between the two honest ends (%s): the ends do not share one ephemeral exchange", e.Scenario, p.Name, e.Variant), wit())
		case p.RemoteOf != p.EphOwner:
			s.Violation("m4/identity-not-bound-to-exchange", fmt.Sprintf("%s (%s): party %s completed believing the remote is the key held by %s, but the ephemeral key it exchanged came from %s", e.Scenario, e.Variant, p.Name, p.RemoteOf, p.EphOwner), wit())
		default:
			s.Count("m4_completed_with_the_exchange_peer", 1)
		}
	}
	if e.Scenario == "control-transparent-relay" {
		for _, p := range e.parties {
			if !p.Done {
				s.HarnessError("m4 case %d: control handshake failed for %s: %s", e.idx, p.Name, p.Err)
			}
		}
	}
	s.Distinct("m4", e.Scenario, e.Variant)
	if e.idx < len(m4Scenarios) && (e.idx == 2 || e.idx == 7) && s.WantSample() {
		s.Sample(wit())
	}
}

// ------------------------------------------------------------ scenarios

func scControl(e *m4Env) {
	a, b := e.pipe()
	a.Interpose(func(i int, u []byte) Action { return Pass(u) })
	b.Interpose(func(i int, u []byte) Action { return Pass(u) })
	pa := e.start("A", a, e.kA, "B")
	pb := e.start("B", b, e.kB, "A")
	e.fill(pa, <-pa.ch)
	e.fill(pb, <-pb.ch)
}

// legs sets up A <-> M and M <-> B and exchanges ephemeral keys on both.
func (e *m4Env) legs() (rawA, rawB *rawPeer, pa, pb *m4Party, err error) {
	a, ma := e.pipe()
	mb, b := e.pipe()
	pa = e.start("A", a, e.kA, "M")
	pb = e.start("B", b, e.kB, "M")
	rawA, rawB = newRawPeer(ma, e.eph()), newRawPeer(mb, e.eph())
	for _, p := range []*rawPeer{rawA, rawB} {
		if err = p.sendEph(p.ephPub[:]); err != nil {
			return
		}
		if err = p.recvEph(); err != nil {
			return
		}
		if err = p.derive(p.ephPub, nil); err != nil {
			return
		}
	}
	return
}

func scMitmOwn(e *m4Env) {
	rawA, rawB, pa, pb, err := e.legs()
	if err != nil {
		e.Notes["attacker_error"] = err.Error()
		return
	}
	_ = rawA.sendAuth(e.kM.PubKey(), e.kM)
	_ = rawB.sendAuth(e.kM.PubKey(), e.kM)
	e.fill(pa, <-pa.ch)
	e.fill(pb, <-pb.ch)
	if !pa.Done || !pb.Done {
		// not a property violation, but the raw peer is supposed to interoperate
		e.s.Count("m4_attacker_as_itself_refused", 1)
	}
}

func scMitmRelayAuth(e *m4Env) {
	rawA, rawB, _, _, err := e.legs()
	if err != nil {
		e.Notes["attacker_error"] = err.Error()
		return
	}
	_, _, plainA, errA := rawA.recvAuth()
	_, _, plainB, errB := rawB.recvAuth()
	if errA != nil || errB != nil {
		e.Notes["attacker_error"] = fmt.Sprint(errA, errB)
		return
	}
	switch e.idx / len(m4Scenarios) % 3 {
	case 0:
		e.Variant = "both auth messages relayed"
		_ = rawA.sendAuthBytes(plainB)
		_ = rawB.sendAuthBytes(plainA)
	case 1:
		e.Variant = "B's auth relayed to A; M itself towards B"
		_ = rawA.sendAuthBytes(plainB)
		_ = rawB.sendAuth(e.kM.PubKey(), e.kM)
	default:
		e.Variant = "A's auth relayed to B; M itself towards A"
		_ = rawB.sendAuthBytes(plainA)
		_ = rawA.sendAuth(e.kM.PubKey(), e.kM)
	}
}

func scClaimVictim(e *m4Env) {
	a, ma := e.pipe()
	e.start("A", a, e.kA, "M")
	raw := newRawPeer(ma, e.eph())
	if err := firstErr(raw.sendEph(raw.ephPub[:]), raw.recvEph(), raw.derive(raw.ephPub, nil)); err != nil {
		e.Notes["attacker_error"] = err.Error()
		return
	}
	var sig []byte
	v := e.idx / len(m4Scenarios) % 7
	switch v {
	case 0:
		e.Variant = "B's key, signature by M over the right challenge"
		sig, _ = e.kM.Sign(raw.challenge[:])
	case 1:
		e.Variant = "B's key, random 64-byte signature"
		sig = make([]byte, 64)
		e.r.Read(sig)
	case 2:
		e.Variant = "B's key, all-zero signature"
		sig = make([]byte, 64)
	case 3:
		e.Variant = "B's key, empty signature"
	case 4:
		e.Variant = "B's key, 63-byte signature"
		sig = make([]byte, 63)
		e.r.Read(sig)
	case 5:
		e.Variant = "B's key, B's signature over a different message"
		sig, _ = e.kB.Sign([]byte("some other message B signed elsewhere"))
	default:
		e.Variant = "B's key, B's signature over the challenge with one bit flipped"
		ch := raw.challenge
		ch[e.r.Intn(32)] ^= 1 << uint(e.r.Intn(8))
		sig, _ = e.kB.Sign(ch[:]) // the harness lends B's key only to build a near miss
	}
	m, err := authMessage(e.kB.PubKey(), sig)
	if err != nil {
		e.Notes["attacker_error"] = err.Error()
		return
	}
	_ = raw.sendAuthBytes(m)
}

func firstErr(errs ...error) error {
	for _, e := range errs {
		if e != nil {
			return e
		}
	}
	return nil
}

func scReplayAuth(e *m4Env) {
	ephM := e.eph()
	// session 1: M talks to B as itself and keeps B's auth message
	m1, b1 := e.pipe()
	p1 := e.start("B(session 1)", b1, e.kB, "M")
	raw1 := newRawPeer(m1, ephM)
	if err := firstErr(raw1.sendEph(raw1.ephPub[:]), raw1.recvEph(), raw1.derive(raw1.ephPub, nil), raw1.sendAuth(e.kM.PubKey(), e.kM)); err != nil {
		e.Notes["attacker_error"] = err.Error()
		return
	}
	_, _, plainB, err := raw1.recvAuth()
	if err != nil {
		e.Notes["attacker_error"] = err.Error()
		return
	}
	e.fill(p1, <-p1.ch)
	// session 2: M presents that message to A; same attacker ephemeral key
	a, ma := e.pipe()
	e.start("A", a, e.kA, "M")
	eph2 := ephM
	if e.idx/len(m4Scenarios)%2 == 1 {
		eph2 = e.eph()
		e.Variant = "fresh attacker ephemeral key in session 2"
	} else {
		e.Variant = "same attacker ephemeral key in both sessions"
	}
	raw2 := newRawPeer(ma, eph2)
	if err := firstErr(raw2.sendEph(raw2.ephPub[:]), raw2.recvEph(), raw2.derive(raw2.ephPub, nil)); err != nil {
		e.Notes["attacker_error"] = err.Error()
		return
	}
	_ = raw2.sendAuthBytes(plainB)
}

func scWireReplay(e *m4Env) {
	// session 1: honest A <-> B, the wire from B is recorded
	a1, b1 := e.pipe()
	var mu sync.Mutex
	var rec [][]byte
	b1.Interpose(func(i int, u []byte) Action {
		mu.Lock()
		rec = append(rec, u)
		mu.Unlock()
		return Pass(u)
	})
	pa1 := e.start("A(session 1)", a1, e.kA, "B")
	pb1 := e.start("B(session 1)", b1, e.kB, "A")
	e.fill(pa1, <-pa1.ch)
	e.fill(pb1, <-pb1.ch)
	mu.Lock()
	units := append([][]byte{}, rec...)
	mu.Unlock()
	if len(units) < 2 {
		e.Notes["attacker_error"] = "nothing recorded"
		return
	}
	// session 2: B's recorded side is played back to a fresh A
	a2, x := e.pipe()
	e.start("A", a2, e.kA, "replayed recording")
	e.Variant = "B's ephemeral message and sealed auth frame of session 1 played back"
	for _, u := range units {
		_, _ = x.Write(u)
	}
}

func scEphSubst(e *m4Env) {
	a, b := e.pipe()
	rawM := newRawPeer(nil, e.eph())
	rawM2 := newRawPeer(nil, e.eph())
	both := e.idx/len(m4Scenarios)%2 == 1
	ownerA, ownerB := "B", "M"
	e.Variant = "A->B ephemeral key replaced, everything else relayed"
	if both {
		ownerA = "M"
		e.Variant = "both ephemeral keys replaced, sealed frames relayed"
	}
	a.Interpose(func(i int, u []byte) Action {
		if i == 0 {
			return Action{Out: [][]byte{ephMessage(rawM.ephPub[:])}}
		}
		return Pass(u)
	})
	b.Interpose(func(i int, u []byte) Action {
		if i == 0 && both {
			return Action{Out: [][]byte{ephMessage(rawM2.ephPub[:])}}
		}
		return Pass(u)
	})
	pa := e.start("A", a, e.kA, ownerA)
	pb := e.start("B", b, e.kB, ownerB)
	e.fill(pa, <-pa.ch)
	e.fill(pb, <-pb.ch)
}

// scEphRewrite: between two HONEST ends the man in the middle rewrites the
// ephemeral-key message so that X25519 still yields the same secret.  Where
// the 32-byte key value an end takes differs from what its peer sent, the two
// ends no longer share one exchange and neither may establish.  Rewrites of
// the encoding only (same 32 bytes understood by the receiver) are played too
// and judged by the identity oracle alone.
func scEphRewrite(e *m4Env) {
	a, b := e.pipe()
	q, slot := e.idx/len(m4Scenarios), e.idx%len(m4Scenarios)-15
	v := (2*q + slot) % 7
	keyOf := func(u []byte) []byte { // unit 0 = len 0x0a 0x20 key
		_, w := binary.Uvarint(u)
		return u[w+2 : w+2+32]
	}
	setTop := func(u []byte) []byte {
		k := append([]byte{}, keyOf(u)...)
		k[31] |= 0x80 // bit 255: ignored by X25519
		return ephMessage(k)
	}
	addP := func(u []byte) ([]byte, bool) { // u+p, the other encoding of a u < 19
		k := keyOf(u)
		for i := 1; i < 32; i++ {
			if k[i] != 0 {
				return nil, false
			}
		}
		if k[0] >= 19 {
			return nil, false
		}
		n := make([]byte, 32)
		for i := range n {
			n[i] = 0xff
		}
		n[0] = 0xed + k[0]
		n[31] = 0x7f
		return ephMessage(n), true
	}
	var rwAB, rwBA func(u []byte) []byte
	judged := true
	switch v {
	case 0:
		e.Variant = "bit 255 of A's key set on the way to B"
		rwAB = setTop
	case 1:
		e.Variant = "bit 255 of B's key set on the way to A"
		rwBA = setTop
	case 2:
		e.Variant = "bit 255 set in both directions"
		rwAB, rwBA = setTop, setTop
	case 3:
		e.Variant = "A's key replaced by u+p where u<19 (else bit 255 set), B's by bit 255 set"
		rwAB = func(u []byte) []byte {
			if m, ok := addP(u); ok {
				e.s.Count("m4_noncanonical_u_plus_p_applied", 1)
				return m
			}
			return setTop(u)
		}
		rwBA = setTop
	case 4:
		judged = false
		e.Variant = "encoding only: one extra byte appended to A's key value (33 bytes)"
		rwAB = func(u []byte) []byte { return ephMessage(append(append([]byte{}, keyOf(u)...), 0x5a)) }
	case 5:
		judged = false
		e.Variant = "encoding only: unknown protobuf field appended to both key messages"
		f := func(u []byte) []byte {
			_, w := binary.Uvarint(u)
			return delimited(append(append([]byte{}, u[w:]...), 0x10, 0x07))
		}
		rwAB, rwBA = f, f
	default:
		judged = false
		e.Variant = "encoding only: non-minimal length prefix on A's key message"
		rwAB = func(u []byte) []byte {
			_, w := binary.Uvarint(u)
			body := u[w:]
			return append([]byte{byte(len(body)) | 0x80, 0x00}, body...)
		}
	}
	mk := func(rw func([]byte) []byte) Hook {
		return func(i int, u []byte) Action {
			if i == 0 && rw != nil {
				return Action{Out: [][]byte{rw(u)}}
			}
			return Pass(u)
		}
	}
	a.Interpose(mk(rwAB))
	b.Interpose(mk(rwBA))
	pa := e.start("A", a, e.kA, "B")
	pb := e.start("B", b, e.kB, "A")
	pa.Rewritten, pb.Rewritten = judged, judged
	e.fill(pa, <-pa.ch)
	e.fill(pb, <-pb.ch)
	if !judged && pa.Done && pb.Done {
		e.s.Count("m4_encoding_only_rewrite_established_with_same_key_values", 1)
	}
}

func scLowOrder(e *m4Env) {
	pts := lowOrderPoints()
	k := (e.idx / len(m4Scenarios)) % len(pts)
	pt := pts[k]
	e.Variant = fmt.Sprintf("point %x", pt)
	a, ma := e.pipe()
	p := e.start("A", a, e.kA, "nobody")
	p.LowOrder = true
	raw := newRawPeer(ma, e.eph())
	if err := firstErr(raw.sendEph(pt[:]), raw.recvEph()); err != nil {
		e.Notes["attacker_error"] = err.Error()
		return
	}
	// whatever A's scalar is, the shared secret is zero: M can finish alone
	if err := raw.derive(pt, make([]byte, 32)); err != nil {
		e.Notes["attacker_error"] = err.Error()
		return
	}
	_ = raw.sendAuth(e.kM.PubKey(), e.kM)
}

func scOddLenEph(e *m4Env) {
	lens := []int{1, 8, 16, 31, 33, 40, 64, 200}
	l := lens[(e.idx/len(m4Scenarios))%len(lens)]
	a, ma := e.pipe()
	raw := newRawPeer(ma, e.eph())
	key := make([]byte, l)
	copy(key, raw.ephPub[:])
	if l > 32 {
		e.r.Read(key[32:])
	}
	var ann [32]byte // what a reader that pads / truncates to 32 bytes ends up with
	copy(ann[:], key)
	owner := "M" // for l>32 the first 32 bytes are M's genuine key
	if ann != raw.ephPub {
		owner = "nobody" // nobody knows the scalar of a truncated key
	}
	e.Variant = fmt.Sprintf("ephemeral key message of %d bytes", l)
	e.start("A", a, e.kA, owner)
	if err := firstErr(raw.sendEph(key), raw.recvEph()); err != nil {
		e.Notes["attacker_error"] = err.Error()
		return
	}
	// M continues as if A had taken the first 32 bytes (zero padded)
	if err := raw.derive(ann, nil); err != nil {
		e.Notes["attacker_error"] = err.Error()
		return
	}
	_ = raw.sendAuth(e.kM.PubKey(), e.kM)
}

func scMalformedEph(e *m4Env) {
	a, ma := e.pipe()
	raw := newRawPeer(ma, e.eph())
	v := (e.idx / len(m4Scenarios)) % 6
	var msg []byte
	owner := "nobody"
	lowOrder := false
	switch v {
	case 0:
		e.Variant = "length prefix of 2 MiB"
		msg = binary.AppendUvarint(nil, 2<<20)
		msg = append(msg, make([]byte, 64)...)
	case 1:
		e.Variant = "message cut short, then EOF"
		m := ephMessage(raw.ephPub[:])
		msg = m[:len(m)/2]
	case 2:
		e.Variant = "empty message (decodes to the all-zero key)"
		msg = []byte{0}
		lowOrder = true
	case 3:
		e.Variant = "wrong wire type for field 1"
		msg = delimited(append([]byte{0x08}, raw.ephPub[:]...))
	case 4:
		e.Variant = "10-byte varint length overflow"
		msg = []byte{0xff, 0xff, 0xff, 0xff, 0xff, 0xff, 0xff, 0xff, 0xff, 0xff, 0x01}
	default:
		e.Variant = "unknown extra field after the key"
		b, _ := proto.Marshal(&tmp2p.AuthSigMessage{Sig: raw.ephPub[:]}) // field 2 bytes
		inner := append(ephMessage(raw.ephPub[:])[1:], b...)
		msg = delimited(inner)
		owner = "M"
	}
	p := e.start("A", a, e.kA, owner)
	p.LowOrder = lowOrder
	if _, err := ma.Write(msg); err != nil {
		return
	}
	if v == 1 {
		ma.CloseWrite()
		return
	}
	if err := raw.recvEph(); err != nil {
		e.Notes["attacker_error"] = err.Error()
		return
	}
	var err error
	switch v {
	case 2:
		err = raw.derive([32]byte{}, make([]byte, 32))
	case 5:
		err = raw.derive(raw.ephPub, nil)
	default:
		err = errors.New("no way to continue")
	}
	if err != nil {
		return
	}
	_ = raw.sendAuth(e.kM.PubKey(), e.kM)
}

func scSecp(e *m4Env) {
	a, ma := e.pipe()
	sk := secp256k1.GenPrivKeySecp256k1(e.eph())
	e.holders[string(sk.PubKey().Bytes())] = "M"
	e.Variant = "secp256k1 key with a valid signature over the challenge"
	e.start("A", a, e.kA, "M")
	raw := newRawPeer(ma, e.eph())
	if err := firstErr(raw.sendEph(raw.ephPub[:]), raw.recvEph(), raw.derive(raw.ephPub, nil)); err != nil {
		e.Notes["attacker_error"] = err.Error()
		return
	}
	_ = raw.sendAuth(sk.PubKey(), sk)
}

func scMalformedAuth(e *m4Env) {
	a, ma := e.pipe()
	e.start("A", a, e.kA, "M")
	raw := newRawPeer(ma, e.eph())
	if err := firstErr(raw.sendEph(raw.ephPub[:]), raw.recvEph(), raw.derive(raw.ephPub, nil)); err != nil {
		e.Notes["attacker_error"] = err.Error()
		return
	}
	sigB, _ := e.kM.Sign(raw.challenge[:])
	good, _ := authMessage(e.kB.PubKey(), sigB)
	v := (e.idx / len(m4Scenarios)) % 7
	switch v {
	case 0:
		e.Variant = "auth length prefix of 2 MiB"
		_ = raw.writeFrame(binary.AppendUvarint(nil, 2<<20))
	case 1:
		e.Variant = "auth message cut short, then EOF"
		_ = raw.writeFrame(good[:len(good)/2])
		ma.CloseWrite()
	case 2:
		e.Variant = "auth message without a public key"
		b, _ := proto.Marshal(&tmp2p.AuthSigMessage{Sig: sigB})
		_ = raw.writeStream(delimited(b))
	case 3:
		e.Variant = "ed25519 key of 31 bytes (B's key truncated)"
		b, _ := proto.Marshal(&tmp2p.AuthSigMessage{PubKey: pc.PublicKey{Sum: &pc.PublicKey_Ed25519{Ed25519: e.kB.PubKey().Bytes()[:31]}}, Sig: sigB})
		_ = raw.writeStream(delimited(b))
	case 4:
		e.Variant = "frame whose sealed length field says 2000"
		var plain [framePlain]byte
		binary.LittleEndian.PutUint32(plain[:], 2000)
		copy(plain[4:], good)
		f := raw.send.Seal(nil, nonceOf(raw.sendCtr), plain[:], nil)
		raw.sendCtr++
		_, _ = ma.Write(f)
	case 5:
		e.Variant = "auth frame sealed under nonce 1 instead of 0"
		raw.sendCtr = 1
		_ = raw.writeStream(good)
	default:
		e.Variant = "auth frame sealed with the receive key (key confusion)"
		raw.send = raw.recv
		_ = raw.writeStream(good)
	}
}

func scReflect(e *m4Env) {
	a, x := e.pipe()
	e.Variant = "everything A sends is echoed back to A"
	p := e.start("A", a, e.kA, "M (echo)")
	go func() {
		buf := make([]byte, 4096)
		for {
			n, err := x.Read(buf)
			if n > 0 {
				_, _ = x.Write(buf[:n])
			}
			if err != nil {
				return
			}
		}
	}()
	e.fill(p, <-p.ch)
}

func scAuthTamper(e *m4Env) {
	a, b := e.pipe()
	off := e.r.Intn(frameSealed)
	bit := e.r.Intn(8)
	v := (e.idx / len(m4Scenarios)) % 4
	switch v {
	case 0:
		off = e.r.Intn(4)
	case 1:
		off = 4 + e.r.Intn(100)
	case 2:
		off = framePlain + e.r.Intn(16)
	}
	e.Variant = fmt.Sprintf("bit %d of byte %d of A's sealed auth frame flipped", bit, off)
	a.Interpose(func(i int, u []byte) Action {
		if i == 1 {
			u[off] ^= 1 << uint(bit)
		}
		return Pass(u)
	})
	pa := e.start("A", a, e.kA, "B")
	pb := e.start("B", b, e.kB, "A")
	pb.Tampered = true
	e.fill(pa, <-pa.ch)
	e.fill(pb, <-pb.ch)
}
