package c16

// M2 fault family: the transport under a real SecretConnection fails some
// underlying writes (after forwarding nothing, the whole sealed frame, or a
// prefix of it) and the application keeps writing.
//
// Oracles, from the statement only:
//  (a) "a nonce is never used twice": no two distinct sealed frames handed to
//      the transport open, under the session key, with the same nonce (decided
//      by the raw observer, which is the other endpoint and knows the key);
//      and, since a frame is sealed under the value the accessor shows before
//      the call, after a Write call that handed h frames to the transport --
//      whether or not it returned an error -- the send nonce must have moved
//      past all of them: after >= before + h.
//  (b) the reader (real, or the raw peer reading strictly in counter order)
//      is never handed bytes that are not a prefix of what the writer's frames
//      carried, where the frame of a failed write may or may not be part of
//      the stream.  Errors are fine.

import (
	"bytes"
	"fmt"
	"math/rand"

	"verif/verdict"
)

type m2fPlan struct {
	Mode   string  `json:"peer"` // raw-observer | real-reader
	Writes []int   `json:"write_sizes"`
	Faults []Fault `json:"faults"`
	Reads  []int   `json:"read_buffer_sizes,omitempty"`
}

type optChunk struct {
	data     []byte
	optional bool
}

// prefixOfSome reports whether got is a prefix of a concatenation of chunks in
// order in which optional chunks may be left out.
func prefixOfSome(got []byte, chunks []optChunk) bool {
	if len(got) == 0 {
		return true
	}
	if len(chunks) == 0 {
		return false
	}
	c := chunks[0]
	if c.optional && prefixOfSome(got, chunks[1:]) {
		return true
	}
	n := len(c.data)
	if n >= len(got) {
		return bytes.Equal(got, c.data[:len(got)])
	}
	return bytes.Equal(got[:n], c.data) && prefixOfSome(got[n:], chunks[1:])
}

func genM2F(r *rand.Rand, idx int) (m2fPlan, []byte) {
	p := m2fPlan{Mode: "raw-observer"}
	if idx%3 == 2 {
		p.Mode = "real-reader"
	}
	nw := 2 + r.Intn(6)
	total := 0
	for i := 0; i < nw; i++ {
		var w int
		switch r.Intn(5) {
		case 0:
			w = 1 + r.Intn(3000)
		case 1:
			w = []int{1, 1024, 1025, 2048}[r.Intn(4)]
		default:
			w = 1 + r.Intn(300)
		}
		p.Writes = append(p.Writes, w)
		total += w
	}
	starts, _ := frameStarts(p.Writes)
	nf := 1
	if r.Intn(3) == 0 {
		nf = 2
	}
	used := map[int]bool{}
	for i := 0; i < nf; i++ {
		k := r.Intn(len(starts))
		if i == 0 && r.Intn(2) == 0 && len(starts) > 1 {
			k = r.Intn(len(starts) - 1) // make sure a frame follows the first fault
		}
		if used[k] {
			continue
		}
		used[k] = true
		f := Fault{Call: 2 + k, Mode: FaultMode((idx/3 + i) % 3)} // calls 0,1 = ephemeral key, auth frame
		if f.Mode == FaultPartial {
			f.Prefix = 1 + r.Intn(frameSealed-1)
		}
		p.Faults = append(p.Faults, f)
	}
	for i, n := 0, 1+r.Intn(4); i < n; i++ {
		p.Reads = append(p.Reads, 1+r.Intn(3000))
	}
	data := make([]byte, total)
	r.Read(data)
	return p, data
}

func runM2Fault(c *verdict.Ctx, s sink, lo, hi int) {
	parallel(hi-lo, workers(), func(i int) { m2FaultCase(c, s, lo+i) })
}

func m2FaultCase(c *verdict.Ctx, s sink, idx int) {
	r := c.Rand("m2fault", idx)
	kA, kP := keyFrom(r), keyFrom(r)
	eph := make([]byte, 32)
	r.Read(eph)
	plan, data := genM2F(r, idx)
	a, b := NewPipe()
	fc := NewFaultConn(a, plan.Faults)
	wd := newWatchdog(a, b)
	defer func() { a.Close(); b.Close() }()
	s.Eval()

	viol := func(key, what string, det map[string]interface{}) {
		if det == nil {
			det = map[string]interface{}{}
		}
		det["plan"] = plan
		det["note"] = what
		s.Violation(key, what, witness{"m2fault", "m2fault", idx, det})
	}

	ha := realHandshake(fc, kA)
	var raw *rawPeer
	var realB, realA hsResult
	if plan.Mode == "raw-observer" {
		raw = newRawPeer(b, eph)
		_, err := raw.handshake(kP)
		ra := <-ha
		if err != nil || ra.err != nil {
			if wd.stop() {
				s.Inconclusive("m2fault: watchdog during handshake")
				return
			}
			s.HarnessError("m2fault case %d: honest raw<->real handshake failed: raw=%v real=%v", idx, err, ra.err)
			return
		}
		realA = ra
	} else {
		realB = <-realHandshake(b, kP)
		ra := <-ha
		if realB.err != nil || ra.err != nil {
			if wd.stop() {
				s.Inconclusive("m2fault: watchdog during handshake")
				return
			}
			s.HarnessError("m2fault case %d: honest handshake failed: a=%v b=%v", idx, ra.err, realB.err)
			return
		}
		realA = ra
	}
	scA := realA.sc

	// the writer: keeps writing whatever Write returns
	var chunks []optChunk
	off := 0
	failedCalls := 0
	accessorFired := false // keep going: the wire oracle below is the decisive one
	for i, w := range plan.Writes {
		before, _ := ctrOf(scA.VerifSendNonce())
		h0 := fc.HandedCount()
		d := data[off : off+w]
		off += w
		_, werr := scA.Write(d)
		handed := fc.Handed()[h0:]
		after, okp := ctrOf(scA.VerifSendNonce())
		if werr != nil {
			failedCalls++
		}
		// frames of this call, by the framing rule
		for j, hw := range handed {
			lo := j * frameDataMax
			hi := lo + frameDataMax
			if lo > len(d) {
				lo = len(d)
			}
			if hi > len(d) {
				hi = len(d)
			}
			chunks = append(chunks, optChunk{d[lo:hi], hw.Failed})
		}
		s.Count("m2f_send_nonce_checks", 1)
		if !accessorFired && (!okp || after < before+uint64(len(handed))) {
			viol("m2/send-nonce-not-past-sealed-frames",
				fmt.Sprintf("Write #%d (%d bytes, returned err=%v) handed %d sealed frame(s) to the transport, sealed from counter %d on, but the send counter afterwards is %d (prefix zero=%v): the next frame will be sealed under a nonce already used", i, w, werr, len(handed), before, after, okp),
				map[string]interface{}{"write_index": i, "counter_before": before, "counter_after": after, "frames_handed": len(handed)})
			accessorFired = true
		}
	}
	a.CloseWrite()
	s.Count("m2f_failed_write_calls", int64(failedCalls))
	for _, f := range plan.Faults {
		s.Count("m2f_fault_"+f.Mode.String(), 1)
	}

	all := fc.Handed()
	if plan.Mode == "raw-observer" {
		// (a) on the wire: which counter does every handed sealed frame open under?
		byCtr := map[uint64]int{}
		for i, hw := range all {
			if i == 0 || len(hw.Buf) != frameSealed {
				continue
			}
			found := false
			for ctr := uint64(0); ctr < uint64(len(all)+3); ctr++ {
				if _, err := raw.recv.Open(nil, nonceOf(ctr), hw.Buf, nil); err != nil {
					continue
				}
				found = true
				if j, dup := byCtr[ctr]; dup && !bytes.Equal(all[j].Buf, hw.Buf) {
					p1, _ := raw.recv.Open(nil, nonceOf(ctr), all[j].Buf, nil)
					p2, _ := raw.recv.Open(nil, nonceOf(ctr), hw.Buf, nil)
					x := make([]byte, 24)
					for q := range x {
						x[q] = all[j].Buf[q] ^ hw.Buf[q] ^ p1[q] ^ p2[q]
					}
					viol("m2/nonce-used-twice",
						fmt.Sprintf("two different sealed frames (transport writes #%d and #%d) both open under counter nonce %d with the session key: c1^c2 == p1^p2 (first 24 bytes of c1^c2^p1^p2 = %x)", j, i, ctr, x),
						map[string]interface{}{"counter": ctr, "first_write_call": j, "first_forwarded_bytes": all[j].Forwarded, "first_failed": all[j].Failed,
							"second_write_call": i, "second_forwarded_bytes": hw.Forwarded, "c1": verdict.Hex(all[j].Buf), "c2": verdict.Hex(hw.Buf)})
					return
				}
				byCtr[ctr] = i
				break
			}
			if found {
				s.Count("m2f_handed_frames_opened", 1)
			} else {
				s.Count("m2f_handed_frames_not_opening_under_any_small_counter", 1)
			}
		}
		// (b) the raw peer reading the wire strictly in counter order
		var got []byte
		for {
			d, err := raw.readFrame()
			if err != nil {
				break
			}
			got = append(got, d...)
		}
		if wd.stop() {
			s.Inconclusive("m2fault: watchdog")
			return
		}
		if !prefixOfSome(got, chunks) {
			viol("m1/stream-mismatch", fmt.Sprintf("raw reader after transport write faults: the %d bytes obtained in counter order are not a prefix of what the writer's frames carried", len(got)), map[string]interface{}{"got": verdict.Hex(got)})
			return
		}
		s.Count("m2f_raw_reader_bytes", int64(len(got)))
	} else {
		var got []byte
		buf := make([]byte, 3001)
		for i := 0; i < 100000; i++ {
			n, err := realB.sc.Read(buf[:plan.Reads[i%len(plan.Reads)]])
			got = append(got, buf[:n]...)
			if err != nil {
				break
			}
		}
		if wd.stop() {
			s.Inconclusive("m2fault: watchdog")
			return
		}
		if !prefixOfSome(got, chunks) {
			viol("m1/stream-mismatch", fmt.Sprintf("real reader after transport write faults: the %d bytes returned are not a prefix of what the writer's frames carried", len(got)), map[string]interface{}{"got": verdict.Hex(got)})
			return
		}
		s.Count("m2f_real_reader_bytes", int64(len(got)))
	}
	if accessorFired {
		return
	}
	s.Count("m2f_cases_held", 1)
	s.Distinct("m2fault", plan.Mode, fmt.Sprint(plan.Writes), fmt.Sprint(plan.Faults))
	if idx == 1 && s.WantSample() {
		s.Sample(map[string]interface{}{"monitor": "m2fault", "case": idx, "plan": plan, "transport_writes": len(all), "failed_write_calls": failedCalls})
	}
}
