// Package c16: the secret connection is mutually authenticated, ordered and
// tamper-evident (DESIGN.md section 3, C16).
//
// Real conn.MakeSecretConnection / Read / Write and the real
// p2p.MultiplexTransport are executed over an in-memory pipe with a frame-level
// interposer (pipe.go), against an independent implementation of the protocol
// whose key material the harness knows (raw.go), and over loopback TCP.
//
//	M1 stream integrity   m1.go   (race stage)
//	M2 nonces             m1.go, m2f.go (transport write faults)   (race stage)
//	M6 concurrent use of one connection  m6.go   (race stage)
//	M3 ciphertext tamper  m3.go
//	M4 handshake MITM     m4.go
//	M5 transport identity m5.go
package c16

import (
	"encoding/json"
	"fmt"
	"os"
	"os/exec"
	"path/filepath"
	"runtime"
	"strings"
	"sync"
	"time"

	"verif/verdict"
)

// sink is the part of verdict.Ctx the monitors report through; the race stage
// reports into a recorder that the parent process merges.
type sink interface {
	Eval()
	Distinct(descriptor ...interface{}) bool
	Count(name string, n int64)
	Max(name string, v int64)
	Violation(key, what string, witness interface{}) bool
	Sample(v interface{})
	WantSample() bool
	Inconclusive(why string)
	HarnessError(format string, a ...interface{})
}

type recViolation struct {
	Key     string      `json:"key"`
	What    string      `json:"what"`
	Witness interface{} `json:"witness"`
}

// recorder collects what a child stage observed.
type recorder struct {
	mu       sync.Mutex
	Evals    int64    `json:"evals"`
	Dist     []string `json:"distinct"`
	distSeen map[string]bool
	Counts   map[string]int64 `json:"counts"`
	Maxes    map[string]int64 `json:"maxes"`
	Viols    []recViolation   `json:"violations"`
	violN    map[string]int
	Samples  []interface{} `json:"samples"`
	Inconcl  []string      `json:"inconclusive"`
	HErrs    []string      `json:"harness_errors"`
}

func newRecorder() *recorder {
	return &recorder{distSeen: map[string]bool{}, Counts: map[string]int64{}, Maxes: map[string]int64{}, violN: map[string]int{}}
}

func (r *recorder) Eval() { r.mu.Lock(); r.Evals++; r.mu.Unlock() }
func (r *recorder) Distinct(d ...interface{}) bool {
	parts := make([]string, len(d))
	for i, x := range d {
		parts[i] = fmt.Sprintf("%v", x)
	}
	k := strings.Join(parts, "\x00")
	r.mu.Lock()
	defer r.mu.Unlock()
	if r.distSeen[k] {
		return false
	}
	r.distSeen[k] = true
	r.Dist = append(r.Dist, k)
	return true
}
func (r *recorder) Count(n string, v int64) { r.mu.Lock(); r.Counts[n] += v; r.mu.Unlock() }
func (r *recorder) Max(n string, v int64) {
	r.mu.Lock()
	if v > r.Maxes[n] {
		r.Maxes[n] = v
	}
	r.mu.Unlock()
}
func (r *recorder) Violation(key, what string, w interface{}) bool {
	r.mu.Lock()
	defer r.mu.Unlock()
	r.violN[key]++
	if r.violN[key] <= 3 {
		r.Viols = append(r.Viols, recViolation{key, what, w})
	}
	return true
}
func (r *recorder) Sample(v interface{}) {
	r.mu.Lock()
	if len(r.Samples) < 2 {
		r.Samples = append(r.Samples, v)
	}
	r.mu.Unlock()
}
func (r *recorder) WantSample() bool { r.mu.Lock(); defer r.mu.Unlock(); return len(r.Samples) < 2 }
func (r *recorder) Inconclusive(why string) {
	r.mu.Lock()
	r.Inconcl = append(r.Inconcl, why)
	r.mu.Unlock()
}
func (r *recorder) HarnessError(f string, a ...interface{}) {
	r.mu.Lock()
	r.HErrs = append(r.HErrs, fmt.Sprintf(f, a...))
	r.mu.Unlock()
}

func (r *recorder) mergeInto(c *verdict.Ctx) {
	for i := int64(0); i < r.Evals; i++ {
		c.Eval()
	}
	for _, d := range r.Dist {
		c.Distinct(d)
	}
	for k, v := range r.Counts {
		c.Count(k, v)
	}
	for k, v := range r.Maxes {
		c.Max(k, v)
	}
	for _, v := range r.Viols {
		c.Violation(v.Key, v.What, v.Witness)
	}
	for _, s := range r.Samples {
		c.Sample(s)
	}
	for _, s := range r.Inconcl {
		c.Inconclusive(s)
	}
	for _, s := range r.HErrs {
		c.HarnessError("%s", s)
	}
}

// witness is the common head of every violation witness / replay file.
type witness struct {
	Monitor string      `json:"monitor"` // m1 | m2raw | m3 | m4 | m5
	Stream  string      `json:"stream"`
	Case    int         `json:"case"`
	Detail  interface{} `json:"detail,omitempty"`
}

// parallel runs fn(i) for i in [0,n) on a pool of workers.
func parallel(n, workers int, fn func(i int)) {
	if workers < 1 {
		workers = 1
	}
	var wg sync.WaitGroup
	ch := make(chan int, 64)
	for w := 0; w < workers; w++ {
		wg.Add(1)
		go func() {
			defer wg.Done()
			for i := range ch {
				fn(i)
			}
		}()
	}
	for i := 0; i < n; i++ {
		ch <- i
	}
	close(ch)
	wg.Wait()
}

func workers() int {
	w := runtime.GOMAXPROCS(0)
	if w > 16 {
		w = 16
	}
	return w
}

// caseTimeout is the generous per-case watchdog; firing = inconclusive.
const caseTimeout = 60 * time.Second

const (
	stageEnv    = "VERIF_C16_STAGE"
	stageOutEnv = "VERIF_C16_STAGE_OUT"
)

func nFault(c *verdict.Ctx) int { return c.N(400, 40000) }

func sizes(c *verdict.Ctx) (nM1, nRawW, nRawR, nM3, nM4, nM5 int) {
	return c.N(1200, 120000), c.N(400, 40000), c.N(400, 40000), c.N(1400, 140000), c.N(500, 50000), c.N(100, 10000)
}

// Run is the entry point registered for C16.
func Run(c *verdict.Ctx) int {
	if os.Getenv(stageEnv) == "race" {
		return runRaceChild(c)
	}
	c.Rule = "a case is non-trivial if ciphertext crossed an established real secret connection (M1/M2: both directions carried data; M6: several goroutines wrote to / read from the same connection; M3: an edit of the sealed stream was applied and the reader ran to its first error), or a hostile / malformed handshake was played against a real MakeSecretConnection to its conclusion (M4), or a real MultiplexTransport Dial/Accept was driven over loopback TCP (M5); distinct by monitor + scenario + generated parameters (write/read size lists, edit kind, frame index, byte offset, hostile variant); fresh keys alone do not make a case distinct"
	c.Assume(
		"ed25519, X25519, HKDF-SHA256, ChaCha20-Poly1305, Merlin and protobuf encoding are trusted (shared by the code under test and the independent raw peer)",
		"the raw peer (raw.go) implements spec/p2p/peer.md; that it interoperates with the real code is itself checked by the M2 raw cases and the M4 control",
		"ephemeral keys of the real side come from crypto/rand and are not replayable; verdicts do not depend on them",
		"race reports are diagnostics, never violations",
	)
	if err := selfTestLowOrder(); err != nil {
		c.HarnessError("low-order table self-test: %v", err)
		return c.Finish(1)
	}

	if rp := c.Replay(); rp != "" {
		return runReplay(c, rp)
	}

	// M1/M2 under the race detector when a race build is available: all of
	// them in the quick tier, a fixed leading share in the thorough tier (the
	// rest runs in this process); the child runs while M3..M5 run here.
	wait := startRaceStage(c)
	if wait != nil {
		runM12(c, c, false)
	}
	runM3(c, c)
	runM4(c, c)
	runM5(c, c)
	if wait != nil {
		wait()
	}

	min := c.N(2800, 220000)
	return c.Finish(min)
}

// raceShare is the number of leading cases of each M1/M2 stream that run in
// the race-built child.
func raceShare(c *verdict.Ctx) (m1, rawW, rawR int) {
	n1, nW, nR, _, _, _ := sizes(c)
	if !c.Thorough() {
		return n1, nW, nR
	}
	return 12000, 3000, 3000
}

// runM12 runs the M1/M2 cases: inRace selects the leading share (true) or
// the remainder (false); all=true runs everything.
func runM12(c *verdict.Ctx, s sink, inRace bool) {
	n1, nW, nR, _, _, _ := sizes(c)
	r1, rW, rR := raceShare(c)
	if inRace {
		runM1(c, s, 0, r1)
		runM2Raw(c, s, "m2rawW", 0, rW)
		runM2Raw(c, s, "m2rawR", 0, rR)
		runM2Fault(c, s, 0, rFault(c))
		w6, r6 := rM6(c)
		runM6(c, s, 0, w6, 0, r6)
		return
	}
	runM1(c, s, r1, n1)
	runM2Raw(c, s, "m2rawW", rW, nW)
	runM2Raw(c, s, "m2rawR", rR, nR)
	runM2Fault(c, s, rFault(c), nFault(c))
	w6, r6 := rM6(c)
	n6w, n6r := nM6(c)
	runM6(c, s, w6, n6w, r6, n6r)
}

func rFault(c *verdict.Ctx) int {
	if !c.Thorough() {
		return nFault(c)
	}
	return 3000
}

func runM12All(c *verdict.Ctx, s sink) {
	n1, nW, nR, _, _, _ := sizes(c)
	runM1(c, s, 0, n1)
	runM2Raw(c, s, "m2rawW", 0, nW)
	runM2Raw(c, s, "m2rawR", 0, nR)
	runM2Fault(c, s, 0, nFault(c))
	n6w, n6r := nM6(c)
	runM6(c, s, 0, n6w, 0, n6r)
}

func runRaceChild(c *verdict.Ctx) int {
	out := os.Getenv(stageOutEnv)
	rec := newRecorder()
	runM12(c, rec, true)
	b, err := json.Marshal(rec)
	if err != nil {
		fmt.Fprintln(os.Stderr, "c16 race child: marshal:", err)
		return 2
	}
	if err := os.WriteFile(out, b, 0o644); err != nil {
		fmt.Fprintln(os.Stderr, "c16 race child: write:", err)
		return 2
	}
	return 0
}

// startRaceStage starts the race-built child for the M1/M2 share; the returned
// function waits for it and merges what it observed.  Without a race build the
// whole of M1/M2 runs here and nil is returned.
func startRaceStage(c *verdict.Ctx) (wait func()) {
	bin := os.Getenv("VERIF_RACE_BIN")
	if bin != "" {
		if _, err := os.Stat(bin); err != nil {
			bin = ""
		}
	}
	if bin == "" || os.Getenv("VERIF_C16_NORACE") != "" {
		c.Set("race_stage", "in-process without -race (no $VERIF_RACE_BIN)")
		c.Count("race_stage_without_race_detector", 1)
		runM12All(c, c)
		return nil
	}
	tmp := verdict.TmpDir("c16-")
	out := filepath.Join(tmp, "stage.json")
	cmd := exec.Command(bin, "--tier", c.Tier, c.ID)
	env := []string{}
	for _, e := range os.Environ() {
		if strings.HasPrefix(e, "GORACE=") || strings.HasPrefix(e, stageEnv+"=") || strings.HasPrefix(e, stageOutEnv+"=") || strings.HasPrefix(e, "VERIF_SEED=") {
			continue
		}
		env = append(env, e)
	}
	env = append(env,
		"GORACE=halt_on_error=0 exitcode=0 log_path="+filepath.Join(tmp, "race"),
		stageEnv+"=race", stageOutEnv+"="+out,
		fmt.Sprintf("VERIF_SEED=%d", c.Seed))
	cmd.Env = env
	cmd.Stdout = os.Stderr
	cmd.Stderr = os.Stderr
	start := time.Now()
	if err := cmd.Start(); err != nil {
		os.RemoveAll(tmp)
		c.HarnessError("race stage cannot start %s: %v", bin, err)
		return func() {}
	}
	return func() {
		defer os.RemoveAll(tmp)
		err := cmd.Wait()
		r1, rW, rR := raceShare(c)
		c.Set("race_stage", fmt.Sprintf("M1/M2 cases [0,%d) [0,%d) [0,%d) plus the M2 fault and M6 concurrent-use shares in %s under -race, %.1fs (concurrently with M3..M5)", r1, rW, rR, filepath.Base(bin), time.Since(start).Seconds()))
		b, rerr := os.ReadFile(out)
		if err != nil || rerr != nil {
			c.HarnessError("race stage failed: run=%v read=%v", err, rerr)
			return
		}
		rec := newRecorder()
		if err := json.Unmarshal(b, rec); err != nil {
			c.HarnessError("race stage output unreadable: %v", err)
			return
		}
		rec.mergeInto(c)
		// race reports: diagnostics only
		var reports int64
		var first string
		logs, _ := filepath.Glob(filepath.Join(tmp, "race*"))
		for _, f := range logs {
			lb, err := os.ReadFile(f)
			if err != nil {
				continue
			}
			n := strings.Count(string(lb), "WARNING: DATA RACE")
			reports += int64(n)
			if n > 0 && first == "" {
				first = string(lb)
				if len(first) > 3000 {
					first = first[:3000]
				}
			}
		}
		c.Count("race_reports", reports)
		if first != "" {
			c.Set("race_report_first", first)
		}
	}
}

type replayHead struct {
	Monitor string `json:"monitor"`
	Stream  string `json:"stream"`
	Case    int    `json:"case"`
}

func runReplay(c *verdict.Ctx, path string) int {
	var h replayHead
	if err := verdict.LoadReplay(path, &h); err != nil {
		c.HarnessError("cannot load replay %s: %v", path, err)
		return c.Finish(0)
	}
	switch h.Monitor {
	case "m1":
		m1Case(c, c, h.Case)
	case "m2raw":
		m2RawCase(c, c, h.Stream, h.Case)
	case "m2fault":
		m2FaultCase(c, c, h.Case)
	case "m6w":
		m6WCase(c, c, h.Case)
	case "m6r":
		m6RCase(c, c, h.Case)
	case "m3":
		m3Case(c, c, h.Case)
	case "m4":
		m4Case(c, c, h.Case)
	case "m5":
		m5Case(c, c, h.Case)
	default:
		c.HarnessError("unknown monitor %q in replay file", h.Monitor)
	}
	return c.Finish(0)
}
