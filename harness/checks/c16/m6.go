package c16

// M6: several goroutines use the SAME SecretConnection concurrently.
//
// (W) 2..4 writers on one connection, each Write one self-describing message
// (writer id, sequence number, length, fill pattern, CRC), many of them larger
// than one 1024-byte frame, over a slow and bounded transport (Write yields,
// naps, and blocks while the queue is full).  The single reader on the other
// end parses the byte stream.  Oracle: the stream is a concatenation of WHOLE
// messages -- every Write call's bytes arrive contiguous and unmodified, each
// writer's messages in its own order; any interleaving of whole messages of
// different writers is fine; no read error before the clean end; the send
// counter read by a writer after its Write is strictly larger than before it
// by at least its own frames, and ends at 1 + all frames.
//
// (R) one writer, 2..4 concurrent readers on the same connection with their
// own buffer sizes.  Oracle: the segments the readers obtained tile the stream
// exactly -- every byte delivered once, none twice, none altered.  The stream
// is position-coded (each byte carries its index mod 4 and six bits of its
// word number) so that a segment of >= 7 bytes names its own offset.

import (
	"encoding/binary"
	"fmt"
	"hash/crc32"
	"io"
	"math/rand"
	"sort"
	"sync"
	"sync/atomic"
	"time"

	"verif/verdict"
)

func nM6(c *verdict.Ctx) (w, r int) { return c.N(60, 2400), c.N(40, 1600) }

// rM6 is the leading share that runs in the race-built child.
func rM6(c *verdict.Ctx) (w, r int) {
	if !c.Thorough() {
		return nM6(c)
	}
	return 300, 200
}

const m6Header = 9 // writer id (1) + sequence (4) + total length (4); + CRC32 (4) at the end
const m6Min = m6Header + 4

// m6Message builds the message (writer, seq) of the given total length.
func m6Message(writer byte, seq uint32, length int) []byte {
	m := make([]byte, length)
	m[0] = writer
	binary.BigEndian.PutUint32(m[1:], seq)
	binary.BigEndian.PutUint32(m[5:], uint32(length))
	x := uint32(writer)*2654435761 + seq*40503 + 17
	for i := m6Header; i < length-4; i++ {
		x = x*1664525 + 1013904223
		m[i] = byte(x >> 24)
	}
	binary.BigEndian.PutUint32(m[length-4:], crc32.ChecksumIEEE(m[:length-4]))
	return m
}

var m6BigSizes = []int{1025, 2048, 3172, 10000, 1024, 2049, 4096, 5000}

type m6WPlan struct {
	Writers  int     `json:"writers"`
	Sizes    [][]int `json:"message_sizes_per_writer"`
	Reads    []int   `json:"read_buffer_sizes"`
	Limit    int     `json:"transport_queue_limit_bytes"`
	NapEvery int     `json:"transport_naps_every_nth_write"`
	NapUS    int     `json:"nap_microseconds"`
	Yields   int     `json:"yields_per_transport_write"`
	Duplex   bool    `json:"other_direction_busy_too"`
}

func genM6W(r *rand.Rand) m6WPlan {
	p := m6WPlan{Writers: 2 + r.Intn(3)}
	for w := 0; w < p.Writers; w++ {
		n := 50 + r.Intn(151)
		sz := make([]int, n)
		for i := range sz {
			switch r.Intn(10) {
			case 0, 1, 2, 3:
				sz[i] = m6BigSizes[r.Intn(len(m6BigSizes))]
			case 4, 5:
				sz[i] = 1025 + r.Intn(4000)
			default:
				sz[i] = m6Min + r.Intn(300)
			}
		}
		p.Sizes = append(p.Sizes, sz)
	}
	for i, n := 0, 1+r.Intn(5); i < n; i++ {
		if r.Intn(3) == 0 {
			p.Reads = append(p.Reads, 1+r.Intn(100))
		} else {
			p.Reads = append(p.Reads, 1+r.Intn(6000))
		}
	}
	p.Limit = []int{2 * frameSealed, 4 * frameSealed, 16 * frameSealed, 0}[r.Intn(4)]
	p.NapEvery = []int{0, 7, 23, 61}[r.Intn(4)]
	p.NapUS = 20 + r.Intn(180)
	p.Yields = r.Intn(3)
	p.Duplex = r.Intn(2) == 0
	return p
}

func runM6(c *verdict.Ctx, s sink, loW, hiW, loR, hiR int) {
	parallel(hiW-loW, workers()/2, func(i int) { m6WCase(c, s, loW+i) })
	parallel(hiR-loR, workers()/2, func(i int) { m6RCase(c, s, loR+i) })
}

// m6Parser consumes the reader's byte stream message by message.
type m6Parser struct {
	writers int
	next    []uint32
	buf     []byte
	off     int64 // stream offset of buf[0]
	msgs    int64
	runs    int64 // changes of writer between consecutive messages
	last    int
}

// feed returns a description of the first thing that is not a whole message.
func (p *m6Parser) feed(b []byte) string {
	p.buf = append(p.buf, b...)
	for len(p.buf) >= m6Header {
		w := int(p.buf[0])
		seq := binary.BigEndian.Uint32(p.buf[1:])
		l := int(binary.BigEndian.Uint32(p.buf[5:]))
		if w >= p.writers || l < m6Min || l > 1<<20 {
			return fmt.Sprintf("at stream offset %d a message should start but the header reads writer=%d seq=%d length=%d", p.off, w, seq, l)
		}
		if seq != p.next[w] {
			return fmt.Sprintf("at stream offset %d: writer %d message seq %d, expected %d (lost, repeated or reordered Write)", p.off, w, seq, p.next[w])
		}
		if len(p.buf) < l {
			return ""
		}
		want := m6Message(byte(w), seq, l)
		for i := range want {
			if p.buf[i] != want[i] {
				return fmt.Sprintf("message writer=%d seq=%d len=%d starting at stream offset %d: byte %d of it is %#x, the writer wrote %#x -- the Write call's bytes are not contiguous (frame boundary at multiples of 1024: %d)", w, seq, l, p.off, i, p.buf[i], want[i], i/frameDataMax*frameDataMax)
			}
		}
		p.next[w]++
		p.msgs++
		if w != p.last {
			p.runs++
			p.last = w
		}
		p.buf = p.buf[l:]
		p.off += int64(l)
	}
	return ""
}

func m6WCase(c *verdict.Ctx, s sink, idx int) {
	r := c.Rand("m6w", idx)
	kA, kB := keyFrom(r), keyFrom(r)
	plan := genM6W(r)
	a, b := NewPipe()
	if plan.Limit > 0 {
		a.SetWriteLimit(plan.Limit)
		b.SetWriteLimit(plan.Limit)
	}
	slowA := NewSlowConn(a, plan.NapEvery, time.Duration(plan.NapUS)*time.Microsecond, plan.Yields)
	slowB := NewSlowConn(b, plan.NapEvery, time.Duration(plan.NapUS)*time.Microsecond, plan.Yields)
	wd := newWatchdog(a, b)
	defer func() { a.Close(); b.Close() }()
	s.Eval()

	var vmu sync.Mutex
	reported := false
	viol := func(key, what string, det map[string]interface{}) {
		vmu.Lock()
		defer vmu.Unlock()
		if reported || atomic.LoadInt32(&wd.fired) == 1 {
			return
		}
		reported = true
		if det == nil {
			det = map[string]interface{}{}
		}
		small := plan
		small.Sizes = nil
		det["plan"] = small
		det["note"] = what
		s.Violation(key, what, witness{"m6w", "m6w", idx, det})
		a.Close() // unblock writers stuck on the bounded transport
		b.Close()
	}

	ha, hb := realHandshake(slowA, kA), realHandshake(slowB, kB)
	ra, rb := <-ha, <-hb
	if ra.err != nil || rb.err != nil {
		if wd.stop() {
			s.Inconclusive("m6w: watchdog during handshake")
			return
		}
		s.HarnessError("m6w case %d: honest handshake failed: a=%v b=%v", idx, ra.err, rb.err)
		return
	}

	// one direction: sc -> peer, `writers` goroutines on sc, one reader on peer
	type dirRes struct{ msgs, runs, frames, bytes int64 }
	runDir := func(name string, sizesPer [][]int, wsc, rsc interface {
		io.ReadWriter
		VerifSendNonce() [12]byte
		VerifRecvNonce() [12]byte
	}, closeWrite func()) dirRes {
		var res dirRes
		var wg sync.WaitGroup
		for w := range sizesPer {
			for _, l := range sizesPer[w] {
				res.frames += int64((l + frameDataMax - 1) / frameDataMax)
				res.bytes += int64(l)
			}
		}
		for w := range sizesPer {
			wg.Add(1)
			go func(w int) {
				defer wg.Done()
				defer func() {
					if x := recover(); x != nil {
						viol("m6/concurrent-write-panic", fmt.Sprintf("%s: Write panicked while %d goroutines wrote to the same connection: %v", name, len(sizesPer), x), nil)
					}
				}()
				for seq, l := range sizesPer[w] {
					m := m6Message(byte(w), uint32(seq), l)
					before, _ := ctrOf(wsc.VerifSendNonce())
					n, err := wsc.Write(m)
					if err != nil || n != l {
						viol("m6/concurrent-write-error", fmt.Sprintf("%s: writer %d Write #%d of %d bytes returned n=%d err=%v on an open link", name, w, seq, l, n, err), nil)
						return
					}
					after, okp := ctrOf(wsc.VerifSendNonce())
					own := uint64((l + frameDataMax - 1) / frameDataMax)
					if !okp || after < before+own {
						viol("m6/concurrent-write-nonce", fmt.Sprintf("%s: writer %d Write #%d (%d bytes = %d frames): send counter %d before, %d after (prefix zero=%v); it must have advanced by at least the writer's own frames", name, w, seq, l, own, before, after, okp), nil)
						return
					}
				}
			}(w)
		}
		rdone := make(chan struct{})
		go func() {
			defer close(rdone)
			defer func() {
				if x := recover(); x != nil {
					viol("m6/concurrent-write-panic", fmt.Sprintf("%s: the reader's Read panicked: %v", name, x), nil)
				}
			}()
			p := &m6Parser{writers: len(sizesPer), next: make([]uint32, len(sizesPer)), last: -1}
			buf := make([]byte, 6001)
			for i := 0; ; i++ {
				n, err := rsc.Read(buf[:plan.Reads[i%len(plan.Reads)]])
				if n > 0 {
					if bad := p.feed(buf[:n]); bad != "" {
						viol("m6/concurrent-write-interleaved", name+": "+bad, map[string]interface{}{"messages_parsed_before": p.msgs})
						return
					}
				}
				if err != nil {
					complete := len(p.buf) == 0
					for w := range sizesPer {
						if int(p.next[w]) != len(sizesPer[w]) {
							complete = false
						}
					}
					if err != io.EOF || !complete {
						viol("m6/concurrent-write-reader-error", fmt.Sprintf("%s: reader got %q after %d whole messages (%d bytes pending); writers sent %d messages", name, err, p.msgs, len(p.buf), func() (t int) {
							for _, x := range sizesPer {
								t += len(x)
							}
							return
						}()), nil)
						return
					}
					res.msgs, res.runs = p.msgs, p.runs
					rc, okp := ctrOf(rsc.VerifRecvNonce())
					if !okp || rc != uint64(1+res.frames) {
						viol("m6/concurrent-write-nonce", fmt.Sprintf("%s: receive counter at the end is %d, want 1 + %d frames", name, rc, res.frames), nil)
					}
					return
				}
			}
		}()
		wg.Wait()
		sc, okp := ctrOf(wsc.VerifSendNonce())
		vmu.Lock()
		rep := reported
		vmu.Unlock()
		if !rep && (!okp || sc != uint64(1+res.frames)) {
			viol("m6/concurrent-write-nonce", fmt.Sprintf("%s: send counter after all writers finished is %d (prefix zero=%v), want 1 + %d frames", name, sc, okp, res.frames), nil)
		}
		closeWrite()
		<-rdone
		return res
	}

	var resAB, resBA dirRes
	var dwg sync.WaitGroup
	dwg.Add(1)
	go func() { defer dwg.Done(); resAB = runDir("a->b", plan.Sizes, ra.sc, rb.sc, func() { a.CloseWrite() }) }()
	if plan.Duplex {
		// the other direction carries its own concurrent writers (same plan, rotated)
		rot := append(append([][]int{}, plan.Sizes[1:]...), plan.Sizes[0])
		dwg.Add(1)
		go func() { defer dwg.Done(); resBA = runDir("b->a", rot, rb.sc, ra.sc, func() { b.CloseWrite() }) }()
	}
	dwg.Wait()
	if wd.stop() {
		s.Inconclusive("m6w: watchdog")
		return
	}
	vmu.Lock()
	rep := reported
	vmu.Unlock()
	if rep {
		return
	}
	s.Count("m6w_cases_held", 1)
	s.Count("m6w_messages_whole_and_in_writer_order", resAB.msgs+resBA.msgs)
	s.Count("m6w_frames", resAB.frames+resBA.frames)
	s.Count("m6w_bytes", resAB.bytes+resBA.bytes)
	s.Count("m6w_writer_switches_seen_by_reader", resAB.runs+resBA.runs)
	s.Count("m6w_writer_goroutines", int64(plan.Writers))
	s.Distinct("m6w", plan.Writers, fmt.Sprint(plan.Sizes[0][:8]), fmt.Sprint(plan.Reads), plan.Limit, plan.NapEvery, plan.Duplex)
	if idx == 0 && s.WantSample() {
		small := plan
		small.Sizes = [][]int{plan.Sizes[0][:10]}
		s.Sample(map[string]interface{}{"monitor": "m6w", "case": idx, "plan_first_writer_first_10": small, "messages": resAB.msgs + resBA.msgs, "writer_switches": resAB.runs + resBA.runs})
	}
}

// ---------------------------------------------------------------- concurrent readers

func posByte(i int64) byte {
	w, k := uint32(i/4), uint(i%4)
	return byte(k<<6) | byte((w>>(6*(3-k)))&0x3f)
}

// decodeOffset finds the stream offset a segment names, if it contains one
// complete 4-byte word.
func decodeOffset(seg []byte) (int64, bool) {
	for i := 0; i+4 <= len(seg); i++ {
		if seg[i]>>6 != 0 {
			continue
		}
		if seg[i+1]>>6 != 1 || seg[i+2]>>6 != 2 || seg[i+3]>>6 != 3 {
			return 0, false // malformed: treated as undecodable, judged by content match below
		}
		w := uint32(seg[i]&0x3f)<<18 | uint32(seg[i+1]&0x3f)<<12 | uint32(seg[i+2]&0x3f)<<6 | uint32(seg[i+3]&0x3f)
		return int64(w)*4 - int64(i), true
	}
	return 0, false
}

func matchesAt(seg []byte, off, total int64) bool {
	if off < 0 || off+int64(len(seg)) > total {
		return false
	}
	for i := range seg {
		if seg[i] != posByte(off+int64(i)) {
			return false
		}
	}
	return true
}

type m6RPlan struct {
	Readers int     `json:"readers"`
	Bufs    [][]int `json:"read_buffer_sizes_per_reader"`
	Writes  []int   `json:"write_sizes"`
	Limit   int     `json:"transport_queue_limit_bytes"`
	Yields  int     `json:"yields_per_transport_write"`
}

type segment struct {
	reader int
	data   []byte
}

// tileExactly decides whether the segments, in some order, are exactly the
// position-coded stream of the given length.  Returns "" or what is wrong.
func tileExactly(segs []segment, total int64) string {
	var sum int64
	for _, sg := range segs {
		sum += int64(len(sg.data))
	}
	type placed struct {
		off int64
		sg  segment
	}
	var fixed []placed
	var loose []segment
	for _, sg := range segs {
		if len(sg.data) == 0 {
			continue
		}
		if off, ok := decodeOffset(sg.data); ok {
			if !matchesAt(sg.data, off, total) {
				return fmt.Sprintf("reader %d obtained %d bytes %x… that name stream offset %d but are not the stream's bytes there (altered or torn)", sg.reader, len(sg.data), head(sg.data), off)
			}
			fixed = append(fixed, placed{off, sg})
		} else {
			loose = append(loose, sg)
		}
	}
	sort.Slice(fixed, func(i, j int) bool { return fixed[i].off < fixed[j].off })
	var gaps []m6gap
	pos := int64(0)
	for _, f := range fixed {
		if f.off < pos {
			return fmt.Sprintf("stream bytes [%d,%d) were delivered twice (reader %d got [%d,%d))", f.off, min64(pos, f.off+int64(len(f.sg.data))), f.sg.reader, f.off, f.off+int64(len(f.sg.data)))
		}
		if f.off > pos {
			gaps = append(gaps, m6gap{pos, f.off})
		}
		pos = f.off + int64(len(f.sg.data))
	}
	if pos < total {
		gaps = append(gaps, m6gap{pos, total})
	}
	// short segments must fill the gaps exactly (complete backtracking search;
	// there are only a handful of them)
	used := make([]bool, len(loose))
	var fill func(g int, at int64) bool
	steps := 0
	fill = func(g int, at int64) bool {
		steps++
		if steps > 200000 {
			return false
		}
		for g < len(gaps) && at == gaps[g].hi {
			g++
			if g < len(gaps) {
				at = gaps[g].lo
			}
		}
		if g == len(gaps) {
			for _, u := range used {
				if !u {
					return false
				}
			}
			return true
		}
		for i, sg := range loose {
			if used[i] || at+int64(len(sg.data)) > gaps[g].hi || !matchesAt(sg.data, at, total) {
				continue
			}
			used[i] = true
			if fill(g, at+int64(len(sg.data))) {
				return true
			}
			used[i] = false
		}
		return false
	}
	start := int64(0)
	if len(gaps) > 0 {
		start = gaps[0].lo
	}
	if len(loose) > 40 {
		// too many short segments for the exact search: judge by count only
		if sum != total {
			return fmt.Sprintf("readers obtained %d bytes in total, the writer wrote %d", sum, total)
		}
		return ""
	}
	ok := fill(0, start)
	if !ok && steps > 200000 {
		// search budget exhausted: undecided placement, judge by count only
		if sum != total {
			return fmt.Sprintf("readers obtained %d bytes in total, the writer wrote %d", sum, total)
		}
		return ""
	}
	if !ok {
		var gl int64
		for _, g := range gaps {
			gl += g.hi - g.lo
		}
		return fmt.Sprintf("readers obtained %d bytes in total, the writer wrote %d; %d stream bytes in %d gaps (first [%d,%d)) are not covered exactly once by the %d short segments", sum, total, gl, len(gaps), firstGap(gaps, 0), firstGap(gaps, 1), len(loose))
	}
	return ""
}

type m6gap struct{ lo, hi int64 }

func firstGap(g []m6gap, which int) int64 {
	if len(g) == 0 {
		return -1
	}
	if which == 0 {
		return g[0].lo
	}
	return g[0].hi
}

func head(b []byte) []byte {
	if len(b) > 12 {
		return b[:12]
	}
	return b
}

func min64(a, b int64) int64 {
	if a < b {
		return a
	}
	return b
}

func m6RCase(c *verdict.Ctx, s sink, idx int) {
	r := c.Rand("m6r", idx)
	kA, kB := keyFrom(r), keyFrom(r)
	plan := m6RPlan{Readers: 2 + r.Intn(3)}
	for i := 0; i < plan.Readers; i++ {
		var bs []int
		for j, n := 0, 1+r.Intn(4); j < n; j++ {
			switch r.Intn(4) {
			case 0:
				bs = append(bs, 8+r.Intn(60))
			case 1:
				bs = append(bs, []int{1023, 1024, 1025, 512}[r.Intn(4)])
			default:
				bs = append(bs, 8+r.Intn(3000))
			}
		}
		plan.Bufs = append(plan.Bufs, bs)
	}
	var total int64
	for i, n := 0, 20+r.Intn(100); i < n; i++ {
		var w int
		switch r.Intn(4) {
		case 0:
			w = m6BigSizes[r.Intn(len(m6BigSizes))]
		case 1:
			w = 1 + r.Intn(5000)
		default:
			w = 1 + r.Intn(400)
		}
		plan.Writes = append(plan.Writes, w)
		total += int64(w)
	}
	plan.Limit = []int{2 * frameSealed, 8 * frameSealed, 0}[r.Intn(3)]
	plan.Yields = r.Intn(3)
	stream := make([]byte, total)
	for i := range stream {
		stream[i] = posByte(int64(i))
	}

	a, b := NewPipe()
	if plan.Limit > 0 {
		a.SetWriteLimit(plan.Limit)
	}
	slowA := NewSlowConn(a, 13, 50*time.Microsecond, plan.Yields)
	wd := newWatchdog(a, b)
	defer func() { a.Close(); b.Close() }()
	s.Eval()
	viol := func(key, what string, det map[string]interface{}) {
		if det == nil {
			det = map[string]interface{}{}
		}
		det["plan"] = plan
		det["note"] = what
		s.Violation(key, what, witness{"m6r", "m6r", idx, det})
	}
	ha, hb := realHandshake(slowA, kA), realHandshake(b, kB)
	ra, rb := <-ha, <-hb
	if ra.err != nil || rb.err != nil {
		if wd.stop() {
			s.Inconclusive("m6r: watchdog during handshake")
			return
		}
		s.HarnessError("m6r case %d: honest handshake failed: a=%v b=%v", idx, ra.err, rb.err)
		return
	}
	var mu sync.Mutex
	var segs []segment
	var readErrs, panics []string
	var wg sync.WaitGroup
	for rd := 0; rd < plan.Readers; rd++ {
		wg.Add(1)
		go func(rd int) {
			defer wg.Done()
			defer func() {
				if x := recover(); x != nil {
					mu.Lock()
					panics = append(panics, fmt.Sprintf("reader %d: %v", rd, x))
					mu.Unlock()
					b.Close()
				}
			}()
			buf := make([]byte, 3100)
			var mine []segment
			for i := 0; ; i++ {
				n, err := rb.sc.Read(buf[:plan.Bufs[rd][i%len(plan.Bufs[rd])]])
				if n > 0 {
					mine = append(mine, segment{rd, append([]byte{}, buf[:n]...)})
				}
				if err != nil {
					mu.Lock()
					segs = append(segs, mine...)
					if err != io.EOF && err != io.ErrClosedPipe { // closed pipe: the harness hung up after another reader's error
						readErrs = append(readErrs, fmt.Sprintf("reader %d: %v", rd, err))
					}
					mu.Unlock()
					if err != io.EOF {
						b.Close() // nobody may be left to drain the bounded transport
					}
					return
				}
			}
		}(rd)
	}
	var off int64
	var werr string
	for i, w := range plan.Writes {
		n, err := ra.sc.Write(stream[off : off+int64(w)])
		if err != nil || n != w {
			werr = fmt.Sprintf("Write #%d of %d bytes returned n=%d err=%v", i, w, n, err)
			break
		}
		off += int64(w)
	}
	a.CloseWrite()
	wg.Wait()
	if wd.stop() {
		s.Inconclusive("m6r: watchdog")
		return
	}
	if len(panics) > 0 {
		viol("m6/concurrent-read-panic", fmt.Sprintf("Read panicked while several goroutines read the same connection: %v", panics), nil)
		return
	}
	if len(readErrs) > 0 {
		viol("m6/concurrent-read-error", fmt.Sprintf("concurrent readers on an untouched link: %v", readErrs), nil)
		return
	}
	if werr != "" {
		viol("m1/write-result", werr, nil)
		return
	}
	if bad := tileExactly(segs, total); bad != "" {
		viol("m6/concurrent-read-not-exactly-once", bad, map[string]interface{}{"segments": len(segs), "stream_bytes": total})
		return
	}
	perReader := make([]int, plan.Readers)
	short := 0
	for _, sg := range segs {
		perReader[sg.reader]++
		if len(sg.data) < 7 {
			short++
		}
	}
	active := 0
	for _, n := range perReader {
		if n > 0 {
			active++
		}
	}
	s.Count("m6r_cases_held", 1)
	s.Count("m6r_segments_tiling_the_stream", int64(len(segs)))
	s.Count("m6r_short_segments_placed_by_search", int64(short))
	s.Count("m6r_bytes", total)
	s.Count("m6r_reader_goroutines", int64(plan.Readers))
	if active >= 2 {
		s.Count("m6r_cases_with_two_or_more_readers_getting_data", 1)
	}
	s.Distinct("m6r", plan.Readers, fmt.Sprint(plan.Bufs), fmt.Sprint(plan.Writes[:8]), plan.Limit)
	if idx == 0 && s.WantSample() {
		small := plan
		small.Writes = plan.Writes[:8]
		s.Sample(map[string]interface{}{"monitor": "m6r", "case": idx, "plan_first_8_writes": small, "segments": len(segs), "per_reader_segments": perReader})
	}
}
