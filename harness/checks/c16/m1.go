package c16

// M1 stream integrity and M2 nonce discipline.

import (
	"bytes"
	"encoding/binary"
	"fmt"
	"io"
	"math/rand"
	"os"
	"runtime"
	"sync"
	"sync/atomic"
	"time"

	"github.com/tendermint/tendermint/crypto"
	"github.com/tendermint/tendermint/crypto/ed25519"
	"github.com/tendermint/tendermint/p2p/conn"

	"verif/verdict"
)

func keyFrom(r *rand.Rand) crypto.PrivKey {
	s := make([]byte, 32)
	r.Read(s)
	return ed25519.GenPrivKeyFromSecret(s)
}

type hsResult struct {
	sc  *conn.SecretConnection
	err error
}

// realHandshake runs the real MakeSecretConnection in a goroutine.
func realHandshake(e io.ReadWriteCloser, k crypto.PrivKey) <-chan hsResult {
	ch := make(chan hsResult, 1)
	go func() {
		sc, err := conn.MakeSecretConnection(e, k)
		ch <- hsResult{sc, err}
	}()
	return ch
}

// watchdog closes the ends when the case takes absurdly long.
type watchdog struct {
	t     *time.Timer
	fired int32
}

func newWatchdog(ends ...io.Closer) *watchdog {
	w := &watchdog{}
	w.t = time.AfterFunc(caseTimeout, func() {
		atomic.StoreInt32(&w.fired, 1)
		if os.Getenv("VERIF_C16_DEBUG") != "" {
			buf := make([]byte, 1<<20)
			os.Stderr.Write(buf[:runtime.Stack(buf, true)])
		}
		for _, e := range ends {
			e.Close()
		}
	})
	return w
}
func (w *watchdog) stop() bool { w.t.Stop(); return atomic.LoadInt32(&w.fired) == 1 }

var specialSizes = []int{0, 1, 2, 1023, 1024, 1025, 2047, 2048, 2049, 3072, 4096, 5000}

type dirPlan struct {
	Writes []int `json:"write_sizes"`
	Reads  []int `json:"read_buffer_sizes"`
	data   []byte
}

func genDirPlan(r *rand.Rand, allowZeroBuf bool) dirPlan {
	var total int
	switch r.Intn(8) {
	case 0:
		total = r.Intn(64)
	case 1, 2, 3:
		total = r.Intn(4000)
	case 4, 5, 6:
		total = r.Intn(20000)
	default:
		total = r.Intn(60000)
	}
	p := dirPlan{}
	sum := 0
	for sum < total || len(p.Writes) == 0 {
		var w int
		switch r.Intn(5) {
		case 0:
			w = specialSizes[r.Intn(len(specialSizes))]
		case 1:
			w = r.Intn(64)
		default:
			w = r.Intn(5001)
		}
		p.Writes = append(p.Writes, w)
		sum += w
	}
	nr := 1 + r.Intn(12)
	mode := r.Intn(4)
	for i := 0; i < nr; i++ {
		var b int
		switch mode {
		case 0:
			b = 1 + r.Intn(3000)
		case 1:
			b = 1 + r.Intn(40)
		case 2:
			b = []int{1, 1023, 1024, 1025, 2048, 3000}[r.Intn(6)]
		default:
			b = 1 + r.Intn(3000)
			if allowZeroBuf && r.Intn(6) == 0 {
				b = 0
			}
		}
		p.Reads = append(p.Reads, b)
	}
	if p.Reads[0] == 0 { // a plan of only zero-length buffers would never progress
		p.Reads = append(p.Reads, 1+r.Intn(3000))
	}
	if sum < 200 { // tiny buffers over long streams cost a lot and add nothing
	} else if mode == 1 && sum > 8000 {
		for i := range p.Reads {
			p.Reads[i] += 200
		}
	}
	p.data = make([]byte, sum)
	r.Read(p.data) // PRNG stream: any loss, duplication or reorder changes it
	return p
}

// frameTable returns, for the frames a spec-conforming writer produces for the
// given write sizes, the stream offset at which each frame starts.
func frameStarts(writes []int) (starts []int, total int) {
	for _, w := range writes {
		for w > 0 {
			n := w
			if n > frameDataMax {
				n = frameDataMax
			}
			starts = append(starts, total)
			total += n
			w -= n
		}
	}
	return
}

func ctrOf(n [12]byte) (uint64, bool) {
	return binary.LittleEndian.Uint64(n[4:]), n[0] == 0 && n[1] == 0 && n[2] == 0 && n[3] == 0
}

type m1Detail struct {
	Dir     string  `json:"direction"`
	AB      dirPlan `json:"a_to_b"`
	BA      dirPlan `json:"b_to_a"`
	At      int     `json:"stream_offset"`
	WriteIx int     `json:"write_index,omitempty"`
	Note    string  `json:"note"`
}

// writeSide performs the planned writes on sc and checks the send counter.
// Returns the number of violations reported.
func writeSide(s sink, sc *conn.SecretConnection, p dirPlan, written *int64, report func(key, what string, at, wix int)) {
	prev, ok := ctrOf(sc.VerifSendNonce())
	if !ok || prev != 1 {
		report("m2/send-nonce-after-handshake", fmt.Sprintf("send counter after the handshake is %d (prefix zero=%v); the auth frame used nonce 0, so the first data frame must use 1", prev, ok), 0, 0)
	}
	off := 0
	for i, w := range p.Writes {
		atomic.StoreInt64(written, int64(off+w))
		n, err := sc.Write(p.data[off : off+w])
		if err != nil || n != w {
			report("m1/write-result", fmt.Sprintf("Write of %d bytes returned n=%d err=%v on an open connection", w, n, err), off, i)
			return
		}
		off += w
		cur, ok := ctrOf(sc.VerifSendNonce())
		want := prev + uint64((w+frameDataMax-1)/frameDataMax)
		if !ok || cur != want {
			report("m2/send-nonce-step", fmt.Sprintf("after Write(%d bytes) the send counter went %d -> %d (prefix zero=%v), want %d", w, prev, cur, ok, want), off, i)
			return
		}
		s.Count("m2_send_nonce_checks", 1)
		prev = cur
	}
}

// readSide reads until error and checks prefix / nonce properties.
func readSide(s sink, sc *conn.SecretConnection, p dirPlan, written *int64, explicitFrames []int, report func(key, what string, at, wix int)) {
	starts, total := frameStarts(p.Writes)
	_ = total
	prev, ok := ctrOf(sc.VerifRecvNonce())
	if !ok || prev != 1 {
		report("m2/recv-nonce-after-handshake", fmt.Sprintf("receive counter after the handshake is %d (prefix zero=%v), want 1", prev, ok), 0, 0)
	}
	R := 0
	fi := 0 // frames (of starts) whose first byte is < R  ... maintained lazily
	var maxBuf int
	for _, b := range p.Reads {
		if b > maxBuf {
			maxBuf = b
		}
	}
	buf := make([]byte, maxBuf+1)
	zeroReadSinceProgress := false
	for i := 0; ; i++ {
		b := p.Reads[i%len(p.Reads)]
		n, err := sc.Read(buf[:b])
		if n < 0 || n > b {
			report("m1/read-count", fmt.Sprintf("Read with a %d-byte buffer returned n=%d", b, n), R, i)
			return
		}
		if n > 0 {
			if R+n > len(p.data) || !bytes.Equal(buf[:n], p.data[R:R+n]) {
				report("m1/stream-mismatch", fmt.Sprintf("bytes read at stream offset %d (n=%d) are not the bytes written there (stream length %d)", R, n, len(p.data)), R, i)
				return
			}
			if int64(R+n) > atomic.LoadInt64(written) {
				report("m1/read-before-write", fmt.Sprintf("read up to offset %d while only %d bytes had been handed to Write", R+n, atomic.LoadInt64(written)), R, i)
				return
			}
			R += n
			zeroReadSinceProgress = false
		}
		if err != nil {
			if R != len(p.data) {
				report("m1/stream-short", fmt.Sprintf("reader got error %q after %d of %d bytes on an untouched link", err, R, len(p.data)), R, i)
				return
			}
			if err != io.EOF {
				s.Count("m1_end_error_not_eof", 1)
			}
			// all frames consumed exactly once
			cur, ok := ctrOf(sc.VerifRecvNonce())
			want := uint64(1 + len(starts))
			if explicitFrames != nil {
				want = uint64(1 + len(explicitFrames))
			}
			if !ok || cur != want {
				report("m2/recv-nonce-final", fmt.Sprintf("receive counter at end of stream is %d (prefix zero=%v), want %d = 1 + frames sent", cur, ok, want), R, i)
			}
			return
		}
		if b == 0 {
			zeroReadSinceProgress = true
		}
		// receive counter: one step per frame consumed, at most one frame per Read
		cur, ok := ctrOf(sc.VerifRecvNonce())
		if !ok || cur < prev || cur > prev+1 {
			report("m2/recv-nonce-step", fmt.Sprintf("one Read moved the receive counter %d -> %d (prefix zero=%v)", prev, cur, ok), R, i)
			return
		}
		prev = cur
		if explicitFrames == nil {
			for fi < len(starts) && starts[fi] < R {
				fi++
			}
			lo := uint64(1 + fi)
			hi := lo
			if zeroReadSinceProgress {
				hi = lo + 1
			}
			if cur < lo || cur > hi {
				report("m2/recv-nonce-vs-frames", fmt.Sprintf("after %d stream bytes (%d frames touched) the receive counter is %d, want %d..%d", R, fi, cur, lo, hi), R, i)
				return
			}
		}
		s.Count("m2_recv_nonce_checks", 1)
	}
}

func runM1(c *verdict.Ctx, s sink, lo, hi int) {
	parallel(hi-lo, workers(), func(i int) { m1Case(c, s, lo+i) })
}

func m1Case(c *verdict.Ctx, s sink, idx int) {
	r := c.Rand("m1", idx)
	kA, kB := keyFrom(r), keyFrom(r)
	ab := genDirPlan(r, true)
	ba := genDirPlan(r, true)
	a, b := NewPipe()
	// transparent interposers: count units so that the framing assumption
	// (1 ephemeral message, then 1044-byte frames) is itself observed
	var unitsAB, unitsBA int64
	a.Interpose(func(idx int, u []byte) Action { atomic.AddInt64(&unitsAB, 1); return Pass(u) })
	b.Interpose(func(idx int, u []byte) Action { atomic.AddInt64(&unitsBA, 1); return Pass(u) })
	wd := newWatchdog(a, b)
	s.Eval()

	var vmu sync.Mutex
	reported := false
	mk := func(dir string) func(key, what string, at, wix int) {
		return func(key, what string, at, wix int) {
			vmu.Lock()
			defer vmu.Unlock()
			if atomic.LoadInt32(&wd.fired) == 1 || reported {
				return
			}
			reported = true
			s.Violation(key, what, witness{"m1", "m1", idx, m1Detail{dir, ab, ba, at, wix, what}})
		}
	}

	ha, hb := realHandshake(a, kA), realHandshake(b, kB)
	ra, rb := <-ha, <-hb
	if ra.err != nil || rb.err != nil {
		if wd.stop() {
			s.Inconclusive("m1: watchdog during handshake")
			return
		}
		// The auth messages travel through the connection's own Write/Read.
		// Two real ends on an untouched link that cannot complete have not
		// "read exactly the bytes the other wrote".
		a.Close()
		b.Close()
		mk("handshake")("m1/clean-link-handshake-failed", fmt.Sprintf("two real ends over an untouched in-memory link did not establish: a: %v; b: %v", ra.err, rb.err), 0, 0)
		return
	}
	if !ra.sc.RemotePubKey().Equals(kB.PubKey()) || !rb.sc.RemotePubKey().Equals(kA.PubKey()) {
		mk("handshake")("m4/honest-remote-key-wrong", "honest handshake completed with a RemotePubKey that is not the peer's key", 0, 0)
	}
	var wAB, wBA int64
	var wg sync.WaitGroup
	wg.Add(4)
	go func() { defer wg.Done(); writeSide(s, ra.sc, ab, &wAB, mk("a->b write")); a.CloseWrite() }()
	go func() { defer wg.Done(); writeSide(s, rb.sc, ba, &wBA, mk("b->a write")); b.CloseWrite() }()
	go func() { defer wg.Done(); readSide(s, rb.sc, ab, &wAB, nil, mk("a->b read")) }()
	go func() { defer wg.Done(); readSide(s, ra.sc, ba, &wBA, nil, mk("b->a read")) }()
	wg.Wait()
	fired := wd.stop()
	a.Close()
	b.Close()
	if fired {
		s.Inconclusive("m1: watchdog")
		return
	}
	// framing assumption: 1 eph unit + 1 auth frame + data frames
	fa, _ := frameStarts(ab.Writes)
	fb, _ := frameStarts(ba.Writes)
	if !reported && (atomic.LoadInt64(&unitsAB) != int64(2+len(fa)) || atomic.LoadInt64(&unitsBA) != int64(2+len(fb))) {
		s.Count("m1_unexpected_unit_count", 1)
	}
	s.Count("m1_frames_crossed", int64(len(fa)+len(fb)))
	s.Count("m1_bytes_crossed", int64(len(ab.data)+len(ba.data)))
	if len(ab.data) > 0 && len(ba.data) > 0 {
		s.Distinct("m1", fmt.Sprint(ab.Writes), fmt.Sprint(ab.Reads), fmt.Sprint(ba.Writes), fmt.Sprint(ba.Reads))
	}
	if !reported {
		s.Count("m1_streams_equal", 2)
	}
	if idx == 0 && s.WantSample() {
		s.Sample(map[string]interface{}{"monitor": "m1", "case": idx, "a_to_b": ab, "b_to_a": ba, "result": "both streams read back equal, clean EOF"})
	}
}

// ---------------------------------------------------------------- M2 raw

type m2rawDetail struct {
	Mode   string  `json:"mode"`
	Frames []int   `json:"frame_data_lengths,omitempty"`
	Plan   dirPlan `json:"plan"`
	At     int     `json:"stream_offset"`
	Note   string  `json:"note"`
}

func runM2Raw(c *verdict.Ctx, s sink, stream string, lo, hi int) {
	parallel(hi-lo, workers(), func(i int) { m2RawCase(c, s, stream, lo+i) })
}

// m2RawCase: one side is the independent raw peer, so the harness knows the
// session keys and can (W) feed frames the real writer never produces
// (zero-length, short frames in any pattern) to the real reader, or (R) open
// every frame the real writer emits under the counter the spec prescribes.
func m2RawCase(c *verdict.Ctx, s sink, stream string, idx int) {
	r := c.Rand(stream, idx)
	kReal, kRaw := keyFrom(r), keyFrom(r)
	eph := make([]byte, 32)
	r.Read(eph)
	a, b := NewPipe() // a: real side, b: raw side
	wd := newWatchdog(a, b)
	defer func() { a.Close(); b.Close() }()
	s.Eval()
	hr := realHandshake(a, kReal)
	raw := newRawPeer(b, eph)
	pk, rerr := raw.handshake(kRaw)
	res := <-hr
	if rerr != nil || res.err != nil {
		if wd.stop() {
			s.Inconclusive("m2raw: watchdog during handshake")
			return
		}
		s.HarnessError("%s case %d: honest handshake raw<->real failed: raw=%v real=%v", stream, idx, rerr, res.err)
		return
	}
	if !pk.Equals(kReal.PubKey()) || !res.sc.RemotePubKey().Equals(kRaw.PubKey()) {
		s.Violation("m4/honest-remote-key-wrong", "honest raw<->real handshake completed with a wrong remote key", witness{"m2raw", stream, idx, nil})
	}
	s.Count("m2raw_interop_handshakes", 1)
	var vmu sync.Mutex
	reported := false

	if stream == "m2rawW" {
		// raw writer -> real reader
		nf := 1 + r.Intn(24)
		var frames []int
		plan := dirPlan{}
		zeroes := 0
		for i := 0; i < nf; i++ {
			var l int
			switch r.Intn(6) {
			case 0, 1:
				l = 0
			case 2:
				l = frameDataMax
			case 3:
				l = 1 + r.Intn(8)
			default:
				l = r.Intn(frameDataMax + 1)
			}
			if l == 0 {
				zeroes++
			}
			frames = append(frames, l)
			plan.Writes = append(plan.Writes, l)
		}
		nr := 1 + r.Intn(6)
		for i := 0; i < nr; i++ {
			plan.Reads = append(plan.Reads, 1+r.Intn(3000))
		}
		tot := 0
		for _, l := range frames {
			tot += l
		}
		plan.data = make([]byte, tot)
		r.Read(plan.data)
		report := func(key, what string, at, wix int) {
			vmu.Lock()
			defer vmu.Unlock()
			if atomic.LoadInt32(&wd.fired) == 1 || reported {
				return
			}
			reported = true
			s.Violation(key, what, witness{"m2raw", stream, idx, m2rawDetail{"raw writer -> real reader", frames, plan, at, what}})
		}
		written := int64(tot)
		done := make(chan struct{})
		go func() {
			defer close(done)
			readSide(s, res.sc, plan, &written, frames, report)
		}()
		off := 0
		for _, l := range frames {
			if err := raw.writeFrame(plan.data[off : off+l]); err != nil {
				break
			}
			off += l
		}
		b.CloseWrite()
		<-done
		if wd.stop() {
			s.Inconclusive("m2raw: watchdog")
			return
		}
		s.Count("m2raw_zero_length_frames_sent", int64(zeroes))
		s.Count("m2raw_frames_sent", int64(len(frames)))
		if !reported {
			s.Count("m2raw_writer_streams_equal", 1)
		}
		s.Distinct(stream, fmt.Sprint(frames), fmt.Sprint(plan.Reads))
		return
	}

	// real writer -> raw reader: every frame on the wire must open under
	// counter 1,2,3,... (0 was the auth frame) and carry the stream in order.
	plan := genDirPlan(r, false)
	report := func(key, what string, at, wix int) {
		vmu.Lock()
		defer vmu.Unlock()
		if atomic.LoadInt32(&wd.fired) == 1 || reported {
			return
		}
		reported = true
		s.Violation(key, what, witness{"m2raw", stream, idx, m2rawDetail{"real writer -> raw reader", nil, plan, at, what}})
	}
	var written int64
	done := make(chan struct{})
	go func() {
		defer close(done)
		writeSide(s, res.sc, plan, &written, report)
		a.CloseWrite()
	}()
	R := 0
	framesSeen := 0
	for {
		d, err := raw.readFrame()
		if err == errRawAuth {
			report("m2/wire-nonce-sequence", fmt.Sprintf("frame %d written by the real side does not open under counter nonce %d with the session key", framesSeen+1, raw.recvCtr), R, framesSeen)
			break
		}
		if err != nil {
			if R != len(plan.data) {
				report("m1/stream-short", fmt.Sprintf("raw reader: wire ended (%v) after %d of %d bytes", err, R, len(plan.data)), R, framesSeen)
			}
			break
		}
		framesSeen++
		if R+len(d) > len(plan.data) || !bytes.Equal(d, plan.data[R:R+len(d)]) {
			report("m1/stream-mismatch", fmt.Sprintf("raw reader: frame %d carries bytes that are not the stream at offset %d", framesSeen, R), R, framesSeen)
			break
		}
		R += len(d)
	}
	a.Close() // unblock the writer if we stopped early
	<-done
	if wd.stop() {
		s.Inconclusive("m2raw: watchdog")
		return
	}
	want, _ := frameStarts(plan.Writes)
	if !reported && framesSeen != len(want) {
		// more frames than ceil(len/1024) per write would still be a correct
		// stream; fewer is impossible.  Recorded, not judged.
		s.Count("m2raw_frame_count_differs_from_ceil", 1)
	}
	s.Count("m2raw_wire_frames_opened_in_sequence", int64(framesSeen))
	if !reported {
		s.Count("m2raw_reader_streams_equal", 1)
	}
	if len(plan.data) > 0 {
		s.Distinct(stream, fmt.Sprint(plan.Writes))
	}
}
