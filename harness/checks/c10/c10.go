// Package c10: block parts and Merkle proofs bind content to position.
// Differential monitor: the real merkle.Proof.Verify / TxProof.Validate /
// PartSet.AddPart are run on genuine and mutated inputs and every verdict is
// compared with ref.ProofOK / the byte-position predicate (DESIGN.md C10).
package c10

import (
	"bytes"
	"crypto/sha256"
	"fmt"
	tmcrypto "github.com/tendermint/tendermint/proto/tendermint/crypto"
	"io"
	"math/rand"
	"os"
	"sync"
	"sync/atomic"
	"time"

	abci "github.com/tendermint/tendermint/abci/types"
	"github.com/tendermint/tendermint/crypto/merkle"
	"github.com/tendermint/tendermint/types"

	"verif/ref"
	"verif/verdict"
)

type proofCase struct {
	Leaves []string `json:"leaves_hex"`
	Item   string   `json:"item_hex"`
	Index  int64    `json:"index"`
	Total  int64    `json:"total"`
	Leaf   string   `json:"leaf_hash_hex"`
	Aunts  []string `json:"aunts_hex"`
	Mut    string   `json:"mutation"`
	Real   string   `json:"real_verdict"`
	Ref    bool     `json:"ref_accepts"`
}

func hexs(bs [][]byte) []string {
	out := make([]string, len(bs))
	for i, b := range bs {
		out[i] = verdict.Hex(b)
	}
	return out
}

func cp(b []byte) []byte { return append([]byte{}, b...) }
func cps(bs [][]byte) [][]byte {
	out := make([][]byte, len(bs))
	for i := range bs {
		out[i] = cp(bs[i])
	}
	return out
}

type mutated struct {
	name         string
	item         []byte
	index, total int64
	leaf         []byte
	aunts        [][]byte
}

func genLeaves(r *rand.Rand) [][]byte {
	n := 1 + r.Intn(12)
	switch r.Intn(6) {
	case 0:
		n = 1 + r.Intn(3)
	case 1:
		n = 1 + r.Intn(70)
	}
	leaves := make([][]byte, n)
	dup := r.Intn(4) == 0
	for i := range leaves {
		l := r.Intn(12)
		if r.Intn(10) == 0 {
			l = 32 + r.Intn(40) // leaves that look like hashes / inner nodes
		}
		b := make([]byte, l)
		r.Read(b)
		if dup && i > 0 && r.Intn(3) == 0 {
			b = cp(leaves[r.Intn(i)])
		}
		leaves[i] = b
	}
	return leaves
}

// mutations of the genuine proof of leaves[i]
func mutations(r *rand.Rand, leaves [][]byte, i int, p *merkle.Proof, other *merkle.Proof, otherItem []byte) []mutated {
	n := int64(len(leaves))
	base := func(name string) mutated {
		return mutated{name, cp(leaves[i]), p.Index, p.Total, cp(p.LeafHash), cps(p.Aunts)}
	}
	var out []mutated
	out = append(out, base("genuine"))
	// index / total changes
	for _, d := range []int64{-1, 1, 2} {
		m := base(fmt.Sprintf("index%+d", d))
		m.index += d
		out = append(out, m)
		m = base(fmt.Sprintf("total%+d", d))
		m.total += d
		out = append(out, m)
		m = base(fmt.Sprintf("index%+d,total%+d", d, d))
		m.index += d
		m.total += d
		out = append(out, m)
	}
	{
		m := base("index,total random")
		m.total = 1 + r.Int63n(2*n+2)
		m.index = r.Int63n(m.total + 1)
		out = append(out, m)
		m = base("item nil (only the leaf hash held)")
		m.item = nil
		out = append(out, m)
		m = base("item empty")
		m.item = []byte{}
		out = append(out, m)
		m = base("index negative")
		m.index = -1 - r.Int63n(5)
		out = append(out, m)
		m = base("total negative")
		m.total = -1 - r.Int63n(5)
		out = append(out, m)
		m = base("total zero")
		m.total = 0
		out = append(out, m)
		m = base("huge")
		m.total = 1<<62 + r.Int63n(1<<20)
		m.index = r.Int63n(1 << 62)
		out = append(out, m)
		// every (index,total) with the same path shape, small totals
		sh, _ := ref.PathShape(p.Index, p.Total)
		for t := int64(1); t <= n+6 && t < 40; t++ {
			for ix := int64(0); ix < t; ix++ {
				if s, _ := ref.PathShape(ix, t); s == sh && !(ix == p.Index && t == p.Total) {
					m := base("index,total same-shape")
					m.index, m.total = ix, t
					out = append(out, m)
				}
			}
		}
	}
	// item / leaf hash
	{
		m := base("item other leaf")
		m.item = cp(leaves[r.Intn(len(leaves))])
		out = append(out, m)
		m = base("item other leaf + its leaf hash")
		j := r.Intn(len(leaves))
		m.item = cp(leaves[j])
		m.leaf = ref.LeafHash(m.item)
		out = append(out, m)
		m = base("item byte flip")
		if len(m.item) > 0 {
			m.item[r.Intn(len(m.item))] ^= 1 << uint(r.Intn(8))
		} else {
			m.item = []byte{0}
		}
		out = append(out, m)
		m = base("item byte flip + leaf hash recomputed")
		m.item = append(m.item, 7)
		m.leaf = ref.LeafHash(m.item)
		out = append(out, m)
		m = base("leaf hash flip")
		m.leaf[r.Intn(len(m.leaf))] ^= 1 << uint(r.Intn(8))
		out = append(out, m)
		m = base("leaf hash = inner-prefix hash of item")
		m.leaf = ref.InnerHash(m.item, nil)
		out = append(out, m)
		m = base("leaf hash truncated")
		m.leaf = m.leaf[:len(m.leaf)-1]
		out = append(out, m)
		m = base("leaf hash nil")
		m.leaf = nil
		out = append(out, m)
	}
	// aunts
	if len(p.Aunts) > 0 {
		m := base("aunt flip")
		k := r.Intn(len(m.aunts))
		m.aunts[k][r.Intn(32)] ^= 1 << uint(r.Intn(8))
		out = append(out, m)
		m = base("aunts truncated")
		m.aunts = m.aunts[:len(m.aunts)-1]
		out = append(out, m)
		m = base("aunts drop first")
		m.aunts = m.aunts[1:]
		out = append(out, m)
		if len(p.Aunts) > 1 {
			m = base("aunts swapped")
			a, b := r.Intn(len(m.aunts)), r.Intn(len(m.aunts))
			m.aunts[a], m.aunts[b] = m.aunts[b], m.aunts[a]
			out = append(out, m)
			m = base("aunts reversed")
			for a, b := 0, len(m.aunts)-1; a < b; a, b = a+1, b-1 {
				m.aunts[a], m.aunts[b] = m.aunts[b], m.aunts[a]
			}
			out = append(out, m)
		}
	}
	{
		m := base("aunts extended")
		x := make([]byte, 32)
		r.Read(x)
		m.aunts = append(m.aunts, x)
		out = append(out, m)
		m = base("aunts extended front")
		m.aunts = append([][]byte{x}, m.aunts...)
		out = append(out, m)
		m = base("aunts nil")
		m.aunts = nil
		out = append(out, m)
	}
	// transplants
	if n > 1 {
		j := (i + 1 + r.Intn(int(n)-1)) % int(n)
		pj := ref.MerklePath(leaves, j)
		m := base("aunts of another position")
		m.aunts = cps(pj)
		out = append(out, m)
		m = base("whole proof of another position, this item")
		m.aunts = cps(pj)
		m.index = int64(j)
		out = append(out, m)
		m = base("proof+item of another position, this index")
		m.aunts = cps(pj)
		m.item = cp(leaves[j])
		m.leaf = ref.LeafHash(m.item)
		out = append(out, m)
		m = base("proof+item+index of another position (genuine for j)")
		m.aunts = cps(pj)
		m.item = cp(leaves[j])
		m.leaf = ref.LeafHash(m.item)
		m.index = int64(j)
		out = append(out, m)
	}
	if other != nil {
		m := base("proof from another tree")
		m.aunts = cps(other.Aunts)
		m.index, m.total = other.Index, other.Total
		out = append(out, m)
		m = base("proof+item from another tree")
		m.aunts = cps(other.Aunts)
		m.index, m.total = other.Index, other.Total
		m.item = cp(otherItem)
		m.leaf = cp(other.LeafHash)
		out = append(out, m)
	}
	// malformed aunts: wrong lengths, and concatenations of genuine node hashes that make a
	// hash over (prefix || aunt) alone reproduce an inner node when the other operand is missing
	{
		for _, ln := range []int{0, 1, 31, 33, 64} {
			m := base(fmt.Sprintf("aunt of %d bytes", ln))
			x := make([]byte, ln)
			r.Read(x)
			if len(m.aunts) == 0 {
				m.aunts = [][]byte{x}
			} else {
				m.aunts[r.Intn(len(m.aunts))] = x
			}
			out = append(out, m)
		}
	}
	if n >= 2 {
		k := int(ref.MerkleRootSplit(len(leaves)))
		l, rr := ref.MerkleRoot(leaves[:k]), ref.MerkleRoot(leaves[k:])
		lr := append(cp(l), rr...)
		foreign := make([]byte, 1+r.Intn(40))
		r.Read(foreign)
		for v := 0; v < 6; v++ {
			m := base("aunts = [.., L||R of the root]")
			switch v {
			case 0: // the single aunt under the root, path otherwise missing
				m.aunts = [][]byte{cp(lr)}
			case 1: // genuine lower aunts dropped at random, concatenation on top
				m.aunts = append(cps(p.Aunts), cp(lr))
			case 2:
				if len(p.Aunts) > 0 {
					m.aunts = append(cps(p.Aunts[:len(p.Aunts)-1]), cp(lr))
				} else {
					m.aunts = [][]byte{cp(lr)}
				}
			case 3: // foreign item at any index of this tree
				m.aunts = [][]byte{cp(lr)}
				m.item = cp(foreign)
				m.leaf = ref.LeafHash(m.item)
				m.index = r.Int63n(n)
			case 4: // too many aunts below it
				x := make([]byte, 32)
				r.Read(x)
				m.aunts = [][]byte{x, x, x, x, x, x, x, x, cp(lr)}
				m.item = cp(foreign)
				m.leaf = ref.LeafHash(m.item)
			case 5: // R||L
				m.aunts = [][]byte{append(cp(rr), l...)}
			}
			out = append(out, m)
		}
		// index == total with the genuine path of the last leaf (and one beyond)
		last := int(n) - 1
		pl := ref.MerklePath(leaves, last)
		for _, d := range []int64{0, 1} {
			m := base(fmt.Sprintf("last leaf's proof at index total%+d", d))
			m.item = cp(leaves[last])
			m.leaf = ref.LeafHash(m.item)
			m.aunts = cps(pl)
			m.index = n + d
			out = append(out, m)
		}
	}
	// inner node presented as a leaf (second-preimage shape)
	if n >= 2 {
		k := int(ref.MerkleRootSplit(len(leaves)))
		l, rr := ref.MerkleRoot(leaves[:k]), ref.MerkleRoot(leaves[k:])
		m := base("inner node as item")
		m.item = append(append([]byte{1}, l...), rr...)
		m.leaf = ref.InnerHash(l, rr)
		m.aunts = nil
		m.index, m.total = 0, 1
		out = append(out, m)
		m = base("inner node as item, leaf hash honest")
		m.item = append(cp(l), rr...)
		m.leaf = ref.LeafHash(m.item)
		m.aunts = nil
		m.index, m.total = 0, 1
		out = append(out, m)
	}
	return out
}

// classify a disagreement "real accepts, reference rejects": is it exactly the
// known (index,total) path-shape alias of an otherwise genuine proof?
func isShapeAlias(leaves [][]byte, m mutated) bool {
	for i := range leaves {
		if !ref.ProofOK(leaves, m.item, int64(i), int64(len(leaves)), m.leaf, m.aunts) {
			continue
		}
		s1, ok1 := ref.PathShape(int64(i), int64(len(leaves)))
		s2, ok2 := ref.PathShape(m.index, m.total)
		if ok1 && ok2 && s1 == s2 {
			return true
		}
	}
	return false
}

func runProofs(c *verdict.Ctx) {
	nTrees := c.N(1500, 120000)
	for t := 0; t < nTrees; t++ {
		r := c.Rand("proof", t)
		leaves := genLeaves(r)
		begin(map[string]interface{}{"stream": "proof", "case": t, "leaves_hex": hexs(leaves)})
		root := ref.MerkleRoot(leaves)
		realRoot, proofs := merkle.ProofsFromByteSlices(leaves)
		if !bytes.Equal(root, realRoot) || !bytes.Equal(root, merkle.HashFromByteSlices(leaves)) ||
			!bytes.Equal(root, merkle.HashFromByteSlicesIterative(leaves)) {
			c.Violation("merkle-root-differs", "root computed by the implementation differs from the RFC 6962 reference",
				map[string]interface{}{"stream": "proof", "case": t, "leaves": hexs(leaves)})
			continue
		}
		oleaves := genLeaves(r)
		_, oproofs := merkle.ProofsFromByteSlices(oleaves)
		oi := r.Intn(len(oleaves))
		idxs := []int{r.Intn(len(leaves))}
		if len(leaves) > 1 {
			idxs = append(idxs, len(leaves)-1, 0)
		}
		for _, i := range idxs {
			for _, m := range mutations(r, leaves, i, proofs[i], oproofs[oi], oleaves[oi]) {
				c.Eval()
				p := merkle.Proof{Total: m.total, Index: m.index, LeafHash: m.leaf, Aunts: m.aunts}
				var err error
				func() {
					defer func() {
						if rec := recover(); rec != nil {
							err = fmt.Errorf("panic: %v", rec)
							c.Violation("merkle-verify-panics", fmt.Sprintf("Proof.Verify panicked: %v", rec), proofWitness(leaves, m, "panic", false))
						}
					}()
					begin(proofWitness(leaves, m, "in progress", false))
					err = p.Verify(root, m.item)
				}()
				// no tree has an empty root: whatever the proof looks like, it must not verify against one
				for _, empty := range [][]byte{nil, {}} {
					var eerr error
					func() {
						defer func() {
							if rec := recover(); rec != nil {
								eerr = fmt.Errorf("panic: %v", rec)
							}
						}()
						eerr = p.Verify(empty, m.item)
					}()
					c.Count("proof.verified_against_empty_root", 1)
					if eerr == nil {
						w := proofWitness(leaves, m, "accepted against an empty root", false)
						w["stream"], w["case"] = "proof", t
						c.Violation("merkle-verify-accepts-against-empty-root", "Proof.Verify accepted a proof against an EMPTY root hash (no tree has one); mutation: "+m.name, w)
					}
				}
				want := ref.ProofOK(leaves, m.item, m.index, m.total, m.leaf, m.aunts)
				got := err == nil
				c.Count("proof.verdict."+fmt.Sprint(got), 1)
				if c.Distinct("proof", m.name, got, want, len(leaves) > 1, len(m.aunts) > 2) {
					c.Count("proof.mutation_classes", 1)
				}
				c.Distinct("proofcase", t, i, m.name, m.index, m.total)
				if got == want {
					if m.name != "genuine" && c.WantSample() && r.Intn(50) == 0 {
						c.Sample(proofWitness(leaves, m, fmt.Sprint(err), want))
					}
					continue
				}
				w := proofWitness(leaves, m, fmt.Sprint(err), want)
				w["stream"], w["case"] = "proof", t
				if got && !want {
					if isShapeAlias(leaves, m) {
						c.Violation("merkle-verify-index-total-shape-alias",
							fmt.Sprintf("Proof.Verify accepted (index,total)=(%d,%d) for the item at index %d of %d leaves (same path shape)", m.index, m.total, i, len(leaves)), w)
					} else {
						c.Violation("merkle-verify-accepts-wrong", "Proof.Verify accepted a proof the reference rejects; mutation: "+m.name, w)
					}
				} else {
					c.Violation("merkle-verify-rejects-genuine", "Proof.Verify rejected a proof the reference accepts: "+fmt.Sprint(err), w)
				}
			}
		}
		// the proof runtime (proven application queries): a value operator with any proof must not verify a value
		// against an empty root (an application hash may legitimately be empty)
		if t%5 == 0 {
			key, val := []byte(fmt.Sprintf("k%d", t)), leaves[r.Intn(len(leaves))]
			vh := sha256sum(val)
			kv := append(append([]byte{byte(len(key))}, key...), append([]byte{byte(len(vh))}, vh...)...)
			for _, shape := range []merkle.Proof{
				{Total: 2 + r.Int63n(6), Index: 0},                       // aunts missing
				{Total: 1, Index: 0, Aunts: [][]byte{sha256sum(val)}},    // one aunt too many
				{Total: 1 + r.Int63n(8), Index: r.Int63n(8), Aunts: nil}, // anything
			} {
				pr := shape
				pr.LeafHash = ref.LeafHash(kv)
				op := merkle.NewValueOp(key, &pr).ProofOp()
				ops := &tmcrypto.ProofOps{Ops: []tmcrypto.ProofOp{op}}
				for _, empty := range [][]byte{nil, {}} {
					var verr error
					func() {
						defer func() {
							if rec := recover(); rec != nil {
								verr = fmt.Errorf("panic: %v", rec)
							}
						}()
						verr = merkle.DefaultProofRuntime().VerifyValue(ops, empty, "/"+string(key), val)
					}()
					c.Eval()
					c.Count("proof.value_op_against_empty_root", 1)
					if verr == nil {
						c.Violation("proofruntime-verifies-value-against-empty-root", fmt.Sprintf("ProofRuntime.VerifyValue accepted a value under a proof with total=%d index=%d aunts=%d against an EMPTY root", pr.Total, pr.Index, len(pr.Aunts)),
							map[string]interface{}{"stream": "proof", "case": t, "total": pr.Total, "index": pr.Index, "aunts": len(pr.Aunts)})
					}
				}
			}
		}
		// Tx proofs and result proofs: genuine ones must validate against the reference root,
		// and a proof for tx i must not validate for tx j != i.
		if t%10 == 0 {
			txProofs(c, r, t)
		}
		end()
	}
}

func proofWitness(leaves [][]byte, m mutated, real string, want bool) map[string]interface{} {
	return map[string]interface{}{"leaves_hex": hexs(leaves), "item_hex": verdict.Hex(m.item), "index": m.index, "total": m.total,
		"leaf_hash_hex": verdict.Hex(m.leaf), "aunts_hex": hexs(m.aunts), "mutation": m.name, "real_verdict": real, "ref_accepts": want}
}

func txProofs(c *verdict.Ctx, r *rand.Rand, t int) {
	n := 1 + r.Intn(9)
	txs := make(types.Txs, n)
	hashes := make([][]byte, n)
	for i := range txs {
		b := make([]byte, 1+r.Intn(20))
		r.Read(b)
		txs[i] = b
		hashes[i] = ref.Sha256(b)
	}
	root := ref.MerkleRoot(hashes)
	if !bytes.Equal(root, txs.Hash()) {
		c.Violation("txs-hash-differs", "Txs.Hash differs from the reference root over SHA-256(tx)", map[string]interface{}{"stream": "proof", "case": t})
		return
	}
	for i := range txs {
		c.Eval()
		tp := txs.Proof(i)
		if err := tp.Validate(root); err != nil {
			c.Violation("txproof-genuine-rejected", "genuine TxProof rejected: "+err.Error(), map[string]interface{}{"stream": "proof", "case": t, "i": i})
		}
		if !ref.ProofOK(hashes, hashes[i], tp.Proof.Index, tp.Proof.Total, tp.Proof.LeafHash, tp.Proof.Aunts) || !bytes.Equal(tp.Data, txs[i]) {
			c.Violation("txproof-genuine-wrong", "Txs.Proof(i) is not the reference proof of tx i", map[string]interface{}{"stream": "proof", "case": t, "i": i})
		}
		c.Count("txproof.genuine", 1)
		// data swapped for another tx
		if n > 1 {
			j := (i + 1 + r.Intn(n-1)) % n
			bad := tp
			bad.Data = txs[j]
			if !bytes.Equal(txs[j], txs[i]) && bad.Validate(root) == nil {
				c.Violation("txproof-wrong-data-accepted", "TxProof with another tx's data validated", map[string]interface{}{"stream": "proof", "case": t, "i": i, "j": j})
			}
			bad = tp
			bad.RootHash = ref.MerkleRoot(hashes[:n-1])
			if bad.Validate(root) == nil {
				c.Violation("txproof-wrong-root-accepted", "TxProof with a different root hash validated", map[string]interface{}{"stream": "proof", "case": t, "i": i})
			}
			c.Count("txproof.mutated", 2)
		}
	}
	// ABCI results
	res := make([]*abci.ResponseDeliverTx, n)
	leaves := make([][]byte, n)
	for i := range res {
		d := make([]byte, r.Intn(6))
		r.Read(d)
		res[i] = &abci.ResponseDeliverTx{Code: uint32(r.Intn(3)), Data: d, GasWanted: int64(r.Intn(100)), GasUsed: int64(r.Intn(100)), Log: "ignored"}
		det := &abci.ResponseDeliverTx{Code: res[i].Code, Data: res[i].Data, GasWanted: res[i].GasWanted, GasUsed: res[i].GasUsed}
		bz, err := det.Marshal()
		if err != nil {
			panic(err)
		}
		leaves[i] = bz
	}
	ar := types.NewResults(res)
	rroot := ref.MerkleRoot(leaves)
	if !bytes.Equal(rroot, ar.Hash()) {
		c.Violation("results-hash-differs", "ABCIResults.Hash differs from the reference root over (code,data,gas_wanted,gas_used)", map[string]interface{}{"stream": "proof", "case": t})
		return
	}
	for i := range res {
		c.Eval()
		p := ar.ProveResult(i)
		if !ref.ProofOK(leaves, leaves[i], p.Index, p.Total, p.LeafHash, p.Aunts) || p.Verify(rroot, leaves[i]) != nil {
			c.Violation("resultproof-genuine-wrong", "ProveResult(i) is not a valid reference proof", map[string]interface{}{"stream": "proof", "case": t, "i": i})
		}
		c.Count("resultproof.genuine", 1)
	}
}

// ---------------------------------------------------------------- part sets

type partMut struct {
	name string
	part *types.Part
}

func copyPart(p *types.Part) *types.Part {
	return &types.Part{Index: p.Index, Bytes: cp(p.Bytes), Proof: merkle.Proof{Total: p.Proof.Total, Index: p.Proof.Index, LeafHash: cp(p.Proof.LeafHash), Aunts: cps(p.Proof.Aunts)}}
}

func runParts(c *verdict.Ctx) {
	n := c.N(1500, 100000)
	sizes := []uint32{1, 7, 64, 65536}
	for t := 0; t < n; t++ {
		r := c.Rand("parts", t)
		s := sizes[r.Intn(len(sizes))]
		if s == 65536 && r.Intn(4) != 0 {
			s = 64
		}
		// lengths around multiples of s, up to 20 parts
		k := r.Intn(21)
		L := int(s)*k + []int{-1, 0, 1, r.Intn(int(s) + 1)}[r.Intn(4)]
		if s == 65536 {
			k = r.Intn(4)
			L = int(s)*k + []int{-1, 0, 1, r.Intn(1000)}[r.Intn(4)]
		}
		if L < 0 {
			L = 0
		}
		data := make([]byte, L)
		r.Read(data)
		if r.Intn(5) == 0 { // repeated chunks
			for i := int(s); i < L; i++ {
				data[i] = data[i%int(s)]
			}
		}
		var origBlockHash []byte
		isBlock := r.Intn(6) == 0
		if isBlock {
			blk := makeBlock(r)
			origBlockHash = blk.Hash()
			pb, err := blk.ToProto()
			if err != nil {
				panic(err)
			}
			data, err = pb.Marshal()
			if err != nil {
				panic(err)
			}
			L = len(data)
			if s < 7 {
				s = 64
			}
		}
		full := types.NewPartSetFromData(data, s)
		hdr := full.Header()
		total := int(hdr.Total)
		chunk := func(i int) []byte {
			lo, hi := i*int(s), (i+1)*int(s)
			if hi > L {
				hi = L
			}
			return data[lo:hi]
		}
		// reference: header total and root
		wantTotal := (L + int(s) - 1) / int(s)
		chunks := make([][]byte, wantTotal)
		for i := range chunks {
			chunks[i] = chunk(i)
		}
		if total != wantTotal || !bytes.Equal(hdr.Hash, ref.MerkleRoot(chunks)) {
			c.Violation("partset-header-wrong", "NewPartSetFromData header differs from the reference (count, root)", map[string]interface{}{"stream": "parts", "case": t, "len": L, "part_size": s})
			continue
		}
		if total == 0 {
			c.Eval()
			continue
		}
		// other set for transplants
		odata := make([]byte, L)
		r.Read(odata)
		ofull := types.NewPartSetFromData(odata, s)

		ps := types.NewPartSetFromHeader(hdr)
		// delivery schedule: shuffled genuine parts interleaved with mutations and repeats
		order := r.Perm(total)
		var sched []partMut
		for _, i := range order {
			g := full.GetPart(i)
			// hostile deliveries before the genuine one
			nh := r.Intn(4)
			for h := 0; h < nh; h++ {
				sched = append(sched, mutatePart(r, full, ofull, i, total))
			}
			sched = append(sched, partMut{"genuine", copyPart(g)})
			if r.Intn(4) == 0 {
				sched = append(sched, partMut{"genuine repeat", copyPart(g)})
			}
		}
		added := map[uint32]bool{}
		okRun := true
		for _, pm := range sched {
			c.Eval()
			p := pm.part
			var ok bool
			var err error
			func() {
				defer func() {
					if rec := recover(); rec != nil {
						err = fmt.Errorf("panic: %v", rec)
						c.Violation("partset-addpart-panics", fmt.Sprintf("AddPart panicked: %v", rec), partWitness(t, L, s, pm, false, err))
					}
				}()
				begin(partWitness(t, L, s, pm, false, nil))
				ok, err = ps.AddPart(p)
				end()
			}()
			legit := int(p.Index) < total && bytes.Equal(p.Bytes, chunk(int(p.Index)))
			c.Count(fmt.Sprintf("parts.added=%v", ok), 1)
			if c.Distinct("part", pm.name, ok, legit, total > 1) {
				c.Count("parts.mutation_classes", 1)
			}
			c.Distinct("partcase", t, pm.name, p.Index, p.Proof.Index, p.Proof.Total)
			if ok && !legit {
				okRun = false
				key := "partset-accepts-wrong-bytes"
				if int(p.Proof.Index) != int(p.Index) || p.Proof.Total != int64(total) {
					key = "partset-proof-position-unbound"
				}
				c.Violation(key, fmt.Sprintf("AddPart accepted at position %d bytes that are not piece %d of the committed data (mutation: %s)", p.Index, p.Index, pm.name),
					partWitness(t, L, s, pm, legit, err))
			}
			if ok {
				if added[p.Index] {
					c.Violation("partset-added-twice", "AddPart returned added=true twice for one index", partWitness(t, L, s, pm, legit, err))
				}
				added[p.Index] = true
			}
			if !ok && legit && !added[p.Index] && pm.name == "genuine" {
				okRun = false
				c.Violation("partset-rejects-genuine", fmt.Sprintf("AddPart rejected the genuine part %d: %v", p.Index, err), partWitness(t, L, s, pm, legit, err))
			}
			if pm.name != "genuine" && c.WantSample() && r.Intn(200) == 0 {
				c.Sample(partWitness(t, L, s, pm, legit, err))
			}
		}
		if !okRun {
			continue
		}
		if !ps.IsComplete() || int(ps.Count()) != total {
			c.Violation("partset-incomplete", "all genuine parts delivered but the set is not complete", map[string]interface{}{"stream": "parts", "case": t})
			continue
		}
		got, _ := io.ReadAll(ps.GetReader())
		if !bytes.Equal(got, data) || ps.ByteSize() != int64(L) {
			c.Violation("partset-reassembly-differs", "completed part set does not reassemble to the original bytes", map[string]interface{}{"stream": "parts", "case": t, "len": L, "part_size": s})
		}
		c.Count("parts.sets_completed", 1)
		if isBlock {
			blk, err := blockFromBytes(got)
			if err != nil || !bytes.Equal(blk.Hash(), origBlockHash) {
				c.Violation("partset-block-hash-differs", "block reassembled from parts does not hash to the original block hash", map[string]interface{}{"stream": "parts", "case": t})
			}
			c.Count("parts.blocks_reassembled", 1)
		}
	}
}

// runPartsConcurrent: the same part set is fed by several goroutines at once
// (PartSet is shared between the consensus state and the reactor's gossip
// routines and carries its own mutex): every genuine part from every goroutine,
// in different orders, with repeats.  Whatever the interleaving: added=true at
// most once per index, count never above total, complete iff every slot is
// filled, and the completed set reassembles to the original bytes.
func runPartsConcurrent(c *verdict.Ctx) {
	n := c.N(300, 20000)
	for t := 0; t < n; t++ {
		r := c.Rand("parts-conc", t)
		s := []uint32{1, 7, 64, 4096}[r.Intn(4)]
		k := 1 + r.Intn(12)
		L := int(s)*k - r.Intn(int(s))
		if L <= 0 {
			L = 1
		}
		data := make([]byte, L)
		r.Read(data)
		full := types.NewPartSetFromData(data, s)
		hdr := full.Header()
		total := int(hdr.Total)
		ps := types.NewPartSetFromHeader(hdr)
		workers := 2 + r.Intn(3)
		// partial delivery in some cases: only a subset of the indices is delivered at all
		deliver := r.Perm(total)
		partial := r.Intn(3) == 0 && total > 1
		if partial {
			deliver = deliver[:1+r.Intn(total-1)]
		}
		orders := make([][]int, workers)
		for w := range orders {
			o := append([]int{}, deliver...)
			r.Shuffle(len(o), func(a, b int) { o[a], o[b] = o[b], o[a] })
			if r.Intn(2) == 0 {
				o = append(o, o...) // repeats
			}
			orders[w] = o
		}
		addedTrue := make([]int32, total)
		var panics int32
		var wg sync.WaitGroup
		start := make(chan struct{})
		for w := 0; w < workers; w++ {
			wg.Add(1)
			go func(o []int) {
				defer wg.Done()
				defer func() {
					if rec := recover(); rec != nil {
						atomic.AddInt32(&panics, 1)
					}
				}()
				<-start
				for _, i := range o {
					ok, _ := ps.AddPart(copyPart(full.GetPart(i)))
					if ok {
						atomic.AddInt32(&addedTrue[i], 1)
					}
				}
			}(orders[w])
		}
		begin(map[string]interface{}{"stream": "parts-conc", "case": t})
		close(start)
		wg.Wait()
		end()
		c.Eval()
		c.Distinct("parts-conc", t, workers, total, partial)
		w := map[string]interface{}{"stream": "parts-conc", "case": t, "len": L, "part_size": s, "workers": workers, "delivered_indices": len(deliver), "total": total}
		if panics > 0 {
			c.Violation("partset-addpart-panics", "AddPart panicked under concurrent delivery", w)
			continue
		}
		bad := false
		for i, a := range addedTrue {
			if a > 1 {
				c.Violation("partset-added-twice", fmt.Sprintf("AddPart returned added=true %d times for index %d under concurrent delivery", a, i), w)
				bad = true
				break
			}
		}
		if bad {
			continue
		}
		filled := 0
		for i := 0; i < total; i++ {
			if ps.GetPart(i) != nil {
				filled++
			}
		}
		if filled != len(deliver) || int(ps.Count()) != filled || ps.IsComplete() != (filled == total) {
			c.Violation("partset-count-inconsistent-concurrent", fmt.Sprintf("after concurrent delivery of %d distinct parts: %d slots filled, Count()=%d, Total()=%d, IsComplete()=%v", len(deliver), filled, ps.Count(), total, ps.IsComplete()), w)
			continue
		}
		if filled == total {
			var got []byte
			func() {
				defer func() {
					if rec := recover(); rec != nil {
						got = nil
					}
				}()
				got, _ = io.ReadAll(ps.GetReader())
			}()
			if !bytes.Equal(got, data) || ps.ByteSize() != int64(L) {
				c.Violation("partset-reassembly-differs", "part set completed under concurrent delivery does not reassemble to the original bytes (or reports another size)", w)
				continue
			}
			c.Count("parts_conc.sets_completed", 1)
		} else {
			c.Count("parts_conc.sets_left_partial", 1)
		}
		c.Count(fmt.Sprintf("parts_conc.workers=%d", workers), 1)
	}
}

// runPartsHandMade: part sets whose pieces were NOT cut by NewPartSetFromData: a proposer may commit,
// in the header, to any list of pieces (empty ones and uneven ones included) - every part is then the
// genuine i-th piece under that root and AddPart accepts it.  A completed set must reassemble to
// exactly the concatenation of the committed pieces, whatever their lengths, and report that size.
func runPartsHandMade(c *verdict.Ctx) {
	n := c.N(400, 30000)
	for t := 0; t < n; t++ {
		r := c.Rand("parts-handmade", t)
		k := 1 + r.Intn(9)
		pieces := make([][]byte, k)
		var want []byte
		empties := 0
		for i := range pieces {
			var ln int
			switch r.Intn(5) {
			case 0:
				ln = 0
			case 1:
				ln = 1 + r.Intn(3)
			default:
				ln = 1 + r.Intn(200)
			}
			if ln == 0 {
				empties++
			}
			pieces[i] = make([]byte, ln)
			r.Read(pieces[i])
			want = append(want, pieces[i]...)
		}
		root, proofs := merkle.ProofsFromByteSlices(pieces)
		if !bytes.Equal(root, ref.MerkleRoot(pieces)) {
			c.Violation("merkle-root-differs", "ProofsFromByteSlices root differs from the reference root", map[string]interface{}{"stream": "parts-handmade", "case": t})
			continue
		}
		ps := types.NewPartSetFromHeader(types.PartSetHeader{Total: uint32(k), Hash: root})
		okAll := true
		for _, i := range r.Perm(k) {
			part := &types.Part{Index: uint32(i), Bytes: cp(pieces[i]), Proof: *proofs[i]}
			begin(map[string]interface{}{"stream": "parts-handmade", "case": t, "index": i})
			added, err := ps.AddPart(part)
			end()
			if !added || err != nil {
				okAll = false
				c.Violation("partset-rejects-genuine", fmt.Sprintf("AddPart rejected the genuine piece %d (%d bytes) of a hand-made part set: %v", i, len(pieces[i]), err),
					map[string]interface{}{"stream": "parts-handmade", "case": t, "index": i, "piece_len": len(pieces[i]), "pieces": k})
				break
			}
		}
		c.Eval()
		c.Distinct("parts-handmade", t, k, empties)
		if !okAll {
			continue
		}
		lens := make([]int, k)
		for i := range pieces {
			lens[i] = len(pieces[i])
		}
		w := map[string]interface{}{"stream": "parts-handmade", "case": t, "piece_lengths": lens}
		if !ps.IsComplete() {
			c.Violation("partset-incomplete", "all genuine pieces delivered but the set is not complete", w)
			continue
		}
		var got []byte
		func() {
			defer func() {
				if rec := recover(); rec != nil {
					got = nil
				}
			}()
			got, _ = io.ReadAll(ps.GetReader())
		}()
		if !bytes.Equal(got, want) || ps.ByteSize() != int64(len(want)) {
			c.Violation("partset-reassembly-differs", fmt.Sprintf("a completed part set of %d pieces reassembles to %d bytes (ByteSize %d), the committed pieces have %d", k, len(got), ps.ByteSize(), len(want)), w)
			continue
		}
		c.Count("parts_handmade.sets_completed", 1)
		if empties > 0 {
			c.Count("parts_handmade.sets_with_empty_pieces", 1)
		}
	}
}

func partWitness(t, L int, s uint32, pm partMut, legit bool, err error) map[string]interface{} {
	p := pm.part
	return map[string]interface{}{"stream": "parts", "case": t, "data_len": L, "part_size": s, "mutation": pm.name,
		"part_index": p.Index, "proof_index": p.Proof.Index, "proof_total": p.Proof.Total, "bytes_hex": verdict.Hex(p.Bytes),
		"aunts": len(p.Proof.Aunts), "is_piece_at_index": legit, "err": fmt.Sprint(err)}
}

func mutatePart(r *rand.Rand, full, other *types.PartSet, i, total int) partMut {
	g := copyPart(full.GetPart(i))
	j := i
	if total > 1 {
		j = (i + 1 + r.Intn(total-1)) % total
	}
	switch r.Intn(16) {
	case 14:
		g.Bytes = nil // the bytes field omitted on the wire
		return partMut{"bytes stripped (nil), proof genuine", g}
	case 15:
		g.Bytes = []byte{}
		return partMut{"bytes emptied, proof genuine", g}
	case 0:
		g.Index = uint32(j)
		return partMut{"index -> other, proof unchanged", g}
	case 1:
		g.Index = uint32(j)
		g.Proof.Index = int64(j)
		return partMut{"index and proof index -> other", g}
	case 2:
		o := copyPart(full.GetPart(j))
		g.Proof = o.Proof
		return partMut{"proof transplanted from other position", g}
	case 3:
		o := copyPart(full.GetPart(j))
		o.Index = uint32(i)
		return partMut{"other position's part presented here", o}
	case 4:
		if int(other.Total()) > i {
			o := copyPart(other.GetPart(i))
			return partMut{"part of another set", o}
		}
		fallthrough
	case 5:
		if len(g.Bytes) > 0 {
			g.Bytes[r.Intn(len(g.Bytes))] ^= 1 << uint(r.Intn(8))
		} else {
			g.Bytes = []byte{1}
		}
		return partMut{"data byte flipped", g}
	case 6:
		g.Proof.Total += int64(1 + r.Intn(3))
		return partMut{"proof total increased", g}
	case 7:
		g.Proof.LeafHash[r.Intn(32)] ^= 1
		return partMut{"leaf hash flipped", g}
	case 8:
		if len(g.Proof.Aunts) > 0 {
			g.Proof.Aunts[r.Intn(len(g.Proof.Aunts))][r.Intn(32)] ^= 1
			return partMut{"aunt flipped", g}
		}
		g.Proof.Aunts = [][]byte{make([]byte, 32)}
		return partMut{"aunt added", g}
	case 9:
		if len(g.Proof.Aunts) > 0 {
			g.Proof.Aunts = g.Proof.Aunts[:len(g.Proof.Aunts)-1]
			return partMut{"aunts truncated", g}
		}
		g.Index = uint32(total)
		return partMut{"index = total", g}
	case 10:
		g.Index = uint32(total + r.Intn(3))
		return partMut{"index >= total", g}
	case 11:
		g.Index = ^uint32(0) - uint32(r.Intn(2))
		return partMut{"index huge", g}
	case 12:
		g.Bytes = append(g.Bytes, 0)
		g.Proof.LeafHash = ref.LeafHash(g.Bytes)
		return partMut{"data extended, leaf hash recomputed", g}
	default:
		// same-shape alias of the proof position, index follows the proof
		sh, _ := ref.PathShape(g.Proof.Index, g.Proof.Total)
		for t := int64(1); t < int64(total)+4; t++ {
			for ix := int64(0); ix < t; ix++ {
				if s, _ := ref.PathShape(ix, t); s == sh && !(ix == g.Proof.Index && t == g.Proof.Total) {
					g.Proof.Index, g.Proof.Total = ix, t
					if r.Intn(2) == 0 {
						g.Index = uint32(ix)
					}
					return partMut{"proof (index,total) -> same-shape alias", g}
				}
			}
		}
		g.Proof.Index++
		return partMut{"proof index+1", g}
	}
}

// watchdog: the functions under test take microseconds; one that has not returned after 30 s of wall
// clock is reported (the process then exits, the spinning call cannot be cancelled).
var (
	callStart int64
	callDesc  atomic.Value
)

func begin(desc map[string]interface{}) {
	callDesc.Store(desc)
	atomic.StoreInt64(&callStart, time.Now().UnixNano())
}
func end() { atomic.StoreInt64(&callStart, 0) }

func startWatchdog(c *verdict.Ctx) {
	go func() {
		for {
			time.Sleep(time.Second)
			st := atomic.LoadInt64(&callStart)
			if st != 0 && time.Now().UnixNano()-st > int64(30*time.Second) {
				d, _ := callDesc.Load().(map[string]interface{})
				c.Violation("call-does-not-return", "a Verify / AddPart call on a generated input has not returned after 30 s", d)
				os.Exit(c.Finish(0))
			}
		}
	}()
}

func Run(c *verdict.Ctx) int {
	startWatchdog(c)
	c.Level = "exploration"
	c.Rule = "cases = (tree or part set, position, mutation) drawn from a seeded PRNG; a case is distinct by (case index, position, mutation name, index, total) and non-trivial because every one is a call of the real Verify/Validate/AddPart whose verdict is compared with the reference predicate"
	c.Assume("SHA-256 and the RFC 6962 tree shape as re-implemented in ref/merkle.go", "protobuf encoding of blocks is shared with the implementation")
	runProofs(c)
	runParts(c)
	runPartsConcurrent(c)
	runPartsHandMade(c)
	return c.Finish(1000)
}

func sha256sum(b []byte) []byte {
	h := sha256.Sum256(b)
	return h[:]
}
