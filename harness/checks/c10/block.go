package c10

import (
	"math/rand"
	"time"

	tmproto "github.com/tendermint/tendermint/proto/tendermint/types"
	tmversion "github.com/tendermint/tendermint/proto/tendermint/version"
	"github.com/tendermint/tendermint/types"
)

func makeBlock(r *rand.Rand) *types.Block {
	n := r.Intn(30)
	txs := make([]types.Tx, n)
	for i := range txs {
		b := make([]byte, 1+r.Intn(200))
		r.Read(b)
		txs[i] = b
	}
	rb := func(n int) []byte { b := make([]byte, n); r.Read(b); return b }
	lastID := types.BlockID{Hash: rb(32), PartSetHeader: types.PartSetHeader{Total: 3, Hash: rb(32)}}
	sigs := make([]types.CommitSig, 1+r.Intn(5))
	for i := range sigs {
		sigs[i] = types.CommitSig{BlockIDFlag: types.BlockIDFlagCommit, ValidatorAddress: rb(20), Timestamp: time.Unix(1600000000+int64(i), 0).UTC(), Signature: rb(64)}
	}
	h := int64(2 + r.Intn(1000))
	commit := types.NewCommit(h-1, int32(r.Intn(3)), lastID, sigs)
	blk := types.MakeBlock(h, txs, commit, nil)
	blk.Header.Version = tmversion.Consensus{Block: 11, App: 1}
	blk.Header.ChainID = "c10-chain"
	blk.Header.Time = time.Unix(1600000100, 0).UTC()
	blk.Header.LastBlockID = lastID
	blk.Header.ValidatorsHash = rb(32)
	blk.Header.NextValidatorsHash = rb(32)
	blk.Header.ConsensusHash = rb(32)
	blk.Header.AppHash = rb(r.Intn(33))
	blk.Header.LastResultsHash = rb(32)
	blk.Header.ProposerAddress = rb(20)
	return blk
}

func blockFromBytes(bz []byte) (*types.Block, error) {
	pb := new(tmproto.Block)
	if err := pb.Unmarshal(bz); err != nil {
		return nil, err
	}
	return types.BlockFromProto(pb)
}
