package c11

import (
	"fmt"

	dbm "github.com/tendermint/tm-db"

	"github.com/tendermint/tendermint/evidence"
	"github.com/tendermint/tendermint/libs/log"
	"github.com/tendermint/tendermint/mempool/mock"
	tmproto "github.com/tendermint/tendermint/proto/tendermint/types"
	"github.com/tendermint/tendermint/proxy"
	sm "github.com/tendermint/tendermint/state"
	"github.com/tendermint/tendermint/types"

	"verif/chaingen"
	"verif/recapp"
)

// ---------------------------------------------------------------------------
// The follower: a second node on the same chain whose evidence pool NEVER sees
// an item before the block that commits it.  It only applies blocks (as block
// sync, the handshake replay, or a node that was simply not gossiped the item
// do), in one of two ways:
//
//	update      Pool.Update(state, evidence of the block) is called directly
//	applyblock  a second real BlockExecutor (own app, own state store) runs
//	            ApplyBlock on the decided block, nothing else
//
// Its pool is re-created on its own evidence DB now and then.  Every item it
// has committed must be refused afterwards exactly as on the checker node
// (which had it pending first): AddEvidence must not make it pending,
// CheckEvidence and ValidateBlock of a later block carrying it must reject,
// PendingEvidence must never hand it out, Size() must equal what is listed.
// ---------------------------------------------------------------------------

const (
	keyFolAdmits   = "follower-admits-committed"
	keyFolCheck    = "follower-checkevidence-accepts-committed"
	keyFolBlock    = "follower-validateblock-accepts-committed"
	keyFolProposes = "follower-proposes-committed"
	keyFolSize     = "follower-size-differs-from-pending"
	keyFolPending  = "follower-unexpected-pending-item"
	keyFolRestart  = "follower-restart-fails"
	keyFolApply    = "follower-applyblock-rejects-decided-block"
)

type follower struct {
	mode  string // update | applyblock
	evDB  *snapDB
	px    *poolProxy
	ss    sm.Store // what the follower's pool reads states and validator sets from
	exec  *sm.BlockExecutor
	state sm.State       // applyblock mode: the follower's own state
	conns proxy.AppConns // applyblock mode
	ops   []string
}

func (h *hist) newFollower() {
	f := &follower{evDB: newSnapDB(), px: &poolProxy{}}
	f.mode = "update"
	f.ss = h.ch.StateStore
	if h.r.Intn(3) == 0 {
		f.mode = "applyblock"
		f.ss = sm.NewStore(dbm.NewMemDB(), sm.StoreOptions{})
		f.state = h.ch.Genesis.Copy()
		if err := f.ss.Save(f.state); err != nil {
			panic(err)
		}
		app := recapp.New(recapp.Options{})
		f.conns = proxy.NewAppConns(proxy.NewLocalClientCreator(app))
		f.conns.SetLogger(log.NewNopLogger())
		if err := f.conns.Start(); err != nil {
			panic(err)
		}
		app.InitChain(chaingen.InitChainReq(h.ch.GenDoc))
	}
	p, err := evidence.NewPool(f.evDB, f.ss, h.ch.BlockStore)
	if err != nil {
		panic(err)
	}
	f.px.p = p
	h.fol = f
	h.folExec()
	h.desc["follower"] = f.mode
}

// folExec (re)builds the follower's executor around its pool proxy.
func (h *hist) folExec() {
	f := h.fol
	if f.mode == "applyblock" {
		f.exec = sm.NewBlockExecutor(f.ss, log.NewNopLogger(), f.conns.Consensus(), mock.Mempool{}, f.px)
	} else {
		f.exec = sm.NewBlockExecutor(f.ss, log.NewNopLogger(), nil, mock.Mempool{}, f.px) // used for ValidateBlock only
	}
}

func (h *hist) closeFollower() {
	if h.fol != nil && h.fol.conns != nil {
		_ = h.fol.conns.Stop()
	}
}

func (h *hist) folLog(format string, a ...interface{}) {
	f := h.fol
	f.ops = append(f.ops, fmt.Sprintf("h%d ", h.ch.Height())+fmt.Sprintf(format, a...))
	if len(f.ops) > 40 {
		f.ops = f.ops[len(f.ops)-40:]
	}
}

func (h *hist) folViolation(key, what string, extra map[string]interface{}) {
	if extra == nil {
		extra = map[string]interface{}{}
	}
	extra["follower_mode"] = h.fol.mode
	extra["follower_ops_tail"] = append([]string{}, h.fol.ops...)
	h.violation(key, what, extra)
}

// folObserve: the follower never receives an uncommitted item, so whatever it
// lists is wrong; what it lists must at least match Size().
func (h *hist) folObserve(op string) map[string]bool {
	p := h.fol.px.p
	list, _ := p.PendingEvidence(-1)
	prop, _ := p.PendingEvidence(h.ch.State.ConsensusParams.Evidence.MaxBytes)
	set := map[string]bool{}
	for _, ev := range append(append([]types.Evidence{}, list...), prop...) {
		k := hashKey(ev)
		if set[k] {
			continue
		}
		set[k] = true
		if ch := h.committed[k]; ch != 0 {
			h.folViolation(keyFolProposes, fmt.Sprintf("after %s the follower lists, for its own proposals, evidence it committed in block %d", op, ch),
				map[string]interface{}{"evidence": evDesc(ev)})
		} else {
			h.folViolation(keyFolPending, "after "+op+" the follower holds a pending item it was never offered", map[string]interface{}{"evidence": evDesc(ev)})
		}
	}
	if int(p.Size()) != len(list) {
		h.folViolation(keyFolSize, fmt.Sprintf("after %s the follower reports Size()=%d and lists %d pending items", op, p.Size(), len(list)), nil)
	}
	return set
}

// followerApply feeds the block just decided on the checker to the follower.
// refOK: the reference accepts the block's evidence (false only for blocks the
// checker took because of the known expired-pending divergence; a node that
// never had those items pending refuses such a block, so an applyblock
// follower goes on as an update follower from there).
func (h *hist) followerApply(rec *chaingen.HeightRec, refOK bool) {
	f := h.fol
	if f == nil || h.dead {
		return
	}
	list := rec.Block.Evidence.Evidence
	h.cur = fmt.Sprintf("follower (%s) applies block %d with evidence %s", f.mode, rec.Height, descList(list))
	if f.mode == "applyblock" && !refOK {
		f.mode = "update"
		f.ss = h.ch.StateStore
		h.folExec()
		h.c.Count("follower/applyblock-follower-left-behind-by-known-divergence", 1)
	}
	switch f.mode {
	case "applyblock":
		var ns sm.State
		err := h.guard("follower-applyblock", nil, func() error {
			var e error
			ns, _, e = f.exec.ApplyBlock(f.state, rec.BlockID, rec.Block)
			return e
		})
		if err != nil {
			h.folViolation(keyFolApply, fmt.Sprintf("the follower's ApplyBlock rejects the block the checker decided: %v", firstErr(err)), nil)
			h.fol = nil
			return
		}
		f.state = ns
	default:
		if err := h.guard("follower-update", nil, func() error { f.px.p.Update(h.ch.State, list); return nil }); err != nil {
			h.fol = nil
			return
		}
	}
	h.folLog("%s block %d evidence=%d", f.mode, rec.Height, len(list))
	h.c.Count("follower/"+f.mode+"/blocks", 1)
	h.c.Count("follower/"+f.mode+"/evidence-committed-unseen", int64(len(list)))
	h.folObserve("applying block")
	if len(list) > 0 && h.r.Intn(2) == 0 && !h.dead {
		if h.r.Intn(3) == 0 {
			h.followerRestart()
		}
		h.probeFollower(list[h.r.Intn(len(list))], "right-after-commit")
	}
}

func (h *hist) followerRestart() {
	f := h.fol
	if f == nil || h.dead {
		return
	}
	h.cur = fmt.Sprintf("follower (%s) restart at height %d", f.mode, h.ch.Height())
	np, err := evidence.NewPool(f.evDB, f.ss, h.ch.BlockStore)
	if err != nil {
		h.folViolation(keyFolRestart, fmt.Sprintf("the follower's pool cannot be re-created on its evidence DB: %v", firstErr(err)), nil)
		h.fol = nil
		return
	}
	f.px.p = np
	h.folLog("restart")
	h.c.Count("follower/restarts", 1)
	h.folObserve("restart")
}

// probeFollower re-offers a committed item to the follower in every way a
// node can meet it again, and to the checker through the ordinary operations
// (whose oracle demands the same refusals).
func (h *hist) probeFollower(ev types.Evidence, when string) {
	f := h.fol
	if f == nil || h.dead {
		return
	}
	k := hashKey(ev)
	ch := h.committed[k]
	if ch == 0 {
		return
	}
	desc := evDesc(ev)
	extra := map[string]interface{}{"evidence": desc, "committed_in_block": ch}
	wire, gerr := gate(ev)
	if gerr != nil {
		return // cannot be delivered at all
	}
	h.c.Count("follower/probes/"+when, 1)
	// a lagging peer gossips it again
	h.cur = fmt.Sprintf("follower (%s): AddEvidence of %s, committed in block %d", f.mode, desc, ch)
	aerr := h.guard("follower-addevidence", nil, func() error { return f.px.p.AddEvidence(wire) })
	h.folLog("add committed item -> %v", aerr)
	if l, _ := f.px.p.PendingEvidence(-1); types.EvidenceList(l).Has(wire) {
		h.folViolation(keyFolAdmits, "AddEvidence made evidence pending that this node had committed in a block it applied without having seen the evidence before", extra)
	}
	h.folObserve("AddEvidence of a committed item")
	// (the three ways of meeting the item again are all tried, whatever the first one showed)
	// it arrives inside a block evidence list
	h.cur = fmt.Sprintf("follower (%s): CheckEvidence of %s, committed in block %d", f.mode, desc, ch)
	if w, err := gateList([]types.Evidence{ev}); err == nil {
		cerr := h.guard("follower-checkevidence", nil, func() error { return f.px.p.CheckEvidence(w) })
		h.folLog("check committed item -> %v", firstErr(cerr))
		if cerr == nil {
			h.folViolation(keyFolCheck, "CheckEvidence accepted evidence that this node had committed in a block it applied without having seen the evidence before", extra)
		}
		h.folObserve("CheckEvidence of a committed item")
	}
	// a later block carries it again
	h.cur = fmt.Sprintf("follower (%s): ValidateBlock of height %d carrying %s, committed in block %d", f.mode, h.ch.NextHeight(), desc, ch)
	block, _ := h.ch.Propose(chaingen.StepPlan{Evidence: []types.Evidence{wire}})
	var blk2 *types.Block
	if pb, err := block.ToProto(); err == nil {
		if bz, err := pb.Marshal(); err == nil {
			var pb2 tmproto.Block
			if pb2.Unmarshal(bz) == nil {
				blk2, _ = types.BlockFromProto(&pb2)
			}
		}
	}
	if blk2 != nil && blk2.Evidence.ByteSize() <= h.ch.State.ConsensusParams.Evidence.MaxBytes {
		st := h.ch.State
		if f.mode == "applyblock" {
			st = f.state
		}
		verr := h.guard("follower-validateblock", nil, func() error { return f.exec.ValidateBlock(st, blk2) })
		h.folLog("validate block with committed item -> %v", firstErr(verr))
		if verr == nil {
			h.folViolation(keyFolBlock, "ValidateBlock accepted a block carrying evidence that this node had committed in an earlier block it applied without having seen the evidence before", extra)
		}
		h.folObserve("ValidateBlock of a block with a committed item")
	}
	if h.dead {
		return
	}
	// the checker (which had the item pending or checked it before the commit) is asked the same
	h.opAdd(ev, "repeat-committed")
	if !h.dead {
		h.opCheck([]types.Evidence{ev}, "committed-again")
	}
}
