package c11

import (
	"fmt"
	"time"

	dbm "github.com/tendermint/tm-db"

	"github.com/tendermint/tendermint/evidence"
	tmproto "github.com/tendermint/tendermint/proto/tendermint/types"
	"github.com/tendermint/tendermint/types"
)

// ---------------------------------------------------------------------------
// The consensus path: conflicting votes handed to ReportConflictingVotes become
// DuplicateVoteEvidence inside the pool (Update -> processConsensusBuffer ->
// NewDuplicateVoteEvidence) WITHOUT passing verify.  Whatever the pool builds is
// written to the pending key space, gossiped, proposed and re-read on restart,
// so the monitor checks the stored item itself: it must be evidence that every
// other node accepts, that can be listed, and that a restarted pool can load.
// Pair shapes: two block ids with the SAME block hash and different part-set
// headers, nil versus block, block versus block; both arrival orders (which
// vote consensus saw first); prevotes and precommits.
// ---------------------------------------------------------------------------

const (
	keyConsInvalid   = "consensus-reported-evidence-invalid"
	keyConsMissing   = "consensus-reported-evidence-missing"
	keyConsPeer      = "consensus-reported-evidence-rejected-by-fresh-pool"
	keyConsBlock     = "consensus-reported-evidence-rejected-in-block"
	keyUnlistable    = "pending-unlistable"
	keyRestartFails  = "restart-fails-on-pending-record"
	keyConsRecommits = "consensus-reported-evidence-readmitted-after-commit"
)

var pairShapes = []string{"same-hash-different-parts", "nil-vs-block", "block-vs-block"}

// genShapedPair signs two conflicting votes of one validator with block ids of
// the given shape and returns them in the requested arrival order.
func (h *hist) genShapedPair(vals *types.ValidatorSet, height int64, base time.Time, shape string, lowerFirst bool, typ tmproto.SignedMsgType) (first, second *types.Vote, desc string) {
	idx := h.r.Intn(vals.Size())
	val := vals.Validators[idx]
	k := h.priv(val.Address)
	round := int32(h.r.Intn(3))
	var b1, b2 types.BlockID
	switch shape {
	case "same-hash-different-parts":
		hash := h.rand32()
		if rec := h.ch.Hist[height]; rec != nil && h.r.Intn(2) == 0 {
			hash = append([]byte{}, rec.BlockID.Hash...) // the decided block, split differently
		}
		p1 := types.PartSetHeader{Total: uint32(1 + h.r.Intn(5)), Hash: h.rand32()}
		p2 := p1
		switch h.r.Intn(3) {
		case 0:
			p2.Hash = h.rand32()
			desc = "parts-hash"
		case 1:
			p2.Total = p1.Total + uint32(1+h.r.Intn(200))
			desc = "parts-total"
		default:
			p2 = types.PartSetHeader{Total: p1.Total + uint32(1+h.r.Intn(3)), Hash: h.rand32()}
			desc = "parts-total-and-hash"
		}
		b1 = types.BlockID{Hash: hash, PartSetHeader: p1}
		b2 = types.BlockID{Hash: append([]byte{}, hash...), PartSetHeader: p2}
	case "nil-vs-block":
		b1, b2 = types.BlockID{}, h.randBlockID()
	default:
		b1, b2 = h.randBlockID(), h.randBlockID()
		if rec := h.ch.Hist[height]; rec != nil && h.r.Intn(3) == 0 {
			b1 = rec.BlockID
		}
	}
	mk := func(b types.BlockID) *types.Vote {
		v := &types.Vote{Type: typ, Height: height, Round: round, BlockID: b,
			Timestamp:        base.Add(time.Duration(h.r.Intn(5000)) * time.Millisecond).UTC(),
			ValidatorAddress: append([]byte{}, val.Address...), ValidatorIndex: int32(idx)}
		signVote(k, h.ch.ChainID, v)
		return v
	}
	lo, hi := orderVotes(mk(b1), mk(b2))
	if lowerFirst {
		return lo, hi, desc
	}
	return hi, lo, desc
}

// opReportDeep reports one shaped pair; the item the pool forms from it is
// examined after the Update that flushes it (deepCheck).
func (h *hist) opReportDeep() {
	height := h.ch.NextHeight()
	vals := h.ch.State.Validators
	base := h.ch.State.LastBlockTime
	if h.r.Intn(4) == 0 && h.ch.Height() >= h.ch.Opt.InitialHeight {
		height = h.ch.Height() - int64(h.r.Intn(2))
		if h.ch.Hist[height] == nil {
			height = h.ch.Height()
		}
		vals = h.ch.Hist[height].StateBefore.Validators
		base = h.ch.Hist[height].Block.Time
	}
	shape := pairShapes[h.r.Intn(len(pairShapes))]
	lowerFirst := h.r.Intn(2) == 0
	typ := tmproto.PrevoteType
	if h.r.Intn(2) == 0 {
		typ = tmproto.PrecommitType
	}
	first, second, sub := h.genShapedPair(vals, height, base, shape, lowerFirst, typ)
	order := "higher-key-first"
	if lowerFirst {
		order = "lower-key-first"
	}
	tag := fmt.Sprintf("%s/%s/%s", shape, order, map[tmproto.SignedMsgType]string{tmproto.PrevoteType: "prevote", tmproto.PrecommitType: "precommit"}[typ])
	h.cur = fmt.Sprintf("ReportConflictingVotes(%s %s, height %d, first=%v second=%v) at height %d", tag, sub, height, first.BlockID, second.BlockID, h.ch.Height())
	h.pool().ReportConflictingVotes(first, second)
	o := h.observe("reportconflictingvotes", 0, false)
	h.logf("report votes (deep) %s %s height=%d val=%X", tag, sub, height, short(first.ValidatorAddress))
	h.bounds("reportconflictingvotes", o, cpSet(h.prev), cpSet(h.prev)) // not before its height is decided
	h.adopt(o)
	h.buffer = append(h.buffer, bufItem{a: first, b: second, height: height, deep: true, tag: tag})
	h.c.Count("op/report-deep", 1)
	h.c.Count("consensus-pair/"+tag+"/reported", 1)
}

type deepJob struct {
	want *types.DuplicateVoteEvidence // what the statement says the pool must now hold
	tag  string
}

// scanPendingRecords decodes every record of the pending key space the way the
// pool does when it lists or reloads them.
func (h *hist) scanPendingRecords() (total int, bad []string) {
	it, err := dbm.IteratePrefix(h.evDB, []byte{0x01})
	if err != nil {
		return 0, []string{err.Error()}
	}
	defer it.Close()
	for ; it.Valid(); it.Next() {
		total++
		var pb tmproto.Evidence
		if err := pb.Unmarshal(it.Value()); err != nil {
			bad = append(bad, fmt.Sprintf("key %X: %v", short(it.Key()[1:]), err))
			continue
		}
		if _, err := types.EvidenceFromProto(&pb); err != nil {
			bad = append(bad, fmt.Sprintf("key %q: %v", string(it.Key()[1:18]), firstErr(err)))
		}
	}
	return total, bad
}

// deepCheck examines the item formed from a reported pair.
func (h *hist) deepCheck(j deepJob) {
	if h.dead {
		return
	}
	k := hashKey(j.want)
	evHeight := j.want.Height()
	h.cur = fmt.Sprintf("examining the pending item formed from reported votes (%s) %s at height %d", j.tag, evDesc(j.want), h.ch.Height())
	stored := h.prevItems[k]
	if stored == nil {
		if h.expired(evHeight) {
			h.c.Count("consensus-pair/"+j.tag+"/expired-at-flush", 1)
			return
		}
		h.violation(keyConsMissing, "conflicting votes reported by consensus did not become pending evidence when their height was decided",
			map[string]interface{}{"expected": evDesc(j.want)})
		return
	}
	h.c.Count("consensus-pair/"+j.tag+"/pending", 1)
	// 1. it is well-formed evidence that survives the wire
	wire, gerr := gate(stored)
	if err := stored.ValidateBasic(); err != nil || gerr != nil {
		h.violation(keyConsInvalid, fmt.Sprintf("the pending item formed from reported votes fails ValidateBasic / the protobuf round trip: %v", firstErr(err, gerr)),
			map[string]interface{}{"stored": evDesc(stored)})
		return
	}
	// 2. it proves the equivocation against the validator set and block time of its height
	if ok, why, _ := h.structOK(stored); !ok {
		h.violation(keyConsInvalid, "the pending item formed from reported votes fails the reference predicate: "+why,
			map[string]interface{}{"stored": evDesc(stored), "reason": why})
		return
	}
	if !h.expired(evHeight) {
		// 3. a peer that never saw it admits it ...
		if fp, err := evidence.NewPool(newSnapDB(), h.ch.StateStore, h.ch.BlockStore); err == nil {
			aerr := h.guard("addevidence", nil, func() error { return fp.AddEvidence(wire) })
			l, _ := fp.PendingEvidence(-1)
			if aerr != nil || len(l) != 1 || fp.Size() != 1 {
				h.violation(keyConsPeer, fmt.Sprintf("a fresh pool on the same chain does not admit the item formed from reported votes: %v (pending %d, Size %d)", firstErr(aerr), len(l), fp.Size()),
					map[string]interface{}{"stored": evDesc(stored)})
				return
			}
		}
		// ... and accepts it inside a block
		if fp, err := evidence.NewPool(newSnapDB(), h.ch.StateStore, h.ch.BlockStore); err == nil {
			var cerr error
			if w, err := gateList([]types.Evidence{stored}); err != nil {
				cerr = err
			} else {
				cerr = h.guard("checkevidence", nil, func() error { return fp.CheckEvidence(w) })
			}
			if cerr != nil {
				h.violation(keyConsBlock, fmt.Sprintf("a fresh pool rejects a block evidence list holding the item formed from reported votes: %v", firstErr(cerr)),
					map[string]interface{}{"stored": evDesc(stored)})
				return
			}
		}
		h.c.Count("consensus-pair/"+j.tag+"/admitted-by-fresh-pools", 1)
	}
	// 4. the pool can be re-created on the same DB and still lists it
	h.opRestart()
	if h.dead {
		return
	}
	if _, still := h.prev[k]; still {
		h.c.Count("consensus-pair/"+j.tag+"/listed-after-restart", 1)
		// 5. commit it next, then offer it again (stepHeight)
		if len(h.forceCommit) < 4 {
			h.forceCommit = append(h.forceCommit, h.prevItems[k])
		}
	}
}
