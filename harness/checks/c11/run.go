package c11

import (
	"crypto/sha256"
	"fmt"
	"os"
	"runtime"
	"runtime/debug"
	"sync"
	"time"

	"github.com/tendermint/tendermint/crypto"
	"github.com/tendermint/tendermint/evidence"
	sm "github.com/tendermint/tendermint/state"
	"github.com/tendermint/tendermint/store"
	"github.com/tendermint/tendermint/types"

	"verif/chaingen"
	"verif/verdict"
)

var intervals = []time.Duration{time.Second, 5 * time.Second, time.Minute, time.Hour, 6 * time.Hour}

func newHist(c *verdict.Ctx, idx int) *hist {
	h := &hist{c: c, idx: idx, r: c.Rand("hist", idx), phantom: map[string]crypto.PrivKey{},
		lcaVerdict: map[string]lcaInfo{}, wire: map[types.Evidence]*wireMut{}, dveMemo: map[string]lcaInfo{}, committed: map[string]int64{}, prev: map[string]string{},
		prevItems: map[string]types.Evidence{}, prevHeights: map[string]int64{}}
	r := h.r
	nvals := 2 + r.Intn(6)
	powers := make([]int64, nvals)
	for i := range powers {
		powers[i] = 1 + r.Int63n(30)
		if r.Intn(6) == 0 {
			powers[i] = 1 + r.Int63n(1000)
		}
	}
	interval := intervals[r.Intn(len(intervals))]
	maxAge := int64(2 + r.Intn(19))
	var maxDur time.Duration
	mode := []string{"time-limit-first", "block-limit-first", "close"}[r.Intn(3)]
	switch mode {
	case "time-limit-first": // the duration runs out well before the block count does
		maxDur = time.Duration(float64(interval) * (0.5 + r.Float64()*float64(maxAge)*0.5))
	case "block-limit-first":
		maxDur = time.Duration(float64(interval) * float64(maxAge) * (1.5 + 2.5*r.Float64()))
	default: // both limits are crossed within a block or two of each other
		maxDur = interval*time.Duration(maxAge) + time.Duration(r.Int63n(int64(2*interval))) - interval
	}
	if maxDur <= 0 {
		maxDur = interval / 2
	}
	maxBytes := int64(1 << 20)
	if r.Intn(3) == 0 {
		maxBytes = 500 + r.Int63n(4500)
	}
	params := types.DefaultConsensusParams()
	params.Evidence.MaxAgeNumBlocks = maxAge
	params.Evidence.MaxAgeDuration = maxDur
	params.Evidence.MaxBytes = maxBytes
	heights := 50 + r.Intn(251)
	h.churnPct = []int{0, 10, 25, 50}[r.Intn(4)]
	if interval >= time.Hour && r.Intn(2) == 0 { // recapp's evage tx resets the duration to 48h
		h.paramAt = int64(10 + r.Intn(heights-10))
		h.paramAge = int64(2 + r.Intn(19))
	}
	h.evDB = newSnapDB() // snapshot iterators, see snapdb.go
	h.px = &poolProxy{}
	h.ch = chaingen.New(chaingen.Options{Seed: c.SubSeed("keys", idx), Powers: powers, Params: params, BlockInterval: interval,
		EvPool: func(ss sm.Store, bs *store.BlockStore) sm.EvidencePool {
			p, err := evidence.NewPool(h.evDB, ss, bs)
			if err != nil {
				panic(err)
			}
			h.px.p = p
			return h.px
		}})
	h.desc = map[string]interface{}{"validators": powers, "block_interval": interval.String(), "max_age_num_blocks": maxAge,
		"max_age_duration": maxDur.String(), "limits": mode, "max_bytes": maxBytes, "heights": heights, "churn_pct": h.churnPct,
		"param_change_at": h.paramAt, "param_change_age": h.paramAge}
	return h
}

func (h *hist) registerLCA(ev *types.LightClientAttackEvidence, ok bool, name string) {
	h.lcaVerdict[bytesKey(ev)] = lcaInfo{ok, name}
}

func (h *hist) oneOp() {
	L := h.ch.Height()
	switch c := h.r.Intn(100); {
	case c < 22:
		h.opAdd(h.genDVE(h.pickHeight(L)), "genuine")
		h.c.Count("op/add-genuine-dve", 1)
	case c < 42:
		base := h.genDVE(h.pickHeight(L))
		name := dvePerturbations[h.r.Intn(len(dvePerturbations))]
		if p := h.perturbDVE(base, name); p != nil {
			h.opAdd(p, name)
			h.c.Count("op/add-perturbed-dve", 1)
		}
	case c < 50:
		var pool []types.Evidence
		label := "repeat-valid"
		switch h.r.Intn(3) {
		case 0:
			pool, label = h.committedList, "repeat-committed"
		case 1:
			pool, label = h.rejected, "repeat-rejected"
		default:
			pool = h.validSeen
		}
		if len(pool) > 0 {
			h.opAdd(pool[h.r.Intn(len(pool))], label)
			h.c.Count("op/add-"+label, 1)
		}
	case c < 62:
		list, label := h.craftedList()
		h.opCheck(list, label)
		if !h.dead && h.r.Intn(3) == 0 {
			h.opCheck(list, label+"-again")
		}
		h.c.Count("op/check", 1)
	case c < 70:
		if h.r.Intn(2) == 0 {
			h.opReportDeep()
		} else {
			h.opReport()
		}
	case c < 74:
		h.opRestart()
	case c < 80:
		m := h.ch.State.ConsensusParams.Evidence.MaxBytes
		switch h.r.Intn(3) {
		case 0:
			m = h.r.Int63n(3000)
		case 1:
			m = 0
		}
		h.opPending(m)
	case c < 90:
		if h.r.Intn(8) == 0 {
			h.opForwardLunatic()
			return
		}
		if b := h.genLCA(); b != nil {
			h.registerLCA(b.ev, true, "genuine-"+b.kind)
			h.maybeWire(b.ev, "")
			h.opAdd(b.ev, "genuine-"+b.kind)
			h.c.Count("op/add-genuine-lca", 1)
		}
	case c < 96:
		if b := h.genLCA(); b != nil {
			h.registerLCA(b.ev, true, "genuine-"+b.kind)
			name := h.pickLCAPerturbation()
			if p := h.perturbLCA(b, name); p != nil {
				h.registerLCA(p, false, name)
				h.maybeWire(p, name)
				if h.r.Intn(3) == 0 { // the perturbed twin of a pending genuine item
					h.opAdd(b.ev, "genuine-"+b.kind)
				}
				if !h.dead {
					h.opAdd(p, name)
				}
				h.c.Count("op/add-perturbed-lca", 1)
			}
		}
	case c < 98 && h.fol != nil:
		// the follower meets an item again that it committed some time ago
		if h.r.Intn(3) == 0 {
			h.followerRestart()
		}
		if len(h.committedList) > 0 {
			h.probeFollower(h.committedList[h.r.Intn(len(h.committedList))], "later")
		}
	default:
		// a block (or a second look at the same proposal) carrying light-client-attack evidence that is already pending
		for _, ev := range h.pendingItems() {
			if _, is := ev.(*types.LightClientAttackEvidence); is {
				h.opCheck([]types.Evidence{ev}, "pending-lca")
				h.c.Count("op/check-pending-lca", 1)
				break
			}
		}
	}
}

func runHistory(c *verdict.Ctx, idx int) {
	h := newHist(c, idx)
	defer h.ch.Close()
	h.newFollower()
	defer h.closeFollower()
	heights := h.desc["heights"].(int)
	// a few evidence-free heights first
	for i := 0; i < 3 && !h.dead; i++ {
		h.applyBlock(chaingen.StepPlan{}, nil, "none")
	}
	for !h.dead && h.ch.Height() < int64(heights) {
		nops := []int{0, 1, 1, 1, 2, 2, 3}[h.r.Intn(7)]
		for i := 0; i < nops && !h.dead; i++ {
			h.oneOp()
		}
		if !h.dead {
			h.stepHeight()
		}
	}
	c.Eval()
	c.Count("heights_decided", h.ch.Height())
	c.Count("evidence_admission_expected", int64(h.nAdmit))
	c.Count("evidence_rejection_expected", int64(h.nReject))
	c.Count("pending_items_pruned_as_expired", int64(h.nExpiredPruned))
	c.Count("evidence_from_reported_votes", int64(h.nBuffered))
	if h.nAdmit > 0 && h.nReject > 0 && h.nCommitted > 0 && !h.dead {
		d := sha256.New()
		for _, l := range h.log {
			d.Write([]byte(l))
		}
		c.Distinct("hist", idx, d.Sum(nil))
	}
	if h.nExpiredPruned > 0 {
		c.Count("histories_with_expiry", 1)
	}
	if h.nRestart > 0 {
		c.Count("histories_with_restart", 1)
	}
	if c.WantSample() && idx < 3 {
		n := len(h.log)
		if n > 25 {
			n = 25
		}
		c.Sample(map[string]interface{}{"index": idx, "history": h.desc, "first_ops": h.log[:n], "ops_total": len(h.log)})
	}
}

type replayWitness struct {
	Index int   `json:"index"`
	Seed  int64 `json:"seed"`
}

func Run(c *verdict.Ctx) int {
	c.Level = "exploration"
	c.Rule = "case = one history (chain of 50-300 heights with validator churn and a real evidence.Pool under the real BlockExecutor, interleaved with add/check/validate-block/report/pending/restart operations on genuine and perturbed evidence); distinct by (index, digest of the operation log); non-trivial iff the reference expected at least one admission and one rejection and at least one evidence item was committed in a block"
	c.Assume(
		"ed25519 verification, the vote sign-bytes encoding, protobuf encoding of evidence/blocks and Evidence.Hash() as identity of an item are shared with the implementation",
		"validator sets, block times and consensus parameters of each height are taken from the chaingen history (real state transition, not under test here)",
		"light-client-attack evidence has no general reference predicate: verdicts are fixed at generation (generated-genuine with the canonical commit available / curated always-invalidating perturbation)",
		"genuine light-client-attack evidence is only generated for conflicting heights <= latest-1 (the pool needs the canonical commit, stored with the next block)",
	)
	if rp := c.Replay(); rp != "" {
		var w replayWitness
		if err := verdict.LoadReplay(rp, &w); err != nil {
			c.HarnessError("cannot load replay: %v", err)
			return c.Finish(0)
		}
		c.Seed = w.Seed
		runHistory(c, w.Index)
		return c.Finish(0)
	}
	if os.Getenv("VERIF_C11_SIMCASE") != "" { // debug: one simulator case only
		runSimStage(c)
		return c.Finish(0)
	}
	n := c.N(400, 20000)
	workers := runtime.NumCPU()
	if workers > 16 {
		workers = 16
	}
	var wg sync.WaitGroup
	next := make(chan int, workers)
	for w := 0; w < workers; w++ {
		wg.Add(1)
		go func() {
			defer wg.Done()
			for idx := range next {
				idx := idx
				done := make(chan struct{})
				go func() {
					defer close(done)
					defer func() {
						if r := recover(); r != nil {
							c.HarnessError("C11 history %d panicked: %v\n%s", idx, r, debug.Stack())
						}
					}()
					runHistory(c, idx)
				}()
				select {
				case <-done:
				case <-time.After(20 * time.Minute): // generous watchdog; a history takes well under a second of CPU
					c.Inconclusive(fmt.Sprintf("history %d did not finish within the 20 min watchdog", idx))
				}
			}
		}()
	}
	for i := 0; i < n; i++ {
		next <- i
	}
	close(next)
	wg.Wait()
	runSimStage(c) // consensus path: equivocation seen by real consensus states ends up in blocks once
	return c.Finish(n * 3 / 4)
}

var _ = fmt.Sprint
