package c11

// Consensus-path stage of C11 (engine sim): faulty validators equivocate in
// front of real consensus states whose real evidence pools turn the conflicting
// votes into evidence.  Over the decided chain of every correct node:
//   - evidence in a decided block accuses only validators that really signed
//     two different votes for the same height/round/type (the simulator knows
//     every vote the faulty keys signed; a correct validator never does);
//   - the same evidence (by hash) is never in two blocks, nor twice in one;
//   - every item verifies against the validator set and block time of its
//     height (reference predicate of this package);
//   - the pool's Size() equals the number of items PendingEvidence returns.

import (
	"bytes"
	"fmt"
	"os"
	"runtime"
	"strconv"
	"sync"
	"time"

	"github.com/tendermint/tendermint/types"

	"verif/ref"
	"verif/sim"
	"verif/verdict"
)

func runSimCase(c *verdict.Ctx, idx int) {
	r := c.Rand("sim", idx)
	cfg := sim.DrawConfig(r, false)
	if len(cfg.Faulty) == 0 {
		// make sure somebody can equivocate: take the smallest validator if that keeps faulty power < 1/3
		total, min, mi := int64(0), int64(1<<62), 0
		for i, p := range cfg.Powers {
			total += p
			if p < min {
				min, mi = p, i
			}
		}
		if 3*min < total {
			cfg.Faulty = []int{mi}
		}
	}
	net := sim.NewNet(r, sim.NetOpt{Seed: c.SubSeed("sim-keys", idx), Powers: cfg.Powers, Faulty: cfg.Faulty,
		SkipTimeoutCommit: cfg.Skip, InitialHeight: cfg.InitialH})
	defer net.Close()
	net.JournalOn = true
	net.Start()
	net.Pump()
	type seen struct {
		height int64
		node   int
	}
	committed := map[int]map[string]int64{} // node -> evidence hash -> height
	items := 0
	net.OnDecide = func(nd *sim.Node, h int64) {
		b := nd.Blocks.LoadBlock(h)
		if b == nil {
			return
		}
		if committed[nd.Idx] == nil {
			committed[nd.Idx] = map[string]int64{}
		}
		inBlock := map[string]bool{}
		for _, ev := range b.Evidence.Evidence {
			items++
			k := string(ev.Hash())
			w := map[string]interface{}{"stream": "sim", "case": idx, "config": cfg, "node": nd.Idx, "height": h, "evidence": ev.String()}
			if inBlock[k] {
				c.Violation("sim-evidence-twice-in-one-block", fmt.Sprintf("node %d height %d: the same evidence appears twice in the decided block", nd.Idx, h), w)
			}
			inBlock[k] = true
			if prev, ok := committed[nd.Idx][k]; ok {
				c.Violation("sim-evidence-in-two-blocks", fmt.Sprintf("node %d: the same evidence is in the decided blocks of heights %d and %d", nd.Idx, prev, h), w)
			}
			committed[nd.Idx][k] = h
			dv, ok := ev.(*types.DuplicateVoteEvidence)
			if !ok {
				continue
			}
			g, known := net.AddrIdx[string(dv.VoteA.ValidatorAddress)]
			if !known || !net.IsFaulty[g] {
				c.Violation("sim-evidence-against-correct-validator", fmt.Sprintf("node %d height %d: evidence accuses validator %X, which never equivocated", nd.Idx, h, dv.VoteA.ValidatorAddress), w)
				continue
			}
			// must prove the misbehaviour against the validator set and block time of its height
			pre, ok := nd.PreState[dv.Height()]
			meta := nd.Blocks.LoadBlockMeta(dv.Height())
			if !ok || meta == nil {
				continue
			}
			if why := refDuplicateVoteBasic(net.ChainID, dv, pre.Validators, meta.Header.Time); why != "" {
				c.Violation("sim-invalid-evidence-committed", fmt.Sprintf("node %d height %d: committed duplicate-vote evidence fails the reference predicate: %s", nd.Idx, h, why), w)
			}
			c.Count("sim.evidence_items_committed", 1)
		}
	}
	steps := 300 + r.Intn(900)
	for s := 0; s < steps; s += 50 {
		net.AsyncRun(50)
		// pool size == number of pending items, at every pause
		for _, i := range net.Order {
			nd := net.Nodes[i]
			if nd.Halted != "" {
				continue
			}
			pend, _ := nd.EvPool.PendingEvidence(-1)
			if int(nd.EvPool.Size()) != len(pend) {
				c.Violation("sim-size-differs-from-pending", fmt.Sprintf("node %d: Size() = %d but %d items are pending", i, nd.EvPool.Size(), len(pend)),
					map[string]interface{}{"stream": "sim", "case": idx, "config": cfg, "node": i})
			}
			c.Count("sim.size_checks", 1)
		}
	}
	_, hi := net.MinMaxHeight()
	net.RunSync(hi, 60, 2000, func() {
		if len(net.Faulty) > 0 && net.R.Intn(2) == 0 {
			net.ByzStep()
		}
	})
	// one more height everywhere (without further misbehaviour): pairs reported during a height are turned into
	// evidence when the following block is applied
	if _, hi2 := net.MinMaxHeight(); hi2 >= hi {
		net.RunSync(hi2+1, 60, 2000, nil)
	}
	// ---- completeness: conflicting votes that consensus has seen become evidence once their height is decided.
	// Judged only where it is certain that the vote set saw the conflict: two validly signed ROUND-0 votes of
	// one faulty validator (the round-0 vote sets exist from the start of a height), same type, different block
	// ids, both delivered to the node while it was at that height - in either way the second one can come in
	// (refused as conflicting, or admitted because of a peer's majority claim).
	cache := ref.NewSigCache()
	for _, i := range net.Order {
		nd := net.Nodes[i]
		if nd.Halted != "" {
			continue
		}
		type slot struct {
			h   int64
			typ int32
			idx int32
		}
		first := map[slot]*types.Vote{}
		reportedOnce := map[slot]bool{}
		for _, d := range nd.Journal {
			if d.Kind != "vote" || d.Vote == nil || d.AtHeight != d.Vote.Height || d.Vote.Round != 0 {
				continue
			}
			v := d.Vote
			g, known := net.AddrIdx[string(v.ValidatorAddress)]
			pre, ok := nd.PreState[v.Height]
			if !known || !net.IsFaulty[g] || !ok || v.ValidatorIndex < 0 || int(v.ValidatorIndex) >= pre.Validators.Size() {
				continue
			}
			val := pre.Validators.Validators[v.ValidatorIndex]
			if !bytes.Equal(val.Address, v.ValidatorAddress) ||
				!cache.Verify(val.PubKey, ref.CanonicalVoteSignBytes(net.ChainID, int32(v.Type), v.Height, v.Round, v.BlockID, v.Timestamp), v.Signature) {
				continue
			}
			k := slot{v.Height, int32(v.Type), v.ValidatorIndex}
			f := first[k]
			if f == nil {
				first[k] = v
				continue
			}
			if f.BlockID.Equals(v.BlockID) || reportedOnce[k] {
				continue
			}
			reportedOnce[k] = true
			c.Count("sim.round0_equivocations_delivered_to_a_node", 1)
			if v.Height+1 > nd.Blocks.Height() {
				// the pool turns reported pairs into evidence when the next block is applied; a conflicting vote that
				// itself completes the commit is reported only after that block has been applied (the report follows
				// addVote, which runs finalizeCommit), so the pair becomes evidence one height later: judge only
				// once the following height is decided here too
				continue
			}
			found := false
			match := func(ev types.Evidence) bool {
				dv, ok := ev.(*types.DuplicateVoteEvidence)
				return ok && dv.VoteA.Height == v.Height && dv.VoteA.Round == 0 && dv.VoteA.Type == v.Type && bytes.Equal(dv.VoteA.ValidatorAddress, v.ValidatorAddress)
			}
			pend, _ := nd.EvPool.PendingEvidence(-1)
			for _, ev := range pend {
				found = found || match(ev)
			}
			for h := v.Height + 1; h <= nd.Blocks.Height() && !found; h++ {
				if b := nd.Blocks.LoadBlock(h); b != nil {
					for _, ev := range b.Evidence.Evidence {
						found = found || match(ev)
					}
				}
			}
			if !found && os.Getenv("VERIF_C11_DEBUG") != "" {
				for _, d2 := range nd.Journal {
					if d2.Kind == "vote" && d2.Vote != nil && d2.Vote.Height == v.Height && bytes.Equal(d2.Vote.ValidatorAddress, v.ValidatorAddress) {
						fmt.Printf("DEBUG node %d step %d atHeight %d internal=%v vote %v\n", i, d2.Step, d2.AtHeight, d2.Internal, d2.Vote)
					}
				}
				rs := nd.CS.GetRoundState()
				fmt.Printf("DEBUG node %d now at %d/%d/%v store height %d halted=%q pending=%d\n", i, rs.Height, rs.Round, rs.Step, nd.Blocks.Height(), nd.Halted, len(pend))
				for h := int64(1); h <= nd.Blocks.Height(); h++ {
					if b := nd.Blocks.LoadBlock(h); b != nil {
						fmt.Printf("DEBUG   block %d evidence %d commit round %d\n", h, len(b.Evidence.Evidence), func() int32 {
							if b.LastCommit != nil {
								return b.LastCommit.Round
							}
							return -1
						}())
					}
				}
			}
			if found {
				c.Count("sim.round0_equivocations_turned_into_evidence", 1)
			} else {
				c.Violation("sim-seen-equivocation-never-became-evidence", fmt.Sprintf("node %d was delivered two validly signed conflicting round-0 votes (type %v) of validator %X at height %d while it was at that height, the height is decided, but no evidence for it is pending or committed at that node", i, v.Type, v.ValidatorAddress, v.Height),
					map[string]interface{}{"stream": "sim", "case": idx, "config": cfg, "node": i, "height": v.Height, "vote_a": f.String(), "vote_b": v.String()})
			}
		}
	}
	c.Eval()
	c.Count("sim.executions", 1)
	c.Count("sim.decisions", int64(net.Stats["decisions"]))
	if items > 0 {
		c.Count("sim.executions_with_evidence_in_blocks", 1)
		c.Distinct("sim", idx, items, net.Stats["decisions"])
	}
}

func runSimStage(c *verdict.Ctx) {
	if v := os.Getenv("VERIF_C11_SIMCASE"); v != "" { // debug: one case only
		k, _ := strconv.Atoi(v)
		runSimCase(c, k)
		return
	}
	n := c.N(150, 5000)
	var wg sync.WaitGroup
	jobs := make(chan int, 32)
	for w := 0; w < runtime.NumCPU(); w++ {
		wg.Add(1)
		go func() {
			defer wg.Done()
			for j := range jobs {
				runSimCase(c, j)
			}
		}()
	}
	for i := 0; i < n; i++ {
		jobs <- i
	}
	close(jobs)
	wg.Wait()
}

// refDuplicateVoteBasic is refDVE against an explicitly given validator set and block time.
func refDuplicateVoteBasic(chainID string, e *types.DuplicateVoteEvidence, vals *types.ValidatorSet, blockTime time.Time) string {
	if e == nil || e.VoteA == nil || e.VoteB == nil {
		return "nil"
	}
	a, b := e.VoteA, e.VoteB
	if !voteWellFormed(a) || !voteWellFormed(b) {
		return "malformed-vote"
	}
	if !bytes.Equal(a.ValidatorAddress, b.ValidatorAddress) {
		return "different-validators"
	}
	if a.Height != b.Height || a.Round != b.Round || a.Type != b.Type {
		return "hrs-differ"
	}
	if blockIDEqual(a.BlockID, b.BlockID) {
		return "same-blockid"
	}
	val := findVal(vals, a.ValidatorAddress)
	if val == nil {
		return "not-a-validator-at-height"
	}
	if !val.PubKey.VerifySignature(types.VoteSignBytes(chainID, a.ToProto()), a.Signature) {
		return "sigA"
	}
	if !val.PubKey.VerifySignature(types.VoteSignBytes(chainID, b.ToProto()), b.Signature) {
		return "sigB"
	}
	if e.ValidatorPower != val.VotingPower {
		return "validator-power"
	}
	if e.TotalVotingPower != sumPower(vals) {
		return "total-power"
	}
	if !e.Timestamp.Equal(blockTime) {
		return "timestamp"
	}
	return ""
}
